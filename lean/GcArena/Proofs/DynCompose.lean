import GcArena.Proofs.Quiet
import GcArena.Proofs.InvRun
import GcArena.Proofs.Exact
import GcArena.Proofs.DynRootsLemmas
/-!
# DynCompose — the DynamicRootSet slot table coupled with the collector (property C14, composed)

Two developments exist side by side: the collector (`GcArena.Arena`, `GcArena.Op`, `inv_run`, C01,
C02, C06) and the slot table of `src/dynamic_roots.rs` (`GcArena.DynRoots`, `DynRoots.inv_run`,
Props/C14).  This file makes their composition a *system* and proves the relation that ties them
together to be an invariant of that system.  Nothing is added to either model: no new constructor
of `GcArena.Op`, no new field; the coupled system runs the two existing `step` functions.

## The coupled system (`Sys`, `COp`, `Sys.step`, `Sys.run`)

`Sys` = an arena `a`, a slot-table state `d`, and for every set id `s` a `SetLoc`: the root slot
that holds the `DynamicRootSet<'gc>` pointer, the heap id of the set object (`Gc<Inner>`), and the
number `cap` of slots the set object was allocated with — plus two ghost lists recording the ops
executed on either side (`aops`, `dops`; never read by `Sys.step`).

Every coupled operation is a `DynRoots.Op` paired with a *list of existing `GcArena.Op`s*:

| `COp`                  | slot-table side        | collector side (`GcArena.Op`s)                                  |
|------------------------|------------------------|-----------------------------------------------------------------|
| `newSet k cap`         | `newSet`               | `alloc true (replicate cap none)`, `rootStore k (strong id)`     |
| `stash s r`            | `stash s r` → slot `i` | `readRoot k`, `barrier (bb obj (some r))`, `store raw obj i r`   |
| `clone h`              | `clone h`              | —                                                               |
| `dropHandle h`, others of the slot remain | `dropHandle h` | —                                                    |
| `dropHandle h`, last handle of its slot   | `dropHandle h` | outside a callback: `enter mutate`, `readRoot k`, `store raw obj i none`, `leave`; inside one: `readRoot k`, `store raw obj i none` |
| `fetch s h`/`tryFetch` | `fetch`/`tryFetch`     | inside a callback, own live handle: `readRoot k`, `read obj i`   |
| `contains s h`         | `contains`             | —                                                               |
| `gc op`                | —                      | `op` (guard `Sys.allowed`)                                      |
| `dropArena`            | `destroySet s`, every `s` | `dropArena` (outside callbacks)                              |

* `stash` is `mc.backward_barrier(Gc::erase(self.0), Some(Gc::erase(root)))` followed by
  `slots.add(root)` (src/dynamic_roots.rs).  The `.raw` store is licensed by the `Cover.pair` the
  barrier op has just recorded (`Arena.coverOK`); `stash_net` shows all three ops are accepted and
  states their exact net effect.
* Dropping the last handle of a slot happens in `DynamicRoot::drop`, through the `Weak<RefCell<Slots>>`,
  **outside any callback and with no barrier**.  A `.raw` store of `none` is accepted by the
  collector model without any cover (`Arena.coverOK _ _ none = true`), so the encoding uses `.raw`,
  not `.write`: `clear_net_outside` proves the four ops are accepted and that their net effect on
  the arena is *exactly* `setSlot ctx obj i none` — same colours, queues, phase, metrics, root,
  cover, callback state.  This is faithful, not conservative.  Inside a running callback the
  `enter`/`leave` pair is omitted and the set pointer joins the held pointers (`clear_net_inside`;
  conservative: the client could read that pointer from the root anyway).
* `fetch` is encoded as reading the set object's slot through the root, so "the fetched pointer"
  is literally the content of slot `h.index` of the set object (`fetch_net`).

* Dropping the arena destructs every object, hence every set object, whose `Inner` drops its
  `Rc<RefCell<Slots>>`: `Weak::upgrade` fails from then on.  The coupled op pairs `dropArena` with
  `destroySet` for every set; afterwards the collector model refuses every op and handle clones /
  drops only add / remove handles (`Dead.step`, `C14.outlive`).

## The coupling relation (`Coupled`)

`arena`/`dyn`: both sides are runs of the two existing models from their initial states (so every
theorem stated for `(Arena.new n).run ops` / `DynRoots.run State.init ops` applies verbatim);
`len`, `distinct`: one `SetLoc` per set, with pairwise different set objects;
`sets` (while the arena exists — `Live`): for every set `s`, the root slot holds the set object, the
set object is allocated, undestructed, traced (`needs_trace`), has exactly `cap` slots, and **slot
`i` of the object is `some (strong r)` iff table slot `i` is `Occupied { root = r, .. }`, `none` if
it is vacant or beyond the table's end** (`mirror`); the table has at most `cap` slots.  Hence the
object's strong slots are exactly `Slots.traced` (`mem_mirror`).
`dead` (once the arena has been dropped — `Dead`): no set is alive.

`Coupled.init`, `Coupled.step`, `Coupled.run`: the relation holds initially (no sets; sets are
created by the coupled op `newSet`) and is preserved by every coupled operation.

## Restrictions (all explicit here; the theorems hold for exactly this system)

Proofs/DynReach.lean is the general system without R2, R4, R6 (sets referenced from anywhere and
destroyed when swept, growing slot list, drops in any arena state, other arenas as environment), at
the price of one transition that is not an `Arena.step`; the theorems about *this* system are the
`…_partial` ones of Props/C14s.lean.

* **R1 single arena.**  All sets of `d` belong to the one arena `a`.  (Handles presented to a
  foreign set are covered by the slot-table theorems alone: `C14.fetch_identity`.)
* **R2 sets are pinned in root slots.**  A set is created inside a `mutate_root` callback and its
  pointer is stored directly in a root slot `k` that holds no other set; `Sys.allowed` forbids
  `rootStore` over such a slot.  So a set object is always strongly reachable from the root (this
  is the property's premise "a DynamicRootSet that is reachable from the root", in its simplest
  form) and is never collected while the arena exists: `destroySet` occurs in coupled histories
  only as part of the arena drop.
* **R3** (`dropArena` is a coupled op of its own, not a `gc` op: `Sys.allowed` rejects the bare
  collector-model op, which would leave the tables behind.)
* **R4 fixed capacity.**  A heap object of the collector model has a slot *list* of fixed length, so
  the set object is allocated with `cap` slots (`newSet k cap`, any `cap`), and a `stash` whose
  table index would be `≥ cap` is *not a coupled operation* (`Sys.step` ignores it on both sides).
  `Vec` growth inside the set object is not modelled.
* **R5** `Sys.allowed` forbids client `store`s into a set object (`Inner.slots` is private to
  `dynamic_roots.rs`: no client can write it) — excludes nothing a client can do.
* **R6 `MarkedArena` window.**  Like every `GcArena.Op`, the ops of the drop encoding reset the
  model's `marked` flag: a handle dropped between `finish_marking()` and `MarkedArena::finalize`
  is modelled as dropping the `MarkedArena` first (the `finalize` callback is then rejected).
  Precisely: the excluded histories are those of the shape `finish_marking()` (or `mark_debt()`)
  returning `Some(marked)`, then a drop of the *last* handle of some slot, then
  `marked.finalize(..)`; clones, fetches and drops that leave another handle of the slot do not touch
  the arena and are not excluded, and handle drops in every other state — including between two
  collection increments, in any phase — are covered.  (The general system has no such exclusion
  and its `finalize` callbacks may fetch and stash: Props/C14s.lean `gdemo`.)
* `stash`, `fetch`, `newSet` need an active callback (they take `&Mutation`), `stash` needs the
  stashed pointer held: what safe Rust demands.  A coupled op whose guard fails changes nothing.
-/
namespace GcArena.DynCompose
open GcArena

/-! ## 1. Frame facts about the collector model -/

/-- Object `x` stays allocated with the same slot list, `needs_trace` flag and liveness. -/
def KeepAt (x : Nat) (c c' : Ctx) : Prop :=
  ∀ o, c.heap.get x = some o → ∃ o', c'.heap.get x = some o' ∧ o'.slots = o.slots ∧
    o'.needsTrace = o.needsTrace ∧ o'.live = o.live

theorem KeepAt.refl (x : Nat) (c : Ctx) : KeepAt x c c := fun o ho => ⟨o, ho, rfl, rfl, rfl⟩

theorem KeepAt.trans {x : Nat} {a b c : Ctx} (h1 : KeepAt x a b) (h2 : KeepAt x b c) :
    KeepAt x a c := by
  intro o ho
  obtain ⟨o1, ho1, s1, n1, l1⟩ := h1 o ho
  obtain ⟨o2, ho2, s2, n2, l2⟩ := h2 o1 ho1
  exact ⟨o2, ho2, s2.trans s1, n2.trans n1, l2.trans l1⟩

theorem KeepAt.ofGet {x : Nat} {c c' : Ctx} (h : c'.heap.get x = c.heap.get x) : KeepAt x c c' :=
  fun o ho => ⟨o, by rw [h]; exact ho, rfl, rfl, rfl⟩

/-- The step only recolours objects. -/
def RC (c c' : Ctx) : Prop :=
  ∀ x, c'.heap.get x = c.heap.get x ∨
    ∃ o col, c.heap.get x = some o ∧ c'.heap.get x = some { o with color := col }

theorem RC.refl (c : Ctx) : RC c c := fun _ => .inl rfl

theorem RC.ofHeap {c c' : Ctx} (h : c'.heap = c.heap) : RC c c' := fun _ => .inl (by rw [h])

theorem RC.trans {a b c : Ctx} (h1 : RC a b) (h2 : RC b c) : RC a c := by
  intro x
  rcases h2 x with e2 | ⟨o2, col2, ho2, ho2'⟩
  · rcases h1 x with e1 | ⟨o1, col1, ho1, ho1'⟩
    · exact .inl (e2.trans e1)
    · exact .inr ⟨o1, col1, ho1, e2.trans ho1'⟩
  · rcases h1 x with e1 | ⟨o1, col1, ho1, ho1'⟩
    · exact .inr ⟨o2, col2, e1 ▸ ho2, ho2'⟩
    · rw [ho1'] at ho2; cases ho2
      exact .inr ⟨o1, col2, ho1, ho2'⟩

theorem RC.keepAt {c c' : Ctx} (h : RC c c') (x : Nat) : KeepAt x c c' := by
  intro o ho
  rcases h x with e | ⟨o1, col, ho1, ho1'⟩
  · exact ⟨o, by rw [e]; exact ho, rfl, rfl, rfl⟩
  · rw [ho] at ho1; cases ho1
    exact ⟨_, ho1', rfl, rfl, rfl⟩

theorem rc_fail (c : Ctx) (f : Fault) : RC c (c.fail f) := RC.ofHeap (by simp)

theorem rc_setColor {c : Ctx} {i : Nat} {o : Obj} (ho : c.heap.get i = some o) (col : Color) :
    RC c (c.setObj i { o with color := col }) := by
  intro x
  by_cases hx : x = i
  · subst hx; exact .inr ⟨o, col, ho, by simp⟩
  · exact .inl (by simp [hx])

theorem rc_makeGrayAgain (c : Ctx) (i : Nat) : RC c (c.makeGrayAgain i) := by
  unfold Ctx.makeGrayAgain
  split
  · exact rc_fail _ _
  · rename_i o ho
    intro x
    by_cases hx : x = i
    · subst hx
      refine .inr ⟨o, .gray, ho, ?_⟩
      split <;> simp
    · refine .inl ?_
      split <;> simp [hx]

theorem rc_trace (c : Ctx) (t : Nat) : RC c (c.trace t) := by
  intro x
  by_cases hx : x = t
  · subst hx
    unfold Ctx.trace
    split
    · exact .inl (by simp)
    · rename_i o ho
      split
      · exact .inl rfl
      · exact .inl rfl
      · by_cases hn : o.needsTrace = true
        · refine .inr ⟨o, .gray, ho, ?_⟩
          simp only [hn, if_true]
          split <;> split <;> simp
        · refine .inr ⟨o, .black, ho, ?_⟩
          simp only [hn]
          split <;> simp
  · exact .inl (Ctx.trace_frame c t x hx)

theorem rc_traceWeak (c : Ctx) (t : Nat) : RC c (c.traceWeak t) := by
  intro x
  by_cases hx : x = t
  · subst hx
    unfold Ctx.traceWeak
    split
    · exact .inl (by simp)
    · rename_i o ho
      split
      · exact .inr ⟨o, .whiteWeak, ho, by simp⟩
      · exact .inl rfl
  · exact .inl (Ctx.traceWeak_frame c t x hx)

theorem rc_backwardBarrier (c : Ctx) (p : Nat) (ch : Option Nat) : RC c (c.backwardBarrier p ch) := by
  unfold Ctx.backwardBarrier
  split
  · split
    · exact rc_fail _ _
    · split
      · split
        · exact rc_makeGrayAgain _ _
        · split
          · exact rc_fail _ _
          · split
            · exact rc_makeGrayAgain _ _
            · exact RC.refl _
      · exact RC.refl _
  · exact RC.refl _

theorem rc_backwardBarrierWeak (c : Ctx) (p ch : Nat) : RC c (c.backwardBarrierWeak p ch) := by
  unfold Ctx.backwardBarrierWeak
  split
  · split
    · exact rc_fail _ _
    · split
      · split
        · exact rc_fail _ _
        · split
          · exact rc_makeGrayAgain _ _
          · exact RC.refl _
      · exact RC.refl _
  · exact RC.refl _

theorem rc_forwardBarrier (c : Ctx) (p : Option Nat) (ch : Nat) : RC c (c.forwardBarrier p ch) := by
  unfold Ctx.forwardBarrier
  split
  · split
    · exact rc_trace _ _
    · split
      · exact rc_fail _ _
      · split
        · exact rc_trace _ _
        · exact RC.refl _
  · exact RC.refl _

theorem rc_forwardBarrierWeak (c : Ctx) (p : Option Nat) (ch : Nat) :
    RC c (c.forwardBarrierWeak p ch) := by
  unfold Ctx.forwardBarrierWeak
  split
  · split
    · exact rc_traceWeak _ _
    · split
      · exact rc_fail _ _
      · split
        · exact rc_traceWeak _ _
        · exact RC.refl _
  · exact RC.refl _

theorem rc_resurrect (c : Ctx) (t : Nat) : RC c (c.resurrect t) := by
  unfold Ctx.resurrect
  split
  · exact rc_fail _ _
  · rename_i o ho
    simp only
    split
    · intro x
      by_cases hx : x = t
      · subst hx
        refine .inr ⟨o, .gray, ho, ?_⟩
        split <;> split <;> split <;> simp
      · refine .inl ?_
        split <;> split <;> split <;> simp [hx]
    · split <;> split <;> first | exact RC.refl _ | exact rc_fail _ _ | exact (rc_fail _ _).trans (rc_fail _ _)

theorem rc_upgrade (c : Ctx) (t : Nat) : RC c (c.upgrade t).1 := by
  unfold Ctx.upgrade
  split
  · exact rc_fail _ _
  · split
    · exact RC.refl _
    · split <;> exact RC.refl _

theorem rc_rootBarrier (c : Ctx) : RC c c.rootBarrier := by
  unfold Ctx.rootBarrier; split <;> exact RC.ofHeap rfl

theorem rc_traceSlot (c : Ctx) (s : Slot) : RC c (c.traceSlot s) := by
  unfold Ctx.traceSlot
  split
  · exact RC.refl _
  · exact rc_trace _ _
  · exact rc_traceWeak _ _

theorem rc_traceSlots (ss : List Slot) : ∀ c : Ctx, RC c (c.traceSlots ss) := by
  induction ss with
  | nil => intro c; exact RC.refl _
  | cons s ss ih =>
    intro c
    exact (rc_traceSlot c s).trans (ih _)

theorem rc_markObj (c : Ctx) (i : Nat) (f : Option Nat) : RC c (c.markObj i f).1 := by
  unfold Ctx.markObj
  simp only
  split
  · exact RC.ofHeap (by simp)
  · rename_i o ho
    have ho' : c.heap.get i = some o := by simpa using ho
    have h1 : RC c (if o.live = true then (c.withMetrics Metrics.markGcTraced).setObj i { o with color := .black }
        else ((c.withMetrics Metrics.markGcTraced).setObj i { o with color := .black }).fail .debugAssert) := by
      have hb : RC c ((c.withMetrics Metrics.markGcTraced).setObj i { o with color := .black }) := by
        intro x
        by_cases hx : x = i
        · subst hx; exact .inr ⟨o, .black, ho', by simp⟩
        · exact .inl (by simp [hx])
      split
      · exact hb
      · exact hb.trans (rc_fail _ _)
    split
    · exact h1.trans (rc_traceSlots _ _)
    · exact (h1.trans (rc_traceSlots _ _)).trans (rc_makeGrayAgain _ _)

theorem rc_markOne (c : Ctx) (root : List Slot) (f : Option Nat) : RC c (c.markOne root f).1 := by
  unfold Ctx.markOne
  split
  · exact (RC.ofHeap (c' := ({ c with gray := _ } : Ctx).step 'g') rfl).trans (rc_markObj _ _ _)
  · split
    · exact (RC.ofHeap (c' := ({ c with grayAgain := _ } : Ctx).step 'g') rfl).trans (rc_markObj _ _ _)
    · split
      · split
        · exact ((RC.ofHeap (c' := c.step 'r') rfl).trans (rc_traceSlots _ _)).trans (RC.ofHeap rfl)
        · exact (RC.ofHeap (c' := c.step 'r') rfl).trans (rc_traceSlots _ _)
      · exact RC.ofHeap rfl


/-! ### Collector micro-steps keep a strongly reachable object -/

theorem sweepOne_keepAt {c : Ctx} {root temps} (h : CInv c root temps) (hp : c.phase = .sweep)
    {x : Nat} (hs : Safe c x) : KeepAt x c c.sweepOne.1 := by
  intro ox hox
  cases hr : c.rest with
  | nil => rw [sweepOne_end hr]; exact ⟨ox, by simpa using hox, rfl, rfl, rfl⟩
  | cons i rest' =>
    obtain ⟨o, ho⟩ := (h.memAll i).mp (by rw [hr]; simp)
    obtain ⟨_, _, hframe, hcases⟩ := sweepOne_cases hr ho
    by_cases hx : x = i
    · subst hx
      rw [ho] at hox; cases hox
      obtain ⟨o2, ho2, _, hb⟩ := hs
      rw [ho] at ho2; cases ho2
      have hbl := hb hp (by rw [hr]; simp)
      rcases hcases with ⟨hc, _⟩ | ⟨hc, _⟩ | ⟨_, _, hk⟩ | ⟨hc, _⟩
      · rw [hbl] at hc; cases hc
      · rw [hbl] at hc; cases hc
      · exact ⟨_, hk, rfl, rfl, rfl⟩
      · rw [hbl] at hc; cases hc
    · exact ⟨ox, by rw [hframe x hx]; exact hox, rfl, rfl, rfl⟩

theorem micro_keepAt {c c' : Ctx} {root} (h : CInv c root []) (m : Micro)
    (hs : c.micro root m = some c') {x : Nat} (hx : Safe c x) : KeepAt x c c' := by
  cases m with
  | wake =>
    simp only [Ctx.micro] at hs
    split at hs
    · cases hs; exact KeepAt.ofGet rfl
    · cases hs
  | markStep f =>
    simp only [Ctx.micro] at hs
    split at hs
    · cases hs; exact (rc_markOne _ _ _).keepAt x
    · cases hs
  | markBreak =>
    simp only [Ctx.micro] at hs
    split at hs
    · cases hs; exact (rc_markOne _ _ _).keepAt x
    · cases hs
  | toSweep =>
    simp only [Ctx.micro] at hs
    split at hs
    · cases hs; exact KeepAt.ofGet rfl
    · cases hs
  | toSleep b =>
    simp only [Ctx.micro] at hs
    split at hs
    · cases hs; exact KeepAt.ofGet rfl
    · cases hs
  | sweepStep =>
    simp only [Ctx.micro] at hs
    split at hs
    · cases hs; rename_i hp
      simp only [Bool.and_eq_true, decide_eq_true_eq] at hp
      exact sweepOne_keepAt h hp.1 hx
    · cases hs
  | sweepEnd =>
    simp only [Ctx.micro] at hs
    split at hs
    · cases hs; rename_i hp
      simp only [Bool.and_eq_true, decide_eq_true_eq] at hp
      exact sweepOne_keepAt h hp.1 hx
    · cases hs

theorem micros_keepAt {root} (ms : List Micro) : ∀ {c c' : Ctx}, CInv c root [] →
    c.micros root ms = some c' → ∀ {x : Nat}, StrongReachC c root x → KeepAt x c c' := by
  induction ms with
  | nil => intro c c' _ hs x _; simp only [Ctx.micros] at hs; cases hs; exact KeepAt.refl x c
  | cons m ms ih =>
    intro c c' h hs x hx
    simp only [Ctx.micros] at hs
    cases hm : c.micro root m with
    | none => rw [hm] at hs; cases hs
    | some c1 =>
      rw [hm] at hs
      have k1 := micro_keepAt h m hm (h.safe_of_accessible hx)
      have hx1 := (micro_persist h m hm).accessible h hx
      exact k1.trans (ih (micro_inv h m hm) hs hx1)

/-! ### What a `.collect` op does to the arena (root, temps, callback state untouched; the context
moves along enabled micro-steps) -/

theorem runCollector_reaches {a : Arena} (h : Inv a) (hcb : a.cb = none) {ru stop fault oracle c ex}
    (hr : a.runCollector ru stop fault oracle = some (c, ex)) : Reaches a.ctx a.root c := by
  have h0 : CInv a.ctx a.root [] := by have := h.cinv; rw [h.cbTemps hcb] at this; exact this
  unfold Arena.runCollector at hr
  cases oracle with
  | none =>
    simp only [Option.some.injEq] at hr
    have : c = (a.ctx.doCollection a.root ru stop fault).1 := by rw [hr]
    rw [this]
    exact doCollection_reaches h0
  | some ms =>
    simp only at hr
    split at hr
    · cases hr
    · rename_i c' hc'
      simp only [Option.some.injEq, Prod.mk.injEq] at hr
      rw [← hr.1]
      exact ⟨ms, hc'⟩

structure CollectRel (a a' : Arena) : Prop where
  root : a'.root = a.root
  temps : a'.temps = a.temps
  cb : a'.cb = a.cb
  alive : a'.alive = a.alive
  reach : ∃ ms, a.ctx.micros a.root ms = some a'.ctx ∧ (a.cb ≠ none → ms = [])

theorem cinv0 {a : Arena} (h : Inv a) (hcb : a.cb = none) : CInv a.ctx a.root [] := by
  have := h.cinv; rw [h.cbTemps hcb] at this; exact this

theorem step_collect_rel {a : Arena} (h : Inv a) (m : Method) (k : Cont) (f : TraceFault)
    (o : Option (List Micro)) : CollectRel a (a.step (.collect m k f o)).1 := by
  have hnot : (!a.alive) = false := by rw [h.alive]; rfl
  unfold Arena.step
  rw [hnot]
  simp only [Bool.false_eq_true, if_false]
  have hu := h.unmark
  have same : CollectRel a ({ a with marked := false } : Arena) :=
    ⟨rfl, rfl, rfl, rfl, [], rfl, fun _ => rfl⟩
  simp only [Arena.stepBody]
  split
  · exact same
  · rename_i hcb0
    have hcb : a.cb = none := by cases hc : a.cb <;> simp_all
    generalize Arena.splitOracle o k m = os
    cases hr : ({ a with marked := false } : Arena).runCollector (Arena.methodArgs m).1 (Arena.methodArgs m).2 f os.1 with
    | none => exact same
    | some res =>
      obtain ⟨c, ex⟩ := res
      simp only
      have r1 : Reaches a.ctx a.root c := runCollector_reaches hu hcb hr
      have hc := runCollector_inv hu hcb hr
      have ha := hu.afterCollect rfl hcb hc
      have e1 : CollectRel a ({ ({ a with marked := false } : Arena) with ctx := c, cover := [] } : Arena) := by
        obtain ⟨ms, hms⟩ := r1
        exact ⟨rfl, rfl, rfl, rfl, ms, hms, fun hne => absurd hcb hne⟩
      have mk : ∀ (k : Cont) (o2 : Option (List Micro)),
          CollectRel a (({ ({ a with marked := false } : Arena) with ctx := c, cover := [] } : Arena).marked? k o2).1 := by
        intro k o2
        unfold Arena.marked?
        split
        · cases k with
          | drop => exact e1
          | finalize => exact ⟨rfl, rfl, rfl, rfl, e1.reach⟩
          | sweep =>
            simp only
            split
            · exact e1
            · rename_i c' hss
              unfold Arena.startSweeping at hss
              split at hss
              · cases hss
              · rename_i c2 ex2 hr2
                split at hss
                · cases hss
                  have r2 := runCollector_reaches ha hcb hr2
                  obtain ⟨ms, hms⟩ := r1.trans r2
                  exact ⟨rfl, rfl, rfl, rfl, ms, hms, fun hne => absurd hcb hne⟩
                · cases hss
        · exact e1
      split
      · exact e1
      · split
        · exact e1
        · cases m with
          | markDebt => exact mk k os.2
          | finishMarking => exact mk k os.2
          | collectDebt => exact e1
          | cycleDebt => exact e1
          | finishCycle => exact e1


/-! ### What a mutator op does, as far as the coupling can see -/

theorem keepAt_link (c : Ctx) (o : Obj) (x : Nat) : KeepAt x c (c.link o).1 := by
  intro ox hox
  have hne : x ≠ c.heap.fresh := by intro he; rw [he, Heap.get_fresh] at hox; cases hox
  exact ⟨ox, by simp [Ctx.link, Heap.get_set, hne, hox], rfl, rfl, rfl⟩

theorem setSlot_get (c : Ctx) (p i : Nat) (v : Slot) (x : Nat) :
    (Arena.setSlot c p i v).heap.get x =
      match c.heap.get p with
      | none => c.heap.get x
      | some o => if x = p then some { o with slots := o.slots.set i v } else c.heap.get x := by
  cases h : c.heap.get p <;> simp [Arena.setSlot, h]

theorem keepAt_setSlot (c : Ctx) (p i : Nat) (v : Slot) {x : Nat} (hne : x ≠ p) :
    KeepAt x c (Arena.setSlot c p i v) := by
  apply KeepAt.ofGet
  rw [setSlot_get]
  split <;> simp [hne]

/-- What an op does, as far as the coupling can see: the arena stays alive, the root changes only
by `rootStore`, and every object other than the target of a `store` keeps its slot list. -/
structure Fr (a a' : Arena) (op : Op) : Prop where
  alive : a'.alive = a.alive
  root : a'.root = a.root ∨ ∃ i v, op = .rootStore i v ∧ a'.root = a.root.set i v
  keep : ∀ x, (∀ path i v, op ≠ .store path x i v) → KeepAt x a.ctx a'.ctx

theorem Fr.same (a : Arena) (op : Op) : Fr a a op := ⟨rfl, .inl rfl, fun x _ => KeepAt.refl x _⟩

theorem Fr.ofRC {a a' : Arena} {op : Op} (halive : a'.alive = a.alive) (hroot : a'.root = a.root)
    (hrc : RC a.ctx a'.ctx) : Fr a a' op := ⟨halive, .inl hroot, fun x _ => hrc.keepAt x⟩

theorem Fr.push {a b : Arena} {op : Op} (h : Fr a b op) (p : Ptr) : Fr a (b.push p) op := by
  obtain ⟨e1, e2, _, _, _, e6, _, _⟩ := b.push_spec p
  exact ⟨by rw [e6]; exact h.alive, by rw [e2]; exact h.root, by rw [e1]; exact h.keep⟩

theorem stepBody_fr (a : Arena) (fin : Bool) (op : Op) (hop : op.isMutator = true) :
    Fr a (a.stepBody fin op).1 op := by
  have rf := Fr.same a op
  cases op with
  | collect m k f o => simp [Op.isMutator] at hop
  | dropArena => simp [Op.isMutator] at hop
  | setPacing p => exact Fr.ofRC rfl rfl (RC.ofHeap rfl)
  | adjustDebt x => exact Fr.ofRC rfl rfl (RC.ofHeap rfl)
  | leave => simp only [Arena.stepBody]; split <;> first | exact rf | exact Fr.ofRC rfl rfl (RC.refl _)
  | enter k =>
    simp only [Arena.stepBody]
    split
    · exact rf
    · cases k with
      | mutate => exact Fr.ofRC rfl rfl (RC.refl _)
      | mutateRoot => exact Fr.ofRC rfl rfl (rc_rootBarrier _)
      | finalize => simp only; split <;> first | exact rf | exact Fr.ofRC rfl rfl (RC.refl _)
  | alloc nt slots =>
    simp only [Arena.stepBody]
    split
    · exact rf
    · split
      · exact rf
      · split
        · exact rf
        · apply Fr.push
          exact ⟨rfl, .inl rfl, fun x _ => keepAt_link _ _ x⟩
  | readRoot i =>
    simp only [Arena.stepBody]
    split
    · exact rf
    · split <;> first | exact rf | exact rf.push _
  | read p i =>
    simp only [Arena.stepBody]
    split
    · exact rf
    · split <;> first | exact rf | exact rf.push _
  | downgrade p =>
    simp only [Arena.stepBody]
    split
    · exact rf
    · exact rf.push _
  | upgrade w =>
    simp only [Arena.stepBody]
    split
    · exact rf
    · have h1 : Fr a { a with ctx := (a.ctx.upgrade w).1 } (.upgrade w) :=
        Fr.ofRC rfl rfl (rc_upgrade _ _)
      split
      · exact h1.push _
      · exact h1
  | isDropped w =>
    simp only [Arena.stepBody]
    split
    · exact rf
    · split
      · exact Fr.ofRC rfl rfl (rc_fail _ _)
      · exact rf
  | isDead p =>
    simp only [Arena.stepBody]
    split
    · exact rf
    · split
      · exact Fr.ofRC rfl rfl (rc_fail _ _)
      · exact rf
  | resurrect p =>
    simp only [Arena.stepBody]
    split
    · exact rf
    · cases p with
      | strong t => exact Fr.ofRC rfl rfl (rc_resurrect _ _)
      | weak t =>
        simp only
        split
        · exact Fr.ofRC rfl rfl (rc_fail _ _)
        · split
          · exact (Fr.ofRC (a := a) (a' := { a with ctx := a.ctx.resurrect t }) rfl rfl (rc_resurrect _ _)).push _
          · exact rf
  | barrier b =>
    simp only [Arena.stepBody]
    split
    · exact rf
    · cases b with
      | bb p c =>
        cases c with
        | none => simp only; split <;> first | exact rf | exact Fr.ofRC rfl rfl (rc_backwardBarrier _ _ _)
        | some c => simp only; split <;> first | exact rf | exact Fr.ofRC rfl rfl (rc_backwardBarrier _ _ _)
      | bbw p c => simp only; split <;> first | exact rf | exact Fr.ofRC rfl rfl (rc_backwardBarrierWeak _ _ _)
      | fb p c =>
        cases p with
        | none => simp only; split <;> first | exact rf | exact Fr.ofRC rfl rfl (rc_forwardBarrier _ _ _)
        | some p => simp only; split <;> first | exact rf | exact Fr.ofRC rfl rfl (rc_forwardBarrier _ _ _)
      | fbw p c =>
        cases p with
        | none => simp only; split <;> first | exact rf | exact Fr.ofRC rfl rfl (rc_forwardBarrierWeak _ _ _)
        | some p => simp only; split <;> first | exact rf | exact Fr.ofRC rfl rfl (rc_forwardBarrierWeak _ _ _)
  | store path p i v =>
    simp only [Arena.stepBody]
    split
    · exact rf
    · split
      · exact rf
      · split
        · exact rf
        · cases path with
          | write =>
            refine ⟨rfl, .inl rfl, fun x hx => ?_⟩
            have hne : x ≠ p := fun he => hx .write i v (by rw [he])
            exact ((rc_backwardBarrier _ _ _).keepAt x).trans (keepAt_setSlot _ _ _ _ hne)
          | raw =>
            simp only
            split
            · exact rf
            · refine ⟨rfl, .inl rfl, fun x hx => ?_⟩
              have hne : x ≠ p := fun he => hx .raw i v (by rw [he])
              exact keepAt_setSlot _ _ _ _ hne
          | storeThenBarrier =>
            refine ⟨rfl, .inl rfl, fun x hx => ?_⟩
            have hne : x ≠ p := fun he => hx .storeThenBarrier i v (by rw [he])
            exact (keepAt_setSlot _ _ _ _ hne).trans ((rc_backwardBarrier _ _ _).keepAt x)
  | rootStore i v =>
    simp only [Arena.stepBody]
    split
    · exact rf
    · exact ⟨rfl, .inr ⟨i, v, rfl, rfl⟩, fun x _ => KeepAt.refl x _⟩

/-- Every op except `dropArena`, on an arena satisfying the invariant: the arena stays alive, the
root changes only by `rootStore`, and every strongly reachable object that is not the target of a
`store` keeps its slot list, `needs_trace` flag and liveness. -/
theorem step_fr {a : Arena} (h : Inv a) (op : Op) (hda : op ≠ .dropArena) :
    (a.step op).1.alive = a.alive ∧
    ((a.step op).1.root = a.root ∨ ∃ i v, op = .rootStore i v ∧ (a.step op).1.root = a.root.set i v) ∧
    ∀ x, StrongReach a x → (∀ path i v, op ≠ .store path x i v) →
      KeepAt x a.ctx (a.step op).1.ctx := by
  cases hop : op.isMutator with
  | true =>
    have hnot : (!a.alive) = false := by rw [h.alive]; rfl
    unfold Arena.step
    rw [hnot]
    simp only [Bool.false_eq_true, if_false]
    have := stepBody_fr ({ a with marked := false } : Arena) a.marked op hop
    exact ⟨this.alive, this.root, fun x _ hx => this.keep x hx⟩
  | false =>
    cases op with
    | collect m k f o =>
      have r := step_collect_rel h m k f o
      refine ⟨r.alive, .inl r.root, fun x hx _ => ?_⟩
      obtain ⟨ms, hms, hnil⟩ := r.reach
      by_cases hcb : a.cb = none
      · exact micros_keepAt ms (cinv0 h hcb) hms hx
      · rw [hnil hcb] at hms
        simp only [Ctx.micros, Option.some.injEq] at hms
        rw [← hms]; exact KeepAt.refl x _
    | dropArena => exact absurd rfl hda
    | _ => simp [Op.isMutator] at hop


/-! ### Exact results of the ops the coupled operations are made of -/

theorem step_alive_eq {a : Arena} (halive : a.alive = true) (op : Op) :
    a.step op = ({ a with marked := false } : Arena).stepBody a.marked op := by
  simp [Arena.step, halive]

theorem isNone_false_of_ne {α} {o : Option α} (h : o ≠ none) : o.isNone = false := by
  cases o <;> simp_all

theorem step_readRoot {a : Arena} (halive : a.alive = true) (hcb : a.cb ≠ none) {k : Nat} {p : Ptr}
    (hr : a.root[k]? = some (some p)) :
    (a.step (.readRoot k)).1 = ({ a with marked := false } : Arena).push p := by
  rw [step_alive_eq halive]
  simp [Arena.stepBody, isNone_false_of_ne hcb, hr]

theorem step_barrier_bb {a : Arena} (halive : a.alive = true) (hcb : a.cb ≠ none) {x r : Nat}
    (hx : a.holds (.strong x) = true) (hr : a.holds (.strong r) = true) :
    (a.step (.barrier (.bb x (some r)))).1 =
      { a with marked := false, ctx := a.ctx.backwardBarrier x (some r), cover := .pair x r :: a.cover } := by
  rw [step_alive_eq halive]
  have hx' : ({ a with marked := false } : Arena).holds (.strong x) = true := hx
  have hr' : ({ a with marked := false } : Arena).holds (.strong r) = true := hr
  simp [Arena.stepBody, isNone_false_of_ne hcb, hx', hr']

theorem step_store_raw {a : Arena} (halive : a.alive = true) (hcb : a.cb ≠ none) {x i : Nat} {v : Slot}
    {o : Obj} (hx : a.holds (.strong x) = true) (hv : a.holdsSlot v = true)
    (ho : a.ctx.heap.get x = some o) (hi : i < o.slots.length) (hnt : o.needsTrace = true)
    (hcov : a.coverOK x v = true) :
    (a.step (.store .raw x i v)).1 = { a with marked := false, ctx := Arena.setSlot a.ctx x i v } := by
  rw [step_alive_eq halive]
  have hx' : ({ a with marked := false } : Arena).holds (.strong x) = true := hx
  have hv' : ({ a with marked := false } : Arena).holdsSlot v = true := hv
  have hcov' : ({ a with marked := false } : Arena).coverOK x v = true := hcov
  have hs : Arena.slotOf a.ctx x i = some (o.slots[i]) := by
    simp [Arena.slotOf, ho, hi]
  have ht : Arena.isTracing a.ctx x = true := by simp [Arena.isTracing, ho, hnt]
  simp [Arena.stepBody, isNone_false_of_ne hcb, hx', hv', hcov', hs, ht]

theorem step_enter_mutate {a : Arena} (halive : a.alive = true) (hcb : a.cb = none) :
    (a.step (.enter .mutate)).1 = { a with marked := false, cb := some .mutate } := by
  rw [step_alive_eq halive]
  simp [Arena.stepBody, hcb]

theorem step_leave {a : Arena} (halive : a.alive = true) (hcb : a.cb ≠ none) :
    (a.step .leave).1 = { a with marked := false, cb := none, temps := [] } := by
  rw [step_alive_eq halive]
  simp [Arena.stepBody, isNone_false_of_ne hcb]

/-- A freshly allocated set object: `cap` empty slots. -/
def emptySetObj (cap : Nat) : Obj :=
  { color := .white, needsTrace := true, live := true, slots := List.replicate cap none }

theorem step_alloc_empty {a : Arena} (halive : a.alive = true) (hcb : a.cb ≠ none) (cap : Nat) :
    (a.step (.alloc true (List.replicate cap none))).1 =
      ({ a with marked := false, ctx := (a.ctx.link (emptySetObj cap)).1 } : Arena).push
        (.strong a.ctx.heap.fresh) := by
  rw [step_alive_eq halive]
  have hall : (List.replicate cap (none : Slot)).all ({ a with marked := false } : Arena).holdsSlot = true := by
    simp [Arena.holdsSlot]
  simp [Arena.stepBody, isNone_false_of_ne hcb, hall, Ctx.link, emptySetObj]

theorem step_rootStore {a : Arena} (halive : a.alive = true) (hcb : a.cb = some .mutateRoot) {k : Nat}
    {v : Slot} (hv : a.holdsSlot v = true) (hk : k < a.root.length) :
    (a.step (.rootStore k v)).1 = { a with marked := false, root := a.root.set k v } := by
  rw [step_alive_eq halive]
  have : ¬ a.root.length ≤ k := by omega
  cases v with
  | none => simp [Arena.stepBody, hcb, this, Arena.holdsSlot]
  | some p =>
    have hp : p ∈ a.temps := by simpa [Arena.holdsSlot, Arena.holds] using hv
    simp [Arena.stepBody, hcb, this, Arena.holdsSlot, Arena.holds, hp]

theorem step_read {a : Arena} (halive : a.alive = true) (hcb : a.cb ≠ none) {x i : Nat} {o : Obj}
    {q : Ptr} (hx : a.holds (.strong x) = true) (ho : a.ctx.heap.get x = some o)
    (hq : o.slots[i]? = some (some q)) :
    (a.step (.read x i)).1 = ({ a with marked := false } : Arena).push q := by
  rw [step_alive_eq halive]
  have hx' : ({ a with marked := false } : Arena).holds (.strong x) = true := hx
  have hs : Arena.slotOf a.ctx x i = some (some q) := by simp [Arena.slotOf, ho, hq]
  simp [Arena.stepBody, isNone_false_of_ne hcb, hx', hs]

theorem holds_push_self (a : Arena) (p : Ptr) : (a.push p).holds p = true := by
  unfold Arena.push
  split
  · assumption
  · simp [Arena.holds]

theorem holds_push_of (a : Arena) (p q : Ptr) (h : a.holds q = true) : (a.push p).holds q = true := by
  rw [holds_iff] at h ⊢
  exact (a.push_spec p).2.2.2.2.2.2.2 q h


/-! ## 2. The coupled system -/

open GcArena.DynRoots (Handle RootSet Slots State containsB)

/-- Where set `s` lives in the arena: the root slot holding the `DynamicRootSet` pointer, the heap
id of the set object (`Gc<Inner>`), and the number of slots the set object was allocated with. -/
structure SetLoc where
  slot : Nat
  id : Nat
  cap : Nat
  deriving DecidableEq, Repr, Inhabited

/-- What the set object's `trace` reports for table slot `i`. -/
def image : Option DynRoots.Slot → Slot
  | some (.occupied r _) => some (.strong r)
  | _ => none

/-- The slot list of a set object with `cap` slots mirroring the table `tbl`. -/
def mirror (cap : Nat) (tbl : List DynRoots.Slot) : List Slot :=
  (List.range cap).map (fun i => image tbl[i]?)

structure Sys where
  a : Arena
  d : State
  /-- `loc[s]`: where set `s` lives (aligned with `d.sets`) -/
  loc : List SetLoc
  /-- ghost: the collector-model ops executed so far -/
  aops : List Op
  /-- ghost: the DynRoots-model ops executed so far -/
  dops : List DynRoots.Op
  deriving Repr

def Sys.init (n : Nat) : Sys := ⟨Arena.new n, State.init, [], [], []⟩

/-- Run collector-model ops on the arena side. -/
def Sys.doA (S : Sys) (ops : List Op) : Sys := { S with a := S.a.run ops, aops := S.aops ++ ops }

/-- Run one DynRoots-model op on the slot-table side. -/
def Sys.doD (S : Sys) (op : DynRoots.Op) : Sys :=
  { S with d := DynRoots.next S.d op, dops := S.dops ++ [op] }

def Sys.ids (S : Sys) : List Nat := S.loc.map (·.id)
def Sys.rootSlots (S : Sys) : List Nat := S.loc.map (·.slot)

/-- Collector-model ops a client can interleave: everything except writing a set object's slots
(private to `dynamic_roots.rs`), overwriting a root slot that holds a set (RESTRICTION) and
dropping the arena (RESTRICTION). -/
def Sys.allowed (S : Sys) : Op → Bool
  | .store _ p _ _ => !S.ids.contains p
  | .rootStore i _ => !S.rootSlots.contains i
  | .dropArena => false
  | _ => true

/-- `DynamicRoot::drop` of the last handle of a slot, on the collector side: clear slot `i` of the
set object.  Outside a callback the store is wrapped in a pointer-free `mutate` callback. -/
def clearOps (a : Arena) (l : SetLoc) (i : Nat) : List Op :=
  if a.cb.isNone then [.enter .mutate, .readRoot l.slot, .store .raw l.id i none, .leave]
  else [.readRoot l.slot, .store .raw l.id i none]

def stashOps (l : SetLoc) (r idx : Nat) : List Op :=
  [.readRoot l.slot, .barrier (.bb l.id (some r)), .store .raw l.id idx (some (.strong r))]

def fetchOps (l : SetLoc) (h : Handle) : List Op := [.readRoot l.slot, .read l.id h.index]

def newSetOps (k cap id : Nat) : List Op :=
  [.alloc true (List.replicate cap none), .rootStore k (some (.strong id))]

inductive COp where
  /-- `DynamicRootSet::new(mc)` inside a `mutate_root` callback, stored in root slot `k`; the set
  object gets `cap` slots -/
  | newSet (k cap : Nat)
  | stash (s r : Nat)
  | clone (h : Handle)
  | dropHandle (h : Handle)
  | fetch (s : Nat) (h : Handle)
  | tryFetch (s : Nat) (h : Handle)
  | contains (s : Nat) (h : Handle)
  /-- any other collector-model op (collection calls, callbacks, allocation, reads, barriers,
  stores into other objects, root stores into other slots) -/
  | gc (op : Op)
  /-- `drop(arena)` outside callbacks: every object is destructed, among them every set object, whose
  `Inner` drops its `Rc<RefCell<Slots>>` — `destroySet` for every set -/
  | dropArena
  deriving Repr, Inhabited

/-- `destroySet` for every set id below `m`. -/
def destroyOps (m : Nat) : List DynRoots.Op := (List.range m).map .destroySet

/-- Run a list of DynRoots-model ops on the slot-table side. -/
def Sys.doDs (S : Sys) (ops : List DynRoots.Op) : Sys := ops.foldl Sys.doD S

def Sys.fetchLike (S : Sys) (s : Nat) (h : Handle) (dop : DynRoots.Op) : Sys :=
  match S.loc[s]? with
  | some l =>
    if S.a.alive && S.a.cb.isSome && decide (h ∈ S.d.handles) && (S.d.liveSet s).isSome
        && containsB s h then
      (S.doA (fetchOps l h)).doD dop
    else S.doD dop
  | none => S.doD dop

def Sys.step (S : Sys) : COp → Sys
  | .newSet k cap =>
    if S.a.alive && decide (S.a.cb = some .mutateRoot) && decide (k < S.a.root.length)
        && !S.rootSlots.contains k then
      (({ S with loc := S.loc ++ [⟨k, S.a.ctx.heap.fresh, cap⟩] } : Sys).doA
        (newSetOps k cap S.a.ctx.heap.fresh)).doD .newSet
    else S
  | .stash s r =>
    match S.loc[s]?, S.d.liveSet s with
    | some l, some rs =>
      match rs.slots.add r with
      | .ok (_, idx) =>
        if S.a.alive && S.a.cb.isSome && S.a.holds (.strong r) && decide (idx < l.cap) then
          (S.doA (stashOps l r idx)).doD (.stash s r)
        else S
      | .error _ => S
    | _, _ => S
  | .clone h => S.doD (.clone h)
  | .dropHandle h =>
    if h ∈ S.d.handles then
      match S.loc[h.set]?, S.d.liveSet h.set with
      | some l, some rs =>
        match rs.slots.slots[h.index]? with
        | some (.occupied _ 0) => (S.doA (clearOps S.a l h.index)).doD (.dropHandle h)
        | _ => S.doD (.dropHandle h)
      | _, _ => S.doD (.dropHandle h)
    else S
  | .fetch s h => S.fetchLike s h (.fetch s h)
  | .tryFetch s h => S.fetchLike s h (.tryFetch s h)
  | .contains s h => S.doD (.contains s h)
  | .gc op => if S.allowed op then S.doA [op] else S
  | .dropArena =>
    if S.a.alive && S.a.cb.isNone then (S.doA [.dropArena]).doDs (destroyOps S.d.sets.length) else S

def Sys.run (S : Sys) : List COp → Sys
  | [] => S
  | op :: ops => Sys.run (S.step op) ops

/-! ### The coupling relation -/

/-- The arena side of the coupling for one set: the root slot holds the set object, which is
allocated, undestructed, traced, and has exactly the slot list `ss`. -/
structure Holds (a : Arena) (l : SetLoc) (ss : List Slot) : Prop where
  root : a.root[l.slot]? = some (some (.strong l.id))
  obj : ∃ o, a.ctx.heap.get l.id = some o ∧ o.live = true ∧ o.needsTrace = true ∧ o.slots = ss

/-- The coupling relation while the arena exists: both sides are runs of the two existing models; the
arena is alive; and every set's object mirrors the set's slot table slot by slot. -/
structure Live (n : Nat) (S : Sys) : Prop where
  arena : S.a = (Arena.new n).run S.aops
  dyn : S.d = DynRoots.run State.init S.dops
  alive : S.a.alive = true
  len : S.loc.length = S.d.sets.length
  distinct : ∀ (s s' : Nat) (l l' : SetLoc), S.loc[s]? = some l → S.loc[s']? = some l' → l.id = l'.id → s = s'
  sets : ∀ (s : Nat) (l : SetLoc) (rs : RootSet), S.loc[s]? = some l → S.d.sets[s]? = some rs →
    Holds S.a l (mirror l.cap rs.slots.slots) ∧ rs.slots.slots.length ≤ l.cap


/-! ### `mirror` -/

theorem mirror_length (cap : Nat) (tbl : List DynRoots.Slot) : (mirror cap tbl).length = cap := by
  simp [mirror]

theorem mirror_get {cap : Nat} {tbl : List DynRoots.Slot} {i : Nat} (hi : i < cap) :
    (mirror cap tbl)[i]? = some (image tbl[i]?) := by
  simp [mirror, List.getElem?_map, List.getElem?_range hi]

theorem mirror_nil (cap : Nat) : mirror cap [] = List.replicate cap none := by
  apply List.ext_getElem?
  intro i
  by_cases hi : i < cap
  · rw [mirror_get hi]; simp [hi, image]
  · rw [List.getElem?_eq_none (by rw [mirror_length]; omega),
      List.getElem?_eq_none (by simp; omega)]

theorem mirror_update {cap : Nat} {tbl tbl' : List DynRoots.Slot} {idx : Nat} {v : Slot}
    (h : ∀ i, i < cap → image tbl'[i]? = if i = idx then v else image tbl[i]?) :
    mirror cap tbl' = (mirror cap tbl).set idx v := by
  apply List.ext_getElem?
  intro i
  by_cases hi : i < cap
  · rw [mirror_get hi, List.getElem?_set, h i hi]
    by_cases he : idx = i
    · subst he; simp [mirror_length, hi]
    · have : ¬ i = idx := fun e => he e.symm
      simp [he, this, mirror_get hi]
  · rw [List.getElem?_eq_none (by rw [mirror_length]; omega),
      List.getElem?_eq_none (by rw [List.length_set, mirror_length]; omega)]

theorem mirror_congr {cap : Nat} {tbl tbl' : List DynRoots.Slot}
    (h : ∀ i, i < cap → image tbl'[i]? = image tbl[i]?) : mirror cap tbl' = mirror cap tbl := by
  apply List.ext_getElem?
  intro i
  by_cases hi : i < cap
  · rw [mirror_get hi, mirror_get hi, h i hi]
  · rw [List.getElem?_eq_none (by rw [mirror_length]; omega),
      List.getElem?_eq_none (by rw [mirror_length]; omega)]

/-- The set object's strong slots are exactly what `Collect for Slots` reports. -/
theorem mem_mirror {cap : Nat} {sl : Slots} {p : Nat} (hlen : sl.slots.length ≤ cap) :
    some (Ptr.strong p) ∈ mirror cap sl.slots ↔ p ∈ sl.traced := by
  unfold Slots.traced
  rw [List.mem_filterMap, List.mem_iff_getElem?]
  constructor
  · rintro ⟨i, hi⟩
    have hic : i < cap := by
      have := (List.getElem?_eq_some_iff.1 hi).1; rwa [mirror_length] at this
    rw [mirror_get hic] at hi
    cases ht : sl.slots[i]? with
    | none => rw [ht] at hi; simp [image] at hi
    | some x =>
      rw [ht] at hi
      cases x with
      | vacant nf => simp [image] at hi
      | occupied r c =>
        simp [image] at hi
        subst hi
        exact ⟨.occupied r c, List.mem_iff_getElem?.2 ⟨i, ht⟩, rfl⟩
  · rintro ⟨x, hx, ht⟩
    obtain ⟨i, hi⟩ := List.mem_iff_getElem?.1 hx
    have hil : i < sl.slots.length := (List.getElem?_eq_some_iff.1 hi).1
    refine ⟨i, ?_⟩
    rw [mirror_get (by omega), hi]
    cases x with
    | vacant nf => simp [DynRoots.Slot.traced] at ht
    | occupied r c => simp [DynRoots.Slot.traced] at ht; subst ht; rfl

/-! ### The slot-table side, op by op -/

theorem getElem?_set_some {α} {l : List α} {i j : Nat} {x y : α} (h : (l.set i x)[j]? = some y) :
    (j = i ∧ y = x ∧ i < l.length) ∨ (j ≠ i ∧ l[j]? = some y) := by
  rw [List.getElem?_set] at h
  by_cases he : i = j
  · subst he
    by_cases hl : i < l.length
    · simp [hl] at h; exact .inl ⟨rfl, h.symm, hl⟩
    · simp [hl] at h
  · simp [he] at h
    exact .inr ⟨fun e => he e.symm, h⟩

theorem add_spec {sl0 sl : Slots} {r idx : Nat} (h : sl0.add r = .ok (sl, idx)) :
    (∀ i : Nat, image sl.slots[i]? = if i = idx then some (.strong r) else image sl0.slots[i]?) ∧
    sl.slots.length ≤ max sl0.slots.length (idx + 1) := by
  unfold Slots.add at h
  split at h
  · dsimp only at h
    split at h
    · cases h
    · rename_i nf hv
      simp only [Except.ok.injEq, Prod.mk.injEq] at h
      obtain ⟨rfl, rfl⟩ := h
      have hlt : sl0.nextFree < sl0.slots.length := (List.getElem?_eq_some_iff.1 hv).1
      refine ⟨fun i => ?_, by simp; omega⟩
      simp only [List.getElem?_set]
      by_cases he : sl0.nextFree = i
      · subst he; simp [hlt, image]
      · have : ¬ i = sl0.nextFree := fun e => he e.symm
        simp [he, this]
    · cases h
  · split at h
    · cases h
    · simp only [Except.ok.injEq, Prod.mk.injEq] at h
      obtain ⟨rfl, rfl⟩ := h
      refine ⟨fun i => ?_, by simp only [List.length_append, List.length_cons, List.length_nil]; omega⟩
      simp only [List.getElem?_append]
      by_cases hi : i < sl0.slots.length
      · have : ¬ i = sl0.slots.length := by omega
        simp [hi, this]
      · by_cases he : i = sl0.slots.length
        · subst he; simp [image]
        · have h1 : sl0.slots[i]? = none := List.getElem?_eq_none (by omega)
          simp [hi, he]
          cases hk : i - sl0.slots.length with
          | zero => omega
          | succ k => simp [image]

theorem inc_spec {sl0 sl : Slots} {idx : Nat} (h : sl0.inc idx = .ok sl) :
    sl.slots.length = sl0.slots.length ∧ ∀ i : Nat, image sl.slots[i]? = image sl0.slots[i]? := by
  unfold Slots.inc at h
  split at h
  · cases h
  · rename_i r c hv
    simp only [Except.ok.injEq] at h
    subst h
    have hlt : idx < sl0.slots.length := (List.getElem?_eq_some_iff.1 hv).1
    refine ⟨by simp, fun i => ?_⟩
    simp only [List.getElem?_set]
    by_cases he : idx = i
    · subst he; rw [hv]; simp [hlt, image]
    · simp [he]
  · cases h

theorem dec_spec {sl0 sl : Slots} {idx : Nat} (h : sl0.dec idx = .ok sl) :
    sl.slots.length = sl0.slots.length ∧
    ((∃ r, sl0.slots[idx]? = some (.occupied r 0)) →
      ∀ i : Nat, image sl.slots[i]? = if i = idx then none else image sl0.slots[i]?) ∧
    ((¬ ∃ r, sl0.slots[idx]? = some (.occupied r 0)) →
      ∀ i : Nat, image sl.slots[i]? = image sl0.slots[i]?) := by
  unfold Slots.dec at h
  split at h
  · cases h
  · rename_i r c hv
    have hlt : idx < sl0.slots.length := (List.getElem?_eq_some_iff.1 hv).1
    split at h
    · rename_i hc
      subst hc
      simp only [Except.ok.injEq] at h
      subst h
      refine ⟨by simp, fun _ i => ?_, fun hn => absurd ⟨r, hv⟩ hn⟩
      simp only [List.getElem?_set]
      by_cases he : idx = i
      · subst he; simp [hlt, image]
      · have : ¬ i = idx := fun e => he e.symm
        simp [he, this]
    · rename_i hc
      simp only [Except.ok.injEq] at h
      subst h
      refine ⟨by simp, fun ⟨r', hr'⟩ => ?_, fun _ i => ?_⟩
      · rw [hv] at hr'; simp at hr'; exact absurd hr'.2 hc
      · simp only [List.getElem?_set]
        by_cases he : idx = i
        · subst he; rw [hv]; simp [hlt, image]
        · simp [he]
  · cases h


/-- What an op that neither creates a set nor vacates / fills a slot does to the tables: every
table keeps its length and its image. -/
def SameTables (d d' : State) : Prop :=
  d'.sets.length = d.sets.length ∧
  ∀ (s : Nat) (rs' : RootSet), d'.sets[s]? = some rs' → ∃ rs, d.sets[s]? = some rs ∧
    rs'.alive = rs.alive ∧ rs'.slots.slots.length = rs.slots.slots.length ∧
    ∀ i : Nat, image rs'.slots.slots[i]? = image rs.slots.slots[i]?

theorem SameTables.refl (d : State) : SameTables d d :=
  ⟨rfl, fun _ rs' h => ⟨rs', h, rfl, rfl, fun _ => rfl⟩⟩

/-- Replacing the table of set `s`. -/
theorem sets_set_get {sets : List RootSet} {s s' : Nat} {r rs' : RootSet}
    (h : (sets.set s r)[s']? = some rs') :
    (s' = s ∧ rs' = r ∧ s < sets.length) ∨ (s' ≠ s ∧ sets[s']? = some rs') :=
  getElem?_set_some h

theorem SameTables.ofSets {d d' : State} (h : d'.sets = d.sets) : SameTables d d' :=
  ⟨by rw [h], fun _ rs' hs => ⟨rs', by rw [← h]; exact hs, rfl, rfl, fun _ => rfl⟩⟩

theorem next_clone_same (d : State) (h : Handle) : SameTables d (DynRoots.next d (.clone h)) := by
  unfold DynRoots.next
  by_cases hm : h ∈ d.handles
  · cases hl : d.liveSet h.set with
    | none => simp only [DynRoots.step, hm, if_true, hl]; exact SameTables.ofSets rfl
    | some rs =>
      cases hi : rs.slots.inc h.index with
      | error f => simp only [DynRoots.step, hm, if_true, hl, hi]; exact SameTables.refl d
      | ok sl =>
        simp only [DynRoots.step, hm, if_true, hl, hi, DynRoots.State.withSlots]
        obtain ⟨hls, _⟩ := DynRoots.liveSet_eq_some.1 hl
        obtain ⟨hlen, himg⟩ := inc_spec hi
        refine ⟨by simp, fun s rs' hs => ?_⟩
        rcases sets_set_get hs with ⟨rfl, rfl, _⟩ | ⟨_, hs'⟩
        · exact ⟨rs, hls, rfl, hlen, himg⟩
        · exact ⟨rs', hs', rfl, rfl, fun _ => rfl⟩
  · simp only [DynRoots.step, hm, if_false]; exact SameTables.refl d

/-- `DynamicRoot::drop` vacates slot `h.index` of set `h.set`: this was the last handle of the slot. -/
def Vacates (d : State) (h : Handle) : Prop :=
  h ∈ d.handles ∧ ∃ rs r, d.liveSet h.set = some rs ∧ rs.slots.slots[h.index]? = some (.occupied r 0)

theorem next_drop_same (d : State) (h : Handle) (hnv : ¬ Vacates d h) :
    SameTables d (DynRoots.next d (.dropHandle h)) := by
  unfold DynRoots.next
  by_cases hm : h ∈ d.handles
  · cases hl : d.liveSet h.set with
    | none => simp only [DynRoots.step, hm, if_true, hl]; exact SameTables.ofSets rfl
    | some rs =>
      cases hi : rs.slots.dec h.index with
      | error f => simp only [DynRoots.step, hm, if_true, hl, hi]; exact SameTables.refl d
      | ok sl =>
        simp only [DynRoots.step, hm, if_true, hl, hi, DynRoots.State.withSlots]
        obtain ⟨hls, _⟩ := DynRoots.liveSet_eq_some.1 hl
        obtain ⟨hlen, _, himg⟩ := dec_spec hi
        refine ⟨by simp, fun s rs' hs => ?_⟩
        rcases sets_set_get hs with ⟨rfl, rfl, _⟩ | ⟨_, hs'⟩
        · exact ⟨rs, hls, rfl, hlen, himg (fun ⟨r, hr⟩ => hnv ⟨hm, rs, r, hl, hr⟩)⟩
        · exact ⟨rs', hs', rfl, rfl, fun _ => rfl⟩
  · simp only [DynRoots.step, hm, if_false]; exact SameTables.refl d

theorem next_drop_vacates {d : State} {h : Handle} {rs : RootSet} {r : Nat} (hm : h ∈ d.handles)
    (hl : d.liveSet h.set = some rs) (hv : rs.slots.slots[h.index]? = some (.occupied r 0)) :
    (DynRoots.next d (.dropHandle h)).sets.length = d.sets.length ∧
    ∀ (s : Nat) (rs' : RootSet), (DynRoots.next d (.dropHandle h)).sets[s]? = some rs' →
      ∃ rs0, d.sets[s]? = some rs0 ∧ rs'.slots.slots.length = rs0.slots.slots.length ∧
        ∀ i : Nat, image rs'.slots.slots[i]? =
          if s = h.set ∧ i = h.index then none else image rs0.slots.slots[i]? := by
  unfold DynRoots.next
  simp only [DynRoots.step, hm, if_true, hl]
  have hdec : rs.slots.dec h.index =
      .ok ⟨rs.slots.slots.set h.index (.vacant rs.slots.nextFree), h.index⟩ := by
    simp [Slots.dec, hv]
  simp only [hdec, DynRoots.State.withSlots]
  obtain ⟨hls, _⟩ := DynRoots.liveSet_eq_some.1 hl
  obtain ⟨hlen, himg, _⟩ := dec_spec hdec
  refine ⟨by simp, fun s rs' hs => ?_⟩
  rcases sets_set_get hs with ⟨rfl, rfl, _⟩ | ⟨hne, hs'⟩
  · refine ⟨rs, hls, hlen, fun i => ?_⟩
    rw [himg ⟨r, hv⟩ i]
    by_cases hi : i = h.index <;> simp [hi]
  · exact ⟨rs', hs', rfl, fun i => by simp [hne]⟩

theorem next_stash_sets {d : State} {s r idx : Nat} {rs : RootSet} {sl : Slots}
    (hl : d.liveSet s = some rs) (ha : rs.slots.add r = .ok (sl, idx)) :
    (DynRoots.next d (.stash s r)).sets.length = d.sets.length ∧
    ∀ (s' : Nat) (rs' : RootSet), (DynRoots.next d (.stash s r)).sets[s']? = some rs' →
      ∃ rs0, d.sets[s']? = some rs0 ∧
        rs'.slots.slots.length ≤ max rs0.slots.slots.length (if s' = s then idx + 1 else 0) ∧
        ∀ i : Nat, image rs'.slots.slots[i]? =
          if s' = s ∧ i = idx then some (.strong r) else image rs0.slots.slots[i]? := by
  unfold DynRoots.next
  simp only [DynRoots.step, hl, ha, DynRoots.State.withSlots]
  obtain ⟨hls, _⟩ := DynRoots.liveSet_eq_some.1 hl
  obtain ⟨himg, hlen⟩ := add_spec ha
  refine ⟨by simp, fun s' rs' hs => ?_⟩
  rcases sets_set_get hs with ⟨rfl, rfl, _⟩ | ⟨hne, hs'⟩
  · refine ⟨rs, hls, by simpa using hlen, fun i => ?_⟩
    rw [himg i]
    by_cases hi : i = idx <;> simp [hi]
  · exact ⟨rs', hs', Nat.le_max_left _ _, fun i => by simp [hne]⟩

theorem next_newSet (d : State) :
    DynRoots.next d .newSet = { d with sets := d.sets ++ [⟨true, Slots.new⟩] } := by
  simp [DynRoots.next, DynRoots.step]

/-! ### Histories -/

theorem arena_run_append (ops ops' : List Op) : ∀ a : Arena, a.run (ops ++ ops') = (a.run ops).run ops' := by
  induction ops with
  | nil => intro a; rfl
  | cons op ops ih => intro a; simp only [List.cons_append, Arena.run]; exact ih _

theorem dyn_run_snoc (ops : List DynRoots.Op) (op : DynRoots.Op) :
    ∀ st : State, DynRoots.run st (ops ++ [op]) = DynRoots.next (DynRoots.run st ops) op := by
  induction ops with
  | nil => intro st; rfl
  | cons o ops ih => intro st; simp only [List.cons_append, DynRoots.run]; exact ih _

/-! ### `Holds` under arena steps -/

theorem Holds.congr {a a' : Arena} {l : SetLoc} {ss : List Slot} (h : Holds a l ss)
    (hroot : a'.root = a.root) (hctx : a'.ctx = a.ctx) : Holds a' l ss :=
  ⟨by rw [hroot]; exact h.root, by rw [hctx]; exact h.obj⟩

theorem Holds.reach {a : Arena} {l : SetLoc} {ss : List Slot} (h : Holds a l ss) : StrongReach a l.id :=
  .root l.id (List.mem_of_getElem? h.root)

theorem Holds.keep {a a' : Arena} {l : SetLoc} {ss : List Slot} (h : Holds a l ss)
    (hroot : a'.root[l.slot]? = a.root[l.slot]?) (hk : KeepAt l.id a.ctx a'.ctx) : Holds a' l ss := by
  refine ⟨by rw [hroot]; exact h.root, ?_⟩
  obtain ⟨o, ho, hl, hn, hs⟩ := h.obj
  obtain ⟨o', ho', hs', hn', hl'⟩ := hk o ho
  exact ⟨o', ho', by rw [hl', hl], by rw [hn', hn], by rw [hs', hs]⟩

/-- Any op other than `dropArena`, a `store` into the set object or a `rootStore` over its root
slot leaves the set object as it is. -/
theorem Holds.step {a : Arena} (hi : Inv a) {l : SetLoc} {ss : List Slot} (h : Holds a l ss) (op : Op)
    (hda : op ≠ .dropArena) (hst : ∀ path i v, op ≠ .store path l.id i v)
    (hrs : ∀ v, op ≠ .rootStore l.slot v) : Holds (a.step op).1 l ss := by
  obtain ⟨_, hroot, hkeep⟩ := step_fr hi op hda
  refine h.keep ?_ (hkeep l.id h.reach hst)
  rcases hroot with e | ⟨i, v, rfl, e⟩
  · rw [e]
  · rw [e]
    have : i ≠ l.slot := fun he => hrs v (by rw [he])
    rw [List.getElem?_set_ne this]

/-- The slot store itself, on the set object … -/
theorem Holds.setSlot_self {a a' : Arena} {l : SetLoc} {ss : List Slot} (h : Holds a l ss)
    (i : Nat) (v : Slot) (hroot : a'.root = a.root)
    (hctx : a'.ctx = Arena.setSlot a.ctx l.id i v) : Holds a' l (ss.set i v) := by
  refine ⟨by rw [hroot]; exact h.root, ?_⟩
  obtain ⟨o, ho, hl, hn, hs⟩ := h.obj
  refine ⟨{ o with slots := o.slots.set i v }, ?_, hl, hn, by simp [hs]⟩
  rw [hctx, setSlot_get, ho]; simp

/-- … and on every other set object. -/
theorem Holds.setSlot_other {a a' : Arena} {l : SetLoc} {ss : List Slot} (h : Holds a l ss)
    {x : Nat} (hne : l.id ≠ x) (i : Nat) (v : Slot) (hroot : a'.root = a.root)
    (hctx : a'.ctx = Arena.setSlot a.ctx x i v) : Holds a' l ss :=
  h.keep (by rw [hroot]) (by rw [hctx]; exact keepAt_setSlot _ _ _ _ hne)


/-! ## 3. Net effect of the encodings on the arena -/

theorem holds_congr {a b : Arena} (h : b.temps = a.temps) (p : Ptr) : b.holds p = a.holds p := by
  simp [Arena.holds, h]

/-- **`stash`, collector side.**  The three ops are accepted, and their net effect is:
`backward_barrier(set, Some(r))`, then slot `idx` of the set object := `r`; the barrier's cover is
recorded; the set pointer is held.  Nothing else changes. -/
theorem stash_net {a : Arena} (halive : a.alive = true) (hcb : a.cb ≠ none) {l : SetLoc}
    {ss : List Slot} (h : Holds a l ss) {r idx : Nat} (hr : a.holds (.strong r) = true)
    (hidx : idx < ss.length) :
    (a.run (stashOps l r idx)).ctx =
      Arena.setSlot (a.ctx.backwardBarrier l.id (some r)) l.id idx (some (.strong r)) ∧
    (a.run (stashOps l r idx)).root = a.root ∧ (a.run (stashOps l r idx)).alive = true ∧
    (a.run (stashOps l r idx)).cb = a.cb ∧
    (a.run (stashOps l r idx)).cover = .pair l.id r :: a.cover ∧
    (∀ q, q ∈ (a.run (stashOps l r idx)).temps ↔ q = .strong l.id ∨ q ∈ a.temps) := by
  -- step 1: readRoot
  have e1 := step_readRoot halive hcb h.root
  generalize hb : (({ a with marked := false } : Arena).push (.strong l.id)) = b at e1
  obtain ⟨b1, b2, b3, b4, _, b6, b7, b8⟩ := ({ a with marked := false } : Arena).push_spec (.strong l.id)
  rw [hb] at b1 b2 b3 b4 b6 b7 b8
  have hbx : b.holds (.strong l.id) = true := by rw [← hb]; exact holds_push_self _ _
  have hbr : b.holds (.strong r) = true := by rw [← hb]; exact holds_push_of _ _ _ hr
  have hbalive : b.alive = true := by rw [b6]; exact halive
  have hbcb : b.cb ≠ none := by rw [b3]; exact hcb
  -- step 2: the barrier
  have e2 := step_barrier_bb hbalive hbcb hbx hbr
  generalize hc2 : ({ b with marked := false, ctx := b.ctx.backwardBarrier l.id (some r),
                              cover := .pair l.id r :: b.cover } : Arena) = a2 at e2
  have c_ctx : a2.ctx = a.ctx.backwardBarrier l.id (some r) := by rw [← hc2, ← b1]
  have c_root : a2.root = a.root := by rw [← hc2]; exact b2
  have c_alive : a2.alive = true := by rw [← hc2]; exact hbalive
  have c_cb : a2.cb = a.cb := by rw [← hc2]; exact b3
  have c_cover : a2.cover = .pair l.id r :: a.cover := by rw [← hc2]; simp [b4]
  have c_temps : a2.temps = b.temps := by rw [← hc2]
  -- step 3: the store
  obtain ⟨o, ho, _, hn, hs⟩ := h.obj
  obtain ⟨o2, ho2, hs2, hn2, _⟩ := (rc_backwardBarrier a.ctx l.id (some r)).keepAt l.id o ho
  have e3 := step_store_raw (a := a2) (x := l.id) (i := idx) (v := some (.strong r)) (o := o2) c_alive
    (by rw [c_cb]; exact hcb) (by rw [holds_congr c_temps]; exact hbx)
    (by show a2.holds (.strong r) = true; rw [holds_congr c_temps]; exact hbr)
    (by rw [c_ctx]; exact ho2) (by rw [hs2, hs]; exact hidx) (by rw [hn2, hn])
    (by simp [Arena.coverOK, c_cover])
  have hrun : a.run (stashOps l r idx) =
      { a2 with marked := false, ctx := Arena.setSlot a2.ctx l.id idx (some (.strong r)) } := by
    simp only [stashOps, Arena.run]
    rw [e1, e2, e3]
  rw [hrun]
  refine ⟨by simp [c_ctx], c_root, c_alive, c_cb, c_cover, fun q => ?_⟩
  show q ∈ a2.temps ↔ _
  rw [c_temps]
  constructor
  · intro hq; exact b7 q hq
  · rintro (rfl | hq)
    · exact (holds_iff _ _).1 hbx
    · exact b8 q hq

/-- **Dropping the last handle of a slot, collector side, outside any callback** — also between two
collection increments.  The pointer-free `mutate` callback is accepted *without any barrier or
cover* (removing a pointer never needs one), and its net effect is exactly: slot `i` of the set
object := `None`.  Colours, queues, phase, metrics, root, cover: all unchanged. -/
theorem clear_net_outside {a : Arena} (hinv : Inv a) (hcb : a.cb = none) {l : SetLoc}
    {ss : List Slot} (h : Holds a l ss) {i : Nat} (hi : i < ss.length) :
    a.run (clearOps a l i) = { a with marked := false, ctx := Arena.setSlot a.ctx l.id i none } := by
  have halive := hinv.alive
  have htemps : a.temps = [] := hinv.cbTemps hcb
  obtain ⟨o, ho, _, hn, hs⟩ := h.obj
  have e1 := step_enter_mutate halive hcb
  generalize h1 : ({ a with marked := false, cb := some .mutate } : Arena) = a1 at e1
  have a1alive : a1.alive = true := by rw [← h1]; exact halive
  have a1cb : a1.cb ≠ none := by rw [← h1]; simp
  have e2 := step_readRoot (a := a1) (k := l.slot) (p := .strong l.id) a1alive a1cb (by rw [← h1]; exact h.root)
  have hpush : ({ a1 with marked := false } : Arena).push (.strong l.id) =
      { a1 with marked := false, temps := [.strong l.id] } := by
    rw [← h1]; simp [Arena.push, Arena.holds, htemps]
  rw [hpush] at e2
  generalize h2 : ({ a1 with marked := false, temps := [.strong l.id] } : Arena) = a2 at e2
  have e3 := step_store_raw (a := a2) (x := l.id) (i := i) (v := none) (o := o)
    (by rw [← h2]; exact a1alive) (by rw [← h2]; exact a1cb)
    (by rw [← h2]; simp [Arena.holds]) (by simp [Arena.holdsSlot])
    (by rw [← h2, ← h1]; exact ho) (by rw [hs]; exact hi) hn (by simp [Arena.coverOK])
  generalize h3 : ({ a2 with marked := false, ctx := Arena.setSlot a2.ctx l.id i none } : Arena) = a3 at e3
  have e4 := step_leave (a := a3) (by rw [← h3, ← h2]; exact a1alive) (by rw [← h3, ← h2]; exact a1cb)
  have hrun : a.run (clearOps a l i) = { a3 with marked := false, cb := none, temps := [] } := by
    simp only [clearOps, hcb, Option.isNone_none, if_true, Arena.run]
    rw [e1, e2, e3, e4]
  rw [hrun, ← h3, ← h2, ← h1]
  cases a
  simp only at hcb htemps
  subst hcb htemps
  rfl

/-- The same inside a running callback (a handle dropped by the callback's own code): no `enter` /
`leave`; the set pointer joins the held pointers (conservative: the client can name one more
pointer, which it could read from the root anyway). -/
theorem clear_net_inside {a : Arena} (halive : a.alive = true) (hcb : a.cb ≠ none) {l : SetLoc}
    {ss : List Slot} (h : Holds a l ss) {i : Nat} (hi : i < ss.length) :
    a.run (clearOps a l i) =
      { (({ a with marked := false } : Arena).push (.strong l.id)) with
          marked := false, ctx := Arena.setSlot a.ctx l.id i none } := by
  obtain ⟨o, ho, _, hn, hs⟩ := h.obj
  have e1 := step_readRoot halive hcb h.root
  generalize hb : (({ a with marked := false } : Arena).push (.strong l.id)) = b at e1 ⊢
  obtain ⟨b1, _, b3, _, _, b6, _, _⟩ := ({ a with marked := false } : Arena).push_spec (.strong l.id)
  rw [hb] at b1 b3 b6
  have hbx : b.holds (.strong l.id) = true := by rw [← hb]; exact holds_push_self _ _
  have e2 := step_store_raw (a := b) (x := l.id) (i := i) (v := none) (o := o)
    (by rw [b6]; exact halive) (by rw [b3]; exact hcb) hbx (by simp [Arena.holdsSlot])
    (by rw [b1]; exact ho) (by rw [hs]; exact hi) hn (by simp [Arena.coverOK])
  have hnn : a.cb.isNone = false := isNone_false_of_ne hcb
  simp only [clearOps, hnn, Bool.false_eq_true, if_false, Arena.run]
  rw [e1, e2, b1]

/-- Both cases, as far as the coupling is concerned. -/
theorem clear_fields {a : Arena} (hinv : Inv a) {l : SetLoc} {ss : List Slot} (h : Holds a l ss)
    {i : Nat} (hi : i < ss.length) :
    (a.run (clearOps a l i)).ctx = Arena.setSlot a.ctx l.id i none ∧
    (a.run (clearOps a l i)).root = a.root ∧ (a.run (clearOps a l i)).alive = true := by
  by_cases hcb : a.cb = none
  · rw [clear_net_outside hinv hcb h hi]; exact ⟨rfl, rfl, hinv.alive⟩
  · rw [clear_net_inside hinv.alive hcb h hi]
    obtain ⟨_, b2, _, _, _, b6, _, _⟩ := ({ a with marked := false } : Arena).push_spec (.strong l.id)
    exact ⟨rfl, b2, by show (Arena.push _ _).alive = true; rw [b6]; exact hinv.alive⟩

/-- **`DynamicRootSet::new` + storing the set in root slot `k`**, inside `mutate_root`. -/
theorem newSet_net {a : Arena} (halive : a.alive = true) (hcb : a.cb = some .mutateRoot) {k : Nat}
    (hk : k < a.root.length) (cap : Nat) :
    (a.run (newSetOps k cap a.ctx.heap.fresh)).ctx = (a.ctx.link (emptySetObj cap)).1 ∧
    (a.run (newSetOps k cap a.ctx.heap.fresh)).root = a.root.set k (some (.strong a.ctx.heap.fresh)) ∧
    (a.run (newSetOps k cap a.ctx.heap.fresh)).alive = true := by
  have hcb' : a.cb ≠ none := by rw [hcb]; simp
  have e1 := step_alloc_empty halive hcb' cap
  generalize ha0 : ({ a with marked := false, ctx := (a.ctx.link (emptySetObj cap)).1 } : Arena) = a0 at e1
  obtain ⟨b1, b2, b3, _, _, b6, _, _⟩ := a0.push_spec (.strong a.ctx.heap.fresh)
  generalize hb : a0.push (.strong a.ctx.heap.fresh) = b at e1 b1 b2 b3 b6
  have hbx : b.holds (.strong a.ctx.heap.fresh) = true := by rw [← hb]; exact holds_push_self _ _
  have a0alive : a0.alive = true := by rw [← ha0]; exact halive
  have a0cb : a0.cb = some .mutateRoot := by rw [← ha0]; exact hcb
  have a0root : a0.root = a.root := by rw [← ha0]
  have a0ctx : a0.ctx = (a.ctx.link (emptySetObj cap)).1 := by rw [← ha0]
  have e2 := step_rootStore (a := b) (k := k) (v := some (.strong a.ctx.heap.fresh))
    (by rw [b6]; exact a0alive) (by rw [b3]; exact a0cb) hbx (by rw [b2, a0root]; exact hk)
  simp only [newSetOps, Arena.run]
  rw [e1, e2]
  exact ⟨by show b.ctx = _; rw [b1, a0ctx], by show b.root.set _ _ = _; rw [b2, a0root],
    by show b.alive = true; rw [b6]; exact a0alive⟩

/-- **`fetch`, collector side**: reading slot `i` of the set object through the root.  Both reads
are accepted; the pointer found in the slot is held afterwards; nothing else changes. -/
theorem fetch_net {a : Arena} (halive : a.alive = true) (hcb : a.cb ≠ none) {l : SetLoc}
    {ss : List Slot} (h : Holds a l ss) {hd : Handle} {q : Ptr} (hq : ss[hd.index]? = some (some q)) :
    (a.run (fetchOps l hd)).ctx = a.ctx ∧ (a.run (fetchOps l hd)).root = a.root ∧
    (a.run (fetchOps l hd)).alive = true ∧ (a.run (fetchOps l hd)).cb = a.cb ∧
    (a.run (fetchOps l hd)).holds q = true ∧
    (a.step (.readRoot l.slot)).2 = Arena.showPtr (.strong l.id) ∧
    ((a.step (.readRoot l.slot)).1.step (.read l.id hd.index)).2 = Arena.showPtr q := by
  obtain ⟨o, ho, _, _, hs⟩ := h.obj
  have e1 := step_readRoot halive hcb h.root
  generalize hb : (({ a with marked := false } : Arena).push (.strong l.id)) = b at e1
  obtain ⟨b1, b2, b3, _, _, b6, _, _⟩ := ({ a with marked := false } : Arena).push_spec (.strong l.id)
  rw [hb] at b1 b2 b3 b6
  have hbx : b.holds (.strong l.id) = true := by rw [← hb]; exact holds_push_self _ _
  have hbalive : b.alive = true := by rw [b6]; exact halive
  have hbcb : b.cb ≠ none := by rw [b3]; exact hcb
  have e2 := step_read (a := b) (x := l.id) (i := hd.index) (o := o) (q := q) hbalive hbcb hbx
    (by rw [b1]; exact ho) (by rw [hs]; exact hq)
  obtain ⟨c1, c2, c3, _, _, c6, _, _⟩ := ({ b with marked := false } : Arena).push_spec q
  have out1 : (a.step (.readRoot l.slot)).2 = Arena.showPtr (.strong l.id) := by
    rw [step_alive_eq halive]
    simp [Arena.stepBody, isNone_false_of_ne hcb, h.root]
  have out2 : ((a.step (.readRoot l.slot)).1.step (.read l.id hd.index)).2 = Arena.showPtr q := by
    rw [e1, step_alive_eq hbalive]
    have hx' : ({ b with marked := false } : Arena).holds (.strong l.id) = true := hbx
    have hsl : Arena.slotOf b.ctx l.id hd.index = some (some q) := by
      simp [Arena.slotOf, b1, ho, hs, hq]
    simp [Arena.stepBody, isNone_false_of_ne hbcb, hx', hsl]
  refine ⟨?_, ?_, ?_, ?_, ?_, out1, out2⟩ <;> simp only [fetchOps, Arena.run] <;> rw [e1, e2]
  · rw [c1]; exact b1
  · rw [c2]; exact b2
  · rw [c6]; exact hbalive
  · rw [c3]; exact b3
  · exact holds_push_self _ _


/-! ## 4. The coupling relation is an invariant of the coupled system -/

theorem Live.inv {n : Nat} {S : Sys} (hc : Live n S) : Inv S.a := by
  have := inv_run n S.aops (by rw [← hc.arena]; exact hc.alive)
  rw [← hc.arena] at this; exact this

theorem Live.dinv {n : Nat} {S : Sys} (hc : Live n S) : DynRoots.Inv S.d := by
  rw [hc.dyn]; exact DynRoots.inv_run _

theorem Live.init (n : Nat) : Live n (Sys.init n) :=
  ⟨rfl, rfl, rfl, rfl, by simp [Sys.init], by simp [Sys.init]⟩

theorem Live.doA_run {n : Nat} {S : Sys} (hc : Live n S) (ops : List Op) :
    S.a.run ops = (Arena.new n).run (S.aops ++ ops) := by
  rw [arena_run_append, ← hc.arena]

theorem Live.doD_run {n : Nat} {S : Sys} (hc : Live n S) (op : DynRoots.Op) :
    DynRoots.next S.d op = DynRoots.run State.init (S.dops ++ [op]) := by
  rw [dyn_run_snoc, ← hc.dyn]

theorem mem_of_getElem?' {α} {l : List α} {i : Nat} {x : α} (h : l[i]? = some x) : x ∈ l :=
  List.mem_of_getElem? h

theorem allowed_spec {S : Sys} {op : Op} (hal : S.allowed op = true) {s : Nat} {l : SetLoc}
    (hl : S.loc[s]? = some l) :
    op ≠ .dropArena ∧ (∀ path i v, op ≠ .store path l.id i v) ∧ (∀ v, op ≠ .rootStore l.slot v) := by
  have hid : l.id ∈ S.ids := List.mem_map.2 ⟨l, mem_of_getElem?' hl, rfl⟩
  have hsl : l.slot ∈ S.rootSlots := List.mem_map.2 ⟨l, mem_of_getElem?' hl, rfl⟩
  refine ⟨?_, ?_, ?_⟩
  · rintro rfl; simp [Sys.allowed] at hal
  · rintro path i v rfl; simp [Sys.allowed] at hal; exact hal hid
  · rintro v rfl; simp [Sys.allowed] at hal; exact hal hsl

/-- An interleaved collector-model op. -/
theorem Live.gc {n : Nat} {S : Sys} (hc : Live n S) {op : Op} (hal : S.allowed op = true) :
    Live n (S.doA [op]) := by
  have hi := hc.inv
  have hda : op ≠ .dropArena := by rintro rfl; simp [Sys.allowed] at hal
  refine ⟨hc.doA_run [op], hc.dyn, ?_, hc.len, hc.distinct, ?_⟩
  · show (S.a.step op).1.alive = true
    rw [(step_fr hi op hda).1]; exact hc.alive
  · intro s l rs hl hs
    obtain ⟨hh, hlen⟩ := hc.sets s l rs hl hs
    obtain ⟨h1, h2, h3⟩ := allowed_spec hal hl
    exact ⟨hh.step hi op h1 h2 h3, hlen⟩

theorem Sys.doA_nil (S : Sys) : S.doA [] = S := by
  simp [Sys.doA, Arena.run]

theorem Sys.doA_cons (S : Sys) (op : Op) (ops : List Op) : S.doA (op :: ops) = (S.doA [op]).doA ops := by
  simp [Sys.doA, Arena.run]

theorem Live.gcs {n : Nat} (ops : List Op) : ∀ {S : Sys}, Live n S →
    (∀ op ∈ ops, S.allowed op = true) → Live n (S.doA ops) := by
  induction ops with
  | nil => intro S hc _; rw [Sys.doA_nil]; exact hc
  | cons op ops ih =>
    intro S hc hal
    rw [Sys.doA_cons]
    exact ih (hc.gc (hal op (List.mem_cons_self ..)))
      (fun o ho => hal o (List.mem_cons_of_mem _ ho))

/-- A DynRoots op that changes no table image (clone, a drop that leaves other handles of the
slot, fetch / try_fetch / contains). -/
theorem Live.doD_same {n : Nat} {S : Sys} (hc : Live n S) (op : DynRoots.Op)
    (hT : SameTables S.d (DynRoots.next S.d op)) : Live n (S.doD op) := by
  refine ⟨hc.arena, hc.doD_run op, hc.alive, hc.len.trans hT.1.symm, hc.distinct, ?_⟩
  intro s l rs' hl hs
  obtain ⟨rs, hrs, _, hlen, himg⟩ := hT.2 s rs' hs
  obtain ⟨hh, hle⟩ := hc.sets s l rs hl hrs
  refine ⟨?_, by rw [hlen]; exact hle⟩
  rw [mirror_congr (tbl := rs.slots.slots) (tbl' := rs'.slots.slots) (fun i _ => himg i)]
  exact hh

theorem getElem?_append_one {α} {l : List α} {x y : α} {s : Nat} (h : (l ++ [x])[s]? = some y) :
    (s < l.length ∧ l[s]? = some y) ∨ (s = l.length ∧ y = x) := by
  rw [List.getElem?_append] at h
  by_cases hs : s < l.length
  · simp [hs] at h; exact .inl ⟨hs, by simp [hs, h]⟩
  · simp [hs] at h
    cases hk : s - l.length with
    | zero => rw [hk] at h; simp at h; exact .inr ⟨by omega, h.symm⟩
    | succ k => rw [hk] at h; simp at h

theorem Live.newSet {n : Nat} {S : Sys} (hc : Live n S) {k : Nat} (cap : Nat)
    (hcb : S.a.cb = some .mutateRoot) (hk : k < S.a.root.length) (hfree : k ∉ S.rootSlots) :
    Live n ((({ S with loc := S.loc ++ [⟨k, S.a.ctx.heap.fresh, cap⟩] } : Sys).doA
        (newSetOps k cap S.a.ctx.heap.fresh)).doD .newSet) := by
  obtain ⟨nctx, nroot, nalive⟩ := newSet_net hc.alive hcb hk cap
  have hold : ∀ (s : Nat) (l : SetLoc), S.loc[s]? = some l → ∃ rs, S.d.sets[s]? = some rs := by
    intro s l hl
    have hs : s < S.d.sets.length := by
      rw [← hc.len]; exact (List.getElem?_eq_some_iff.1 hl).1
    exact ⟨S.d.sets[s], List.getElem?_eq_getElem hs⟩
  have hfresh : ∀ (s : Nat) (l : SetLoc), S.loc[s]? = some l → l.id ≠ S.a.ctx.heap.fresh := by
    intro s l hl he
    obtain ⟨rs, hrs⟩ := hold s l hl
    obtain ⟨o, ho, _⟩ := (hc.sets s l rs hl hrs).1.obj
    rw [he, Heap.get_fresh] at ho; cases ho
  refine ⟨hc.doA_run _, ?_, nalive, ?_, ?_, ?_⟩
  · exact hc.doD_run .newSet
  · show (S.loc ++ [_]).length = (DynRoots.next S.d .newSet).sets.length
    rw [next_newSet]; simp [hc.len]
  · intro s s' l l' hl hl' he
    change (S.loc ++ [_])[s]? = some l at hl
    change (S.loc ++ [_])[s']? = some l' at hl'
    rcases getElem?_append_one hl with ⟨_, h1⟩ | ⟨e1, rfl⟩
    · rcases getElem?_append_one hl' with ⟨_, h2⟩ | ⟨e2, rfl⟩
      · exact hc.distinct s s' l l' h1 h2 he
      · exact absurd he (hfresh s l h1)
    · rcases getElem?_append_one hl' with ⟨_, h2⟩ | ⟨e2, rfl⟩
      · exact absurd he.symm (hfresh s' l' h2)
      · rw [e1, e2]
  · intro s l rs hl hs
    change (S.loc ++ [_])[s]? = some l at hl
    change (DynRoots.next S.d .newSet).sets[s]? = some rs at hs
    rw [next_newSet] at hs
    change (S.d.sets ++ [_])[s]? = some rs at hs
    show Holds (S.a.run (newSetOps k cap S.a.ctx.heap.fresh)) l _ ∧ _
    rcases getElem?_append_one hl with ⟨hlt, h1⟩ | ⟨e1, rfl⟩
    · rcases getElem?_append_one hs with ⟨_, h2⟩ | ⟨e2, _⟩
      · obtain ⟨hh, hle⟩ := hc.sets s l rs h1 h2
        refine ⟨hh.keep ?_ ?_, hle⟩
        · rw [nroot]
          have : k ≠ l.slot := by
            intro he; apply hfree; rw [he]
            exact List.mem_map.2 ⟨l, mem_of_getElem?' h1, rfl⟩
          rw [List.getElem?_set_ne this]
        · rw [nctx]; exact keepAt_link _ _ _
      · rw [← hc.len] at e2; omega
    · rcases getElem?_append_one hs with ⟨hlt, _⟩ | ⟨_, rfl⟩
      · rw [← hc.len] at hlt; omega
      · refine ⟨⟨?_, ?_⟩, by simp [Slots.new]⟩
        · rw [nroot]; simp [hk]
        · refine ⟨emptySetObj cap, ?_, rfl, rfl, ?_⟩
          · rw [nctx]; simp [Ctx.link]
          · simp [emptySetObj, Slots.new, mirror_nil]

theorem Live.stash {n : Nat} {S : Sys} (hc : Live n S) {s r idx : Nat} {l : SetLoc}
    {rs : RootSet} {sl : Slots} (hl : S.loc[s]? = some l) (hls : S.d.liveSet s = some rs)
    (ha : rs.slots.add r = .ok (sl, idx)) (hcb : S.a.cb ≠ none) (hr : S.a.holds (.strong r) = true)
    (hidx : idx < l.cap) : Live n ((S.doA (stashOps l r idx)).doD (.stash s r)) := by
  obtain ⟨hsets, _⟩ := DynRoots.liveSet_eq_some.1 hls
  obtain ⟨hh, hle⟩ := hc.sets s l rs hl hsets
  obtain ⟨nctx, nroot, nalive, _, _, _⟩ :=
    stash_net hc.alive hcb hh hr (by rw [mirror_length]; exact hidx)
  obtain ⟨dlen, dsets⟩ := next_stash_sets hls ha
  -- the arena after the barrier, before the store
  let am : Arena := { S.a with ctx := S.a.ctx.backwardBarrier l.id (some r) }
  have ham : ∀ l' ss', Holds S.a l' ss' → Holds am l' ss' := fun l' ss' h' =>
    h'.keep rfl ((rc_backwardBarrier _ _ _).keepAt _)
  refine ⟨hc.doA_run _, hc.doD_run _, nalive, hc.len.trans dlen.symm, hc.distinct, ?_⟩
  intro s' l' rs' hl' hs'
  change S.loc[s']? = some l' at hl'
  obtain ⟨rs0, hrs0, hlen0, himg⟩ := dsets s' rs' hs'
  obtain ⟨hh0, hle0⟩ := hc.sets s' l' rs0 hl' hrs0
  show Holds (S.a.run (stashOps l r idx)) l' _ ∧ _
  by_cases he : s' = s
  · subst he
    rw [hl] at hl'; cases hl'
    rw [hsets] at hrs0; cases hrs0
    refine ⟨?_, ?_⟩
    · have : mirror l.cap rs'.slots.slots =
          (mirror l.cap rs.slots.slots).set idx (some (.strong r)) :=
        mirror_update (fun i _ => by rw [himg i]; simp)
      rw [this]
      exact (ham _ _ hh).setSlot_self idx _ nroot nctx
    · simp only [if_true] at hlen0; omega
  · refine ⟨?_, ?_⟩
    · rw [mirror_congr (tbl := rs0.slots.slots) (tbl' := rs'.slots.slots)
        (fun i _ => by rw [himg i]; simp [he])]
      have hne : l'.id ≠ l.id := fun e => he (hc.distinct s' s l' l hl' hl e)
      exact (ham _ _ hh0).setSlot_other hne idx _ nroot nctx
    · simp only [he, if_false] at hlen0; omega

theorem Live.dropVacating {n : Nat} {S : Sys} (hc : Live n S) {h : Handle} {l : SetLoc}
    {rs : RootSet} {r : Nat} (hm : h ∈ S.d.handles) (hl : S.loc[h.set]? = some l)
    (hls : S.d.liveSet h.set = some rs) (hv : rs.slots.slots[h.index]? = some (.occupied r 0)) :
    Live n ((S.doA (clearOps S.a l h.index)).doD (.dropHandle h)) := by
  obtain ⟨hsets, _⟩ := DynRoots.liveSet_eq_some.1 hls
  obtain ⟨hh, hle⟩ := hc.sets h.set l rs hl hsets
  have hidx : h.index < rs.slots.slots.length := (List.getElem?_eq_some_iff.1 hv).1
  obtain ⟨nctx, nroot, nalive⟩ :=
    clear_fields hc.inv hh (i := h.index) (by rw [mirror_length]; omega)
  obtain ⟨dlen, dsets⟩ := next_drop_vacates hm hls hv
  refine ⟨hc.doA_run _, hc.doD_run _, nalive, hc.len.trans dlen.symm, hc.distinct, ?_⟩
  intro s' l' rs' hl' hs'
  change S.loc[s']? = some l' at hl'
  obtain ⟨rs0, hrs0, hlen0, himg⟩ := dsets s' rs' hs'
  obtain ⟨hh0, hle0⟩ := hc.sets s' l' rs0 hl' hrs0
  show Holds (S.a.run (clearOps S.a l h.index)) l' _ ∧ _
  refine ⟨?_, by rw [hlen0]; exact hle0⟩
  by_cases he : s' = h.set
  · subst he
    rw [hl] at hl'; cases hl'
    rw [hsets] at hrs0; cases hrs0
    have : mirror l.cap rs'.slots.slots = (mirror l.cap rs.slots.slots).set h.index none :=
      mirror_update (fun i _ => by rw [himg i]; simp)
    rw [this]
    exact hh.setSlot_self h.index _ nroot nctx
  · rw [mirror_congr (tbl := rs0.slots.slots) (tbl' := rs'.slots.slots)
      (fun i _ => by rw [himg i]; simp [he])]
    have hne : l'.id ≠ l.id := fun e => he (hc.distinct s' h.set l' l hl' hl e)
    exact hh0.setSlot_other hne h.index _ nroot nctx

theorem fetchOps_allowed (S : Sys) (l : SetLoc) (h : Handle) :
    ∀ op ∈ fetchOps l h, S.allowed op = true := by
  intro op hop
  simp [fetchOps] at hop
  rcases hop with rfl | rfl <;> rfl

theorem Live.fetchLike {n : Nat} {S : Sys} (hc : Live n S) (s : Nat) (h : Handle)
    (dop : DynRoots.Op) (hdop : DynRoots.next S.d dop = S.d) : Live n (S.fetchLike s h dop) := by
  have same : ∀ {S' : Sys}, Live n S' → S'.d = S.d → Live n (S'.doD dop) := by
    intro S' hc' hd
    apply hc'.doD_same
    rw [hd, hdop]; exact SameTables.refl _
  unfold Sys.fetchLike
  split
  · split
    · exact same (hc.gcs _ (fetchOps_allowed S _ h)) rfl
    · exact same hc rfl
  · exact same hc rfl

/-- Every coupled operation other than the arena drop preserves the live coupling. -/
theorem Live.step {n : Nat} {S : Sys} (hc : Live n S) (op : COp) (hne : op ≠ .dropArena) :
    Live n (S.step op) := by
  cases op with
  | dropArena => exact absurd rfl hne
  | newSet k cap =>
    simp only [Sys.step]
    split
    · rename_i hg
      simp only [Bool.and_eq_true, decide_eq_true_eq, Bool.not_eq_true', List.contains_eq_mem,
        decide_eq_false_iff_not] at hg
      exact hc.newSet cap hg.1.1.2 hg.1.2 hg.2
    · exact hc
  | stash s r =>
    simp only [Sys.step]
    split
    · rename_i l rs hl hls
      split
      · rename_i sl idx ha
        split
        · rename_i hg
          simp only [Bool.and_eq_true, decide_eq_true_eq] at hg
          have hcb : S.a.cb ≠ none := by
            intro e; rw [e] at hg; simp at hg
          exact hc.stash hl hls ha hcb hg.1.2 hg.2
        · exact hc
      · exact hc
    · exact hc
  | clone h => exact hc.doD_same _ (next_clone_same _ _)
  | dropHandle h =>
    simp only [Sys.step]
    split
    · rename_i hm
      have nonvac : ∀ (hnv : ¬ Vacates S.d h), Live n (S.doD (.dropHandle h)) :=
        fun hnv => hc.doD_same _ (next_drop_same _ _ hnv)
      split
      · rename_i l rs hl hls
        split
        · rename_i r hv
          exact hc.dropVacating hm hl hls hv
        · rename_i hnv
          apply nonvac
          rintro ⟨_, rs', r', hls', hv'⟩
          rw [hls] at hls'; cases hls'
          exact hnv r' hv'
      · rename_i hnone
        apply nonvac
        rintro ⟨_, rs', r', hls', hv'⟩
        obtain ⟨hsets, _⟩ := DynRoots.liveSet_eq_some.1 hls'
        have hlt : h.set < S.loc.length := by
          rw [hc.len]; exact (List.getElem?_eq_some_iff.1 hsets).1
        exact hnone _ _ (List.getElem?_eq_getElem hlt) hls'
    · exact hc
  | fetch s h => exact hc.fetchLike s h _ (DynRoots.next_fetch _ _ _)
  | tryFetch s h => exact hc.fetchLike s h _ (DynRoots.next_tryFetch _ _ _)
  | contains s h =>
    apply hc.doD_same
    rw [DynRoots.next_contains]; exact SameTables.refl _
  | gc op =>
    simp only [Sys.step]
    split
    · rename_i hal; exact hc.gc hal
    · exact hc

/-! ### Arena drop: every set is destroyed -/

theorem Sys.doDs_spec (ops : List DynRoots.Op) : ∀ S : Sys,
    (S.doDs ops).a = S.a ∧ (S.doDs ops).loc = S.loc ∧ (S.doDs ops).aops = S.aops ∧
    (S.doDs ops).d = DynRoots.run S.d ops ∧ (S.doDs ops).dops = S.dops ++ ops := by
  induction ops with
  | nil => intro S; simp [Sys.doDs, DynRoots.run]
  | cons op ops ih =>
    intro S
    obtain ⟨h1, h2, h3, h4, h5⟩ := ih (S.doD op)
    refine ⟨h1, h2, h3, ?_, ?_⟩
    · exact h4
    · show ((S.doD op).doDs ops).dops = _
      rw [h5]; simp [Sys.doD]

theorem dyn_run_append (ops ops' : List DynRoots.Op) :
    ∀ st : State, DynRoots.run st (ops ++ ops') = DynRoots.run (DynRoots.run st ops) ops' := by
  induction ops with
  | nil => intro st; rfl
  | cons o ops ih => intro st; simp only [List.cons_append, DynRoots.run]; exact ih _

theorem liveSet_of_ge {d : State} {s : Nat} (h : d.sets.length ≤ s) : d.liveSet s = none := by
  unfold State.liveSet
  rw [List.getElem?_eq_none h]

theorem next_destroy (d : State) (x : Nat) :
    (DynRoots.next d (.destroySet x)).sets.length = d.sets.length ∧
    (DynRoots.next d (.destroySet x)).liveSet x = none ∧
    ∀ s, d.liveSet s = none → (DynRoots.next d (.destroySet x)).liveSet s = none := by
  cases hl : d.liveSet x with
  | none =>
    have e : DynRoots.next d (.destroySet x) = d := by simp [DynRoots.next, DynRoots.step, hl]
    rw [e]; exact ⟨rfl, hl, fun _ h => h⟩
  | some rs =>
    have e : DynRoots.next d (.destroySet x) =
        { d with sets := d.sets.set x { rs with alive := false } } := by
      simp [DynRoots.next, DynRoots.step, hl]
    rw [e]
    refine ⟨by simp, ?_, ?_⟩
    · apply DynRoots.liveSet_eq_none.2
      intro rs' hs
      rcases sets_set_get hs with ⟨_, rfl, _⟩ | ⟨hne, _⟩
      · rfl
      · exact absurd rfl hne
    · intro s hs
      apply DynRoots.liveSet_eq_none.2
      intro rs' hs'
      rcases sets_set_get hs' with ⟨_, rfl, _⟩ | ⟨_, hold⟩
      · rfl
      · exact DynRoots.liveSet_eq_none.1 hs rs' hold

theorem run_destroy (l : List Nat) : ∀ d : State,
    (DynRoots.run d (l.map .destroySet)).sets.length = d.sets.length ∧
    ∀ s, (s ∈ l ∨ d.liveSet s = none) → (DynRoots.run d (l.map .destroySet)).liveSet s = none := by
  induction l with
  | nil =>
    intro d
    refine ⟨rfl, fun s h => ?_⟩
    show d.liveSet s = none
    rcases h with h | h
    · cases h
    · exact h
  | cons x l ih =>
    intro d
    obtain ⟨n1, n2, n3⟩ := next_destroy d x
    obtain ⟨i1, i2⟩ := ih (DynRoots.next d (.destroySet x))
    simp only [List.map_cons, DynRoots.run]
    refine ⟨i1.trans n1, fun s hs => ?_⟩
    rcases hs with hs | hs
    · rcases List.mem_cons.1 hs with rfl | hs
      · exact i2 _ (.inr n2)
      · exact i2 _ (.inl hs)
    · exact i2 _ (.inr (n3 s hs))

/-- After `destroySet` for every set id, no set is alive. -/
theorem run_destroyOps (d : State) :
    (DynRoots.run d (destroyOps d.sets.length)).sets.length = d.sets.length ∧
    ∀ s, (DynRoots.run d (destroyOps d.sets.length)).liveSet s = none := by
  obtain ⟨h1, h2⟩ := run_destroy (List.range d.sets.length) d
  refine ⟨h1, fun s => h2 s ?_⟩
  by_cases hs : s < d.sets.length
  · exact .inl (List.mem_range.2 hs)
  · exact .inr (liveSet_of_ge (by omega))

theorem step_dropArena {a : Arena} (halive : a.alive = true) (hcb : a.cb = none) :
    (a.step .dropArena).1.alive = false := by
  rw [step_alive_eq halive]
  simp [Arena.stepBody, hcb]

/-- The coupling relation once the arena has been dropped: no set is alive (so handle clones and
drops no longer touch any table: `C14.outlive`). -/
structure Dead (n : Nat) (S : Sys) : Prop where
  arena : S.a = (Arena.new n).run S.aops
  dyn : S.d = DynRoots.run State.init S.dops
  len : S.loc.length = S.d.sets.length
  distinct : ∀ (s s' : Nat) (l l' : SetLoc), S.loc[s]? = some l → S.loc[s']? = some l' → l.id = l'.id → s = s'
  dead : S.a.alive = false
  sets : ∀ s, S.d.liveSet s = none

theorem Live.dropArena {n : Nat} {S : Sys} (hc : Live n S) (hcb : S.a.cb = none) :
    Dead n ((S.doA [.dropArena]).doDs (destroyOps S.d.sets.length)) := by
  obtain ⟨s1, s2, s3, s4, s5⟩ := (S.doA [.dropArena]).doDs_spec (destroyOps S.d.sets.length)
  obtain ⟨r1, r2⟩ := run_destroyOps S.d
  refine ⟨?_, ?_, ?_, ?_, ?_, ?_⟩
  · rw [s1, s3]; exact hc.doA_run _
  · rw [s4, s5]
    show DynRoots.run S.d _ = DynRoots.run State.init (S.dops ++ _)
    rw [dyn_run_append, ← hc.dyn]
  · rw [s2, s4]
    show S.loc.length = (DynRoots.run S.d _).sets.length
    rw [r1]; exact hc.len
  · rw [s2]; exact hc.distinct
  · rw [s1]; exact step_dropArena hc.alive hcb
  · rw [s4]; exact r2

theorem Dead.doA {n : Nat} {S : Sys} (hd : Dead n S) (ops : List Op) : Dead n (S.doA ops) := by
  refine ⟨?_, hd.dyn, hd.len, hd.distinct, ?_, hd.sets⟩
  · show S.a.run ops = (Arena.new n).run (S.aops ++ ops)
    rw [arena_run_append, ← hd.arena]
  · show (S.a.run ops).alive = false
    rw [run_dead hd.dead]; exact hd.dead

theorem Dead.doD {n : Nat} {S : Sys} (hd : Dead n S) (op : DynRoots.Op)
    (hT : SameTables S.d (DynRoots.next S.d op)) : Dead n (S.doD op) := by
  refine ⟨hd.arena, ?_, hd.len.trans hT.1.symm, hd.distinct, hd.dead, ?_⟩
  · show DynRoots.next S.d op = DynRoots.run State.init (S.dops ++ [op])
    rw [dyn_run_snoc, ← hd.dyn]
  · intro s
    apply DynRoots.liveSet_eq_none.2
    intro rs' hs
    obtain ⟨rs, hrs, ha, _⟩ := hT.2 s rs' hs
    rw [ha]; exact DynRoots.liveSet_eq_none.1 (hd.sets s) rs hrs

/-- Once the arena is gone, every coupled operation keeps it that way: collector-model ops are
refused, handle clones and drops only add / remove handles. -/
theorem Dead.step {n : Nat} {S : Sys} (hd : Dead n S) (op : COp) : Dead n (S.step op) := by
  have hal : S.a.alive = false := hd.dead
  cases op with
  | newSet k cap => simp [Sys.step, hal]; exact hd
  | stash s r =>
    simp only [Sys.step]
    split
    · rename_i l rs hl hls
      rw [hd.sets s] at hls; cases hls
    · exact hd
  | clone h => exact hd.doD _ (next_clone_same _ _)
  | dropHandle h =>
    simp only [Sys.step]
    have nv : ¬ Vacates S.d h := by
      rintro ⟨_, rs, r, hls, _⟩
      rw [hd.sets h.set] at hls; cases hls
    split
    · split
      · rename_i l rs hl hls
        rw [hd.sets h.set] at hls; cases hls
      · exact hd.doD _ (next_drop_same _ _ nv)
    · exact hd
  | fetch s h =>
    have : S.fetchLike s h (.fetch s h) = S.doD (.fetch s h) := by
      unfold Sys.fetchLike; split <;> simp [hal]
    show Dead n (S.fetchLike s h (.fetch s h))
    rw [this]
    apply hd.doD
    rw [DynRoots.next_fetch]; exact SameTables.refl _
  | tryFetch s h =>
    have : S.fetchLike s h (.tryFetch s h) = S.doD (.tryFetch s h) := by
      unfold Sys.fetchLike; split <;> simp [hal]
    show Dead n (S.fetchLike s h (.tryFetch s h))
    rw [this]
    apply hd.doD
    rw [DynRoots.next_tryFetch]; exact SameTables.refl _
  | contains s h =>
    apply hd.doD
    rw [DynRoots.next_contains]; exact SameTables.refl _
  | gc op =>
    simp only [Sys.step]
    split
    · exact hd.doA _
    · exact hd
  | dropArena => simp [Sys.step, hal]; exact hd

/-! ### The coupling relation -/

/-- **The coupling relation.**  Both sides are runs of the two existing models from their initial
states; there is one `SetLoc` per set, with pairwise different set objects; **while the arena
exists** every set's object is held by its root slot, allocated, undestructed, traced, and mirrors
the set's slot table slot by slot (`Holds … (mirror cap table)`), the table having at most `cap`
slots; **once the arena has been dropped** no set is alive. -/
structure Coupled (n : Nat) (S : Sys) : Prop where
  arena : S.a = (Arena.new n).run S.aops
  dyn : S.d = DynRoots.run State.init S.dops
  len : S.loc.length = S.d.sets.length
  distinct : ∀ (s s' : Nat) (l l' : SetLoc), S.loc[s]? = some l → S.loc[s']? = some l' → l.id = l'.id → s = s'
  sets : S.a.alive = true → ∀ (s : Nat) (l : SetLoc) (rs : RootSet), S.loc[s]? = some l →
    S.d.sets[s]? = some rs → Holds S.a l (mirror l.cap rs.slots.slots) ∧ rs.slots.slots.length ≤ l.cap
  dead : S.a.alive = false → ∀ s, S.d.liveSet s = none

theorem Live.coupled {n : Nat} {S : Sys} (h : Live n S) : Coupled n S :=
  ⟨h.arena, h.dyn, h.len, h.distinct, fun _ => h.sets, fun hd => (by rw [h.alive] at hd; cases hd)⟩

theorem Dead.coupled {n : Nat} {S : Sys} (h : Dead n S) : Coupled n S :=
  ⟨h.arena, h.dyn, h.len, h.distinct, fun ha => (by rw [h.dead] at ha; cases ha), fun _ => h.sets⟩

theorem Coupled.live {n : Nat} {S : Sys} (h : Coupled n S) (ha : S.a.alive = true) : Live n S :=
  ⟨h.arena, h.dyn, ha, h.len, h.distinct, h.sets ha⟩

theorem Coupled.dead' {n : Nat} {S : Sys} (h : Coupled n S) (ha : S.a.alive = false) : Dead n S :=
  ⟨h.arena, h.dyn, h.len, h.distinct, ha, h.dead ha⟩

/-- An alive set witnesses that the arena still exists. -/
theorem Coupled.live_of_liveSet {n : Nat} {S : Sys} (h : Coupled n S) {s : Nat} {rs : RootSet}
    (hl : S.d.liveSet s = some rs) : Live n S := by
  cases ha : S.a.alive with
  | true => exact h.live ha
  | false => rw [h.dead ha s] at hl; cases hl

theorem Coupled.init (n : Nat) : Coupled n (Sys.init n) := (Live.init n).coupled

/-- **Every coupled operation preserves the coupling relation.** -/
theorem Coupled.step {n : Nat} {S : Sys} (hc : Coupled n S) (op : COp) : Coupled n (S.step op) := by
  cases ha : S.a.alive with
  | false => exact ((hc.dead' ha).step op).coupled
  | true =>
    have hl := hc.live ha
    by_cases hop : op = .dropArena
    · subst hop
      simp only [Sys.step]
      split
      · rename_i hg
        simp only [Bool.and_eq_true, Option.isNone_iff_eq_none] at hg
        exact (hl.dropArena hg.2).coupled
      · exact hc
    · exact (hl.step op hop).coupled

/-- **`coupled_run`**: the coupling relation holds after every coupled operation sequence. -/
theorem Coupled.run {n : Nat} (ops : List COp) : ∀ {S : Sys}, Coupled n S → Coupled n (S.run ops) := by
  induction ops with
  | nil => intro S hc; exact hc
  | cons op ops ih => intro S hc; exact ih (hc.step op)

/-- `arena.finish_cycle()` as a coupled op. -/
def fc : COp := .gc (.collect .finishCycle .drop none none)

end GcArena.DynCompose
