import GcArena.Model.Derive
/-!
# Lemmas for C15 (`derive(Collect)`)

`Good s`: the meaning `s` of a type is *exact* — whenever the type is `Collect`, `Trace::trace`
of any of its values reports exactly the pointers the value holds (as lists, in storage order —
stronger than the permutation the property asks for).  `Ty.sem_good`: every type of the universe
is exact under an exact instantiation of the type parameters, by mutual structural induction over
`Ty` / `Decl` / `Variant` / `Field`.
-/
namespace GcArena.Derive

/-- Exactness of a type's `Collect` impl (through `Trace::trace`, i.e. with the `NEEDS_TRACE`
short-circuit). -/
def Good (s : Sem) : Prop :=
  s.collect = true → ∀ v, s.check v = true → s.visit v = ptrsOf v

/-- Every parameter of the instantiation is exact. -/
def EnvGood (ρ : List Sem) : Prop := ∀ s ∈ ρ, Good s

theorem envGood_nil : EnvGood [] := by intro s h; cases h

/-! ### Base types -/

theorem good_leaf : Good Sem.leaf := by
  intro _ v hv
  cases v <;> simp_all [Sem.leaf, Sem.visit, ptrsOf]

theorem good_gc : Good Sem.gc := by
  intro _ v hv
  cases v <;> simp_all [Sem.gc, Sem.visit, ptrsOf]

theorem good_weak : Good Sem.weak := by
  intro _ v hv
  cases v <;> simp_all [Sem.weak, Sem.visit, ptrsOf]

theorem good_opaque (b : Bool) : Good (Sem.opaque b) := by
  intro h; simp [Sem.opaque] at h

theorem good_ref (st : Bool) (t : Sem) : Good (Sem.ref st t) := by
  intro hcol v hv
  simp only [Sem.ref] at hcol
  cases v <;> simp_all [Sem.ref, Sem.visit, ptrsOf]

theorem good_default : Good (default : Sem) := good_opaque false

theorem good_getD (ρ : List Sem) (h : EnvGood ρ) (i : Nat) : Good (ρ.getD i default) := by
  by_cases hi : i < ρ.length
  · have : ρ.getD i default = ρ[i] := by simp [List.getD, List.getElem?_eq_getElem hi]
    rw [this]; exact h _ (List.getElem_mem hi)
  · have : ρ.getD i default = default := by
      simp [List.getD, List.getElem?_eq_none (Nat.le_of_not_lt hi)]
    rw [this]; exact good_default

/-! ### Provided containers -/

theorem visit_nil_of_not_needs (s : Sem) (h : s.needsTrace = false) (v : Val) : s.visit v = [] := by
  simp [Sem.visit, h]

theorem traceElems_eq (args : List Sem) (hg : EnvGood args) (hc : ∀ s ∈ args, s.collect = true) :
    ∀ es, checkElems args es = true → traceElems args es = ptrsOfElems es
  | [], _ => by simp [traceElems, ptrsOfElems]
  | e :: es, h => by
      simp only [checkElems, Bool.and_eq_true, decide_eq_true_eq] at h
      obtain ⟨⟨hlt, hck⟩, hrest⟩ := h
      have hmem : args.getD e.1 default ∈ args := by
        have : args.getD e.1 default = args[e.1] := by
          simp [List.getD, List.getElem?_eq_getElem hlt]
        rw [this]; exact List.getElem_mem hlt
      have h1 := hg _ hmem (hc _ hmem) e.2 hck
      simp only [traceElems, ptrsOfElems, h1, traceElems_eq args hg hc es hrest]
      cases e; rfl

theorem traceElems_nil (args : List Sem) (hn : ∀ s ∈ args, s.needsTrace = false) :
    ∀ es, checkElems args es = true → traceElems args es = []
  | [], _ => by simp [traceElems]
  | e :: es, h => by
      simp only [checkElems, Bool.and_eq_true, decide_eq_true_eq] at h
      obtain ⟨⟨hlt, _⟩, hrest⟩ := h
      have hmem : args.getD e.1 default ∈ args := by
        have : args.getD e.1 default = args[e.1] := by
          simp [List.getD, List.getElem?_eq_getElem hlt]
        rw [this]; exact List.getElem_mem hlt
      have hv := visit_nil_of_not_needs _ (hn _ hmem) e.2
      simp only [traceElems, hv, traceElems_nil args hn es hrest, List.append_nil]

theorem good_con (c : Con) (args : List Sem) (hg : EnvGood args) : Good (Sem.con c args) := by
  intro hcol v hv
  cases v with
  | con es =>
    simp only [Sem.con, Bool.and_eq_true, List.all_eq_true] at hcol hv
    have hc : ∀ s ∈ args, s.collect = true := hcol.2
    have heq := traceElems_eq args hg hc es hv.2
    by_cases hn : (Sem.con c args).needsTrace = true
    · simp only [Sem.visit, hn, if_true, ptrsOf]
      simpa [Sem.con] using heq
    · have hn' : (Sem.con c args).needsTrace = false := by simpa using hn
      have hall : ∀ s ∈ args, s.needsTrace = false := by
        intro s hs
        have : args.any (·.needsTrace) = false := by simpa [Sem.con] using hn'
        rw [List.any_eq_false] at this
        simpa using this s hs
      have hnil := traceElems_nil args hall es hv.2
      simp only [Sem.visit, hn', ptrsOf]
      rw [← heq, hnil]; rfl
  | _ => simp [Sem.con] at hv

/-! ### The derived impl -/

theorem foldl_or_false (l : List RField) :
    ∀ acc, l.foldl (fun acc f => acc || f.sem.needsTrace) acc = (acc || l.any (·.sem.needsTrace)) := by
  induction l with
  | nil => intro acc; simp
  | cons f fs ih => intro acc; simp [List.foldl, ih, Bool.or_assoc]

/-- `needs_trace_expr` is the disjunction over the kept bindings. -/
theorem needsTraceR_eq_any (r : RDecl) (m : Mode) (hm : modeOf r = some m) (hne : m ≠ .requireStatic) :
    needsTraceR r = (r.fields.filter (·.kept)).any (·.sem.needsTrace) := by
  unfold needsTraceR
  rw [hm]
  simp [hne, foldl_or_false]

theorem needsTraceR_requireStatic (r : RDecl) (hm : modeOf r = some .requireStatic) :
    needsTraceR r = false := by
  unfold needsTraceR; rw [hm]; simp

theorem mem_fields_of_variant (r : RDecl) (k : Nat) (vr : RVariant) (h : r.variants[k]? = some vr)
    (f : RField) (hf : f ∈ vr.fields) : f ∈ r.fields := by
  unfold RDecl.fields
  rw [List.mem_flatMap]
  exact ⟨vr, List.mem_of_getElem? h, hf⟩

/-- The arm of the active variant reports exactly what the fields hold, provided every kept field
type is exact and `Collect`, and every filtered field value is pointer-free. -/
theorem traceFields_eq :
    ∀ (fs : List RField) (xs : List Val),
      (∀ f ∈ fs, Good f.sem) → (∀ f ∈ fs, f.kept = true → f.sem.collect = true) →
      checkFields fs xs = true → traceFields fs xs = ptrsOfList xs
  | [], [], _, _, _ => by simp [traceFields, ptrsOfList]
  | [], _ :: _, _, _, h => by simp [checkFields] at h
  | _ :: _, [], _, _, h => by simp [checkFields] at h
  | f :: fs, x :: xs, hg, hc, h => by
      simp only [checkFields, Bool.and_eq_true, Bool.or_eq_true, Bool.not_eq_true',
        List.isEmpty_iff] at h
      obtain ⟨⟨hck, hst⟩, hrest⟩ := h
      have ih := traceFields_eq fs xs (fun g hgm => hg g (List.mem_cons_of_mem _ hgm))
        (fun g hgm => hc g (List.mem_cons_of_mem _ hgm)) hrest
      simp only [traceFields, ptrsOfList, ih]
      congr 1
      by_cases hk : f.kept = true
      · simp only [hk, if_true]
        exact hg f (List.mem_cons_self) (hc f (List.mem_cons_self) hk) x hck
      · have hk' : f.kept = false := by simpa using hk
        have : f.isStatic = true := by
          simpa [RField.kept, RField.isStatic, attrsKept] using hk'
        cases hst with
        | inl h0 => rw [this] at h0; cases h0
        | inr h0 => simp [hk', h0]

/-- If no kept binding of the variant needs tracing, the generated arm reports nothing. -/
theorem traceFields_nil :
    ∀ (fs : List RField) (xs : List Val),
      (∀ f ∈ fs, f.kept = true → f.sem.needsTrace = false) → traceFields fs xs = []
  | [], _, _ => by simp [traceFields]
  | _ :: _, [], _ => by simp [traceFields]
  | f :: fs, x :: xs, h => by
      have ih := traceFields_nil fs xs (fun g hgm => h g (List.mem_cons_of_mem _ hgm))
      simp only [traceFields, ih, List.append_nil]
      by_cases hk : f.kept = true
      · simp [hk, visit_nil_of_not_needs _ (h f (List.mem_cons_self) hk)]
      · simp [hk]

theorem firstErr_ok (l : List (Bool × Reject)) (h : firstErr l = .ok ()) : ∀ p ∈ l, p.1 = true := by
  induction l with
  | nil => intro p hp; cases hp
  | cons a as ih =>
    intro p hp
    obtain ⟨b, e⟩ := a
    cases b with
    | false => simp [firstErr] at h
    | true =>
      simp only [firstErr] at h
      cases hp with
      | head => rfl
      | tail _ hp' => exact ih h p hp'

theorem firstErr_error (l : List (Bool × Reject)) (p : Bool × Reject) (hp : p ∈ l) (hf : p.1 = false) :
    ∃ e, firstErr l = .error e := by
  induction l with
  | nil => cases hp
  | cons a as ih =>
    obtain ⟨b, e⟩ := a
    cases b with
    | false => exact ⟨e, rfl⟩
    | true =>
      simp only [firstErr]
      cases hp with
      | head => simp at hf
      | tail _ hp' => exact ih hp'

theorem macroCheck_mode (r : RDecl) (o : Opts) (m : Mode) (h : macroCheck r = .ok (o, m)) :
    modeOf r = some m ∧ parseTypeAttrs r.attrs = .ok o := by
  unfold macroCheck at h
  unfold modeOf
  cases hp : parseTypeAttrs r.attrs with
  | error e => simp [hp] at h
  | ok o' =>
    simp only [hp] at h
    cases hm : o'.mode with
    | none => simp [hm] at h
    | some m' =>
      simp only [hm] at h
      split at h
      · simp only [Except.ok.injEq, Prod.mk.injEq] at h
        obtain ⟨h1, h2⟩ := h
        subst h1; subst h2
        exact ⟨hm, rfl⟩
      · split at h
        · cases h
        · split at h
          · cases h
          · split at h
            · cases h
            · simp only [Except.ok.injEq, Prod.mk.injEq] at h
              obtain ⟨h1, h2⟩ := h
              subst h1; subst h2
              exact ⟨hm, rfl⟩

/-- When the derive compiles in a tracing mode, every kept binding's type is `Collect`. -/
theorem kept_collect_of_ok (ρ : List Sem) (r : RDecl) (o : Opts) (m : Mode)
    (hne : m ≠ .requireStatic) (h : rustcUse ρ o m r = .ok ()) :
    ∀ f ∈ r.fields, f.kept = true → f.sem.collect = true := by
  intro f hf hk
  unfold rustcUse at h
  have hm : ¬ ((m == Mode.requireStatic) = true) := by
    cases m <;> simp_all
  rw [if_neg hm] at h
  have hall := firstErr_ok _ h
  apply hall (f.sem.collect, Reject.notCollect)
  refine List.mem_append_right _ (List.mem_append_right _ (List.mem_map.mpr ⟨f, ?_, rfl⟩))
  exact List.mem_filter.mpr ⟨hf, hk⟩

theorem deriveCheckR_ok (ρ : List Sem) (rDef r : RDecl) (h : deriveCheckR ρ rDef r = .ok ()) :
    ∃ o m, macroCheck r = .ok (o, m) ∧ rustcDef o m rDef = .ok () ∧ rustcUse ρ o m r = .ok () := by
  unfold deriveCheckR at h
  cases hmc : macroCheck r with
  | error e => simp [hmc] at h
  | ok om =>
    obtain ⟨o, m⟩ := om
    simp only [hmc] at h
    cases hd : rustcDef o m rDef with
    | error e => simp [hd] at h
    | ok u =>
      cases u
      simp only [hd] at h
      exact ⟨o, m, rfl, hd, h⟩

/-- Core of C15 on a resolved declaration: in any accepted derive whose field types are exact,
`Collect::trace` of a well-typed value equals the ground truth. -/
theorem traceR_eq (ρ : List Sem) (rDef r : RDecl) (hg : ∀ f ∈ r.fields, Good f.sem)
    (hok : deriveCheckR ρ rDef r = .ok ()) (v : Val) (hv : checkR r v = true) :
    traceR r v = ptrsOf v := by
  obtain ⟨o, m, hmc, _, huse⟩ := deriveCheckR_ok ρ rDef r hok
  obtain ⟨hmode, _⟩ := macroCheck_mode r o m hmc
  cases v with
  | adt k fs =>
    unfold checkR at hv
    unfold traceR
    rw [hmode]
    cases hvr : r.variants[k]? with
    | none => simp [hvr] at hv
    | some vr =>
      simp only [hvr, Bool.and_eq_true, Bool.or_eq_true, Bool.not_eq_true', List.isEmpty_iff] at hv
      obtain ⟨hcf, hst⟩ := hv
      by_cases hrs : m = .requireStatic
      · subst hrs
        cases hst with
        | inl h0 => simp [hmode] at h0
        | inr h0 => simp [h0]
      · have hkc := kept_collect_of_ok ρ r o m hrs huse
        have := traceFields_eq vr.fields fs
          (fun f hf => hg f (mem_fields_of_variant r k vr hvr f hf))
          (fun f hf => hkc f (mem_fields_of_variant r k vr hvr f hf)) hcf
        simpa [ptrsOf, hvr, hrs] using this
  | _ => simp [checkR] at hv

/-- If the generated `NEEDS_TRACE` is `false`, the generated `trace` reports nothing. -/
theorem traceR_nil_of_not_needs (r : RDecl) (h : needsTraceR r = false) (v : Val) : traceR r v = [] := by
  unfold traceR
  cases hm : modeOf r with
  | none => rfl
  | some m =>
    by_cases hrs : m = .requireStatic
    · simp [hrs]
    · have hany := needsTraceR_eq_any r m hm hrs
      rw [h] at hany
      have hall := List.any_eq_false.mp hany.symm
      cases v with
      | adt k fs =>
        cases hvr : r.variants[k]? with
        | none => simp [hvr]
        | some vr =>
          simp only [hvr, hrs, if_false]
          apply traceFields_nil
          intro f hf hk
          have := hall f (List.mem_filter.mpr ⟨mem_fields_of_variant r k vr hvr f hf, hk⟩)
          simpa using this
      | _ => simp [hrs]

theorem good_derived (ρ : List Sem) (rDef r : RDecl) (hg : ∀ f ∈ r.fields, Good f.sem) :
    Good (derivedSem ρ rDef r) := by
  intro hcol v hv
  have hok : deriveCheckR ρ rDef r = .ok () := by
    simp only [derivedSem] at hcol
    cases h : deriveCheckR ρ rDef r with
    | ok u => cases u; rfl
    | error e => rw [h] at hcol; simp [isOk] at hcol
  have heq := traceR_eq ρ rDef r hg hok v hv
  simp only [Sem.visit, derivedSem]
  by_cases hn : needsTraceR r = true
  · simp [hn, heq]
  · have hn' : needsTraceR r = false := by simpa using hn
    rw [← heq, traceR_nil_of_not_needs r hn' v]
    simp [hn']

/-! ### `resolve` is a map -/

theorem Field.resolves_eq (ρ : List Sem) : ∀ fs : List Field, Field.resolves ρ fs = fs.map (Field.resolve ρ)
  | [] => by simp [Field.resolves]
  | f :: fs => by simp [Field.resolves, Field.resolves_eq ρ fs]

theorem Variant.resolves_eq (ρ : List Sem) :
    ∀ vs : List Variant, Variant.resolves ρ vs = vs.map (Variant.resolve ρ)
  | [] => by simp [Variant.resolves]
  | v :: vs => by simp [Variant.resolves, Variant.resolves_eq ρ vs]

theorem Ty.sems_eq (ρ : List Sem) : ∀ ts : List Ty, Ty.sems ρ ts = ts.map (Ty.sem ρ)
  | [] => by simp [Ty.sems]
  | t :: ts => by simp [Ty.sems, Ty.sems_eq ρ ts]

@[simp] theorem Field.resolve_attrs (ρ : List Sem) (f : Field) : (f.resolve ρ).attrs = f.attrs := by
  cases f; rfl
@[simp] theorem Field.resolve_sem (ρ : List Sem) (f : Field) : (f.resolve ρ).sem = f.ty.sem ρ := by
  cases f; rfl
@[simp] theorem Field.resolve_kept (ρ : List Sem) (f : Field) : (f.resolve ρ).kept = f.traced := by
  cases f; rfl
@[simp] theorem Variant.resolve_attrs (ρ : List Sem) (v : Variant) : (v.resolve ρ).attrs = v.attrs := by
  cases v; rfl
@[simp] theorem Variant.resolve_fields (ρ : List Sem) (v : Variant) :
    (v.resolve ρ).fields = v.fields.map (Field.resolve ρ) := by
  cases v; simp [Variant.resolve, Variant.fields, Field.resolves_eq]
@[simp] theorem Decl.resolve_attrs (ρ : List Sem) (d : Decl) : (d.resolve ρ).attrs = d.attrs := by
  cases d; rfl
@[simp] theorem Decl.resolve_isEnum (ρ : List Sem) (d : Decl) : (d.resolve ρ).isEnum = d.isEnum := by
  cases d; rfl
@[simp] theorem Decl.resolve_lifetimes (ρ : List Sem) (d : Decl) :
    (d.resolve ρ).lifetimes = d.lifetimes := by
  cases d; rfl
@[simp] theorem Decl.resolve_tparams (ρ : List Sem) (d : Decl) : (d.resolve ρ).tparams = d.tparams := by
  cases d; rfl
@[simp] theorem Decl.resolve_hasDrop (ρ : List Sem) (d : Decl) : (d.resolve ρ).hasDrop = d.hasDrop := by
  cases d; rfl
@[simp] theorem Decl.resolve_variants (ρ : List Sem) (d : Decl) :
    (d.resolve ρ).variants = d.variants.map (Variant.resolve ρ) := by
  cases d; simp [Decl.resolve, Decl.variants, Variant.resolves_eq]

/-- All fields of a declaration, all variants, in order. -/
def Decl.fields (d : Decl) : List Field := d.variants.flatMap (·.fields)

theorem Decl.resolve_fields (ρ : List Sem) (d : Decl) :
    (d.resolve ρ).fields = d.fields.map (Field.resolve ρ) := by
  simp [RDecl.fields, Decl.fields, List.flatMap_map, List.map_flatMap]

/-! ### Every type of the universe is exact -/

mutual
theorem Ty.sem_good : ∀ (t : Ty) (ρ : List Sem), EnvGood ρ → Good (Ty.sem ρ t)
  | .leaf, _, _ => by simpa [Ty.sem] using good_leaf
  | .gc, _, _ => by simpa [Ty.sem] using good_gc
  | .weak, _, _ => by simpa [Ty.sem] using good_weak
  | .opaque b, _, _ => by simpa [Ty.sem] using good_opaque b
  | .param i, ρ, h => by simpa [Ty.sem] using good_getD ρ h i
  | .ref st t, ρ, _ => by simpa [Ty.sem] using good_ref st (Ty.sem ρ t)
  | .con c args, ρ, h => by
      simp only [Ty.sem]
      exact good_con c _ (Ty.sems_good args ρ h)
  | .adt d args, ρ, h => by
      simp only [Ty.sem]
      exact good_derived _ _ _ (Decl.resolve_good d _ (Ty.sems_good args ρ h))
theorem Ty.sems_good : ∀ (ts : List Ty) (ρ : List Sem), EnvGood ρ → EnvGood (Ty.sems ρ ts)
  | [], _, _ => by simpa [Ty.sems] using envGood_nil
  | t :: ts, ρ, h => by
      intro s hs
      simp only [Ty.sems, List.mem_cons] at hs
      cases hs with
      | inl h1 => subst h1; exact Ty.sem_good t ρ h
      | inr h1 => exact Ty.sems_good ts ρ h s h1
theorem Decl.resolve_good : ∀ (d : Decl) (ρ : List Sem), EnvGood ρ →
    ∀ f ∈ (Decl.resolve ρ d).fields, Good f.sem
  | .mk e a l t hd vs, ρ, h => by
      simp only [Decl.resolve, RDecl.fields]
      intro f hf
      rw [List.mem_flatMap] at hf
      obtain ⟨vr, hvr, hfv⟩ := hf
      exact Variant.resolves_good vs ρ h vr hvr f hfv
theorem Variant.resolves_good : ∀ (vs : List Variant) (ρ : List Sem), EnvGood ρ →
    ∀ v ∈ Variant.resolves ρ vs, ∀ f ∈ v.fields, Good f.sem
  | [], _, _ => by simp [Variant.resolves]
  | v :: vs, ρ, h => by
      intro s hs
      simp only [Variant.resolves, List.mem_cons] at hs
      cases hs with
      | inl h1 => subst h1; exact Variant.resolve_good v ρ h
      | inr h1 => exact Variant.resolves_good vs ρ h s h1
theorem Variant.resolve_good : ∀ (v : Variant) (ρ : List Sem), EnvGood ρ →
    ∀ f ∈ (Variant.resolve ρ v).fields, Good f.sem
  | .mk s a fs, ρ, h => by
      simp only [Variant.resolve]
      exact Field.resolves_good fs ρ h
theorem Field.resolves_good : ∀ (fs : List Field) (ρ : List Sem), EnvGood ρ →
    ∀ f ∈ Field.resolves ρ fs, Good f.sem
  | [], _, _ => by simp [Field.resolves]
  | f :: fs, ρ, h => by
      intro s hs
      simp only [Field.resolves, List.mem_cons] at hs
      cases hs with
      | inl h1 => subst h1; exact Field.resolve_good f ρ h
      | inr h1 => exact Field.resolves_good fs ρ h s h1
theorem Field.resolve_good : ∀ (f : Field) (ρ : List Sem), EnvGood ρ → Good (Field.resolve ρ f).sem
  | .mk a t, ρ, h => by
      simp only [Field.resolve]
      exact Ty.sem_good t ρ h
end

/-! ### Rejections -/

/-- The check fails (with some error). -/
def Rejected (x : Except Reject Unit) : Prop := ∃ e, x = .error e

/-- The check fails before rustc sees the generated impl (macro `panic!` or `compile_error!`). -/
def RejectedByMacro (x : Except Reject Unit) : Prop := ∃ e, x = .error e ∧ e.stage ≠ .rustc

theorem RejectedByMacro.rejected {x : Except Reject Unit} (h : RejectedByMacro x) : Rejected x := by
  obtain ⟨e, he, _⟩ := h; exact ⟨e, he⟩

theorem rejected_not_ok {x : Except Reject Unit} (h : Rejected x) : x ≠ .ok () := by
  obtain ⟨e, he⟩ := h; rw [he]; intro h'; cases h'

def Opt.isMode : Opt → Bool | .mode _ => true | _ => false
def Opt.isBound : Opt → Bool | .bound _ => true | _ => false
def Opt.isGcLifetime : Opt → Bool | .gcLifetime _ => true | _ => false

def b2n (b : Bool) : Nat := if b then 1 else 0

/-- A successful parse of the type-level options saw at most one mode … -/
theorem parseOpts_modes : ∀ (a : List Opt) (o o' : Opts), parseOpts o a = .ok o' →
    (a.filter Opt.isMode).length + b2n o.mode.isSome ≤ 1
  | [], o, o', _ => by simp only [List.filter_nil, List.length_nil, b2n]; split <;> omega
  | x :: xs, o, o', h => by
      simp only [parseOpts] at h
      cases hx : parseOpt o x with
      | error e => simp [hx] at h
      | ok o1 =>
        simp only [hx] at h
        have ih := parseOpts_modes xs o1 o' h
        cases x with
        | mode m =>
          simp only [parseOpt] at hx
          split at hx
          · cases hx
          · rename_i hno
            simp only [Except.ok.injEq] at hx
            subst hx
            have hno' : o.mode.isSome = false := by simpa using hno
            rw [List.filter_cons_of_pos (by rfl)]
            simp only [List.length_cons, hno', b2n, Option.isSome_some, if_true] at ih ⊢
            simp only [Bool.false_eq_true, if_false]
            omega
        | bound ps =>
          simp only [parseOpt] at hx
          split at hx
          · cases hx
          · simp only [Except.ok.injEq] at hx
            subst hx
            rw [List.filter_cons_of_neg (by simp [Opt.isMode])]
            exact ih
        | gcLifetime i =>
          simp only [parseOpt] at hx
          split at hx
          · cases hx
          · simp only [Except.ok.injEq] at hx
            subst hx
            rw [List.filter_cons_of_neg (by simp [Opt.isMode])]
            exact ih
        | unknown =>
          simp only [parseOpt] at hx
          split at hx <;> cases hx

/-- … at most one `bound = …` … -/
theorem parseOpts_bounds : ∀ (a : List Opt) (o o' : Opts), parseOpts o a = .ok o' →
    (a.filter Opt.isBound).length + b2n o.bound.isSome ≤ 1
  | [], o, o', _ => by simp only [List.filter_nil, List.length_nil, b2n]; split <;> omega
  | x :: xs, o, o', h => by
      simp only [parseOpts] at h
      cases hx : parseOpt o x with
      | error e => simp [hx] at h
      | ok o1 =>
        simp only [hx] at h
        have ih := parseOpts_bounds xs o1 o' h
        cases x with
        | mode m =>
          simp only [parseOpt] at hx
          split at hx
          · cases hx
          · simp only [Except.ok.injEq] at hx
            subst hx
            rw [List.filter_cons_of_neg (by simp [Opt.isBound])]
            exact ih
        | bound ps =>
          simp only [parseOpt] at hx
          split at hx
          · cases hx
          · rename_i hno
            simp only [Except.ok.injEq] at hx
            subst hx
            have hno' : o.bound.isSome = false := by simpa using hno
            rw [List.filter_cons_of_pos (by rfl)]
            simp only [List.length_cons, hno', b2n, Option.isSome_some, if_true] at ih ⊢
            simp only [Bool.false_eq_true, if_false]
            omega
        | gcLifetime i =>
          simp only [parseOpt] at hx
          split at hx
          · cases hx
          · simp only [Except.ok.injEq] at hx
            subst hx
            rw [List.filter_cons_of_neg (by simp [Opt.isBound])]
            exact ih
        | unknown =>
          simp only [parseOpt] at hx
          split at hx <;> cases hx

/-- … at most one `gc_lifetime = …` … -/
theorem parseOpts_gcLifetimes : ∀ (a : List Opt) (o o' : Opts), parseOpts o a = .ok o' →
    (a.filter Opt.isGcLifetime).length + b2n o.gcLifetime.isSome ≤ 1
  | [], o, o', _ => by simp only [List.filter_nil, List.length_nil, b2n]; split <;> omega
  | x :: xs, o, o', h => by
      simp only [parseOpts] at h
      cases hx : parseOpt o x with
      | error e => simp [hx] at h
      | ok o1 =>
        simp only [hx] at h
        have ih := parseOpts_gcLifetimes xs o1 o' h
        cases x with
        | mode m =>
          simp only [parseOpt] at hx
          split at hx
          · cases hx
          · simp only [Except.ok.injEq] at hx
            subst hx
            rw [List.filter_cons_of_neg (by simp [Opt.isGcLifetime])]
            exact ih
        | bound ps =>
          simp only [parseOpt] at hx
          split at hx
          · cases hx
          · simp only [Except.ok.injEq] at hx
            subst hx
            rw [List.filter_cons_of_neg (by simp [Opt.isGcLifetime])]
            exact ih
        | gcLifetime i =>
          simp only [parseOpt] at hx
          split at hx
          · cases hx
          · rename_i hno
            simp only [Except.ok.injEq] at hx
            subst hx
            have hno' : o.gcLifetime.isSome = false := by simpa using hno
            rw [List.filter_cons_of_pos (by rfl)]
            simp only [List.length_cons, hno', b2n, Option.isSome_some, if_true] at ih ⊢
            simp only [Bool.false_eq_true, if_false]
            omega
        | unknown =>
          simp only [parseOpt] at hx
          split at hx <;> cases hx

/-- … and no unknown option. -/
theorem parseOpts_no_unknown : ∀ (a : List Opt) (o o' : Opts), parseOpts o a = .ok o' → Opt.unknown ∉ a
  | [], _, _, _ => by simp
  | x :: xs, o, o', h => by
      simp only [parseOpts] at h
      cases hx : parseOpt o x with
      | error e => simp [hx] at h
      | ok o1 =>
        simp only [hx] at h
        have ih := parseOpts_no_unknown xs o1 o' h
        cases x with
        | unknown => simp only [parseOpt] at hx; split at hx <;> cases hx
        | mode m => simpa using ih
        | bound ps => simpa using ih
        | gcLifetime i => simpa using ih

/-- Every error of the option parser is a `compile_error!`. -/
theorem parseOpts_error_stage : ∀ (a : List Opt) (o : Opts) (e : Reject), parseOpts o a = .error e →
    e.stage = .compileError
  | [], o, e, h => by simp [parseOpts] at h
  | x :: xs, o, e, h => by
      simp only [parseOpts] at h
      cases hx : parseOpt o x with
      | error e' =>
        simp only [hx, Except.error.injEq] at h
        subst h
        cases x <;> simp only [parseOpt] at hx <;> (try split at hx) <;> cases hx <;> rfl
      | ok o1 =>
        simp only [hx] at h
        exact parseOpts_error_stage xs o1 e h

theorem parseTypeAttrs_error_stage (attrs : List Attr) (e : Reject)
    (h : parseTypeAttrs attrs = .error e) : e.stage = .compileError := by
  unfold parseTypeAttrs at h
  match attrs, h with
  | [], h => simp [findCollectMeta] at h
  | [a], h =>
    simp only [findCollectMeta] at h
    exact parseOpts_error_stage a {} e h
  | _ :: _ :: _, h =>
    simp only [findCollectMeta, Except.error.injEq] at h
    subst h; rfl

/-- An error of the type-level attribute parser is the outcome of the whole check. -/
theorem deriveCheckR_of_parse_error (ρ : List Sem) (rDef r : RDecl) (e : Reject)
    (h : parseTypeAttrs r.attrs = .error e) : deriveCheckR ρ rDef r = .error e := by
  simp [deriveCheckR, macroCheck, h]

theorem firstSome_some_of_mem : ∀ (l : List (Option Reject)) (e : Reject), some e ∈ l →
    ∃ e', firstSome l = some e' ∧ some e' ∈ l
  | [], _, h => by cases h
  | none :: rest, e, h => by
      simp only [List.mem_cons] at h
      cases h with
      | inl h0 => cases h0
      | inr h0 =>
        obtain ⟨e', h1, h2⟩ := firstSome_some_of_mem rest e h0
        exact ⟨e', by simpa [firstSome] using h1, List.mem_cons_of_mem _ h2⟩
  | some e0 :: rest, e, _ => ⟨e0, rfl, List.mem_cons_self⟩

theorem fieldAttrError_stage (attrs : List Attr) (e : Reject) (h : fieldAttrError attrs = some e) :
    e.stage = .compileError := by
  match attrs, h with
  | [], h => simp [fieldAttrError] at h
  | [a], h =>
    simp only [fieldAttrError] at h
    split at h
    · cases h
    · cases h; rfl
  | _ :: _ :: _, h => simp only [fieldAttrError, Option.some.injEq] at h; subst h; rfl

/-- If the attribute parser succeeds with a tracing mode, a macro-level misuse (several lifetimes
without `gc_lifetime`, a bad field attribute, an attribute on an enum variant) makes the macro
itself fail. -/
theorem macroCheck_error_of (r : RDecl) (o : Opts) (m : Mode)
    (hp : parseTypeAttrs r.attrs = .ok o) (hm : o.mode = some m) (hne : m ≠ .requireStatic)
    (hbad : (o.gcLifetime.isNone && decide (2 ≤ r.lifetimes)) = true ∨ (∃ e, fieldErrors r = some e) ∨
      (∃ e, variantErrors r = some e)) :
    ∃ e, macroCheck r = .error e ∧ e.stage ≠ .rustc := by
  unfold macroCheck
  simp only [hp, hm, hne, if_false]
  by_cases hl : (o.gcLifetime.isNone && decide (2 ≤ r.lifetimes)) = true
  · simp only [hl, if_true]; exact ⟨_, rfl, by decide⟩
  · simp only [hl]
    cases hfe : fieldErrors r with
    | some e =>
      refine ⟨e, rfl, ?_⟩
      unfold fieldErrors at hfe
      have : ∃ f ∈ r.fields, fieldAttrError f.attrs = some e := by
        have hmem : some e ∈ r.fields.map (fun f => fieldAttrError f.attrs) := by
          generalize r.fields.map (fun f => fieldAttrError f.attrs) = l at hfe
          induction l with
          | nil => simp [firstSome] at hfe
          | cons a as ih =>
            cases a with
            | none => simp only [firstSome] at hfe; exact List.mem_cons_of_mem _ (ih hfe)
            | some e0 => simp only [firstSome, Option.some.injEq] at hfe; subst hfe; exact List.mem_cons_self
        rw [List.mem_map] at hmem
        obtain ⟨f, hf, hfe'⟩ := hmem
        exact ⟨f, hf, hfe'⟩
      obtain ⟨f, _, hf⟩ := this
      rw [fieldAttrError_stage f.attrs e hf]; decide
    | none =>
      simp only
      cases hve : variantErrors r with
      | some e =>
        refine ⟨e, rfl, ?_⟩
        unfold variantErrors at hve
        split at hve
        · cases hve; decide
        · cases hve
      | none =>
        rcases hbad with h | ⟨e, h⟩ | ⟨e, h⟩
        · exact absurd h hl
        · rw [hfe] at h; cases h
        · rw [hve] at h; cases h

theorem deriveCheckR_of_macro_error (ρ : List Sem) (rDef r : RDecl) (e : Reject)
    (h : macroCheck r = .error e) : deriveCheckR ρ rDef r = .error e := by
  simp [deriveCheckR, h]

/-- A failing use-site obligation makes the whole check fail (whatever fails first). -/
theorem rejected_of_use (ρ : List Sem) (rDef r : RDecl)
    (h : ∀ o m, macroCheck r = .ok (o, m) → Rejected (rustcUse ρ o m r)) :
    Rejected (deriveCheckR ρ rDef r) := by
  unfold deriveCheckR
  cases hmc : macroCheck r with
  | error e => exact ⟨e, rfl⟩
  | ok om =>
    obtain ⟨o, m⟩ := om
    simp only
    cases hd : rustcDef o m rDef with
    | error e => exact ⟨e, rfl⟩
    | ok u => cases u; exact h o m hmc

theorem rejected_of_def (ρ : List Sem) (rDef r : RDecl)
    (h : ∀ o m, macroCheck r = .ok (o, m) → Rejected (rustcDef o m rDef)) :
    Rejected (deriveCheckR ρ rDef r) := by
  unfold deriveCheckR
  cases hmc : macroCheck r with
  | error e => exact ⟨e, rfl⟩
  | ok om =>
    obtain ⟨o, m⟩ := om
    simp only
    obtain ⟨e, he⟩ := h o m hmc
    rw [he]; exact ⟨e, rfl⟩

/-! ### Full-strength (literal) forms of the property clauses

Used by the `…_statement` / `…_literal` definitions of `GcArena.Props.C15`. -/

mutual
/-- The value with everything hidden inside opaque (`Collect`-less) parts forgotten. -/
def Val.scrub : Val → Val
  | .leaf => .leaf
  | .gc id => .gc id
  | .weak id => .weak id
  | .opaque _ => .opaque []
  | .con es => .con (scrubElems es)
  | .adt k fs => .adt k (scrubList fs)
def scrubElems : List (Nat × Val) → List (Nat × Val)
  | [] => []
  | e :: es => scrubElem e :: scrubElems es
def scrubElem : Nat × Val → Nat × Val
  | (i, v) => (i, v.scrub)
def scrubList : List Val → List Val
  | [] => []
  | v :: vs => v.scrub :: scrubList vs
end

/-- `v` has the SHAPE of a value of `d` (variant, arity, element positions, pointer kinds), with no
assumption about what its `'static` parts hide: `HasType` without the "`'static` hence
pointer-free" hypothesis. -/
def HasShape (v : Val) (d : Decl) : Prop := HasType v.scrub d

instance (v : Val) (d : Decl) : Decidable (HasShape v d) := by
  unfold HasShape; infer_instance

def tracedFieldPtrs : List Field → List Val → List Ptr
  | f :: fs, x :: xs => (if f.traced then ptrsOf x else []) ++ tracedFieldPtrs fs xs
  | _, _ => []

/-- Every `Gc` / `GcWeak` held (at any depth) in the fields of the active variant that are not
marked `require_static`. -/
def heldInTracedFields (d : Decl) : Val → List Ptr
  | .adt k fs => match d.variants[k]? with
    | some vr => tracedFieldPtrs vr.fields fs
    | none => []
  | _ => []

/-- Tag of the outermost constructor of a type shape (for coverage statements). -/
def Ty.ctor : Ty → Nat
  | .leaf => 0 | .gc => 1 | .weak => 2 | .opaque _ => 3 | .param _ => 4 | .ref _ _ => 5
  | .con _ _ => 6 | .adt _ _ => 7

/-- Number of constructors of `Ty`. -/
def Ty.nctors : Nat := 8

/-! ### Declarations used by the non-vacuity examples of `GcArena.Props.C15`

(the declarations of `tests/tests.rs::derive_collect` and a nested shape) -/
namespace Examples

def fld (t : Ty) : Field := .mk [] t
def sfld (t : Ty) : Field := .mk [[.mode .requireStatic]] t
def strct (attrs : List Attr) (lts tps : Nat) (drop : Bool) (st : Style) (fs : List Field) : Decl :=
  .mk false attrs lts tps drop [.mk st [] fs]

/-- `#[collect(no_drop)] struct Test1<'gc> { a: i32, b: Gc<'gc, i32> }` -/
def test1 : Decl := strct [[.mode .noDrop]] 1 0 false .named [fld .leaf, fld .gc]
/-- `#[collect(no_drop)] enum Test3<'gc> { B(Gc<'gc, i32>), A(i32) }` -/
def test3 : Decl :=
  .mk true [[.mode .noDrop]] 1 0 false [.mk .tuple [] [fld .gc], .mk .tuple [] [fld .leaf]]
/-- `#[collect(no_drop)] struct Test7 { #[collect(require_static)] field: NoImpl }` -/
def test7 : Decl := strct [[.mode .noDrop]] 0 0 false .named [sfld (.opaque true)]
/-- `#[collect(no_drop, bound = "where T: Collect<'gc>")] struct Test9<T>(T);` -/
def test9 : Decl := strct [[.mode .noDrop, .bound [0]]] 0 1 false .tuple [fld (.param 0)]
/-- A nested shape: `struct Outer<'gc> { v: Vec<(u8, Test3<'gc>)>, w: Option<GcWeak<'gc, u8>>,
#[collect(require_static)] s: String, t: Test9<Gc<'gc, u8>> }` -/
def outer : Decl := strct [[.mode .noDrop]] 1 0 false .named
  [fld (.con .vec [.con .tuple [.leaf, .adt test3 []]]), fld (.con .option [.weak]), sfld .leaf,
   fld (.adt test9 [.gc])]
def outerVal : Val := .adt 0
  [.con [(0, .con [(0, .leaf), (1, .adt 0 [.gc 1])]), (0, .con [(0, .leaf), (1, .adt 1 [.leaf])])],
   .con [(0, .weak 2)], .leaf, .adt 0 [.gc 3]]

/-- `struct Node<'gc> { value: u32, #[collect(require_static)] token: Token, next: Option<Gc<'gc, Self>> }` -/
def selfNode : Decl := strct [[.mode .noDrop]] 1 0 false .named
  [fld .leaf, sfld (.opaque true), fld (.con .option [.gc])]
/-- `enum Tree<'gc> { Empty, Leaf(#[collect(require_static)] Token, u32), Branch { #[collect(require_static)]
token: Token, children: Vec<Gc<'gc, Self>> } }` -/
def selfTree : Decl := .mk true [[.mode .noDrop]] 1 0 false
  [.mk .unit [] [], .mk .tuple [] [sfld (.opaque true), fld .leaf],
   .mk .named [] [sfld (.opaque true), fld (.con .vec [.gc])]]

/-- `#[collect(require_static)] enum E { #[collect(require_static)] A(u8) }` (compiles) -/
def staticModeVariantAttr : Decl :=
  .mk true [[.mode .requireStatic]] 0 0 false [.mk .tuple [[.mode .requireStatic]] [fld .leaf]]
/-- `#[collect(require_static)] struct S<'a, 'b>(&'a u8, &'b u8);` (the derive compiles; no
`gc_lifetime`) -/
def staticModeTwoLifetimes : Decl :=
  strct [[.mode .requireStatic]] 2 0 false .tuple [fld (.opaque false), fld (.opaque false)]

/-- `#[collect(no_drop)] struct Holder { inner: Test7 }` -/
def holder : Decl := strct [[.mode .noDrop]] 0 0 false .named [fld (.adt test7 [])]

/-- `#[derive(Collect)] #[collect(no_drop)] struct Wrap<T>(T);` -/
def wrapD : Decl := strct [[.mode .noDrop]] 0 1 false .tuple [fld (.param 0)]
/-- `#[derive(Collect)] #[collect(no_drop)] struct Wrapped<'gc>(Gc<'gc, Tracked>);` -/
def wrappedD : Decl := strct [[.mode .noDrop]] 1 0 false .tuple [fld .gc]

/-- The NOT-`Collect` field types of the rejection-probe family "a field whose type is not Collect"
of lib/eng_collect.py (`TYPE_FORMS`, `TF_EXTRA`, plus `bound_override_empty_with_param_field`), in
table order, as the model sees them: `&'gc Tracked`, `&'gc mut Gc<'gc, Tracked>`, `&'gc NotCollect`,
`(u8, Hidden<'gc>)`, `[Hidden<'gc>; 1]`, `Box<[Hidden<'gc>]>`, `*const Tracked`,
`fn(Gc<'gc, Tracked>)`, `(Hidden<'gc>)`, `Hidden<'gc>`, `Box<Hidden<'gc>>`, `Option<&'gc Tracked>`,
`Cell<Gc<'gc, Tracked>>`, `RefCell<Gc<'gc, Tracked>>`, `Vec<NotCollect>`, `Wrap<Hidden<'gc>>`,
`&'a Tracked` (declared lifetime), `&'gc Tracked` through a `$t:ty` macro fragment (`Group`), a type
parameter without bound. -/
def probeNotCollectFieldTypes : List Ty :=
  [.ref false .leaf, .ref false .gc, .ref false (.opaque true),
   .con .tuple [.leaf, .opaque false], .con (.array 1) [.opaque false], .con .box [.con .vec [.opaque false]],
   .opaque true, .opaque false, .opaque false, .opaque false, .con .box [.opaque false],
   .con .option [.ref false .leaf], .opaque false, .opaque false, .con .vec [.opaque true],
   .adt wrapD [.opaque false], .ref false .leaf, .ref false .leaf, .param 0]
/-- The `Collect` control twins, same order: `&'static Tracked`, `&'static u8`, `&'static NotCollect`,
`(u8, Gc)`, `[Gc; 1]`, `Box<[GcWeak]>`, `u8`, `PhantomData<fn(Gc)>`, `(Gc)`, `Wrapped<'gc>`,
`Box<GcWeak>`, `Option<&'static Tracked>`, `Lock<Gc>`, `RefLock<Gc>`, `Vec<u8>`, `Wrap<Gc>`,
`(&'static Tracked, PhantomData<&'a ()>)`, `&'static Tracked` through `$t:ty`, a bounded parameter;
and a `GcWeak` field of the other probes. -/
def probeCollectFieldTypes : List Ty :=
  [.ref true .leaf, .ref true .leaf, .ref true (.opaque true), .con .tuple [.leaf, .gc], .con (.array 1) [.gc],
   .con .box [.con .vec [.weak]], .leaf, .leaf, .gc, .adt wrappedD [], .con .box [.weak],
   .con .option [.ref true .leaf], .con .lock [.gc], .con .refLock [.gc], .con .vec [.leaf], .adt wrapD [.gc],
   .con .tuple [.ref true .leaf, .leaf], .ref true .leaf, .param 0, .weak]

end Examples

end GcArena.Derive
