import GcArena.Proofs.SlotFrame
/-!
  Completeness of reclamation over arbitrary histories.

  `Exposed c root temps t`: some chain of pointers — strong or weak alike — leads to `t` from the
  root, from a pointer the running callback holds, or from an object that is already gray or
  black.  This is what bounds what the client can ever name again (a weak pointer to an
  undestructed object can be upgraded outside the sweep phase, or resurrected by a finalizer) and
  what the marker can ever reach.

  An object that is white and not exposed stays so under *every* API operation, and the sweep of
  the cycle releases it: when the cycle completes (`'Z'` in the step log) its block has been
  freed — whatever callbacks and collection calls were interleaved.
-/
namespace GcArena

inductive Exposed (c : Ctx) (root : List Slot) (temps : List Ptr) : Nat → Prop
  | root (p : Ptr) : some p ∈ root → Exposed c root temps p.target
  | temp (p : Ptr) : p ∈ temps → Exposed c root temps p.target
  | marked (j : Nat) (o : Obj) : c.heap.get j = some o → (o.color = .gray ∨ o.color = .black) →
      Exposed c root temps j
  | edge (j : Nat) (o : Obj) (p : Ptr) : Exposed c root temps j → c.heap.get j = some o →
      some p ∈ o.slots → Exposed c root temps p.target

/-- Some chain of pointers of either kind leads from the root to `t`. -/
inductive Nameable (c : Ctx) (root : List Slot) : Nat → Prop
  | root (p : Ptr) : some p ∈ root → Nameable c root p.target
  | edge (j : Nat) (o : Obj) (p : Ptr) : Nameable c root j → c.heap.get j = some o →
      some p ∈ o.slots → Nameable c root p.target

/-- With nothing marked and nothing held by a callback, exposed = nameable from the root. -/
theorem nameable_of_exposed {c : Ctx} {root} (hw : ∀ j o, c.heap.get j = some o → o.color = .white)
    {t : Nat} (h : Exposed c root [] t) : Nameable c root t := by
  induction h with
  | root p hp => exact .root p hp
  | temp p hp => cases hp
  | marked j o ho hc => rw [hw j o ho] at hc; rcases hc with hc | hc <;> cases hc
  | edge j o p _ ho hs ih => exact .edge j o p ih ho hs

theorem nameable_of_strongReach {c : Ctx} {root} {t : Nat} (h : StrongReachC c root t) :
    Nameable c root t := by
  induction h with
  | root t ht => exact .root (.strong t) ht
  | temp t ht => cases ht
  | edge i t _ e ih => obtain ⟨o, ho, hs⟩ := e; exact .edge i o (.strong t) ih ho hs

/-- Weakly held (by the root or by something strongly reachable) implies nameable; not
    conversely: the holder may itself be reachable only through a weak pointer. -/
theorem nameable_of_weakHeld {c : Ctx} {root} {t : Nat} (h : WeakHeld c root t) : Nameable c root t := by
  rcases h with h | ⟨j, oj, hj, hoj, hs⟩
  · exact .root (.weak t) h
  · exact .edge j oj (.weak t) (nameable_of_strongReach hj) hoj hs

/-- Collector side: `c'` marks only exposed objects and adds no slot. -/
theorem exposed_back {c c' : Ctx} {root temps} (hs : Shrink c c')
    (hm : ∀ j o', c'.heap.get j = some o' → (o'.color = .gray ∨ o'.color = .black) → Exposed c root temps j)
    {t : Nat} (h : Exposed c' root temps t) : Exposed c root temps t := by
  induction h with
  | root p hp => exact .root p hp
  | temp p hp => exact .temp p hp
  | marked j o' ho' hc => exact hm j o' ho' hc
  | edge j o' p _ ho' hsl ih =>
    obtain ⟨o, ho, hsub⟩ := hs j o' ho'
    exact .edge j o p ih ho (hsub _ hsl)

/-! ### The fate of a white, unexposed object -/

/-- White, not exposed, and (while sweeping) still ahead of the cursor. -/
def Doomed (c : Ctx) (root : List Slot) (temps : List Ptr) (i : Nat) : Prop :=
  (∃ o, c.heap.get i = some o ∧ o.color = .white) ∧ ¬ Exposed c root temps i ∧
    (c.phase = .sweep → i ∈ c.rest)

/-- The block has been returned to the allocator (and its id will not be reused). -/
def Released (c : Ctx) (i : Nat) : Prop :=
  c.heap.get i = none ∧ i < c.heap.size ∧ Event.freed i ∈ c.log

theorem sweepOne_white_freed {c : Ctx} {i : Nat} {rest' : List Nat} {o : Obj} (hr : c.rest = i :: rest')
    (ho : c.heap.get i = some o) (hw : o.color = .white) :
    c.sweepOne.1.heap.get i = none ∧ Event.freed i ∈ c.sweepOne.1.log := by
  unfold Ctx.sweepOne
  simp only [hr, Ctx.step_heap, ho, hw]
  cases hl : o.live <;> simp

theorem micro_size {c c' : Ctx} {root} (m : Micro) (hm : c.micro root m = some c') :
    c'.heap.size = c.heap.size := by
  cases m <;> simp only [Ctx.micro] at hm <;> split at hm <;> cases hm <;>
    first | rfl | exact Ctx.markOne_size _ _ _ | exact Ctx.sweepOne_size _

theorem micros_size {root} (ms : List Micro) : ∀ {c c' : Ctx}, c.micros root ms = some c' →
    c'.heap.size = c.heap.size := by
  induction ms with
  | nil => intro c c' hs; simp only [Ctx.micros] at hs; cases hs; rfl
  | cons m ms ih =>
    intro c c' hs
    simp only [Ctx.micros] at hs
    cases hm : c.micro root m with
    | none => rw [hm] at hs; cases hs
    | some c1 =>
      rw [hm] at hs
      exact (ih hs).trans (micro_size m hm)

theorem micro_released {c c' : Ctx} {root} (h : CInv c root []) (m : Micro)
    (hs : c.micro root m = some c') {i : Nat} (r : Released c i) : Released c' i := by
  obtain ⟨hn, hlt, hf⟩ := r
  refine ⟨?_, by rw [micro_size m hs]; exact hlt, ?_⟩
  · cases ho' : c'.heap.get i with
    | none => rfl
    | some o' =>
      obtain ⟨o, ho, _⟩ := micro_shrink h m hs i o' ho'
      rw [hn] at ho; cases ho
  · obtain ⟨evs, hn', _⟩ := micro_events h m hs
    rw [hn']; exact List.mem_append_right _ hf

/-- What `mark_one` marks is exposed, and it leaves white unexposed objects white. -/
theorem markOne_exposed {c : Ctx} {root} (h : CInv c root []) (f : Option Nat) :
    TM (Exposed c root []) (fun t => Exposed c root [] t ∨ ∃ o, c.heap.get t = some o ∧ o.color = .whiteWeak)
      (c.markOne root f).1 := by
  have t0 : TM (Exposed c root [])
      (fun t => Exposed c root [] t ∨ ∃ o, c.heap.get t = some o ∧ o.color = .whiteWeak) c :=
    fun j o ho => ⟨fun hc => .marked j o ho hc, fun hc => Or.inr ⟨o, ho, hc⟩⟩
  apply t0.markOne f
  · intro j hj
    obtain ⟨o, ho, hg⟩ := h.qGray j hj
    exact .marked j o ho (Or.inl hg)
  · intro j o hj ho
    exact ⟨fun x hx => .edge j o (.strong x) hj ho hx, fun x hx => Or.inl (.edge j o (.weak x) hj ho hx)⟩
  · exact ⟨fun x hx => .root (.strong x) hx, fun x hx => Or.inl (.root (.weak x) hx)⟩

/-- One collector micro-step on a doomed object: it stays doomed or is released — and the step is
    not the `Sweep → Sleep` switch, which needs the cursor at the end of the list. -/
theorem micro_doomed {c c' : Ctx} {root} (h : CInv c root []) (m : Micro)
    (hs : c.micro root m = some c') {i : Nat} (d : Doomed c root [] i) :
    (Released c' i ∨ Doomed c' root [] i) ∧ ∀ b, m ≠ .toSleep b := by
  obtain ⟨⟨o, ho, hw⟩, hne, hsw⟩ := d
  have hlt : i < c.heap.size := Heap.lt_size_of_get _ _ _ ho
  -- steps that leave the heap alone
  have same : (∀ j, c'.heap.get j = c.heap.get j) → (c'.phase = .sweep → i ∈ c'.rest) →
      Released c' i ∨ Doomed c' root [] i := by
    intro hh hr
    refine Or.inr ⟨⟨o, by rw [hh]; exact ho, hw⟩, ?_, hr⟩
    intro he
    apply hne
    refine exposed_back (Shrink.ofHeap hh) ?_ he
    intro j o' ho' hc
    rw [hh] at ho'
    exact .marked j o' ho' hc
  have markCase : c.phase = .mark → ∀ f, Released (c.markOne root f).1 i ∨ Doomed (c.markOne root f).1 root [] i := by
    intro hp f
    obtain ⟨_, fr⟩ := markOne_spec h hp f
    have tm := markOne_exposed h (root := root) f
    obtain ⟨o', ho'⟩ := (fr.alloc i).mpr ⟨o, ho⟩
    have hw' : o'.color = .white := by
      cases hcol : o'.color with
      | white => rfl
      | gray => exact absurd ((tm i o' ho').1 (Or.inl hcol)) hne
      | black => exact absurd ((tm i o' ho').1 (Or.inr hcol)) hne
      | whiteWeak =>
        rcases (tm i o' ho').2 hcol with he | ⟨o2, ho2, hc2⟩
        · exact absurd he hne
        · rw [ho] at ho2; cases ho2; rw [hw] at hc2; cases hc2
    refine Or.inr ⟨⟨o', ho', hw'⟩, ?_, fun hps => by rw [fr.phase, hp] at hps; cases hps⟩
    intro he
    exact hne (exposed_back fr.shrink (fun j oj hoj hc => (tm j oj hoj).1 hc) he)
  have sweepCase : c.phase = .sweep → c.rest ≠ [] → Released c.sweepOne.1 i ∨ Doomed c.sweepOne.1 root [] i := by
    intro hp hr
    cases hrest : c.rest with
    | nil => exact absurd hrest hr
    | cons x rest' =>
      obtain ⟨ox, hox⟩ := (h.memAll x).mp (by rw [hrest]; simp)
      obtain ⟨hr', hph', hframe, hcases⟩ := sweepOne_cases hrest hox
      have hmem := hsw hp
      rw [hrest] at hmem
      by_cases hix : i = x
      · subst hix
        rw [ho] at hox; cases hox
        obtain ⟨hn, hf⟩ := sweepOne_white_freed hrest ho hw
        exact Or.inl ⟨hn, by rw [Ctx.sweepOne_size]; exact hlt, hf⟩
      · have hmem' : i ∈ rest' := by
          simp only [List.mem_cons] at hmem
          rcases hmem with hm | hm
          · exact absurd hm hix
          · exact hm
        refine Or.inr ⟨⟨o, by rw [hframe i hix]; exact ho, hw⟩, ?_, fun _ => by rw [hr']; exact hmem'⟩
        intro he
        apply hne
        refine exposed_back (sweepOne_shrink c) ?_ he
        intro j oj hoj hc
        by_cases hjx : j = x
        · subst hjx
          exfalso
          rcases hcases with ⟨_, hn, _⟩ | ⟨_, _, o', ho', hw', _⟩ | ⟨_, _, hb⟩ | ⟨hg, _, _⟩
          · rw [hn] at hoj; cases hoj
          · rw [ho'] at hoj; cases hoj; rw [hw'] at hc; rcases hc with hc | hc <;> cases hc
          · rw [hb] at hoj; cases hoj; rcases hc with hc | hc <;> cases hc
          · have := h.grayQ j ox hox hg
            have hq := h.qMark (by rw [hp]; simp)
            rw [hq.1, hq.2] at this; simp at this
        · rw [hframe j hjx] at hoj
          exact .marked j oj hoj hc
  cases m with
  | wake =>
    simp only [Ctx.micro] at hs
    split at hs
    · cases hs
      exact ⟨same (fun _ => rfl) (fun hp => by simp [Ctx.switch] at hp), fun b hb => by cases hb⟩
    · cases hs
  | markStep f =>
    simp only [Ctx.micro] at hs
    split at hs
    · cases hs; rename_i hp
      simp only [Bool.and_eq_true, decide_eq_true_eq] at hp
      exact ⟨markCase hp.1 f, fun b hb => by cases hb⟩
    · cases hs
  | markBreak =>
    simp only [Ctx.micro] at hs
    split at hs
    · cases hs; rename_i hp
      simp only [Bool.and_eq_true, decide_eq_true_eq] at hp
      exact ⟨markCase hp.1 none, fun b hb => by cases hb⟩
    · cases hs
  | toSweep =>
    simp only [Ctx.micro] at hs
    split at hs
    · cases hs
      refine ⟨same (fun _ => rfl) (fun _ => ?_), fun b hb => by cases hb⟩
      have := (h.memAll i).mpr ⟨o, ho⟩
      simpa [Ctx.enterSweep, Ctx.switch] using this
    · cases hs
  | sweepStep =>
    simp only [Ctx.micro] at hs
    split at hs
    · cases hs; rename_i hp
      simp only [Bool.and_eq_true, decide_eq_true_eq, Bool.not_eq_true', List.isEmpty_eq_false_iff] at hp
      exact ⟨sweepCase hp.1 hp.2, fun b hb => by cases hb⟩
    · cases hs
  | sweepEnd =>
    simp only [Ctx.micro] at hs
    split at hs
    · rename_i hp
      simp only [Bool.and_eq_true, decide_eq_true_eq, List.isEmpty_iff] at hp
      have := hsw hp.1
      rw [hp.2] at this; cases this
    · cases hs
  | toSleep b =>
    simp only [Ctx.micro] at hs
    split at hs
    · rename_i hp
      simp only [Bool.and_eq_true, decide_eq_true_eq, List.isEmpty_iff] at hp
      have := hsw hp.1
      rw [hp.2] at this; cases this
    · cases hs

theorem micros_released {root} {i : Nat} (ms : List Micro) : ∀ {c c' : Ctx}, CInv c root [] →
    c.micros root ms = some c' → Released c i → Released c' i := by
  induction ms with
  | nil => intro c c' _ hs r; simp only [Ctx.micros] at hs; cases hs; exact r
  | cons m ms ih =>
    intro c c' h hs r
    simp only [Ctx.micros] at hs
    cases hm : c.micro root m with
    | none => rw [hm] at hs; cases hs
    | some c1 =>
      rw [hm] at hs
      exact ih (micro_inv h m hm) hs (micro_released h m hm r)

theorem micros_doomed {root} {i : Nat} (ms : List Micro) : ∀ {c c' : Ctx}, CInv c root [] →
    c.micros root ms = some c' → Doomed c root [] i →
    Released c' i ∨ (zc c' = zc c ∧ Doomed c' root [] i) := by
  induction ms with
  | nil => intro c c' _ hs d; simp only [Ctx.micros] at hs; cases hs; exact Or.inr ⟨rfl, d⟩
  | cons m ms ih =>
    intro c c' h hs d
    simp only [Ctx.micros] at hs
    cases hm : c.micro root m with
    | none => rw [hm] at hs; cases hs
    | some c1 =>
      rw [hm] at hs
      have h1 := micro_inv h m hm
      obtain ⟨fate, hns⟩ := micro_doomed h m hm d
      have hz1 : zc c1 = zc c := (micro_zc m hm).2.mpr hns
      rcases fate with r | d1
      · exact Or.inl (micros_released ms h1 hs r)
      · rcases ih h1 hs d1 with r | ⟨hz, d2⟩
        · exact Or.inl r
        · exact Or.inr ⟨hz.trans hz1, d2⟩

/-! ### Mutator operations expose nothing new -/

theorem exposed_mono_step {op : Op} {a a' : Arena} (m : MutFacts op a a') {t : Nat}
    (h : Exposed a'.ctx a'.root a'.temps t) :
    Exposed a.ctx a.root a.temps t ∨ a.ctx.heap.size ≤ t := by
  induction h with
  | root p hp =>
    rcases m.root p hp with hp | hp
    · exact Or.inl (.root p hp)
    · exact Or.inl (.temp p hp)
  | temp p hp =>
    rcases m.temps p hp with hp | ⟨q, hq, hqt⟩ | hp | ⟨j, o, hj, ho, hs⟩ | hp
    · exact Or.inl (.temp p hp)
    · left; rw [← hqt]; exact .temp q hq
    · exact Or.inl (.root p hp)
    · exact Or.inl (.edge j o p (.temp (.strong j) hj) ho hs)
    · exact Or.inr (by rw [hp]; exact Nat.le_refl _)
  | marked j o' ho' hc =>
    cases ho : a.ctx.heap.get j with
    | none =>
      obtain ⟨_, hw, _⟩ := m.fresh j o' ho' ho
      rw [hw] at hc; rcases hc with hc | hc <;> cases hc
    | some o =>
      obtain ⟨o2, ho2, _, _, _, _, hu, _⟩ := m.keep j o ho
      rw [ho'] at ho2; cases ho2
      by_cases hh : Held a j
      · obtain ⟨q, hq, hqt⟩ := hh
        left; rw [← hqt]; exact .temp q hq
      · rw [hu hh] at hc
        exact Or.inl (.marked j o ho hc)
  | edge j o' p _ ho' hs ih =>
    cases ho : a.ctx.heap.get j with
    | none =>
      obtain ⟨_, _, _, hsl⟩ := m.fresh j o' ho' ho
      exact Or.inl (.temp p (hsl p hs))
    | some o =>
      have hj : Exposed a.ctx a.root a.temps j := by
        rcases ih with ih | ih
        · exact ih
        · have := Heap.lt_size_of_get _ _ _ ho; omega
      obtain ⟨o2, ho2, _, _, _, _, _, sl⟩ := m.keep j o ho
      rw [ho'] at ho2; cases ho2
      rcases sl with sl | ⟨idx, v, _, sl, hv⟩
      · rw [sl] at hs; exact Or.inl (.edge j o p hj ho hs)
      · rw [sl] at hs
        rcases mem_set_slot hs with hs | hs
        · exact Or.inl (.edge j o p hj ho hs)
        · subst hs
          exact Or.inl (.temp p ((holds_iff a p).mp hv))

theorem step_doomed {a : Arena} (h : Inv a) (op : Op) (hop : op.isMutator = true) {i : Nat}
    (d : Doomed a.ctx a.root a.temps i) :
    Doomed (a.step op).1.ctx (a.step op).1.root (a.step op).1.temps i := by
  have m := step_mutFacts h op hop
  have hph : (a.step op).1.ctx.phase = a.ctx.phase := (step_quiet h op hop).phase
  obtain ⟨⟨o, ho, hw⟩, hne, hsw⟩ := d
  have hnh : ¬ Held a i := by
    rintro ⟨q, hq, hqt⟩
    apply hne; rw [← hqt]; exact .temp q hq
  obtain ⟨o', ho', _, _, _, _, hu, _⟩ := m.keep i o ho
  refine ⟨⟨o', ho', by rw [hu hnh]; exact hw⟩, ?_, ?_⟩
  · intro he
    rcases exposed_mono_step m he with he | he
    · exact hne he
    · have := Heap.lt_size_of_get _ _ _ ho; omega
  · intro hp
    rw [m.rest]
    exact hsw (hph ▸ hp)

theorem step_released {a : Arena} (h : Inv a) (op : Op) (hop : op.isMutator = true) {i : Nat}
    (r : Released a.ctx i) : Released (a.step op).1.ctx i := by
  have q := step_quiet h op hop
  obtain ⟨hn, hlt, hf⟩ := r
  refine ⟨?_, Nat.lt_of_lt_of_le hlt q.sizeLe, by rw [q.log]; exact hf⟩
  cases ho' : (a.step op).1.ctx.heap.get i with
  | none => rfl
  | some o' =>
    rcases q.noNew i o' ho' with ⟨o, ho⟩ | ⟨hsz, _⟩
    · rw [hn] at ho; cases ho
    · omega

/-! ### Over whole histories -/

def FateRel (i : Nat) (a a' : Arena) : Prop :=
  zc a.ctx ≤ zc a'.ctx ∧ (Released a.ctx i → Released a'.ctx i) ∧
    (Doomed a.ctx a.root a.temps i →
      Released a'.ctx i ∨ (zc a'.ctx = zc a.ctx ∧ Doomed a'.ctx a'.root a'.temps i))

theorem step_fateRel {a : Arena} (h : Inv a) (op : Op) (hal : (a.step op).1.alive = true) (i : Nat) :
    FateRel i a (a.step op).1 := by
  rcases step_kind h op hal with hop | rel
  · have m := step_mutFacts h op hop
    have hz : zc (a.step op).1.ctx = zc a.ctx := by unfold zc; rw [m.steps]
    exact ⟨by rw [hz]; exact Nat.le_refl _, step_released h op hop,
      fun d => Or.inr ⟨hz, step_doomed h op hop d⟩⟩
  · obtain ⟨ms, hms, hnil⟩ := rel.reach
    by_cases hcb : a.cb = none
    · have h0 := h.cinv0 hcb
      have ht : a.temps = [] := h.cbTemps hcb
      refine ⟨micros_zc_mono ms hms, micros_released ms h0 hms, fun d => ?_⟩
      rw [rel.root, rel.temps, ht]
      rw [ht] at d
      exact micros_doomed ms h0 hms d
    · have := hnil hcb
      subst this
      simp only [Ctx.micros, Option.some.injEq] at hms
      unfold FateRel
      rw [← hms, rel.root, rel.temps]
      exact ⟨Nat.le_refl _, fun r => r, fun d => Or.inr ⟨rfl, d⟩⟩

theorem run_fateRel (i : Nat) (ops : List Op) : ∀ (a : Arena), Inv a → (a.run ops).alive = true →
    FateRel i a (a.run ops) := by
  induction ops with
  | nil => intro a _ _; exact ⟨Nat.le_refl _, fun r => r, fun d => Or.inr ⟨rfl, d⟩⟩
  | cons op ops ih =>
    intro a h hal
    simp only [Arena.run] at hal ⊢
    have hal1 := alive_of_run_alive hal
    have h1 := inv_step h op hal1
    obtain ⟨z1, r1, d1⟩ := step_fateRel h op hal1 i
    obtain ⟨z2, r2, d2⟩ := ih _ h1 hal
    refine ⟨Nat.le_trans z1 z2, fun r => r2 (r1 r), fun d => ?_⟩
    rcases d1 d with r | ⟨hz1, d'⟩
    · exact Or.inl (r2 r)
    · rcases d2 d' with r | ⟨hz2, d''⟩
      · exact Or.inl r
      · exact Or.inr ⟨hz2.trans hz1, d''⟩

/-- **Whatever is white and not exposed is released by the time the cycle completes** — under any
    interleaving of callbacks (with any mutator operations) and collection calls. -/
theorem doomed_released_run {a : Arena} (hinv : Inv a) (i : Nat) (ops : List Op)
    (d : Doomed a.ctx a.root a.temps i) (halive : (a.run ops).alive = true)
    (hz : zc a.ctx < zc (a.run ops).ctx) :
    (a.run ops).ctx.heap.get i = none ∧ Event.freed i ∈ (a.run ops).ctx.log := by
  obtain ⟨_, _, k⟩ := run_fateRel i ops a hinv halive
  rcases k d with r | ⟨he, _⟩
  · exact ⟨r.1, r.2.2⟩
  · omega

theorem zc_lt_of_suffix {c c' : Ctx} {new : List Char} (e : c'.steps = new ++ c.steps) (hz : 'Z' ∈ new) :
    zc c < zc c' := by
  unfold zc
  rw [e, List.count_append]
  have := List.count_pos_iff.mpr hz
  omega

end GcArena
