import GcArena.Proofs.AccountingRun
import GcArena.Proofs.Debt
/-!
  C10, monotonicity of `allocation_debt` under mutator operations: which metric updates each
  operation can perform, and what each update does to the reported debt.
-/
namespace GcArena

/-! ### The three counter updates a mutator can cause, on the debt -/

theorem debt_le_allocated (m : Metrics) : m.allocationDebt ≤ m.markGcAllocated.allocationDebt := by
  have hn := debt_nonneg m.markGcAllocated
  unfold Metrics.allocationDebt at hn ⊢
  by_cases ht : m.totalGcs = 0
  · rw [if_pos ht]; exact hn
  · rw [if_neg ht]
    have ht' : ¬ (m.markGcAllocated.totalGcs = 0) := by simp [Metrics.markGcAllocated]
    rw [if_neg ht']
    have hd : m.markGcAllocated.cycleDebits = m.cycleDebits + 1 := by
      unfold Metrics.cycleDebits Metrics.markGcAllocated
      simp only [Rat.natCast_add]
      grind
    have hc : m.markGcAllocated.cycleCredits = m.cycleCredits := rfl
    rw [hd, hc]
    split <;> split <;> grind

theorem debt_le_untraced (m : Metrics) (htf : 0 ≤ m.pacing.traceFactor) :
    m.allocationDebt ≤ m.markGcUntraced.allocationDebt := by
  by_cases h0 : m.traced = 0
  · have : m.markGcUntraced = m := by
      cases m
      simp only [Metrics.markGcUntraced] at h0 ⊢
      subst h0; rfl
    rw [this]; exact Rat.le_refl
  · obtain ⟨t, ht⟩ : ∃ t, m.traced = t + 1 := ⟨m.traced - 1, by omega⟩
    have hd : m.markGcUntraced.cycleDebits = m.cycleDebits := rfl
    have hc : m.markGcUntraced.cycleCredits = m.cycleCredits - m.pacing.traceFactor := by
      unfold Metrics.cycleCredits Metrics.markGcUntraced
      simp only [ht, Nat.add_sub_cancel, Rat.natCast_add, Rat.add_mul]
      grind
    unfold Metrics.allocationDebt
    rw [hd, hc]
    have ht' : m.markGcUntraced.totalGcs = m.totalGcs := rfl
    rw [ht']
    split
    · exact Rat.le_refl
    · split
      · exact Rat.le_refl
      · grind

theorem debt_sub_le_marked (m : Metrics) (hmf : 0 ≤ m.pacing.markFactor) :
    m.allocationDebt - m.pacing.markFactor ≤ m.markGcMarked.allocationDebt := by
  have hd : m.markGcMarked.cycleDebits = m.cycleDebits := rfl
  have hc : m.markGcMarked.cycleCredits = m.cycleCredits + m.pacing.markFactor := by
    unfold Metrics.cycleCredits Metrics.markGcMarked
    simp only [Rat.natCast_add, Rat.add_mul]
    grind
  unfold Metrics.allocationDebt
  rw [hd, hc]
  have ht' : m.markGcMarked.totalGcs = m.totalGcs := rfl
  rw [ht']
  split
  · grind
  · split
    · grind
    · grind

/-- … and marking can only pay debt, never add to it. -/
theorem debt_marked_le (m : Metrics) (hmf : 0 ≤ m.pacing.markFactor) :
    m.markGcMarked.allocationDebt ≤ m.allocationDebt := by
  have hd : m.markGcMarked.cycleDebits = m.cycleDebits := rfl
  have hc : m.markGcMarked.cycleCredits = m.cycleCredits + m.pacing.markFactor := by
    unfold Metrics.cycleCredits Metrics.markGcMarked
    simp only [Rat.natCast_add, Rat.add_mul]
    grind
  unfold Metrics.allocationDebt
  rw [hd, hc]
  have ht' : m.markGcMarked.totalGcs = m.totalGcs := rfl
  rw [ht']
  split
  · exact Rat.le_refl
  · split
    · exact Rat.le_refl
    · grind

/-! ### Which updates each primitive performs -/

/-- Unchanged, one allocation counted (only if `alloc`), or one `traced` taken back
    (black → gray). -/
def PlainMet (alloc : Bool) (m m' : Metrics) : Prop :=
  m' = m ∨ (alloc = true ∧ m' = m.markGcAllocated) ∨ m' = m.markGcUntraced

/-- Unchanged, or one object newly marked. -/
def FwdMet (m m' : Metrics) : Prop := m' = m ∨ m' = m.markGcMarked

theorem PlainMet.debt {b : Bool} {m m' : Metrics} (h : PlainMet b m m') (htf : 0 ≤ m.pacing.traceFactor) :
    m.allocationDebt ≤ m'.allocationDebt := by
  rcases h with h | ⟨_, h⟩ | h <;> rw [h]
  · exact Rat.le_refl
  · exact debt_le_allocated m
  · exact debt_le_untraced m htf

/-- The debit side under a plain mutator update. -/
theorem PlainMet.frame {b : Bool} {m m' : Metrics} (h : PlainMet b m m') :
    m'.pacing = m.pacing ∧ m'.wakeup = m.wakeup ∧ m'.artificial = m.artificial ∧
    m.allocated ≤ m'.allocated ∧ m'.allocated ≤ m.allocated + (if b then 1 else 0) := by
  rcases h with h | ⟨hb, h⟩ | h <;> rw [h]
  · exact ⟨rfl, rfl, rfl, Nat.le_refl _, Nat.le_add_right _ _⟩
  · refine ⟨rfl, rfl, rfl, ?_, ?_⟩
    · show m.allocated ≤ m.allocated + 1; omega
    · rw [hb]; exact Nat.le_refl _
  · exact ⟨rfl, rfl, rfl, Nat.le_refl _, Nat.le_add_right _ _⟩

/-- `total_gcs + freed - allocated` (= held at wake-up − counted at wake-up) is constant under
    mutator updates: the decomposition `allocated = Aw + A'`, `total_gcs + freed = H + A'` used by
    the ρ-bound is maintained with `A'` = allocations made since the cycle woke. -/
theorem PlainMet.ghost {b : Bool} {m m' : Metrics} (h : PlainMet b m m') :
    m'.totalGcs + m'.freed + m.allocated = m.totalGcs + m.freed + m'.allocated := by
  rcases h with h | ⟨_, h⟩ | h <;> rw [h]
  · show m.totalGcs + 1 + m.freed + m.allocated = m.totalGcs + m.freed + (m.allocated + 1); omega
  · rfl

theorem FwdMet.ghost {m m' : Metrics} (h : FwdMet m m') :
    m'.totalGcs + m'.freed + m.allocated = m.totalGcs + m.freed + m'.allocated := by
  rcases h with h | h <;> rw [h] <;> rfl

theorem FwdMet.frame {m m' : Metrics} (h : FwdMet m m') :
    m'.pacing = m.pacing ∧ m'.wakeup = m.wakeup ∧ m'.artificial = m.artificial ∧
    m'.allocated = m.allocated := by
  rcases h with h | h <;> rw [h] <;> exact ⟨rfl, rfl, rfl, rfl⟩

theorem FwdMet.debt {m m' : Metrics} (h : FwdMet m m') (hmf : 0 ≤ m.pacing.markFactor) :
    m.allocationDebt - m.pacing.markFactor ≤ m'.allocationDebt ∧ m'.allocationDebt ≤ m.allocationDebt := by
  rcases h with h | h <;> rw [h]
  · exact ⟨by grind, Rat.le_refl⟩
  · exact ⟨debt_sub_le_marked m hmf, debt_marked_le m hmf⟩

theorem makeGrayAgain_met (c : Ctx) (t : Nat) : PlainMet false c.metrics (c.makeGrayAgain t).metrics := by
  cases hg : c.heap.get t with
  | none => rw [makeGrayAgain_none hg, Ctx.fail_metrics]; exact Or.inl rfl
  | some o => exact Or.inr (Or.inr (makeGrayAgain_some hg).2.1)

theorem backwardBarrier_met (c : Ctx) (p : Nat) (ch : Option Nat) :
    PlainMet false c.metrics (c.backwardBarrier p ch).metrics := by
  unfold Ctx.backwardBarrier
  repeat' split
  all_goals first
    | exact Or.inl rfl
    | (rw [Ctx.fail_metrics]; exact Or.inl rfl)
    | exact makeGrayAgain_met _ _

theorem backwardBarrierWeak_met (c : Ctx) (p ch : Nat) :
    PlainMet false c.metrics (c.backwardBarrierWeak p ch).metrics := by
  unfold Ctx.backwardBarrierWeak
  repeat' split
  all_goals first
    | exact Or.inl rfl
    | (rw [Ctx.fail_metrics]; exact Or.inl rfl)
    | exact makeGrayAgain_met _ _

theorem trace_met (c : Ctx) (t : Nat) : FwdMet c.metrics (c.trace t).metrics := by
  cases hg : c.heap.get t with
  | none => rw [trace_none hg, Ctx.fail_metrics]; exact Or.inl rfl
  | some o =>
    by_cases hc : o.color = .gray ∨ o.color = .black
    · rw [trace_marked hg hc]; exact Or.inl rfl
    · have hc' : o.color = .white ∨ o.color = .whiteWeak := by
        cases hcol : o.color <;> simp_all
      rw [(trace_unmarked hg hc').2]
      split
      · exact Or.inr rfl
      · exact Or.inl rfl

theorem traceWeak_met (c : Ctx) (t : Nat) : FwdMet c.metrics (c.traceWeak t).metrics := by
  cases hg : c.heap.get t with
  | none => rw [traceWeak_none hg, Ctx.fail_metrics]; exact Or.inl rfl
  | some o =>
    by_cases hc : o.color = .white
    · rw [(traceWeak_white hg hc).2]; exact Or.inr rfl
    · rw [traceWeak_nonwhite hg hc]; exact Or.inl rfl

theorem forwardBarrier_met (c : Ctx) (p : Option Nat) (ch : Nat) :
    FwdMet c.metrics (c.forwardBarrier p ch).metrics := by
  unfold Ctx.forwardBarrier
  repeat' split
  all_goals first
    | exact Or.inl rfl
    | (rw [Ctx.fail_metrics]; exact Or.inl rfl)
    | exact trace_met _ _

theorem forwardBarrierWeak_met (c : Ctx) (p : Option Nat) (ch : Nat) :
    FwdMet c.metrics (c.forwardBarrierWeak p ch).metrics := by
  unfold Ctx.forwardBarrierWeak
  repeat' split
  all_goals first
    | exact Or.inl rfl
    | (rw [Ctx.fail_metrics]; exact Or.inl rfl)
    | exact traceWeak_met _ _

theorem resurrect_met (c : Ctx) (t : Nat) : FwdMet c.metrics (c.resurrect t).metrics := by
  unfold Ctx.resurrect
  split
  · rw [Ctx.fail_metrics]; exact Or.inl rfl
  · simp only
    have h0 : ∀ (b1 b2 : Prop) [Decidable b1] [Decidable b2],
        (if b2 then (if b1 then c else c.fail .debugAssert)
         else (if b1 then c else c.fail .debugAssert).fail .debugAssert).metrics = c.metrics := by
      intro b1 b2 _ _; split <;> split <;> simp
    split
    · split
      · right
        simp only [Ctx.withMetrics_metrics, Ctx.setObj_metrics]
        rw [h0]
      · left
        simp only [Ctx.setObj_metrics]
        rw [h0]
    · left; rw [h0]

/-! ### Operations -/

/-- Operations that perform marking work themselves: forward barriers and `resurrect`. -/
def Op.isForwardLike : Op → Bool
  | .barrier (.fb _ _) => true
  | .barrier (.fbw _ _) => true
  | .resurrect _ => true
  | _ => false

/-- Explicit adjustment of the pacing inputs. -/
def Op.isKnob : Op → Bool
  | .setPacing _ => true
  | .adjustDebt _ => true
  | _ => false

def Op.isAlloc : Op → Bool
  | .alloc _ _ => true
  | _ => false

theorem PlainMet.weaken {b : Bool} {m m' : Metrics} (h : PlainMet false m m') : PlainMet b m m' := by
  rcases h with h | ⟨hb, _⟩ | h
  · exact Or.inl h
  · cases hb
  · exact Or.inr (Or.inr h)

theorem stepBody_plainMet (a : Arena) (fin : Bool) (op : Op) (hop : op.isMutator = true)
    (hk : op.isKnob = false) (hf : op.isForwardLike = false) :
    PlainMet op.isAlloc a.ctx.metrics (a.stepBody fin op).1.ctx.metrics := by
  have rf : ∀ b, PlainMet b a.ctx.metrics a.ctx.metrics := fun _ => Or.inl rfl
  cases op with
  | collect m k f o => simp [Op.isMutator] at hop
  | dropArena => simp [Op.isMutator] at hop
  | setPacing p => simp [Op.isKnob] at hk
  | adjustDebt x => simp [Op.isKnob] at hk
  | resurrect p => simp [Op.isForwardLike] at hf
  | leave => simp only [Arena.stepBody]; split <;> exact rf _
  | enter k =>
    simp only [Arena.stepBody]
    split
    · exact rf _
    · cases k with
      | mutate => exact rf _
      | mutateRoot => exact Or.inl (rootBarrier_silent a.ctx).metrics
      | finalize => simp only; split <;> exact rf _
  | alloc nt slots =>
    simp only [Arena.stepBody]
    split
    · exact rf _
    · split
      · exact rf _
      · split
        · exact rf _
        · simp only [quiet_push]; exact Or.inr (Or.inl ⟨rfl, rfl⟩)
  | readRoot i =>
    simp only [Arena.stepBody]
    split
    · exact rf _
    · split <;> first | exact rf _ | (simp only [quiet_push]; exact rf _)
  | read p i =>
    simp only [Arena.stepBody]
    split
    · exact rf _
    · split <;> first | exact rf _ | (simp only [quiet_push]; exact rf _)
  | downgrade p =>
    simp only [Arena.stepBody]
    split
    · exact rf _
    · simp only [quiet_push]; exact rf _
  | upgrade w =>
    simp only [Arena.stepBody]
    split
    · exact rf _
    · have hs : PlainMet (Op.upgrade w).isAlloc a.ctx.metrics (a.ctx.upgrade w).1.metrics :=
        Or.inl (upgrade_silent a.ctx w).metrics
      rw [show a.ctx.upgrade w = ((a.ctx.upgrade w).1, (a.ctx.upgrade w).2) from rfl]
      simp only
      split
      · simp only [quiet_push]; exact hs
      · exact hs
  | isDropped w =>
    simp only [Arena.stepBody]
    split
    · exact rf _
    · split
      · exact Or.inl (Ctx.fail_metrics _ _)
      · exact rf _
  | isDead p =>
    simp only [Arena.stepBody]
    split
    · exact rf _
    · split
      · exact Or.inl (Ctx.fail_metrics _ _)
      · exact rf _
  | barrier b =>
    simp only [Arena.stepBody]
    split
    · exact rf _
    · cases b with
      | bb p c =>
        cases c with
        | none => simp only; split <;> first | exact rf _ | exact (backwardBarrier_met _ _ _).weaken
        | some c => simp only; split <;> first | exact rf _ | exact (backwardBarrier_met _ _ _).weaken
      | bbw p c => simp only; split <;> first | exact rf _ | exact (backwardBarrierWeak_met _ _ _).weaken
      | fb p c => simp [Op.isForwardLike] at hf
      | fbw p c => simp [Op.isForwardLike] at hf
  | store path p i v =>
    simp only [Arena.stepBody]
    split
    · exact rf _
    · split
      · exact rf _
      · split
        · exact rf _
        · cases path with
          | write =>
            simp only
            rw [(setSlot_same (a.ctx.backwardBarrier p none) p i v).2.2]
            exact (backwardBarrier_met _ _ _).weaken
          | raw =>
            simp only
            split
            · exact rf _
            · exact Or.inl (setSlot_same a.ctx p i v).2.2
          | storeThenBarrier =>
            simp only
            have := backwardBarrier_met (Arena.setSlot a.ctx p i v) p none
            rw [(setSlot_same a.ctx p i v).2.2] at this
            exact this.weaken
  | rootStore i v =>
    simp only [Arena.stepBody]
    split <;> exact rf _

theorem stepBody_fwdMet (a : Arena) (fin : Bool) (op : Op) (hf : op.isForwardLike = true) :
    FwdMet a.ctx.metrics (a.stepBody fin op).1.ctx.metrics := by
  have rf : FwdMet a.ctx.metrics a.ctx.metrics := Or.inl rfl
  cases op with
  | resurrect p =>
    simp only [Arena.stepBody]
    split
    · exact rf
    · cases p with
      | strong t => exact resurrect_met _ _
      | weak t =>
        simp only
        split
        · exact Or.inl (Ctx.fail_metrics _ _)
        · split
          · simp only [quiet_push]; exact resurrect_met _ _
          · exact rf
  | barrier b =>
    simp only [Arena.stepBody]
    split
    · exact rf
    · cases b with
      | bb p c => simp [Op.isForwardLike] at hf
      | bbw p c => simp [Op.isForwardLike] at hf
      | fb p c =>
        cases p with
        | none => simp only; split <;> first | exact rf | exact forwardBarrier_met _ _ _
        | some p => simp only; split <;> first | exact rf | exact forwardBarrier_met _ _ _
      | fbw p c =>
        cases p with
        | none => simp only; split <;> first | exact rf | exact forwardBarrierWeak_met _ _ _
        | some p => simp only; split <;> first | exact rf | exact forwardBarrierWeak_met _ _ _
  | _ => simp [Op.isForwardLike] at hf

theorem step_plainMet (a : Arena) (op : Op) (hop : op.isMutator = true)
    (hk : op.isKnob = false) (hf : op.isForwardLike = false) :
    PlainMet op.isAlloc a.ctx.metrics (a.step op).1.ctx.metrics := by
  unfold Arena.step
  split
  · exact Or.inl rfl
  · exact stepBody_plainMet _ _ op hop hk hf

theorem step_fwdMet (a : Arena) (op : Op) (hf : op.isForwardLike = true) :
    FwdMet a.ctx.metrics (a.step op).1.ctx.metrics := by
  unfold Arena.step
  split
  · exact Or.inl rfl
  · exact stepBody_fwdMet _ _ op hf

end GcArena
