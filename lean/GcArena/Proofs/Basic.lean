import GcArena.Model.Arena
import GcArena.Proofs.HeapLemmas
/-! Field projections of the bookkeeping updates (`fail`, `step`, `emit`, `withMetrics`, `setObj`). -/
namespace GcArena
namespace Ctx

@[simp] theorem fail_phase (c : Ctx) (f : Fault) : (c.fail f).phase = c.phase := by
  unfold Ctx.fail; cases c.err <;> rfl
@[simp] theorem fail_heap (c : Ctx) (f : Fault) : (c.fail f).heap = c.heap := by
  unfold Ctx.fail; cases c.err <;> rfl
@[simp] theorem fail_pre (c : Ctx) (f : Fault) : (c.fail f).pre = c.pre := by
  unfold Ctx.fail; cases c.err <;> rfl
@[simp] theorem fail_rest (c : Ctx) (f : Fault) : (c.fail f).rest = c.rest := by
  unfold Ctx.fail; cases c.err <;> rfl
@[simp] theorem fail_rnt (c : Ctx) (f : Fault) : (c.fail f).rootNeedsTrace = c.rootNeedsTrace := by
  unfold Ctx.fail; cases c.err <;> rfl
@[simp] theorem fail_gray (c : Ctx) (f : Fault) : (c.fail f).gray = c.gray := by
  unfold Ctx.fail; cases c.err <;> rfl
@[simp] theorem fail_grayAgain (c : Ctx) (f : Fault) : (c.fail f).grayAgain = c.grayAgain := by
  unfold Ctx.fail; cases c.err <;> rfl
@[simp] theorem fail_metrics (c : Ctx) (f : Fault) : (c.fail f).metrics = c.metrics := by
  unfold Ctx.fail; cases c.err <;> rfl
@[simp] theorem fail_log (c : Ctx) (f : Fault) : (c.fail f).log = c.log := by
  unfold Ctx.fail; cases c.err <;> rfl
@[simp] theorem fail_steps (c : Ctx) (f : Fault) : (c.fail f).steps = c.steps := by
  unfold Ctx.fail; cases c.err <;> rfl
theorem fail_err_ne (c : Ctx) (f : Fault) : (c.fail f).err ≠ none := by
  unfold Ctx.fail; cases h : c.err <;> simp [h]

@[simp] theorem setObj_get (c : Ctx) (i j : Nat) (o : Obj) :
    (c.setObj i o).heap.get j = if j = i then some o else c.heap.get j := by
  simp [Ctx.setObj, Heap.get_set]
@[simp] theorem setObj_phase (c : Ctx) (i : Nat) (o : Obj) : (c.setObj i o).phase = c.phase := rfl
@[simp] theorem setObj_pre (c : Ctx) (i : Nat) (o : Obj) : (c.setObj i o).pre = c.pre := rfl
@[simp] theorem setObj_rest (c : Ctx) (i : Nat) (o : Obj) : (c.setObj i o).rest = c.rest := rfl
@[simp] theorem setObj_rnt (c : Ctx) (i : Nat) (o : Obj) :
    (c.setObj i o).rootNeedsTrace = c.rootNeedsTrace := rfl
@[simp] theorem setObj_gray (c : Ctx) (i : Nat) (o : Obj) : (c.setObj i o).gray = c.gray := rfl
@[simp] theorem setObj_grayAgain (c : Ctx) (i : Nat) (o : Obj) :
    (c.setObj i o).grayAgain = c.grayAgain := rfl
@[simp] theorem setObj_metrics (c : Ctx) (i : Nat) (o : Obj) : (c.setObj i o).metrics = c.metrics := rfl
@[simp] theorem setObj_log (c : Ctx) (i : Nat) (o : Obj) : (c.setObj i o).log = c.log := rfl
@[simp] theorem setObj_steps (c : Ctx) (i : Nat) (o : Obj) : (c.setObj i o).steps = c.steps := rfl
@[simp] theorem setObj_err (c : Ctx) (i : Nat) (o : Obj) : (c.setObj i o).err = c.err := rfl

@[simp] theorem withMetrics_phase (c : Ctx) (f) : (c.withMetrics f).phase = c.phase := rfl
@[simp] theorem withMetrics_heap (c : Ctx) (f) : (c.withMetrics f).heap = c.heap := rfl
@[simp] theorem withMetrics_pre (c : Ctx) (f) : (c.withMetrics f).pre = c.pre := rfl
@[simp] theorem withMetrics_rest (c : Ctx) (f) : (c.withMetrics f).rest = c.rest := rfl
@[simp] theorem withMetrics_rnt (c : Ctx) (f) : (c.withMetrics f).rootNeedsTrace = c.rootNeedsTrace := rfl
@[simp] theorem withMetrics_gray (c : Ctx) (f) : (c.withMetrics f).gray = c.gray := rfl
@[simp] theorem withMetrics_grayAgain (c : Ctx) (f) : (c.withMetrics f).grayAgain = c.grayAgain := rfl
@[simp] theorem withMetrics_metrics (c : Ctx) (f) : (c.withMetrics f).metrics = f c.metrics := rfl
@[simp] theorem withMetrics_log (c : Ctx) (f) : (c.withMetrics f).log = c.log := rfl
@[simp] theorem withMetrics_steps (c : Ctx) (f) : (c.withMetrics f).steps = c.steps := rfl
@[simp] theorem withMetrics_err (c : Ctx) (f) : (c.withMetrics f).err = c.err := rfl

@[simp] theorem step_phase (c : Ctx) (ch) : (c.step ch).phase = c.phase := rfl
@[simp] theorem step_heap (c : Ctx) (ch) : (c.step ch).heap = c.heap := rfl
@[simp] theorem step_pre (c : Ctx) (ch) : (c.step ch).pre = c.pre := rfl
@[simp] theorem step_rest (c : Ctx) (ch) : (c.step ch).rest = c.rest := rfl
@[simp] theorem step_rnt (c : Ctx) (ch) : (c.step ch).rootNeedsTrace = c.rootNeedsTrace := rfl
@[simp] theorem step_gray (c : Ctx) (ch) : (c.step ch).gray = c.gray := rfl
@[simp] theorem step_grayAgain (c : Ctx) (ch) : (c.step ch).grayAgain = c.grayAgain := rfl
@[simp] theorem step_metrics (c : Ctx) (ch) : (c.step ch).metrics = c.metrics := rfl
@[simp] theorem step_log (c : Ctx) (ch) : (c.step ch).log = c.log := rfl
@[simp] theorem step_err (c : Ctx) (ch) : (c.step ch).err = c.err := rfl

@[simp] theorem emit_phase (c : Ctx) (e) : (c.emit e).phase = c.phase := rfl
@[simp] theorem emit_heap (c : Ctx) (e) : (c.emit e).heap = c.heap := rfl
@[simp] theorem emit_pre (c : Ctx) (e) : (c.emit e).pre = c.pre := rfl
@[simp] theorem emit_rest (c : Ctx) (e) : (c.emit e).rest = c.rest := rfl
@[simp] theorem emit_rnt (c : Ctx) (e) : (c.emit e).rootNeedsTrace = c.rootNeedsTrace := rfl
@[simp] theorem emit_gray (c : Ctx) (e) : (c.emit e).gray = c.gray := rfl
@[simp] theorem emit_grayAgain (c : Ctx) (e) : (c.emit e).grayAgain = c.grayAgain := rfl
@[simp] theorem emit_metrics (c : Ctx) (e) : (c.emit e).metrics = c.metrics := rfl
@[simp] theorem emit_log (c : Ctx) (e) : (c.emit e).log = e :: c.log := rfl
@[simp] theorem emit_steps (c : Ctx) (e) : (c.emit e).steps = c.steps := rfl
@[simp] theorem emit_err (c : Ctx) (e) : (c.emit e).err = c.err := rfl

/-- `trace` touches no object other than its target. -/
theorem trace_frame (c : Ctx) (t j : Nat) (hj : j ≠ t) : (c.trace t).heap.get j = c.heap.get j := by
  unfold Ctx.trace
  split
  · simp
  · split <;> (try rfl)
    split <;> split <;> (try split) <;> simp [hj]

theorem traceWeak_frame (c : Ctx) (t j : Nat) (hj : j ≠ t) :
    (c.traceWeak t).heap.get j = c.heap.get j := by
  unfold Ctx.traceWeak
  split
  · simp
  · split <;> simp [hj]

end Ctx
end GcArena

namespace GcArena
namespace Ctx

theorem trace_pre (c : Ctx) (t : Nat) : (c.trace t).pre = c.pre := by
  unfold Ctx.trace
  split
  · simp
  · split <;> (try rfl)
    split <;> split <;> (try split) <;> simp

theorem trace_rest (c : Ctx) (t : Nat) : (c.trace t).rest = c.rest := by
  unfold Ctx.trace
  split
  · simp
  · split <;> (try rfl)
    split <;> split <;> (try split) <;> simp

theorem trace_rnt (c : Ctx) (t : Nat) : (c.trace t).rootNeedsTrace = c.rootNeedsTrace := by
  unfold Ctx.trace
  split
  · simp
  · split <;> (try rfl)
    split <;> split <;> (try split) <;> simp

theorem traceWeak_pre (c : Ctx) (t : Nat) : (c.traceWeak t).pre = c.pre := by
  unfold Ctx.traceWeak
  split
  · simp
  · split <;> simp

theorem traceWeak_rest (c : Ctx) (t : Nat) : (c.traceWeak t).rest = c.rest := by
  unfold Ctx.traceWeak
  split
  · simp
  · split <;> simp

theorem traceWeak_rnt (c : Ctx) (t : Nat) : (c.traceWeak t).rootNeedsTrace = c.rootNeedsTrace := by
  unfold Ctx.traceWeak
  split
  · simp
  · split <;> simp

/-- Allocation is unaffected by tracing. -/
theorem trace_alloc (c : Ctx) (t j : Nat) :
    (∃ o, (c.trace t).heap.get j = some o) ↔ ∃ o, c.heap.get j = some o := by
  by_cases hj : j = t
  · subst hj
    unfold Ctx.trace
    split
    · simp
    · rename_i ot hot
      split <;> (try simp [hot])
      split <;> split <;> (try split) <;> simp
  · rw [trace_frame c t j hj]

theorem traceWeak_alloc (c : Ctx) (t j : Nat) :
    (∃ o, (c.traceWeak t).heap.get j = some o) ↔ ∃ o, c.heap.get j = some o := by
  by_cases hj : j = t
  · subst hj
    unfold Ctx.traceWeak
    split
    · simp
    · rename_i ot hot
      split <;> simp [hot]
  · rw [traceWeak_frame c t j hj]

end Ctx
end GcArena
