import GcArena.Proofs.StepOps
/-!
  `inv_step`, `inv_run`: the invariant is preserved by every API-level operation and hence holds
  in every state reachable by any operation sequence (while the arena exists).
-/
namespace GcArena

theorem stepBody_inv {a : Arena} (h : Inv a) (hm : a.marked = false) (fin : Bool)
    (hfin : fin = true → a.ctx.phase = .mark ∧ a.cb = none) (op : Op)
    (halive : (a.stepBody fin op).1.alive = true) : Inv (a.stepBody fin op).1 := by
  cases op with
  | setPacing p => exact sb_setPacing h hm fin hfin p
  | adjustDebt x => exact sb_adjustDebt h hm fin hfin x
  | collect m k f o => exact sb_collect h hm fin m k f o
  | enter k => exact sb_enter h hm fin (fun hf => (hfin hf).1) k
  | leave => exact sb_leave h hm fin
  | alloc nt slots => exact sb_alloc h hm fin nt slots
  | readRoot i => exact sb_readRoot h fin i
  | read p i => exact sb_read h fin p i
  | downgrade p => exact sb_downgrade h fin p
  | upgrade w => exact sb_upgrade h fin w
  | isDropped w => exact sb_isDropped h fin w
  | isDead p => exact sb_isDead h fin p
  | resurrect p => exact sb_resurrect h hm fin p
  | barrier b => exact sb_barrier h hm fin b
  | store path p i v => exact sb_store h hm fin path p i v
  | rootStore i v => exact sb_rootStore h hm fin i v
  | dropArena =>
    simp only [Arena.stepBody] at halive ⊢
    split
    · exact h
    · rename_i hcb; simp only [hcb] at halive; simp at halive

/-- Every operation preserves the invariant for as long as the arena exists. -/
theorem inv_step {a : Arena} (h : Inv a) (op : Op) (halive : (a.step op).1.alive = true) :
    Inv (a.step op).1 := by
  have hnot : (!a.alive) = false := by rw [h.alive]; rfl
  unfold Arena.step at halive ⊢
  rw [hnot] at halive ⊢
  simp only [Bool.false_eq_true, if_false] at halive ⊢
  exact stepBody_inv h.unmark rfl a.marked h.markedMark op halive

/-- Run an operation sequence. -/
def Arena.run (a : Arena) : List Op → Arena
  | [] => a
  | op :: ops => Arena.run (a.step op).1 ops

theorem step_dead {a : Arena} (h : a.alive = false) (op : Op) : (a.step op).1 = a := by
  simp [Arena.step, h, Arena.bad]

theorem run_dead {a : Arena} (h : a.alive = false) (ops : List Op) : a.run ops = a := by
  induction ops with
  | nil => rfl
  | cons op ops ih => simp only [Arena.run, step_dead h, ih]

theorem inv_run_from (ops : List Op) : ∀ {a : Arena}, Inv a → (a.run ops).alive = true →
    Inv (a.run ops) := by
  induction ops with
  | nil => intro a h _; exact h
  | cons op ops ih =>
    intro a h hal
    simp only [Arena.run] at hal ⊢
    by_cases hs : (a.step op).1.alive = true
    · exact ih (inv_step h op hs) hal
    · have hd : (a.step op).1.alive = false := by simpa using hs
      rw [run_dead hd] at hal
      exact absurd hal hs

/-- The invariant holds in every state reachable from a fresh arena in which the arena still
    exists — for every operation sequence: every interleaving of mutator steps and collection
    calls, every `RunUntil` / `Stop`, every pacing and debt, every oracle, every fault position. -/
theorem inv_run (n : Nat) (ops : List Op) (halive : ((Arena.new n).run ops).alive = true) :
    Inv ((Arena.new n).run ops) :=
  inv_run_from ops (inv_init n) halive

end GcArena
