import GcArena.Proofs.Events
/-!
  Collector steps never change what the client can reach: across every enabled micro-step of
  `do_collection` (hence across every collection call) the strong-reachability relation and the
  "weakly held by something reachable" relation are the same before and after, in *both*
  directions.  Forward is `Persist` (Proofs/Events); backward is `Shrink`: no object gains a slot
  and nothing is allocated.
-/
namespace GcArena

/-- No object gains a slot across the step, and nothing is allocated. -/
def Shrink (c c' : Ctx) : Prop :=
  ∀ i o', c'.heap.get i = some o' → ∃ o, c.heap.get i = some o ∧ ∀ s, s ∈ o'.slots → s ∈ o.slots

theorem Shrink.refl (c : Ctx) : Shrink c c := fun _ o' h => ⟨o', h, fun _ hs => hs⟩

theorem Shrink.ofHeap {c c' : Ctx} (h : ∀ j, c'.heap.get j = c.heap.get j) : Shrink c c' :=
  fun i o' ho' => ⟨o', by rw [← h]; exact ho', fun _ hs => hs⟩

theorem Shrink.accessible_back {c c' : Ctx} {root temps} (hs : Shrink c c') {i : Nat}
    (ha : AccessibleC c' root temps i) : AccessibleC c root temps i := by
  induction ha with
  | root t ht => exact .root t ht
  | temp t ht => exact .temp t ht
  | edge i t _ e ih =>
    obtain ⟨o', ho', hs'⟩ := e
    obtain ⟨o, ho, hsub⟩ := hs i o' ho'
    exact .edge i t ih ⟨o, ho, hsub _ hs'⟩

theorem MarkFrame.shrink {c c' : Ctx} (f : MarkFrame c c') : Shrink c c' := by
  intro i o' ho'
  obtain ⟨o, ho⟩ := (f.alloc i).mp ⟨o', ho'⟩
  exact ⟨o, ho, fun s hs => by rw [← (f.live i o o' ho ho').2.1]; exact hs⟩

/-- What `sweep_one` does to the heap and the list, by the colour of the object under the cursor. -/
theorem sweepOne_cases {c : Ctx} {i : Nat} {rest' : List Nat} {o : Obj} (hr : c.rest = i :: rest')
    (ho : c.heap.get i = some o) :
    c.sweepOne.1.rest = rest' ∧ c.sweepOne.1.phase = c.phase ∧
    (∀ j, j ≠ i → c.sweepOne.1.heap.get j = c.heap.get j) ∧
    ((o.color = .white ∧ c.sweepOne.1.heap.get i = none ∧ c.sweepOne.1.pre = c.pre) ∨
     (o.color = .whiteWeak ∧ c.sweepOne.1.pre = c.pre ++ [i] ∧
        ∃ o', c.sweepOne.1.heap.get i = some o' ∧ o'.color = .white ∧ o'.live = false ∧
          ∀ s, s ∈ o'.slots → s ∈ o.slots) ∨
     (o.color = .black ∧ c.sweepOne.1.pre = c.pre ++ [i] ∧
        c.sweepOne.1.heap.get i = some { o with color := .white }) ∨
     (o.color = .gray ∧ c.sweepOne.1.pre = c.pre ∧ c.sweepOne.1.heap.get i = some o)) := by
  unfold Ctx.sweepOne
  simp only [hr, Ctx.step_heap, ho]
  cases hcol : o.color with
  | white =>
    simp only
    cases hl : o.live <;> simp [Heap.get_set]
    all_goals (intro j hj; simp [hj])
  | whiteWeak =>
    simp only
    cases hl : o.live <;> simp
    all_goals (intro j hj; simp [hj])
  | black =>
    simp
    intro j hj; simp [hj]
  | gray => simp [ho]

theorem sweepOne_shrink (c : Ctx) : Shrink c c.sweepOne.1 := by
  cases hr : c.rest with
  | nil => rw [sweepOne_end hr]; exact Shrink.ofHeap (fun _ => rfl)
  | cons i rest' =>
    cases ho : c.heap.get i with
    | none =>
      have : c.sweepOne.1.heap = c.heap := by
        unfold Ctx.sweepOne
        simp [hr, ho]
      exact Shrink.ofHeap (fun _ => by rw [this])
    | some o =>
      obtain ⟨_, _, hframe, hcases⟩ := sweepOne_cases hr ho
      intro j oj' hoj'
      by_cases hj : j = i
      · subst hj
        rcases hcases with ⟨_, hn, _⟩ | ⟨_, _, o', ho', _, _, hsub⟩ | ⟨_, _, hb⟩ | ⟨_, _, hg⟩
        · rw [hn] at hoj'; cases hoj'
        · rw [ho'] at hoj'; cases hoj'; exact ⟨o, ho, hsub⟩
        · rw [hb] at hoj'; cases hoj'; exact ⟨o, ho, fun _ hs => hs⟩
        · rw [hg] at hoj'; cases hoj'; exact ⟨o, ho, fun _ hs => hs⟩
      · rw [hframe j hj] at hoj'
        exact ⟨oj', hoj', fun _ hs => hs⟩

theorem micro_shrink {c c' : Ctx} {root} (h : CInv c root []) (m : Micro)
    (hs : c.micro root m = some c') : Shrink c c' := by
  cases m with
  | wake =>
    simp only [Ctx.micro] at hs
    split at hs
    · cases hs; exact Shrink.ofHeap (fun _ => rfl)
    · cases hs
  | markStep f =>
    simp only [Ctx.micro] at hs
    split at hs
    · cases hs; rename_i hp
      simp only [Bool.and_eq_true, decide_eq_true_eq] at hp
      exact (markOne_spec h hp.1 f).2.shrink
    · cases hs
  | markBreak =>
    simp only [Ctx.micro] at hs
    split at hs
    · cases hs; rename_i hp
      simp only [Bool.and_eq_true, decide_eq_true_eq] at hp
      exact (markOne_spec h hp.1 none).2.shrink
    · cases hs
  | toSweep =>
    simp only [Ctx.micro] at hs
    split at hs
    · cases hs; exact Shrink.ofHeap (fun _ => rfl)
    · cases hs
  | toSleep b =>
    simp only [Ctx.micro] at hs
    split at hs
    · cases hs; exact Shrink.ofHeap (fun _ => rfl)
    · cases hs
  | sweepStep =>
    simp only [Ctx.micro] at hs
    split at hs
    · cases hs; exact sweepOne_shrink c
    · cases hs
  | sweepEnd =>
    simp only [Ctx.micro] at hs
    split at hs
    · cases hs; exact sweepOne_shrink c
    · cases hs

/-! ### Weakly held -/

/-- A `GcWeak` to `i` is stored in the root or in a strongly reachable object. -/
def WeakHeld (c : Ctx) (root : List Slot) (i : Nat) : Prop :=
  some (Ptr.weak i) ∈ root ∨
    ∃ j oj, StrongReachC c root j ∧ c.heap.get j = some oj ∧ some (Ptr.weak i) ∈ oj.slots

/-- Both relations are the same before and after. -/
structure SameReach (c c' : Ctx) (root : List Slot) : Prop where
  reach : ∀ i, StrongReachC c' root i ↔ StrongReachC c root i
  weak : ∀ i, WeakHeld c' root i ↔ WeakHeld c root i

theorem SameReach.refl (c : Ctx) (root : List Slot) : SameReach c c root :=
  ⟨fun _ => Iff.rfl, fun _ => Iff.rfl⟩

theorem SameReach.trans {a b c : Ctx} {root} (h1 : SameReach a b root) (h2 : SameReach b c root) :
    SameReach a c root :=
  ⟨fun i => (h2.reach i).trans (h1.reach i), fun i => (h2.weak i).trans (h1.weak i)⟩

theorem sameReach_of {c c' : Ctx} {root} (h : CInv c root []) (hp : Persist c c') (hs : Shrink c c') :
    SameReach c c' root := by
  have hr : ∀ i, StrongReachC c' root i ↔ StrongReachC c root i :=
    fun i => ⟨fun ha => hs.accessible_back ha, fun ha => hp.accessible h ha⟩
  refine ⟨hr, fun i => ⟨?_, ?_⟩⟩
  · rintro (hw | ⟨j, oj', hj, hoj', hw⟩)
    · exact Or.inl hw
    · obtain ⟨oj, hoj, hsub⟩ := hs j oj' hoj'
      exact Or.inr ⟨j, oj, (hr j).mp hj, hoj, hsub _ hw⟩
  · rintro (hw | ⟨j, oj, hj, hoj, hw⟩)
    · exact Or.inl hw
    · obtain ⟨oj', hoj', hsl⟩ := hp j oj hoj (h.safe_of_accessible hj)
      exact Or.inr ⟨j, oj', (hr j).mpr hj, hoj', by rw [hsl]; exact hw⟩

theorem micro_sameReach {c c' : Ctx} {root} (h : CInv c root []) (m : Micro)
    (hs : c.micro root m = some c') : SameReach c c' root :=
  sameReach_of h (micro_persist h m hs) (micro_shrink h m hs)

theorem micros_sameReach {root} (ms : List Micro) : ∀ {c c' : Ctx}, CInv c root [] →
    c.micros root ms = some c' → SameReach c c' root := by
  induction ms with
  | nil => intro c c' _ hs; simp only [Ctx.micros] at hs; cases hs; exact SameReach.refl c root
  | cons m ms ih =>
    intro c c' h hs
    simp only [Ctx.micros] at hs
    cases hm : c.micro root m with
    | none => rw [hm] at hs; cases hs
    | some c1 =>
      rw [hm] at hs
      exact (micro_sameReach h m hm).trans (ih (micro_inv h m hm) hs)

theorem Reaches.sameReach {c c' : Ctx} {root} (r : Reaches c root c') (h : CInv c root []) :
    SameReach c c' root := by
  obtain ⟨ms, hs⟩ := r; exact micros_sameReach ms h hs

end GcArena
