import GcArena.Proofs.Barrier
import GcArena.Proofs.Collect
/-!
  `inv_init`, `inv_step`, `inv_run`: the invariant holds initially and is preserved by every
  API-level operation (every mutator step under its guard, every collection method with every
  `RunUntil` / `Stop` / debt outcome / oracle, every fault step).
-/
namespace GcArena

theorem CoverOK.frame {c c' : Ctx} (hph : c'.phase = c.phase)
    (hg : ∀ j, (∃ o, c.heap.get j = some o) → c'.heap.get j = c.heap.get j)
    {cv : Cover} (h : CoverOK c cv) : CoverOK c' cv := by
  cases cv with
  | parent p =>
    obtain ⟨ha, hc⟩ := h
    exact ⟨by rw [hg p ha]; exact ha, by rw [hph, hg p ha]; exact hc⟩
  | child ch =>
    obtain ⟨ha, hc⟩ := h
    exact ⟨by rw [hg ch ha]; exact ha, by rw [hph, hg ch ha]; exact hc⟩
  | weakChild ch =>
    obtain ⟨ha, hc⟩ := h
    exact ⟨by rw [hg ch ha]; exact ha, by rw [hph, hg ch ha]; exact hc⟩
  | pair p ch =>
    obtain ⟨ha, hb, hc⟩ := h
    exact ⟨by rw [hg p ha]; exact ha, by rw [hg ch hb]; exact hb, by rw [hph, hg p ha, hg ch hb]; exact hc⟩
  | weakPair p ch =>
    obtain ⟨ha, hb, hc⟩ := h
    exact ⟨by rw [hg p ha]; exact ha, by rw [hg ch hb]; exact hb, by rw [hph, hg p ha, hg ch hb]; exact hc⟩

/-- Replacing the slot list of an object does not disturb any barrier's guarantee. -/
theorem CoverOK.setSlots {c : Ctx} {p : Nat} {o : Obj} (ho : c.heap.get p = some o) (slots' : List Slot)
    {cv : Cover} (h : CoverOK c cv) : CoverOK (c.setObj p { o with slots := slots' }) cv := by
  have hget : ∀ j, (c.setObj p { o with slots := slots' }).heap.get j =
      if j = p then some { o with slots := slots' } else c.heap.get j := by intro j; simp
  have key : ∀ j (P : Obj → Prop), (∀ oj : Obj, P oj ↔ P { oj with slots := slots' }) →
      ((∀ oj, (c.setObj p { o with slots := slots' }).heap.get j = some oj → P oj) ↔
       (∀ oj, c.heap.get j = some oj → P oj)) := by
    intro j P hP
    rw [hget]
    by_cases hj : j = p
    · subst hj
      simp only [if_true, Option.some.injEq, forall_eq', ho]
      exact (hP o).symm
    · simp [hj]
  have alloc : ∀ j, (∃ oj, (c.setObj p { o with slots := slots' }).heap.get j = some oj) ↔
      (∃ oj, c.heap.get j = some oj) := by
    intro j
    rw [hget]
    by_cases hj : j = p
    · subst hj; simp [ho]
    · simp [hj]
  cases cv with
  | parent q =>
    obtain ⟨ha, hc⟩ := h
    refine ⟨(alloc q).mpr ha, fun hm => ?_⟩
    exact (key q (fun oj => oj.needsTrace = true → oj.color ≠ .black) (fun _ => Iff.rfl)).mpr (hc hm)
  | child ch =>
    obtain ⟨ha, hc⟩ := h
    refine ⟨(alloc ch).mpr ha, fun hm => ?_⟩
    exact (key ch (fun oj => oj.color = .gray ∨ oj.color = .black) (fun _ => Iff.rfl)).mpr (hc hm)
  | weakChild ch =>
    obtain ⟨ha, hc⟩ := h
    refine ⟨(alloc ch).mpr ha, fun hm => ?_⟩
    exact (key ch (fun oj => oj.color ≠ .white) (fun _ => Iff.rfl)).mpr (hc hm)
  | pair q ch =>
    obtain ⟨ha, hb, hc⟩ := h
    refine ⟨(alloc q).mpr ha, (alloc ch).mpr hb, fun hm => ?_⟩
    refine (key q (fun oj => oj.needsTrace = true → oj.color = .black →
      ∀ co, (c.setObj p { o with slots := slots' }).heap.get ch = some co →
        co.color = .gray ∨ co.color = .black) (fun _ => Iff.rfl)).mpr ?_
    intro oj hoj hnt hbl
    exact (key ch (fun co => co.color = .gray ∨ co.color = .black) (fun _ => Iff.rfl)).mpr
      (hc hm oj hoj hnt hbl)
  | weakPair q ch =>
    obtain ⟨ha, hb, hc⟩ := h
    refine ⟨(alloc q).mpr ha, (alloc ch).mpr hb, fun hm => ?_⟩
    refine (key q (fun oj => oj.needsTrace = true → oj.color = .black →
      ∀ co, (c.setObj p { o with slots := slots' }).heap.get ch = some co →
        co.color ≠ .white) (fun _ => Iff.rfl)).mpr ?_
    intro oj hoj hnt hbl
    exact (key ch (fun co => co.color ≠ .white) (fun _ => Iff.rfl)).mpr (hc hm oj hoj hnt hbl)

theorem inv_init (n : Nat) : Inv (Arena.new n) := by
  refine ⟨rfl, ?_, ?_, fun _ => rfl, ?_, ?_, ?_⟩
  · constructor <;> simp [Arena.new, Ctx.new, Metrics.new]
  · intro cv hcv; cases hcv
  · intro h; cases h
  · intro h; cases h
  · intro h; cases h

end GcArena

namespace GcArena

theorem Inv.unmark {a : Arena} (h : Inv a) : Inv { a with marked := false } :=
  ⟨h.alive, h.cinv, h.cover, h.cbTemps, h.finMark, h.rootCb, fun hm => by cases hm⟩

/-- Build `Inv` for an arena that differs from `a` in context / temps / cover only. -/
theorem Inv.update {a : Arena} (h : Inv a) {c : Ctx} {temps : List Ptr} {cover : List Cover}
    (hc : CInv c a.root temps) (hcov : ∀ cv, cv ∈ cover → CoverOK c cv)
    (hph : c.phase = a.ctx.phase) (hrnt : c.rootNeedsTrace = a.ctx.rootNeedsTrace)
    (hcb : a.cb = none → temps = []) :
    Inv { a with ctx := c, temps := temps, cover := cover, marked := false } :=
  ⟨h.alive, hc, hcov, hcb, fun hf => by rw [hph]; exact h.finMark hf,
   fun hr hm => by rw [hrnt]; exact h.rootCb hr (by rw [← hph]; exact hm), fun hm => by cases hm⟩

theorem Arena.push_spec (a : Arena) (p : Ptr) :
    (a.push p).ctx = a.ctx ∧ (a.push p).root = a.root ∧ (a.push p).cb = a.cb ∧
    (a.push p).cover = a.cover ∧ (a.push p).marked = a.marked ∧ (a.push p).alive = a.alive ∧
    (∀ q, q ∈ (a.push p).temps → q = p ∨ q ∈ a.temps) ∧ (∀ q, q ∈ a.temps → q ∈ (a.push p).temps) := by
  unfold Arena.push
  split
  · exact ⟨rfl, rfl, rfl, rfl, rfl, rfl, fun q hq => Or.inr hq, fun q hq => hq⟩
  · refine ⟨rfl, rfl, rfl, rfl, rfl, rfl, fun q hq => ?_, fun q hq => List.mem_cons_of_mem _ hq⟩
    simp only [List.mem_cons] at hq; exact hq

/-- Holding one more (valid) pointer. -/
theorem Inv.push {a : Arena} (h : Inv a) {p : Ptr} (hp : PtrOK a.ctx p) (hcb : a.cb ≠ none) :
    Inv (a.push p) := by
  obtain ⟨e1, e2, e3, e4, e5, e6, e7, _⟩ := a.push_spec p
  refine ⟨by rw [e6]; exact h.alive, ?_, by rw [e1, e4]; exact h.cover,
    fun hn => by rw [e3] at hn; exact absurd hn hcb, by rw [e1, e3]; exact h.finMark,
    by rw [e1, e3]; exact h.rootCb, by rw [e1, e3, e5]; exact h.markedMark⟩
  rw [e1, e2]
  apply h.cinv.withTemps
  intro q hq
  rcases e7 q hq with hq | hq
  · subst hq; exact hp
  · exact h.cinv.tempsOK q hq

theorem holds_iff (a : Arena) (p : Ptr) : a.holds p = true ↔ p ∈ a.temps := by
  simp [Arena.holds]

theorem Inv.ptrOK_of_holds {a : Arena} (h : Inv a) {p : Ptr} (hp : a.holds p = true) : PtrOK a.ctx p :=
  h.cinv.tempsOK p ((holds_iff a p).mp hp)

theorem Inv.slotOK_of_holds {a : Arena} (h : Inv a) {v : Slot} (hv : a.holdsSlot v = true) :
    ∀ q, v = some q → PtrOK a.ctx q := by
  intro q hq; subst hq; exact h.ptrOK_of_holds hv

theorem allocated_of_ptrOK {c : Ctx} {p : Ptr} (h : PtrOK c p) : ∃ o, c.heap.get p.target = some o := by
  cases p with
  | strong t => obtain ⟨o, ho, _⟩ := h; exact ⟨o, ho⟩
  | weak t => obtain ⟨o, ho, _⟩ := h; exact ⟨o, ho⟩

end GcArena
