import GcArena.Proofs.PtrRefine
import GcArena.Proofs.ProtRun
/-!
  The pointer-level `all` list (Model/PtrList) run alongside whole histories.

  `PList.micro` / `PList.micros`: the pointer statements of each collector micro-step.  The
  statement `sweep_prev = None` of the `sweep_one` call that finds the end of the list is taken
  together with the `Sweep → Sleep` switch that follows it in the same loop iteration of
  `do_collection` (nothing can run between the two), i.e. at `toSleep`.

  `PStep a op p p'`: `p'` is a pointer-level state after `op` was applied to the arena `a` coupled
  with `p` — `Context::link` for an allocation, nothing for other mutator operations, the pointer
  statements of *any* micro-step sequence that takes the context to its new value for a collection
  call.  `PRunFrom` threads it through a history.

  `rep_run_from`: along every history, every coupled pointer-level state represents the lists of
  the model (`Rep`) and is in the sweep mode iff the model is in the sweep phase.

  Two remarks on fidelity.
  * Placing `sweep_prev := None` at `toSleep` hides nothing for the driver loop itself:
    `doCollection_never_stops_at_e` / `selfdriven_run_never_stops_at_e` show that a self-driven
    `do_collection` never returns with `'e'` (the end-of-list `sweep_one`) as the newest step — the
    `'Z'` follows in the same iteration — so between the two statements no other pointer statement
    can run.  Only an oracle that cuts a logged call between `'e'` and `'Z'` could separate them, and
    the harness logs whole calls.
  * `PList.sweepOne` (Model/PtrList.lean) keeps an object — sets `sweep_prev := Some(sweep)` — in
    every arm where `remove` is false; `Context::sweep_one` has a `Gray` arm (`debug_assert!(false)`)
    that does not touch `sweep_prev`.  That arm is unreachable in every state satisfying the
    invariant (no gray object exists outside the mark phase: `CInv.grayQ` + `qMark`, used in
    `sweepOne_refines`), so the two agree on all reachable states.
-/
namespace GcArena

/-- The pointer statements of one collector micro-step taken in context `c`. -/
def PList.micro (p : PList) (c : Ctx) : Micro → PList
  | .toSweep => p.enterSweep
  | .sweepStep => (p.sweepOne c.isWhite).1
  | .toSleep _ => (p.sweepOne c.isWhite).1.endSweep
  | _ => p

def PList.micros (root : List Slot) : PList → Ctx → List Micro → PList
  | p, _, [] => p
  | p, c, m :: ms =>
    match c.micro root m with
    | some c' => PList.micros root (p.micro c m) c' ms
    | none => p

/-- `p` represents the lists of `c`, in the matching mode. -/
structure RepC (p : PList) (c : Ctx) : Prop where
  rep : Rep p c.pre c.rest
  mode : p.sweeping = true ↔ c.phase = .sweep

theorem micro_repC {c c' : Ctx} {root} {p : PList} (h : CInv c root []) (m : Micro)
    (hs : c.micro root m = some c') (r : RepC p c) : RepC (p.micro c m) c' := by
  have same : c'.pre = c.pre → c'.rest = c.rest → c'.phase = c.phase → RepC p c' :=
    fun e1 e2 e3 => ⟨by rw [e1, e2]; exact r.rep, by rw [e3]; exact r.mode⟩
  cases m with
  | wake =>
    simp only [Ctx.micro] at hs
    split at hs
    · cases hs; rename_i hp
      refine ⟨r.rep, ?_⟩
      constructor
      · intro hsw; have := r.mode.mp hsw; rw [hp] at this; cases this
      · intro hsw; simp [Ctx.switch] at hsw
    · cases hs
  | markStep f =>
    simp only [Ctx.micro] at hs
    split at hs
    · cases hs; rename_i hp
      simp only [Bool.and_eq_true, decide_eq_true_eq] at hp
      have fr := (markOne_spec h hp.1 f).2
      exact same fr.pre fr.rest fr.phase
    · cases hs
  | markBreak =>
    simp only [Ctx.micro] at hs
    split at hs
    · cases hs; rename_i hp
      simp only [Bool.and_eq_true, decide_eq_true_eq] at hp
      have fr := (markOne_spec h hp.1 none).2
      exact same fr.pre fr.rest fr.phase
    · cases hs
  | toSweep =>
    simp only [Ctx.micro] at hs
    split at hs
    · cases hs; rename_i hp
      simp only [Bool.and_eq_true, decide_eq_true_eq] at hp
      have hrn : c.rest = [] := h.restNil (by rw [hp.1]; simp)
      have hsw : p.sweeping = false := by
        cases hb : p.sweeping with
        | false => rfl
        | true => have := r.mode.mp hb; rw [hp.1] at this; cases this
      have hrep := r.rep
      rw [hrn] at hrep
      refine ⟨?_, ⟨fun _ => rfl, fun _ => rfl⟩⟩
      show Rep p.enterSweep c.enterSweep.pre c.enterSweep.rest
      have e1 : c.enterSweep.pre = [] := rfl
      have e2 : c.enterSweep.rest = c.pre := by simp [Ctx.enterSweep, Ctx.switch, hrn]
      rw [e1, e2]
      exact hrep.enterSweep hsw
    · cases hs
  | sweepStep =>
    simp only [Ctx.micro] at hs
    split at hs
    · cases hs; rename_i hp
      simp only [Bool.and_eq_true, decide_eq_true_eq, Bool.not_eq_true', List.isEmpty_eq_false_iff] at hp
      have hsw : p.sweeping = true := r.mode.mpr hp.1
      cases hr : c.rest with
      | nil => exact absurd hr hp.2
      | cons s rest' =>
        refine ⟨sweepOne_refines h hp.1 hsw r.rep s rest' hr, ?_⟩
        have hp' := (sweepOne_spec h hp.1).2
        constructor
        · intro _; exact hp'
        · intro _
          show (p.sweepOne c.isWhite).1.sweeping = true
          have : ∀ (q : PList) (rm : Nat → Bool), (q.sweepOne rm).1.sweeping = q.sweeping := by
            intro q rm
            unfold PList.sweepOne
            split
            · rfl
            · simp only
              split
              · split <;> rfl
              · rfl
          rw [this]; exact hsw
    · cases hs
  | sweepEnd =>
    simp only [Ctx.micro] at hs
    split at hs
    · cases hs; rename_i hp
      simp only [Bool.and_eq_true, decide_eq_true_eq, List.isEmpty_iff] at hp
      have e : c.sweepOne.1 = c.step 'e' := by rw [sweepOne_end hp.2]
      exact same (by rw [e]; rfl) (by rw [e]; rfl) (by rw [e]; rfl)
    · cases hs
  | toSleep b =>
    simp only [Ctx.micro] at hs
    split at hs
    · cases hs; rename_i hp
      simp only [Bool.and_eq_true, decide_eq_true_eq, List.isEmpty_iff] at hp
      have hsw : p.sweeping = true := r.mode.mpr hp.1
      have hrep := r.rep
      rw [hp.2] at hrep
      refine ⟨?_, ?_⟩
      · show Rep (p.sweepOne c.isWhite).1.endSweep (c.enterSleep b).pre (c.enterSleep b).rest
        have e1 : (c.enterSleep b).pre = c.pre := rfl
        have e2 : (c.enterSleep b).rest = [] := hp.2
        rw [e1, e2]
        exact (hrep.endSweep hsw c.isWhite).2
      · constructor
        · intro hx; simp [PList.micro, PList.endSweep] at hx
        · intro hx; simp [Ctx.enterSleep, Ctx.switch] at hx
    · cases hs

theorem micros_repC {root} (ms : List Micro) : ∀ {c c' : Ctx} {p : PList}, CInv c root [] →
    c.micros root ms = some c' → RepC p c → RepC (PList.micros root p c ms) c' := by
  induction ms with
  | nil => intro c c' p _ hs r; simp only [Ctx.micros] at hs; cases hs; exact r
  | cons m ms ih =>
    intro c c' p h hs r
    simp only [Ctx.micros] at hs
    cases hm : c.micro root m with
    | none => rw [hm] at hs; cases hs
    | some c1 =>
      rw [hm] at hs
      simp only [PList.micros, hm]
      exact ih (micro_inv h m hm) hs (micro_repC h m hm r)

/-- One operation of the history, at pointer level. -/
inductive PStep (a : Arena) (op : Op) (p : PList) : PList → Prop
  /-- a mutator operation that allocates nothing: no pointer statement -/
  | quiet : op.isMutator = true → (a.step op).1.ctx.pre = a.ctx.pre → PStep a op p p
  /-- an allocation: `Context::link` of the fresh id -/
  | link : op.isMutator = true → (a.step op).1.ctx.pre = a.ctx.heap.size :: a.ctx.pre →
      PStep a op p (p.link a.ctx.heap.size)
  /-- a collection call (or any other op that moves the context by collector micro-steps): the
      pointer statements of those steps -/
  | collect (ms : List Micro) : op.isMutator = false → a.ctx.micros a.root ms = some (a.step op).1.ctx →
      PStep a op p (PList.micros a.root p a.ctx ms)

/-- A pointer-level run coupled with the history `ops` from the arena `a`. -/
inductive PRunFrom : Arena → PList → List Op → PList → Prop
  | nil (a p) : PRunFrom a p [] p
  | cons {a p op p1 ops p'} : PStep a op p p1 → PRunFrom (a.step op).1 p1 ops p' →
      PRunFrom a p (op :: ops) p'

theorem step_repC {a : Arena} (h : Inv a) (op : Op) (hal : (a.step op).1.alive = true) {p p' : PList}
    (hs : PStep a op p p') (r : RepC p a.ctx) : RepC p' (a.step op).1.ctx := by
  cases hs with
  | quiet hop hpre =>
    have m := step_mutFacts h op hop
    have hph := (step_quiet h op hop).phase
    exact ⟨by rw [hpre, m.rest]; exact r.rep, by rw [hph]; exact r.mode⟩
  | link hop hpre =>
    have m := step_mutFacts h op hop
    have hph := (step_quiet h op hop).phase
    have hfresh : a.ctx.heap.size ∉ a.ctx.pre ++ a.ctx.rest := by
      intro hm
      obtain ⟨o, ho⟩ := (h.cinv.memAll _).mp hm
      have := Heap.lt_size_of_get _ _ _ ho
      omega
    refine ⟨by rw [hpre, m.rest]; exact r.rep.link _ hfresh, ?_⟩
    rw [hph]
    have : (p.link a.ctx.heap.size).sweeping = p.sweeping := by
      unfold PList.link
      simp only
      split <;> rfl
    rw [this]; exact r.mode
  | collect ms hop hms =>
    have hmut : ¬ op.isMutator = true := by rw [hop]; simp
    rcases step_kind h op hal with hk | rel
    · exact absurd hk hmut
    · by_cases hcb : a.cb = none
      · exact micros_repC ms (h.cinv0 hcb) hms r
      · -- inside a callback a collection call is rejected: the context does not move
        obtain ⟨ms', hms', hnil⟩ := rel.reach
        have := hnil hcb
        subst this
        simp only [Ctx.micros, Option.some.injEq] at hms'
        -- `ms` takes the context to itself; only `[]` can (every micro-step extends the step log)
        cases ms with
        | nil => simp only [PList.micros]; rw [← hms']; exact r
        | cons m ms =>
          exfalso
          simp only [Ctx.micros] at hms
          cases hm : a.ctx.micro a.root m with
          | none => rw [hm] at hms; cases hms
          | some c1 =>
            rw [hm] at hms
            obtain ⟨ch, e, _⟩ := micro_steps m hm
            have hlen : ∀ (ms : List Micro) (c c' : Ctx), c.micros a.root ms = some c' →
                c.steps.length ≤ c'.steps.length := by
              intro ms
              induction ms with
              | nil => intro c c' hs; simp only [Ctx.micros] at hs; cases hs; exact Nat.le_refl _
              | cons m ms ih =>
                intro c c' hs
                simp only [Ctx.micros] at hs
                cases hm' : c.micro a.root m with
                | none => rw [hm'] at hs; cases hs
                | some c2 =>
                  rw [hm'] at hs
                  obtain ⟨ch', e', _⟩ := micro_steps m hm'
                  have := ih c2 c' hs
                  rw [e'] at this
                  simp only [List.length_cons] at this
                  omega
            have h1 := hlen ms c1 _ hms
            rw [← hms', e] at h1
            simp only [List.length_cons] at h1
            omega

/-- Every op that keeps the arena alive has a pointer-level counterpart. -/
theorem pstep_exists {a : Arena} (h : Inv a) (op : Op) (hal : (a.step op).1.alive = true) (p : PList) :
    ∃ p', PStep a op p p' := by
  cases hop : op.isMutator with
  | true =>
    rcases (step_mutFacts h op hop).pre with hpre | ⟨hpre, _⟩
    · exact ⟨p, .quiet hop hpre⟩
    · exact ⟨_, .link hop hpre⟩
  | false =>
    rcases step_kind h op hal with hk | rel
    · rw [hk] at hop; cases hop
    · obtain ⟨ms, hms, _⟩ := rel.reach
      exact ⟨_, .collect ms hop hms⟩

theorem rep_run_from (ops : List Op) : ∀ (a : Arena) (p p' : PList), Inv a → (a.run ops).alive = true →
    RepC p a.ctx → PRunFrom a p ops p' → RepC p' (a.run ops).ctx := by
  induction ops with
  | nil => intro a p p' _ _ r hr; cases hr; exact r
  | cons op ops ih =>
    intro a p p' h hal r hr
    simp only [Arena.run] at hal ⊢
    have hal1 := alive_of_run_alive hal
    cases hr with
    | cons hs hrest =>
      exact ih _ _ _ (inv_step h op hal1) hal (step_repC h op hal1 hs r) hrest

theorem prun_exists (ops : List Op) : ∀ (a : Arena) (p : PList), Inv a → (a.run ops).alive = true →
    ∃ p', PRunFrom a p ops p' := by
  induction ops with
  | nil => intro a p _ _; exact ⟨p, .nil a p⟩
  | cons op ops ih =>
    intro a p h hal
    simp only [Arena.run] at hal
    have hal1 := alive_of_run_alive hal
    obtain ⟨p1, hs⟩ := pstep_exists h op hal1 p
    obtain ⟨p', hr⟩ := ih _ p1 (inv_step h op hal1) hal
    exact ⟨p', .cons hs hr⟩

theorem repC_init (n : Nat) : RepC PList.empty (Arena.new n).ctx :=
  ⟨Rep.empty, ⟨fun h => (by cases h), fun h => (by cases h)⟩⟩

/-! ### The self-driven loop never stops between `'e'` and `'Z'` -/

theorem markOne_head (c : Ctx) (root : List Slot) (f : Option Nat) :
    ∃ ch, ch ≠ 'e' ∧ (c.markOne root f).1.steps = ch :: c.steps := by
  unfold Ctx.markOne
  split
  · exact ⟨'g', by decide, by rw [markObj_steps]; rfl⟩
  · split
    · exact ⟨'g', by decide, by rw [markObj_steps]; rfl⟩
    · split
      · refine ⟨'r', by decide, ?_⟩
        split
        · show ((c.step 'r').traceSlots root).steps = _
          rw [traceSlots_steps]; rfl
        · show ((c.step 'r').traceSlots _).steps = _
          rw [traceSlots_steps]; rfl
      · exact ⟨'b', by decide, rfl⟩

theorem sweepOne_head_x {c : Ctx} {i : Nat} {r : List Nat} (hr : c.rest = i :: r) :
    c.sweepOne.1.steps = 'x' :: c.steps := by
  unfold Ctx.sweepOne
  rw [hr]
  simp only
  repeat' split
  all_goals simp [Ctx.step]

private theorem head_cons_ne {ch : Char} {l : List Char} (h : ch ≠ 'e') : (ch :: l).head? ≠ some 'e' := by
  simp [h]

/-- Whatever it is asked to do, the driver loop does not return right after the `sweep_one` call
    that found the end of the list: if the newest step was not `'e'` before, it is not afterwards. -/
theorem collectLoop_never_stops_at_e {root ru stop fault} (fuel : Nat) :
    ∀ (c : Ctx) (hs : Bool) (k : Nat), c.steps.head? ≠ some 'e' →
      (Ctx.collectLoop root ru stop fault fuel c hs k).1.steps.head? ≠ some 'e' := by
  induction fuel with
  | zero => intro c hs k h; exact h
  | succ fuel ih =>
    intro c hs k h
    unfold Ctx.collectLoop
    cases hp : c.phase with
    | drop => simpa using h
    | sleep =>
      simp only
      have h1 : (c.switch .mark).steps.head? ≠ some 'e' := by simp [Ctx.switch, Ctx.step]
      split
      · exact h1
      · exact ih _ _ _ h1
    | mark =>
      simp only
      obtain ⟨ch, hch, e⟩ := markOne_head c root (faultAt fault k)
      have h1 : (c.markOne root (faultAt fault k)).1.steps.head? ≠ some 'e' := by rw [e]; exact head_cons_ne hch
      generalize (if c.grayRemaining = true then k + 1 else k) = k'
      generalize c.markOne root (faultAt fault k) = r at h1
      obtain ⟨c1, flow⟩ := r
      simp only at h1 ⊢
      cases flow with
      | unwind => exact h1
      | «continue» =>
        simp only
        split
        · exact h1
        · exact ih _ _ _ h1
      | «break» =>
        simp only
        split
        · exact h1
        · have h2 : c1.enterSweep.steps.head? ≠ some 'e' := by simp [Ctx.enterSweep, Ctx.switch, Ctx.step]
          split
          · exact h2
          · exact ih _ _ _ h2
    | sweep =>
      simp only
      split
      · exact h
      · cases hr : c.rest with
        | nil =>
          rw [sweepOne_end hr]
          simp only
          have h2 : ((c.step 'e').enterSleep hs).steps.head? ≠ some 'e' := by
            simp [Ctx.enterSleep, Ctx.switch, Ctx.step]
          split
          · exact h2
          · split
            · split
              · exact h2
              · simpa using h2
            · split
              · exact h2
              · exact ih _ _ _ h2
        | cons i rest' =>
          have hne : c.rest ≠ [] := by rw [hr]; simp
          have hfl := sweepOne_flow hne
          have h1 : c.sweepOne.1.steps.head? ≠ some 'e' := by
            rw [sweepOne_head_x hr]; exact head_cons_ne (by decide)
          rw [show c.sweepOne = (c.sweepOne.1, c.sweepOne.2) from rfl, hfl]
          simp only
          split
          · exact h1
          · exact ih _ _ _ h1

theorem doCollection_never_stops_at_e (c : Ctx) (root : List Slot) (ru : RunUntil) (stop : Stop)
    (fault : TraceFault) (h : c.steps.head? ≠ some 'e') :
    (c.doCollection root ru stop fault).1.steps.head? ≠ some 'e' := by
  unfold Ctx.doCollection
  split
  · exact h
  · exact collectLoop_never_stops_at_e _ _ _ _ h

theorem dropOne_steps (c : Ctx) (i : Nat) : (c.dropOne i).steps = c.steps := by
  unfold Ctx.dropOne
  split
  · simp
  · simp only; split <;> simp

theorem dropAll_steps (c : Ctx) : c.dropAll.steps = c.steps := by
  unfold Ctx.dropAll
  simp only
  have : ∀ (l : List Nat) (c0 : Ctx), (l.foldl Ctx.dropOne c0).steps = c0.steps := by
    intro l
    induction l with
    | nil => intro c0; rfl
    | cons i l ih => intro c0; simp only [List.foldl_cons]; rw [ih, dropOne_steps]
  rw [this]

/-- One API op whose collection call (if it is one) is self-driven keeps "the newest step is not
    `'e'`". -/
theorem step_never_stops_at_e {a : Arena} (hinv : a.alive = true → Inv a) (op : Op)
    (hself : ∀ m k f o, op = .collect m k f o → o = none)
    (h : a.ctx.steps.head? ≠ some 'e') : (a.step op).1.ctx.steps.head? ≠ some 'e' := by
  cases hal : a.alive with
  | false => rw [step_dead hal]; exact h
  | true =>
    have hi := hinv hal
    cases hop : op.isMutator with
    | true => rw [(step_mutFacts hi op hop).steps]; exact h
    | false =>
      have hnot : (!a.alive) = false := by rw [hal]; rfl
      unfold Arena.step
      rw [hnot]
      simp only [Bool.false_eq_true, if_false]
      cases op with
      | dropArena =>
        simp only [Arena.stepBody]
        split
        · exact h
        · show a.ctx.dropAll.steps.head? ≠ some 'e'
          rw [dropAll_steps]; exact h
      | collect m k f o =>
        have ho : o = none := hself m k f o rfl
        subst ho
        simp only [Arena.stepBody]
        split
        · exact h
        · simp only [Arena.splitOracle, Arena.runCollector]
          have h1 := doCollection_never_stops_at_e a.ctx a.root (Arena.methodArgs m).1 (Arena.methodArgs m).2 f h
          have mk : ∀ (b : Arena) (k : Cont), b.ctx.steps.head? ≠ some 'e' →
              (b.marked? k none).1.ctx.steps.head? ≠ some 'e' := by
            intro b k hb
            unfold Arena.marked?
            split
            · cases k with
              | drop => exact hb
              | finalize => exact hb
              | sweep =>
                simp only [Arena.startSweeping, Arena.runCollector]
                split
                · exact hb
                · rename_i c' hc'
                  split at hc'
                  · cases hc'; exact doCollection_never_stops_at_e _ _ _ _ _ hb
                  · cases hc'
            · exact hb
          split
          · exact h1
          · split
            · exact h1
            · cases m with
              | markDebt => exact mk _ k h1
              | finishMarking => exact mk _ k h1
              | collectDebt => exact h1
              | cycleDebt => exact h1
              | finishCycle => exact h1
      | _ => simp [Op.isMutator] at hop

/-- **In a history whose collection calls are all self-driven (`Context::do_collection` as written),
    no state at an operation boundary has the end-of-list `sweep_one` as its newest step**: the
    `Sweep → Sleep` switch always follows within the same call.  Hence no allocation, no callback and
    no other call can ever run between the pointer statement `sweep_prev = None` and that switch, and
    taking the two together (`PList.micro … (.toSleep _)`) loses nothing. -/
theorem selfdriven_run_never_stops_at_e (n : Nat) (ops : List Op)
    (hself : ∀ op, op ∈ ops → ∀ m k f o, op = .collect m k f o → o = none) :
    ((Arena.new n).run ops).ctx.steps.head? ≠ some 'e' := by
  have key : ∀ (ops : List Op) (a : Arena), (a.alive = true → Inv a) →
      (∀ op, op ∈ ops → ∀ m k f o, op = .collect m k f o → o = none) →
      a.ctx.steps.head? ≠ some 'e' → (a.run ops).ctx.steps.head? ≠ some 'e' := by
    intro ops
    induction ops with
    | nil => intro a _ _ h; exact h
    | cons op ops ih =>
      intro a hi hs h
      simp only [Arena.run]
      refine ih _ ?_ (fun o ho => hs o (List.mem_cons_of_mem _ ho))
        (step_never_stops_at_e hi op (hs op (by simp)) h)
      intro hal1
      have hal : a.alive = true := by
        cases hd : a.alive with
        | true => rfl
        | false => rw [step_dead hd] at hal1; rw [hd] at hal1; cases hal1
      exact inv_step (hi hal) op hal1
  exact key ops _ (fun _ => inv_init n) hself (by simp [Arena.new, Ctx.new])

end GcArena
