import GcArena.Proofs.PtrRefine
import GcArena.Proofs.ProtRun
/-!
  The pointer-level `all` list (Model/PtrList) run alongside whole histories.

  `PList.micro` / `PList.micros`: the pointer statements of each collector micro-step.  The
  statement `sweep_prev = None` of the `sweep_one` call that finds the end of the list is taken
  together with the `Sweep → Sleep` switch that follows it in the same loop iteration of
  `do_collection` (nothing can run between the two), i.e. at `toSleep`.

  `PStep a op p p'`: `p'` is a pointer-level state after `op` was applied to the arena `a` coupled
  with `p` — `Context::link` for an allocation, nothing for other mutator operations, the pointer
  statements of *any* micro-step sequence that takes the context to its new value for a collection
  call.  `PRunFrom` threads it through a history.

  `rep_run_from`: along every history, every coupled pointer-level state represents the lists of
  the model (`Rep`) and is in the sweep mode iff the model is in the sweep phase.
-/
namespace GcArena

/-- The pointer statements of one collector micro-step taken in context `c`. -/
def PList.micro (p : PList) (c : Ctx) : Micro → PList
  | .toSweep => p.enterSweep
  | .sweepStep => (p.sweepOne c.isWhite).1
  | .toSleep _ => (p.sweepOne c.isWhite).1.endSweep
  | _ => p

def PList.micros (root : List Slot) : PList → Ctx → List Micro → PList
  | p, _, [] => p
  | p, c, m :: ms =>
    match c.micro root m with
    | some c' => PList.micros root (p.micro c m) c' ms
    | none => p

/-- `p` represents the lists of `c`, in the matching mode. -/
structure RepC (p : PList) (c : Ctx) : Prop where
  rep : Rep p c.pre c.rest
  mode : p.sweeping = true ↔ c.phase = .sweep

theorem micro_repC {c c' : Ctx} {root} {p : PList} (h : CInv c root []) (m : Micro)
    (hs : c.micro root m = some c') (r : RepC p c) : RepC (p.micro c m) c' := by
  have same : c'.pre = c.pre → c'.rest = c.rest → c'.phase = c.phase → RepC p c' :=
    fun e1 e2 e3 => ⟨by rw [e1, e2]; exact r.rep, by rw [e3]; exact r.mode⟩
  cases m with
  | wake =>
    simp only [Ctx.micro] at hs
    split at hs
    · cases hs; rename_i hp
      refine ⟨r.rep, ?_⟩
      constructor
      · intro hsw; have := r.mode.mp hsw; rw [hp] at this; cases this
      · intro hsw; simp [Ctx.switch] at hsw
    · cases hs
  | markStep f =>
    simp only [Ctx.micro] at hs
    split at hs
    · cases hs; rename_i hp
      simp only [Bool.and_eq_true, decide_eq_true_eq] at hp
      have fr := (markOne_spec h hp.1 f).2
      exact same fr.pre fr.rest fr.phase
    · cases hs
  | markBreak =>
    simp only [Ctx.micro] at hs
    split at hs
    · cases hs; rename_i hp
      simp only [Bool.and_eq_true, decide_eq_true_eq] at hp
      have fr := (markOne_spec h hp.1 none).2
      exact same fr.pre fr.rest fr.phase
    · cases hs
  | toSweep =>
    simp only [Ctx.micro] at hs
    split at hs
    · cases hs; rename_i hp
      simp only [Bool.and_eq_true, decide_eq_true_eq] at hp
      have hrn : c.rest = [] := h.restNil (by rw [hp.1]; simp)
      have hsw : p.sweeping = false := by
        cases hb : p.sweeping with
        | false => rfl
        | true => have := r.mode.mp hb; rw [hp.1] at this; cases this
      have hrep := r.rep
      rw [hrn] at hrep
      refine ⟨?_, ⟨fun _ => rfl, fun _ => rfl⟩⟩
      show Rep p.enterSweep c.enterSweep.pre c.enterSweep.rest
      have e1 : c.enterSweep.pre = [] := rfl
      have e2 : c.enterSweep.rest = c.pre := by simp [Ctx.enterSweep, Ctx.switch, hrn]
      rw [e1, e2]
      exact hrep.enterSweep hsw
    · cases hs
  | sweepStep =>
    simp only [Ctx.micro] at hs
    split at hs
    · cases hs; rename_i hp
      simp only [Bool.and_eq_true, decide_eq_true_eq, Bool.not_eq_true', List.isEmpty_eq_false_iff] at hp
      have hsw : p.sweeping = true := r.mode.mpr hp.1
      cases hr : c.rest with
      | nil => exact absurd hr hp.2
      | cons s rest' =>
        refine ⟨sweepOne_refines h hp.1 hsw r.rep s rest' hr, ?_⟩
        have hp' := (sweepOne_spec h hp.1).2
        constructor
        · intro _; exact hp'
        · intro _
          show (p.sweepOne c.isWhite).1.sweeping = true
          have : ∀ (q : PList) (rm : Nat → Bool), (q.sweepOne rm).1.sweeping = q.sweeping := by
            intro q rm
            unfold PList.sweepOne
            split
            · rfl
            · simp only
              split
              · split <;> rfl
              · rfl
          rw [this]; exact hsw
    · cases hs
  | sweepEnd =>
    simp only [Ctx.micro] at hs
    split at hs
    · cases hs; rename_i hp
      simp only [Bool.and_eq_true, decide_eq_true_eq, List.isEmpty_iff] at hp
      have e : c.sweepOne.1 = c.step 'e' := by rw [sweepOne_end hp.2]
      exact same (by rw [e]; rfl) (by rw [e]; rfl) (by rw [e]; rfl)
    · cases hs
  | toSleep b =>
    simp only [Ctx.micro] at hs
    split at hs
    · cases hs; rename_i hp
      simp only [Bool.and_eq_true, decide_eq_true_eq, List.isEmpty_iff] at hp
      have hsw : p.sweeping = true := r.mode.mpr hp.1
      have hrep := r.rep
      rw [hp.2] at hrep
      refine ⟨?_, ?_⟩
      · show Rep (p.sweepOne c.isWhite).1.endSweep (c.enterSleep b).pre (c.enterSleep b).rest
        have e1 : (c.enterSleep b).pre = c.pre := rfl
        have e2 : (c.enterSleep b).rest = [] := hp.2
        rw [e1, e2]
        exact (hrep.endSweep hsw c.isWhite).2
      · constructor
        · intro hx; simp [PList.micro, PList.endSweep] at hx
        · intro hx; simp [Ctx.enterSleep, Ctx.switch] at hx
    · cases hs

theorem micros_repC {root} (ms : List Micro) : ∀ {c c' : Ctx} {p : PList}, CInv c root [] →
    c.micros root ms = some c' → RepC p c → RepC (PList.micros root p c ms) c' := by
  induction ms with
  | nil => intro c c' p _ hs r; simp only [Ctx.micros] at hs; cases hs; exact r
  | cons m ms ih =>
    intro c c' p h hs r
    simp only [Ctx.micros] at hs
    cases hm : c.micro root m with
    | none => rw [hm] at hs; cases hs
    | some c1 =>
      rw [hm] at hs
      simp only [PList.micros, hm]
      exact ih (micro_inv h m hm) hs (micro_repC h m hm r)

/-- One operation of the history, at pointer level. -/
inductive PStep (a : Arena) (op : Op) (p : PList) : PList → Prop
  /-- a mutator operation that allocates nothing: no pointer statement -/
  | quiet : op.isMutator = true → (a.step op).1.ctx.pre = a.ctx.pre → PStep a op p p
  /-- an allocation: `Context::link` of the fresh id -/
  | link : op.isMutator = true → (a.step op).1.ctx.pre = a.ctx.heap.size :: a.ctx.pre →
      PStep a op p (p.link a.ctx.heap.size)
  /-- a collection call (or any other op that moves the context by collector micro-steps): the
      pointer statements of those steps -/
  | collect (ms : List Micro) : op.isMutator = false → a.ctx.micros a.root ms = some (a.step op).1.ctx →
      PStep a op p (PList.micros a.root p a.ctx ms)

/-- A pointer-level run coupled with the history `ops` from the arena `a`. -/
inductive PRunFrom : Arena → PList → List Op → PList → Prop
  | nil (a p) : PRunFrom a p [] p
  | cons {a p op p1 ops p'} : PStep a op p p1 → PRunFrom (a.step op).1 p1 ops p' →
      PRunFrom a p (op :: ops) p'

theorem step_repC {a : Arena} (h : Inv a) (op : Op) (hal : (a.step op).1.alive = true) {p p' : PList}
    (hs : PStep a op p p') (r : RepC p a.ctx) : RepC p' (a.step op).1.ctx := by
  cases hs with
  | quiet hop hpre =>
    have m := step_mutFacts h op hop
    have hph := (step_quiet h op hop).phase
    exact ⟨by rw [hpre, m.rest]; exact r.rep, by rw [hph]; exact r.mode⟩
  | link hop hpre =>
    have m := step_mutFacts h op hop
    have hph := (step_quiet h op hop).phase
    have hfresh : a.ctx.heap.size ∉ a.ctx.pre ++ a.ctx.rest := by
      intro hm
      obtain ⟨o, ho⟩ := (h.cinv.memAll _).mp hm
      have := Heap.lt_size_of_get _ _ _ ho
      omega
    refine ⟨by rw [hpre, m.rest]; exact r.rep.link _ hfresh, ?_⟩
    rw [hph]
    have : (p.link a.ctx.heap.size).sweeping = p.sweeping := by
      unfold PList.link
      simp only
      split <;> rfl
    rw [this]; exact r.mode
  | collect ms hop hms =>
    have hmut : ¬ op.isMutator = true := by rw [hop]; simp
    rcases step_kind h op hal with hk | rel
    · exact absurd hk hmut
    · by_cases hcb : a.cb = none
      · exact micros_repC ms (h.cinv0 hcb) hms r
      · -- inside a callback a collection call is rejected: the context does not move
        obtain ⟨ms', hms', hnil⟩ := rel.reach
        have := hnil hcb
        subst this
        simp only [Ctx.micros, Option.some.injEq] at hms'
        -- `ms` takes the context to itself; only `[]` can (every micro-step extends the step log)
        cases ms with
        | nil => simp only [PList.micros]; rw [← hms']; exact r
        | cons m ms =>
          exfalso
          simp only [Ctx.micros] at hms
          cases hm : a.ctx.micro a.root m with
          | none => rw [hm] at hms; cases hms
          | some c1 =>
            rw [hm] at hms
            obtain ⟨ch, e, _⟩ := micro_steps m hm
            have hlen : ∀ (ms : List Micro) (c c' : Ctx), c.micros a.root ms = some c' →
                c.steps.length ≤ c'.steps.length := by
              intro ms
              induction ms with
              | nil => intro c c' hs; simp only [Ctx.micros] at hs; cases hs; exact Nat.le_refl _
              | cons m ms ih =>
                intro c c' hs
                simp only [Ctx.micros] at hs
                cases hm' : c.micro a.root m with
                | none => rw [hm'] at hs; cases hs
                | some c2 =>
                  rw [hm'] at hs
                  obtain ⟨ch', e', _⟩ := micro_steps m hm'
                  have := ih c2 c' hs
                  rw [e'] at this
                  simp only [List.length_cons] at this
                  omega
            have h1 := hlen ms c1 _ hms
            rw [← hms', e] at h1
            simp only [List.length_cons] at h1
            omega

/-- Every op that keeps the arena alive has a pointer-level counterpart. -/
theorem pstep_exists {a : Arena} (h : Inv a) (op : Op) (hal : (a.step op).1.alive = true) (p : PList) :
    ∃ p', PStep a op p p' := by
  cases hop : op.isMutator with
  | true =>
    rcases (step_mutFacts h op hop).pre with hpre | ⟨hpre, _⟩
    · exact ⟨p, .quiet hop hpre⟩
    · exact ⟨_, .link hop hpre⟩
  | false =>
    rcases step_kind h op hal with hk | rel
    · rw [hk] at hop; cases hop
    · obtain ⟨ms, hms, _⟩ := rel.reach
      exact ⟨_, .collect ms hop hms⟩

theorem rep_run_from (ops : List Op) : ∀ (a : Arena) (p p' : PList), Inv a → (a.run ops).alive = true →
    RepC p a.ctx → PRunFrom a p ops p' → RepC p' (a.run ops).ctx := by
  induction ops with
  | nil => intro a p p' _ _ r hr; cases hr; exact r
  | cons op ops ih =>
    intro a p p' h hal r hr
    simp only [Arena.run] at hal ⊢
    have hal1 := alive_of_run_alive hal
    cases hr with
    | cons hs hrest =>
      exact ih _ _ _ (inv_step h op hal1) hal (step_repC h op hal1 hs r) hrest

theorem prun_exists (ops : List Op) : ∀ (a : Arena) (p : PList), Inv a → (a.run ops).alive = true →
    ∃ p', PRunFrom a p ops p' := by
  induction ops with
  | nil => intro a p _ _; exact ⟨p, .nil a p⟩
  | cons op ops ih =>
    intro a p h hal
    simp only [Arena.run] at hal
    have hal1 := alive_of_run_alive hal
    obtain ⟨p1, hs⟩ := pstep_exists h op hal1 p
    obtain ⟨p', hr⟩ := ih _ p1 (inv_step h op hal1) hal
    exact ⟨p', .cons hs hr⟩

theorem repC_init (n : Nat) : RepC PList.empty (Arena.new n).ctx :=
  ⟨Rep.empty, ⟨fun h => (by cases h), fun h => (by cases h)⟩⟩

end GcArena
