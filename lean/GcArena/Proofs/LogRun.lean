import GcArena.Proofs.LogInv
/-!
  The log invariant over whole histories: `linv_run` (every state of every run, including after
  the arena was dropped), and what `DropAll` leaves behind.
-/
namespace GcArena

theorem MarkFrame.quiet {c c' : Ctx} (f : MarkFrame c c') (hs : c'.heap.size = c.heap.size) : Quiet c c' :=
  Quiet.ofSame f.log f.phase
    (fun i o ho => by
      obtain ⟨o', ho'⟩ := (f.alloc i).mpr ⟨o, ho⟩
      exact ⟨o', ho', (f.live i o o' ho ho').1⟩) hs
    (fun i o' ho' => (f.alloc i).mp ⟨o', ho'⟩)

theorem micro_linv {c c' : Ctx} {root} (h : CInv c root []) (hl : LInv c) (m : Micro)
    (hs : c.micro root m = some c') : LInv c' := by
  cases m with
  | wake =>
    simp only [Ctx.micro] at hs
    split at hs
    · cases hs; exact hl.sameHeap rfl rfl
    · cases hs
  | markStep f =>
    simp only [Ctx.micro] at hs
    split at hs
    · cases hs; rename_i hp
      simp only [Bool.and_eq_true, decide_eq_true_eq] at hp
      exact hl.quiet ((markOne_spec h hp.1 f).2.quiet (Ctx.markOne_size _ _ _))
    · cases hs
  | markBreak =>
    simp only [Ctx.micro] at hs
    split at hs
    · cases hs; rename_i hp
      simp only [Bool.and_eq_true, decide_eq_true_eq] at hp
      exact hl.quiet ((markOne_spec h hp.1 none).2.quiet (Ctx.markOne_size _ _ _))
    · cases hs
  | toSweep =>
    simp only [Ctx.micro] at hs
    split at hs
    · cases hs; exact hl.sameHeap rfl rfl
    · cases hs
  | toSleep b =>
    simp only [Ctx.micro] at hs
    split at hs
    · cases hs; exact hl.sameHeap rfl rfl
    · cases hs
  | sweepStep =>
    simp only [Ctx.micro] at hs
    split at hs
    · cases hs; exact hl.sweepOne h
    · cases hs
  | sweepEnd =>
    simp only [Ctx.micro] at hs
    split at hs
    · cases hs; exact hl.sweepOne h
    · cases hs

theorem micros_linv {root} (ms : List Micro) : ∀ {c c' : Ctx}, CInv c root [] → LInv c →
    c.micros root ms = some c' → LInv c' := by
  induction ms with
  | nil => intro c c' _ hl hs; cases hs; exact hl
  | cons m ms ih =>
    intro c c' h hl hs
    simp only [Ctx.micros] at hs
    cases hm : c.micro root m with
    | none => rw [hm] at hs; cases hs
    | some c1 =>
      rw [hm] at hs
      exact ih (micro_inv h m hm) (micro_linv h hl m hm) hs

theorem runCollector_linv {a : Arena} (h : Inv a) (hl : LInv a.ctx) (hcb : a.cb = none)
    {ru stop fault oracle c ex} (hr : a.runCollector ru stop fault oracle = some (c, ex)) : LInv c := by
  have h0 : CInv a.ctx a.root [] := by have := h.cinv; rw [h.cbTemps hcb] at this; exact this
  unfold Arena.runCollector at hr
  cases oracle with
  | none =>
    simp only [Option.some.injEq] at hr
    have hc : c = (a.ctx.doCollection a.root ru stop fault).1 := by rw [hr]
    rw [hc]
    obtain ⟨ms, hms⟩ := doCollection_reaches (ru := ru) (stop := stop) (fault := fault) h0
    exact micros_linv ms h0 hl hms
  | some ms =>
    simp only at hr
    split at hr
    · cases hr
    · rename_i c' hc'
      simp only [Option.some.injEq, Prod.mk.injEq] at hr
      rw [← hr.1]
      exact micros_linv ms h0 hl hc'

/-! ### `DropAll` -/

theorem dropOne_linv {c : Ctx} (hl : LInv c) {i : Nat} {o : Obj} (ho : c.heap.get i = some o) :
    LInv (c.dropOne i) := by
  apply hl.release ho
  · unfold Ctx.dropOne; simp only [ho]; cases hlv : o.live <;> simp
  · intro j; unfold Ctx.dropOne; simp only [ho]; cases hlv : o.live <;> simp [Heap.get_set]
  · unfold Ctx.dropOne; simp only [ho]; cases hlv : o.live <;> simp [Heap.size_set_of_get ho]

theorem dropOne_get (c : Ctx) (i j : Nat) (o : Obj) (ho : c.heap.get i = some o) :
    (c.dropOne i).heap.get j = if j = i then none else c.heap.get j := by
  unfold Ctx.dropOne; simp only [ho]; cases hlv : o.live <;> simp [Heap.get_set]

theorem dropOne_size (c : Ctx) (i : Nat) (o : Obj) (ho : c.heap.get i = some o) :
    (c.dropOne i).heap.size = c.heap.size := by
  unfold Ctx.dropOne; simp only [ho]; cases hlv : o.live <;> simp [Heap.size_set_of_get ho]

theorem dropOne_total (c : Ctx) (i : Nat) (o : Obj) (ho : c.heap.get i = some o) :
    (c.dropOne i).metrics.totalGcs = c.metrics.totalGcs - 1 ∧
    (c.dropOne i).metrics.underflow = (c.metrics.underflow || (c.metrics.totalGcs == 0)) := by
  unfold Ctx.dropOne; simp only [ho]; cases hlv : o.live <;> simp [Metrics.markGcFreed, Metrics.markGcDropped]

theorem dropList_spec (l : List Nat) : ∀ (c : Ctx), LInv c → l.Nodup → (∀ i, i ∈ l → ∃ o, c.heap.get i = some o) →
    l.length ≤ c.metrics.totalGcs → c.metrics.underflow = false →
    let c' := l.foldl Ctx.dropOne c
    LInv c' ∧ (∀ j, c'.heap.get j = if j ∈ l then none else c.heap.get j) ∧ c'.heap.size = c.heap.size ∧
    c'.metrics.totalGcs = c.metrics.totalGcs - l.length ∧ c'.metrics.underflow = false := by
  induction l with
  | nil => intro c hl _ _ _ hu; exact ⟨hl, fun _ => by simp, rfl, by simp, hu⟩
  | cons i l ih =>
    intro c hl hnd hall hlen hu
    simp only [List.foldl_cons]
    obtain ⟨o, ho⟩ := hall i (by simp)
    have hnd' := List.nodup_cons.mp hnd
    have h1 := dropOne_linv hl ho
    have hg1 := dropOne_get c i
    have ht1 := dropOne_total c i o ho
    simp only [List.length_cons] at hlen
    have hall' : ∀ j, j ∈ l → ∃ o, (c.dropOne i).heap.get j = some o := by
      intro j hj
      rw [hg1 j o ho]
      have : j ≠ i := fun he => hnd'.1 (he ▸ hj)
      simp only [this, if_false]
      exact hall j (List.mem_cons_of_mem _ hj)
    have hu1 : (c.dropOne i).metrics.underflow = false := by
      rw [ht1.2, hu]
      have : c.metrics.totalGcs ≠ 0 := by omega
      simp [this]
    obtain ⟨r1, r2, r3, r4, r5⟩ := ih (c.dropOne i) h1 hnd'.2 hall' (by rw [ht1.1]; omega) hu1
    refine ⟨r1, ?_, by rw [r3, dropOne_size c i o ho], by rw [r4, ht1.1]; simp only [List.length_cons]; omega, r5⟩
    intro j
    rw [r2 j, hg1 j o ho]
    by_cases hj : j = i
    · subst hj; simp
    · simp [hj]

/-- Dropping the arena — in any phase — destructs exactly the live values, releases every
    block, keeps the log duplicate-free and leaves the count at zero. -/
theorem dropAll_spec {c : Ctx} {root temps} (h : CInv c root temps) (hl : LInv c) :
    LInv c.dropAll ∧ (∀ j, c.dropAll.heap.get j = none) ∧ c.dropAll.metrics.totalGcs = 0 ∧
    c.dropAll.metrics.underflow = false ∧ c.dropAll.heap.size = c.heap.size := by
  have hall : ∀ i, i ∈ c.all → ∃ o, c.heap.get i = some o := fun i hi => (h.memAll i).mp hi
  have hlen : c.all.length ≤ c.metrics.totalGcs := by rw [h.count]; exact Nat.le_refl _
  have hl0 : LInv { c with phase := .drop } := hl.sameHeap rfl rfl
  obtain ⟨r1, r2, r3, r4, r5⟩ := dropList_spec c.all { c with phase := .drop } hl0 h.nodup hall hlen h.noUnderflow
  have hd : c.dropAll = { (c.all.foldl Ctx.dropOne { c with phase := .drop }) with pre := [], rest := [] } := rfl
  rw [hd]
  refine ⟨r1.sameHeap rfl rfl, ?_, ?_, r5, r3⟩
  · intro j
    show (c.all.foldl Ctx.dropOne { c with phase := .drop }).heap.get j = none
    rw [r2 j]
    by_cases hj : j ∈ c.all
    · simp [hj]
    · simp only [hj, if_false]
      cases hg : c.heap.get j with
      | none => rfl
      | some o => exact absurd ((h.memAll j).mpr ⟨o, hg⟩) hj
  · show (c.all.foldl Ctx.dropOne { c with phase := .drop }).metrics.totalGcs = 0
    rw [r4]
    show c.metrics.totalGcs - c.all.length = 0
    rw [h.count]; simp [Ctx.all]

end GcArena

namespace GcArena

theorem marked?_linv {a : Arena} (h : Inv a) (hl : LInv a.ctx) (hcb : a.cb = none)
    (k : Cont) (o2 : Option (List Micro)) : LInv (a.marked? k o2).1.ctx := by
  unfold Arena.marked?
  split
  · cases k with
    | drop => exact hl
    | finalize => exact hl
    | sweep =>
      simp only
      cases hss : a.startSweeping o2 with
      | none => exact hl
      | some c' =>
        simp only
        unfold Arena.startSweeping at hss
        cases hr2 : a.runCollector .stop .atSweep none o2 with
        | none => rw [hr2] at hss; cases hss
        | some res2 =>
          obtain ⟨c2, ex2⟩ := res2
          rw [hr2] at hss
          simp only at hss
          split at hss
          · cases hss; exact runCollector_linv h hl hcb hr2
          · cases hss
  · exact hl

theorem sb_collect_linv {a : Arena} (h : Inv a) (hl : LInv a.ctx) (hm : a.marked = false) (fin : Bool)
    (m : Method) (k : Cont) (fault : TraceFault) (oracle : Option (List Micro)) :
    LInv (a.stepBody fin (.collect m k fault oracle)).1.ctx := by
  simp only [Arena.stepBody]
  split
  · exact hl
  · rename_i hcb0
    have hcb : a.cb = none := by cases hc : a.cb <;> simp_all
    generalize Arena.splitOracle oracle k m = os
    cases hr : a.runCollector (Arena.methodArgs m).1 (Arena.methodArgs m).2 fault os.1 with
    | none => exact hl
    | some res =>
      obtain ⟨c, ex⟩ := res
      simp only
      have hc := runCollector_inv h hcb hr
      have hlc := runCollector_linv h hl hcb hr
      have ha := h.afterCollect hm hcb hc
      split
      · exact hlc
      · split
        · exact hlc
        · cases m with
          | markDebt => exact marked?_linv ha hlc hcb k os.2
          | finishMarking => exact marked?_linv ha hlc hcb k os.2
          | collectDebt => exact hlc
          | cycleDebt => exact hlc
          | finishCycle => exact hlc

/-- The log invariant is preserved by every operation, including dropping the arena. -/
theorem linv_step {a : Arena} (h : Inv a) (hl : LInv a.ctx) (op : Op) : LInv (a.step op).1.ctx := by
  cases hop : op.isMutator with
  | true => exact hl.quiet (step_quiet h op hop)
  | false =>
    have hnot : (!a.alive) = false := by rw [h.alive]; rfl
    unfold Arena.step
    rw [hnot]
    simp only [Bool.false_eq_true, if_false]
    cases op with
    | collect m k f o => exact sb_collect_linv h.unmark hl rfl a.marked m k f o
    | dropArena =>
      simp only [Arena.stepBody]
      split
      · exact hl
      · exact (dropAll_spec h.cinv hl).1
    | _ => simp [Op.isMutator] at hop

/-- In every state of every history — the arena alive or already dropped. -/
theorem linv_run (n : Nat) (ops : List Op) : LInv ((Arena.new n).run ops).ctx := by
  suffices ∀ (a : Arena), (a.alive = true → Inv a) → LInv a.ctx → LInv (a.run ops).ctx from
    this _ (fun _ => inv_init n) linv_new
  induction ops with
  | nil => intro a _ hl; exact hl
  | cons op ops ih =>
    intro a hi hl
    simp only [Arena.run]
    cases hal : a.alive with
    | false => rw [step_dead hal]; exact ih a (fun h => by rw [hal] at h; cases h) hl
    | true =>
      have h := hi hal
      exact ih _ (fun h' => inv_step h op h') (linv_step h hl op)

end GcArena

namespace GcArena

/-- The log is a monotone history: every operation only appends to it. -/
def LogExtends (c c' : Ctx) : Prop := ∃ evs, c'.log = evs ++ c.log

theorem LogExtends.refl (c : Ctx) : LogExtends c c := ⟨[], rfl⟩

theorem LogExtends.trans {a b c : Ctx} (h1 : LogExtends a b) (h2 : LogExtends b c) : LogExtends a c := by
  obtain ⟨e1, h1⟩ := h1; obtain ⟨e2, h2⟩ := h2
  exact ⟨e2 ++ e1, by rw [h2, h1, List.append_assoc]⟩

theorem dropOne_extends (c : Ctx) (i : Nat) : LogExtends c (c.dropOne i) := by
  unfold Ctx.dropOne
  split
  · exact ⟨[], by simp⟩
  · split
    · exact ⟨[.freed i, .dropped i], by simp⟩
    · exact ⟨[.freed i], by simp⟩

theorem dropList_extends (l : List Nat) : ∀ c : Ctx, LogExtends c (l.foldl Ctx.dropOne c) := by
  induction l with
  | nil => intro c; exact LogExtends.refl c
  | cons i l ih => intro c; exact (dropOne_extends c i).trans (ih _)

theorem runCollector_extends {a : Arena} (h : Inv a) (hcb : a.cb = none)
    {ru stop fault oracle c ex} (hr : a.runCollector ru stop fault oracle = some (c, ex)) :
    LogExtends a.ctx c := by
  have h0 : CInv a.ctx a.root [] := by have := h.cinv; rw [h.cbTemps hcb] at this; exact this
  unfold Arena.runCollector at hr
  cases oracle with
  | none =>
    simp only [Option.some.injEq] at hr
    have hc : c = (a.ctx.doCollection a.root ru stop fault).1 := by rw [hr]
    rw [hc]
    obtain ⟨ms, hms⟩ := doCollection_reaches (ru := ru) (stop := stop) (fault := fault) h0
    obtain ⟨⟨evs, hn, _⟩, _⟩ := micros_events ms h0 hms
    exact ⟨evs, hn⟩
  | some ms =>
    simp only at hr
    split at hr
    · cases hr
    · rename_i c' hc'
      simp only [Option.some.injEq, Prod.mk.injEq] at hr
      rw [← hr.1]
      obtain ⟨⟨evs, hn, _⟩, _⟩ := micros_events ms h0 hc'
      exact ⟨evs, hn⟩

theorem step_log_extends {a : Arena} (h : Inv a) (op : Op) : LogExtends a.ctx (a.step op).1.ctx := by
  cases hop : op.isMutator with
  | true => exact ⟨[], by simpa using (step_quiet h op hop).log⟩
  | false =>
    have hnot : (!a.alive) = false := by rw [h.alive]; rfl
    unfold Arena.step
    rw [hnot]
    simp only [Bool.false_eq_true, if_false]
    cases op with
    | dropArena =>
      simp only [Arena.stepBody]
      split
      · exact LogExtends.refl _
      · show LogExtends a.ctx a.ctx.dropAll
        obtain ⟨evs, he⟩ := dropList_extends a.ctx.all { a.ctx with phase := .drop }
        exact ⟨evs, he⟩
    | collect m k f o =>
      have hu := h.unmark
      simp only [Arena.stepBody]
      split
      · exact LogExtends.refl _
      · rename_i hcb0
        have hcb : a.cb = none := by cases hc : a.cb <;> simp_all
        generalize Arena.splitOracle o k m = os
        cases hr : ({ a with marked := false } : Arena).runCollector (Arena.methodArgs m).1 (Arena.methodArgs m).2 f os.1 with
        | none => exact LogExtends.refl _
        | some res =>
          obtain ⟨c, ex⟩ := res
          simp only
          have e1 : LogExtends a.ctx c := runCollector_extends hu hcb hr
          have hc := runCollector_inv hu hcb hr
          have ha := hu.afterCollect rfl hcb hc
          have mk : ∀ (k : Cont) (o2 : Option (List Micro)),
              LogExtends a.ctx (({ ({ a with marked := false } : Arena) with ctx := c, cover := [] } : Arena).marked? k o2).1.ctx := by
            intro k o2
            unfold Arena.marked?
            split
            · cases k with
              | drop => exact e1
              | finalize => exact e1
              | sweep =>
                simp only
                split
                · exact e1
                · rename_i c' hss
                  unfold Arena.startSweeping at hss
                  split at hss
                  · cases hss
                  · rename_i c2 ex2 hr2
                    split at hss
                    · cases hss
                      exact e1.trans (runCollector_extends ha hcb hr2)
                    · cases hss
            · exact e1
          split
          · exact e1
          · split
            · exact e1
            · cases m with
              | markDebt => exact mk k os.2
              | finishMarking => exact mk k os.2
              | collectDebt => exact e1
              | cycleDebt => exact e1
              | finishCycle => exact e1
    | _ => simp [Op.isMutator] at hop

theorem run_log_extends (ops : List Op) : ∀ (a : Arena), (a.alive = true → Inv a) →
    LogExtends a.ctx (a.run ops).ctx := by
  induction ops with
  | nil => intro a _; exact LogExtends.refl _
  | cons op ops ih =>
    intro a hi
    simp only [Arena.run]
    cases hal : a.alive with
    | false => rw [step_dead hal]; exact ih a (fun h => by rw [hal] at h; cases h)
    | true =>
      have h := hi hal
      exact (step_log_extends h op).trans (ih _ (fun h' => inv_step h op h'))

end GcArena
