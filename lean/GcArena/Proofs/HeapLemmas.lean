import GcArena.Model.Heap
/-! Algebra of `Heap.get` / `Heap.set` / `Heap.size`; everything else reasons through these. -/
namespace GcArena
namespace Heap

@[simp] theorem get_empty (i : Nat) : Heap.empty.get i = none := by
  simp [Heap.empty, Heap.get]

theorem get_of_size_le (h : Heap) (i : Nat) (hi : h.size ≤ i) : h.get i = none := by
  unfold Heap.get Heap.size at *
  simp [Array.getElem?_eq_none hi]

theorem lt_size_of_get (h : Heap) (i : Nat) (o : Obj) (hg : h.get i = some o) : i < h.size := by
  apply Classical.byContradiction
  intro hn
  rw [get_of_size_le h i (Nat.le_of_not_lt hn)] at hg
  cases hg

@[simp] theorem get_fresh (h : Heap) : h.get h.fresh = none :=
  get_of_size_le h _ (Nat.le_refl _)

theorem get_set (h : Heap) (i j : Nat) (v : Option Obj) :
    (h.set i v).get j = if j = i then v else h.get j := by
  unfold Heap.set Heap.get
  by_cases hi : i < h.cells.size
  · simp only [hi, if_true, Array.getElem?_setIfInBounds]
    by_cases hji : j = i
    · subst hji; simp
    · simp [hji, Ne.symm hji]
  · simp only [hi, if_false]
    rw [Array.getElem?_push, Array.getElem?_append]
    simp only [Array.size_append, Array.size_replicate, Array.getElem?_replicate]
    have hsz : h.cells.size + (i - h.cells.size) = i := by omega
    rw [hsz]
    by_cases hji : j = i
    · simp [hji]
    · simp only [hji, if_false]
      by_cases hj : j < h.cells.size
      · simp [hj]
      · simp only [hj, if_false]
        rw [Array.getElem?_eq_none (Nat.le_of_not_lt hj)]
        split <;> simp

theorem size_set (h : Heap) (i : Nat) (v : Option Obj) :
    (h.set i v).size = max h.size (i + 1) := by
  unfold Heap.set Heap.size
  by_cases hi : i < h.cells.size
  · simp only [hi, if_true, Array.size_setIfInBounds]; omega
  · simp only [hi, if_false, Array.size_push, Array.size_append, Array.size_replicate]; omega

theorem size_le_size_set (h : Heap) (i : Nat) (v : Option Obj) : h.size ≤ (h.set i v).size := by
  rw [size_set]; omega

@[simp] theorem get_set_self (h : Heap) (i : Nat) (v : Option Obj) : (h.set i v).get i = v := by
  simp [get_set]

theorem get_set_ne (h : Heap) (i j : Nat) (v : Option Obj) (hne : j ≠ i) :
    (h.set i v).get j = h.get j := by
  simp [get_set, hne]

end Heap
end GcArena
