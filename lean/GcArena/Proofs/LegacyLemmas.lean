import GcArena.Model.Legacy
import GcArena.Proofs.Collect
/-!
  What the pre-repair definitions of `Model/Legacy.lean` do in the two corners the repairs closed.
-/
namespace GcArena

/-- D5, generically: over the pre-repair debt test, a debt-driven call that sweeps the last
    allocation away returns right there — Sweeping, one step before the `Sweep → Sleep` switch —
    because an empty arena reports zero debt. -/
theorem doCollectionLegacy_sweep_last {c : Ctx} {root : List Slot} {stop : Stop} {fault : TraceFault}
    (hp : c.phase = .sweep) (hr : c.rest ≠ []) (hstop : ¬ stop ≤ Stop.atSweep)
    (hd : c.metrics.hasDebt = true) (he : c.sweepOne.1.metrics.totalGcs = 0) :
    c.doCollectionLegacy root .payDebt stop fault = (c.sweepOne.1, .returned) := by
  unfold Ctx.doCollectionLegacy
  simp only [hd, decide_true, Bool.not_true, Bool.and_false, Bool.false_eq_true, if_false]
  show Ctx.collectLoopLegacy root .payDebt stop fault (2 * c.fuelBound root + 7 + 1) c false 0 = _
  unfold Ctx.collectLoopLegacy
  simp only [hp, hstop, if_false]
  have hfl := sweepOne_flow hr
  rw [show c.sweepOne = (c.sweepOne.1, c.sweepOne.2) from rfl, hfl]
  simp only
  have hnd : c.sweepOne.1.metrics.hasDebt = false := by
    simp only [Metrics.hasDebt, decide_eq_false_iff_not]
    unfold Metrics.allocationDebt
    rw [if_pos he]; exact Rat.lt_irrefl
  simp [Ctx.debtBreakLegacy, hnd]

/-- D1, generically: the pre-repair `mark_gc_untraced` underflows exactly at `traced = 0`; the
    repaired one never touches the flag. -/
theorem markGcUntracedLegacy_underflow (m : Metrics) :
    m.markGcUntracedLegacy.underflow = (m.underflow || (m.traced == 0)) ∧
    m.markGcUntraced.underflow = m.underflow := ⟨rfl, rfl⟩

end GcArena
