import GcArena.Proofs.DynCompose
/-!
# DynReach — the DynamicRootSet slot table coupled with the collector, *general* system (C14)

Proofs/DynCompose.lean couples the two models using existing `GcArena.Op`s only, at the price of
restrictions (set pinned in a root slot, fixed capacity, `MarkedArena` window).  This file removes
them.  The set object may be referenced from anywhere (or nowhere); the slot list grows with the
table; a handle may be dropped in *any* arena state; a set is destroyed exactly when its object is
destructed; other arenas appear as an environment.

## The system (`GSys`, `GOp`, `GSys.step`, `GSys.run`)

`GSys` = an arena `a`, a slot-table state `d`, `loc : List (Option Nat)` (`loc[s] = some x`: set `s`
belongs to this arena and heap object `x` is its `Gc<Inner>`; `none`: set `s` belongs to another
arena), and the ghost list `dops` of DynRoots ops executed.

| `GOp`                 | slot-table side            | collector side                                                   |
|-----------------------|----------------------------|------------------------------------------------------------------|
| `newSet` (any callback) | `newSet`                 | `Op.alloc true []`; the pointer is held; the client stores it (or not) with ordinary ops |
| `stash s r` (callback holding the set pointer and `r`) | `stash s r` → index `i` | `Op.barrier (bb obj (some r))`; if `i` = current length: the slot list grows by one empty slot (`reslot`); `Op.store raw obj i (strong r)` |
| `clone h`             | `clone h`                  | —                                                                |
| `dropHandle h`, last handle of its slot | `dropHandle h` | slot `i` of the set object := `None` (`clearArena` = `Arena.setSlot`), in whatever state the arena is: any phase, inside or outside a callback, `MarkedArena` outstanding or not; `marked`, `cb`, temps, cover, colours, queues untouched |
| `dropHandle h`, other | `dropHandle h`             | —                                                                |
| `fetch s h` / `tryFetch` (callback holding the set pointer, own live handle) | same | `Op.read obj h.index` |
| `contains s h`        | `contains`                 | —                                                                |
| `gc op`               | `destroySet s` for every set `s` of this arena whose object `op` destructed (`sync`) | `op` — anything but a `store` into a set object (private field) — including `dropArena` |
| `envNewSet`, `envStash s r`, `envDestroy s` | the op, on a set of **another arena** | — |

Two transitions are not `Arena.step`s: growing the set object's slot list by an empty slot, and
clearing a slot.  Both are instances of `reslot` (replace the slot list of an undestructed object by
one holding no new pointer), and `inv_reslot` proves that this preserves the collector invariant
`Inv` in every state (from `setSlots_spec` / `CoverOK.setSlots` of the collector development).
`DynCompose.clear_net_outside` shows that in the pinned system the op-encoded drop has exactly the
effect `clearArena` has.  Consequently the arena of a `GSys` run is not `(Arena.new n).run ops`;
instead `Inv` is part of the relation and is proved preserved (`inv_step` for ops, `inv_reslot`).

## The coupling relation (`GCoupled`) and its preservation (`GCoupled.step`, `GCoupled.run`)

For every set of this arena that is alive in `d`: the arena exists, the set object is allocated,
undestructed, traced, and its slot list is exactly `table.map img` (`GCore.sets`); conversely a set
of this arena whose object is allocated and undestructed is alive in `d` (`GCoupled.live`, with
`bound` / `Mono`: ids are never reused, a destructed object never comes back) — together
`GCoupled.alive_iff`; hence a set object the client can reach belongs to an alive set
(`GCoupled.alive_of_accessible`), which is what lets the property theorems dispense with any
hypothesis about the slot-table state.  A set whose object is
destructed by a collection (or by the arena drop) is destroyed by `sync` in the same step, so the
relation never speaks about a destructed object.  The key frame fact is `step_rigid`: every op but a
store into `x` leaves the slot list of `x` alone for as long as `x` is allocated and undestructed —
reachable or not, whatever its colour (`micros_back`: backwards along collector micro-steps).

## What remains outside (stated, not hidden)

* One arena is modelled in detail; other arenas are environment ops on their own sets
  (`envNewSet`/`envStash`/`envDestroy`, and `clone`/`dropHandle` of their handles).  The theorems
  hold for the modelled arena whatever the environment does, hence for each arena in turn.
* Handle operations are atomic and happen between collector-model ops.  A handle dropped *during*
  a collection call (by the destructor of an object `i0` the sweep destructs) is represented by the
  history with the call split after that sweep step into two oracle-driven `collect` ops; that the
  clearing, which really happens in the middle of the sweep step, commutes with the step is
  `clear_commutes_sweepOne` (proved, for `i0` ≠ the set object; if the set object itself is being
  destructed the set is gone and nothing is cleared).  Not covered: the debt arithmetic of the
  split call (oracle-driven ops take no debt decisions) — irrelevant to the theorems here.
* **No dynamic tie of its own.**  `dynmodel` / `harness_dynroots` run the DynRoots model only, and
  the collector correspondence runs `GcArena.Op`s only; `GSys` is not executed against the crate.
  Its faithfulness to `src/dynamic_roots.rs` rests on reading (the table above, line by line against
  `stash` / `Drop` / `Clone` / `fetch` / `Collect for Inner`) plus the two component ties: the
  slot-table differential (C14) and the collector correspondence (C01–C11).
* Trusted as before: `ref_count` does not overflow; `Weak::as_ptr` of a dropped `Rc` never equals
  `Rc::as_ptr` of a live one (set ids are never reused).
-/
namespace GcArena.DynReach
open GcArena GcArena.DynCompose
open GcArena.DynRoots (Handle RootSet Slots State containsB)

/-! ## 1. Frame facts that need no reachability -/

/-- If `x` is allocated and undestructed after the step, it was so before, with the same slot list
and `needs_trace` flag.  (Holds for every collector micro-step, whatever the colour of `x`.) -/
def Back (x : Nat) (c c' : Ctx) : Prop :=
  ∀ o', c'.heap.get x = some o' → o'.live = true →
    ∃ o, c.heap.get x = some o ∧ o.live = true ∧ o'.slots = o.slots ∧ o'.needsTrace = o.needsTrace

theorem Back.refl (x : Nat) (c : Ctx) : Back x c c := fun o' h hl => ⟨o', h, hl, rfl, rfl⟩

theorem Back.trans {x : Nat} {a b c : Ctx} (h1 : Back x a b) (h2 : Back x b c) : Back x a c := by
  intro o2 ho2 hl2
  obtain ⟨o1, ho1, hl1, s1, n1⟩ := h2 o2 ho2 hl2
  obtain ⟨o0, ho0, hl0, s0, n0⟩ := h1 o1 ho1 hl1
  exact ⟨o0, ho0, hl0, s1.trans s0, n1.trans n0⟩

theorem Back.ofGet {x : Nat} {c c' : Ctx} (h : c'.heap.get x = c.heap.get x) : Back x c c' :=
  fun o' ho' hl => ⟨o', by rw [← h]; exact ho', hl, rfl, rfl⟩

theorem back_of_rc {c c' : Ctx} (h : RC c c') (x : Nat) : Back x c c' := by
  intro o' ho' hl
  rcases h x with e | ⟨o, col, ho, ho1⟩
  · exact ⟨o', by rw [← e]; exact ho', hl, rfl, rfl⟩
  · rw [ho1] at ho'; cases ho'
    exact ⟨o, ho, hl, rfl, rfl⟩

theorem sweepOne_back (c : Ctx) (x : Nat) : Back x c c.sweepOne.1 := by
  cases hr : c.rest with
  | nil => rw [sweepOne_end hr]; exact Back.ofGet rfl
  | cons i rest' =>
    cases ho : c.heap.get i with
    | none =>
      have : c.sweepOne.1.heap = c.heap := by
        unfold Ctx.sweepOne
        simp [hr, ho]
      exact Back.ofGet (by rw [this])
    | some o =>
      obtain ⟨_, _, hframe, hcases⟩ := sweepOne_cases hr ho
      by_cases hx : x = i
      · subst hx
        intro o' ho' hl'
        rcases hcases with ⟨_, hn, _⟩ | ⟨_, _, o2, ho2, _, hd, _⟩ | ⟨_, _, hb⟩ | ⟨_, _, hg⟩
        · rw [hn] at ho'; cases ho'
        · rw [ho2] at ho'; cases ho'; rw [hd] at hl'; cases hl'
        · rw [hb] at ho'; cases ho'; exact ⟨o, ho, hl', rfl, rfl⟩
        · rw [hg] at ho'; cases ho'; exact ⟨o, ho, hl', rfl, rfl⟩
      · exact Back.ofGet (hframe x hx)

theorem micro_back {c c' : Ctx} {root} (m : Micro) (hs : c.micro root m = some c') (x : Nat) :
    Back x c c' := by
  cases m <;> simp only [Ctx.micro] at hs <;> split at hs <;> cases hs <;>
    first
      | exact Back.ofGet rfl
      | exact back_of_rc (rc_markOne _ _ _) x
      | exact sweepOne_back c x

theorem micros_back {root} (ms : List Micro) : ∀ {c c' : Ctx}, c.micros root ms = some c' →
    ∀ x, Back x c c' := by
  induction ms with
  | nil => intro c c' hs x; simp only [Ctx.micros] at hs; cases hs; exact Back.refl x c
  | cons m ms ih =>
    intro c c' hs x
    simp only [Ctx.micros] at hs
    cases hm : c.micro root m with
    | none => rw [hm] at hs; cases hs
    | some c1 =>
      rw [hm] at hs
      exact (micro_back m hm x).trans (ih hs x)

/-- `x`, if it is still allocated and undestructed afterwards, has the slot list and `needs_trace`
flag it had before. -/
def Rigid (x : Nat) (c c' : Ctx) : Prop :=
  ∀ o o', c.heap.get x = some o → c'.heap.get x = some o' → o'.live = true →
    o.live = true ∧ o'.slots = o.slots ∧ o'.needsTrace = o.needsTrace

theorem Back.rigid {x : Nat} {c c' : Ctx} (h : Back x c c') : Rigid x c c' := by
  intro o o' ho ho' hl
  obtain ⟨o0, ho0, hl0, s, n⟩ := h o' ho' hl
  rw [ho] at ho0; cases ho0
  exact ⟨hl0, s, n⟩

theorem rigid_of_keepAt {x : Nat} {c c' : Ctx} (h : KeepAt x c c') : Rigid x c c' := by
  intro o o' ho ho' hl
  obtain ⟨o1, ho1, s, n, l⟩ := h o ho
  rw [ho'] at ho1; cases ho1
  exact ⟨by rw [← l]; exact hl, s, n⟩

/-- Every op except `dropArena` and a `store` into `x`: `x` keeps its slot list for as long as it is
allocated and undestructed — reachable or not, whatever its colour. -/
theorem step_rigid {a : Arena} (h : Inv a) (op : Op) (hda : op ≠ .dropArena) (x : Nat)
    (hst : ∀ path i v, op ≠ .store path x i v) :
    Rigid x a.ctx (a.step op).1.ctx ∧ (a.step op).1.alive = true := by
  cases hop : op.isMutator with
  | true =>
    have hnot : (!a.alive) = false := by rw [h.alive]; rfl
    unfold Arena.step
    rw [hnot]
    simp only [Bool.false_eq_true, if_false]
    have := stepBody_fr ({ a with marked := false } : Arena) a.marked op hop
    exact ⟨rigid_of_keepAt (this.keep x hst), by rw [this.alive]; exact h.alive⟩
  | false =>
    cases op with
    | collect m k f o =>
      have r := step_collect_rel h m k f o
      obtain ⟨ms, hms, _⟩ := r.reach
      exact ⟨(micros_back ms hms x).rigid, by rw [r.alive]; exact h.alive⟩
    | dropArena => exact absurd rfl hda
    | _ => simp [Op.isMutator] at hop

/-! ## 2. The one primitive that is not an `Arena.step`: replacing a slot list by one that holds no
new pointer -/

/-- Replace the slot list of object `x`.  Used only with a list that holds no pointer the old one
did not hold (`inv_reslot`): growing the list by an empty slot (`Vec::push` reallocating the slot
table inside the set object) and clearing a slot (`DynamicRoot::drop`). -/
def reslot (a : Arena) (x : Nat) (ss : List Slot) : Arena :=
  match a.ctx.heap.get x with
  | some o => { a with ctx := a.ctx.setObj x { o with slots := ss } }
  | none => a

theorem reslot_eq {a : Arena} {x : Nat} {o : Obj} (ho : a.ctx.heap.get x = some o) (ss : List Slot) :
    reslot a x ss = { a with ctx := a.ctx.setObj x { o with slots := ss } } := by
  simp [reslot, ho]

/-- Replacing the slot list of an undestructed object by one that holds no new pointer preserves the
collector invariant — in every phase, inside or outside callbacks, with or without a `MarkedArena`
outstanding; no barrier is needed. -/
theorem inv_reslot {a : Arena} (h : Inv a) {x : Nat} {o : Obj} (ho : a.ctx.heap.get x = some o)
    (hl : o.live = true) {ss : List Slot} (hsub : ∀ q, some q ∈ ss → some q ∈ o.slots) :
    Inv (reslot a x ss) := by
  rw [reslot_eq ho]
  have hc : CInv (a.ctx.setObj x { o with slots := ss }) a.root a.temps :=
    setSlots_spec h.cinv ho ss (fun q hq => .inl (hsub q hq)) (fun hd => by rw [hl] at hd; cases hd)
  exact ⟨h.alive, hc, fun cv hcv => CoverOK.setSlots ho ss (h.cover cv hcv), h.cbTemps,
    h.finMark, h.rootCb, h.markedMark⟩


/-! ### No resurrection: an id below the heap size never (re)gains an undestructed object -/

/-- The heap does not shrink, and an object that is allocated and undestructed afterwards at an id
that existed before was allocated and undestructed before. -/
def Mono (c c' : Ctx) : Prop :=
  c.heap.size ≤ c'.heap.size ∧
  ∀ x o', x < c.heap.size → c'.heap.get x = some o' → o'.live = true →
    ∃ o, c.heap.get x = some o ∧ o.live = true

theorem Mono.refl (c : Ctx) : Mono c c := ⟨Nat.le_refl _, fun _ o' _ h hl => ⟨o', h, hl⟩⟩

theorem Mono.trans {a b c : Ctx} (h1 : Mono a b) (h2 : Mono b c) : Mono a c := by
  refine ⟨Nat.le_trans h1.1 h2.1, fun x o2 hx ho2 hl2 => ?_⟩
  obtain ⟨o1, ho1, hl1⟩ := h2.2 x o2 (Nat.lt_of_lt_of_le hx h1.1) ho2 hl2
  exact h1.2 x o1 hx ho1 hl1

theorem mono_of_quiet {c c' : Ctx} (q : Quiet c c') : Mono c c' := by
  refine ⟨q.sizeLe, fun x o' hx ho' hl => ?_⟩
  rcases q.noNew x o' ho' with ⟨o, ho⟩ | ⟨hge, _⟩
  · obtain ⟨o2, ho2, hl2⟩ := q.keep x o ho
    rw [ho'] at ho2; cases ho2
    exact ⟨o, ho, by rw [← hl2]; exact hl⟩
  · omega

theorem mono_of_back {c c' : Ctx} (hb : ∀ x, Back x c c') (hs : c'.heap.size = c.heap.size) :
    Mono c c' := by
  refine ⟨by omega, fun x o' _ ho' hl => ?_⟩
  obtain ⟨o, ho, hl0, _⟩ := hb x o' ho' hl
  exact ⟨o, ho, hl0⟩

theorem micro_size' {c c' : Ctx} {root} (m : Micro) (hs : c.micro root m = some c') :
    c'.heap.size = c.heap.size := by
  cases m <;> simp only [Ctx.micro] at hs <;> split at hs <;> cases hs <;>
    first | rfl | exact Ctx.markOne_size _ _ _ | exact Ctx.sweepOne_size _

theorem micros_size' {root} (ms : List Micro) : ∀ {c c' : Ctx}, c.micros root ms = some c' →
    c'.heap.size = c.heap.size := by
  induction ms with
  | nil => intro c c' hs; simp only [Ctx.micros] at hs; cases hs; rfl
  | cons m ms ih =>
    intro c c' hs
    simp only [Ctx.micros] at hs
    cases hm : c.micro root m with
    | none => rw [hm] at hs; cases hs
    | some c1 => rw [hm] at hs; exact (ih hs).trans (micro_size' m hm)

/-- Every op except `dropArena`. -/
theorem step_mono {a : Arena} (h : Inv a) (op : Op) (hda : op ≠ .dropArena) :
    Mono a.ctx (a.step op).1.ctx := by
  cases hop : op.isMutator with
  | true => exact mono_of_quiet (step_quiet h op hop)
  | false =>
    cases op with
    | collect m k f o =>
      obtain ⟨ms, hms, _⟩ := (step_collect_rel h m k f o).reach
      exact mono_of_back (micros_back ms hms) (micros_size' ms hms)
    | dropArena => exact absurd rfl hda
    | _ => simp [Op.isMutator] at hop

theorem mono_setSlots {c : Ctx} {x : Nat} {o : Obj} (ho : c.heap.get x = some o) (ss : List Slot) :
    Mono c (c.setObj x { o with slots := ss }) := by
  refine ⟨by rw [Ctx.setObj_size ho]; exact Nat.le_refl _, fun y o' _ ho' hl => ?_⟩
  rw [Ctx.setObj_get] at ho'
  by_cases hy : y = x
  · subst hy; simp at ho'; subst ho'; exact ⟨o, ho, hl⟩
  · simp [hy] at ho'; exact ⟨o', ho', hl⟩

/-! ## 3. The general coupled system -/

/-- What `Collect for Slot` reports, as a slot of the collector model. -/
def img : DynRoots.Slot → Slot
  | .occupied r _ => some (.strong r)
  | .vacant _ => none

/-- `x` is allocated and its value has not been destructed (and the arena exists). -/
def objLive (a : Arena) (x : Nat) : Bool :=
  a.alive && (match a.ctx.heap.get x with | some o => o.live | none => false)

structure GSys where
  a : Arena
  d : State
  /-- `loc[s] = some x`: set `s` belongs to this arena and `x` is its set object (`Gc<Inner>`);
  `loc[s] = none`: set `s` belongs to some other arena (environment) -/
  loc : List (Option Nat)
  /-- ghost: the DynRoots-model ops executed so far -/
  dops : List DynRoots.Op
  deriving Repr

def GSys.init (n : Nat) : GSys := ⟨Arena.new n, State.init, [], []⟩

def GSys.doD (S : GSys) (op : DynRoots.Op) : GSys :=
  { S with d := DynRoots.next S.d op, dops := S.dops ++ [op] }

def GSys.doDs (S : GSys) (ops : List DynRoots.Op) : GSys := ops.foldl GSys.doD S

/-- Heap ids of this arena's set objects. -/
def GSys.ids (S : GSys) : List Nat := S.loc.filterMap id

/-- Collector-model ops a client can interleave: everything except a `store` into a set object
(`Inner.slots` is private to `dynamic_roots.rs`). -/
def GSys.allowed (S : GSys) : Op → Bool
  | .store _ p _ _ => !S.ids.contains p
  | _ => true

/-- Set `s` belongs to this arena and its set object has been destructed (swept, or the arena
dropped): `Inner::drop` has dropped the `Rc<RefCell<Slots>>`. -/
def GSys.gone (S : GSys) (s : Nat) : Bool :=
  match S.loc[s]? with
  | some (some x) => !objLive S.a x
  | _ => false

/-- `destroySet` for every set of this arena whose set object has been destructed. -/
def GSys.sync (S : GSys) : GSys :=
  S.doDs (((List.range S.loc.length).filter S.gone).map .destroySet)

/-- `stash`, collector side: `backward_barrier(set, Some(r))`; if `Slots::add` pushes (index = current
length) the set object's slot list grows by one empty slot; then the slot store, licensed by the
barrier's cover. -/
def stashArena (a : Arena) (x r idx : Nat) : Arena :=
  let a1 := (a.step (.barrier (.bb x (some r)))).1
  let a2 := match a1.ctx.heap.get x with
    | some o => if idx < o.slots.length then a1 else reslot a1 x (o.slots ++ [none])
    | none => a1
  (a2.step (.store .raw x idx (some (.strong r)))).1

/-- `DynamicRoot::drop` of the last handle of a slot, collector side: slot `i` of the set object :=
`None`.  No callback, no barrier, `marked` untouched. -/
def clearArena (a : Arena) (x i : Nat) : Arena := { a with ctx := Arena.setSlot a.ctx x i none }

inductive GOp where
  /-- `DynamicRootSet::new(mc)` inside any callback; the new set pointer is held by the callback,
  which may store it anywhere (or nowhere) with ordinary ops -/
  | newSet
  | stash (s r : Nat)
  | clone (h : Handle)
  | dropHandle (h : Handle)
  | fetch (s : Nat) (h : Handle)
  | tryFetch (s : Nat) (h : Handle)
  | contains (s : Nat) (h : Handle)
  /-- any collector-model op, followed by `destroySet` for every set whose object it destructed -/
  | gc (op : Op)
  /-- environment: a set is created in another arena -/
  | envNewSet
  /-- environment: another arena stashes (its own object `r`) into its own set `s` -/
  | envStash (s r : Nat)
  /-- environment: another arena's set `s` is destructed -/
  | envDestroy (s : Nat)
  deriving Repr, Inhabited

def GSys.fetchLike (S : GSys) (s : Nat) (h : Handle) (dop : DynRoots.Op) : GSys :=
  match S.loc[s]? with
  | some (some x) =>
    if S.a.alive && S.a.cb.isSome && S.a.holds (.strong x) && decide (h ∈ S.d.handles)
        && (S.d.liveSet s).isSome && containsB s h then
      ({ S with a := (S.a.step (.read x h.index)).1 } : GSys).doD dop
    else S.doD dop
  | _ => S.doD dop

def GSys.step (S : GSys) : GOp → GSys
  | .newSet =>
    if S.a.alive && S.a.cb.isSome then
      ({ S with a := (S.a.step (.alloc true [])).1,
                loc := S.loc ++ [some S.a.ctx.heap.fresh] } : GSys).doD .newSet
    else S
  | .stash s r =>
    match S.loc[s]?, S.d.liveSet s with
    | some (some x), some rs =>
      match rs.slots.add r with
      | .ok (_, idx) =>
        if S.a.alive && S.a.cb.isSome && S.a.holds (.strong x) && S.a.holds (.strong r) then
          ({ S with a := stashArena S.a x r idx } : GSys).doD (.stash s r)
        else S
      | .error _ => S
    | _, _ => S
  | .clone h => S.doD (.clone h)
  | .dropHandle h =>
    if h ∈ S.d.handles then
      match S.loc[h.set]?, S.d.liveSet h.set with
      | some (some x), some rs =>
        match rs.slots.slots[h.index]? with
        | some (.occupied _ 0) =>
          ({ S with a := clearArena S.a x h.index } : GSys).doD (.dropHandle h)
        | _ => S.doD (.dropHandle h)
      | _, _ => S.doD (.dropHandle h)
    else S
  | .fetch s h => S.fetchLike s h (.fetch s h)
  | .tryFetch s h => S.fetchLike s h (.tryFetch s h)
  | .contains s h => S.doD (.contains s h)
  | .gc op => if S.allowed op then ({ S with a := (S.a.step op).1 } : GSys).sync else S
  | .envNewSet => ({ S with loc := S.loc ++ [none] } : GSys).doD .newSet
  | .envStash s r => if S.loc[s]? = some none then S.doD (.stash s r) else S
  | .envDestroy s => if S.loc[s]? = some none then S.doD (.destroySet s) else S

def GSys.run (S : GSys) : List GOp → GSys
  | [] => S
  | op :: ops => GSys.run (S.step op) ops


/-! ## 4. The coupling relation of the general system -/

/-- `x` is allocated, undestructed, traced, and has exactly the slot list `ss`. -/
def IsSetObj (a : Arena) (x : Nat) (ss : List Slot) : Prop :=
  ∃ o, a.ctx.heap.get x = some o ∧ o.live = true ∧ o.needsTrace = true ∧ o.slots = ss

/-- **The coupling relation (general system).**  The slot-table side is a run of the DynRoots model;
the arena satisfies the collector invariant while it exists; and **for every set of this arena
that is alive in the DynRoots state** the arena exists and the set object is allocated,
undestructed, traced, and its slot list is *exactly* the image of the slot table: slot `i` is
`some (strong r)` if table slot `i` is `Occupied { root = r, .. }`, `none` if it is `Vacant` — same
length, no capacity.  Nothing is said about where the set object is referenced from. -/
structure GCore (S : GSys) : Prop where
  dyn : S.d = DynRoots.run State.init S.dops
  inv : S.a.alive = true → Inv S.a
  len : S.loc.length = S.d.sets.length
  sets : ∀ (s x : Nat) (rs : RootSet), S.loc[s]? = some (some x) → S.d.liveSet s = some rs →
    S.a.alive = true ∧ IsSetObj S.a x (rs.slots.slots.map img)
  distinct : ∀ (s s' x : Nat) (rs rs' : RootSet), S.loc[s]? = some (some x) →
    S.loc[s']? = some (some x) → S.d.liveSet s = some rs → S.d.liveSet s' = some rs' → s = s'

theorem GCore.init (n : Nat) : GCore (GSys.init n) :=
  ⟨rfl, fun _ => inv_init n, rfl, by simp [GSys.init], by simp [GSys.init]⟩

/-! ### list / table helpers -/

theorem image_some (x : DynRoots.Slot) : image (some x) = img x := by
  cases x <;> rfl

theorem map_img_get (l : List DynRoots.Slot) (i : Nat) :
    (l.map img)[i]? = if i < l.length then some (image l[i]?) else none := by
  rw [List.getElem?_map]
  by_cases hi : i < l.length
  · simp [hi, image_some]
  · simp [hi]

theorem map_img_ext {l l' : List DynRoots.Slot} (hlen : l'.length = l.length)
    (h : ∀ i : Nat, image l'[i]? = image l[i]?) : l'.map img = l.map img := by
  apply List.ext_getElem?
  intro i
  rw [map_img_get, map_img_get, hlen, h i]

theorem map_img_update {l l' : List DynRoots.Slot} {idx : Nat} {v : Slot} (hlen : l'.length = l.length)
    (h : ∀ i : Nat, image l'[i]? = if i = idx then v else image l[i]?) :
    l'.map img = (l.map img).set idx v := by
  apply List.ext_getElem?
  intro i
  rw [map_img_get, List.getElem?_set, map_img_get, hlen, h i]
  by_cases he : idx = i
  · subst he
    by_cases hi : idx < l.length <;> simp [hi]
  · have : ¬ i = idx := fun e => he e.symm
    simp [he, this]

theorem mem_map_img {sl : Slots} {p : Nat} :
    some (Ptr.strong p) ∈ sl.slots.map img ↔ p ∈ sl.traced := by
  unfold Slots.traced
  rw [List.mem_map, List.mem_filterMap]
  constructor
  · rintro ⟨x, hx, hi⟩
    refine ⟨x, hx, ?_⟩
    cases x with
    | vacant nf => simp [img] at hi
    | occupied r c => simp [img] at hi; subst hi; rfl
  · rintro ⟨x, hx, ht⟩
    refine ⟨x, hx, ?_⟩
    cases x with
    | vacant nf => simp [DynRoots.Slot.traced] at ht
    | occupied r c => simp [DynRoots.Slot.traced] at ht; subst ht; rfl

theorem liveSet_congr {d d' : State} {s : Nat} (h : d'.sets[s]? = d.sets[s]?) :
    d'.liveSet s = d.liveSet s := by
  unfold State.liveSet; rw [h]

/-- `Slots::add` either reuses a vacant slot or pushes. -/
theorem add_cases {sl0 sl : Slots} {r idx : Nat} (h : sl0.add r = .ok (sl, idx)) :
    (idx < sl0.slots.length ∧ sl.slots = sl0.slots.set idx (.occupied r 0)) ∨
    (idx = sl0.slots.length ∧ sl.slots = sl0.slots ++ [.occupied r 0]) := by
  unfold Slots.add at h
  split at h
  · dsimp only at h
    split at h
    · cases h
    · rename_i nf hv
      simp only [Except.ok.injEq, Prod.mk.injEq] at h
      obtain ⟨rfl, rfl⟩ := h
      exact .inl ⟨(List.getElem?_eq_some_iff.1 hv).1, rfl⟩
    · cases h
  · split at h
    · cases h
    · simp only [Except.ok.injEq, Prod.mk.injEq] at h
      obtain ⟨rfl, rfl⟩ := h
      exact .inr ⟨rfl, rfl⟩

theorem next_stash_eq {d : State} {s r idx : Nat} {rs : RootSet} {sl : Slots}
    (hl : d.liveSet s = some rs) (ha : rs.slots.add r = .ok (sl, idx)) :
    DynRoots.next d (.stash s r) =
      { sets := d.sets.set s { rs with slots := sl },
        handles := ⟨s, idx, r, d.nextStash⟩ :: d.handles, nextStash := d.nextStash + 1 } := by
  simp [DynRoots.next, DynRoots.step, hl, ha, DynRoots.State.withSlots]

/-- A `stash` touches no other set. -/
theorem next_stash_other (d : State) (s r s' : Nat) (hne : s' ≠ s) :
    (DynRoots.next d (.stash s r)).sets[s']? = d.sets[s']? := by
  cases hl : d.liveSet s with
  | none => simp [DynRoots.next, DynRoots.step, hl]
  | some rs =>
    cases ha : rs.slots.add r with
    | error f => simp [DynRoots.next, DynRoots.step, hl, ha]
    | ok res =>
      obtain ⟨sl, idx⟩ := res
      rw [next_stash_eq hl ha]
      exact List.getElem?_set_ne (fun e => hne e.symm)

theorem next_stash_len (d : State) (s r : Nat) :
    (DynRoots.next d (.stash s r)).sets.length = d.sets.length := by
  cases hl : d.liveSet s with
  | none => simp [DynRoots.next, DynRoots.step, hl]
  | some rs =>
    cases ha : rs.slots.add r with
    | error f => simp [DynRoots.next, DynRoots.step, hl, ha]
    | ok res =>
      obtain ⟨sl, idx⟩ := res
      rw [next_stash_eq hl ha]; simp

/-- `destroySet x` touches no other set, and never revives or alters a set. -/
theorem next_destroy_other (d : State) (x s : Nat) (hne : s ≠ x) :
    (DynRoots.next d (.destroySet x)).sets[s]? = d.sets[s]? := by
  cases hl : d.liveSet x with
  | none => simp [DynRoots.next, DynRoots.step, hl]
  | some rs =>
    have e : DynRoots.next d (.destroySet x) =
        { d with sets := d.sets.set x { rs with alive := false } } := by
      simp [DynRoots.next, DynRoots.step, hl]
    rw [e]
    exact List.getElem?_set_ne (fun e => hne e.symm)

theorem next_destroy_sub (d : State) (x s : Nat) (rs' : RootSet)
    (h : (DynRoots.next d (.destroySet x)).liveSet s = some rs') : d.liveSet s = some rs' := by
  by_cases hs : s = x
  · subst hs; rw [(next_destroy d s).2.1] at h; cases h
  · rw [liveSet_congr (next_destroy_other d x s hs)] at h; exact h

theorem next_destroy_handles (d : State) (x : Nat) :
    (DynRoots.next d (.destroySet x)).handles = d.handles := by
  unfold DynRoots.next
  simp only [DynRoots.step]
  cases d.liveSet x <;> rfl

/-- Destroying a list of sets: lengths and handles unchanged, the listed sets are dead, every other
set is untouched, no set is revived or altered. -/
theorem run_destroy' (l : List Nat) : ∀ d : State,
    (DynRoots.run d (l.map .destroySet)).sets.length = d.sets.length ∧
    (DynRoots.run d (l.map .destroySet)).handles = d.handles ∧
    (∀ s, s ∈ l → (DynRoots.run d (l.map .destroySet)).liveSet s = none) ∧
    (∀ s, s ∉ l → (DynRoots.run d (l.map .destroySet)).liveSet s = d.liveSet s) ∧
    (∀ s rs', (DynRoots.run d (l.map .destroySet)).liveSet s = some rs' → d.liveSet s = some rs') := by
  induction l with
  | nil => intro d; exact ⟨rfl, rfl, fun s h => (by cases h), fun _ _ => rfl, fun _ _ h => h⟩
  | cons x l ih =>
    intro d
    obtain ⟨n1, n2, n3⟩ := next_destroy d x
    obtain ⟨i1, i2, i3, i4, i5⟩ := ih (DynRoots.next d (.destroySet x))
    simp only [List.map_cons, DynRoots.run]
    refine ⟨i1.trans n1, i2.trans (next_destroy_handles d x), ?_, ?_, ?_⟩
    · intro s hs
      by_cases hsl : s ∈ l
      · exact i3 s hsl
      · rcases List.mem_cons.1 hs with rfl | h
        · rw [i4 _ hsl]; exact n2
        · exact absurd h hsl
    · intro s hs
      have h1 : s ≠ x := fun e => hs (by rw [e]; exact List.mem_cons_self ..)
      have h2 : s ∉ l := fun e => hs (List.mem_cons_of_mem _ e)
      rw [i4 s h2]; exact liveSet_congr (next_destroy_other d x s h1)
    · intro s rs' h
      exact next_destroy_sub d x s rs' (i5 s rs' h)

/-- A vacating drop touches no other set and leaves the set's `alive` flag alone. -/
theorem next_drop_vacates' {d : State} {h : Handle} {rs : RootSet} {r : Nat} (hm : h ∈ d.handles)
    (hl : d.liveSet h.set = some rs) (hv : rs.slots.slots[h.index]? = some (.occupied r 0)) :
    (∀ s, s ≠ h.set → (DynRoots.next d (.dropHandle h)).sets[s]? = d.sets[s]?) ∧
    (∀ rs', (DynRoots.next d (.dropHandle h)).sets[h.set]? = some rs' → rs'.alive = rs.alive) := by
  unfold DynRoots.next
  simp only [DynRoots.step, hm, if_true, hl]
  have hdec : rs.slots.dec h.index =
      .ok ⟨rs.slots.slots.set h.index (.vacant rs.slots.nextFree), h.index⟩ := by
    simp [Slots.dec, hv]
  simp only [hdec, DynRoots.State.withSlots]
  refine ⟨fun s hne => List.getElem?_set_ne (fun e => hne e.symm), fun rs' hs => ?_⟩
  rcases sets_set_get hs with ⟨_, rfl, _⟩ | ⟨hne, _⟩
  · rfl
  · exact absurd rfl hne

theorem GSys.doDs_spec (ops : List DynRoots.Op) : ∀ S : GSys,
    (S.doDs ops).a = S.a ∧ (S.doDs ops).loc = S.loc ∧
    (S.doDs ops).d = DynRoots.run S.d ops ∧ (S.doDs ops).dops = S.dops ++ ops := by
  induction ops with
  | nil => intro S; simp [GSys.doDs, DynRoots.run]
  | cons op ops ih =>
    intro S
    obtain ⟨h1, h2, h4, h5⟩ := ih (S.doD op)
    refine ⟨h1, h2, h4, ?_⟩
    show ((S.doD op).doDs ops).dops = _
    rw [h5]; simp [GSys.doD]

/-! ### the collector-side steps -/

theorem IsSetObj.rc {a : Arena} {x : Nat} {ss : List Slot} (h : IsSetObj a x ss) {c' : Ctx}
    (hk : KeepAt x a.ctx c') {a' : Arena} (hctx : a'.ctx = c') : IsSetObj a' x ss := by
  obtain ⟨o, ho, hl, hn, hs⟩ := h
  obtain ⟨o', ho', hs', hn', hl'⟩ := hk o ho
  exact ⟨o', by rw [hctx]; exact ho', by rw [hl', hl], by rw [hn', hn], by rw [hs', hs]⟩

theorem reslot_fields (a : Arena) (x : Nat) (ss : List Slot) :
    (reslot a x ss).root = a.root ∧ (reslot a x ss).temps = a.temps ∧ (reslot a x ss).cb = a.cb ∧
    (reslot a x ss).cover = a.cover ∧ (reslot a x ss).marked = a.marked ∧
    (reslot a x ss).alive = a.alive := by
  unfold reslot; split <;> exact ⟨rfl, rfl, rfl, rfl, rfl, rfl⟩

theorem reslot_keepAt (a : Arena) (x : Nat) (ss : List Slot) {y : Nat} (hne : y ≠ x) :
    KeepAt y a.ctx (reslot a x ss).ctx := by
  apply KeepAt.ofGet
  unfold reslot; split <;> simp [hne]

/-- Net effect of the collector side of `stash`, and that its three parts are accepted: the
invariant is kept, the set object's slot list becomes `ss` (grown by one empty slot if the index is
its length) with slot `idx` := `r`, every other object keeps its slot list. -/
theorem stashArena_spec {a : Arena} (hinv : Inv a) (hcb : a.cb ≠ none) {x r idx : Nat}
    {ss : List Slot} (hx : IsSetObj a x ss) (hhx : a.holds (.strong x) = true)
    (hhr : a.holds (.strong r) = true) (hidx : idx ≤ ss.length) :
    Inv (stashArena a x r idx) ∧
    IsSetObj (stashArena a x r idx) x
      ((if idx < ss.length then ss else ss ++ [none]).set idx (some (.strong r))) ∧
    (∀ y, y ≠ x → KeepAt y a.ctx (stashArena a x r idx).ctx) ∧
    (stashArena a x r idx).root = a.root ∧ (stashArena a x r idx).cb = a.cb ∧
    (stashArena a x r idx).temps = a.temps ∧ (stashArena a x r idx).marked = false ∧
    Mono a.ctx (stashArena a x r idx).ctx := by
  have halive := hinv.alive
  -- 1. the barrier
  have e1 := step_barrier_bb halive hcb hhx hhr
  have inv1 : Inv (a.step (.barrier (.bb x (some r)))).1 :=
    inv_step hinv _ (by rw [e1]; exact halive)
  have m1 : Mono a.ctx (a.step (.barrier (.bb x (some r)))).1.ctx := step_mono hinv _ (by intro e; cases e)
  unfold stashArena
  simp only
  generalize h1 : (a.step (.barrier (.bb x (some r)))).1 = a1 at e1 inv1 m1
  have c1 : a1.ctx = a.ctx.backwardBarrier x (some r) := by rw [e1]
  have r1 : a1.root = a.root := by rw [e1]
  have t1 : a1.temps = a.temps := by rw [e1]
  have cb1 : a1.cb = a.cb := by rw [e1]
  have cov1 : a1.cover = .pair x r :: a.cover := by rw [e1]
  have k1 : ∀ y, KeepAt y a.ctx a1.ctx := fun y => by rw [c1]; exact (rc_backwardBarrier _ _ _).keepAt y
  have x1 : IsSetObj a1 x ss := hx.rc (k1 x) rfl
  obtain ⟨o1, ho1, hl1, hn1, hs1⟩ := x1
  simp only [ho1]
  -- 2. growth
  have step2 : ∃ a2 : Arena, (if idx < o1.slots.length then a1 else reslot a1 x (o1.slots ++ [none])) = a2 ∧
      Inv a2 ∧ IsSetObj a2 x (if idx < ss.length then ss else ss ++ [none]) ∧
      (∀ y, y ≠ x → KeepAt y a1.ctx a2.ctx) ∧ a2.root = a1.root ∧ a2.temps = a1.temps ∧
      a2.cb = a1.cb ∧ a2.cover = a1.cover ∧ a2.alive = a1.alive ∧ Mono a1.ctx a2.ctx := by
    by_cases hlt : idx < ss.length
    · have hlt' : idx < o1.slots.length := by rw [hs1]; exact hlt
      refine ⟨a1, by simp [hlt'], inv1, ?_, fun y _ => KeepAt.refl y _, rfl, rfl, rfl, rfl, rfl, Mono.refl _⟩
      simp only [hlt, if_true]; exact ⟨o1, ho1, hl1, hn1, hs1⟩
    · have hlt' : ¬ idx < o1.slots.length := by rw [hs1]; exact hlt
      obtain ⟨f1, f2, f3, f4, _, f6⟩ := reslot_fields a1 x (o1.slots ++ [none])
      refine ⟨_, by simp [hlt'], inv_reslot inv1 ho1 hl1 (fun q hq => by simpa using hq), ?_,
        fun y hy => reslot_keepAt a1 x _ hy, f1, f2, f3, f4, f6,
        by rw [reslot_eq ho1]; exact mono_setSlots ho1 _⟩
      simp only [hlt, if_false]
      refine ⟨{ o1 with slots := o1.slots ++ [none] }, ?_, hl1, hn1, by simp [hs1]⟩
      rw [reslot_eq ho1]; simp
  obtain ⟨a2, ha2, inv2, x2, k2, r2, t2, cb2, cov2, al2, m2⟩ := step2
  rw [ha2]
  -- 3. the store
  obtain ⟨o2, ho2, hl2, hn2, hs2⟩ := x2
  have hlen : idx < (if idx < ss.length then ss else ss ++ [none]).length := by
    split
    · assumption
    · simp; omega
  have e3 := step_store_raw (a := a2) (x := x) (i := idx) (v := some (.strong r)) (o := o2)
    inv2.alive (by rw [cb2, cb1]; exact hcb)
    (by rw [holds_congr (t2.trans t1)]; exact hhx)
    (by show a2.holds (.strong r) = true; rw [holds_congr (t2.trans t1)]; exact hhr)
    ho2 (by rw [hs2]; exact hlen) hn2 (by simp [Arena.coverOK, cov2, cov1])
  have inv3 : Inv (a2.step (.store .raw x idx (some (.strong r)))).1 :=
    inv_step inv2 _ (by rw [e3]; exact inv2.alive)
  have m3 : Mono a2.ctx (a2.step (.store .raw x idx (some (.strong r)))).1.ctx :=
    step_mono inv2 _ (by intro e; cases e)
  refine ⟨inv3, ?_, ?_, ?_, ?_, ?_, ?_, (m1.trans m2).trans m3⟩
  · rw [e3]
    refine ⟨{ o2 with slots := o2.slots.set idx (some (.strong r)) }, ?_, hl2, hn2, by simp [hs2]⟩
    show (Arena.setSlot a2.ctx x idx _).heap.get x = _
    rw [setSlot_get, ho2]; simp
  · intro y hy
    rw [e3]
    exact ((k1 y).trans (k2 y hy)).trans (keepAt_setSlot _ _ _ _ hy)
  · rw [e3]; exact r2.trans r1
  · rw [e3]; exact cb2.trans cb1
  · rw [e3]; exact t2.trans t1
  · rw [e3]

theorem clearArena_spec {a : Arena} (hinv : Inv a) {x i : Nat} {ss : List Slot} (hx : IsSetObj a x ss) :
    Inv (clearArena a x i) ∧ IsSetObj (clearArena a x i) x (ss.set i none) ∧
    (∀ y, y ≠ x → KeepAt y a.ctx (clearArena a x i).ctx) := by
  obtain ⟨o, ho, hl, hn, hs⟩ := hx
  have e : clearArena a x i = reslot a x (o.slots.set i none) := by
    rw [reslot_eq ho]; unfold clearArena; rw [setSlot_eq ho]
  refine ⟨?_, ?_, ?_⟩
  · rw [e]
    apply inv_reslot hinv ho hl
    intro q hq
    rcases mem_set_slot hq with h | h
    · exact h
    · cases h
  · refine ⟨{ o with slots := o.slots.set i none }, ?_, hl, hn, by simp [hs]⟩
    show (Arena.setSlot a.ctx x i none).heap.get x = _
    rw [setSlot_get, ho]; simp
  · intro y hy
    exact keepAt_setSlot _ _ _ _ hy


/-! ### every coupled operation preserves the relation -/

theorem GCore.doD_run {S : GSys} (hc : GCore S) (op : DynRoots.Op) :
    DynRoots.next S.d op = DynRoots.run State.init (S.dops ++ [op]) := by
  rw [dyn_run_snoc, ← hc.dyn]

theorem liveSet_back {d d' : State} (hT : SameTables d d') {s : Nat} {rs' : RootSet}
    (h : d'.liveSet s = some rs') :
    ∃ rs, d.liveSet s = some rs ∧ rs'.slots.slots.map img = rs.slots.slots.map img := by
  obtain ⟨hs, ha⟩ := DynRoots.liveSet_eq_some.1 h
  obtain ⟨rs, hrs, hal, hlen, himg⟩ := hT.2 s rs' hs
  exact ⟨rs, DynRoots.liveSet_eq_some.2 ⟨hrs, by rw [← hal]; exact ha⟩, map_img_ext hlen himg⟩

/-- A DynRoots op that changes no table image, with the arena as it is. -/
theorem GCore.doD_same {S : GSys} (hc : GCore S) (op : DynRoots.Op)
    (hT : SameTables S.d (DynRoots.next S.d op)) : GCore (S.doD op) := by
  refine ⟨hc.doD_run op, hc.inv, hc.len.trans hT.1.symm, ?_, ?_⟩
  · intro s x rs' hl hs
    obtain ⟨rs, hrs, hm⟩ := liveSet_back hT hs
    rw [hm]; exact hc.sets s x rs hl hrs
  · intro s s' x rs rs' hl hl' hs hs'
    obtain ⟨r1, h1, _⟩ := liveSet_back hT hs
    obtain ⟨r2, h2, _⟩ := liveSet_back hT hs'
    exact hc.distinct s s' x r1 r2 hl hl' h1 h2

/-- Replacing the arena by one in which every alive set of this arena still has its object. -/
theorem GCore.withArena {S : GSys} (hc : GCore S) {a' : Arena} (hinv : a'.alive = true → Inv a')
    (hobj : ∀ (s x : Nat) (rs : RootSet), S.loc[s]? = some (some x) → S.d.liveSet s = some rs →
      a'.alive = true ∧ IsSetObj a' x (rs.slots.slots.map img)) :
    GCore ({ S with a := a' } : GSys) :=
  ⟨hc.dyn, hinv, hc.len, hobj, hc.distinct⟩

/-- A mutator op that is not a `store` into a set object. -/
theorem GCore.mutStep {S : GSys} (hc : GCore S) (op : Op) (hop : op.isMutator = true)
    (hst : ∀ (s x : Nat), S.loc[s]? = some (some x) → ∀ path i v, op ≠ .store path x i v) :
    GCore ({ S with a := (S.a.step op).1 } : GSys) := by
  cases hal : S.a.alive with
  | false =>
    rw [step_dead hal]; exact hc
  | true =>
    have hinv := hc.inv hal
    have hda : op ≠ .dropArena := by rintro rfl; simp [Op.isMutator] at hop
    have hal' : (S.a.step op).1.alive = true := by rw [(step_fr hinv op hda).1]; exact hal
    refine hc.withArena (fun _ => inv_step hinv op hal') ?_
    intro s x rs hl hs
    obtain ⟨_, hx⟩ := hc.sets s x rs hl hs
    refine ⟨hal', ?_⟩
    have hnot : (!S.a.alive) = false := by rw [hal]; rfl
    have := stepBody_fr ({ S.a with marked := false } : Arena) S.a.marked op hop
    refine hx.rc (this.keep x (hst s x hl)) ?_
    unfold Arena.step; rw [hnot]; simp

theorem step_dropArena_cases (a : Arena) (halive : a.alive = true) :
    (a.step .dropArena).1.alive = false ∨
    ((a.step .dropArena).1.alive = true ∧ (a.step .dropArena).1.ctx = a.ctx) := by
  rw [step_alive_eq halive]
  simp only [Arena.stepBody]
  split
  · exact .inr ⟨halive, rfl⟩
  · exact .inl rfl

/-- **Any collector-model op followed by `sync`.**  Sets of this arena whose object the op
destructed are destroyed; every other alive set of this arena still has its object, with the same
slot list — whatever the op did to colours, and whether or not the object is reachable. -/
theorem GCore.gc {S : GSys} (hc : GCore S) {op : Op} (hal : S.allowed op = true) :
    GCore (({ S with a := (S.a.step op).1 } : GSys).sync) := by
  generalize hS1 : ({ S with a := (S.a.step op).1 } : GSys) = S1
  have a1 : S1.a = (S.a.step op).1 := by rw [← hS1]
  have l1 : S1.loc = S.loc := by rw [← hS1]
  have d1 : S1.d = S.d := by rw [← hS1]
  have o1 : S1.dops = S.dops := by rw [← hS1]
  obtain ⟨s1, s2, s3, s4⟩ := S1.doDs_spec (((List.range S1.loc.length).filter S1.gone).map .destroySet)
  obtain ⟨r1, _, r3, _, r5⟩ := run_destroy' ((List.range S1.loc.length).filter S1.gone) S1.d
  have hinv' : S1.a.alive = true → Inv S1.a := by
    intro h
    rw [a1] at h ⊢
    cases hal0 : S.a.alive with
    | false => rw [step_dead hal0] at h; rw [hal0] at h; cases h
    | true => exact inv_step (hc.inv hal0) op h
  have back : ∀ (s : Nat) (rs' : RootSet), S1.sync.d.liveSet s = some rs' → S.d.liveSet s = some rs' := by
    intro s rs' h
    unfold GSys.sync at h
    rw [s3] at h
    rw [← d1]; exact r5 s rs' h
  refine ⟨?_, ?_, ?_, ?_, ?_⟩
  · unfold GSys.sync
    rw [s3, s4, d1, o1, dyn_run_append, ← hc.dyn]
  · unfold GSys.sync; rw [s1]; exact hinv'
  · unfold GSys.sync; rw [s2, s3, r1, l1, d1]; exact hc.len
  · intro s x rs' hl hs
    have hl0 : S.loc[s]? = some (some x) := by
      unfold GSys.sync at hl; rw [s2, l1] at hl; exact hl
    have hs0 := back s rs' hs
    obtain ⟨hal0, o, ho, hlive, hnt, hss⟩ := hc.sets s x rs' hl0 hs0
    -- `s` was not destroyed, so its object is still there
    have hng : S1.gone s = false := by
      cases hg : S1.gone s with
      | false => rfl
      | true =>
        have hmem : s ∈ (List.range S1.loc.length).filter S1.gone := by
          rw [List.mem_filter]
          refine ⟨List.mem_range.2 ?_, hg⟩
          rw [l1]; exact (List.getElem?_eq_some_iff.1 hl0).1
        have := r3 s hmem
        unfold GSys.sync at hs
        rw [s3, this] at hs; cases hs
    have hlive' : objLive S1.a x = true := by
      unfold GSys.gone at hng
      rw [l1, hl0] at hng
      simpa using hng
    unfold objLive at hlive'
    simp only [Bool.and_eq_true] at hlive'
    obtain ⟨hal1, hget⟩ := hlive'
    have hsa : S1.sync.a = S1.a := by unfold GSys.sync; exact s1
    rw [hsa]
    refine ⟨hal1, ?_⟩
    cases ho' : S1.a.ctx.heap.get x with
    | none => rw [ho'] at hget; cases hget
    | some o' =>
      rw [ho'] at hget
      simp only at hget
      -- the op kept the slot list
      have hinv := hc.inv hal0
      have hst : ∀ path i v, op ≠ .store path x i v := by
        rintro path i v rfl
        have hid : x ∈ S.ids := List.mem_filterMap.2 ⟨some x, List.mem_of_getElem? hl0, rfl⟩
        simp [GSys.allowed] at hal; exact hal hid
      have hrig : Rigid x S.a.ctx S1.a.ctx := by
        rw [a1]
        by_cases hda : op = .dropArena
        · subst hda
          rcases step_dropArena_cases S.a hal0 with h | ⟨_, h⟩
          · rw [a1, h] at hal1; cases hal1
          · rw [h]; intro o o' ho ho' hl; rw [ho] at ho'; cases ho'; exact ⟨hl, rfl, rfl⟩
        · exact (step_rigid hinv op hda x hst).1
      obtain ⟨_, hs', hn'⟩ := hrig o o' ho ho' hget
      exact ⟨o', ho', hget, by rw [hn', hnt], by rw [hs', hss]⟩
  · intro s s' x rs rs' hl hl' hs hs'
    have e1 : S1.sync.loc = S.loc := by unfold GSys.sync; rw [s2, l1]
    rw [e1] at hl hl'
    exact hc.distinct s s' x rs rs' hl hl' (back s rs hs) (back s' rs' hs')

theorem GCore.newSet {S : GSys} (hc : GCore S) (hal : S.a.alive = true) (hcb : S.a.cb ≠ none) :
    GCore (({ S with a := (S.a.step (.alloc true [])).1,
                        loc := S.loc ++ [some S.a.ctx.heap.fresh] } : GSys).doD .newSet) := by
  have hinv := hc.inv hal
  have e1 := step_alloc_empty hal hcb 0
  have e1' : (S.a.step (.alloc true [])).1 =
      ({ S.a with marked := false, ctx := (S.a.ctx.link (emptySetObj 0)).1 } : Arena).push
        (.strong S.a.ctx.heap.fresh) := e1
  obtain ⟨b1, _, _, _, _, b6, _, _⟩ :=
    ({ S.a with marked := false, ctx := (S.a.ctx.link (emptySetObj 0)).1 } : Arena).push_spec
      (.strong S.a.ctx.heap.fresh)
  have hctx : (S.a.step (.alloc true [])).1.ctx = (S.a.ctx.link (emptySetObj 0)).1 := by
    rw [e1']; exact b1
  have hal' : (S.a.step (.alloc true [])).1.alive = true := by
    rw [e1']; rw [b6]; exact hal
  have hnext := next_newSet S.d
  have lsOld : ∀ (s : Nat) (rs : RootSet), s < S.d.sets.length →
      (DynRoots.next S.d .newSet).liveSet s = some rs → S.d.liveSet s = some rs := by
    intro s rs hs h
    rw [hnext] at h
    have : (S.d.sets ++ [⟨true, Slots.new⟩])[s]? = S.d.sets[s]? := by
      rw [List.getElem?_append]; simp [hs]
    rw [← liveSet_congr (d := S.d) (d' := { S.d with sets := S.d.sets ++ [⟨true, Slots.new⟩] }) this]
    exact h
  have locOld : ∀ (s x : Nat), (S.loc ++ [some S.a.ctx.heap.fresh])[s]? = some (some x) →
      (s < S.loc.length ∧ S.loc[s]? = some (some x)) ∨ (s = S.loc.length ∧ x = S.a.ctx.heap.fresh) := by
    intro s x h
    rcases getElem?_append_one h with h | ⟨h1, h2⟩
    · exact .inl h
    · exact .inr ⟨h1, by cases h2; rfl⟩
  refine ⟨hc.doD_run .newSet, fun _ => inv_step hinv _ hal', ?_, ?_, ?_⟩
  · show (S.loc ++ [_]).length = (DynRoots.next S.d .newSet).sets.length
    rw [hnext]; simp [hc.len]
  · intro s x rs hl hs
    change (S.loc ++ [_])[s]? = some (some x) at hl
    change (DynRoots.next S.d .newSet).liveSet s = some rs at hs
    show (S.a.step (.alloc true [])).1.alive = true ∧ IsSetObj (S.a.step (.alloc true [])).1 x _
    refine ⟨hal', ?_⟩
    rcases locOld s x hl with ⟨hlt, hl0⟩ | ⟨he, hx⟩
    · have hs0 := lsOld s rs (by rw [← hc.len]; exact hlt) hs
      exact (hc.sets s x rs hl0 hs0).2.rc (keepAt_link _ _ x) hctx
    · subst hx
      have : rs = ⟨true, Slots.new⟩ := by
        rw [hnext] at hs
        obtain ⟨h1, _⟩ := DynRoots.liveSet_eq_some.1 hs
        change (S.d.sets ++ [_])[s]? = some rs at h1
        rcases getElem?_append_one h1 with ⟨hlt, _⟩ | ⟨_, h2⟩
        · rw [he, hc.len] at hlt; omega
        · exact h2
      subst this
      refine ⟨emptySetObj 0, ?_, rfl, rfl, by simp [emptySetObj, Slots.new]⟩
      rw [hctx]; simp [Ctx.link]
  · intro s s' x rs rs' hl hl' hs hs'
    change (S.loc ++ [_])[s]? = some (some x) at hl
    change (S.loc ++ [_])[s']? = some (some x) at hl'
    change (DynRoots.next S.d .newSet).liveSet s = some rs at hs
    change (DynRoots.next S.d .newSet).liveSet s' = some rs' at hs'
    have notFresh : ∀ (t : Nat) (r : RootSet), t < S.loc.length → S.loc[t]? = some (some x) →
        (DynRoots.next S.d .newSet).liveSet t = some r → x ≠ S.a.ctx.heap.fresh := by
      intro t r hlt hl0 hst he
      have hs0 := lsOld t r (by rw [← hc.len]; exact hlt) hst
      obtain ⟨_, o, ho, _⟩ := hc.sets t x r hl0 hs0
      rw [he, Heap.get_fresh] at ho; cases ho
    rcases locOld s x hl with ⟨hlt, hl0⟩ | ⟨he, hx⟩
    · rcases locOld s' x hl' with ⟨hlt', hl0'⟩ | ⟨he', hx'⟩
      · exact hc.distinct s s' x rs rs' hl0 hl0' (lsOld s rs (by rw [← hc.len]; exact hlt) hs)
          (lsOld s' rs' (by rw [← hc.len]; exact hlt') hs')
      · exact absurd hx' (notFresh s rs hlt hl0 hs)
    · rcases locOld s' x hl' with ⟨hlt', hl0'⟩ | ⟨he', hx'⟩
      · exact absurd hx (notFresh s' rs' hlt' hl0' hs')
      · rw [he, he']

theorem GCore.stash {S : GSys} (hc : GCore S) {s x r idx : Nat} {rs : RootSet} {sl : Slots}
    (hl : S.loc[s]? = some (some x)) (hls : S.d.liveSet s = some rs)
    (ha : rs.slots.add r = .ok (sl, idx)) (hcb : S.a.cb ≠ none)
    (hhx : S.a.holds (.strong x) = true) (hhr : S.a.holds (.strong r) = true) :
    GCore (({ S with a := stashArena S.a x r idx } : GSys).doD (.stash s r)) := by
  obtain ⟨hal, hx⟩ := hc.sets s x rs hl hls
  have hinv := hc.inv hal
  obtain ⟨hsets, hralive⟩ := DynRoots.liveSet_eq_some.1 hls
  have hcases := add_cases ha
  have hidx : idx ≤ (rs.slots.slots.map img).length := by
    rcases hcases with ⟨h, _⟩ | ⟨h, _⟩ <;> simp <;> omega
  obtain ⟨inv', x', keep', _, _, _, _, _⟩ := stashArena_spec hinv hcb hx hhx hhr hidx
  have hnext := next_stash_eq hls ha
  have hmirror : sl.slots.map img =
      (if idx < (rs.slots.slots.map img).length then rs.slots.slots.map img
        else rs.slots.slots.map img ++ [none]).set idx (some (.strong r)) := by
    rcases hcases with ⟨h, e⟩ | ⟨h, e⟩
    · have : idx < (rs.slots.slots.map img).length := by simpa using h
      rw [if_pos this, e, List.map_set]; rfl
    · have : ¬ idx < (rs.slots.slots.map img).length := by simp; omega
      rw [if_neg this, e, h]
      simp [img]
  -- alive sets after the op
  have lsNew : ∀ (s' : Nat) (rs' : RootSet), (DynRoots.next S.d (.stash s r)).liveSet s' = some rs' →
      (s' = s ∧ rs' = { rs with slots := sl }) ∨ (s' ≠ s ∧ S.d.liveSet s' = some rs') := by
    intro s' rs' h
    by_cases he : s' = s
    · subst he
      refine .inl ⟨rfl, ?_⟩
      rw [hnext] at h
      obtain ⟨h1, _⟩ := DynRoots.liveSet_eq_some.1 h
      change (S.d.sets.set s' _)[s']? = some rs' at h1
      rcases sets_set_get h1 with ⟨_, e, _⟩ | ⟨hne, _⟩
      · exact e
      · exact absurd rfl hne
    · exact .inr ⟨he, by rw [← liveSet_congr (next_stash_other S.d s r s' he)]; exact h⟩
  refine ⟨hc.doD_run _, fun _ => inv', ?_, ?_, ?_⟩
  · show S.loc.length = (DynRoots.next S.d (.stash s r)).sets.length
    rw [next_stash_len]; exact hc.len
  · intro s' y rs' hl' hs'
    change S.loc[s']? = some (some y) at hl'
    change (DynRoots.next S.d (.stash s r)).liveSet s' = some rs' at hs'
    show (stashArena S.a x r idx).alive = true ∧ IsSetObj (stashArena S.a x r idx) y _
    refine ⟨inv'.alive, ?_⟩
    rcases lsNew s' rs' hs' with ⟨rfl, rfl⟩ | ⟨hne, hs0⟩
    · rw [hl] at hl'; cases hl'
      show IsSetObj _ x (sl.slots.map img)
      rw [hmirror]; exact x'
    · obtain ⟨_, hy⟩ := hc.sets s' y rs' hl' hs0
      have hyx : y ≠ x := by
        rintro rfl
        exact hne (hc.distinct s' s y rs' rs hl' hl hs0 hls)
      exact hy.rc (keep' y hyx) rfl
  · intro s1 s2 y r1 r2 hl1 hl2 hs1 hs2
    change S.loc[s1]? = some (some y) at hl1
    change S.loc[s2]? = some (some y) at hl2
    change (DynRoots.next S.d (.stash s r)).liveSet s1 = some r1 at hs1
    change (DynRoots.next S.d (.stash s r)).liveSet s2 = some r2 at hs2
    have old : ∀ (t : Nat) (rt : RootSet), (DynRoots.next S.d (.stash s r)).liveSet t = some rt →
        ∃ rt0, S.d.liveSet t = some rt0 := by
      intro t rt h
      rcases lsNew t rt h with ⟨rfl, _⟩ | ⟨_, h0⟩
      · exact ⟨rs, hls⟩
      · exact ⟨rt, h0⟩
    obtain ⟨q1, h1⟩ := old s1 r1 hs1
    obtain ⟨q2, h2⟩ := old s2 r2 hs2
    exact hc.distinct s1 s2 y q1 q2 hl1 hl2 h1 h2

theorem GCore.dropVacating {S : GSys} (hc : GCore S) {h : Handle} {x r : Nat} {rs : RootSet}
    (hm : h ∈ S.d.handles) (hl : S.loc[h.set]? = some (some x)) (hls : S.d.liveSet h.set = some rs)
    (hv : rs.slots.slots[h.index]? = some (.occupied r 0)) :
    GCore (({ S with a := clearArena S.a x h.index } : GSys).doD (.dropHandle h)) := by
  obtain ⟨hal, hx⟩ := hc.sets h.set x rs hl hls
  have hinv := hc.inv hal
  obtain ⟨inv', x', keep'⟩ := clearArena_spec (i := h.index) hinv hx
  obtain ⟨dlen, dsets⟩ := next_drop_vacates hm hls hv
  obtain ⟨dother, dalive⟩ := next_drop_vacates' hm hls hv
  obtain ⟨hsets, _⟩ := DynRoots.liveSet_eq_some.1 hls
  have back : ∀ (s' : Nat) (rs' : RootSet), (DynRoots.next S.d (.dropHandle h)).liveSet s' = some rs' →
      ∃ rs0, S.d.liveSet s' = some rs0 ∧
        rs'.slots.slots.map img =
          if s' = h.set then (rs0.slots.slots.map img).set h.index none else rs0.slots.slots.map img := by
    intro s' rs' hs'
    obtain ⟨h1, ha1⟩ := DynRoots.liveSet_eq_some.1 hs'
    obtain ⟨rs0, hrs0, hlen0, himg⟩ := dsets s' rs' h1
    -- aliveness is untouched by `dec`
    have hal0 : rs0.alive = true := by
      by_cases he : s' = h.set
      · subst he
        rw [hsets] at hrs0; cases hrs0
        rw [← dalive rs' h1]; exact ha1
      · rw [dother s' he, hrs0] at h1; cases h1; exact ha1
    refine ⟨rs0, DynRoots.liveSet_eq_some.2 ⟨hrs0, hal0⟩, ?_⟩
    by_cases he : s' = h.set
    · rw [if_pos he]
      exact map_img_update hlen0 (fun i => by rw [himg i]; simp [he])
    · rw [if_neg he]
      exact map_img_ext hlen0 (fun i => by rw [himg i]; simp [he])
  refine ⟨hc.doD_run _, fun _ => inv', hc.len.trans dlen.symm, ?_, ?_⟩
  · intro s' y rs' hl' hs'
    change S.loc[s']? = some (some y) at hl'
    change (DynRoots.next S.d (.dropHandle h)).liveSet s' = some rs' at hs'
    show (clearArena S.a x h.index).alive = true ∧ IsSetObj (clearArena S.a x h.index) y _
    refine ⟨inv'.alive, ?_⟩
    obtain ⟨rs0, hs0, hm0⟩ := back s' rs' hs'
    rw [hm0]
    by_cases he : s' = h.set
    · subst he
      rw [hl] at hl'; cases hl'
      rw [hls] at hs0; cases hs0
      rw [if_pos rfl]; exact x'
    · rw [if_neg he]
      obtain ⟨_, hy⟩ := hc.sets s' y rs0 hl' hs0
      have hyx : y ≠ x := by
        rintro rfl
        exact he (hc.distinct s' h.set y rs0 rs hl' hl hs0 hls)
      exact hy.rc (keep' y hyx) rfl
  · intro s1 s2 y r1 r2 hl1 hl2 hs1 hs2
    obtain ⟨q1, h1, _⟩ := back s1 r1 hs1
    obtain ⟨q2, h2, _⟩ := back s2 r2 hs2
    exact hc.distinct s1 s2 y q1 q2 hl1 hl2 h1 h2

theorem GCore.fetchLike {S : GSys} (hc : GCore S) (s : Nat) (h : Handle) (dop : DynRoots.Op)
    (hdop : DynRoots.next S.d dop = S.d) : GCore (S.fetchLike s h dop) := by
  have same : ∀ {S' : GSys}, GCore S' → S'.d = S.d → GCore (S'.doD dop) := by
    intro S' hc' hd
    apply hc'.doD_same
    rw [hd, hdop]; exact SameTables.refl _
  unfold GSys.fetchLike
  split
  · split
    · exact same (hc.mutStep _ rfl (fun _ _ _ path i v e => by cases e)) rfl
    · exact same hc rfl
  · exact same hc rfl

/-- Environment: a set of another arena is created. -/
theorem GCore.envNewSet {S : GSys} (hc : GCore S) :
    GCore (({ S with loc := S.loc ++ [none] } : GSys).doD .newSet) := by
  have hnext := next_newSet S.d
  have locOld : ∀ (s x : Nat), (S.loc ++ [none])[s]? = some (some x) →
      s < S.loc.length ∧ S.loc[s]? = some (some x) := by
    intro s x h
    rcases getElem?_append_one h with h | ⟨_, h2⟩
    · exact h
    · cases h2
  have lsOld : ∀ (s : Nat) (rs : RootSet), s < S.d.sets.length →
      (DynRoots.next S.d .newSet).liveSet s = some rs → S.d.liveSet s = some rs := by
    intro s rs hs h
    rw [hnext] at h
    have : (S.d.sets ++ [⟨true, Slots.new⟩])[s]? = S.d.sets[s]? := by
      rw [List.getElem?_append]; simp [hs]
    rw [← liveSet_congr (d := S.d) (d' := { S.d with sets := S.d.sets ++ [⟨true, Slots.new⟩] }) this]
    exact h
  refine ⟨hc.doD_run .newSet, hc.inv, ?_, ?_, ?_⟩
  · show (S.loc ++ [none]).length = (DynRoots.next S.d .newSet).sets.length
    rw [hnext]; simp [hc.len]
  · intro s x rs hl hs
    obtain ⟨hlt, hl0⟩ := locOld s x hl
    exact hc.sets s x rs hl0 (lsOld s rs (by rw [← hc.len]; exact hlt) hs)
  · intro s s' x rs rs' hl hl' hs hs'
    obtain ⟨hlt, hl0⟩ := locOld s x hl
    obtain ⟨hlt', hl0'⟩ := locOld s' x hl'
    exact hc.distinct s s' x rs rs' hl0 hl0' (lsOld s rs (by rw [← hc.len]; exact hlt) hs)
      (lsOld s' rs' (by rw [← hc.len]; exact hlt') hs')

/-- Environment: a DynRoots op that only concerns a set `t` of another arena. -/
theorem GCore.env {S : GSys} (hc : GCore S) (op : DynRoots.Op) (t : Nat)
    (hforeign : S.loc[t]? = some none)
    (hlen : (DynRoots.next S.d op).sets.length = S.d.sets.length)
    (hother : ∀ s, s ≠ t → (DynRoots.next S.d op).sets[s]? = S.d.sets[s]?) : GCore (S.doD op) := by
  have back : ∀ (s x : Nat) (rs : RootSet), S.loc[s]? = some (some x) →
      (DynRoots.next S.d op).liveSet s = some rs → S.d.liveSet s = some rs := by
    intro s x rs hl h
    have hne : s ≠ t := by rintro rfl; rw [hforeign] at hl; cases hl
    rw [← liveSet_congr (hother s hne)]; exact h
  refine ⟨hc.doD_run op, hc.inv, hc.len.trans hlen.symm, ?_, ?_⟩
  · intro s x rs hl hs
    exact hc.sets s x rs hl (back s x rs hl hs)
  · intro s s' x rs rs' hl hl' hs hs'
    exact hc.distinct s s' x rs rs' hl hl' (back s x rs hl hs) (back s' x rs' hl' hs')

/-- **Every operation of the general coupled system preserves the coupling relation.** -/
theorem GCore.step {S : GSys} (hc : GCore S) (op : GOp) : GCore (S.step op) := by
  cases op with
  | newSet =>
    simp only [GSys.step]
    split
    · rename_i hg
      simp only [Bool.and_eq_true] at hg
      exact hc.newSet hg.1 (by intro e; rw [e] at hg; simp at hg)
    · exact hc
  | stash s r =>
    simp only [GSys.step]
    split
    · rename_i x rs hl hls
      split
      · rename_i sl idx ha
        split
        · rename_i hg
          simp only [Bool.and_eq_true] at hg
          exact hc.stash hl hls ha (by intro e; rw [e] at hg; simp at hg) hg.1.2 hg.2
        · exact hc
      · exact hc
    · exact hc
  | clone h => exact hc.doD_same _ (next_clone_same _ _)
  | dropHandle h =>
    simp only [GSys.step]
    split
    · rename_i hm
      have nonvac : ∀ (hnv : ¬ Vacates S.d h), GCore (S.doD (.dropHandle h)) :=
        fun hnv => hc.doD_same _ (next_drop_same _ _ hnv)
      split
      · rename_i x rs hl hls
        split
        · rename_i r hv
          exact hc.dropVacating hm hl hls hv
        · rename_i hnv
          apply nonvac
          rintro ⟨_, rs', r', hls', hv'⟩
          rw [hls] at hls'; cases hls'
          exact hnv r' hv'
      · rename_i hnone
        -- the set is foreign, unknown or dead: the arena side does nothing.  A foreign set's table
        -- may change (it is vacated), which the relation does not read.
        cases hloc : S.loc[h.set]? with
        | none =>
          apply nonvac
          rintro ⟨_, rs', r', hls', _⟩
          obtain ⟨hsets, _⟩ := DynRoots.liveSet_eq_some.1 hls'
          have hlt : h.set < S.loc.length := by
            rw [hc.len]; exact (List.getElem?_eq_some_iff.1 hsets).1
          rw [List.getElem?_eq_getElem hlt] at hloc; cases hloc
        | some ox =>
          cases ox with
          | some x =>
            apply nonvac
            rintro ⟨_, rs', r', hls', _⟩
            exact hnone x rs' hloc hls'
          | none =>
            by_cases hv : Vacates S.d h
            · obtain ⟨_, rs', r', hls', hv'⟩ := hv
              obtain ⟨dlen, _⟩ := next_drop_vacates hm hls' hv'
              exact hc.env _ h.set hloc dlen (next_drop_vacates' hm hls' hv').1
            · exact nonvac hv
    · exact hc
  | fetch s h => exact hc.fetchLike s h _ (DynRoots.next_fetch _ _ _)
  | tryFetch s h => exact hc.fetchLike s h _ (DynRoots.next_tryFetch _ _ _)
  | contains s h =>
    apply hc.doD_same
    rw [DynRoots.next_contains]; exact SameTables.refl _
  | gc op =>
    simp only [GSys.step]
    split
    · rename_i hal; exact hc.gc hal
    · exact hc
  | envNewSet => exact hc.envNewSet
  | envStash s r =>
    simp only [GSys.step]
    split
    · rename_i hf
      exact hc.env _ s hf (next_stash_len _ _ _) (fun s' hne => next_stash_other _ _ _ _ hne)
    · exact hc
  | envDestroy s =>
    simp only [GSys.step]
    split
    · rename_i hf
      exact hc.env _ s hf (next_destroy _ _).1 (fun s' hne => next_destroy_other _ _ _ hne)
    · exact hc

/-- The coupling relation holds after every operation sequence of the general coupled system. -/
theorem GCore.run (ops : List GOp) : ∀ {S : GSys}, GCore S → GCore (S.run ops) := by
  induction ops with
  | nil => intro S hc; exact hc
  | cons op ops ih => intro S hc; exact ih (hc.step op)


/-! ## 5. Two `finish_cycle` calls -/

/-- The self-driven `finish_cycle` op outside callbacks is exactly `do_collection(Stop, FinishCycle)`
on the context; root, temps, callback state untouched. -/
theorem step_finishCycle {a : Arena} (h : Inv a) (hcb : a.cb = none) (k : Cont) :
    (a.step (.collect .finishCycle k none none)).1 =
      { a with marked := false, ctx := (a.ctx.doCollection a.root .stop .finishCycle none).1, cover := [] } := by
  have hnot : (!a.alive) = false := by rw [h.alive]; rfl
  have hret := doCollection_returns (cinv0 h hcb) .stop .finishCycle
  unfold Arena.step
  rw [hnot]
  simp only [Bool.false_eq_true, if_false, Arena.stepBody, hcb, Option.isSome_none, Arena.splitOracle,
    Arena.runCollector, Arena.methodArgs]
  rw [show (a.ctx.doCollection a.root .stop .finishCycle none) =
    ((a.ctx.doCollection a.root .stop .finishCycle none).1, (a.ctx.doCollection a.root .stop .finishCycle none).2) from rfl,
    hret]
  simp

/-- `arena.finish_cycle()` as an op of the general system. -/
def gfc : GOp := .gc (.collect .finishCycle .drop none none)

theorem GSys.sync_a (S : GSys) : S.sync.a = S.a := by
  unfold GSys.sync; exact (S.doDs_spec _).1

theorem GCore.finishCycle {S : GSys} (hc : GCore S) (hal : S.a.alive = true)
    (hcb : S.a.cb = none) :
    (S.step gfc).a.ctx = (S.a.ctx.doCollection S.a.root .stop .finishCycle none).1 ∧
    (S.step gfc).a.root = S.a.root ∧ (S.step gfc).a.cb = none ∧ (S.step gfc).a.alive = true := by
  have e : S.step gfc =
      ({ S with a := (S.a.step (.collect .finishCycle .drop none none)).1 } : GSys).sync := by
    simp [GSys.step, gfc, GSys.allowed]
  rw [e, GSys.sync_a]
  show (S.a.step _).1.ctx = _ ∧ (S.a.step _).1.root = _ ∧ (S.a.step _).1.cb = _ ∧ (S.a.step _).1.alive = _
  rw [step_finishCycle (hc.inv hal) hcb]
  exact ⟨rfl, rfl, hcb, hal⟩


/-! ## 6. The full relation: a set of the arena is alive in the slot-table state **iff** its object is
allocated and undestructed -/

/-- Replacing one entry of `sets` keeps set `s` alive if the new entry (when it is `s`'s) is alive. -/
theorem liveSet_of_sets_set {d d' : State} {t s : Nat} {r rs : RootSet}
    (hs : d'.sets = d.sets.set t r) (hl : d.liveSet s = some rs) (hr : t = s → r.alive = true) :
    ∃ rs', d'.liveSet s = some rs' := by
  obtain ⟨h1, h2⟩ := DynRoots.liveSet_eq_some.1 hl
  by_cases he : t = s
  · subst he
    refine ⟨r, DynRoots.liveSet_eq_some.2 ⟨?_, hr rfl⟩⟩
    rw [hs, List.getElem?_set]
    simp [(List.getElem?_eq_some_iff.1 h1).1]
  · refine ⟨rs, ?_⟩
    have : d'.sets[s]? = d.sets[s]? := by rw [hs]; exact List.getElem?_set_ne he
    rw [liveSet_congr this]; exact hl

/-- No DynRoots op other than `destroySet s` ends the life of set `s`. -/
theorem next_alive (d : State) (op : DynRoots.Op) (s : Nat) (rs : RootSet)
    (hne : op ≠ .destroySet s) (hl : d.liveSet s = some rs) :
    ∃ rs', (DynRoots.next d op).liveSet s = some rs' := by
  have same : ∀ d' : State, d'.sets = d.sets → ∃ rs', d'.liveSet s = some rs' := fun d' h =>
    ⟨rs, by rw [liveSet_congr (d := d) (d' := d') (by rw [h])]; exact hl⟩
  cases op with
  | newSet =>
    rw [next_newSet]
    obtain ⟨h1, _⟩ := DynRoots.liveSet_eq_some.1 hl
    have hlt := (List.getElem?_eq_some_iff.1 h1).1
    refine ⟨rs, ?_⟩
    have : (d.sets ++ [⟨true, Slots.new⟩])[s]? = d.sets[s]? := by
      rw [List.getElem?_append]; simp [hlt]
    rw [liveSet_congr (d := d) (d' := { d with sets := d.sets ++ [⟨true, Slots.new⟩] }) this]
    exact hl
  | stash t p =>
    cases ht : d.liveSet t with
    | none => exact same _ (by simp [DynRoots.next, DynRoots.step, ht])
    | some rt =>
      cases ha : rt.slots.add p with
      | error f => exact same _ (by simp [DynRoots.next, DynRoots.step, ht, ha])
      | ok res =>
        obtain ⟨sl, idx⟩ := res
        rw [next_stash_eq ht ha]
        exact liveSet_of_sets_set (d := d) rfl hl (fun _ => (DynRoots.liveSet_eq_some.1 ht).2)
  | clone h =>
    unfold DynRoots.next
    by_cases hm : h ∈ d.handles
    · cases ht : d.liveSet h.set with
      | none => simp only [DynRoots.step, hm, if_true, ht]; exact same _ rfl
      | some rt =>
        cases hi : rt.slots.inc h.index with
        | error f => simp only [DynRoots.step, hm, if_true, ht, hi]; exact ⟨rs, hl⟩
        | ok sl =>
          simp only [DynRoots.step, hm, if_true, ht, hi, DynRoots.State.withSlots]
          exact liveSet_of_sets_set (d := d) rfl hl (fun _ => (DynRoots.liveSet_eq_some.1 ht).2)
    · simp only [DynRoots.step, hm, if_false]; exact ⟨rs, hl⟩
  | dropHandle h =>
    unfold DynRoots.next
    by_cases hm : h ∈ d.handles
    · cases ht : d.liveSet h.set with
      | none => simp only [DynRoots.step, hm, if_true, ht]; exact same _ rfl
      | some rt =>
        cases hi : rt.slots.dec h.index with
        | error f => simp only [DynRoots.step, hm, if_true, ht, hi]; exact ⟨rs, hl⟩
        | ok sl =>
          simp only [DynRoots.step, hm, if_true, ht, hi, DynRoots.State.withSlots]
          exact liveSet_of_sets_set (d := d) rfl hl (fun _ => (DynRoots.liveSet_eq_some.1 ht).2)
    · simp only [DynRoots.step, hm, if_false]; exact ⟨rs, hl⟩
  | fetch t h => rw [DynRoots.next_fetch]; exact ⟨rs, hl⟩
  | tryFetch t h => rw [DynRoots.next_tryFetch]; exact ⟨rs, hl⟩
  | contains t h => rw [DynRoots.next_contains]; exact ⟨rs, hl⟩
  | destroySet t =>
    have : s ≠ t := fun e => hne (by rw [e])
    exact ⟨rs, by rw [liveSet_congr (next_destroy_other d t s this)]; exact hl⟩

theorem objLive_iff {a : Arena} {x : Nat} :
    objLive a x = true ↔ a.alive = true ∧ ∃ o, a.ctx.heap.get x = some o ∧ o.live = true := by
  unfold objLive
  cases h : a.ctx.heap.get x <;> simp

/-- **The coupling relation of the general system.**  `GCore` (the slot-table side is a run of the
DynRoots model; `Inv` while the arena exists; a set of the arena that is alive in the slot-table
state has an allocated, undestructed set object whose slot list is exactly the image of its table),
and conversely (`live`): **a set of the arena whose object is allocated and undestructed is alive in
the slot-table state** — `sync` destroys only sets whose object is gone, and a destructed or
released id never holds an undestructed object again (`bound`, `Mono`).  `deadEmpty`: a dropped
arena has no root and no held pointer, so nothing is accessible in it. -/
structure GCoupled (S : GSys) : Prop extends GCore S where
  bound : S.a.alive = true → ∀ (s x : Nat), S.loc[s]? = some (some x) → x < S.a.ctx.heap.size
  live : ∀ (s x : Nat), S.loc[s]? = some (some x) → objLive S.a x = true →
    ∃ rs, S.d.liveSet s = some rs
  deadEmpty : S.a.alive = false → S.a.root = [] ∧ S.a.temps = []

theorem GCoupled.init (n : Nat) : GCoupled (GSys.init n) :=
  { toGCore := GCore.init n
    bound := by simp [GSys.init]
    live := by simp [GSys.init]
    deadEmpty := by intro h; simp [GSys.init, Arena.new] at h }

/-- The three extra clauses, for a step that keeps `loc`, moves the arena monotonically (or not at
all) and ends the life of no set of the arena. -/
theorem GCoupled.extras {S S' : GSys} (hc : GCoupled S) (core : GCore S') (hloc : S'.loc = S.loc)
    (harena : S'.a = S.a ∨ (S.a.alive = true ∧ S'.a.alive = true ∧ Mono S.a.ctx S'.a.ctx))
    (hd : ∀ (s x : Nat) (rs : RootSet), S.loc[s]? = some (some x) → S.d.liveSet s = some rs →
      ∃ rs', S'.d.liveSet s = some rs') : GCoupled S' := by
  refine { toGCore := core, bound := ?_, live := ?_, deadEmpty := ?_ }
  · intro hal s x hl
    rw [hloc] at hl
    rcases harena with e | ⟨h1, _, hm⟩
    · rw [e] at hal ⊢; exact hc.bound hal s x hl
    · exact Nat.lt_of_lt_of_le (hc.bound h1 s x hl) hm.1
  · intro s x hl hlive
    rw [hloc] at hl
    have hlive0 : objLive S.a x = true := by
      rcases harena with e | ⟨h1, _, hm⟩
      · rw [e] at hlive; exact hlive
      · obtain ⟨_, o', ho', hl'⟩ := objLive_iff.1 hlive
        obtain ⟨o, ho, hl0⟩ := hm.2 x o' (hc.bound h1 s x hl) ho' hl'
        exact objLive_iff.2 ⟨h1, o, ho, hl0⟩
    obtain ⟨rs, hrs⟩ := hc.live s x hl hlive0
    exact hd s x rs hl hrs
  · intro hal
    rcases harena with e | ⟨_, h2, _⟩
    · rw [e] at hal ⊢; exact hc.deadEmpty hal
    · rw [h2] at hal; cases hal

theorem GCoupled.doD_keep {S : GSys} (hc : GCoupled S) (op : DynRoots.Op) (core : GCore (S.doD op))
    (hne : ∀ (s x : Nat), S.loc[s]? = some (some x) → op ≠ .destroySet s) : GCoupled (S.doD op) :=
  hc.extras core rfl (.inl rfl) (fun s x rs hl hrs => next_alive S.d op s rs (hne s x hl) hrs)

theorem step_dropArena_dead {a : Arena} (h : Inv a) (hd : (a.step .dropArena).1.alive = false) :
    (a.step .dropArena).1.root = [] ∧ (a.step .dropArena).1.temps = [] := by
  rw [step_alive_eq h.alive] at hd ⊢
  simp only [Arena.stepBody] at hd ⊢
  split at hd
  · rw [Arena.bad] at hd; simp only at hd; rw [h.alive] at hd; cases hd
  · rename_i hcb
    split
    · rename_i hcb'; exact absurd hcb' hcb
    · have : a.cb = none := by cases hx : a.cb <;> simp_all
      exact ⟨rfl, h.cbTemps this⟩

/-- **Every operation of the general coupled system preserves the coupling relation.** -/
theorem GCoupled.step {S : GSys} (hc : GCoupled S) (op : GOp) : GCoupled (S.step op) := by
  have core : GCore (S.step op) := hc.toGCore.step op
  cases op with
  | newSet =>
    simp only [GSys.step] at core ⊢
    split
    · rename_i hg
      rw [if_pos hg] at core
      simp only [Bool.and_eq_true] at hg
      have hal := hg.1
      have hcb : S.a.cb ≠ none := by intro e; rw [e] at hg; simp at hg
      have hinv := hc.inv hal
      have hm : Mono S.a.ctx (S.a.step (.alloc true [])).1.ctx := step_mono hinv _ (by intro e; cases e)
      have hal' : (S.a.step (.alloc true [])).1.alive = true := by
        rw [(step_fr hinv (.alloc true []) (by intro e; cases e)).1]; exact hal
      have e1 : (S.a.step (.alloc true [])).1 =
          ({ S.a with marked := false, ctx := (S.a.ctx.link (emptySetObj 0)).1 } : Arena).push
            (.strong S.a.ctx.heap.fresh) := step_alloc_empty hal hcb 0
      have hctx : (S.a.step (.alloc true [])).1.ctx = (S.a.ctx.link (emptySetObj 0)).1 := by
        rw [e1]; exact (Arena.push_spec _ _).1
      have hsize : S.a.ctx.heap.fresh < (S.a.step (.alloc true [])).1.ctx.heap.size := by
        rw [hctx]
        have : (S.a.ctx.link (emptySetObj 0)).1.heap.get S.a.ctx.heap.fresh = some (emptySetObj 0) := by
          simp [Ctx.link]
        exact Heap.lt_size_of_get _ _ _ this
      refine { toGCore := core, bound := ?_, live := ?_, deadEmpty := ?_ }
      · intro _ s x hl
        change (S.loc ++ [some S.a.ctx.heap.fresh])[s]? = some (some x) at hl
        show x < (S.a.step (.alloc true [])).1.ctx.heap.size
        rcases getElem?_append_one hl with ⟨_, h0⟩ | ⟨_, h2⟩
        · exact Nat.lt_of_lt_of_le (hc.bound hal s x h0) hm.1
        · cases h2; exact hsize
      · intro s x hl hlive
        change (S.loc ++ [some S.a.ctx.heap.fresh])[s]? = some (some x) at hl
        change objLive (S.a.step (.alloc true [])).1 x = true at hlive
        show ∃ rs, (DynRoots.next S.d .newSet).liveSet s = some rs
        rcases getElem?_append_one hl with ⟨_, h0⟩ | ⟨he, _⟩
        · obtain ⟨_, o', ho', hl'⟩ := objLive_iff.1 hlive
          obtain ⟨o, ho, hl0⟩ := hm.2 x o' (hc.bound hal s x h0) ho' hl'
          obtain ⟨rs, hrs⟩ := hc.live s x h0 (objLive_iff.2 ⟨hal, o, ho, hl0⟩)
          exact next_alive S.d .newSet s rs (by intro e; cases e) hrs
        · refine ⟨⟨true, Slots.new⟩, ?_⟩
          rw [next_newSet]
          apply DynRoots.liveSet_eq_some.2
          refine ⟨?_, rfl⟩
          show (S.d.sets ++ [_])[s]? = _
          rw [he, hc.len]; simp
      · intro hd
        change (S.a.step (.alloc true [])).1.alive = false at hd
        rw [hal'] at hd; cases hd
    · exact hc
  | stash s r =>
    simp only [GSys.step] at core ⊢
    split
    · rename_i x rs hl hls
      simp only [hl, hls] at core
      split
      · rename_i sl idx ha
        simp only [ha] at core
        split
        · rename_i hg
          rw [if_pos hg] at core
          simp only [Bool.and_eq_true] at hg
          obtain ⟨hal, hx⟩ := hc.sets s x rs hl hls
          have hcb : S.a.cb ≠ none := by intro e; rw [e] at hg; simp at hg
          have hidx : idx ≤ (rs.slots.slots.map img).length := by
            rcases add_cases ha with ⟨h, _⟩ | ⟨h, _⟩ <;> simp <;> omega
          obtain ⟨inv', _, _, _, _, _, _, hm⟩ := stashArena_spec (hc.inv hal) hcb hx hg.1.2 hg.2 hidx
          exact hc.extras core rfl (.inr ⟨hal, inv'.alive, hm⟩)
            (fun s' x' rs' _ hrs => next_alive S.d _ s' rs' (by intro e; cases e) hrs)
        · exact hc
      · exact hc
    · exact hc
  | clone h => exact hc.doD_keep _ core (fun _ _ _ e => by cases e)
  | dropHandle h =>
    simp only [GSys.step] at core ⊢
    split
    · rename_i hm
      rw [if_pos hm] at core
      split
      · rename_i x rs hl hls
        simp only [hl, hls] at core
        split
        · rename_i r hv
          simp only [hv] at core
          obtain ⟨hal, _⟩ := hc.sets h.set x rs hl hls
          exact hc.extras core rfl
            (.inr ⟨hal, hal, mono_of_quiet (quiet_setSlot _ _ _ _)⟩)
            (fun s' x' rs' _ hrs => next_alive S.d _ s' rs' (by intro e; cases e) hrs)
        · rename_i hnv
          have : (match rs.slots.slots[h.index]? with
              | some (.occupied _ 0) =>
                ({ S with a := clearArena S.a x h.index } : GSys).doD (.dropHandle h)
              | _ => S.doD (.dropHandle h)) = S.doD (.dropHandle h) := by
            split
            · rename_i r hv; exact absurd hv (hnv r)
            · rfl
          rw [this] at core
          exact hc.doD_keep _ core (fun _ _ _ e => by cases e)
      · rename_i hnone
        have : (match S.loc[h.set]?, S.d.liveSet h.set with
            | some (some x), some rs =>
              match rs.slots.slots[h.index]? with
              | some (.occupied _ 0) =>
                ({ S with a := clearArena S.a x h.index } : GSys).doD (.dropHandle h)
              | _ => S.doD (.dropHandle h)
            | _, _ => S.doD (.dropHandle h)) = S.doD (.dropHandle h) := by
          split
          · rename_i x rs hl hls; exact absurd hls (fun e => hnone x rs hl e)
          · rfl
        rw [this] at core
        exact hc.doD_keep _ core (fun _ _ _ e => by cases e)
    · exact hc
  | fetch s h =>
    show GCoupled (S.fetchLike s h (.fetch s h))
    change GCore (S.fetchLike s h (.fetch s h)) at core
    unfold GSys.fetchLike at core ⊢
    split
    · rename_i x hl
      simp only [hl] at core
      split
      · rename_i hg
        rw [if_pos hg] at core
        simp only [Bool.and_eq_true] at hg
        have hal : S.a.alive = true := hg.1.1.1.1.1
        have hinv := hc.inv hal
        refine hc.extras core rfl (.inr ⟨hal, ?_, step_mono hinv _ (by intro e; cases e)⟩)
          (fun s' x' rs' _ hrs => next_alive S.d _ s' rs' (by intro e; cases e) hrs)
        show (S.a.step (.read x h.index)).1.alive = true
        rw [(step_fr hinv (.read x h.index) (by intro e; cases e)).1]; exact hal
      · rename_i hg
        rw [if_neg hg] at core
        exact hc.doD_keep _ core (fun _ _ _ e => by cases e)
    · rename_i hnone
      have : (match S.loc[s]? with
          | some (some x) =>
            if S.a.alive && S.a.cb.isSome && S.a.holds (.strong x) && decide (h ∈ S.d.handles)
                && (S.d.liveSet s).isSome && containsB s h then
              ({ S with a := (S.a.step (.read x h.index)).1 } : GSys).doD (.fetch s h)
            else S.doD (.fetch s h)
          | _ => S.doD (.fetch s h)) = S.doD (.fetch s h) := by
        split
        · rename_i x hl; exact absurd hl (hnone x)
        · rfl
      rw [this] at core
      exact hc.doD_keep _ core (fun _ _ _ e => by cases e)
  | tryFetch s h =>
    show GCoupled (S.fetchLike s h (.tryFetch s h))
    change GCore (S.fetchLike s h (.tryFetch s h)) at core
    unfold GSys.fetchLike at core ⊢
    split
    · rename_i x hl
      simp only [hl] at core
      split
      · rename_i hg
        rw [if_pos hg] at core
        simp only [Bool.and_eq_true] at hg
        have hal : S.a.alive = true := hg.1.1.1.1.1
        have hinv := hc.inv hal
        refine hc.extras core rfl (.inr ⟨hal, ?_, step_mono hinv _ (by intro e; cases e)⟩)
          (fun s' x' rs' _ hrs => next_alive S.d _ s' rs' (by intro e; cases e) hrs)
        show (S.a.step (.read x h.index)).1.alive = true
        rw [(step_fr hinv (.read x h.index) (by intro e; cases e)).1]; exact hal
      · rename_i hg
        rw [if_neg hg] at core
        exact hc.doD_keep _ core (fun _ _ _ e => by cases e)
    · rename_i hnone
      have : (match S.loc[s]? with
          | some (some x) =>
            if S.a.alive && S.a.cb.isSome && S.a.holds (.strong x) && decide (h ∈ S.d.handles)
                && (S.d.liveSet s).isSome && containsB s h then
              ({ S with a := (S.a.step (.read x h.index)).1 } : GSys).doD (.tryFetch s h)
            else S.doD (.tryFetch s h)
          | _ => S.doD (.tryFetch s h)) = S.doD (.tryFetch s h) := by
        split
        · rename_i x hl; exact absurd hl (hnone x)
        · rfl
      rw [this] at core
      exact hc.doD_keep _ core (fun _ _ _ e => by cases e)
  | contains s h => exact hc.doD_keep _ core (fun _ _ _ e => by cases e)
  | gc op =>
    simp only [GSys.step] at core ⊢
    split
    · rename_i hal
      rw [if_pos hal] at core
      generalize hS1 : ({ S with a := (S.a.step op).1 } : GSys) = S1 at core
      have a1 : S1.a = (S.a.step op).1 := by rw [← hS1]
      have l1 : S1.loc = S.loc := by rw [← hS1]
      have d1 : S1.d = S.d := by rw [← hS1]
      obtain ⟨s1, s2, s3, _⟩ := S1.doDs_spec (((List.range S1.loc.length).filter S1.gone).map .destroySet)
      obtain ⟨_, _, _, r4, _⟩ := run_destroy' ((List.range S1.loc.length).filter S1.gone) S1.d
      have sa : S1.sync.a = (S.a.step op).1 := by unfold GSys.sync; rw [s1, a1]
      have sl : S1.sync.loc = S.loc := by unfold GSys.sync; rw [s2, l1]
      -- how the arena moved
      have hmove : (S.a.step op).1 = S.a ∨
          (S.a.alive = true ∧ (S.a.step op).1.alive = false ∧ (S.a.step op).1.root = [] ∧
            (S.a.step op).1.temps = []) ∨
          (S.a.alive = true ∧ (S.a.step op).1.alive = true ∧ Mono S.a.ctx (S.a.step op).1.ctx) := by
        cases hal0 : S.a.alive with
        | false => exact .inl (step_dead hal0 op)
        | true =>
          have hinv := hc.inv hal0
          by_cases hda : op = .dropArena
          · subst hda
            rcases step_dropArena_cases S.a hal0 with h | ⟨h1, h2⟩
            · exact .inr (.inl ⟨rfl, h, step_dropArena_dead hinv h⟩)
            · exact .inr (.inr ⟨rfl, h1, by rw [h2]; exact Mono.refl _⟩)
          · exact .inr (.inr ⟨rfl, by rw [(step_fr hinv op hda).1]; exact hal0, step_mono hinv op hda⟩)
      refine { toGCore := core, bound := ?_, live := ?_, deadEmpty := ?_ }
      · intro hal' s x hl
        rw [sa] at hal' ⊢; rw [sl] at hl
        rcases hmove with e | ⟨_, h2, _⟩ | ⟨h1, _, hm⟩
        · rw [e] at hal' ⊢; exact hc.bound hal' s x hl
        · rw [h2] at hal'; cases hal'
        · exact Nat.lt_of_lt_of_le (hc.bound h1 s x hl) hm.1
      · intro s x hl hlive
        rw [sa] at hlive; rw [sl] at hl
        have hlive0 : objLive S.a x = true := by
          rcases hmove with e | ⟨_, h2, _⟩ | ⟨h1, _, hm⟩
          · rw [e] at hlive; exact hlive
          · rw [(objLive_iff.1 hlive).1] at h2; cases h2
          · obtain ⟨_, o', ho', hl'⟩ := objLive_iff.1 hlive
            obtain ⟨o, ho, hl0⟩ := hm.2 x o' (hc.bound h1 s x hl) ho' hl'
            exact objLive_iff.2 ⟨h1, o, ho, hl0⟩
        obtain ⟨rs, hrs⟩ := hc.live s x hl hlive0
        -- `s` is not `gone`, so `sync` leaves it alone
        have hng : s ∉ (List.range S1.loc.length).filter S1.gone := by
          intro hmem
          have hg := (List.mem_filter.1 hmem).2
          unfold GSys.gone at hg
          rw [l1, hl, a1] at hg
          simp only [hlive] at hg
          cases hg
        refine ⟨rs, ?_⟩
        unfold GSys.sync
        rw [s3, r4 s hng, d1]; exact hrs
      · intro hd
        rw [sa] at hd ⊢
        rcases hmove with e | ⟨_, _, h3, h4⟩ | ⟨_, h2, _⟩
        · rw [e] at hd ⊢; exact hc.deadEmpty hd
        · exact ⟨h3, h4⟩
        · rw [h2] at hd; cases hd
    · exact hc
  | envNewSet =>
    refine { toGCore := core, bound := ?_, live := ?_, deadEmpty := hc.deadEmpty }
    · intro hal s x hl
      change (S.loc ++ [none])[s]? = some (some x) at hl
      rcases getElem?_append_one hl with ⟨_, h0⟩ | ⟨_, h2⟩
      · exact hc.bound hal s x h0
      · cases h2
    · intro s x hl hlive
      change (S.loc ++ [none])[s]? = some (some x) at hl
      rcases getElem?_append_one hl with ⟨_, h0⟩ | ⟨_, h2⟩
      · obtain ⟨rs, hrs⟩ := hc.live s x h0 hlive
        exact next_alive S.d .newSet s rs (by intro e; cases e) hrs
      · cases h2
  | envStash s r =>
    simp only [GSys.step] at core ⊢
    split
    · rename_i hf
      rw [if_pos hf] at core
      exact hc.doD_keep _ core (fun _ _ _ e => by cases e)
    · exact hc
  | envDestroy s =>
    simp only [GSys.step] at core ⊢
    split
    · rename_i hf
      rw [if_pos hf] at core
      refine hc.doD_keep _ core ?_
      intro s' x hl e
      cases e
      rw [hf] at hl; cases hl
    · exact hc

/-- The coupling relation holds after every operation sequence of the general coupled system. -/
theorem GCoupled.run (ops : List GOp) : ∀ {S : GSys}, GCoupled S → GCoupled (S.run ops) := by
  induction ops with
  | nil => intro S hc; exact hc
  | cons op ops ih => intro S hc; exact ih (hc.step op)

/-- **A set of the arena is alive in the slot-table state iff its object is allocated and
undestructed** (and the arena exists). -/
theorem GCoupled.alive_iff {S : GSys} (hc : GCoupled S) {s x : Nat} (hl : S.loc[s]? = some (some x)) :
    (∃ rs, S.d.liveSet s = some rs) ↔ objLive S.a x = true := by
  constructor
  · rintro ⟨rs, hrs⟩
    obtain ⟨hal, o, ho, hlive, _⟩ := hc.sets s x rs hl hrs
    exact objLive_iff.2 ⟨hal, o, ho, hlive⟩
  · exact hc.live s x hl

/-- A set object the client can reach belongs to a set that is alive in the slot-table state (and the
arena exists): accessible ⇒ allocated and undestructed (`Inv`) ⇒ not destroyed (`live`). -/
theorem GCoupled.alive_of_accessible {S : GSys} (hc : GCoupled S) {s x : Nat}
    (hl : S.loc[s]? = some (some x)) (hacc : Accessible S.a x) :
    S.a.alive = true ∧ ∃ rs, S.d.liveSet s = some rs := by
  have hal : S.a.alive = true := by
    cases h : S.a.alive with
    | true => rfl
    | false =>
      exfalso
      obtain ⟨hr, ht⟩ := hc.deadEmpty h
      have : ∀ j, Accessible S.a j → False := by
        intro j hj
        induction hj with
        | root t h1 => rw [hr] at h1; cases h1
        | temp t h1 => rw [ht] at h1; cases h1
        | edge _ _ _ _ ih => exact ih
      exact this x hacc
  obtain ⟨o, ho, hlive, _⟩ := (hc.inv hal).safe_of_accessible hacc
  exact ⟨hal, hc.live s x hl (objLive_iff.2 ⟨hal, o, ho, hlive⟩)⟩

theorem GCoupled.finishCycle {S : GSys} (hc : GCoupled S) (hal : S.a.alive = true)
    (hcb : S.a.cb = none) :
    (S.step gfc).a.ctx = (S.a.ctx.doCollection S.a.root .stop .finishCycle none).1 ∧
    (S.step gfc).a.root = S.a.root ∧ (S.step gfc).a.cb = none ∧ (S.step gfc).a.alive = true :=
  hc.toGCore.finishCycle hal hcb

/-! ## 7. A handle dropped by a destructor during a sweep step -/

/-- The two contexts agree on every field and on every heap cell. -/
structure CtxEq (c c' : Ctx) : Prop where
  phase : c.phase = c'.phase
  heap : ∀ j, c.heap.get j = c'.heap.get j
  pre : c.pre = c'.pre
  rest : c.rest = c'.rest
  rnt : c.rootNeedsTrace = c'.rootNeedsTrace
  gray : c.gray = c'.gray
  grayAgain : c.grayAgain = c'.grayAgain
  metrics : c.metrics = c'.metrics
  log : c.log = c'.log
  steps : c.steps = c'.steps
  err : c.err = c'.err

/-- **Clearing a slot of `x` commutes with a sweep step whose cursor is not at `x`**: the two orders
give contexts that agree on every field and every heap cell, and the same control flow.  So a handle
dropped by the destructor of the object `i0 ≠ x` that `sweep_one` is destructing — the clearing then
happens in the middle of that `sweep_one` — leaves the state that "`sweepStep`, then `dropHandle`"
leaves in the general system (split the collection call there into two oracle-driven `collect` ops).
If the cursor is at `x` itself and `x` is destructed, the set is destroyed (`sync`), its `Rc` is gone
and the drop clears nothing. -/
theorem clear_commutes_sweepOne (c : Ctx) (x i : Nat) (o : Obj) (ho : c.heap.get x = some o)
    (hne : ∀ i0 rest', c.rest = i0 :: rest' → i0 ≠ x) :
    CtxEq (Arena.setSlot c x i none).sweepOne.1 (Arena.setSlot c.sweepOne.1 x i none) ∧
    (Arena.setSlot c x i none).sweepOne.2 = c.sweepOne.2 := by
  rw [setSlot_eq ho]
  cases hr : c.rest with
  | nil =>
    have e1 : c.sweepOne = (c.step 'e', .break) := sweepOne_end hr
    have e2 : (c.setObj x { o with slots := o.slots.set i none }).sweepOne =
        ((c.setObj x { o with slots := o.slots.set i none }).step 'e', .break) := sweepOne_end hr
    rw [e1, e2]
    refine ⟨?_, rfl⟩
    rw [setSlot_eq (c := c.step 'e') (o := o) ho]
    constructor <;> first | rfl | (intro j; rfl)
  | cons i0 rest' =>
    have hi0 : i0 ≠ x := hne i0 rest' hr
    have hi0' : x ≠ i0 := fun e => hi0 e.symm
    have hx' : c.sweepOne.1.heap.get x = some o := by
      cases hg : c.heap.get i0 with
      | none =>
        have : c.sweepOne.1.heap = c.heap := by unfold Ctx.sweepOne; simp [hr, hg]
        rw [this]; exact ho
      | some o0 => rw [(sweepOne_cases hr hg).2.2.1 x hi0']; exact ho
    rw [setSlot_eq hx']
    unfold Ctx.sweepOne
    simp only [hr, Ctx.setObj_rest, Ctx.step_heap, Ctx.setObj_get, hi0, if_false]
    cases hg : c.heap.get i0 with
    | none =>
      simp only
      refine ⟨?_, trivial⟩
      constructor <;> (try rfl) <;> (try (intro j)) <;>
        simp [Ctx.fail, Ctx.step, Ctx.setObj] <;> (cases c.err <;> simp [Heap.get_set])
    | some o0 =>
      simp only
      cases hcol : o0.color <;> cases hlv : o0.live <;> simp only [] <;>
        (refine ⟨?_, by first | trivial | rfl⟩; constructor <;> (try rfl) <;> (try (intro j)) <;>
          simp [Ctx.fail, Ctx.step, Ctx.setObj, Ctx.emit, Ctx.withMetrics, Heap.get_set] <;>
          (try (cases c.err <;> simp [Heap.get_set])) <;> (try split) <;> (try split) <;> simp_all)

end GcArena.DynReach
