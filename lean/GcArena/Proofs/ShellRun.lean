import GcArena.Proofs.Release
/-!
  Shell release under a *per-state* premise.

  `WeakHeldA a i`: a `GcWeak` to `i` is stored in the root, held by the running callback, or stored
  in an object the client can reach through `Gc` pointers from the root or from what the callback
  holds — "a reachable weak pointer refers to `i`", in the state `a`.

  If from the start of a cycle to its completion no state at an operation boundary has
  `WeakHeldA … i`, the shell `i` is released by the sweep of that cycle — whatever callbacks and
  collection calls are interleaved.  (Proofs/Release.lean has the version with a premise on the
  first state only, which must then be stronger: `¬ Nameable`.)
-/
namespace GcArena

/-! ### Which objects a mutator operation can mark -/

def Obj.marked (o : Obj) : Prop := o.color = .gray ∨ o.color = .black

/-- Every object gray or black in `c'` was so in `c`, or satisfies `S`. -/
def NewMarks (S : Nat → Prop) (c c' : Ctx) : Prop :=
  ∀ j o o', c.heap.get j = some o → c'.heap.get j = some o' → o'.marked → o.marked ∨ S j

theorem NewMarks.ofHeap {S} {c c' : Ctx}
    (h : ∀ j o, c.heap.get j = some o → c'.heap.get j = some o) : NewMarks S c c' := by
  intro j o o' ho ho' hm
  rw [h j o ho] at ho'; cases ho'; exact Or.inl hm

theorem NewMarks.refl {S} (c : Ctx) : NewMarks S c c := NewMarks.ofHeap (fun _ _ h => h)

theorem Recol.newMarks {T} {c c' : Ctx} (r : Recol T c c') : NewMarks T c c' := by
  intro j o o' ho ho' hm
  obtain ⟨o2, ho2, _, _, _, _, u⟩ := r.keep j o ho
  rw [ho'] at ho2; cases ho2
  by_cases hT : T j
  · exact Or.inr hT
  · rw [u hT] at hm; exact Or.inl hm

theorem NewMarks.trans {S} {a b c : Ctx} (h1 : NewMarks S a b) (h2 : NewMarks S b c)
    (hk : ∀ j o, a.heap.get j = some o → ∃ o1, b.heap.get j = some o1) : NewMarks S a c := by
  intro j o o2 ho ho2 hm
  obtain ⟨o1, ho1⟩ := hk j o ho
  rcases h2 j o1 o2 ho1 ho2 hm with h | h
  · exact h1 j o o1 ho ho1 h
  · exact Or.inr h

theorem newMarks_traceWeak {S} (c : Ctx) (t : Nat) : NewMarks S c (c.traceWeak t) := by
  intro j o o' ho ho' hm
  by_cases hj : j = t
  · subst hj
    rcases traceWeak_self c j o' ho' with h | h
    · rw [ho] at h; cases h; exact Or.inl hm
    · rcases hm with hm | hm <;> rw [h] at hm <;> cases hm
  · rw [Ctx.traceWeak_frame c t j hj, ho] at ho'; cases ho'; exact Or.inl hm

theorem newMarks_fail {S} (c : Ctx) (f : Fault) : NewMarks S c (c.fail f) :=
  NewMarks.ofHeap (fun j o h => by rw [Ctx.fail_heap]; exact h)

theorem newMarks_forwardBarrierWeak {S} (c : Ctx) (p : Option Nat) (ch : Nat) :
    NewMarks S c (c.forwardBarrierWeak p ch) := by
  unfold Ctx.forwardBarrierWeak
  split
  · split
    · exact newMarks_traceWeak _ _
    · split
      · exact newMarks_fail _ _
      · split
        · exact newMarks_traceWeak _ _
        · exact NewMarks.refl _
  · exact NewMarks.refl _

theorem newMarks_setSlot {S} (c : Ctx) (p i : Nat) (v : Slot) : NewMarks S c (Arena.setSlot c p i v) := by
  intro j o o' ho ho' hm
  unfold Arena.setSlot at ho'
  cases hp : c.heap.get p with
  | none => rw [hp] at ho'; simp only [Ctx.fail_heap] at ho'; rw [ho] at ho'; cases ho'; exact Or.inl hm
  | some op =>
    rw [hp] at ho'
    simp only [Ctx.setObj_get] at ho'
    by_cases hj : j = p
    · subst hj
      rw [hp] at ho; cases ho
      simp only [if_true, Option.some.injEq] at ho'
      subst ho'
      exact Or.inl hm
    · simp only [hj, if_false] at ho'
      rw [ho] at ho'; cases ho'; exact Or.inl hm

theorem setSlot_keepAlloc (c : Ctx) (p i : Nat) (v : Slot) :
    ∀ j o, c.heap.get j = some o → ∃ o1, (Arena.setSlot c p i v).heap.get j = some o1 := by
  intro j o ho
  obtain ⟨o', ho', _⟩ := (quiet_setSlot c p i v).keep j o ho
  exact ⟨o', ho'⟩

/-- The only objects a mutator operation turns gray or black are targets of `Gc` pointers the
    callback holds afterwards. -/
theorem stepBody_newMarks (a : Arena) (fin : Bool) (op : Op) (hop : op.isMutator = true) :
    NewMarks (fun j => Ptr.strong j ∈ (a.stepBody fin op).1.temps) a.ctx (a.stepBody fin op).1.ctx := by
  have rf : ∀ {S}, NewMarks S a.ctx a.ctx := fun {S} => NewMarks.refl _
  have mem : ∀ {p : Ptr}, a.holds p = true → p ∈ a.temps := fun h => (holds_iff a _).mp h
  cases op with
  | collect m k f o => simp [Op.isMutator] at hop
  | dropArena => simp [Op.isMutator] at hop
  | setPacing p => exact NewMarks.ofHeap (fun _ _ h => h)
  | adjustDebt x => exact NewMarks.ofHeap (fun _ _ h => h)
  | leave => simp only [Arena.stepBody]; split <;> exact rf
  | enter k =>
    simp only [Arena.stepBody]
    split
    · exact rf
    · cases k with
      | mutate => exact rf
      | mutateRoot =>
        refine NewMarks.ofHeap (fun j o h => ?_)
        show a.ctx.rootBarrier.heap.get j = some o
        unfold Ctx.rootBarrier; split <;> exact h
      | finalize => simp only; split <;> exact rf
  | alloc nt slots =>
    simp only [Arena.stepBody]
    split
    · exact rf
    · split
      · exact rf
      · split
        · exact rf
        · refine NewMarks.ofHeap (fun j o h => ?_)
          rw [(Arena.push_spec _ _).1]
          obtain ⟨o', ho', _⟩ := (quiet_link a.ctx
            { color := .white, needsTrace := nt, live := true, slots := slots } rfl).keep j o h
          have hj : j ≠ a.ctx.heap.fresh := by
            intro he; rw [he, Heap.get_fresh] at h; cases h
          simp [Ctx.link, Heap.get_set, hj, h]
  | readRoot i =>
    simp only [Arena.stepBody]
    split
    · exact rf
    · split <;> first | exact rf | (rw [(Arena.push_spec _ _).1]; exact NewMarks.refl _)
  | read p i =>
    simp only [Arena.stepBody]
    split
    · exact rf
    · split <;> first | exact rf | (rw [(Arena.push_spec _ _).1]; exact NewMarks.refl _)
  | downgrade p =>
    simp only [Arena.stepBody]
    split
    · exact rf
    · rw [(Arena.push_spec _ _).1]; exact NewMarks.refl _
  | upgrade w =>
    simp only [Arena.stepBody]
    split
    · exact rf
    · have hu : ∀ j o, a.ctx.heap.get j = some o → (a.ctx.upgrade w).1.heap.get j = some o := by
        intro j o h
        unfold Ctx.upgrade
        split
        · simpa using h
        · split
          · exact h
          · split <;> exact h
      generalize a.ctx.upgrade w = r at hu ⊢
      obtain ⟨c, ok⟩ := r
      simp only
      split
      · rw [(Arena.push_spec _ _).1]; exact NewMarks.ofHeap hu
      · exact NewMarks.ofHeap hu
  | isDropped w =>
    simp only [Arena.stepBody]
    split
    · exact rf
    · split
      · exact newMarks_fail _ _
      · exact rf
  | isDead p =>
    simp only [Arena.stepBody]
    split
    · exact rf
    · split
      · exact newMarks_fail _ _
      · exact rf
  | resurrect p =>
    simp only [Arena.stepBody]
    split
    · exact rf
    · rename_i hg
      simp only [Bool.or_eq_true, Bool.not_eq_true', not_or, Bool.not_eq_false, decide_eq_true_eq,
        Decidable.not_not] at hg
      cases p with
      | strong t => exact (recol_resurrect a.ctx t (T := fun j => Ptr.strong j ∈ a.temps) (mem hg.2)).newMarks
      | weak t =>
        simp only
        split
        · exact newMarks_fail _ _
        · split
          · obtain ⟨e1, _, _, _, _, _, _, e8⟩ := ({ a with ctx := a.ctx.resurrect t } : Arena).push_spec (.strong t)
            rw [e1]
            have hin : Ptr.strong t ∈ (({ a with ctx := a.ctx.resurrect t } : Arena).push (.strong t)).temps := by
              unfold Arena.push
              split
              · rename_i hh; exact (holds_iff _ _).mp hh
              · simp
            exact (recol_resurrect a.ctx t (T := fun j => Ptr.strong j ∈
              (({ a with ctx := a.ctx.resurrect t } : Arena).push (.strong t)).temps) hin).newMarks
          · exact rf
  | barrier b =>
    simp only [Arena.stepBody]
    split
    · exact rf
    · cases b with
      | bb p c =>
        cases c with
        | none =>
          simp only
          split
          · exact rf
          · rename_i hg
            have hp : a.holds (.strong p) = true := by simpa using hg
            exact (recol_backwardBarrier a.ctx p none (T := fun j => Ptr.strong j ∈ a.temps) (mem hp)).newMarks
        | some c =>
          simp only
          split
          · exact rf
          · rename_i hg
            simp only [Bool.or_eq_true, Bool.not_eq_true', not_or, Bool.not_eq_false] at hg
            exact (recol_backwardBarrier a.ctx p (some c) (T := fun j => Ptr.strong j ∈ a.temps) (mem hg.1)).newMarks
      | bbw p c =>
        simp only
        split
        · exact rf
        · rename_i hg
          simp only [Bool.or_eq_true, Bool.not_eq_true', not_or, Bool.not_eq_false] at hg
          exact (recol_backwardBarrierWeak a.ctx p c (T := fun j => Ptr.strong j ∈ a.temps) (mem hg.1)).newMarks
      | fb p c =>
        cases p with
        | none =>
          simp only
          split
          · exact rf
          · rename_i hg
            have hc : a.holds (.strong c) = true := by simpa using hg
            exact (recol_forwardBarrier a.ctx none c (T := fun j => Ptr.strong j ∈ a.temps) (mem hc)).newMarks
        | some p =>
          simp only
          split
          · exact rf
          · rename_i hg
            simp only [Bool.or_eq_true, Bool.not_eq_true', not_or, Bool.not_eq_false] at hg
            exact (recol_forwardBarrier a.ctx (some p) c (T := fun j => Ptr.strong j ∈ a.temps) (mem hg.2)).newMarks
      | fbw p c =>
        cases p with
        | none => simp only; split <;> first | exact rf | exact newMarks_forwardBarrierWeak a.ctx none c
        | some p => simp only; split <;> first | exact rf | exact newMarks_forwardBarrierWeak a.ctx (some p) c
  | store path p i v =>
    simp only [Arena.stepBody]
    split
    · exact rf
    · rename_i hg
      simp only [Bool.or_eq_true, Bool.not_eq_true', not_or, Bool.not_eq_false] at hg
      have hp : Ptr.strong p ∈ a.temps := mem hg.1.2
      have hbb : ∀ c0 : Ctx, NewMarks (fun j => Ptr.strong j ∈ a.temps) c0 (c0.backwardBarrier p none) :=
        fun c0 => (recol_backwardBarrier c0 p none (T := fun j => Ptr.strong j ∈ a.temps) hp).newMarks
      split
      · exact rf
      · split
        · exact rf
        · cases path with
          | write =>
            exact (hbb a.ctx).trans (newMarks_setSlot _ p i v)
              (fun j o ho => by
                obtain ⟨o', ho', _⟩ := (recol_backwardBarrier a.ctx p none (T := fun _ => True) trivial).keep j o ho
                exact ⟨o', ho'⟩)
          | raw =>
            simp only
            split
            · exact rf
            · exact newMarks_setSlot _ p i v
          | storeThenBarrier =>
            exact (newMarks_setSlot a.ctx p i v).trans (hbb _) (setSlot_keepAlloc a.ctx p i v)
  | rootStore i v =>
    simp only [Arena.stepBody]
    split <;> exact rf

theorem step_newMarks {a : Arena} (halive : a.alive = true) (op : Op) (hop : op.isMutator = true) :
    NewMarks (fun j => Ptr.strong j ∈ (a.step op).1.temps) a.ctx (a.step op).1.ctx := by
  have hnot : (!a.alive) = false := by rw [halive]; rfl
  unfold Arena.step
  rw [hnot]
  simp only [Bool.false_eq_true, if_false]
  exact stepBody_newMarks ({ a with marked := false } : Arena) a.marked op hop

/-- A store that changes the slots of `j` was accepted: afterwards the callback still holds the
    `Gc` pointer to `j` and the stored pointer. -/
theorem step_store_held {a : Arena} (halive : a.alive = true) (path : StorePath) (p i : Nat) (v : Slot) :
    (a.step (.store path p i v)).1.ctx = a.ctx ∨
    (Ptr.strong p ∈ (a.step (.store path p i v)).1.temps ∧
      ∀ q, v = some q → q ∈ (a.step (.store path p i v)).1.temps) := by
  have hnot : (!a.alive) = false := by rw [halive]; rfl
  unfold Arena.step
  rw [hnot]
  simp only [Bool.false_eq_true, if_false, Arena.stepBody]
  split
  · exact Or.inl rfl
  · rename_i hg
    simp only [Bool.or_eq_true, Bool.not_eq_true', not_or, Bool.not_eq_false] at hg
    have hp : Ptr.strong p ∈ a.temps := (holds_iff _ _).mp hg.1.2
    have hv : ∀ q, v = some q → q ∈ a.temps := by
      intro q hq; subst hq; exact (holds_iff _ _).mp hg.2
    split
    · exact Or.inl rfl
    · split
      · exact Or.inl rfl
      · cases path with
        | write => exact Or.inr ⟨hp, hv⟩
        | raw =>
          simp only
          split
          · exact Or.inl rfl
          · exact Or.inr ⟨hp, hv⟩
        | storeThenBarrier => exact Or.inr ⟨hp, hv⟩

/-! ### What marking can reach, and the per-state premise -/

/-- Strongly reachable from the root, from a `Gc` the callback holds, or from an object that is
    already gray or black: the objects the marker may still trace in this cycle. -/
inductive MarkReach (c : Ctx) (root : List Slot) (temps : List Ptr) : Nat → Prop
  | root (t : Nat) : some (Ptr.strong t) ∈ root → MarkReach c root temps t
  | temp (t : Nat) : Ptr.strong t ∈ temps → MarkReach c root temps t
  | marked (j : Nat) (o : Obj) : c.heap.get j = some o → o.marked → MarkReach c root temps j
  | edge (j : Nat) (o : Obj) (t : Nat) : MarkReach c root temps j → c.heap.get j = some o →
      some (Ptr.strong t) ∈ o.slots → MarkReach c root temps t

/-- A pointer of either kind to `i` sits where tracing or a barrier can find it. -/
def Touchable (c : Ctx) (root : List Slot) (temps : List Ptr) (i : Nat) : Prop :=
  ∃ p : Ptr, p.target = i ∧ (some p ∈ root ∨ p ∈ temps ∨
    ∃ j o, MarkReach c root temps j ∧ c.heap.get j = some o ∧ some p ∈ o.slots)

/-- A reachable weak pointer refers to `i`: in the root, held by the running callback, or stored in
    an object accessible through `Gc` pointers from those. -/
def WeakHeldA (a : Arena) (i : Nat) : Prop :=
  some (Ptr.weak i) ∈ a.root ∨ Ptr.weak i ∈ a.temps ∨
    ∃ j oj, Accessible a j ∧ a.ctx.heap.get j = some oj ∧ some (Ptr.weak i) ∈ oj.slots

/-- Outside callbacks this is `WeakHeld` (Proofs/Stable). -/
theorem weakHeldA_iff {a : Arena} (ht : a.temps = []) (i : Nat) :
    WeakHeldA a i ↔ WeakHeld a.ctx a.root i := by
  unfold WeakHeldA WeakHeld Accessible
  rw [ht]
  simp

theorem markReach_safe {c : Ctx} {root temps hole} (h : CInvH c root temps hole) {j : Nat}
    (hj : MarkReach c root temps j) : Safe c j := by
  induction hj with
  | root t ht => exact h.rootOK _ ht
  | temp t ht => exact h.tempsOK _ ht
  | marked j o ho hm =>
    refine ⟨o, ho, h.markedLive j o ho hm, fun hp _ => ?_⟩
    rcases hm with hg | hb
    · have := h.grayQ j o ho hg
      have hq := h.qMark (by rw [hp]; simp)
      rw [hq.1, hq.2] at this; simp at this
    · exact hb
  | edge j o t _ ho hs ih => exact h.closed j o ho ih _ hs

theorem markReach_of_accessible {c : Ctx} {root temps} {j : Nat} (h : AccessibleC c root temps j) :
    MarkReach c root temps j := by
  induction h with
  | root t ht => exact .root t ht
  | temp t ht => exact .temp t ht
  | edge i t _ e ih => obtain ⟨o, ho, hs⟩ := e; exact .edge i o t ih ho hs

theorem accessible_of_markReach {c : Ctx} {root temps}
    (hw : ∀ j o, c.heap.get j = some o → ¬ o.marked) {j : Nat} (h : MarkReach c root temps j) :
    AccessibleC c root temps j := by
  induction h with
  | root t ht => exact .root t ht
  | temp t ht => exact .temp t ht
  | marked j o ho hm => exact absurd hm (hw j o ho)
  | edge j o t _ ho hs ih => exact .edge j t ih ⟨o, ho, hs⟩

/-- The shell `i`: white, destructed, no pointer to it where marking could find it, and (while
    sweeping) still ahead of the cursor. -/
def Cond (c : Ctx) (root : List Slot) (temps : List Ptr) (i : Nat) : Prop :=
  (∃ o, c.heap.get i = some o ∧ o.color = .white ∧ o.live = false) ∧ ¬ Touchable c root temps i ∧
    (c.phase = .sweep → i ∈ c.rest)

theorem markReach_back {c c' : Ctx} {root temps} (hs : Shrink c c')
    (hm : ∀ j o', c'.heap.get j = some o' → o'.marked → MarkReach c root temps j)
    {t : Nat} (h : MarkReach c' root temps t) : MarkReach c root temps t := by
  induction h with
  | root t ht => exact .root t ht
  | temp t ht => exact .temp t ht
  | marked j o' ho' hc => exact hm j o' ho' hc
  | edge j o' t _ ho' hsl ih =>
    obtain ⟨o, ho, hsub⟩ := hs j o' ho'
    exact .edge j o t ih ho (hsub _ hsl)

theorem touchable_back {c c' : Ctx} {root temps} (hs : Shrink c c')
    (hm : ∀ j o', c'.heap.get j = some o' → o'.marked → MarkReach c root temps j)
    {i : Nat} (h : Touchable c' root temps i) : Touchable c root temps i := by
  obtain ⟨p, hp, h⟩ := h
  refine ⟨p, hp, ?_⟩
  rcases h with h | h | ⟨j, o', hj, ho', hsl⟩
  · exact Or.inl h
  · exact Or.inr (Or.inl h)
  · obtain ⟨o, ho, hsub⟩ := hs j o' ho'
    exact Or.inr (Or.inr ⟨j, o, markReach_back hs hm hj, ho, hsub _ hsl⟩)

/-- What `mark_one` marks was within the marker's reach, and what it marks weakly was held by
    something within it. -/
theorem markOne_markReach {c : Ctx} {root} (h : CInv c root []) (f : Option Nat) :
    TM (MarkReach c root [])
      (fun t => Touchable c root [] t ∨ ∃ o, c.heap.get t = some o ∧ o.color = .whiteWeak)
      (c.markOne root f).1 := by
  have t0 : TM (MarkReach c root [])
      (fun t => Touchable c root [] t ∨ ∃ o, c.heap.get t = some o ∧ o.color = .whiteWeak) c :=
    fun j o ho => ⟨fun hc => .marked j o ho hc, fun hc => Or.inr ⟨o, ho, hc⟩⟩
  apply t0.markOne f
  · intro j hj
    obtain ⟨o, ho, hg⟩ := h.qGray j hj
    exact .marked j o ho (Or.inl hg)
  · intro j o hj ho
    exact ⟨fun x hx => .edge j o x hj ho hx,
      fun x hx => Or.inl ⟨.weak x, rfl, Or.inr (Or.inr ⟨j, o, hj, ho, hx⟩)⟩⟩
  · exact ⟨fun x hx => .root x hx, fun x hx => Or.inl ⟨.weak x, rfl, Or.inl hx⟩⟩

theorem micro_cond {c c' : Ctx} {root} (h : CInv c root []) (m : Micro)
    (hs : c.micro root m = some c') {i : Nat} (d : Cond c root [] i) :
    (Released c' i ∨ Cond c' root [] i) ∧ ∀ b, m ≠ .toSleep b := by
  obtain ⟨⟨o, ho, hw, hdead⟩, hne, hsw⟩ := d
  have hlt : i < c.heap.size := Heap.lt_size_of_get _ _ _ ho
  have hnr : ¬ MarkReach c root [] i := by
    intro hr
    obtain ⟨o2, ho2, hl2, _⟩ := markReach_safe h hr
    rw [ho] at ho2; cases ho2
    rw [hdead] at hl2; cases hl2
  have same : (∀ j, c'.heap.get j = c.heap.get j) → (c'.phase = .sweep → i ∈ c'.rest) →
      Released c' i ∨ Cond c' root [] i := by
    intro hh hr
    refine Or.inr ⟨⟨o, by rw [hh]; exact ho, hw, hdead⟩, ?_, hr⟩
    intro he
    apply hne
    refine touchable_back (Shrink.ofHeap hh) ?_ he
    intro j o' ho' hc
    rw [hh] at ho'
    exact .marked j o' ho' hc
  have markCase : c.phase = .mark → ∀ f, Released (c.markOne root f).1 i ∨ Cond (c.markOne root f).1 root [] i := by
    intro hp f
    obtain ⟨_, fr⟩ := markOne_spec h hp f
    have tm := markOne_markReach h (root := root) f
    obtain ⟨o', ho'⟩ := (fr.alloc i).mpr ⟨o, ho⟩
    have hw' : o'.color = .white := by
      cases hcol : o'.color with
      | white => rfl
      | gray => exact absurd ((tm i o' ho').1 (Or.inl hcol)) hnr
      | black => exact absurd ((tm i o' ho').1 (Or.inr hcol)) hnr
      | whiteWeak =>
        rcases (tm i o' ho').2 hcol with he | ⟨o2, ho2, hc2⟩
        · exact absurd he hne
        · rw [ho] at ho2; cases ho2; rw [hw] at hc2; cases hc2
    have hd' : o'.live = false := by rw [(fr.live i o o' ho ho').1]; exact hdead
    refine Or.inr ⟨⟨o', ho', hw', hd'⟩, ?_, fun hps => by rw [fr.phase, hp] at hps; cases hps⟩
    intro he
    exact hne (touchable_back fr.shrink (fun j oj hoj hc => (tm j oj hoj).1 hc) he)
  have sweepCase : c.phase = .sweep → c.rest ≠ [] → Released c.sweepOne.1 i ∨ Cond c.sweepOne.1 root [] i := by
    intro hp hr
    cases hrest : c.rest with
    | nil => exact absurd hrest hr
    | cons x rest' =>
      obtain ⟨ox, hox⟩ := (h.memAll x).mp (by rw [hrest]; simp)
      obtain ⟨hr', hph', hframe, hcases⟩ := sweepOne_cases hrest hox
      have hmem := hsw hp
      rw [hrest] at hmem
      by_cases hix : i = x
      · subst hix
        rw [ho] at hox; cases hox
        obtain ⟨hn, hf⟩ := sweepOne_white_freed hrest ho hw
        exact Or.inl ⟨hn, by rw [Ctx.sweepOne_size]; exact hlt, hf⟩
      · have hmem' : i ∈ rest' := by
          simp only [List.mem_cons] at hmem
          rcases hmem with hm | hm
          · exact absurd hm hix
          · exact hm
        refine Or.inr ⟨⟨o, by rw [hframe i hix]; exact ho, hw, hdead⟩, ?_, fun _ => by rw [hr']; exact hmem'⟩
        intro he
        apply hne
        refine touchable_back (sweepOne_shrink c) ?_ he
        intro j oj hoj hc
        by_cases hjx : j = x
        · subst hjx
          exfalso
          rcases hcases with ⟨_, hn, _⟩ | ⟨_, _, o', ho', hw', _⟩ | ⟨_, _, hb⟩ | ⟨hg, _, _⟩
          · rw [hn] at hoj; cases hoj
          · rw [ho'] at hoj; cases hoj; rw [Obj.marked, hw'] at hc; rcases hc with hc | hc <;> cases hc
          · rw [hb] at hoj; cases hoj; rcases hc with hc | hc <;> cases hc
          · have := h.grayQ j ox hox hg
            have hq := h.qMark (by rw [hp]; simp)
            rw [hq.1, hq.2] at this; simp at this
        · rw [hframe j hjx] at hoj
          exact .marked j oj hoj hc
  cases m with
  | wake =>
    simp only [Ctx.micro] at hs
    split at hs
    · cases hs
      exact ⟨same (fun _ => rfl) (fun hp => by simp [Ctx.switch] at hp), fun b hb => by cases hb⟩
    · cases hs
  | markStep f =>
    simp only [Ctx.micro] at hs
    split at hs
    · cases hs; rename_i hp
      simp only [Bool.and_eq_true, decide_eq_true_eq] at hp
      exact ⟨markCase hp.1 f, fun b hb => by cases hb⟩
    · cases hs
  | markBreak =>
    simp only [Ctx.micro] at hs
    split at hs
    · cases hs; rename_i hp
      simp only [Bool.and_eq_true, decide_eq_true_eq] at hp
      exact ⟨markCase hp.1 none, fun b hb => by cases hb⟩
    · cases hs
  | toSweep =>
    simp only [Ctx.micro] at hs
    split at hs
    · cases hs
      refine ⟨same (fun _ => rfl) (fun _ => ?_), fun b hb => by cases hb⟩
      have := (h.memAll i).mpr ⟨o, ho⟩
      simpa [Ctx.enterSweep, Ctx.switch] using this
    · cases hs
  | sweepStep =>
    simp only [Ctx.micro] at hs
    split at hs
    · cases hs; rename_i hp
      simp only [Bool.and_eq_true, decide_eq_true_eq, Bool.not_eq_true', List.isEmpty_eq_false_iff] at hp
      exact ⟨sweepCase hp.1 hp.2, fun b hb => by cases hb⟩
    · cases hs
  | sweepEnd =>
    simp only [Ctx.micro] at hs
    split at hs
    · rename_i hp
      simp only [Bool.and_eq_true, decide_eq_true_eq, List.isEmpty_iff] at hp
      have := hsw hp.1
      rw [hp.2] at this; cases this
    · cases hs
  | toSleep b =>
    simp only [Ctx.micro] at hs
    split at hs
    · rename_i hp
      simp only [Bool.and_eq_true, decide_eq_true_eq, List.isEmpty_iff] at hp
      have := hsw hp.1
      rw [hp.2] at this; cases this
    · cases hs

theorem micros_cond {root} {i : Nat} (ms : List Micro) : ∀ {c c' : Ctx}, CInv c root [] →
    c.micros root ms = some c' → Cond c root [] i →
    Released c' i ∨ (zc c' = zc c ∧ Cond c' root [] i) := by
  induction ms with
  | nil => intro c c' _ hs d; simp only [Ctx.micros] at hs; cases hs; exact Or.inr ⟨rfl, d⟩
  | cons m ms ih =>
    intro c c' h hs d
    simp only [Ctx.micros] at hs
    cases hm : c.micro root m with
    | none => rw [hm] at hs; cases hs
    | some c1 =>
      rw [hm] at hs
      have h1 := micro_inv h m hm
      obtain ⟨fate, hns⟩ := micro_cond h m hm d
      have hz1 : zc c1 = zc c := (micro_zc m hm).2.mpr hns
      rcases fate with r | d1
      · exact Or.inl (micros_released ms h1 hs r)
      · rcases ih h1 hs d1 with r | ⟨hz, d2⟩
        · exact Or.inl r
        · exact Or.inr ⟨hz.trans hz1, d2⟩

/-! ### A mutator operation, given the premise in the state it leads to -/

theorem step_cond {a : Arena} (h : Inv a) (op : Op) (hop : op.isMutator = true)
    (hal : (a.step op).1.alive = true) {i : Nat}
    (hP : ¬ WeakHeldA (a.step op).1 i) (d : Cond a.ctx a.root a.temps i) :
    Cond (a.step op).1.ctx (a.step op).1.root (a.step op).1.temps i := by
  have h' : Inv (a.step op).1 := inv_step h op hal
  have m := step_mutFacts h op hop
  have nm := step_newMarks h.alive op hop
  have hph : (a.step op).1.ctx.phase = a.ctx.phase := (step_quiet h op hop).phase
  obtain ⟨⟨o, ho, hw, hdead⟩, hne, hsw⟩ := d
  have hnh : ¬ Held a i := by
    rintro ⟨q, hq, hqt⟩
    exact hne ⟨q, hqt, Or.inr (Or.inl hq)⟩
  obtain ⟨o', ho', _, _, _, _, hu, _⟩ := m.keep i o ho
  have ho'' : (a.step op).1.ctx.heap.get i = some o := by rw [← hu hnh]; exact ho'
  -- a strong pointer to the shell cannot be anywhere accessible afterwards
  have notSafe : ¬ Safe (a.step op).1.ctx i := by
    rintro ⟨o2, ho2, hl2, _⟩
    rw [ho''] at ho2; cases ho2
    rw [hdead] at hl2; cases hl2
  -- slots of an object that existed before: unchanged, or it was stored into and is held
  have slotsOf : ∀ j oj oj', a.ctx.heap.get j = some oj → (a.step op).1.ctx.heap.get j = some oj' →
      oj'.slots = oj.slots ∨ Ptr.strong j ∈ (a.step op).1.temps := by
    intro j oj oj' hoj hoj'
    obtain ⟨o2, ho2, _, _, _, _, _, sl⟩ := m.keep j oj hoj
    rw [hoj'] at ho2; cases ho2
    rcases sl with sl | ⟨idx, v, ⟨path, hopw⟩, sl, _⟩
    · exact Or.inl sl
    · subst hopw
      rcases step_store_held h.alive path j idx v with hc | ⟨hp, _⟩
      · left
        rw [hc, hoj] at hoj'; cases hoj'; rfl
      · exact Or.inr hp
  -- what marking can reach afterwards was within reach before, or is accessible now
  have claim : ∀ j, MarkReach (a.step op).1.ctx (a.step op).1.root (a.step op).1.temps j →
      Accessible (a.step op).1 j ∨ MarkReach a.ctx a.root a.temps j := by
    intro j hj
    induction hj with
    | root t ht => exact Or.inl (.root t ht)
    | temp t ht => exact Or.inl (.temp t ht)
    | marked j oj' hoj' hmk =>
      cases hoj : a.ctx.heap.get j with
      | none =>
        obtain ⟨_, hwh, _⟩ := m.fresh j oj' hoj' hoj
        rw [Obj.marked, hwh] at hmk; rcases hmk with hmk | hmk <;> cases hmk
      | some oj =>
        rcases nm j oj oj' hoj hoj' hmk with hk | hk
        · exact Or.inr (.marked j oj hoj hk)
        · exact Or.inl (.temp j hk)
    | edge j oj' t _ hoj' hsl ih =>
      rcases ih with ih | ih
      · exact Or.inl (.edge j t ih ⟨oj', hoj', hsl⟩)
      · obtain ⟨oj, hoj, _⟩ := markReach_safe h.cinv ih
        rcases slotsOf j oj oj' hoj hoj' with sl | hheld
        · rw [sl] at hsl
          exact Or.inr (.edge j oj t ih hoj hsl)
        · exact Or.inl (.edge j t (.temp j hheld) ⟨oj', hoj', hsl⟩)
  refine ⟨⟨o, ho'', hw, hdead⟩, ?_, fun hp => by rw [m.rest]; exact hsw (hph ▸ hp)⟩
  rintro ⟨p, hpt, hp⟩
  -- a pointer to the shell in an accessible place: weak contradicts the premise, strong the invariant
  have viaPtrOK : PtrOK (a.step op).1.ctx p → (p = Ptr.weak i → False) → False := by
    intro hok hweak
    cases p with
    | strong t =>
      simp only [Ptr.target] at hpt; subst hpt
      exact notSafe hok
    | weak t =>
      simp only [Ptr.target] at hpt; subst hpt
      exact hweak rfl
  rcases hp with hp | hp | ⟨j, oj', hj, hoj', hsl⟩
  · exact viaPtrOK (h'.cinv.rootOK p hp) (fun he => hP (Or.inl (he ▸ hp)))
  · exact viaPtrOK (h'.cinv.tempsOK p hp) (fun he => hP (Or.inr (Or.inl (he ▸ hp))))
  · rcases claim j hj with hacc | hold
    · exact viaPtrOK (h'.cinv.closed j oj' hoj' (h'.safe_of_accessible hacc) p hsl)
        (fun he => hP (Or.inr (Or.inr ⟨j, oj', hacc, hoj', he ▸ hsl⟩)))
    · obtain ⟨oj, hoj, _⟩ := markReach_safe h.cinv hold
      rcases slotsOf j oj oj' hoj hoj' with sl | hheld
      · rw [sl] at hsl
        exact hne ⟨p, hpt, Or.inr (Or.inr ⟨j, oj, hold, hoj, hsl⟩)⟩
      · have hacc : Accessible (a.step op).1 j := .temp j hheld
        exact viaPtrOK (h'.cinv.closed j oj' hoj' (h'.safe_of_accessible hacc) p hsl)
          (fun he => hP (Or.inr (Or.inr ⟨j, oj', hacc, hoj', he ▸ hsl⟩)))

/-! ### Over whole histories -/

theorem cond_of_asleep {a : Arena} (h : Inv a) (hsl : a.ctx.phase = .sleep) {i : Nat} {o : Obj}
    (ho : a.ctx.heap.get i = some o) (hdead : o.live = false) (hP : ¬ WeakHeldA a i) :
    Cond a.ctx a.root a.temps i := by
  have hw := h.cinv.sleepWhite hsl
  refine ⟨⟨o, ho, hw i o ho, hdead⟩, ?_, fun hp => by rw [hsl] at hp; cases hp⟩
  have notSafe : ¬ Safe a.ctx i := by
    rintro ⟨o2, ho2, hl2, _⟩
    rw [ho] at ho2; cases ho2
    rw [hdead] at hl2; cases hl2
  have nomark : ∀ j oj, a.ctx.heap.get j = some oj → ¬ oj.marked := by
    intro j oj hoj hm
    rw [Obj.marked, hw j oj hoj] at hm; rcases hm with hm | hm <;> cases hm
  rintro ⟨p, hpt, hp⟩
  have viaPtrOK : PtrOK a.ctx p → (p = Ptr.weak i → False) → False := by
    intro hok hweak
    cases p with
    | strong t => simp only [Ptr.target] at hpt; subst hpt; exact notSafe hok
    | weak t => simp only [Ptr.target] at hpt; subst hpt; exact hweak rfl
  rcases hp with hp | hp | ⟨j, oj, hj, hoj, hsl'⟩
  · exact viaPtrOK (h.cinv.rootOK p hp) (fun he => hP (Or.inl (he ▸ hp)))
  · exact viaPtrOK (h.cinv.tempsOK p hp) (fun he => hP (Or.inr (Or.inl (he ▸ hp))))
  · have hacc : Accessible a j := accessible_of_markReach nomark hj
    exact viaPtrOK (h.cinv.closed j oj hoj (h.safe_of_accessible hacc) p hsl')
      (fun he => hP (Or.inr (Or.inr ⟨j, oj, hacc, hoj, he ▸ hsl'⟩)))

theorem run_cond (i : Nat) (ops : List Op) : ∀ (a : Arena), Inv a → (a.run ops).alive = true →
    (∀ k, k ≤ ops.length → ¬ WeakHeldA (a.run (ops.take k)) i) → Cond a.ctx a.root a.temps i →
    Released (a.run ops).ctx i ∨
      (zc (a.run ops).ctx = zc a.ctx ∧ Cond (a.run ops).ctx (a.run ops).root (a.run ops).temps i) := by
  induction ops with
  | nil => intro a _ _ _ d; exact Or.inr ⟨rfl, d⟩
  | cons op ops ih =>
    intro a h hal hP d
    simp only [Arena.run] at hal ⊢
    have hal1 := alive_of_run_alive hal
    have h1 := inv_step h op hal1
    have hP1 : ¬ WeakHeldA (a.step op).1 i := by
      have := hP 1 (by simp)
      simpa [Arena.run] using this
    have hPrest : ∀ k, k ≤ ops.length → ¬ WeakHeldA ((a.step op).1.run (ops.take k)) i := by
      intro k hk
      have := hP (k + 1) (by simp; omega)
      simpa [Arena.run] using this
    -- the first op
    have first : Released (a.step op).1.ctx i ∨
        (zc (a.step op).1.ctx = zc a.ctx ∧
          Cond (a.step op).1.ctx (a.step op).1.root (a.step op).1.temps i) := by
      rcases step_kind h op hal1 with hop | rel
      · have m := step_mutFacts h op hop
        exact Or.inr ⟨by unfold zc; rw [m.steps], step_cond h op hop hal1 hP1 d⟩
      · obtain ⟨ms, hms, hnil⟩ := rel.reach
        by_cases hcb : a.cb = none
        · have ht : a.temps = [] := h.cbTemps hcb
          rw [rel.root, rel.temps, ht]
          rw [ht] at d
          exact micros_cond ms (h.cinv0 hcb) hms d
        · have := hnil hcb
          subst this
          simp only [Ctx.micros, Option.some.injEq] at hms
          rw [← hms, rel.root, rel.temps]
          exact Or.inr ⟨rfl, d⟩
    rcases first with r | ⟨hz1, d1⟩
    · exact Or.inl ((run_fateRel i ops _ h1 hal).2.1 r)
    · rcases ih _ h1 hal hPrest d1 with r | ⟨hz2, d2⟩
      · exact Or.inl r
      · exact Or.inr ⟨hz2.trans hz1, d2⟩

/-- **Shell release under the per-state premise.** -/
theorem shell_released_run {a : Arena} (hinv : Inv a) (hsl : a.ctx.phase = .sleep) (i : Nat) (o : Obj)
    (ho : a.ctx.heap.get i = some o) (hdead : o.live = false) (ops : List Op)
    (hP : ∀ k, k ≤ ops.length → ¬ WeakHeldA (a.run (ops.take k)) i)
    (halive : (a.run ops).alive = true) (hz : zc a.ctx < zc (a.run ops).ctx) :
    (a.run ops).ctx.heap.get i = none ∧ Event.freed i ∈ (a.run ops).ctx.log := by
  have d := cond_of_asleep hinv hsl ho hdead (by simpa [Arena.run] using hP 0 (Nat.zero_le _))
  rcases run_cond i ops a hinv halive hP d with r | ⟨he, _⟩
  · exact ⟨r.1, r.2.2⟩
  · omega

/-- A checkable sufficient condition for `¬ WeakHeldA`: no `GcWeak` to `i` exists anywhere — not in
    the root, not held by the callback, in no slot of any allocated object. -/
def Arena.noWeakTo (b : Arena) (i : Nat) : Bool :=
  !b.root.contains (some (Ptr.weak i)) && !b.temps.contains (Ptr.weak i) &&
    (List.range b.ctx.heap.size).all (fun j =>
      match b.ctx.heap.get j with
      | some o => !o.slots.contains (some (Ptr.weak i))
      | none => true)

theorem not_weakHeldA_of_noWeakTo {b : Arena} {i : Nat} (h : b.noWeakTo i = true) : ¬ WeakHeldA b i := by
  simp only [Arena.noWeakTo, Bool.and_eq_true, Bool.not_eq_true', List.all_eq_true, List.mem_range] at h
  obtain ⟨⟨h1, h2⟩, h3⟩ := h
  rintro (hw | hw | ⟨j, oj, _, hoj, hs⟩)
  · have : b.root.contains (some (Ptr.weak i)) = true := List.contains_iff_mem.mpr hw
    rw [h1] at this; cases this
  · have : b.temps.contains (Ptr.weak i) = true := List.contains_iff_mem.mpr hw
    rw [h2] at this; cases this
  · have := h3 j (Heap.lt_size_of_get _ _ _ hoj)
    rw [hoj] at this
    simp only [Bool.not_eq_true'] at this
    have hc : oj.slots.contains (some (Ptr.weak i)) = true := List.contains_iff_mem.mpr hs
    rw [this] at hc; cases hc

end GcArena
