import GcArena.Model.PtrList
import GcArena.Proofs.Sweep
/-!
  The pointer surgery on the intrusive `all` list implements the list-level model.

  `Rep p pre rest`: following `next` from `all` yields exactly `pre ++ rest` (each object once)
  and then `None`; while sweeping, following it from `sweep` yields `rest` and `sweep_prev` is the
  last object of `pre` (or `None` when `pre` is empty); outside the sweep phase `sweep` and
  `sweep_prev` are `None`.
-/
namespace GcArena

inductive Chain (next : Nat → Option Nat) : Option Nat → List Nat → Prop
  | nil : Chain next none []
  | cons {i : Nat} {l : List Nat} : Chain next (next i) l → Chain next (some i) (i :: l)

theorem Chain.nil_iff {next a} : Chain next a [] ↔ a = none := by
  constructor
  · intro h; cases h; rfl
  · intro h; subst h; exact .nil

theorem Chain.cons_iff {next a i l} : Chain next a (i :: l) ↔ a = some i ∧ Chain next (next i) l := by
  constructor
  · intro h; cases h with | cons h => exact ⟨rfl, h⟩
  · rintro ⟨rfl, h⟩; exact .cons h

/-- Two `next` maps that agree on the members of the list give the same chain. -/
theorem Chain.congr {next next' : Nat → Option Nat} {a l} (h : Chain next a l)
    (hag : ∀ i, i ∈ l → next' i = next i) : Chain next' a l := by
  induction h with
  | nil => exact .nil
  | cons _ ih =>
    rename_i i l _
    refine .cons ?_
    rw [hag i (by simp)]
    exact ih (fun j hj => hag j (List.mem_cons_of_mem _ hj))

/-- A chain determines its start. -/
theorem Chain.start {next a l} (h : Chain next a l) : a = l.head? := by
  cases h <;> rfl

/-- The suffix of a chain is the chain from where the prefix ends. -/
theorem Chain.suffix {next} : ∀ {l1 : List Nat} {a l2}, Chain next a (l1 ++ l2) →
    ∃ b, Chain next b l2 ∧ (l1 = [] → b = a) ∧ (∀ q, l1.getLast? = some q → b = next q)
  | [], a, l2, h => ⟨a, h, fun _ => rfl, fun q hq => by simp at hq⟩
  | [x], a, l2, h => by
    obtain ⟨rfl, h'⟩ := Chain.cons_iff.mp h
    refine ⟨next x, h', ?_, ?_⟩
    · intro hn; cases hn
    · intro q hq
      simp only [List.getLast?_singleton, Option.some.injEq] at hq
      subst hq; rfl
  | x :: y :: l1, a, l2, h => by
    obtain ⟨rfl, h'⟩ := Chain.cons_iff.mp h
    obtain ⟨b, hb, _, hl⟩ := Chain.suffix (l1 := y :: l1) h'
    refine ⟨b, hb, ?_, ?_⟩
    · intro hn; cases hn
    · intro q hq
      exact hl q (by simpa [List.getLast?_cons_cons] using hq)

/-- Unlinking `s`, which follows `q`, by `q.next := s.next`. -/
theorem Chain.splice {next : Nat → Option Nat} {q s : Nat} : ∀ {l1 : List Nat} {a l2},
    Chain next a (l1 ++ q :: s :: l2) → (l1 ++ q :: s :: l2).Nodup →
    Chain (fun j => if j = q then next s else next j) a (l1 ++ q :: l2)
  | [], a, l2, h, hnd => by
    simp only [List.nil_append] at h hnd ⊢
    obtain ⟨rfl, h1⟩ := Chain.cons_iff.mp h
    obtain ⟨_, h2⟩ := Chain.cons_iff.mp h1
    refine .cons ?_
    simp only [if_true]
    apply h2.congr
    intro i hi
    have : i ≠ q := by
      rintro rfl
      simp only [List.nodup_cons, List.mem_cons] at hnd
      exact hnd.1 (Or.inr hi)
    simp [this]
  | x :: l1, a, l2, h, hnd => by
    simp only [List.cons_append] at h hnd ⊢
    obtain ⟨rfl, h1⟩ := Chain.cons_iff.mp h
    have hx : x ≠ q := by
      rintro rfl
      simp only [List.nodup_cons, List.mem_append, List.mem_cons] at hnd
      exact hnd.1 (by simp)
    refine .cons ?_
    simp only [hx, if_false]
    exact Chain.splice h1 (List.nodup_cons.mp hnd).2

/-- Every `next` pointer of a list member points to a list member (or is `None`): after an
    object has been unlinked, nothing on the list points at its (released) block. -/
theorem Chain.next_mem {next} : ∀ {a l}, Chain next a l → ∀ i, i ∈ l → ∀ t, next i = some t → t ∈ l
  | _, _, .nil, i, hi, _, _ => by cases hi
  | _, _, .cons (i := x) (l := l) h, i, hi, t, ht => by
    simp only [List.mem_cons] at hi
    rcases hi with rfl | hi
    · have := h.start
      rw [ht] at this
      cases l with
      | nil => cases this
      | cons y l => simp only [List.head?_cons, Option.some.injEq] at this; subst this; simp
    · exact List.mem_cons_of_mem _ (Chain.next_mem h i hi t ht)

structure Rep (p : PList) (pre rest : List Nat) : Prop where
  chain : Chain p.next p.all (pre ++ rest)
  nodup : (pre ++ rest).Nodup
  sweeping : p.sweeping = true → Chain p.next p.sweep rest ∧ p.sweepPrev = pre.getLast?
  idle : p.sweeping = false → rest = [] ∧ p.sweep = none ∧ p.sweepPrev = none

theorem Rep.empty : Rep PList.empty [] [] :=
  ⟨.nil, by simp, (fun h => by cases h), fun _ => ⟨rfl, rfl, rfl⟩⟩

/-- `Context::link` puts the new object at the head of the list, in front of the cursor, and
    keeps `sweep_prev` the last object in front of the cursor. -/
theorem Rep.link {p : PList} {pre rest : List Nat} (h : Rep p pre rest) (i : Nat)
    (hfresh : i ∉ pre ++ rest) : Rep (p.link i) (i :: pre) rest := by
  have hag : ∀ j, j ∈ pre ++ rest → (p.setNext i p.all).next j = p.next j := by
    intro j hj
    have : j ≠ i := by rintro rfl; exact hfresh hj
    simp [PList.setNext, this]
  have hchain : Chain (p.setNext i p.all).next (some i) (i :: pre ++ rest) := by
    refine .cons ?_
    have : (p.setNext i p.all).next i = p.all := by simp [PList.setNext]
    rw [this]
    exact h.chain.congr hag
  have hnd : (i :: pre ++ rest).Nodup := List.nodup_cons.mpr ⟨hfresh, h.nodup⟩
  unfold PList.link
  simp only
  cases hsw : p.sweeping with
  | false =>
    have hsw' : (p.setNext i p.all).sweeping = false := hsw
    simp only [hsw', Bool.false_and, Bool.false_eq_true, if_false]
    obtain ⟨hr, hs, hp⟩ := h.idle hsw
    refine ⟨hchain, hnd, ?_, fun _ => ⟨hr, hs, hp⟩⟩
    intro h'; simp at h'
  | true =>
    have hsw' : (p.setNext i p.all).sweeping = true := hsw
    obtain ⟨hc, hp⟩ := h.sweeping hsw
    have hc' : Chain (p.setNext i p.all).next p.sweep rest :=
      hc.congr (fun j hj => hag j (List.mem_append_right _ hj))
    cases hpre : pre with
    | nil =>
      have hpn : p.sweepPrev = none := by rw [hp, hpre]; rfl
      have hpn' : (p.setNext i p.all).sweepPrev = none := hpn
      simp only [hsw', hpn', Option.isNone_none, Bool.and_self, if_true]
      rw [hpre] at hchain hnd
      refine ⟨hchain, hnd, fun _ => ⟨hc', rfl⟩, ?_⟩
      intro h'; simp at h'
    | cons x pre' =>
      have hps : p.sweepPrev = (x :: pre').getLast? := by rw [hp, hpre]
      have hsome : ∃ q, p.sweepPrev = some q := by
        rw [hps]
        cases hl : (x :: pre').getLast? with
        | none => simp at hl
        | some q => exact ⟨q, rfl⟩
      obtain ⟨q, hq⟩ := hsome
      have hq' : (p.setNext i p.all).sweepPrev = some q := hq
      simp only [hsw', hq', Option.isNone_some, Bool.and_false, Bool.false_eq_true, if_false]
      rw [hpre] at hchain hnd
      refine ⟨hchain, hnd, fun _ => ⟨hc', ?_⟩, ?_⟩
      · show some q = (i :: x :: pre').getLast?
        rw [List.getLast?_cons_cons, ← hps, hq]
      · intro h'; simp at h'

/-- `Mark → Sweep`: the cursor starts at the head; everything is still to be swept. -/
theorem Rep.enterSweep {p : PList} {pre : List Nat} (h : Rep p pre []) (hs : p.sweeping = false) :
    Rep p.enterSweep [] pre := by
  obtain ⟨_, _, hp⟩ := h.idle hs
  have hc := h.chain
  simp only [List.append_nil] at hc
  refine ⟨by simpa [PList.enterSweep] using hc, by simpa using h.nodup, fun _ => ⟨hc, hp⟩, ?_⟩
  intro h'; simp [PList.enterSweep] at h'

theorem PList.sweepOne_keep {p : PList} {remove : Nat → Bool} {s : Nat} (hsw : p.sweep = some s)
    (hr : remove s = false) :
    p.sweepOne remove = ({ p with sweep := p.next s, sweepPrev := some s }, some s) := by
  simp [PList.sweepOne, hsw, hr]

theorem PList.sweepOne_remove_none {p : PList} {remove : Nat → Bool} {s : Nat} (hsw : p.sweep = some s)
    (hr : remove s = true) (hp : p.sweepPrev = none) :
    p.sweepOne remove = ({ p with sweep := p.next s, all := p.next s }, some s) := by
  simp [PList.sweepOne, hsw, hr, hp]

theorem PList.sweepOne_remove_some {p : PList} {remove : Nat → Bool} {s q : Nat} (hsw : p.sweep = some s)
    (hr : remove s = true) (hp : p.sweepPrev = some q) :
    p.sweepOne remove = (({ p with sweep := p.next s } : PList).setNext q (p.next s), some s) := by
  simp [PList.sweepOne, hsw, hr, hp]

theorem PList.sweepOne_end {p : PList} {remove : Nat → Bool} (hsw : p.sweep = none) :
    p.sweepOne remove = ({ p with sweepPrev := none }, none) := by
  simp [PList.sweepOne, hsw]

/-- One `sweep_one` with an object under the cursor. -/
theorem Rep.sweepOne {p : PList} {pre rest : List Nat} {s : Nat} (h : Rep p pre (s :: rest))
    (hs : p.sweeping = true) (remove : Nat → Bool) :
    (p.sweepOne remove).2 = some s ∧
    Rep (p.sweepOne remove).1 (if remove s then pre else pre ++ [s]) rest := by
  obtain ⟨hc, hp⟩ := h.sweeping hs
  obtain ⟨hsw, hc'⟩ := Chain.cons_iff.mp hc
  cases hr : remove s with
  | false =>
    simp only [Bool.false_eq_true, if_false]
    rw [PList.sweepOne_keep hsw hr]
    refine ⟨rfl, ?_, ?_, fun _ => ⟨hc', ?_⟩, ?_⟩
    · have := h.chain; simpa [List.append_assoc] using this
    · have := h.nodup; simpa [List.append_assoc] using this
    · simp
    · intro h'; exact absurd (hs.symm.trans h') (by simp)
  | true =>
    simp only [if_true]
    have hnd := h.nodup
    cases hpre : pre with
    | nil =>
      have hpn : p.sweepPrev = none := by rw [hp, hpre]; rfl
      rw [PList.sweepOne_remove_none hsw hr hpn]
      rw [hpre] at hnd
      simp only [List.nil_append] at hnd
      refine ⟨rfl, ?_, (List.nodup_cons.mp hnd).2, fun _ => ⟨hc', ?_⟩, ?_⟩
      · simpa using hc'
      · simpa using hpn
      · intro h'; exact absurd (hs.symm.trans h') (by simp)
    | cons x pre' =>
      -- pre = l1 ++ [q]
      have hne : (x :: pre') ≠ [] := by simp
      have hsplit : x :: pre' = (x :: pre').dropLast ++ [(x :: pre').getLast hne] :=
        (List.dropLast_concat_getLast hne).symm
      generalize (x :: pre').dropLast = l1 at hsplit
      generalize (x :: pre').getLast hne = q at hsplit
      have hpq : p.sweepPrev = some q := by
        rw [hp, hpre, hsplit]; simp
      rw [PList.sweepOne_remove_some hsw hr hpq]
      have hch := h.chain
      rw [hpre, hsplit] at hch hnd
      simp only [List.append_assoc, List.singleton_append] at hch hnd
      have hsp := Chain.splice hch hnd
      have hq_rest : q ∉ rest := by
        intro hm
        have := (List.nodup_append.mp hnd).2.1
        simp only [List.nodup_cons, List.mem_cons] at this
        exact this.1 (Or.inr hm)
      have hnd' : (l1 ++ q :: rest).Nodup := by
        have h1 := List.nodup_append.mp hnd
        refine List.nodup_append.mpr ⟨h1.1, ?_, ?_⟩
        · have := h1.2.1
          simp only [List.nodup_cons, List.mem_cons, not_or] at this ⊢
          exact ⟨this.1.2, this.2.2⟩
        · intro a ha b hb
          exact h1.2.2 a ha b (by
            simp only [List.mem_cons] at hb ⊢
            rcases hb with rfl | hb
            · exact Or.inl rfl
            · exact Or.inr (Or.inr hb))
      refine ⟨rfl, ?_, ?_, fun _ => ⟨?_, ?_⟩, ?_⟩
      · show Chain (fun j => if j = q then p.next s else p.next j) p.all ((x :: pre') ++ rest)
        rw [hsplit]; simpa [List.append_assoc] using hsp
      · rw [hsplit]; simpa [List.append_assoc] using hnd'
      · show Chain (fun j => if j = q then p.next s else p.next j) (p.next s) rest
        apply hc'.congr
        intro j hj
        have : j ≠ q := by rintro rfl; exact hq_rest hj
        simp [this]
      · show p.sweepPrev = (x :: pre').getLast?
        rw [hpq, hsplit]; simp
      · intro h'; exact absurd (hs.symm.trans h') (by simp)

/-- `sweep_one` at the end of the list resets `sweep_prev`; the driver then leaves the sweep
    phase. -/
theorem Rep.endSweep {p : PList} {pre : List Nat} (h : Rep p pre []) (hs : p.sweeping = true)
    (remove : Nat → Bool) :
    (p.sweepOne remove).2 = none ∧ Rep (p.sweepOne remove).1.endSweep pre [] := by
  obtain ⟨hc, _⟩ := h.sweeping hs
  have hsn : p.sweep = none := Chain.nil_iff.mp hc
  rw [PList.sweepOne_end hsn]
  refine ⟨rfl, h.chain, h.nodup, ?_, fun _ => ⟨rfl, hsn, rfl⟩⟩
  intro h'; simp [PList.endSweep] at h'

/-- `DropAll` visits exactly the objects on the list, each once, in list order. -/
theorem Chain.walk {next} : ∀ {a l}, Chain next a l → ∀ fuel, l.length ≤ fuel → PList.walk next (fuel + 1) a = l
  | _, _, .nil, fuel, _ => by simp [PList.walk]
  | _, _, .cons (i := i) (l := l) h, fuel, hf => by
    cases fuel with
    | zero => simp at hf
    | succ fuel =>
      simp only [PList.walk]
      rw [Chain.walk h fuel (by simpa using hf)]

theorem Rep.walk {p : PList} {pre rest : List Nat} (h : Rep p pre rest) :
    PList.walk p.next ((pre ++ rest).length + 1) p.all = pre ++ rest :=
  h.chain.walk _ (Nat.le_refl _)

/-! ### Against the collector model -/

/-- The colour test of `sweep_one`. -/
def Ctx.isWhite (c : Ctx) (i : Nat) : Bool :=
  match c.heap.get i with
  | some o => o.color == .white
  | none => false

/-- `Ctx.link` is `PList.link` on the lists. -/
theorem link_refines {p : PList} {c : Ctx} {root temps} (hinv : CInv c root temps)
    (h : Rep p c.pre c.rest) (o : Obj) :
    Rep (p.link (c.link o).2) (c.link o).1.pre (c.link o).1.rest := by
  have hfresh : c.heap.fresh ∉ c.pre ++ c.rest := by
    intro hm
    obtain ⟨o', ho'⟩ := (hinv.memAll _).mp hm
    have := Heap.get_fresh c.heap
    rw [this] at ho'; cases ho'
  exact h.link _ hfresh

/-- `Ctx.sweepOne` with an object under the cursor is `PList.sweepOne` on the lists: a white
    object leaves the list, any other is passed over and becomes `sweep_prev`. -/
theorem sweepOne_refines {p : PList} {c : Ctx} {root temps} (hinv : CInv c root temps)
    (hp : c.phase = .sweep) (hs : p.sweeping = true) (h : Rep p c.pre c.rest) (s : Nat) (r : List Nat)
    (hr : c.rest = s :: r) :
    Rep (p.sweepOne c.isWhite).1 c.sweepOne.1.pre c.sweepOne.1.rest := by
  rw [hr] at h
  obtain ⟨_, hrep⟩ := h.sweepOne hs c.isWhite
  obtain ⟨o, ho⟩ := (hinv.memAll s).mp (by rw [hr]; simp)
  have hnogray : o.color ≠ .gray := by
    intro hg
    have := hinv.grayQ s o ho hg
    have hq := hinv.qMark (by rw [hp]; simp)
    rw [hq.1, hq.2] at this; simp at this
  have hpre_rest : c.sweepOne.1.rest = r ∧
      c.sweepOne.1.pre = if c.isWhite s then c.pre else c.pre ++ [s] := by
    unfold Ctx.sweepOne
    rw [hr]
    simp only [Ctx.step_heap, ho, Ctx.isWhite]
    cases hcol : o.color with
    | white => simp; split <;> simp
    | whiteWeak => simp; split <;> simp
    | black => simp
    | gray => exact absurd hcol hnogray
  rw [hpre_rest.1, hpre_rest.2]
  exact hrep

end GcArena
