import GcArena.Model.MacroImpls
/-! General statements about the template rule (used by `Props/C12s` and `Props/C16`). -/
namespace GcArena.MacroImpls

/-- What `Template.ok` buys: for **every** instantiation whose user-supplied type mentions a brand,
the generated impl is either not brand-generic — it holds only when the brand is `'static`, so the
`for<'a> Root<'a, R>: Collect<'a>` bound of the collecting `Arena` methods (and a generative
callback's `Gc::new`) rejects it — or it really traces: its `trace` forwards to the value and its
`NEEDS_TRACE` is `true`, so `Trace::trace` does not skip it. -/
theorem ok_sound (t : Template) (h : t.ok = true) (i : Inst) (hb : i.brandFree = false) :
    t.brandGeneric i = false ∨ (t.reportsNothing = false ∧ t.needsTraceValue = some true) := by
  simp only [Template.ok, Bool.and_eq_true, Bool.or_eq_true, Bool.not_eq_true'] at h
  obtain ⟨⟨⟨⟨_, _⟩, hshape⟩, hlic⟩, hfwd⟩ := h
  cases hr : t.reportsNothing with
  | true =>
    left
    rcases hlic with hlic | hlic
    · rw [hr] at hlic; cases hlic
    · simp [Template.brandGeneric, Template.applies, hlic, hb]
  | false =>
    right
    refine ⟨rfl, ?_⟩
    have hnoop : (t.trace == TraceBody.noop) = false := by
      simp only [Template.reportsNothing, Bool.or_eq_false_iff] at hr
      exact hr.2
    cases htr : t.trace with
    | noop => rw [htr] at hnoop; simp at hnoop
    | other b => rw [htr] at hshape; simp at hshape
    | forwardsDyn =>
      rcases hfwd with hfwd | hfwd
      · rw [htr] at hfwd; simp at hfwd
      · simpa using hfwd

/-- A template that claims nothing needs tracing without `$type: 'static` yields, for a type that
mentions the brand, an impl for every brand that reports no pointer: the brand hides. -/
theorem unlicensed_hides (t : Template) (hn : t.reportsNothing = true) (hs : t.typeStatic = false) :
    ∃ i : Inst, i.brandFree = false ∧ t.brandGeneric i = true ∧ t.reportsNothing = true :=
  ⟨⟨false⟩, rfl, by simp [Template.brandGeneric, Template.applies, hs], hn⟩

/-! Rows used by the `mutant_witness` theorems: the generic arms as they are in the crate, and as
the two seeded changes leave them. -/
namespace Example

def staticCollectArm0 : Template :=
  { macroName := "static_collect", arm := 0, hasParams := true, gcInScope := true, typeStatic := true,
    paramsStatic := false, userBounds := true, needsTrace := .explicitFalse, trace := .noop,
    isUnsafeImpl := true }

/-- `where $type: 'static,` ↦ `$($params: 'static,)+` -/
def staticCollectArm0Mutant : Template :=
  { staticCollectArm0 with typeStatic := false, paramsStatic := true }

def dynCollectArm0 : Template :=
  { macroName := "__dyn_collect", arm := 0, hasParams := true, gcInScope := true, typeStatic := false,
    paramsStatic := false, userBounds := true, needsTrace := .defaulted, trace := .forwardsDyn,
    isUnsafeImpl := true }

/-- `+ const NEEDS_TRACE: bool = false;` -/
def dynCollectArm0Mutant : Template := { dynCollectArm0 with needsTrace := .explicitFalse }

end Example

end GcArena.MacroImpls
