import GcArena.Model.MacroImpls
import GcArena.Proofs.CollectLemmas
/-! General statements about the template rule (used by `Props/C12s` and `Props/C16`). -/
namespace GcArena.MacroImpls
open GcArena.CollectTy

/-! ## An instantiated template is a `Collect` impl like any other

`Template.toEntry` renders the impl a client gets from a template as a row of the `Collect`-impl
table (`Model/CollectTy.Entry`), so that the table theorems (`C16.exact`, `C16.no_hidden_brand`)
speak about it.  The user-supplied type is opaque: every declared parameter may be stored in it
(`fieldParams` = all positions), and if it mentions the impl's brand outside its parameters it holds
branded data of its own (one pointer field, `'gc`) — unless the template demands `$type: 'static`,
under which the brand can only be `'static`.  A forwarding `trace` (`dyn_trace`) visits everything
the value holds; an empty one nothing. -/
def Template.toEntry (t : Template) (i : Inst) : Entry :=
  let n := if t.hasParams then i.nparams else 0
  let fwd := t.trace == .forwardsDyn
  { shape := .internal
    text := t.macroName ++ "! arm " ++ toString t.arm
    nparams := n
    constNeeds := t.needsTraceValue == some true
    disjuncts := []
    traced := if fwd then List.range n else []
    direct := if fwd then List.range n else []
    guards := []
    staticParams := if t.paramsStatic then List.range n else []
    selfStatic := t.typeStatic
    ptrFields := if !i.brandFree && t.gcInScope && !t.typeStatic then ["'gc"] else []
    tracedFields := if fwd then ["'gc"] else []
    params := (List.range n).map (fun k =>
      ⟨"P", k, if fwd then .traced else if t.typeStatic || t.paramsStatic then .static else .unbounded⟩)
    fieldParams := List.range n
    freeLifetimes := []
    gate := "" }

/-- **What the template rule buys, in the terms of the impl table**: every instantiation of a
template satisfying `Template.ok` — any number of declared parameters, the user-supplied type
mentioning the brand or not — is a complete entry (every stored position traced under a true
`NEEDS_TRACE` or `'static`; branded data of the type itself traced and not short-circuited) and
satisfies the untraced-static rule. -/
theorem Template.toEntry_ok (t : Template) (h : t.ok = true) (i : Inst) :
    (t.toEntry i).complete = true ∧ (t.toEntry i).untracedStatic = true := by
  rcases t with ⟨mn, arm, hp, gs, ts, ps, ub, nt, tr, ui⟩
  cases nt <;> cases tr <;>
    simp only [Template.ok, Template.reportsNothing, Template.needsTraceValue] at h <;>
    simp_all [Template.toEntry, Template.needsTraceValue, Entry.complete, Entry.untracedStatic, Entry.held,
      Entry.isStaticAt, Shape.stored]


/-- The impl table extended by client instantiations of templates. -/
def withInstances (tb : Table) (is : List (Template × Inst)) : Table :=
  tb.extend (is.map (fun p => p.1.toEntry p.2))

theorem withInstances_complete (tb : Table) (htb : tb.complete = true) (ts : List Template)
    (hts : ts.all Template.ok = true) (is : List (Template × Inst)) (hmem : ∀ p, p ∈ is → p.1 ∈ ts) :
    (withInstances tb is).complete = true := by
  apply Table.extend_complete _ _ htb
  intro e he
  obtain ⟨p, hp, rfl⟩ := List.mem_map.mp he
  exact (Template.toEntry_ok p.1 (List.all_eq_true.mp hts _ (hmem p hp)) p.2).1

theorem withInstances_untracedStatic (tb : Table) (htb : tb.untracedStatic = true) (ts : List Template)
    (hts : ts.all Template.ok = true) (is : List (Template × Inst)) (hmem : ∀ p, p ∈ is → p.1 ∈ ts) :
    (withInstances tb is).untracedStatic = true := by
  apply Table.extend_untracedStatic _ _ htb
  intro e he
  obtain ⟨p, hp, rfl⟩ := List.mem_map.mp he
  exact (Template.toEntry_ok p.1 (List.all_eq_true.mp hts _ (hmem p hp)) p.2).2

/-- *Definitional reading of the rule* (the conclusion re-reads conjuncts of `Template.ok`; the
"root bound rejects it" half is prose).  The semantic statements are `Template.toEntry_ok` and the
`template_instances_*` theorems of `Props/C16` / `Props/C12s`; assurance that `Template.applies`
reflects rustc comes from the template probes (`c12-template-*`, `c16-template-*`).

What `Template.ok` buys: for **every** instantiation whose user-supplied type mentions a brand,
the generated impl is either not brand-generic — it holds only when the brand is `'static`, so the
`for<'a> Root<'a, R>: Collect<'a>` bound of the collecting `Arena` methods (and a generative
callback's `Gc::new`) rejects it — or it really traces: its `trace` forwards to the value and its
`NEEDS_TRACE` is `true`, so `Trace::trace` does not skip it. -/
theorem ok_sound (t : Template) (h : t.ok = true) (i : Inst) (hb : i.brandFree = false) :
    t.brandGeneric i = false ∨ (t.reportsNothing = false ∧ t.needsTraceValue = some true) := by
  simp only [Template.ok, Bool.and_eq_true, Bool.or_eq_true, Bool.not_eq_true'] at h
  obtain ⟨⟨⟨⟨_, _⟩, hshape⟩, hlic⟩, hfwd⟩ := h
  cases hr : t.reportsNothing with
  | true =>
    left
    rcases hlic with hlic | hlic
    · rw [hr] at hlic; cases hlic
    · simp [Template.brandGeneric, Template.applies, hlic, hb]
  | false =>
    right
    refine ⟨rfl, ?_⟩
    have hnoop : (t.trace == TraceBody.noop) = false := by
      simp only [Template.reportsNothing, Bool.or_eq_false_iff] at hr
      exact hr.2
    cases htr : t.trace with
    | noop => rw [htr] at hnoop; simp at hnoop
    | other b => rw [htr] at hshape; simp at hshape
    | forwardsDyn =>
      rcases hfwd with hfwd | hfwd
      · rw [htr] at hfwd; simp at hfwd
      · simpa using hfwd

/-- A template that claims nothing needs tracing without `$type: 'static` yields, for a type that
mentions the brand, an impl for every brand that reports no pointer: the brand hides. -/
theorem unlicensed_hides (t : Template) (hn : t.reportsNothing = true) (hs : t.typeStatic = false) :
    ∃ i : Inst, i.brandFree = false ∧ t.brandGeneric i = true ∧ t.reportsNothing = true :=
  ⟨{ brandFree := false }, rfl, by simp [Template.brandGeneric, Template.applies, hs], hn⟩

/-! Rows used by the `mutant_witness` theorems: the generic arms as they are in the crate, and as
the two seeded changes leave them. -/
namespace Example

def staticCollectArm0 : Template :=
  { macroName := "static_collect", arm := 0, hasParams := true, gcInScope := true, typeStatic := true,
    paramsStatic := false, userBounds := true, needsTrace := .explicitFalse, trace := .noop,
    isUnsafeImpl := true }

/-- `where $type: 'static,` ↦ `$($params: 'static,)+` -/
def staticCollectArm0Mutant : Template :=
  { staticCollectArm0 with typeStatic := false, paramsStatic := true }

def dynCollectArm0 : Template :=
  { macroName := "__dyn_collect", arm := 0, hasParams := true, gcInScope := true, typeStatic := false,
    paramsStatic := false, userBounds := true, needsTrace := .defaulted, trace := .forwardsDyn,
    isUnsafeImpl := true }

/-- `+ const NEEDS_TRACE: bool = false;` -/
def dynCollectArm0Mutant : Template := { dynCollectArm0 with needsTrace := .explicitFalse }

end Example

/-- Both seeded templates, instantiated at a type that mentions the brand (`Latch<'gc, T>`,
`dyn Tr<'gc, T>`), are rows the impl-table rule rejects; the crate's templates give complete rows at
the same instantiation. -/
theorem mutant_instances_incomplete :
    (Example.staticCollectArm0.toEntry { brandFree := false, nparams := 1 }).complete = true ∧
    (Example.staticCollectArm0Mutant.toEntry { brandFree := false, nparams := 1 }).complete = false ∧
    (Example.dynCollectArm0.toEntry { brandFree := false, nparams := 1 }).complete = true ∧
    (Example.dynCollectArm0Mutant.toEntry { brandFree := false, nparams := 1 }).complete = false ∧
    (Example.dynCollectArm0Mutant.toEntry { brandFree := false, nparams := 0 }).complete = false := by
  decide

end GcArena.MacroImpls
