import GcArena.Proofs.Mutator
/-!
  The four write barriers of src/context.rs: each preserves the invariant, keeps every earlier
  barrier's guarantee (`CoverOK`) and establishes its own, in every phase and for every colour of
  parent and child.
-/
namespace GcArena

/-- A barrier step: marks more, and never turns a *tracing* object black. -/
structure BarrierMono (c c' : Ctx) : Prop where
  mm : MarkMono c c'
  noNewBlack : ∀ i o o', c.heap.get i = some o → c'.heap.get i = some o' → o'.color = .black →
    o.needsTrace = true → o.color = .black

theorem BarrierMono.refl (c : Ctx) : BarrierMono c c :=
  ⟨MarkMono.refl c, fun _ o o' h h' hb _ => by rw [h] at h'; cases h'; exact hb⟩

theorem BarrierMono.coverOK {c c' : Ctx} (b : BarrierMono c c') {cv : Cover} (h : CoverOK c cv) :
    CoverOK c' cv := by
  have hph := b.mm.phase
  have alloc : ∀ i, (∃ o, c.heap.get i = some o) → ∃ o, c'.heap.get i = some o := fun i => b.mm.allocated
  cases cv with
  | parent p =>
    obtain ⟨ha, hc⟩ := h
    refine ⟨alloc p ha, ?_⟩
    intro hm o' ho' hnt hb
    obtain ⟨o, ho⟩ := b.mm.noNew p o' ho'
    obtain ⟨o2, ho2, _, _, _, hn⟩ := b.mm.mono p o ho
    rw [ho'] at ho2; cases ho2
    have hnt' : o.needsTrace = true := by rw [← hn]; exact hnt
    exact hc (by rw [← hph]; exact hm) o ho hnt' (b.noNewBlack p o o' ho ho' hb hnt')
  | child ch =>
    obtain ⟨ha, hc⟩ := h
    refine ⟨alloc ch ha, ?_⟩
    intro hm o' ho'
    obtain ⟨o, ho⟩ := b.mm.noNew ch o' ho'
    obtain ⟨o2, ho2, hcl, _⟩ := b.mm.mono ch o ho
    rw [ho'] at ho2; cases ho2
    have := hc (by rw [← hph]; exact hm) o ho
    cases hcol : o'.color <;> rcases this with h | h <;> simp_all [cls]
  | weakChild ch =>
    obtain ⟨ha, hc⟩ := h
    refine ⟨alloc ch ha, ?_⟩
    intro hm o' ho'
    obtain ⟨o, ho⟩ := b.mm.noNew ch o' ho'
    obtain ⟨o2, ho2, hcl, _⟩ := b.mm.mono ch o ho
    rw [ho'] at ho2; cases ho2
    have := hc (by rw [← hph]; exact hm) o ho
    cases hcol : o'.color <;> cases hcol2 : o.color <;> simp_all [cls]
  | pair p ch =>
    obtain ⟨ha, hb, hc⟩ := h
    refine ⟨alloc p ha, alloc ch hb, ?_⟩
    intro hm o' ho' hnt hbl co' hco'
    obtain ⟨o, ho⟩ := b.mm.noNew p o' ho'
    obtain ⟨o2, ho2, _, _, _, hn⟩ := b.mm.mono p o ho
    rw [ho'] at ho2; cases ho2
    have hnt' : o.needsTrace = true := by rw [← hn]; exact hnt
    obtain ⟨co, hco⟩ := b.mm.noNew ch co' hco'
    obtain ⟨co2, hco2, hcl, _⟩ := b.mm.mono ch co hco
    rw [hco'] at hco2; cases hco2
    have := hc (by rw [← hph]; exact hm) o ho hnt' (b.noNewBlack p o o' ho ho' hbl hnt') co hco
    cases hcol : co'.color <;> rcases this with h | h <;> simp_all [cls]
  | weakPair p ch =>
    obtain ⟨ha, hb, hc⟩ := h
    refine ⟨alloc p ha, alloc ch hb, ?_⟩
    intro hm o' ho' hnt hbl co' hco'
    obtain ⟨o, ho⟩ := b.mm.noNew p o' ho'
    obtain ⟨o2, ho2, _, _, _, hn⟩ := b.mm.mono p o ho
    rw [ho'] at ho2; cases ho2
    have hnt' : o.needsTrace = true := by rw [← hn]; exact hnt
    obtain ⟨co, hco⟩ := b.mm.noNew ch co' hco'
    obtain ⟨co2, hco2, hcl, _⟩ := b.mm.mono ch co hco
    rw [hco'] at hco2; cases hco2
    have := hc (by rw [← hph]; exact hm) o ho hnt' (b.noNewBlack p o o' ho ho' hbl hnt') co hco
    cases hcol : co'.color <;> cases hcol2 : co.color <;> simp_all [cls]

theorem trace_noNewBlack (c : Ctx) (t : Nat) : ∀ i o o', c.heap.get i = some o →
    (c.trace t).heap.get i = some o' → o'.color = .black → o.needsTrace = true → o.color = .black := by
  intro i o o' ho ho' hb hnt
  by_cases hi : i = t
  · subst hi
    unfold Ctx.trace at ho'
    simp only [ho] at ho'
    cases hcol : o.color with
    | black => rfl
    | gray => simp only [hcol] at ho'; rw [ho] at ho'; cases ho'; rw [hcol] at hb; cases hb
    | white =>
      simp only [hcol, hnt, if_true] at ho'
      split at ho' <;> simp at ho' <;> (subst ho'; cases hb)
    | whiteWeak =>
      simp only [hcol, hnt, if_true] at ho'
      split at ho' <;> simp at ho' <;> (subst ho'; cases hb)
  · rw [Ctx.trace_frame c t i hi, ho] at ho'; cases ho'; exact hb

theorem traceWeak_noNewBlack (c : Ctx) (t : Nat) : ∀ i o o', c.heap.get i = some o →
    (c.traceWeak t).heap.get i = some o' → o'.color = .black → o.needsTrace = true → o.color = .black := by
  intro i o o' ho ho' hb _
  by_cases hi : i = t
  · subst hi
    unfold Ctx.traceWeak at ho'
    simp only [ho] at ho'
    split at ho'
    · simp at ho'; subst ho'; cases hb
    · rw [ho] at ho'; cases ho'; exact hb
  · rw [Ctx.traceWeak_frame c t i hi, ho] at ho'; cases ho'; exact hb

theorem makeGrayAgain_noNewBlack (c : Ctx) (t : Nat) : ∀ i o o', c.heap.get i = some o →
    (c.makeGrayAgain t).heap.get i = some o' → o'.color = .black → o.needsTrace = true →
    o.color = .black := by
  intro i o o' ho ho' hb _
  unfold Ctx.makeGrayAgain at ho'
  cases hg : c.heap.get t with
  | none => simp only [hg, Ctx.fail_heap] at ho'; rw [ho] at ho'; cases ho'; exact hb
  | some ot =>
    simp only [hg] at ho'
    by_cases hi : i = t
    · subst hi
      split at ho' <;> simp at ho' <;> (subst ho'; cases hb)
    · split at ho' <;> simp [hi] at ho' <;> (rw [ho] at ho'; cases ho'; exact hb)

/-! ### `backward_barrier` -/

theorem backwardBarrier_spec {c : Ctx} {root temps} (h : CInv c root temps) {p : Nat}
    (hp : ∃ o, c.heap.get p = some o) (child : Option Nat)
    (hc : ∀ ch, child = some ch → ∃ o, c.heap.get ch = some o) :
    CInv (c.backwardBarrier p child) root temps ∧ BarrierMono c (c.backwardBarrier p child) ∧
      CoverOK (c.backwardBarrier p child)
        (match child with | none => .parent p | some ch => .pair p ch) := by
  obtain ⟨po, hpo⟩ := hp
  have cover_of_not_mark : c.phase ≠ .mark →
      CoverOK c (match child with | none => .parent p | some ch => .pair p ch) := by
    intro hnm
    cases child with
    | none => exact ⟨⟨po, hpo⟩, fun hm => absurd hm hnm⟩
    | some ch => exact ⟨⟨po, hpo⟩, hc ch rfl, fun hm => absurd hm hnm⟩
  unfold Ctx.backwardBarrier
  by_cases hm : c.phase = .mark
  · simp only [hm, if_true, hpo]
    by_cases hb : po.color = .black
    · simp only [hb, if_true]
      obtain ⟨h1, m1, o1, ho1, hg1⟩ := makeGrayAgain_spec h hm hpo hb
      have b1 : BarrierMono c (c.makeGrayAgain p) := ⟨m1, makeGrayAgain_noNewBlack c p⟩
      have hm1 : (c.makeGrayAgain p).phase = .mark := by rw [m1.phase]; exact hm
      cases child with
      | none =>
        simp only
        refine ⟨h1, b1, ⟨o1, ho1⟩, ?_⟩
        intro _ o' ho' _ hbl
        rw [ho1] at ho'; cases ho'; rw [hg1] at hbl; cases hbl
      | some ch =>
        simp only
        obtain ⟨co, hco⟩ := hc ch rfl
        simp only [hco]
        by_cases hw : co.color = .white ∨ co.color = .whiteWeak
        · have : (co.color = .white || co.color = .whiteWeak) = true := by
            rcases hw with hw | hw <;> simp [hw]
          simp only [this, if_true]
          refine ⟨h1, b1, ⟨o1, ho1⟩, m1.allocated ⟨co, hco⟩, ?_⟩
          intro _ o' ho' _ hbl
          rw [ho1] at ho'; cases ho'; rw [hg1] at hbl; cases hbl
        · have : (co.color = .white || co.color = .whiteWeak) = false := by
            cases hcc : co.color <;> simp_all
          simp only [this, Bool.false_eq_true, if_false]
          refine ⟨h, BarrierMono.refl c, ⟨po, hpo⟩, ⟨co, hco⟩, ?_⟩
          intro _ _ _ _ _ co' hco'
          rw [hco] at hco'; cases hco'
          cases hcc : co.color <;> simp_all
    · simp only [hb, if_false]
      refine ⟨h, BarrierMono.refl c, ?_⟩
      cases child with
      | none =>
        exact ⟨⟨po, hpo⟩, fun _ o' ho' _ hbl => by rw [hpo] at ho'; cases ho'; exact hb hbl⟩
      | some ch =>
        exact ⟨⟨po, hpo⟩, hc ch rfl, fun _ o' ho' _ hbl => by rw [hpo] at ho'; cases ho'; exact absurd hbl hb⟩
  · simp only [hm, if_false]
    exact ⟨h, BarrierMono.refl c, cover_of_not_mark hm⟩

/-! ### `backward_barrier_weak` -/

theorem backwardBarrierWeak_spec {c : Ctx} {root temps} (h : CInv c root temps) {p ch : Nat}
    (hp : ∃ o, c.heap.get p = some o) (hc : ∃ o, c.heap.get ch = some o) :
    CInv (c.backwardBarrierWeak p ch) root temps ∧ BarrierMono c (c.backwardBarrierWeak p ch) ∧
      CoverOK (c.backwardBarrierWeak p ch) (.weakPair p ch) := by
  obtain ⟨po, hpo⟩ := hp
  obtain ⟨co, hco⟩ := hc
  unfold Ctx.backwardBarrierWeak
  by_cases hm : c.phase = .mark
  · simp only [hm, if_true, hpo, hco]
    by_cases hb : po.color = .black
    · simp only [hb, if_true]
      by_cases hw : co.color = .white
      · simp only [hw, if_true]
        obtain ⟨h1, m1, o1, ho1, hg1⟩ := makeGrayAgain_spec h hm hpo hb
        refine ⟨h1, ⟨m1, makeGrayAgain_noNewBlack c p⟩, ⟨o1, ho1⟩, m1.allocated ⟨co, hco⟩, ?_⟩
        intro _ o' ho' _ hbl
        rw [ho1] at ho'; cases ho'; rw [hg1] at hbl; cases hbl
      · simp only [hw, if_false]
        refine ⟨h, BarrierMono.refl c, ⟨po, hpo⟩, ⟨co, hco⟩, ?_⟩
        intro _ _ _ _ _ co' hco'
        rw [hco] at hco'; cases hco'; exact hw
    · simp only [hb, if_false]
      exact ⟨h, BarrierMono.refl c, ⟨po, hpo⟩, ⟨co, hco⟩,
        fun _ o' ho' _ hbl => by rw [hpo] at ho'; cases ho'; exact absurd hbl hb⟩
  · simp only [hm, if_false]
    exact ⟨h, BarrierMono.refl c, ⟨po, hpo⟩, ⟨co, hco⟩, fun hm' => absurd hm' hm⟩

/-! ### `forward_barrier` -/

theorem forwardBarrier_spec {c : Ctx} {root temps} (h : CInv c root temps) (parent : Option Nat)
    {ch : Nat} (hp : ∀ p, parent = some p → ∃ o, c.heap.get p = some o) (hc : Safe c ch) :
    CInv (c.forwardBarrier parent ch) root temps ∧ BarrierMono c (c.forwardBarrier parent ch) ∧
      CoverOK (c.forwardBarrier parent ch)
        (match parent with | none => .child ch | some p => .pair p ch) := by
  have hca : ∃ o, c.heap.get ch = some o := by obtain ⟨o, ho, _⟩ := hc; exact ⟨o, ho⟩
  unfold Ctx.forwardBarrier
  by_cases hm : c.phase = .mark
  · simp only [hm, if_true]
    obtain ⟨h1, m1, o1, ho1, hc1⟩ := trace_spec h hm hc
    have b1 : BarrierMono c (c.trace ch) := ⟨m1, trace_noNewBlack c ch⟩
    cases parent with
    | none =>
      simp only
      refine ⟨h1, b1, ⟨o1, ho1⟩, ?_⟩
      intro _ o' ho'; rw [ho1] at ho'; cases ho'; exact hc1
    | some p =>
      simp only
      obtain ⟨po, hpo⟩ := hp p rfl
      simp only [hpo]
      by_cases hb : po.color = .black
      · simp only [hb, if_true]
        refine ⟨h1, b1, m1.allocated ⟨po, hpo⟩, ⟨o1, ho1⟩, ?_⟩
        intro _ _ _ _ _ co' hco'; rw [ho1] at hco'; cases hco'; exact hc1
      · simp only [hb, if_false]
        refine ⟨h, BarrierMono.refl c, ⟨po, hpo⟩, hca, ?_⟩
        intro _ o' ho' _ hbl; rw [hpo] at ho'; cases ho'; exact absurd hbl hb
  · simp only [hm, if_false]
    refine ⟨h, BarrierMono.refl c, ?_⟩
    cases parent with
    | none => exact ⟨hca, fun hm' => absurd hm' hm⟩
    | some p => exact ⟨hp p rfl, hca, fun hm' => absurd hm' hm⟩

/-! ### `forward_barrier_weak` -/

theorem forwardBarrierWeak_spec {c : Ctx} {root temps} (h : CInv c root temps) (parent : Option Nat)
    {ch : Nat} (hp : ∀ p, parent = some p → ∃ o, c.heap.get p = some o)
    (hca : ∃ o, c.heap.get ch = some o) :
    CInv (c.forwardBarrierWeak parent ch) root temps ∧
      BarrierMono c (c.forwardBarrierWeak parent ch) ∧
      CoverOK (c.forwardBarrierWeak parent ch)
        (match parent with | none => .weakChild ch | some p => .weakPair p ch) := by
  unfold Ctx.forwardBarrierWeak
  by_cases hm : c.phase = .mark
  · simp only [hm, if_true]
    obtain ⟨h1, m1, o1, ho1, hc1⟩ := traceWeak_spec h hm hca
    have b1 : BarrierMono c (c.traceWeak ch) := ⟨m1, traceWeak_noNewBlack c ch⟩
    cases parent with
    | none =>
      simp only
      refine ⟨h1, b1, ⟨o1, ho1⟩, ?_⟩
      intro _ o' ho'; rw [ho1] at ho'; cases ho'; exact hc1
    | some p =>
      simp only
      obtain ⟨po, hpo⟩ := hp p rfl
      simp only [hpo]
      by_cases hb : po.color = .black
      · simp only [hb, if_true]
        refine ⟨h1, b1, m1.allocated ⟨po, hpo⟩, ⟨o1, ho1⟩, ?_⟩
        intro _ _ _ _ _ co' hco'; rw [ho1] at hco'; cases hco'; exact hc1
      · simp only [hb, if_false]
        refine ⟨h, BarrierMono.refl c, ⟨po, hpo⟩, hca, ?_⟩
        intro _ o' ho' _ hbl; rw [hpo] at ho'; cases ho'; exact absurd hbl hb
  · simp only [hm, if_false]
    refine ⟨h, BarrierMono.refl c, ?_⟩
    cases parent with
    | none => exact ⟨hca, fun hm' => absurd hm' hm⟩
    | some p => exact ⟨hp p rfl, hca, fun hm' => absurd hm' hm⟩

end GcArena
