import GcArena.Proofs.Step
/-! Per-operation preservation lemmas for `Arena.stepBody`. -/
namespace GcArena

theorem inv_intro {b : Arena} (halive : b.alive = true) (hc : CInv b.ctx b.root b.temps)
    (hcov : ∀ cv, cv ∈ b.cover → CoverOK b.ctx cv) (hcb : b.cb = none → b.temps = [])
    (hfin : b.cb = some .finalize → b.ctx.phase = .mark)
    (hroot : b.cb = some .mutateRoot → b.ctx.phase = .mark → b.ctx.rootNeedsTrace = true)
    (hmk : b.marked = true → b.ctx.phase = .mark ∧ b.cb = none) : Inv b :=
  ⟨halive, hc, hcov, hcb, hfin, hroot, hmk⟩

/-- An arena that differs from `a` in context, temps and cover only. -/
theorem Inv.update' {a : Arena} (h : Inv a) {c : Ctx} {temps : List Ptr} {cover : List Cover}
    (hm : a.marked = false)
    (hc : CInv c a.root temps) (hcov : ∀ cv, cv ∈ cover → CoverOK c cv)
    (hph : c.phase = a.ctx.phase) (hrnt : c.rootNeedsTrace = a.ctx.rootNeedsTrace)
    (hcb : a.cb = none → temps = []) :
    Inv { a with ctx := c, temps := temps, cover := cover } :=
  ⟨h.alive, hc, hcov, hcb, fun hf => by rw [hph]; exact h.finMark hf,
   fun hr hmk => by rw [hrnt]; exact h.rootCb hr (by rw [← hph]; exact hmk),
   fun hmk => by simp only at hmk; rw [hm] at hmk; cases hmk⟩

/-- The two knob operations (`set_pacing`, `adjust_debt` — through a cloned `Metrics` handle) keep
    the `marked` flag: a `MarkedArena` handed out by the previous operation stays usable. -/
theorem sb_knob {a : Arena} (h : Inv a) (fin : Bool)
    (hfin : fin = true → a.ctx.phase = .mark ∧ a.cb = none) (f : Metrics → Metrics)
    (h1 : ∀ m, (f m).underflow = m.underflow) (h2 : ∀ m, (f m).totalGcs = m.totalGcs) :
    Inv { a with ctx := a.ctx.withMetrics f, marked := fin } := by
  have sv : SameView a.ctx (a.ctx.withMetrics f) := sameView_withMetrics _ _ (h1 _) (h2 _)
  exact ⟨h.alive, h.cinv.sameView sv, fun cv hcv => (sv.coverOK cv).mpr (h.cover cv hcv), h.cbTemps,
    h.finMark, h.rootCb, hfin⟩

theorem sb_setPacing {a : Arena} (h : Inv a) (_hm : a.marked = false) (fin : Bool)
    (hfin : fin = true → a.ctx.phase = .mark ∧ a.cb = none) (p : Pacing) :
    Inv (a.stepBody fin (.setPacing p)).1 :=
  sb_knob h fin hfin (·.setPacing p) (fun _ => rfl) (fun _ => rfl)

theorem sb_adjustDebt {a : Arena} (h : Inv a) (_hm : a.marked = false) (fin : Bool)
    (hfin : fin = true → a.ctx.phase = .mark ∧ a.cb = none) (x : Rat) :
    Inv (a.stepBody fin (.adjustDebt x)).1 :=
  sb_knob h fin hfin (·.adjustDebt x) (fun _ => rfl) (fun _ => rfl)

theorem sb_leave {a : Arena} (h : Inv a) (hm : a.marked = false) (fin : Bool) :
    Inv (a.stepBody fin .leave).1 := by
  simp only [Arena.stepBody]
  split
  · exact h
  · refine inv_intro h.alive h.cinv.clearTemps h.cover (fun _ => rfl) ?_ ?_ ?_
    · intro hf; cases hf
    · intro hf; cases hf
    · intro hmk; simp only at hmk; rw [hm] at hmk; cases hmk

theorem rootBarrier_coverOK {c : Ctx} {cv : Cover} (h : CoverOK c cv) : CoverOK c.rootBarrier cv := by
  unfold Ctx.rootBarrier
  split
  · exact CoverOK.frame rfl (fun _ _ => rfl) h
  · exact h

theorem sb_enter {a : Arena} (h : Inv a) (hm : a.marked = false) (fin : Bool)
    (hfin : fin = true → a.ctx.phase = .mark) (k : CbKind) :
    Inv (a.stepBody fin (.enter k)).1 := by
  simp only [Arena.stepBody]
  split
  · exact h
  · cases k with
    | mutate =>
      simp only
      refine inv_intro h.alive h.cinv h.cover ?_ ?_ ?_ ?_
      · intro hn; cases hn
      · intro hf; cases hf
      · intro hf; cases hf
      · intro hmk; simp only at hmk; rw [hm] at hmk; cases hmk
    | mutateRoot =>
      simp only
      refine inv_intro h.alive ?_ ?_ ?_ ?_ ?_ ?_
      · show CInv a.ctx.rootBarrier a.root a.temps
        unfold Ctx.rootBarrier
        split
        · rename_i hmark; exact h.cinv.setRnt hmark true (fun hb => by cases hb)
        · exact h.cinv
      · intro cv hcv; exact rootBarrier_coverOK (h.cover cv hcv)
      · intro hn; cases hn
      · intro hf; cases hf
      · intro _ hmark
        show a.ctx.rootBarrier.rootNeedsTrace = true
        have : a.ctx.phase = .mark := by
          have hmark' : a.ctx.rootBarrier.phase = .mark := hmark
          unfold Ctx.rootBarrier at hmark'; split at hmark' <;> assumption
        simp [Ctx.rootBarrier, this]
      · intro hmk; simp only at hmk; rw [hm] at hmk; cases hmk
    | finalize =>
      simp only
      split
      · rename_i hf
        refine inv_intro h.alive h.cinv h.cover ?_ ?_ ?_ ?_
        · intro hn; cases hn
        · intro _; exact hfin hf
        · intro hf; cases hf
        · intro hmk; simp only at hmk; rw [hm] at hmk; cases hmk
      · exact h

end GcArena

namespace GcArena

theorem cb_ne_none_of_not_isNone {a : Arena} (h : ¬ a.cb.isNone = true) : a.cb ≠ none := by
  intro hn; rw [hn] at h; simp at h

theorem all_holdsSlot {a : Arena} {slots : List Slot} (h : slots.all a.holdsSlot = true) :
    ∀ p, some p ∈ slots → a.holds p = true := by
  intro p hp
  rw [List.all_eq_true] at h
  exact h (some p) hp

theorem sb_alloc {a : Arena} (h : Inv a) (hm : a.marked = false) (fin : Bool) (nt : Bool)
    (slots : List Slot) : Inv (a.stepBody fin (.alloc nt slots)).1 := by
  simp only [Arena.stepBody]
  split
  · exact h
  · rename_i hcb
    split
    · exact h
    · rename_i hall
      split
      · exact h
      · rename_i hleaf
        have hall' : slots.all a.holdsSlot = true := by simpa using hall
        have hs : ∀ p, some p ∈ slots → PtrOK a.ctx p :=
          fun p hp => h.ptrOK_of_holds (all_holdsSlot hall' p hp)
        have hl : nt = false → ∀ s, s ∈ slots → s = none := by
          intro hnt s hs
          have : slots.all (· == none) = true := by
            cases hx : slots.all (· == none)
            · rw [hnt, hx] at hleaf; simp at hleaf
            · rfl
          rw [List.all_eq_true] at this
          simpa using this s hs
        obtain ⟨hc, hframe, _⟩ := link_spec h.cinv nt slots hs hl
        simp only
        -- the arena after linking, before the new pointer is recorded among the held ones
        have hi : Inv { a with ctx := (a.ctx.link { color := .white, needsTrace := nt, live := true, slots := slots }).1 } := by
          refine h.update' (temps := a.temps) (cover := a.cover) hm ?_ ?_ rfl rfl h.cbTemps
          · exact hc.withTemps (fun q hq => hc.tempsOK q (List.mem_cons_of_mem _ hq))
          · intro cv hcv
            refine CoverOK.frame (c := a.ctx)
              (c' := (a.ctx.link { color := .white, needsTrace := nt, live := true, slots := slots }).1)
              rfl ?_ (h.cover cv hcv)
            intro j hj
            apply hframe
            intro he; obtain ⟨o, ho⟩ := hj; rw [he, Heap.get_fresh] at ho; cases ho
        exact hi.push (hc.tempsOK _ (by simp)) (cb_ne_none_of_not_isNone hcb)

theorem sb_readRoot {a : Arena} (h : Inv a) (fin : Bool) (i : Nat) :
    Inv (a.stepBody fin (.readRoot i)).1 := by
  simp only [Arena.stepBody]
  split
  · exact h
  · rename_i hcb
    split
    · exact h
    · exact h
    · rename_i p hp
      refine h.push (h.cinv.rootOK p ?_) (cb_ne_none_of_not_isNone hcb)
      exact List.mem_of_getElem? hp

theorem slotOf_some {c : Ctx} {p i : Nat} {s : Slot} (h : Arena.slotOf c p i = some s) :
    ∃ o, c.heap.get p = some o ∧ s ∈ o.slots := by
  unfold Arena.slotOf at h
  split at h
  · cases h
  · rename_i o ho; exact ⟨o, ho, List.mem_of_getElem? h⟩

theorem sb_read {a : Arena} (h : Inv a) (fin : Bool) (p i : Nat) :
    Inv (a.stepBody fin (.read p i)).1 := by
  simp only [Arena.stepBody]
  split
  · exact h
  · rename_i hg
    simp only [Bool.or_eq_true, Bool.not_eq_true', not_or, Bool.not_eq_false] at hg
    split
    · exact h
    · exact h
    · rename_i q hq
      obtain ⟨o, ho, hmem⟩ := slotOf_some hq
      have hsafe : Safe a.ctx p := h.ptrOK_of_holds hg.2
      refine h.push (h.cinv.closed p o ho hsafe q hmem) ?_
      intro hn; rw [hn] at hg; simp at hg

theorem sb_downgrade {a : Arena} (h : Inv a) (fin : Bool) (p : Nat) :
    Inv (a.stepBody fin (.downgrade p)).1 := by
  simp only [Arena.stepBody]
  split
  · exact h
  · rename_i hg
    simp only [Bool.or_eq_true, Bool.not_eq_true', not_or, Bool.not_eq_false] at hg
    refine h.push (p := .weak p) (weakOK_of_safe (h.ptrOK_of_holds hg.2)) ?_
    intro hn; rw [hn] at hg; simp at hg

theorem sb_upgrade {a : Arena} (h : Inv a) (fin : Bool) (w : Nat) :
    Inv (a.stepBody fin (.upgrade w)).1 := by
  simp only [Arena.stepBody]
  split
  · exact h
  · rename_i hg
    simp only [Bool.or_eq_true, Bool.not_eq_true', not_or, Bool.not_eq_false] at hg
    have hw : WeakOK a.ctx w := h.ptrOK_of_holds hg.2
    have hctx := upgrade_ctx (c := a.ctx) (t := w) (by obtain ⟨o, ho, _⟩ := hw; exact ⟨o, ho⟩)
    have hcbn : a.cb ≠ none := by intro hn; rw [hn] at hg; simp at hg
    have hpair : a.ctx.upgrade w = (a.ctx, (a.ctx.upgrade w).2) := by
      conv => lhs; rw [show a.ctx.upgrade w = ((a.ctx.upgrade w).1, (a.ctx.upgrade w).2) from rfl, hctx]
    cases hu : (a.ctx.upgrade w).2 with
    | false =>
      rw [hpair, hu]
      exact h
    | true =>
      rw [hpair, hu]
      exact h.push (p := .strong w) (safe_of_upgrade hw hu) hcbn

theorem sb_isDropped {a : Arena} (h : Inv a) (fin : Bool) (w : Nat) :
    Inv (a.stepBody fin (.isDropped w)).1 := by
  simp only [Arena.stepBody]
  split
  · exact h
  · rename_i hg
    simp only [Bool.or_eq_true, Bool.not_eq_true', not_or, Bool.not_eq_false] at hg
    have hw : WeakOK a.ctx w := h.ptrOK_of_holds hg.2
    obtain ⟨o, ho, _⟩ := hw
    simp only [ho]
    exact h

theorem sb_isDead {a : Arena} (h : Inv a) (fin : Bool) (p : Ptr) :
    Inv (a.stepBody fin (.isDead p)).1 := by
  simp only [Arena.stepBody]
  split
  · exact h
  · rename_i hg
    simp only [Bool.or_eq_true, Bool.not_eq_true', not_or, Bool.not_eq_false, decide_eq_true_eq] at hg
    obtain ⟨o, ho⟩ := allocated_of_ptrOK (h.ptrOK_of_holds hg.2)
    simp only [ho]
    exact h

end GcArena

namespace GcArena

theorem resurrect_get (c : Ctx) (t : Nat) (ot : Obj) (hg : c.heap.get t = some ot) (j : Nat) :
    (c.resurrect t).heap.get j =
      if (ot.color = .white ∨ ot.color = .whiteWeak) ∧ j = t then some { ot with color := .gray }
      else c.heap.get j := by
  unfold Ctx.resurrect
  simp only [hg]
  have h0 : ∀ (b1 b2 : Prop) [Decidable b1] [Decidable b2],
      (if b2 then (if b1 then c else c.fail .debugAssert)
       else (if b1 then c else c.fail .debugAssert).fail .debugAssert).heap = c.heap := by
    intro b1 b2 _ _; split <;> split <;> simp
  by_cases hw : ot.color = .white ∨ ot.color = .whiteWeak
  · have : (decide (ot.color = .white) || decide (ot.color = .whiteWeak)) = true := by
      rcases hw with hw | hw <;> simp [hw]
    simp only [this, if_true, hw, true_and]
    split <;> simp [Heap.get_set, h0]
  · have : (decide (ot.color = .white) || decide (ot.color = .whiteWeak)) = false := by
      cases hc : ot.color <;> simp_all
    simp only [this, Bool.false_eq_true, if_false, hw, false_and]
    rw [h0]

theorem resurrect_noNewBlack (c : Ctx) (t : Nat) : ∀ i o o', c.heap.get i = some o →
    (c.resurrect t).heap.get i = some o' → o'.color = .black → o.needsTrace = true → o.color = .black := by
  intro i o o' ho ho' hb _
  cases hg : c.heap.get t with
  | none =>
    simp only [Ctx.resurrect, hg, Ctx.fail_heap] at ho'
    rw [ho] at ho'; cases ho'; exact hb
  | some ot =>
    rw [resurrect_get c t ot hg] at ho'
    split at ho'
    · simp at ho'; subst ho'; cases hb
    · rw [ho] at ho'; cases ho'; exact hb

theorem holds_of_and {a : Arena} {p : Ptr} {b : Bool} (h : ¬ (b || !a.holds p) = true) :
    a.holds p = true := by
  cases hh : a.holds p <;> simp_all

theorem sb_resurrect {a : Arena} (h : Inv a) (hm : a.marked = false) (fin : Bool) (p : Ptr) :
    Inv (a.stepBody fin (.resurrect p)).1 := by
  simp only [Arena.stepBody]
  split
  · exact h
  · rename_i hg
    simp only [Bool.or_eq_true, Bool.not_eq_true', not_or, Bool.not_eq_false, decide_eq_true_eq,
      Decidable.not_not] at hg
    have hmark : a.ctx.phase = .mark := h.finMark hg.1
    have hcbn : a.cb = none → a.temps = [] := h.cbTemps
    have hpo := h.ptrOK_of_holds hg.2
    cases p with
    | strong t =>
      simp only
      obtain ⟨h1, m1, _⟩ := resurrect_spec h.cinv hmark hpo
      exact h.update' (temps := a.temps) (cover := a.cover) hm h1
        (fun cv hcv => BarrierMono.coverOK ⟨m1, resurrect_noNewBlack a.ctx t⟩ (h.cover cv hcv))
        m1.phase m1.rnt hcbn
    | weak t =>
      simp only
      obtain ⟨o, ho, _⟩ := hpo
      simp only [ho]
      split
      · rename_i hl
        have hs : Safe a.ctx t := ⟨o, ho, hl, fun hp => by rw [hmark] at hp; cases hp⟩
        obtain ⟨h1, m1, _⟩ := resurrect_spec h.cinv hmark hs
        have hi : Inv { a with ctx := a.ctx.resurrect t } :=
          h.update' (temps := a.temps) (cover := a.cover) hm h1
            (fun cv hcv => BarrierMono.coverOK ⟨m1, resurrect_noNewBlack a.ctx t⟩ (h.cover cv hcv))
            m1.phase m1.rnt hcbn
        refine hi.push (p := .strong t) (m1.safe hmark hs) ?_
        intro hn; rw [hg.1] at hn; cases hn
      · exact h

theorem sb_barrier {a : Arena} (h : Inv a) (hm : a.marked = false) (fin : Bool) (b : BarrierOp) :
    Inv (a.stepBody fin (.barrier b)).1 := by
  simp only [Arena.stepBody]
  split
  · exact h
  · have alloc_s : ∀ p, a.holds (.strong p) = true → ∃ o, a.ctx.heap.get p = some o :=
      fun p hp => allocated_of_ptrOK (p := .strong p) (h.ptrOK_of_holds hp)
    have alloc_w : ∀ p, a.holds (.weak p) = true → ∃ o, a.ctx.heap.get p = some o :=
      fun p hp => allocated_of_ptrOK (p := .weak p) (h.ptrOK_of_holds hp)
    have fin_ : ∀ {c : Ctx} {cv : Cover}, CInv c a.root a.temps → BarrierMono a.ctx c → CoverOK c cv →
        Inv { a with ctx := c, cover := cv :: a.cover } := by
      intro c cv hc bm hcv
      refine h.update' (temps := a.temps) hm hc ?_ bm.mm.phase bm.mm.rnt h.cbTemps
      intro cv' hcv'
      simp only [List.mem_cons] at hcv'
      rcases hcv' with he | hmem
      · subst he; exact hcv
      · exact bm.coverOK (h.cover cv' hmem)
    cases b with
    | bb p c =>
      cases c with
      | none =>
        simp only
        split
        · exact h
        · rename_i hg
          have hp : a.holds (.strong p) = true := by simpa using hg
          obtain ⟨h1, b1, c1⟩ := backwardBarrier_spec h.cinv (alloc_s p hp) none (fun _ hc => by cases hc)
          exact fin_ h1 b1 c1
      | some c =>
        simp only
        split
        · exact h
        · rename_i hg
          simp only [Bool.or_eq_true, Bool.not_eq_true', not_or, Bool.not_eq_false] at hg
          obtain ⟨h1, b1, c1⟩ := backwardBarrier_spec h.cinv (alloc_s p hg.1) (some c)
            (fun ch hc => by cases hc; exact alloc_s c hg.2)
          exact fin_ h1 b1 c1
    | bbw p c =>
      simp only
      split
      · exact h
      · rename_i hg
        simp only [Bool.or_eq_true, Bool.not_eq_true', not_or, Bool.not_eq_false] at hg
        obtain ⟨h1, b1, c1⟩ := backwardBarrierWeak_spec h.cinv (alloc_s p hg.1) (alloc_w c hg.2)
        exact fin_ h1 b1 c1
    | fb p c =>
      cases p with
      | none =>
        simp only
        split
        · exact h
        · rename_i hg
          have hc : a.holds (.strong c) = true := by simpa using hg
          obtain ⟨h1, b1, c1⟩ := forwardBarrier_spec h.cinv none (fun _ hp => by cases hp)
            (h.ptrOK_of_holds hc)
          exact fin_ h1 b1 c1
      | some p =>
        simp only
        split
        · exact h
        · rename_i hg
          simp only [Bool.or_eq_true, Bool.not_eq_true', not_or, Bool.not_eq_false] at hg
          obtain ⟨h1, b1, c1⟩ := forwardBarrier_spec h.cinv (some p)
            (fun q hq => by cases hq; exact alloc_s p hg.1) (h.ptrOK_of_holds hg.2)
          exact fin_ h1 b1 c1
    | fbw p c =>
      cases p with
      | none =>
        simp only
        split
        · exact h
        · rename_i hg
          have hc : a.holds (.weak c) = true := by simpa using hg
          obtain ⟨h1, b1, c1⟩ := forwardBarrierWeak_spec h.cinv none (fun _ hp => by cases hp)
            (alloc_w c hc)
          exact fin_ h1 b1 c1
      | some p =>
        simp only
        split
        · exact h
        · rename_i hg
          simp only [Bool.or_eq_true, Bool.not_eq_true', not_or, Bool.not_eq_false] at hg
          obtain ⟨h1, b1, c1⟩ := forwardBarrierWeak_spec h.cinv (some p)
            (fun q hq => by cases hq; exact alloc_s p hg.1) (alloc_w c hg.2)
          exact fin_ h1 b1 c1

theorem sb_rootStore {a : Arena} (h : Inv a) (hm : a.marked = false) (fin : Bool) (i : Nat) (v : Slot) :
    Inv (a.stepBody fin (.rootStore i v)).1 := by
  simp only [Arena.stepBody]
  split
  · exact h
  · rename_i hg
    simp only [Bool.or_eq_true, Bool.not_eq_true', not_or, Bool.not_eq_false, decide_eq_true_eq,
      Decidable.not_not] at hg
    have hcb : a.cb = some .mutateRoot := hg.1.1
    have hv := h.slotOK_of_holds hg.1.2
    refine inv_intro h.alive ?_ h.cover h.cbTemps h.finMark h.rootCb ?_
    · apply setRoot_spec h.cinv
      · intro q hq
        rcases mem_set_slot hq with hq | hq
        · exact Or.inl hq
        · exact Or.inr (hv q hq)
      · exact h.rootCb hcb
    · intro hmk; simp only at hmk; rw [hm] at hmk; cases hmk

end GcArena

namespace GcArena

theorem backwardBarrier_none_eq {c : Ctx} {p : Nat} {o : Obj} (ho : c.heap.get p = some o) :
    c.backwardBarrier p none =
      if c.phase = .mark ∧ o.color = .black then
        { (c.setObj p { o with color := .gray }) with
            grayAgain := p :: c.grayAgain, metrics := c.metrics.markGcUntraced }
      else c := by
  unfold Ctx.backwardBarrier
  by_cases hm : c.phase = .mark
  · simp only [hm, if_true, ho, true_and]
    by_cases hb : o.color = .black
    · simp [hb, Ctx.makeGrayAgain, ho]
    · simp [hb]
  · simp [hm]

theorem setSlot_eq {c : Ctx} {p i : Nat} {v : Slot} {o : Obj} (ho : c.heap.get p = some o) :
    Arena.setSlot c p i v = c.setObj p { o with slots := o.slots.set i v } := by
  simp [Arena.setSlot, ho]

theorem coverOK_cases {a : Arena} (h : Inv a) {p : Nat} {q : Ptr} {o : Obj}
    (hcov : a.coverOK p (some q) = true) (ho : a.ctx.heap.get p = some o) (hnt : o.needsTrace = true)
    (hm : a.ctx.phase = .mark) (hb : o.color = .black) (hq : PtrOK a.ctx q) : PtrMarked a.ctx q := by
  obtain ⟨oq, hoq⟩ := allocated_of_ptrOK hq
  have use_parent : Cover.parent p ∈ a.cover → False := by
    intro hmem
    exact (h.cover _ hmem).2 hm o ho hnt hb
  have strong_of : ∀ c, q.target = c → (Cover.child c ∈ a.cover ∨ Cover.pair p c ∈ a.cover) →
      oq.color = .gray ∨ oq.color = .black := by
    intro c hc hmem
    subst hc
    rcases hmem with hmem | hmem
    · exact (h.cover _ hmem).2 hm oq hoq
    · exact (h.cover _ hmem).2.2 hm o ho hnt hb oq hoq
  cases q with
  | strong c =>
    simp only [Arena.coverOK, Bool.or_eq_true, List.contains_iff_mem] at hcov
    rcases hcov with (hcov | hcov) | hcov
    · exact (use_parent hcov).elim
    · exact ⟨oq, hoq, strong_of c rfl (Or.inl hcov)⟩
    · exact ⟨oq, hoq, strong_of c rfl (Or.inr hcov)⟩
  | weak c =>
    simp only [Arena.coverOK, Bool.or_eq_true, List.contains_iff_mem] at hcov
    rcases hcov with (((hcov | hcov) | hcov) | hcov) | hcov
    · exact (use_parent hcov).elim
    · have := strong_of c rfl (Or.inl hcov)
      exact ⟨oq, hoq, by rcases this with h | h <;> simp [h]⟩
    · have := strong_of c rfl (Or.inr hcov)
      exact ⟨oq, hoq, by rcases this with h | h <;> simp [h]⟩
    · exact ⟨oq, hoq, (h.cover _ hcov).2 hm oq hoq⟩
    · exact ⟨oq, hoq, (h.cover _ hcov).2.2 hm o ho hnt hb oq hoq⟩

/-- The barrier-then-store order (`Gc::write` … `borrow_mut`). -/
theorem store_write_inv {a : Arena} (h : Inv a) (hm : a.marked = false) {p i : Nat} {v : Slot}
    (hp : a.holds (.strong p) = true) (hv : a.holdsSlot v = true)
    (hnt : v.isSome = true → Arena.isTracing a.ctx p = true) :
    Inv { a with ctx := Arena.setSlot (a.ctx.backwardBarrier p none) p i v,
                 cover := .parent p :: a.cover } := by
  have hsafe : Safe a.ctx p := h.ptrOK_of_holds hp
  obtain ⟨o, ho, hlive, _⟩ := hsafe
  obtain ⟨h1, b1, c1⟩ := backwardBarrier_spec h.cinv ⟨o, ho⟩ none (fun _ hc => by cases hc)
  obtain ⟨o1, ho1, _, hs1, hl1, hn1⟩ := b1.mm.mono p o ho
  have hvq : ∀ q, v = some q → PtrOK (a.ctx.backwardBarrier p none) q := by
    intro q hq
    have := h.slotOK_of_holds hv q hq
    by_cases hmk : a.ctx.phase = .mark
    · exact b1.mm.ptrOK hmk this
    · have : a.ctx.backwardBarrier p none = a.ctx := by simp [Ctx.backwardBarrier, hmk]
      rw [this]; exact h.slotOK_of_holds hv q hq
  have hnt1 : ∀ q, v = some q → o1.needsTrace = true := by
    intro q hq
    have := hnt (by rw [hq]; rfl)
    simp only [Arena.isTracing, ho] at this
    rw [hn1]; exact this
  have h2 : CInv (Arena.setSlot (a.ctx.backwardBarrier p none) p i v) a.root a.temps := by
    apply setSlot_spec h1 ho1 (by rw [hl1]; exact hlive)
    intro q hq
    refine ⟨hvq q hq, ?_, hnt1 q hq⟩
    intro hmk hb
    exact absurd hb (c1.2 hmk o1 ho1 (hnt1 q hq))
  rw [setSlot_eq ho1] at h2 ⊢
  refine h.update' (temps := a.temps) hm h2 ?_ b1.mm.phase b1.mm.rnt h.cbTemps
  intro cv hcv
  simp only [List.mem_cons] at hcv
  apply CoverOK.setSlots ho1
  rcases hcv with he | hmem
  · subst he; exact c1
  · exact b1.coverOK (h.cover cv hmem)

theorem sb_store {a : Arena} (h : Inv a) (hm : a.marked = false) (fin : Bool) (path : StorePath)
    (p i : Nat) (v : Slot) : Inv (a.stepBody fin (.store path p i v)).1 := by
  simp only [Arena.stepBody]
  split
  · exact h
  · rename_i hg
    simp only [Bool.or_eq_true, Bool.not_eq_true', not_or, Bool.not_eq_false] at hg
    have hp : a.holds (.strong p) = true := hg.1.2
    have hv : a.holdsSlot v = true := hg.2
    split
    · exact h
    · split
      · exact h
      · rename_i hnt0
        have hnt : v.isSome = true → Arena.isTracing a.ctx p = true := by
          intro hs; cases ht : Arena.isTracing a.ctx p <;> simp_all
        have hsafe : Safe a.ctx p := h.ptrOK_of_holds hp
        obtain ⟨o, ho, hlive, _⟩ := hsafe
        have hnt' : ∀ q, v = some q → o.needsTrace = true := by
          intro q hq
          have := hnt (by rw [hq]; rfl)
          simpa [Arena.isTracing, ho] using this
        cases path with
        | write => exact store_write_inv h hm hp hv hnt
        | raw =>
          simp only
          split
          · exact h
          · rename_i hcov
            have hcov' : a.coverOK p v = true := by simpa using hcov
            have h2 : CInv (Arena.setSlot a.ctx p i v) a.root a.temps := by
              apply setSlot_spec h.cinv ho hlive
              intro q hq
              refine ⟨h.slotOK_of_holds hv q hq, ?_, hnt' q hq⟩
              intro hmk hb
              subst hq
              exact coverOK_cases h hcov' ho (hnt' q rfl) hmk hb (h.slotOK_of_holds hv q rfl)
            rw [setSlot_eq ho] at h2 ⊢
            exact h.update' (temps := a.temps) (cover := a.cover) hm h2
              (fun cv hcv => CoverOK.setSlots ho _ (h.cover cv hcv)) rfl rfl h.cbTemps
        | storeThenBarrier =>
          simp only
          -- same final state (up to what the invariant reads) as barrier-then-store
          have hw := store_write_inv (i := i) h hm hp hv hnt
          have ho' : (Arena.setSlot a.ctx p i v).heap.get p = some { o with slots := o.slots.set i v } := by
            rw [setSlot_eq ho]; simp
          have sv : SameView (Arena.setSlot (a.ctx.backwardBarrier p none) p i v)
              ((Arena.setSlot a.ctx p i v).backwardBarrier p none) := by
            rw [backwardBarrier_none_eq ho', backwardBarrier_none_eq ho]
            by_cases hc : a.ctx.phase = .mark ∧ o.color = .black
            · have hc' : (Arena.setSlot a.ctx p i v).phase = .mark ∧
                  ({ o with slots := o.slots.set i v } : Obj).color = .black := by
                rw [setSlot_eq ho]; exact hc
              rw [if_pos hc, if_pos hc']
              rw [setSlot_eq (c := { (a.ctx.setObj p { o with color := .gray }) with
                  grayAgain := p :: a.ctx.grayAgain, metrics := a.ctx.metrics.markGcUntraced })
                  (o := { o with color := .gray }) (by simp)]
              rw [setSlot_eq ho]
              constructor <;> first | rfl | (intro j; simp; split <;> rfl)
            · have hc' : ¬ ((Arena.setSlot a.ctx p i v).phase = .mark ∧
                  ({ o with slots := o.slots.set i v } : Obj).color = .black) := by
                rw [setSlot_eq ho]; exact hc
              rw [if_neg hc, if_neg hc']
              exact SameView.refl _
          refine inv_intro h.alive (hw.cinv.sameView sv) ?_ h.cbTemps ?_ ?_ ?_
          · intro cv hcv; exact (sv.coverOK cv).mpr (hw.cover cv hcv)
          · intro hf; rw [sv.phase]; exact hw.finMark hf
          · intro hr hmk; rw [sv.rnt]; exact hw.rootCb hr (by rw [← sv.phase]; exact hmk)
          · intro hmk; simp only at hmk; rw [hm] at hmk; cases hmk

end GcArena

namespace GcArena

theorem doCollection_reaches {c : Ctx} {root ru stop fault} (h : CInv c root []) :
    Reaches c root (c.doCollection root ru stop fault).1 := by
  unfold Ctx.doCollection
  split
  · exact Reaches.refl c root
  · exact collectLoop_reaches _ c false 0 h

theorem runCollector_inv {a : Arena} (h : Inv a) (hcb : a.cb = none) {ru stop fault oracle c ex}
    (hr : a.runCollector ru stop fault oracle = some (c, ex)) : CInv c a.root [] := by
  have h0 : CInv a.ctx a.root [] := by have := h.cinv; rw [h.cbTemps hcb] at this; exact this
  unfold Arena.runCollector at hr
  cases oracle with
  | none =>
    simp only [Option.some.injEq] at hr
    have : c = (a.ctx.doCollection a.root ru stop fault).1 := by rw [hr]
    rw [this]
    exact (doCollection_reaches h0).inv h0
  | some ms =>
    simp only at hr
    split at hr
    · cases hr
    · rename_i c' hc'
      simp only [Option.some.injEq, Prod.mk.injEq] at hr
      rw [← hr.1]
      exact micros_inv ms h0 hc'

/-- The arena after a collection call that left the context in state `c`. -/
theorem Inv.afterCollect {a : Arena} (h : Inv a) (hm : a.marked = false) (hcb : a.cb = none) {c : Ctx}
    (hc : CInv c a.root []) : Inv { a with ctx := c, cover := [] } := by
  refine inv_intro h.alive ?_ ?_ h.cbTemps ?_ ?_ ?_
  · show CInv c a.root a.temps
    rw [h.cbTemps hcb]; exact hc
  · intro cv hcv; cases hcv
  · intro hf; simp only at hf; rw [hcb] at hf; cases hf
  · intro hf; simp only at hf; rw [hcb] at hf; cases hf
  · intro hmk; simp only at hmk; rw [hm] at hmk; cases hmk

theorem marked?_inv {a : Arena} (h : Inv a) (hm : a.marked = false) (hcb : a.cb = none) (hcov : a.cover = [])
    (k : Cont) (o2 : Option (List Micro)) : Inv (a.marked? k o2).1 := by
  unfold Arena.marked?
  split
  · rename_i hmk
    cases k with
    | drop => exact h
    | finalize =>
      simp only
      refine inv_intro h.alive h.cinv h.cover h.cbTemps h.finMark h.rootCb ?_
      intro _
      simp only [Arena.isMarked, Bool.and_eq_true, decide_eq_true_eq] at hmk
      exact ⟨hmk.1, hcb⟩
    | sweep =>
      simp only
      cases hss : a.startSweeping o2 with
      | none => exact h
      | some c' =>
        simp only
        unfold Arena.startSweeping at hss
        cases hr2 : a.runCollector .stop .atSweep none o2 with
        | none => rw [hr2] at hss; cases hss
        | some res2 =>
          obtain ⟨c2, ex2⟩ := res2
          rw [hr2] at hss
          simp only at hss
          split at hss
          · cases hss
            have hc2 := runCollector_inv h hcb hr2
            have := h.afterCollect hm hcb hc2
            rw [hcov]; exact this
          · cases hss
  · exact h

theorem sb_collect {a : Arena} (h : Inv a) (hm : a.marked = false) (fin : Bool) (m : Method) (k : Cont)
    (fault : TraceFault) (oracle : Option (List Micro)) :
    Inv (a.stepBody fin (.collect m k fault oracle)).1 := by
  simp only [Arena.stepBody]
  split
  · exact h
  · rename_i hcb0
    have hcb : a.cb = none := by cases hc : a.cb <;> simp_all
    generalize Arena.splitOracle oracle k m = os
    cases hr : a.runCollector (Arena.methodArgs m).1 (Arena.methodArgs m).2 fault os.1 with
    | none => exact h
    | some res =>
      obtain ⟨c, ex⟩ := res
      simp only
      have hc := runCollector_inv h hcb hr
      have ha := h.afterCollect hm hcb hc
      split
      · exact ha
      · split
        · exact ha
        · cases m with
          | markDebt => exact marked?_inv ha hm hcb rfl k os.2
          | finishMarking => exact marked?_inv ha hm hcb rfl k os.2
          | collectDebt => exact ha
          | cycleDebt => exact ha
          | finishCycle => exact ha

end GcArena
