import GcArena.Proofs.Congr
import GcArena.Proofs.Basic
/-!
  `Context::sweep_one` and the phase switches of `do_collection` preserve the invariant.
-/
namespace GcArena

/-- Facts shared by the three arms of `sweep_one` about the object `i` under the cursor. -/
theorem safe_sweep_step {c c' : Ctx} {i : Nat} (hp : c.phase = .sweep) (hp' : c'.phase = .sweep)
    (hrest : c.rest = i :: c'.rest)
    (hframe : ∀ j, j ≠ i → c'.heap.get j = c.heap.get j)
    {t : Nat} (hne : t ≠ i) : Safe c' t ↔ Safe c t := by
  unfold Safe
  rw [hframe t hne, hrest]
  simp [hp, hp', hne]

theorem weakOK_sweep_step {c c' : Ctx} {i : Nat} (hp : c.phase = .sweep) (hp' : c'.phase = .sweep)
    (hrest : c.rest = i :: c'.rest)
    (hframe : ∀ j, j ≠ i → c'.heap.get j = c.heap.get j)
    {t : Nat} (hne : t ≠ i) : WeakOK c' t ↔ WeakOK c t := by
  unfold WeakOK
  rw [hframe t hne, hrest]
  simp [hp, hp', hne]

/-- The two "kept" arms of `sweep_one` (black, white-weak): the object under the cursor stays in
    the list, in front of the cursor, white again. -/
theorem sweep_keep {c c' : Ctx} {root temps} (h : CInv c root temps) (hp : c.phase = .sweep)
    {i : Nat} {rest' : List Nat} (hr : c.rest = i :: rest') {o o' : Obj} (ho : c.heap.get i = some o)
    (hw : o'.color = .white) (hnt : o'.needsTrace = o.needsTrace)
    (hlive : o'.live = true → o.color = .black ∧ o'.slots = o.slots)
    (hdead : o'.live = false → o'.slots = [])
    (hblack : o.color = .black → o'.live = true)
    (hcol : o.color = .black ∨ o.color = .whiteWeak)
    (e1 : c'.phase = c.phase) (e2 : ∀ j, c'.heap.get j = if j = i then some o' else c.heap.get j)
    (e3 : c'.pre = c.pre ++ [i]) (e4 : c'.rest = rest')
    (e5 : c'.rootNeedsTrace = c.rootNeedsTrace) (e6 : c'.gray = c.gray) (e7 : c'.grayAgain = c.grayAgain)
    (e8 : c'.err = c.err) (e9 : c'.metrics.underflow = c.metrics.underflow)
    (e10 : c'.metrics.totalGcs = c.metrics.totalGcs) : CInv c' root temps := by
  have hnd := h.nodup
  rw [hr] at hnd
  have hi_nr : i ∉ rest' := by
    have := (List.nodup_append.mp hnd).2.1
    simp only [List.nodup_cons] at this; exact this.1
  have hi_np : i ∉ c.pre := by
    intro hmem
    exact (List.nodup_append.mp hnd).2.2 i hmem i (by simp) rfl
  have hq := h.qMark (by rw [hp]; simp)
  have hp' : c'.phase = .sweep := by rw [e1]; exact hp
  have hframe : ∀ j, j ≠ i → c'.heap.get j = c.heap.get j := by
    intro j hj; rw [e2]; simp [hj]
  have hgi : c'.heap.get i = some o' := by rw [e2]; simp
  have hrest : c.rest = i :: c'.rest := by rw [hr, e4]
  have hptr : ∀ p, PtrOK c p → PtrOK c' p := by
    intro p hpo
    cases p with
    | strong t =>
      by_cases hne : t = i
      · subst hne
        obtain ⟨ot, hot, _, hbl⟩ := hpo
        rw [ho] at hot; cases hot
        have hb := hbl hp (by rw [hr]; simp)
        exact ⟨o', hgi, hblack hb, fun _ hmem => by rw [e4] at hmem; exact absurd hmem hi_nr⟩
      · exact (safe_sweep_step hp hp' hrest hframe hne).mpr hpo
    | weak t =>
      by_cases hne : t = i
      · subst hne
        exact ⟨o', hgi, fun _ hmem => by rw [e4] at hmem; exact absurd hmem hi_nr⟩
      · exact (weakOK_sweep_step hp hp' hrest hframe hne).mpr hpo
  constructor
  · rw [e8]; exact h.noErr
  · rw [e9]; exact h.noUnderflow
  · rw [e1]; exact h.notDrop
  · rw [e3, e4]; simpa using hnd
  · intro j
    rw [e3, e4, e2]
    by_cases hj : j = i
    · subst hj; simp
    · simp only [hj, if_false]
      rw [← h.memAll j, hr]; simp
  · intro hne; exact absurd hp' hne
  · rw [e10, e3, e4, h.count, hr]; simp
  · intro j oj hoj hg
    rw [e2] at hoj
    by_cases hj : j = i
    · subst hj; simp at hoj; subst hoj; rw [hw] at hg; cases hg
    · simp only [hj, if_false] at hoj
      rw [e6, e7]; exact h.grayQ j oj hoj hg
  · intro j hj
    rw [e6, e7, hq.1, hq.2] at hj; simp at hj
  · rw [e6, e7]; exact h.qNodup
  · intro _; rw [e6, e7]; exact hq
  · intro hs; rw [hp'] at hs; cases hs
  · intro hs; rw [hp'] at hs; cases hs
  · intro _; rw [e5]; exact h.sweepRoot hp
  · intro _ j hj oj hoj
    rw [e3] at hj
    rw [e2] at hoj
    by_cases hji : j = i
    · subst hji; simp at hoj; subst hoj; exact hw
    · simp only [hji, if_false] at hoj
      simp only [List.mem_append, List.mem_singleton, hji, or_false] at hj
      exact h.preWhite hp j hj oj hoj
  · intro j oj hoj hc
    rw [e2] at hoj
    by_cases hj : j = i
    · subst hj; simp at hoj; subst hoj; rw [hw] at hc; rcases hc with hc | hc <;> cases hc
    · simp only [hj, if_false] at hoj; exact h.markedLive j oj hoj hc
  · intro j oj hoj hc
    rw [e2] at hoj
    by_cases hj : j = i
    · subst hj; simp at hoj; subst hoj; exact hdead hc
    · simp only [hj, if_false] at hoj; exact h.deadNoSlots j oj hoj hc
  · intro j oj hoj hc s hs
    rw [e2] at hoj
    by_cases hj : j = i
    · subst hj; simp at hoj; subst hoj
      cases hl : o'.live with
      | true =>
        rw [(hlive hl).2] at hs
        exact h.leafNoPtr j o ho (by rw [← hnt]; exact hc) s hs
      | false => rw [hdead hl] at hs; cases hs
    · simp only [hj, if_false] at hoj; exact h.leafNoPtr j oj hoj hc s hs
  · intro hm; rw [hp'] at hm; cases hm
  · intro hm; rw [hp'] at hm; cases hm
  · intro j oj hoj hs p hpm
    rw [e2] at hoj
    by_cases hj : j = i
    · subst hj; simp at hoj; subst hoj
      obtain ⟨o2, ho2, hl2, _⟩ := hs
      rw [hgi] at ho2; cases ho2
      obtain ⟨hb, hsl⟩ := hlive hl2
      rw [hsl] at hpm
      have hs' : Safe c j := ⟨o, ho, h.markedLive j o ho (Or.inr hb), fun _ _ => hb⟩
      exact hptr p (h.closed j o ho hs' p hpm)
    · simp only [hj, if_false] at hoj
      have hs' : Safe c j := (safe_sweep_step hp hp' hrest hframe hj).mp hs
      exact hptr p (h.closed j oj hoj hs' p hpm)
  · intro p hpm; exact hptr p (h.rootOK p hpm)
  · intro p hpm; exact hptr p (h.tempsOK p hpm)

theorem sweepOne_spec {c : Ctx} {root temps} (h : CInv c root temps) (hp : c.phase = .sweep) :
    CInv c.sweepOne.1 root temps ∧ c.sweepOne.1.phase = .sweep := by
  unfold Ctx.sweepOne
  cases hr : c.rest with
  | nil => exact ⟨h.sameView (sameView_step c 'e'), hp⟩
  | cons i rest' =>
    simp only
    have hnd := h.nodup
    rw [hr] at hnd
    have hi_nr : i ∉ rest' := by
      have := (List.nodup_append.mp hnd).2.1
      simp only [List.nodup_cons] at this; exact this.1
    have hi_np : i ∉ c.pre := by
      intro hmem
      exact (List.nodup_append.mp hnd).2.2 i hmem i (by simp) rfl
    obtain ⟨o, ho⟩ := (h.memAll i).mp (by rw [hr]; simp)
    have hng : o.color ≠ .gray := by
      intro hg
      have := h.grayQ i o ho hg
      have hq := h.qMark (by rw [hp]; simp)
      rw [hq.1, hq.2] at this; simp at this
    have hq := h.qMark (by rw [hp]; simp)
    simp only [Ctx.step_heap, ho]
    have htot : 0 < c.metrics.totalGcs := by rw [h.count, hr]; simp; omega
    cases hcol : o.color with
    | gray => exact absurd hcol hng
    | white =>
      simp only
      -- the released state, generically in whether the value is destructed first
      have key : ∀ (c1 : Ctx), c1.phase = c.phase → c1.heap = c.heap → c1.pre = c.pre → c1.rest = rest' →
          c1.rootNeedsTrace = c.rootNeedsTrace → c1.gray = c.gray → c1.grayAgain = c.grayAgain →
          c1.err = c.err → c1.metrics.underflow = c.metrics.underflow →
          c1.metrics.totalGcs = c.metrics.totalGcs →
          CInv (({ c1 with heap := c1.heap.set i none }.emit (.freed i)).withMetrics Metrics.markGcFreed)
            root temps := by
        intro c1 e1 e2 e3 e4 e5 e6 e7 e8 e9 e10
        have hframe : ∀ j, j ≠ i → (c1.heap.set i none).get j = c.heap.get j := by
          intro j hj; rw [Heap.get_set, e2]; simp [hj]
        have hsafe : ∀ t, Safe c t → t ≠ i := by
          rintro t ⟨ot, hot, _, hbl⟩ rfl
          rw [ho] at hot; cases hot
          have := hbl hp (by rw [hr]; simp)
          rw [hcol] at this; cases this
        have hweak : ∀ t, WeakOK c t → t ≠ i := by
          rintro t ⟨ot, hot, hbl⟩ rfl
          rw [ho] at hot; cases hot
          have := hbl hp (by rw [hr]; simp)
          rw [hcol] at this; rcases this with h | h <;> cases h
        have hptr : ∀ p, PtrOK c p → PtrOK
            (({ c1 with heap := c1.heap.set i none }.emit (.freed i)).withMetrics Metrics.markGcFreed) p := by
          intro p hpo
          cases p with
          | strong t =>
            have hne := hsafe t hpo
            refine (safe_sweep_step (i := i) hp ?_ ?_ ?_ hne).mpr hpo
            · simp [e1, hp]
            · simp [hr, e4]
            · intro j hj; simpa using hframe j hj
          | weak t =>
            have hne := hweak t hpo
            refine (weakOK_sweep_step (i := i) hp ?_ ?_ ?_ hne).mpr hpo
            · simp [e1, hp]
            · simp [hr, e4]
            · intro j hj; simpa using hframe j hj
        constructor
        · simp [e8]; exact h.noErr
        · simp [Metrics.markGcFreed, e9, h.noUnderflow]; omega
        · simp [e1]; exact h.notDrop
        · simp only [Ctx.withMetrics_pre, Ctx.withMetrics_rest, Ctx.emit_pre, Ctx.emit_rest, e3, e4]
          exact (List.nodup_append.mpr ⟨(List.nodup_append.mp hnd).1,
            (List.nodup_cons.mp (List.nodup_append.mp hnd).2.1).2,
            fun a ha b hb => (List.nodup_append.mp hnd).2.2 a ha b (List.mem_cons_of_mem _ hb)⟩)
        · intro j
          simp only [Ctx.withMetrics_pre, Ctx.withMetrics_rest, Ctx.emit_pre, Ctx.emit_rest, e3, e4,
            Ctx.withMetrics_heap, Ctx.emit_heap, Heap.get_set, e2]
          by_cases hj : j = i
          · subst hj; simp [hi_nr, hi_np]
          · simp only [hj, if_false]
            rw [← h.memAll j, hr]; simp [hj]
        · simp [e1, hp]
        · simp only [Ctx.withMetrics_metrics, Ctx.emit_metrics, Metrics.markGcFreed,
            Ctx.withMetrics_pre, Ctx.withMetrics_rest, Ctx.emit_pre, Ctx.emit_rest, e3, e4, e10]
          rw [h.count, hr]; simp
        · intro j oj hoj hg
          simp only [Ctx.withMetrics_heap, Ctx.emit_heap, Heap.get_set, e2] at hoj
          by_cases hj : j = i
          · simp [hj] at hoj
          · simp only [hj, if_false] at hoj
            simpa [e6, e7] using h.grayQ j oj hoj hg
        · intro j hj
          simp only [Ctx.withMetrics_gray, Ctx.withMetrics_grayAgain, Ctx.emit_gray, Ctx.emit_grayAgain,
            e6, e7, hq.1, hq.2] at hj
          simp at hj
        · simp only [Ctx.withMetrics_gray, Ctx.withMetrics_grayAgain, Ctx.emit_gray, Ctx.emit_grayAgain, e6, e7]
          exact h.qNodup
        · intro _
          simp only [Ctx.withMetrics_gray, Ctx.withMetrics_grayAgain, Ctx.emit_gray, Ctx.emit_grayAgain, e6, e7]
          exact hq
        · intro hs; simp [e1, hp] at hs
        · intro hs; simp [e1, hp] at hs
        · intro _; simp [e5]; exact h.sweepRoot hp
        · intro _ j hj oj hoj
          simp only [Ctx.withMetrics_pre, Ctx.emit_pre, e3] at hj
          simp only [Ctx.withMetrics_heap, Ctx.emit_heap, Heap.get_set, e2] at hoj
          have hne : j ≠ i := fun he => hi_np (he ▸ hj)
          simp only [hne, if_false] at hoj
          exact h.preWhite hp j hj oj hoj
        · intro j oj hoj hc
          simp only [Ctx.withMetrics_heap, Ctx.emit_heap, Heap.get_set, e2] at hoj
          by_cases hj : j = i
          · simp [hj] at hoj
          · simp only [hj, if_false] at hoj; exact h.markedLive j oj hoj hc
        · intro j oj hoj hc
          simp only [Ctx.withMetrics_heap, Ctx.emit_heap, Heap.get_set, e2] at hoj
          by_cases hj : j = i
          · simp [hj] at hoj
          · simp only [hj, if_false] at hoj; exact h.deadNoSlots j oj hoj hc
        · intro j oj hoj hc
          simp only [Ctx.withMetrics_heap, Ctx.emit_heap, Heap.get_set, e2] at hoj
          by_cases hj : j = i
          · simp [hj] at hoj
          · simp only [hj, if_false] at hoj; exact h.leafNoPtr j oj hoj hc
        · intro hm; simp [e1, hp] at hm
        · intro hm; simp [e1, hp] at hm
        · intro j oj hoj hs p hpm
          simp only [Ctx.withMetrics_heap, Ctx.emit_heap, Heap.get_set, e2] at hoj
          by_cases hj : j = i
          · simp [hj] at hoj
          · simp only [hj, if_false] at hoj
            have hs' : Safe c j := by
              refine (safe_sweep_step (i := i) hp ?_ ?_ ?_ hj).mp hs
              · simp [e1, hp]
              · simp [hr, e4]
              · intro k hk; simpa using hframe k hk
            exact hptr p (h.closed j oj hoj hs' p hpm)
        · intro p hpm; exact hptr p (h.rootOK p hpm)
        · intro p hpm; exact hptr p (h.tempsOK p hpm)
      refine ⟨?_, by split <;> simp [hp]⟩
      split
      · exact key _ (by simp) (by simp) (by simp) (by simp) (by simp) (by simp) (by simp) (by simp)
          (by simp [Metrics.markGcDropped]) (by simp [Metrics.markGcDropped])
      · exact key _ (by simp) (by simp) (by simp) (by simp) (by simp) (by simp) (by simp) (by simp)
          (by simp) (by simp)
    | whiteWeak =>
      simp only
      refine ⟨?_, by split <;> simp [hp]⟩
      cases hl : o.live with
      | true =>
        simp only [if_true]
        apply sweep_keep h hp hr ho (o' := { o with color := .white, live := false, slots := [] })
          rfl rfl (by simp) (by simp) (by simp [hcol]) (Or.inr hcol)
        all_goals simp [Metrics.markGcRemembered, Metrics.markGcDropped]
      | false =>
        simp only [Bool.false_eq_true, if_false]
        apply sweep_keep h hp hr ho (o' := { o with color := .white })
          rfl rfl (by simp [hl]) (by intro _; exact h.deadNoSlots i o ho hl) (by simp [hcol]) (Or.inr hcol)
        all_goals simp [Metrics.markGcRemembered, hl]
    | black =>
      simp only
      refine ⟨?_, by simp [hp]⟩
      apply sweep_keep h hp hr ho (o' := { o with color := .white })
        rfl rfl (by intro _; exact ⟨hcol, rfl⟩)
        (by intro hl; have := h.markedLive i o ho (Or.inr hcol); simp at hl; rw [hl] at this; cases this)
        (by intro _; exact h.markedLive i o ho (Or.inr hcol)) (Or.inl hcol)
      all_goals simp [Metrics.markGcRemembered]

end GcArena

namespace GcArena

/-- `Sleep → Mark` (`cx.switch(Phase::Mark)`). -/
theorem wake_spec {c : Ctx} {root temps} (h : CInv c root temps) (hp : c.phase = .sleep) :
    CInv (c.switch .mark) root temps := by
  have hw := h.sleepWhite hp
  have hrn : c.rest = [] := h.restNil (by rw [hp]; simp)
  constructor
  · exact h.noErr
  · exact h.noUnderflow
  · simp [Ctx.switch]
  · exact h.nodup
  · exact h.memAll
  · intro _; exact hrn
  · exact h.count
  · exact h.grayQ
  · exact h.qGray
  · exact h.qNodup
  · intro hne; simp [Ctx.switch] at hne
  · intro hs; simp [Ctx.switch] at hs
  · intro hs; simp [Ctx.switch] at hs
  · intro hs; simp [Ctx.switch] at hs
  · intro hs; simp [Ctx.switch] at hs
  · exact h.markedLive
  · exact h.deadNoSlots
  · exact h.leafNoPtr
  · intro _ i o ho hb
    have := hw i o ho
    simp only [Ctx.switch, Ctx.step_heap] at ho
    rw [hw i o ho] at hb; cases hb
  · intro _ hr
    have := h.sleepRoot hp
    simp only [Ctx.switch, Ctx.step_rnt] at hr
    rw [this] at hr; cases hr
  · intro i o ho hs p hpm
    have hs' : Safe c i := by
      obtain ⟨o2, h1, h2, _⟩ := hs
      exact ⟨o2, h1, h2, fun hps => by rw [hp] at hps; cases hps⟩
    have := h.closed i o ho hs' p hpm
    cases p with
    | strong t => obtain ⟨o2, h1, h2, _⟩ := this; exact ⟨o2, h1, h2, fun hps => by simp [Ctx.switch] at hps⟩
    | weak t => obtain ⟨o2, h1, _⟩ := this; exact ⟨o2, h1, fun hps => by simp [Ctx.switch] at hps⟩
  · intro p hpm
    have := h.rootOK p hpm
    cases p with
    | strong t => obtain ⟨o2, h1, h2, _⟩ := this; exact ⟨o2, h1, h2, fun hps => by simp [Ctx.switch] at hps⟩
    | weak t => obtain ⟨o2, h1, _⟩ := this; exact ⟨o2, h1, fun hps => by simp [Ctx.switch] at hps⟩
  · intro p hpm
    have := h.tempsOK p hpm
    cases p with
    | strong t => obtain ⟨o2, h1, h2, _⟩ := this; exact ⟨o2, h1, h2, fun hps => by simp [Ctx.switch] at hps⟩
    | weak t => obtain ⟨o2, h1, _⟩ := this; exact ⟨o2, h1, fun hps => by simp [Ctx.switch] at hps⟩

/-- `Mark → Sweep` with `sweep = all`, from a fully marked arena, outside callbacks. -/
theorem enterSweep_spec {c : Ctx} {root} (h : CInv c root []) (hp : c.phase = .mark)
    (hg : c.grayRemaining = false) : CInv c.enterSweep root [] := by
  have hq : c.gray = [] ∧ c.grayAgain = [] ∧ c.rootNeedsTrace = false := by
    simp only [Ctx.grayRemaining, Bool.or_eq_false_iff, Bool.not_eq_false', List.isEmpty_iff] at hg
    exact ⟨hg.1.1, hg.1.2, hg.2⟩
  have hrn : c.rest = [] := h.restNil (by rw [hp]; simp)
  have hnogray : ∀ i o, c.heap.get i = some o → o.color ≠ .gray := by
    intro i o ho hgr
    have := h.grayQ i o ho hgr
    rw [hq.1, hq.2.1] at this; simp at this
  have hph : c.enterSweep.phase = .sweep := rfl
  have hheap : c.enterSweep.heap = c.heap := rfl
  have hrest : c.enterSweep.rest = c.pre := by simp [Ctx.enterSweep, Ctx.switch, hrn]
  have hpre : c.enterSweep.pre = [] := rfl
  have hptr : ∀ p, PtrMarked c p → PtrOK c.enterSweep p := by
    intro p hpm
    cases p with
    | strong t =>
      obtain ⟨o, ho, hc⟩ := hpm
      have hb : o.color = .black := by
        rcases hc with hc | hc
        · exact absurd hc (hnogray t o ho)
        · exact hc
      exact ⟨o, ho, h.markedLive t o ho (Or.inr hb), fun _ _ => hb⟩
    | weak t =>
      obtain ⟨o, ho, hc⟩ := hpm
      refine ⟨o, ho, fun _ _ => ?_⟩
      cases hcol : o.color with
      | white => exact absurd hcol hc
      | gray => exact absurd hcol (hnogray t o ho)
      | whiteWeak => exact Or.inl rfl
      | black => exact Or.inr rfl
  constructor
  · exact h.noErr
  · exact h.noUnderflow
  · simp [Ctx.enterSweep, Ctx.switch]
  · rw [hpre, hrest]; simpa [hrn] using h.nodup
  · intro i; rw [hpre, hrest, hheap, ← h.memAll i, hrn]; simp
  · intro hne; exact absurd hph hne
  · rw [hpre, hrest]; simpa [Ctx.enterSweep, Ctx.switch, hrn] using h.count
  · intro i o ho hgr; exact absurd hgr (hnogray i o ho)
  · intro i hi
    simp only [Ctx.enterSweep, Ctx.switch, Ctx.step_gray, Ctx.step_grayAgain, hq.1, hq.2.1] at hi
    simp at hi
  · exact h.qNodup
  · intro _; exact ⟨hq.1, hq.2.1⟩
  · intro hs; rw [hph] at hs; cases hs
  · intro hs; rw [hph] at hs; cases hs
  · intro _; exact hq.2.2
  · intro _ i hi; rw [hpre] at hi; cases hi
  · exact h.markedLive
  · exact h.deadNoSlots
  · exact h.leafNoPtr
  · intro hm; rw [hph] at hm; cases hm
  · intro hm; rw [hph] at hm; cases hm
  · intro i o ho hs p hpm
    obtain ⟨o2, ho2, _, hbl⟩ := hs
    rw [hheap] at ho ho2
    rw [ho] at ho2; cases ho2
    have hmem : i ∈ c.enterSweep.rest := by
      rw [hrest]
      have := (h.memAll i).mpr ⟨o, ho⟩
      simpa [hrn] using this
    have hb := hbl hph hmem
    exact hptr p (h.tri hp i o ho hb (by simp) p hpm)
  · intro p hpm; exact hptr p (h.triRoot hp hq.2.2 p hpm)
  · intro p hpm; cases hpm

/-- `Sweep → Sleep` (`finish_cycle`, `root_needs_trace = true`, `switch(Sleep)`) at the end of the
    sweep list. -/
theorem enterSleep_spec {c : Ctx} {root temps} (h : CInv c root temps) (hp : c.phase = .sweep)
    (hr : c.rest = []) (hs : Bool) : CInv (c.enterSleep hs) root temps := by
  have hq := h.qMark (by rw [hp]; simp)
  have hph : (c.enterSleep hs).phase = .sleep := rfl
  have hheap : (c.enterSleep hs).heap = c.heap := rfl
  have hsafe : ∀ i, Safe c i → Safe (c.enterSleep hs) i := by
    rintro i ⟨o, ho, hl, _⟩
    exact ⟨o, ho, hl, fun hps => by rw [hph] at hps; cases hps⟩
  have hsafe' : ∀ i, Safe (c.enterSleep hs) i → Safe c i := by
    rintro i ⟨o, ho, hl, _⟩
    exact ⟨o, ho, hl, fun _ hm => by rw [hr] at hm; cases hm⟩
  have hptr : ∀ p, PtrOK c p → PtrOK (c.enterSleep hs) p := by
    intro p hpo
    cases p with
    | strong t => exact hsafe t hpo
    | weak t =>
      obtain ⟨o, ho, _⟩ := hpo
      exact ⟨o, ho, fun hps => by rw [hph] at hps; cases hps⟩
  constructor
  · exact h.noErr
  · simpa [Ctx.enterSleep, Ctx.switch, Metrics.finishCycle] using h.noUnderflow
  · rw [hph]; simp
  · exact h.nodup
  · exact h.memAll
  · intro _; exact hr
  · simpa [Ctx.enterSleep, Ctx.switch, Metrics.finishCycle] using h.count
  · exact h.grayQ
  · exact h.qGray
  · exact h.qNodup
  · intro _; exact hq
  · intro _ i o ho
    have hmem := (h.memAll i).mpr ⟨o, ho⟩
    rw [hr, List.append_nil] at hmem
    exact h.preWhite hp i hmem o ho
  · intro _; rfl
  · intro hps; rw [hph] at hps; cases hps
  · intro hps; rw [hph] at hps; cases hps
  · exact h.markedLive
  · exact h.deadNoSlots
  · exact h.leafNoPtr
  · intro hm; rw [hph] at hm; cases hm
  · intro hm; rw [hph] at hm; cases hm
  · intro i o ho hsf p hpm; exact hptr p (h.closed i o ho (hsafe' i hsf) p hpm)
  · intro p hpm; exact hptr p (h.rootOK p hpm)
  · intro p hpm; exact hptr p (h.tempsOK p hpm)

end GcArena
