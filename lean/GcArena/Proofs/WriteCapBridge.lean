import GcArena.Proofs.StepOps
import GcArena.Proofs.WriteCapLemmas
/-!
# Bridge: Write-capability calculus (C13) ⟶ collector model (C01 / C06)

`Model/WriteCap.lean` speaks of places, holders and a predicate `B` ("a write barrier has been
applied to this object during the current callback"); `Model/Arena.lean` speaks of `Op.store`
with a `StorePath` and of the ghost list `Arena.cover` (barriers issued since the last collection
call).  The interpretation used here:

* an object of the calculus is an object id of the collector heap (`Obj = Nat` on both sides);
* `coverB a o` — "`Cover.parent o ∈ a.cover`": an unrestricted backward barrier
  (`backward_barrier(o, None)`, i.e. `Gc::write(mc, o)`) was issued on `o` and no collection call
  has happened since (every `collect` clears `cover`);
* an `unlock`ed store item `.store place pf` of the calculus, performed on holder `o`, is the
  collector operation `Op.store .raw o i v` for some slot `i` and value `v`
  (`StorePath.raw` is the path "store through a cell obtained after an explicit barrier");
  a pointer-free place (`pf = true`: its type is `'static`) can only be given `v = none`.
-/
namespace GcArena.WriteCap

open GcArena

/-- "A backward barrier on `o` is in force": `Cover.parent o` is in the arena's ghost cover. -/
def coverB (a : Arena) : Obj → Prop := fun o => a.cover.contains (Cover.parent o) = true

/-- `Covered` under `coverB` is the collector model's `coverOK` for every holder of the place. -/
theorem covered_coverOK (a : Arena) (env : Env) (it : Item) (h : Covered env (coverB a) it)
    (o : Obj) (ho : o ∈ holders env it.place) (v : Slot) (hv : it.ptrFree = true → v = none) :
    a.coverOK o v = true := by
  rcases h with hpf | hb
  · rw [hv hpf]; rfl
  · have hc0 : a.cover.contains (Cover.parent o) = true := hb o ho
    have hc : Cover.parent o ∈ a.cover := by simpa using hc0
    cases v with
    | none => rfl
    | some p =>
      cases p with
      | strong c => simp [Arena.coverOK, hc]
      | weak c => simp [Arena.coverOK, hc]

/-- With the side conditions every store shares (a callback is running, the client holds the
object and the value, the slot exists, a non-tracing type holds no pointer), a covered raw store
is **accepted** by `stepBody` and is exactly `setSlot`. -/
theorem raw_store_accepted (a : Arena) (fin : Bool) (o i : Nat) (v s : Slot)
    (hcov : a.coverOK o v = true)
    (hcb : a.cb.isSome = true) (hh : a.holds (.strong o) = true) (hs : a.holdsSlot v = true)
    (hslot : Arena.slotOf a.ctx o i = some s)
    (htr : v.isSome = true → Arena.isTracing a.ctx o = true) :
    a.stepBody fin (.store .raw o i v) = ({ a with ctx := Arena.setSlot a.ctx o i v }, "ok") := by
  have hcb' : a.cb.isNone = false := by
    cases hc : a.cb <;> simp_all
  have htr' : (v.isSome && !Arena.isTracing a.ctx o) = false := by
    cases hv : v.isSome
    · simp
    · simp [htr hv]
  simp [Arena.stepBody, hcb', hh, hs, hslot, htr', hcov]

/-- An accepted `backward_barrier(o, None)` establishes `coverB … o`, and keeps it for every other
object (the cover only grows until the next collection call). -/
theorem barrier_establishes_cover (a : Arena) (fin : Bool) (o : Nat)
    (hcb : a.cb.isSome = true) (hh : a.holds (.strong o) = true) :
    coverB (a.stepBody fin (.barrier (.bb o none))).1 o ∧
    ∀ o', coverB a o' → coverB (a.stepBody fin (.barrier (.bb o none))).1 o' := by
  have hcb' : a.cb.isNone = false := by
    cases hc : a.cb <;> simp_all
  constructor
  · simp [coverB, Arena.stepBody, hcb', hh]
  · intro o' ho'
    simp only [coverB] at ho' ⊢
    simp only [List.contains_eq_mem, decide_eq_true_eq] at ho'
    simp [Arena.stepBody, hcb', hh]
    exact Or.inr ho'

end GcArena.WriteCap
