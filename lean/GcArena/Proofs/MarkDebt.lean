import GcArena.Proofs.Pacing
import GcArena.Proofs.Protocol
/-!
  `mark_debt` (`RunUntil::PayDebt`, `Stop::FullyMarked`): it returns with the debt paid, or fully
  marked (its documented stopping phase) — or it was called while Sweeping, where it does nothing.
-/
namespace GcArena

theorem collectLoop_markDebt {root fault} (fuel : Nat) :
    ∀ (c : Ctx) (hs : Bool) (k : Nat) (c' : Ctx), CInv c root [] → c.phase ≠ .sweep →
      Ctx.collectLoop root .payDebt .fullyMarked fault fuel c hs k = (c', .returned) →
      c'.metrics.hasDebt = false ∨ Arena.isMarked c' = true := by
  induction fuel with
  | zero => intro c hs k c' _ _ h; simp [Ctx.collectLoop] at h
  | succ fuel ih =>
    intro c hs k c' h hns hr
    unfold Ctx.collectLoop at hr
    cases hp : c.phase with
    | drop => exact absurd hp h.notDrop
    | sweep => exact absurd hp hns
    | sleep =>
      simp only [hp] at hr
      have h1 : CInv (c.switch .mark) root [] := wake_spec h hp
      by_cases hb : (c.switch .mark).debtBreak .payDebt = true
      · rw [if_pos hb] at hr
        simp only [Prod.mk.injEq, and_true] at hr
        rw [← hr]; exact Or.inl (debtBreak_payDebt hb)
      · rw [if_neg hb] at hr
        exact ih _ _ _ _ h1 (by simp [Ctx.switch, Ctx.step]) hr
    | mark =>
      simp only [hp] at hr
      cases hg : c.grayRemaining with
      | false =>
        rw [markOne_break _ hg] at hr
        have : Stop.fullyMarked ≤ Stop.fullyMarked := by decide
        simp only [this, if_true, Prod.mk.injEq, and_true] at hr
        rw [← hr]
        right
        have hg' : (c.step 'b').grayRemaining = false := hg
        have hp' : (c.step 'b').phase = .mark := hp
        simp [Arena.isMarked, hg', hp', hp]
      | true =>
        have hnb := markOne_not_break (root := root) (faultAt fault k) hg
        have hsp := markOne_spec h hp (faultAt fault k) (root := root)
        cases hfl : (c.markOne root (faultAt fault k)).2 with
        | «break» => exact absurd hfl hnb
        | unwind =>
          rw [show c.markOne root (faultAt fault k) =
            ((c.markOne root (faultAt fault k)).1, (c.markOne root (faultAt fault k)).2) from rfl, hfl] at hr
          simp at hr
        | «continue» =>
          rw [show c.markOne root (faultAt fault k) =
            ((c.markOne root (faultAt fault k)).1, (c.markOne root (faultAt fault k)).2) from rfl, hfl] at hr
          simp only at hr
          by_cases hb : (c.markOne root (faultAt fault k)).1.debtBreak .payDebt = true
          · rw [if_pos hb] at hr
            simp only [Prod.mk.injEq, and_true] at hr
            rw [← hr]; exact Or.inl (debtBreak_payDebt hb)
          · rw [if_neg hb] at hr
            exact ih _ _ _ _ hsp.1 (by rw [hsp.2.phase, hp]; simp) hr

/-- `mark_debt`: zero debt, or fully marked, or (called while Sweeping) nothing at all. -/
theorem doCollection_markDebt {c c' : Ctx} {root fault} (h : CInv c root [])
    (hr : c.doCollection root .payDebt .fullyMarked fault = (c', .returned)) :
    c'.metrics.allocationDebt = 0 ∨ Arena.isMarked c' = true ∨ (c.phase = .sweep ∧ c' = c) := by
  by_cases hp : c.phase = .sweep
  · right; right
    refine ⟨hp, ?_⟩
    unfold Ctx.doCollection at hr
    split at hr
    · simp only [Prod.mk.injEq, and_true] at hr; exact hr.symm
    · have hfuel : 2 * c.fuelBound root + 8 = (2 * c.fuelBound root + 7) + 1 := by omega
      rw [hfuel] at hr
      unfold Ctx.collectLoop at hr
      simp only [hp] at hr
      have : Stop.fullyMarked ≤ Stop.atSweep := by decide
      simp only [this, if_true, Prod.mk.injEq, and_true] at hr
      exact hr.symm
  · unfold Ctx.doCollection at hr
    split at hr
    · rename_i hb
      simp only [Prod.mk.injEq, and_true] at hr
      rw [← hr]
      left
      exact debt_zero_of_not_hasDebt _ (by simpa using hb)
    · rcases collectLoop_markDebt _ _ _ _ _ h hp hr with hd | hm
      · exact Or.inl (debt_zero_of_not_hasDebt _ hd)
      · exact Or.inr (Or.inl hm)

end GcArena
