import GcArena.Proofs.Recolor
/-!
  Mark-phase primitives of src/context.rs preserve the invariant:
  `trace`, `trace_weak`, `make_gray_again`, `resurrect`, and the slot loop of `Collect::trace`.
-/
namespace GcArena

/-- `c'` marks at least what `c` marks and changes nothing else the invariant reads. -/
structure MarkMono (c c' : Ctx) : Prop where
  phase : c'.phase = c.phase
  rnt : c'.rootNeedsTrace = c.rootNeedsTrace
  pre : c'.pre = c.pre
  rest : c'.rest = c.rest
  log : c'.log = c.log
  mono : ∀ i o, c.heap.get i = some o → ∃ o', c'.heap.get i = some o' ∧ cls o.color ≤ cls o'.color ∧
            o'.slots = o.slots ∧ o'.live = o.live ∧ o'.needsTrace = o.needsTrace
  noNew : ∀ i o', c'.heap.get i = some o' → ∃ o, c.heap.get i = some o

theorem MarkMono.refl (c : Ctx) : MarkMono c c :=
  ⟨rfl, rfl, rfl, rfl, rfl, fun _ o ho => ⟨o, ho, Nat.le_refl _, rfl, rfl, rfl⟩, fun _ o' ho' => ⟨o', ho'⟩⟩

theorem MarkMono.trans {a b c : Ctx} (h1 : MarkMono a b) (h2 : MarkMono b c) : MarkMono a c := by
  refine ⟨h2.phase.trans h1.phase, h2.rnt.trans h1.rnt, h2.pre.trans h1.pre, h2.rest.trans h1.rest,
    h2.log.trans h1.log, ?_, ?_⟩
  · intro i o ho
    obtain ⟨o1, ho1, hc1, hs1, hl1, hn1⟩ := h1.mono i o ho
    obtain ⟨o2, ho2, hc2, hs2, hl2, hn2⟩ := h2.mono i o1 ho1
    exact ⟨o2, ho2, Nat.le_trans hc1 hc2, hs2.trans hs1, hl2.trans hl1, hn2.trans hn1⟩
  · intro i o' ho'
    obtain ⟨o1, ho1⟩ := h2.noNew i o' ho'
    exact h1.noNew i o1 ho1

theorem MarkMono.marked {c c' : Ctx} (h : MarkMono c c') {p : Ptr} (hp : PtrMarked c p) :
    PtrMarked c' p :=
  PtrMarked.mono (fun i o ho => let ⟨o', ho', hc, _⟩ := h.mono i o ho; ⟨o', ho', hc⟩) hp

theorem MarkMono.safe {c c' : Ctx} (h : MarkMono c c') (hm : c.phase = .mark) {i : Nat}
    (hs : Safe c i) : Safe c' i := by
  obtain ⟨o, ho, hl, _⟩ := hs
  obtain ⟨o', ho', _, _, hl', _⟩ := h.mono i o ho
  refine ⟨o', ho', hl'.trans hl, ?_⟩
  intro hp; rw [h.phase, hm] at hp; cases hp

theorem MarkMono.allocated {c c' : Ctx} (h : MarkMono c c') {i : Nat}
    (hs : ∃ o, c.heap.get i = some o) : ∃ o, c'.heap.get i = some o := by
  obtain ⟨o, ho⟩ := hs
  obtain ⟨o', ho', _⟩ := h.mono i o ho
  exact ⟨o', ho'⟩

theorem Recolored.markMono {c c' t o col} (r : Recolored c c' t o col) (hcls : cls o.color ≤ cls col)
    (hlog : c'.log = c.log) : MarkMono c c' := by
  refine ⟨r.phase, r.rnt, r.pre, r.rest, hlog, ?_, ?_⟩
  · intro i oi hoi
    rw [r.heap]
    by_cases hi : i = t
    · subst hi
      rw [r.get_t] at hoi; cases hoi
      exact ⟨{ o with color := col }, by simp, hcls, rfl, rfl, rfl⟩
    · exact ⟨oi, by simp [hi, hoi], Nat.le_refl _, rfl, rfl, rfl⟩
  · intro i o' ho'
    rw [r.heap] at ho'
    by_cases hi : i = t
    · subst hi; exact ⟨o, r.get_t⟩
    · simp [hi] at ho'; exact ⟨o', ho'⟩

/-- A recolouring that leaves the queues alone (target colour not gray, object not queued). -/
theorem CInvH.recolor_noq {c c' : Ctx} {root temps hole} {t : Nat} {o : Obj} {col : Color}
    (h : CInvH c root temps hole) (hm : c.phase = .mark) (r : Recolored c c' t o col)
    (hcls : cls o.color ≤ cls col) (hlive : col = .gray ∨ col = .black → o.live = true)
    (hg : c'.gray = c.gray) (hga : c'.grayAgain = c.grayAgain)
    (hcol : col ≠ .gray) (hoc : o.color ≠ .gray)
    (hblack : col = .black → some t ≠ hole → ∀ p, some p ∈ o.slots → PtrMarked c' p) :
    CInvH c' root temps hole := by
  have hnq : ¬ (t ∈ c.gray ∨ t ∈ c.grayAgain) := by
    intro hq
    obtain ⟨o', ho', hgr⟩ := h.qGray t hq
    rw [r.get_t] at ho'; cases ho'; exact hoc hgr
  apply h.recolor hm r hcls hlive
  · intro i
    rw [hg, hga]
    constructor
    · intro hi; left; exact ⟨fun he => by subst he; exact hnq hi, hi⟩
    · rintro (⟨_, hi⟩ | ⟨_, hc⟩)
      · exact hi
      · exact absurd hc hcol
  · rw [hg, hga]; exact h.qNodup
  · exact hblack

/-- A recolouring to gray that pushes the object on the gray queue. -/
theorem CInvH.recolor_push {c c' : Ctx} {root temps hole} {t : Nat} {o : Obj}
    (h : CInvH c root temps hole) (hm : c.phase = .mark) (r : Recolored c c' t o .gray)
    (hlive : o.live = true)
    (hg : c'.gray = t :: c.gray) (hga : c'.grayAgain = c.grayAgain)
    (hoc : o.color ≠ .gray) :
    CInvH c' root temps hole := by
  have hnq : ¬ (t ∈ c.gray ∨ t ∈ c.grayAgain) := by
    intro hq
    obtain ⟨o', ho', hgr⟩ := h.qGray t hq
    rw [r.get_t] at ho'; cases ho'; exact hoc hgr
  have hcls : cls o.color ≤ cls Color.gray := by cases hcol : o.color <;> simp [cls]
  apply h.recolor hm r hcls (fun _ => hlive)
  · intro i
    rw [hg, hga]
    simp only [List.mem_cons]
    constructor
    · rintro ((he | hi) | hi)
      · right; exact ⟨he, trivial⟩
      · left; exact ⟨fun he => by subst he; exact hnq (Or.inl hi), Or.inl hi⟩
      · left; exact ⟨fun he => by subst he; exact hnq (Or.inr hi), Or.inr hi⟩
    · rintro (⟨_, hi | hi⟩ | ⟨he, _⟩)
      · exact Or.inl (Or.inr hi)
      · exact Or.inr hi
      · exact Or.inl (Or.inl he)
  · rw [hg, hga]
    simp only [List.cons_append, List.nodup_cons]
    refine ⟨?_, h.qNodup⟩
    intro hmem
    rw [List.mem_append] at hmem
    exact hnq hmem
  · intro hb; cases hb

/-- A recolouring from black to gray that pushes the object on the gray-again queue. -/
theorem CInvH.recolor_pushAgain {c c' : Ctx} {root temps hole} {t : Nat} {o : Obj}
    (h : CInvH c root temps hole) (hm : c.phase = .mark) (r : Recolored c c' t o .gray)
    (hlive : o.live = true)
    (hg : c'.gray = c.gray) (hga : c'.grayAgain = t :: c.grayAgain)
    (hoc : o.color ≠ .gray) :
    CInvH c' root temps hole := by
  have hnq : ¬ (t ∈ c.gray ∨ t ∈ c.grayAgain) := by
    intro hq
    obtain ⟨o', ho', hgr⟩ := h.qGray t hq
    rw [r.get_t] at ho'; cases ho'; exact hoc hgr
  have hcls : cls o.color ≤ cls Color.gray := by cases hcol : o.color <;> simp [cls]
  apply h.recolor hm r hcls (fun _ => hlive)
  · intro i
    rw [hg, hga]
    simp only [List.mem_cons]
    constructor
    · rintro (hi | (he | hi))
      · left; exact ⟨fun he => by subst he; exact hnq (Or.inl hi), Or.inl hi⟩
      · right; exact ⟨he, trivial⟩
      · left; exact ⟨fun he => by subst he; exact hnq (Or.inr hi), Or.inr hi⟩
    · rintro (⟨_, hi | hi⟩ | ⟨he, _⟩)
      · exact Or.inl hi
      · exact Or.inr (Or.inr hi)
      · exact Or.inr (Or.inl he)
  · rw [hg, hga]
    have := h.qNodup
    rw [List.nodup_append] at this ⊢
    obtain ⟨n1, n2, n3⟩ := this
    refine ⟨n1, ?_, ?_⟩
    · simp only [List.nodup_cons]; exact ⟨fun hmem => hnq (Or.inr hmem), n2⟩
    · intro a ha b hb
      simp only [List.mem_cons] at hb
      rcases hb with hb | hb
      · subst hb; intro he; subst he; exact hnq (Or.inl ha)
      · exact n3 a ha b hb
  · intro hb; cases hb

/-! ### `Context::trace_weak` -/

theorem traceWeak_spec {c : Ctx} {root temps hole} (h : CInvH c root temps hole) (hm : c.phase = .mark)
    {t : Nat} (ht : ∃ o, c.heap.get t = some o) :
    CInvH (c.traceWeak t) root temps hole ∧ MarkMono c (c.traceWeak t) ∧
      PtrMarked (c.traceWeak t) (.weak t) := by
  obtain ⟨o, ho⟩ := ht
  by_cases hw : o.color = .white
  · have r : Recolored c (c.traceWeak t) t o .whiteWeak := by
      constructor <;>
        simp [Ctx.traceWeak, Ctx.setObj, Ctx.withMetrics, Heap.get_set, Metrics.markGcMarked, ho, hw]
    have hcls : cls o.color ≤ cls Color.whiteWeak := by simp [hw, cls]
    refine ⟨?_, r.markMono hcls ?_, ?_⟩
    · apply h.recolor_noq hm r hcls (by simp)
      · simp [Ctx.traceWeak, Ctx.setObj, Ctx.withMetrics, ho, hw]
      · simp [Ctx.traceWeak, Ctx.setObj, Ctx.withMetrics, ho, hw]
      · simp
      · simp [hw]
      · intro hc; cases hc
    · simp [Ctx.traceWeak, Ctx.setObj, Ctx.withMetrics, ho, hw]
    · exact ⟨{ o with color := .whiteWeak }, by rw [r.heap]; simp, by simp⟩
  · have : c.traceWeak t = c := by simp [Ctx.traceWeak, ho, hw]
    rw [this]
    exact ⟨h, MarkMono.refl c, o, ho, hw⟩

/-! ### `Context::trace` -/

theorem trace_spec {c : Ctx} {root temps hole} (h : CInvH c root temps hole) (hm : c.phase = .mark)
    {t : Nat} (ht : Safe c t) :
    CInvH (c.trace t) root temps hole ∧ MarkMono c (c.trace t) ∧
      PtrMarked (c.trace t) (.strong t) := by
  obtain ⟨o, ho, hlive, _⟩ := ht
  by_cases hmk : o.color = .gray ∨ o.color = .black
  · have : c.trace t = c := by
      rcases hmk with hc | hc <;> simp [Ctx.trace, ho, hc]
    rw [this]
    exact ⟨h, MarkMono.refl c, o, ho, hmk⟩
  · have hng : o.color ≠ .gray := fun hc => hmk (Or.inl hc)
    have hnb : o.color ≠ .black := fun hc => hmk (Or.inr hc)
    by_cases hnt : o.needsTrace = true
    · have r : Recolored c (c.trace t) t o .gray := by
        constructor <;> (cases hcol : o.color <;>
          simp_all [Ctx.trace, Ctx.setObj, Ctx.withMetrics, Heap.get_set, Metrics.markGcMarked])
      refine ⟨?_, r.markMono (by cases hcol : o.color <;> simp [cls]) ?_, ?_⟩
      · apply h.recolor_push hm r hlive _ _ hng
        · cases hcol : o.color <;> simp_all [Ctx.trace, Ctx.setObj, Ctx.withMetrics]
        · cases hcol : o.color <;> simp_all [Ctx.trace, Ctx.setObj, Ctx.withMetrics]
      · cases hcol : o.color <;> simp_all [Ctx.trace, Ctx.setObj, Ctx.withMetrics]
      · exact ⟨{ o with color := .gray }, by rw [r.heap]; simp, by simp⟩
    · have hnt' : o.needsTrace = false := by simpa using hnt
      have r : Recolored c (c.trace t) t o .black := by
        constructor <;> (cases hcol : o.color <;>
          simp_all [Ctx.trace, Ctx.setObj, Ctx.withMetrics, Heap.get_set, Metrics.markGcMarked])
      have hcls : cls o.color ≤ cls Color.black := by cases hcol : o.color <;> simp [cls]
      refine ⟨?_, r.markMono hcls ?_, ?_⟩
      · apply h.recolor_noq hm r hcls (fun _ => hlive) _ _ (by simp) hng
        · intro _ _ p hp
          have := h.leafNoPtr t o ho hnt' _ hp
          cases this
        · cases hcol : o.color <;> simp_all [Ctx.trace, Ctx.setObj, Ctx.withMetrics]
        · cases hcol : o.color <;> simp_all [Ctx.trace, Ctx.setObj, Ctx.withMetrics]
      · cases hcol : o.color <;> simp_all [Ctx.trace, Ctx.setObj, Ctx.withMetrics]
      · exact ⟨{ o with color := .black }, by rw [r.heap]; simp, by simp⟩

end GcArena
