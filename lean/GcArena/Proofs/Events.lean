import GcArena.Proofs.InvRun
/-!
  Event discipline: which steps emit `dropped` / `freed` events, and about which objects.
-/
namespace GcArena

def Event.target : Event → Nat
  | .dropped i => i
  | .freed i => i

/-- The events a step appended to the log. -/
def NewEvents (c c' : Ctx) (evs : List Event) : Prop := c'.log = evs ++ c.log

theorem sweepOne_events {c : Ctx} {root temps} (h : CInv c root temps) (hp : c.phase = .sweep) :
    ∃ evs, NewEvents c c.sweepOne.1 evs ∧
      ∀ e, e ∈ evs → e.target ∈ c.rest ∧ ¬ Safe c e.target ∧
        (∃ o, c.heap.get e.target = some o ∧ (e = .dropped e.target → o.live = true)) := by
  unfold Ctx.sweepOne
  cases hr : c.rest with
  | nil => exact ⟨[], rfl, fun e he => by cases he⟩
  | cons i rest' =>
    simp only
    obtain ⟨o, ho⟩ := (h.memAll i).mp (by rw [hr]; simp)
    simp only [Ctx.step_heap, ho]
    have hnotsafe : o.color ≠ .black → ¬ Safe c i := by
      rintro hnb ⟨o2, ho2, _, hb⟩
      rw [ho] at ho2; cases ho2
      exact hnb (hb hp (by rw [hr]; simp))
    cases hcol : o.color with
    | gray =>
      exact ⟨[], by simp [NewEvents], fun e he => by cases he⟩
    | black =>
      exact ⟨[], by simp [NewEvents], fun e he => by cases he⟩
    | white =>
      simp only
      have hns := hnotsafe (by rw [hcol]; simp)
      cases hl : o.live with
      | true =>
        refine ⟨[.freed i, .dropped i], by simp [NewEvents], ?_⟩
        intro e he
        simp only [List.mem_cons, List.not_mem_nil, or_false] at he
        rcases he with he | he <;> subst he <;>
          exact ⟨by simp [Event.target], hns, o, ho, fun _ => by simpa using hl⟩
      | false =>
        refine ⟨[.freed i], by simp [NewEvents], ?_⟩
        intro e he
        simp only [List.mem_cons, List.not_mem_nil, or_false] at he
        subst he
        exact ⟨by simp [Event.target], hns, o, ho, fun he => by cases he⟩
    | whiteWeak =>
      simp only
      have hns := hnotsafe (by rw [hcol]; simp)
      cases hl : o.live with
      | true =>
        refine ⟨[.dropped i], by simp [NewEvents], ?_⟩
        intro e he
        simp only [List.mem_cons, List.not_mem_nil, or_false] at he
        subst he
        exact ⟨by simp [Event.target], hns, o, ho, fun _ => hl⟩
      | false =>
        exact ⟨[], by simp [NewEvents], fun e he => by cases he⟩

/-- A micro-step other than a sweep step emits nothing; a sweep step emits events only about
    the object under the cursor, which is not safe — hence (G1) not accessible. -/
theorem micro_events {c c' : Ctx} {root} (h : CInv c root []) (m : Micro)
    (hs : c.micro root m = some c') :
    ∃ evs, NewEvents c c' evs ∧ ∀ e, e ∈ evs → ¬ AccessibleC c root [] e.target := by
  have none_ : c'.log = c.log → ∃ evs, NewEvents c c' evs ∧ ∀ e, e ∈ evs → ¬ AccessibleC c root [] e.target :=
    fun hl => ⟨[], by simpa [NewEvents] using hl, fun e he => by cases he⟩
  cases m with
  | wake =>
    simp only [Ctx.micro] at hs
    split at hs
    · cases hs; exact none_ rfl
    · cases hs
  | markStep f =>
    simp only [Ctx.micro] at hs
    split at hs
    · cases hs; rename_i hp
      simp only [Bool.and_eq_true, decide_eq_true_eq] at hp
      exact none_ (markOne_spec h hp.1 f).2.log
    · cases hs
  | markBreak =>
    simp only [Ctx.micro] at hs
    split at hs
    · cases hs; rename_i hp
      simp only [Bool.and_eq_true, decide_eq_true_eq] at hp
      exact none_ (markOne_spec h hp.1 none).2.log
    · cases hs
  | toSweep =>
    simp only [Ctx.micro] at hs
    split at hs
    · cases hs; exact none_ rfl
    · cases hs
  | toSleep b =>
    simp only [Ctx.micro] at hs
    split at hs
    · cases hs; exact none_ rfl
    · cases hs
  | sweepStep =>
    simp only [Ctx.micro] at hs
    split at hs
    · cases hs; rename_i hp
      simp only [Bool.and_eq_true, decide_eq_true_eq] at hp
      obtain ⟨evs, hn, he⟩ := sweepOne_events h hp.1
      exact ⟨evs, hn, fun e hem hacc => (he e hem).2.1 (h.safe_of_accessible hacc)⟩
    · cases hs
  | sweepEnd =>
    simp only [Ctx.micro] at hs
    split at hs
    · cases hs; rename_i hp
      simp only [Bool.and_eq_true, decide_eq_true_eq] at hp
      obtain ⟨evs, hn, he⟩ := sweepOne_events h hp.1
      exact ⟨evs, hn, fun e hem hacc => (he e hem).2.1 (h.safe_of_accessible hacc)⟩
    · cases hs

end GcArena

namespace GcArena

/-- Safe objects keep their slots across the step. -/
def Persist (c c' : Ctx) : Prop :=
  ∀ i o, c.heap.get i = some o → Safe c i → ∃ o', c'.heap.get i = some o' ∧ o'.slots = o.slots

theorem Persist.accessible {c c' : Ctx} {root temps hole} (hp : Persist c c') (h : CInvH c root temps hole)
    {i : Nat} (ha : AccessibleC c root temps i) : AccessibleC c' root temps i := by
  induction ha with
  | root t ht => exact .root t ht
  | temp t ht => exact .temp t ht
  | edge i t hi e ih =>
    obtain ⟨o, ho, hs⟩ := e
    obtain ⟨o', ho', hsl⟩ := hp i o ho (h.safe_of_accessible hi)
    exact .edge i t ih ⟨o', ho', by rw [hsl]; exact hs⟩

theorem sweepOne_persist {c : Ctx} {root temps} (h : CInv c root temps) (hp : c.phase = .sweep) :
    Persist c c.sweepOne.1 := by
  intro j oj hoj hsj
  unfold Ctx.sweepOne
  cases hr : c.rest with
  | nil => exact ⟨oj, by simpa using hoj, rfl⟩
  | cons i rest' =>
    simp only
    obtain ⟨o, ho⟩ := (h.memAll i).mp (by rw [hr]; simp)
    simp only [Ctx.step_heap, ho]
    by_cases hj : j = i
    · subst hj
      rw [ho] at hoj; cases hoj
      obtain ⟨o2, ho2, _, hb⟩ := hsj
      rw [ho] at ho2; cases ho2
      have hbl := hb hp (by rw [hr]; simp)
      simp only [hbl]
      exact ⟨{ oj with color := .white }, by simp, rfl⟩
    · cases hcol : o.color with
      | gray => exact ⟨oj, by simpa using hoj, rfl⟩
      | black => exact ⟨oj, by simp [hj, hoj], rfl⟩
      | white =>
        simp only
        refine ⟨oj, ?_, rfl⟩
        split <;> simp [Heap.get_set, hj, hoj]
      | whiteWeak =>
        simp only
        refine ⟨oj, ?_, rfl⟩
        split <;> simp [hj, hoj]

theorem micro_persist {c c' : Ctx} {root} (h : CInv c root []) (m : Micro)
    (hs : c.micro root m = some c') : Persist c c' := by
  have same : (∀ j, c'.heap.get j = c.heap.get j) → Persist c c' :=
    fun hg i o ho _ => ⟨o, by rw [hg]; exact ho, rfl⟩
  have ofFrame : MarkFrame c c' → Persist c c' := by
    intro f i o ho _
    obtain ⟨o', ho'⟩ := (f.alloc i).mpr ⟨o, ho⟩
    exact ⟨o', ho', (f.live i o o' ho ho').2.1⟩
  cases m with
  | wake =>
    simp only [Ctx.micro] at hs
    split at hs
    · cases hs; exact same (fun _ => rfl)
    · cases hs
  | markStep f =>
    simp only [Ctx.micro] at hs
    split at hs
    · cases hs; rename_i hp
      simp only [Bool.and_eq_true, decide_eq_true_eq] at hp
      exact ofFrame (markOne_spec h hp.1 f).2
    · cases hs
  | markBreak =>
    simp only [Ctx.micro] at hs
    split at hs
    · cases hs; rename_i hp
      simp only [Bool.and_eq_true, decide_eq_true_eq] at hp
      exact ofFrame (markOne_spec h hp.1 none).2
    · cases hs
  | toSweep =>
    simp only [Ctx.micro] at hs
    split at hs
    · cases hs; exact same (fun _ => rfl)
    · cases hs
  | toSleep b =>
    simp only [Ctx.micro] at hs
    split at hs
    · cases hs; exact same (fun _ => rfl)
    · cases hs
  | sweepStep =>
    simp only [Ctx.micro] at hs
    split at hs
    · cases hs; rename_i hp
      simp only [Bool.and_eq_true, decide_eq_true_eq] at hp
      exact sweepOne_persist h hp.1
    · cases hs
  | sweepEnd =>
    simp only [Ctx.micro] at hs
    split at hs
    · cases hs; rename_i hp
      simp only [Bool.and_eq_true, decide_eq_true_eq] at hp
      exact sweepOne_persist h hp.1
    · cases hs

/-- Over a whole sequence of micro-steps (one collection call): every event emitted concerns an
    object that was not strongly reachable when the call began, and everything that was strongly
    reachable then is still allocated, undestructed and reachable at the end. -/
theorem micros_events {root} (ms : List Micro) : ∀ {c c' : Ctx}, CInv c root [] →
    c.micros root ms = some c' →
    (∃ evs, NewEvents c c' evs ∧ ∀ e, e ∈ evs → ¬ AccessibleC c root [] e.target) ∧
    (∀ i, AccessibleC c root [] i → AccessibleC c' root [] i) := by
  induction ms with
  | nil =>
    intro c c' h hs
    simp only [Ctx.micros] at hs; cases hs
    exact ⟨⟨[], rfl, fun e he => by cases he⟩, fun _ hi => hi⟩
  | cons m ms ih =>
    intro c c' h hs
    simp only [Ctx.micros] at hs
    cases hm : c.micro root m with
    | none => rw [hm] at hs; cases hs
    | some c1 =>
      rw [hm] at hs
      simp only at hs
      have h1 := micro_inv h m hm
      obtain ⟨e1, hn1, hacc1⟩ := micro_events h m hm
      have hp1 := micro_persist h m hm
      obtain ⟨⟨e2, hn2, hacc2⟩, hkeep2⟩ := ih h1 hs
      refine ⟨⟨e2 ++ e1, ?_, ?_⟩, fun i hi => hkeep2 i (hp1.accessible h hi)⟩
      · unfold NewEvents at *; rw [hn2, hn1, List.append_assoc]
      · intro e he
        rw [List.mem_append] at he
        rcases he with he | he
        · exact fun hacc => hacc2 e he (hp1.accessible h hacc)
        · exact hacc1 e he

end GcArena
