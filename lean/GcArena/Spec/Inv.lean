import GcArena.Model.Arena
/-
  GcArena.Spec.Inv — the inductive invariant of the collector model (DESIGN §3.4), and the
  user-level notions (reachability, accessibility) the property theorems are stated with.

  Everything here is `Prop`-level; nothing is executed.
-/
namespace GcArena

/-- Object `i` is allocated, its value has not been destructed, and the running sweep (if any)
    will neither destruct nor release it: it is in front of the cursor or black. -/
def Safe (c : Ctx) (i : Nat) : Prop :=
  ∃ o, c.heap.get i = some o ∧ o.live = true ∧
    (c.phase = .sweep → i ∈ c.rest → o.color = .black)

/-- The block of `t` is allocated and the running sweep (if any) will not release it:
    it is in front of the cursor, or weakly marked, or black. -/
def WeakOK (c : Ctx) (t : Nat) : Prop :=
  ∃ o, c.heap.get t = some o ∧
    (c.phase = .sweep → t ∈ c.rest → o.color = .whiteWeak ∨ o.color = .black)

def PtrOK (c : Ctx) : Ptr → Prop
  | .strong t => Safe c t
  | .weak t => WeakOK c t

/-- What the tri-colour invariant demands of a pointer held by a black object. -/
def PtrMarked (c : Ctx) : Ptr → Prop
  | .strong t => ∃ o, c.heap.get t = some o ∧ (o.color = .gray ∨ o.color = .black)
  | .weak t => ∃ o, c.heap.get t = some o ∧ o.color ≠ .white

/-- The collector-state part of the invariant, relative to the root's slots and the pointers the
    running callback holds.  `hole`: the object `mark_one` has popped and coloured black but whose
    `trace` is still running (the tri-colour clause is suspended for it); `none` between
    micro-steps. -/
structure CInvH (c : Ctx) (root : List Slot) (temps : List Ptr) (hole : Option Nat) : Prop where
  noErr : c.err = none
  noUnderflow : c.metrics.underflow = false
  notDrop : c.phase ≠ .drop
  -- L: list shape
  nodup : (c.pre ++ c.rest).Nodup
  memAll : ∀ i, i ∈ c.pre ++ c.rest ↔ ∃ o, c.heap.get i = some o
  restNil : c.phase ≠ .sweep → c.rest = []
  count : c.metrics.totalGcs = (c.pre ++ c.rest).length
  -- Q: queues and colours
  grayQ : ∀ i o, c.heap.get i = some o → o.color = .gray → i ∈ c.gray ∨ i ∈ c.grayAgain
  qGray : ∀ i, i ∈ c.gray ∨ i ∈ c.grayAgain → ∃ o, c.heap.get i = some o ∧ o.color = .gray
  qNodup : (c.gray ++ c.grayAgain).Nodup
  qMark : c.phase ≠ .mark → c.gray = [] ∧ c.grayAgain = []
  sleepWhite : c.phase = .sleep → ∀ i o, c.heap.get i = some o → o.color = .white
  sleepRoot : c.phase = .sleep → c.rootNeedsTrace = true
  sweepRoot : c.phase = .sweep → c.rootNeedsTrace = false
  preWhite : c.phase = .sweep → ∀ i, i ∈ c.pre → ∀ o, c.heap.get i = some o → o.color = .white
  markedLive : ∀ i o, c.heap.get i = some o → (o.color = .gray ∨ o.color = .black) → o.live = true
  deadNoSlots : ∀ i o, c.heap.get i = some o → o.live = false → o.slots = []
  leafNoPtr : ∀ i o, c.heap.get i = some o → o.needsTrace = false → ∀ s, s ∈ o.slots → s = none
  -- T: tri-colour (mark phase)
  tri : c.phase = .mark → ∀ i o, c.heap.get i = some o → o.color = .black → some i ≠ hole →
          ∀ p, some p ∈ o.slots → PtrMarked c p
  triRoot : c.phase = .mark → c.rootNeedsTrace = false → ∀ p, some p ∈ root → PtrMarked c p
  -- S/G: closure of the set of safe objects
  closed : ∀ i o, c.heap.get i = some o → Safe c i → ∀ p, some p ∈ o.slots → PtrOK c p
  rootOK : ∀ p, some p ∈ root → PtrOK c p
  tempsOK : ∀ p, p ∈ temps → PtrOK c p

abbrev CInv (c : Ctx) (root : List Slot) (temps : List Ptr) : Prop := CInvH c root temps none

/-- What an issued barrier guarantees for as long as no collection call intervenes (T4):
    the objects it names are allocated, and in the mark phase their colours license the store. -/
def CoverOK (c : Ctx) : Cover → Prop
  | .parent p => (∃ o, c.heap.get p = some o) ∧
      (c.phase = .mark → ∀ o, c.heap.get p = some o → o.needsTrace = true → o.color ≠ .black)
  | .child ch => (∃ o, c.heap.get ch = some o) ∧
      (c.phase = .mark → ∀ o, c.heap.get ch = some o → o.color = .gray ∨ o.color = .black)
  | .weakChild ch => (∃ o, c.heap.get ch = some o) ∧
      (c.phase = .mark → ∀ o, c.heap.get ch = some o → o.color ≠ .white)
  | .pair p ch => (∃ o, c.heap.get p = some o) ∧ (∃ o, c.heap.get ch = some o) ∧
      (c.phase = .mark → ∀ o, c.heap.get p = some o → o.needsTrace = true → o.color = .black →
        ∀ co, c.heap.get ch = some co → co.color = .gray ∨ co.color = .black)
  | .weakPair p ch => (∃ o, c.heap.get p = some o) ∧ (∃ o, c.heap.get ch = some o) ∧
      (c.phase = .mark → ∀ o, c.heap.get p = some o → o.needsTrace = true → o.color = .black →
        ∀ co, c.heap.get ch = some co → co.color ≠ .white)

/-- The invariant of an arena between API-level operations. -/
structure Inv (a : Arena) : Prop where
  alive : a.alive = true
  cinv : CInv a.ctx a.root a.temps
  cover : ∀ cv, cv ∈ a.cover → CoverOK a.ctx cv
  cbTemps : a.cb = none → a.temps = []
  finMark : a.cb = some .finalize → a.ctx.phase = .mark
  rootCb : a.cb = some .mutateRoot → a.ctx.phase = .mark → a.ctx.rootNeedsTrace = true
  markedMark : a.marked = true → a.ctx.phase = .mark ∧ a.cb = none

/-! ### User-level notions (no colours, phases, lists or queues) -/

/-- The strong pointers stored in object `i` (of an undestructed value). -/
def StrongEdge (c : Ctx) (i t : Nat) : Prop :=
  ∃ o, c.heap.get i = some o ∧ some (Ptr.strong t) ∈ o.slots

/-- `Gc` pointers a client can name: held by the root or by the running callback, or read out of
    an object it can name. -/
inductive AccessibleC (c : Ctx) (root : List Slot) (temps : List Ptr) : Nat → Prop
  | root (t) : some (Ptr.strong t) ∈ root → AccessibleC c root temps t
  | temp (t) : Ptr.strong t ∈ temps → AccessibleC c root temps t
  | edge (i t) : AccessibleC c root temps i → StrongEdge c i t → AccessibleC c root temps t

abbrev Accessible (a : Arena) (i : Nat) : Prop := AccessibleC a.ctx a.root a.temps i

/-- Strongly reachable from the root alone. -/
abbrev StrongReachC (c : Ctx) (root : List Slot) (i : Nat) : Prop := AccessibleC c root [] i

abbrev StrongReach (a : Arena) (i : Nat) : Prop := StrongReachC a.ctx a.root i

theorem AccessibleC.mono {c : Ctx} {root : List Slot} {temps temps' : List Ptr}
    (hsub : ∀ p, p ∈ temps → p ∈ temps') {i : Nat} (h : AccessibleC c root temps i) :
    AccessibleC c root temps' i := by
  induction h with
  | root t h => exact .root t h
  | temp t h => exact .temp t (hsub _ h)
  | edge i t _ e ih => exact .edge i t ih e

theorem StrongReach.accessible {a : Arena} {i : Nat} (h : StrongReach a i) : Accessible a i :=
  AccessibleC.mono (fun _ hp => by cases hp) h

/-- G1: everything a client can name is allocated, undestructed and not condemned. -/
theorem CInvH.safe_of_accessible {c : Ctx} {root temps hole} (h : CInvH c root temps hole) {i : Nat}
    (hi : AccessibleC c root temps i) : Safe c i := by
  induction hi with
  | root t ht => exact h.rootOK _ ht
  | temp t ht => exact h.tempsOK _ ht
  | edge i t _ e ih =>
    obtain ⟨o, ho, hs⟩ := e
    exact h.closed i o ho ih _ hs

theorem Inv.safe_of_accessible {a : Arena} (h : Inv a) {i : Nat} (hi : Accessible a i) :
    Safe a.ctx i := h.cinv.safe_of_accessible hi

end GcArena
