import GcArena.Proofs.Quiet
/-!
# C06 — Every documented write-barrier path makes adoption safe in every phase

The four barriers of src/context.rs and the stores that follow them.  Phase, colour of parent and
colour of child are universally quantified inside every statement (no hypothesis mentions them).
`Cover`: which barrier was issued; `CoverOK c cv`: what it guarantees in state `c`;
`Arena.coverOK a p v`: "a barrier issued since the last collection call licenses storing `v` into
`p` without a further barrier" — the premise of the unsafe `as_cell` / `as_ref_cell` accessors and
of `Write`.
-/
namespace GcArena.C06

open GcArena

/-- `backward_barrier(parent, child?)`: invariant kept, every earlier barrier's guarantee kept,
    its own guarantee established — for every phase and every colour of `parent` and `child`. -/
theorem backward_barrier {c : Ctx} {root temps} (h : CInv c root temps) {p : Nat}
    (hp : ∃ o, c.heap.get p = some o) (child : Option Nat)
    (hc : ∀ ch, child = some ch → ∃ o, c.heap.get ch = some o) :
    CInv (c.backwardBarrier p child) root temps ∧
    (∀ cv, CoverOK c cv → CoverOK (c.backwardBarrier p child) cv) ∧
    CoverOK (c.backwardBarrier p child) (match child with | none => .parent p | some ch => .pair p ch) := by
  obtain ⟨h1, b1, c1⟩ := backwardBarrier_spec h hp child hc
  exact ⟨h1, fun _ hcv => b1.coverOK hcv, c1⟩

theorem backward_barrier_weak {c : Ctx} {root temps} (h : CInv c root temps) {p ch : Nat}
    (hp : ∃ o, c.heap.get p = some o) (hc : ∃ o, c.heap.get ch = some o) :
    CInv (c.backwardBarrierWeak p ch) root temps ∧
    (∀ cv, CoverOK c cv → CoverOK (c.backwardBarrierWeak p ch) cv) ∧
    CoverOK (c.backwardBarrierWeak p ch) (.weakPair p ch) := by
  obtain ⟨h1, b1, c1⟩ := backwardBarrierWeak_spec h hp hc
  exact ⟨h1, fun _ hcv => b1.coverOK hcv, c1⟩

theorem forward_barrier {c : Ctx} {root temps} (h : CInv c root temps) (parent : Option Nat) {ch : Nat}
    (hp : ∀ p, parent = some p → ∃ o, c.heap.get p = some o) (hc : Safe c ch) :
    CInv (c.forwardBarrier parent ch) root temps ∧
    (∀ cv, CoverOK c cv → CoverOK (c.forwardBarrier parent ch) cv) ∧
    CoverOK (c.forwardBarrier parent ch) (match parent with | none => .child ch | some p => .pair p ch) := by
  obtain ⟨h1, b1, c1⟩ := forwardBarrier_spec h parent hp hc
  exact ⟨h1, fun _ hcv => b1.coverOK hcv, c1⟩

theorem forward_barrier_weak {c : Ctx} {root temps} (h : CInv c root temps) (parent : Option Nat)
    {ch : Nat} (hp : ∀ p, parent = some p → ∃ o, c.heap.get p = some o)
    (hc : ∃ o, c.heap.get ch = some o) :
    CInv (c.forwardBarrierWeak parent ch) root temps ∧
    (∀ cv, CoverOK c cv → CoverOK (c.forwardBarrierWeak parent ch) cv) ∧
    CoverOK (c.forwardBarrierWeak parent ch)
      (match parent with | none => .weakChild ch | some p => .weakPair p ch) := by
  obtain ⟨h1, b1, c1⟩ := forwardBarrierWeak_spec h parent hp hc
  exact ⟨h1, fun _ hcv => b1.coverOK hcv, c1⟩

/-- Every sanctioned store path — `Gc::write`-then-store, an explicitly barriered raw store,
    store-then-barrier (`Gc<OnceLock>::set`) — preserves the invariant, in every phase and for
    every colour of holder and target.  (An instance of `inv_step`, spelled out.) -/
theorem store_path_preserves_inv {a : Arena} (h : Inv a) (path : StorePath) (p i : Nat) (v : Slot) :
    Inv (a.step (.store path p i v)).1 :=
  inv_step h _ (by
    have hnot : (!a.alive) = false := by rw [h.alive]; rfl
    unfold Arena.step; rw [hnot]
    simp only [Bool.false_eq_true, if_false, Arena.stepBody]
    split
    · exact h.alive
    · split
      · exact h.alive
      · split
        · exact h.alive
        · cases path with
          | write => exact h.alive
          | raw => simp only; split <;> exact h.alive
          | storeThenBarrier => exact h.alive)

/-- A barrier's licence lasts until the next collection call: every mutator op keeps the cover. -/
theorem cover_persists {a : Arena} (h : Inv a) (op : Op) (hop : op.isMutator = true) (cv : Cover)
    (hcv : cv ∈ a.cover) : cv ∈ (a.step op).1.cover := by
  have hnot : (!a.alive) = false := by rw [h.alive]; rfl
  unfold Arena.step; rw [hnot]
  simp only [Bool.false_eq_true, if_false]
  have push_cover : ∀ (b : Arena) (q : Ptr), (b.push q).cover = b.cover := fun b q => (b.push_spec q).2.2.2.1
  cases op with
  | collect m k f o => simp [Op.isMutator] at hop
  | dropArena => simp [Op.isMutator] at hop
  | setPacing p => exact hcv
  | adjustDebt x => exact hcv
  | leave => simp only [Arena.stepBody]; split <;> exact hcv
  | enter k =>
    simp only [Arena.stepBody]
    split
    · exact hcv
    · cases k with
      | mutate => exact hcv
      | mutateRoot => exact hcv
      | finalize => simp only; split <;> exact hcv
  | alloc nt slots =>
    simp only [Arena.stepBody]
    split
    · exact hcv
    · split
      · exact hcv
      · split
        · exact hcv
        · simp only [push_cover]; exact hcv
  | readRoot i =>
    simp only [Arena.stepBody]
    split
    · exact hcv
    · split <;> first | exact hcv | (simp only [push_cover]; exact hcv)
  | read p i =>
    simp only [Arena.stepBody]
    split
    · exact hcv
    · split <;> first | exact hcv | (simp only [push_cover]; exact hcv)
  | downgrade p =>
    simp only [Arena.stepBody]
    split
    · exact hcv
    · simp only [push_cover]; exact hcv
  | upgrade w =>
    simp only [Arena.stepBody]
    split
    · exact hcv
    · split
      · simp only [push_cover]; exact hcv
      · exact hcv
  | isDropped w =>
    simp only [Arena.stepBody]
    split
    · exact hcv
    · split <;> exact hcv
  | isDead p =>
    simp only [Arena.stepBody]
    split
    · exact hcv
    · split <;> exact hcv
  | resurrect p =>
    simp only [Arena.stepBody]
    split
    · exact hcv
    · cases p with
      | strong t => exact hcv
      | weak t =>
        simp only
        split
        · exact hcv
        · split
          · simp only [push_cover]; exact hcv
          · exact hcv
  | barrier b =>
    simp only [Arena.stepBody]
    split
    · exact hcv
    · cases b with
      | bb p c =>
        cases c with
        | none => simp only; split <;> first | exact hcv | exact List.mem_cons_of_mem _ hcv
        | some c => simp only; split <;> first | exact hcv | exact List.mem_cons_of_mem _ hcv
      | bbw p c => simp only; split <;> first | exact hcv | exact List.mem_cons_of_mem _ hcv
      | fb p c =>
        cases p with
        | none => simp only; split <;> first | exact hcv | exact List.mem_cons_of_mem _ hcv
        | some p => simp only; split <;> first | exact hcv | exact List.mem_cons_of_mem _ hcv
      | fbw p c =>
        cases p with
        | none => simp only; split <;> first | exact hcv | exact List.mem_cons_of_mem _ hcv
        | some p => simp only; split <;> first | exact hcv | exact List.mem_cons_of_mem _ hcv
  | store path p i v =>
    simp only [Arena.stepBody]
    split
    · exact hcv
    · split
      · exact hcv
      · split
        · exact hcv
        · cases path with
          | write => exact List.mem_cons_of_mem _ hcv
          | raw => simp only; split <;> exact hcv
          | storeThenBarrier => exact List.mem_cons_of_mem _ hcv
  | rootStore i v => simp only [Arena.stepBody]; split <;> exact hcv

/-- The general backward form: once `parent` is covered, *any* child may be stored, any number of
    times (`coverOK` does not look at the child). -/
theorem general_backward_licenses (a : Arena) (p : Nat) (h : Cover.parent p ∈ a.cover) (v : Slot) :
    a.coverOK p v = true := by
  cases v with
  | none => rfl
  | some q => cases q <;> simp [Arena.coverOK, h]

/-- The general forward form: once `child` is covered, *any* parent may adopt it. -/
theorem general_forward_licenses (a : Arena) (ch : Nat) (h : Cover.child ch ∈ a.cover) (p : Nat) :
    a.coverOK p (some (.strong ch)) = true ∧ a.coverOK p (some (.weak ch)) = true := by
  simp [Arena.coverOK, h]

theorem general_forward_weak_licenses (a : Arena) (ch : Nat) (h : Cover.weakChild ch ∈ a.cover)
    (p : Nat) : a.coverOK p (some (.weak ch)) = true := by
  simp [Arena.coverOK, h]

/-- Barriers are bookkeeping only: no slot, no liveness, no allocation, no event changes; and they
    never fault (`err`) nor break a counter (`underflow`) — including on non-tracing objects. -/
theorem barrier_bookkeeping_only {a : Arena} (h : Inv a) (b : BarrierOp) :
    let a' := (a.step (.barrier b)).1
    a'.ctx.log = a.ctx.log ∧ a'.root = a.root ∧ a'.ctx.err = none ∧ a'.ctx.metrics.underflow = false ∧
    (∀ i o, a.ctx.heap.get i = some o → ∃ o', a'.ctx.heap.get i = some o' ∧ o'.live = o.live) := by
  intro a'
  have hal : a'.alive = true := by
    have hnot : (!a.alive) = false := by rw [h.alive]; rfl
    show (a.step (.barrier b)).1.alive = true
    unfold Arena.step; rw [hnot]
    simp only [Bool.false_eq_true, if_false, Arena.stepBody]
    split
    · exact h.alive
    · cases b with
      | bb p c => cases c <;> (simp only; split <;> exact h.alive)
      | bbw p c => simp only; split <;> exact h.alive
      | fb p c => cases p <;> (simp only; split <;> exact h.alive)
      | fbw p c => cases p <;> (simp only; split <;> exact h.alive)
  have hi := inv_step h (.barrier b) hal
  have hq := step_quiet h (.barrier b) rfl
  refine ⟨hq.log, ?_, hi.cinv.noErr, hi.cinv.noUnderflow, hq.keep⟩
  have hnot : (!a.alive) = false := by rw [h.alive]; rfl
  show (a.step (.barrier b)).1.root = a.root
  unfold Arena.step; rw [hnot]
  simp only [Bool.false_eq_true, if_false, Arena.stepBody]
  split
  · rfl
  · cases b with
    | bb p c => cases c <;> (simp only; split <;> rfl)
    | bbw p c => simp only; split <;> rfl
    | fb p c => cases p <;> (simp only; split <;> rfl)
    | fbw p c => cases p <;> (simp only; split <;> rfl)

/-- After an accepted store the target is one more thing the holder's clients can name, so C01
    applies to it in every later state: the collection in progress treats it exactly as if the
    pointer had been there when marking reached the holder. -/
theorem adopted_target_safe {a : Arena} (h : Inv a) {p t : Nat} {o : Obj} (hacc : Accessible a p)
    (ho : a.ctx.heap.get p = some o) (hs : some (Ptr.strong t) ∈ o.slots) : Safe a.ctx t :=
  h.safe_of_accessible (.edge p t hacc ⟨o, ho, hs⟩)

/-! ### The barrier-carrying store paths, at the API level and over whole histories -/

/-- **Every documented barrier-carrying store path is accepted in every phase, and adoption through
    it is safe** (`Gc::write` / `unlock` — barrier then store — and store-then-barrier): after any
    history, whatever the phase, the colours of holder and child, the queues and the debt, a
    callback that holds the holder `p` (a tracing object with a slot `i`) and the child `t` may
    store `t` into `p`; the operation is accepted, the collector invariant holds afterwards, and
    the adopted target is `Safe` (allocated, undestructed, not condemned by a running sweep). -/
theorem barrier_store_accepted_and_safe_run (n : Nat) (pre : List Op) (p i t : Nat) (path : StorePath)
    (hpath : path ≠ .raw)
    (halive : ((Arena.new n).run pre).alive = true)
    (hcb : ((Arena.new n).run pre).cb.isSome = true)
    (hp : ((Arena.new n).run pre).holds (.strong p) = true)
    (ht : ((Arena.new n).run pre).holds (.strong t) = true)
    (hslot : (Arena.slotOf ((Arena.new n).run pre).ctx p i).isSome = true)
    (htr : Arena.isTracing ((Arena.new n).run pre).ctx p = true) :
    (((Arena.new n).run pre).step (.store path p i (some (.strong t)))).2 = "ok" ∧
    Inv (((Arena.new n).run pre).step (.store path p i (some (.strong t)))).1 ∧
    Safe (((Arena.new n).run pre).step (.store path p i (some (.strong t)))).1.ctx t := by
  generalize hA : (Arena.new n).run pre = a at *
  have h : Inv a := by rw [← hA]; exact inv_run n pre (by rw [hA]; exact halive)
  have hn : a.cb.isNone = false := by cases hc : a.cb <;> simp_all
  obtain ⟨s, hs⟩ := Option.isSome_iff_exists.mp hslot
  have key : (a.step (.store path p i (some (.strong t)))).2 = "ok" ∧
      (a.step (.store path p i (some (.strong t)))).1.alive = true ∧
      (a.step (.store path p i (some (.strong t)))).1.temps = a.temps := by
    unfold Arena.step
    simp only [h.alive, Bool.not_true, Bool.false_eq_true, if_false]
    have e1 : ({ ctx := a.ctx, root := a.root, temps := a.temps, cb := a.cb, cover := a.cover, marked := false, alive := true } : Arena).holds (.strong p) = true := hp
    have e2 : ({ ctx := a.ctx, root := a.root, temps := a.temps, cb := a.cb, cover := a.cover, marked := false, alive := true } : Arena).holdsSlot (some (.strong t)) = true := ht
    simp only [Arena.stepBody, hn, e1, e2, hs, htr, Bool.not_true, Bool.or_self, Bool.false_eq_true,
      if_false, Option.isSome_some, Bool.and_false]
    cases path with
    | raw => exact absurd rfl hpath
    | write => exact ⟨rfl, rfl, rfl⟩
    | storeThenBarrier => exact ⟨rfl, rfl, rfl⟩
  obtain ⟨hok, hal, htemps⟩ := key
  have h' := inv_step h _ hal
  refine ⟨hok, h', ?_⟩
  have hmem : Ptr.strong t ∈ (a.step (.store path p i (some (.strong t)))).1.temps := by
    rw [htemps]; simpa [Arena.holds] using ht
  exact h'.cinv.tempsOK _ hmem
/-! ### Non-vacuity: black parent, white child, each barrier path -/

/-- root → 0 fully marked (black); a fresh white object 1; general backward barrier on 0, then a
    barrier-less store of 1 into 0; marking is finished again and the sweep runs: 1 survives. -/
def demo : List Op := [
  .enter .mutateRoot, .alloc true [none, none], .rootStore 0 (some (.strong 0)), .leave,
  .collect .finishMarking .drop none (some [.wake, .markStep none, .markStep none, .markBreak]),
  .enter .mutate, .readRoot 0, .alloc true [none, none],
  .barrier (.bb 0 none), .store .raw 0 0 (some (.strong 1)), .leave,
  .collect .finishCycle .drop none
    (some [.markStep none, .markStep none, .markBreak, .toSweep, .sweepStep, .sweepStep, .sweepEnd, .toSleep false]) ]

example : ((Arena.new 2).run demo).alive = true := by decide
example : ((Arena.new 2).run demo).ctx.phase = .sleep := by decide
example : ((Arena.new 2).run demo).ctx.log = [] := by decide
example : ((Arena.new 2).run demo).ctx.err = none := by decide
example : ((Arena.new 2).run (demo.take 9)).cover = [.parent 0] := by decide

/-- The premises of `barrier_store_accepted_and_safe_run` hold in the demo just before its barrier:
    phase Mark, holder 0 black, child 1 fresh and white, both held by the running callback. -/
example : ((Arena.new 2).run (demo.take 8)).cb.isSome = true := by decide
example : ((Arena.new 2).run (demo.take 8)).ctx.phase = .mark := by decide
example : ((Arena.new 2).run (demo.take 8)).holds (.strong 0) = true := by decide
example : ((Arena.new 2).run (demo.take 8)).holds (.strong 1) = true := by decide
example : (Arena.slotOf ((Arena.new 2).run (demo.take 8)).ctx 0 0).isSome = true := by decide
example : Arena.isTracing ((Arena.new 2).run (demo.take 8)).ctx 0 = true := by decide
example : (((Arena.new 2).run (demo.take 8)).step (.store .write 0 0 (some (.strong 1)))).2 = "ok" := by
  decide

end GcArena.C06
