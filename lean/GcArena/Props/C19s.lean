import GcArena.Model.Conjure
import GcArena.Generated.SigTable
/-!
# C19 (static half) — the safe API never conjures a `Gc<T>`

Partial: the step from "the signature takes a `T`" to "the returned pointer refers to a `T` the
caller constructed" is parametricity of safe generic Rust code, which is trusted (DESIGN §9), and
`rustc` is asked directly by the conjuring probes.  The dynamic half (identity of conversions) is
`GcArena.Props.C19`.
-/
namespace GcArena.C19s
open GcArena.Conjure

/-- What `Table.ok` means: every safe signature in the table that returns a handle on a
caller-chosen parameter has an input supplying that parameter at least as strongly. -/
theorem ok_spec (t : Table) (h : t.ok = true) (s : Sig) (hs : s ∈ t.sigs) (hsafe : s.isUnsafe = false)
    (r : Req) (hr : r ∈ s.reqs) (rp : List PathElem) (hrp : rp ∈ r.retPaths)
    (hh : rp.any PathElem.isHandle = true) :
    (retStrength rp).toNat ≤ r.supply := by
  simp only [Table.ok, Bool.and_eq_true, List.all_eq_true] at h
  have h1 := h.2 s hs
  simp only [Sig.ok, hsafe, Bool.false_or, List.all_eq_true] at h1
  have h2 := h1 r hr
  simp only [Req.ok, List.all_eq_true] at h2
  have h3 := h2 rp hrp
  simpa [hh] using h3

/-- The current signature table: no safe public function or exported macro returns a `Gc<T>` /
`GcWeak<T>` / `DynamicRoot<R>` for a caller-chosen parameter without being given a value of it, a
pointer or handle to one, or a closure producing one. Fails on a tree where
`ZstCache::alloc_zst::<T>()` is a safe function (defect D3). -/
theorem no_conjure : Generated.sigTable.ok = true := by decide

/-- Lower bounds on the extracted table (a translator that silently drops rows cannot make
`no_conjure` vacuous): at least 25 signatures returning a handle, 15 of them safe. -/
theorem required_sig_rows :
    Generated.sigTable.sigs.length ≥ 25 ∧
    (Generated.sigTable.sigs.filter (fun s => !s.isUnsafe)).length ≥ 15 ∧
    Generated.sigTable.unclassified = [] := by decide

/-- The pinned tree's `pub fn alloc_zst<T: 'gc>(&self) -> Option<Gc<'gc, T>>` is rejected by the
check; making it `unsafe fn` (the repair) is accepted. -/
theorem pinned_conjure_witness :
    Sig.ok { name := "ZstCache::alloc_zst", isUnsafe := false, isMacro := false,
             reqs := [{ param := "T", retPaths := [[.option, .gc]], inPaths := [] }] } = false ∧
    Sig.ok { name := "ZstCache::alloc_zst", isUnsafe := true, isMacro := false,
             reqs := [{ param := "T", retPaths := [[.option, .gc]], inPaths := [] }] } = true := by
  decide

/-- Non-vacuity: the check accepts `Gc::new(mc, t: T) -> Gc<T>` and `new_slice(mc, &[E])`, and
rejects a builder that would finish without a value (`GcBuilder<T> -> Gc<T>`). -/
example :
    Req.ok { param := "T", retPaths := [[.gc]], inPaths := [[]] } = true ∧
    Req.ok { param := "E", retPaths := [[.gc, .slice]], inPaths := [[.ref, .slice]] } = true ∧
    Req.ok { param := "T", retPaths := [[.gc]], inPaths := [[.self_, .uninitBuilder]] } = false ∧
    Req.ok { param := "T", retPaths := [[.gc]], inPaths := [[.option]] } = false := by decide

/-! ## The clause, as far as the signature model can express it

"Every `Gc<T>` obtainable without `unsafe` refers to a `T` that the caller actually constructed."
The signature model can only say that a handle on a caller-chosen parameter never comes out of a
safe function that was not given a value of it, a pointer / handle to one, or a closure producing
one; that such a function then returns *that* value (and not one made up from nothing) is
parametricity of safe generic Rust code, which is trusted and not expressible here. -/
def nothing_conjured_statement : Prop :=
  ∀ s, s ∈ Generated.sigTable.sigs → s.isUnsafe = false →
    ∀ r, r ∈ s.reqs → ∀ rp, rp ∈ r.retPaths → rp.any PathElem.isHandle = true →
      (retStrength rp).toNat ≤ r.supply

theorem nothing_conjured : nothing_conjured_statement :=
  fun s hs hsafe r hr rp hrp hh => ok_spec _ no_conjure s hs hsafe r hr rp hrp hh

end GcArena.C19s
