import GcArena.Model.Arena
/-!
# C10 — Metrics are truthful (property theorems)

Model: `GcArena.Model.Metrics` (src/metrics.rs) and the counter updates performed by
`GcArena.Model.Context` / `Arena`.  Exact rational arithmetic; f64 rounding is modelled, not
verified (DESIGN §9).
-/
namespace GcArena.C10

open GcArena

/-- `allocation_debt` is never negative. -/
theorem debt_nonneg (m : Metrics) : 0 ≤ m.allocationDebt := by
  unfold Metrics.allocationDebt
  split
  · exact Rat.le_refl
  · split
    · exact Rat.le_refl
    · grind

/-- An arena holding no allocations reports zero debt. -/
theorem debt_zero_of_empty (m : Metrics) (h : m.totalGcs = 0) : m.allocationDebt = 0 := by
  simp [Metrics.allocationDebt, h]

/-- While positive before and after, `adjust_debt x` moves the debt by exactly `x`. -/
theorem adjust_exact (m : Metrics) (x : Rat) (h1 : 0 < m.allocationDebt)
    (h2 : 0 < (m.adjustDebt x).allocationDebt) :
    (m.adjustDebt x).allocationDebt = m.allocationDebt + x := by
  unfold Metrics.allocationDebt Metrics.adjustDebt Metrics.cycleDebits Metrics.cycleCredits at *
  simp only at *
  grind

/-- Non-vacuity: a concrete metrics state with positive debt. -/
example : (0 : Rat) < ({ Metrics.new with totalGcs := 3, allocated := 3 } : Metrics).allocationDebt := by
  unfold Metrics.allocationDebt Metrics.new Metrics.cycleDebits Metrics.cycleCredits Pacing.default
  grind

end GcArena.C10
