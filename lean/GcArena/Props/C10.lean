import GcArena.Proofs.LogRun
import GcArena.Proofs.DebtMono
import GcArena.Proofs.LegacyLemmas
/-!
# C10 — Metrics are truthful (property theorems)

Model: `GcArena.Model.Metrics` (src/metrics.rs) and the counter updates performed by
`GcArena.Model.Context` / `Arena`.  Exact rational arithmetic; f64 rounding is modelled, not
verified (DESIGN §9).
-/
namespace GcArena.C10

open GcArena

/-! "`allocation_debt` is always finite": the model computes the debt in exact rationals (`Rat`),
    where every value is finite by construction, so there is nothing to state; finiteness of the
    implementation's `f64` (no `inf` / `NaN`: the counters are `usize`, the factors whatever
    finite `f64`s `set_pacing` / `adjust_debt` were given) is outside the model — f64 arithmetic
    is modelled, not verified (DESIGN §9). -/

/-- `allocation_debt` is never negative. -/
theorem debt_nonneg (m : Metrics) : 0 ≤ m.allocationDebt := by
  unfold Metrics.allocationDebt
  split
  · exact Rat.le_refl
  · split
    · exact Rat.le_refl
    · grind

/-- An arena holding no allocations reports zero debt. -/
theorem debt_zero_of_empty (m : Metrics) (h : m.totalGcs = 0) : m.allocationDebt = 0 := by
  simp [Metrics.allocationDebt, h]

/-- While positive before and after, `adjust_debt x` moves the debt by exactly `x` — the
    property's "grows by exactly x after adjust_debt(x) while positive"; the two side conditions
    *are* "while positive" (at zero the reported debt is clamped, so no exact law can hold
    there). -/
theorem adjust_exact (m : Metrics) (x : Rat) (h1 : 0 < m.allocationDebt)
    (h2 : 0 < (m.adjustDebt x).allocationDebt) :
    (m.adjustDebt x).allocationDebt = m.allocationDebt + x := by
  unfold Metrics.allocationDebt Metrics.adjustDebt Metrics.cycleDebits Metrics.cycleCredits at *
  simp only at *
  grind

/-- `total_gc_count` equals the number of allocations made and not yet released — inside and
    outside callbacks, in every state of every history — and no counter update ever underflowed
    (including write barriers on objects of non-tracing types: `Op.barrier` is in `inv_run`). -/
theorem count_exact (n : Nat) (ops : List Op) (halive : ((Arena.new n).run ops).alive = true) :
    let c := ((Arena.new n).run ops).ctx
    c.metrics.totalGcs = c.all.length ∧ c.all.Nodup ∧ (∀ i, i ∈ c.all ↔ ∃ o, c.heap.get i = some o) ∧
    c.metrics.underflow = false := by
  have h := (inv_run n ops halive).cinv
  exact ⟨h.count, h.nodup, h.memAll, h.noUnderflow⟩

/-- … and it reads zero after the arena is dropped, whatever the phase. -/
theorem count_zero_after_drop (n : Nat) (ops : List Op) (halive : ((Arena.new n).run ops).alive = true)
    (hcb : ((Arena.new n).run ops).cb = none) :
    (((Arena.new n).run ops).step .dropArena).1.ctx.metrics.totalGcs = 0 := by
  have hi : Inv ((Arena.new n).run ops) := inv_run n ops halive
  have hnot : (!((Arena.new n).run ops).alive) = false := by rw [hi.alive]; rfl
  unfold Arena.step
  rw [hnot]
  simp only [Bool.false_eq_true, if_false, Arena.stepBody]
  rw [hcb]
  exact (dropAll_spec hi.cinv (linv_run n ops)).2.2.1

/-! ### The debt is never decreased by allocation, mutation or write barriers

Operations are classified in Proofs/DebtMono.lean:
* `Op.isKnob`: `set_pacing`, `adjust_debt` — explicit adjustment (`adjust_exact` above);
* `Op.isForwardLike`: forward barriers (`Op.barrier (.fb ..)`, `(.fbw ..)`) and
  `Finalization::resurrect` — they *perform marking work themselves* (`Context::trace` /
  `trace_weak`), for which `mark_factor` is credited: collection work in the property's sense;
* every other mutator operation (`Op.isMutator`: everything but collection calls and dropping the
  arena) is *plain*: `plain_ops` lists them.

The clause as literally worded (`debt_never_decreased_literal`) is false — the forward-like
operations pay `mark_factor` — so what is proved is `debt_never_decreased_partial` (plain
operations) together with `debt_forward_work` (forward-like ones pay at most `mark_factor`, the
marking work they perform themselves). -/

/-- The plain mutator operations: callbacks, allocation, reads, `downgrade`, `upgrade`, the
    `is_dropped` / `is_dead` queries, backward (write) barriers — strong and weak —, every store
    path (`Gc::write`-style, raw-after-barrier, store-then-barrier) and root stores. -/
theorem plain_ops (op : Op) :
    (op.isMutator = true ∧ op.isKnob = false ∧ op.isForwardLike = false) ↔
    (match op with
     | .enter _ | .leave | .alloc _ _ | .readRoot _ | .read _ _ | .downgrade _ | .upgrade _
     | .isDropped _ | .isDead _ | .barrier (.bb _ _) | .barrier (.bbw _ _) | .store _ _ _ _
     | .rootStore _ _ => True
     | _ => False) := by
  cases op with
  | barrier b => cases b <;> simp [Op.isMutator, Op.isKnob, Op.isForwardLike]
  | _ => simp [Op.isMutator, Op.isKnob, Op.isForwardLike]

/-- **Never decreased by allocation, mutation or write barriers.**  For every arena state
    whatsoever (no invariant needed), every plain mutator operation leaves the reported debt
    equal or larger — including allocation into an empty arena, every corner of
    `allocation_debt` (`total_gcs = 0`, `cycle_debits ≤ 0`, clamping at zero) and write barriers on
    objects whose type needs no tracing (`mark_gc_untraced` saturates: repair of defect D1).
    `trace_factor` must not be negative: a write barrier that re-grays a black object takes one
    `traced` credit back, which *raises* the debt by `trace_factor`; a negative factor would turn
    that into a payment. -/
theorem debt_never_decreased_partial (a : Arena) (op : Op) (hop : op.isMutator = true)
    (hk : op.isKnob = false) (hf : op.isForwardLike = false)
    (htf : 0 ≤ a.ctx.metrics.pacing.traceFactor) :
    a.ctx.metrics.allocationDebt ≤ (a.step op).1.ctx.metrics.allocationDebt :=
  (step_plainMet a op hop hk hf).debt htf

/-- The clause as the property words it, literally: *no* mutator operation other than the explicit
    adjustments — allocation, mutation, **every** barrier, forward barriers and `resurrect`
    included — ever lowers the reported debt (in a state satisfying the invariant, with
    non-negative factors).  It is **false** of the model and of the implementation
    (`debt_never_decreased_literal_false`): a forward barrier that marks a white object is credited
    `mark_factor`.  That is the known finding `forward-like-barrier-pays-mark-credit`; the reading
    adopted (DESIGN §8) counts that credit as collection work, which `debt_forward_work` makes
    precise, and what remains of the clause is `debt_never_decreased_partial`: missing from the
    literal clause are exactly the forward-like operations (`Op.isForwardLike`). -/
def debt_never_decreased_literal : Prop :=
  ∀ (a : Arena), Inv a → ∀ (op : Op), op.isMutator = true → op.isKnob = false →
    0 ≤ a.ctx.metrics.pacing.traceFactor → 0 ≤ a.ctx.metrics.pacing.markFactor →
    a.ctx.metrics.allocationDebt ≤ (a.step op).1.ctx.metrics.allocationDebt

/-- `finish_marking`, then inside `finalize` one allocation (under `Pacing::DEFAULT`: debt 1). -/
def fwdOps : List Op := [
  .collect .finishMarking .finalize none (some [.wake, .markStep none, .markBreak]),
  .enter .finalize, .alloc false [] ]

private theorem fwd_before : ((Arena.new 4).run fwdOps).ctx.metrics =
    { pacing := Pacing.default, totalGcs := 1, wakeup := 0, artificial := 0, allocated := 1,
      dropped := 0, freed := 0, marked := 0, traced := 0, remembered := 0, underflow := false } := by rfl

private theorem fwd_after : (((Arena.new 4).run fwdOps).step (.barrier (.fb none 0))).1.ctx.metrics =
    { pacing := Pacing.default, totalGcs := 1, wakeup := 0, artificial := 0, allocated := 1,
      dropped := 0, freed := 0, marked := 1, traced := 0, remembered := 0, underflow := false } := by rfl

/-- The literal clause is false: in the reachable state after `fwdOps`, the forward barrier
    `forward_barrier(None, 0)` marks the fresh white object and the reported debt drops from `1`
    to `1 - mark_factor = 0.9`. -/
theorem debt_never_decreased_literal_false : ¬ debt_never_decreased_literal := by
  intro hlit
  have h := hlit _ (inv_run 4 fwdOps (by decide)) (.barrier (.fb none 0)) rfl rfl
    (by rw [fwd_before]; unfold Pacing.default; simp only; grind)
    (by rw [fwd_before]; unfold Pacing.default; simp only; grind)
  rw [fwd_before, fwd_after] at h
  unfold Metrics.allocationDebt Metrics.cycleDebits Metrics.cycleCredits Pacing.default at h
  simp only at h
  grind

/-- What a plain mutator operation can do to the metrics at all: nothing, count one allocation
    (only `Op.alloc`), or take back one `traced` (a write barrier re-graying a black object). -/
theorem plain_metrics (a : Arena) (op : Op) (hop : op.isMutator = true) (hk : op.isKnob = false)
    (hf : op.isForwardLike = false) :
    (a.step op).1.ctx.metrics = a.ctx.metrics ∨
    (op.isAlloc = true ∧ (a.step op).1.ctx.metrics = a.ctx.metrics.markGcAllocated) ∨
    (a.step op).1.ctx.metrics = a.ctx.metrics.markGcUntraced :=
  step_plainMet a op hop hk hf

/-- **Only collection work pays debt**: a forward barrier or `resurrect` marks at most one object
    (the one traced pointer), so it lowers the reported debt by at most `mark_factor` — the
    marking work it performed itself — and never raises it. -/
theorem debt_forward_work (a : Arena) (op : Op) (hf : op.isForwardLike = true)
    (hmf : 0 ≤ a.ctx.metrics.pacing.markFactor) :
    ((a.step op).1.ctx.metrics = a.ctx.metrics ∨
      (a.step op).1.ctx.metrics = a.ctx.metrics.markGcMarked) ∧
    a.ctx.metrics.allocationDebt - a.ctx.metrics.pacing.markFactor
      ≤ (a.step op).1.ctx.metrics.allocationDebt ∧
    (a.step op).1.ctx.metrics.allocationDebt ≤ a.ctx.metrics.allocationDebt :=
  ⟨step_fwdMet a op hf, (step_fwdMet a op hf).debt hmf⟩

/-- No credit counter can outgrow the arena: in every state of every history, `marked`, `traced`
    and `remembered` are at most `total_gc_count` (and `dropped ≤ remembered + freed`).  With
    `count_exact` this bounds every counter the debt formula multiplies by the number of
    allocations that exist or were released in the running cycle — the model's counters are
    naturals, and this is why the implementation's `usize` counters cannot overflow before the
    address space is exhausted. -/
theorem counters_bounded (n : Nat) (ops : List Op) (halive : ((Arena.new n).run ops).alive = true) :
    let m := ((Arena.new n).run ops).ctx.metrics
    m.marked ≤ m.totalGcs ∧ m.traced ≤ m.totalGcs ∧ m.remembered ≤ m.totalGcs ∧
      m.dropped ≤ m.remembered + m.freed := by
  intro m
  have hi := (inv_run n ops halive).cinv
  have ha := acc_run n ops
  have hcount := hi.count
  have hlen : ∀ l : List Nat, nM ((Arena.new n).run ops).ctx l ≤ l.length := fun l => List.countP_le_length
  have hlenB : ∀ l : List Nat, nB ((Arena.new n).run ops).ctx l ≤ l.length := fun l => List.countP_le_length
  cases hp : ((Arena.new n).run ops).ctx.phase with
  | drop => exact absurd hp hi.notDrop
  | sleep =>
    obtain ⟨e1, e2, e3, e4, e5⟩ := ha.1 hp
    show m.marked ≤ m.totalGcs ∧ m.traced ≤ m.totalGcs ∧ m.remembered ≤ m.totalGcs ∧ m.dropped ≤ m.remembered + m.freed
    simp only [m, e1, e2, e3, e4, e5]; omega
  | mark =>
    have hm := ha.2.1 hp
    have h1 := hm.mkd
    have h2 := hm.trd
    have h3 := hlen (((Arena.new n).run ops).ctx.pre ++ ((Arena.new n).run ops).ctx.rest)
    have h4 := hlenB (((Arena.new n).run ops).ctx.pre ++ ((Arena.new n).run ops).ctx.rest)
    show m.marked ≤ m.totalGcs ∧ m.traced ≤ m.totalGcs ∧ m.remembered ≤ m.totalGcs ∧ m.dropped ≤ m.remembered + m.freed
    simp only [m, hm.rem, hm.drp, hm.frd]
    omega
  | sweep =>
    obtain ⟨rb, rw, dw, dfr, e1, e2, e3, e4, e5, e6, e7⟩ := ha.2.2 hp
    have h3 := hlen ((Arena.new n).run ops).ctx.rest
    have h4 := hlenB ((Arena.new n).run ops).ctx.rest
    have hl : (((Arena.new n).run ops).ctx.pre ++ ((Arena.new n).run ops).ctx.rest).length =
        ((Arena.new n).run ops).ctx.pre.length + ((Arena.new n).run ops).ctx.rest.length := List.length_append
    show m.marked ≤ m.totalGcs ∧ m.traced ≤ m.totalGcs ∧ m.remembered ≤ m.totalGcs ∧ m.dropped ≤ m.remembered + m.freed
    simp only [m]
    omega


/-! ### The repaired defect D1, by name -/

/-- The shape of corpus/C10-D1-untraced-underflow.ops: `finish_marking`, then inside `finalize` a
    value of a non-tracing type is allocated and a forward barrier blackens it (`mark_one` never
    traces it: `traced` stays 0). -/
def d1Ops : List Op := [
  .collect .finishMarking .finalize none (some [.wake, .markStep none, .markBreak]),
  .enter .finalize, .alloc false [], .barrier (.fb none 0) ]

/-- **Witness of the repaired defect D1.**  In the state after `d1Ops` (Mark phase; object 0 held,
    black, of a non-tracing type; `traced = 0`; no underflow so far) the backward (write) barrier
    on object 0
    * over the **pre-repair** `mark_gc_untraced` (`Metrics.markGcUntracedLegacy`,
      Model/Legacy.lean: a plain `usize` subtraction) underflows — the debug build panics, the
      release build wraps and wipes the debt;
    * over the repaired, saturating one does not — at the level of `Context::backward_barrier`
      and of the API operation alike (and never does, in any history: `count_exact`).
    A regression of the repair makes the implementation agree with the first half again. -/
theorem pinned_underflow_witness :
    ((Arena.new 4).run d1Ops).alive = true ∧ ((Arena.new 4).run d1Ops).holds (.strong 0) = true ∧
    ((Arena.new 4).run d1Ops).ctx.phase = .mark ∧
    (((Arena.new 4).run d1Ops).ctx.heap.get 0).map (fun o => (o.color, o.needsTrace))
      = some (.black, false) ∧
    ((Arena.new 4).run d1Ops).ctx.metrics.traced = 0 ∧
    ((Arena.new 4).run d1Ops).ctx.metrics.underflow = false ∧
    (((Arena.new 4).run d1Ops).ctx.backwardBarrierLegacy 0 none).metrics.underflow = true ∧
    (((Arena.new 4).run d1Ops).ctx.backwardBarrier 0 none).metrics.underflow = false ∧
    (((Arena.new 4).run d1Ops).step (.barrier (.bb 0 none))).1.ctx.metrics.underflow = false := by
  decide

/-- Non-vacuity: a concrete metrics state with positive debt. -/
example : (0 : Rat) < ({ Metrics.new with totalGcs := 3, allocated := 3 } : Metrics).allocationDebt := by
  unfold Metrics.allocationDebt Metrics.new Metrics.cycleDebits Metrics.cycleCredits Pacing.default
  grind

/-- The hypothesis `0 ≤ trace_factor` of `debt_never_decreased_partial` is needed: with a negative factor
    the `traced` credit a write barrier takes back lowers the debt (here 11 → 10). -/
example :
    let m : Metrics := { Metrics.new with pacing := { Pacing.default with traceFactor := -1 },
                                          totalGcs := 10, allocated := 10, traced := 1 }
    m.markGcUntraced.allocationDebt < m.allocationDebt := by
  simp only
  unfold Metrics.allocationDebt Metrics.markGcUntraced Metrics.new Metrics.cycleDebits
    Metrics.cycleCredits Pacing.default
  simp only
  grind

/-- Non-vacuity of `debt_forward_work`: marking one object under `Pacing::DEFAULT` pays exactly
    `mark_factor` (3 → 2.9). -/
example :
    let m : Metrics := { Metrics.new with totalGcs := 3, allocated := 3 }
    m.markGcMarked.allocationDebt = m.allocationDebt - m.pacing.markFactor := by
  simp only
  unfold Metrics.allocationDebt Metrics.markGcMarked Metrics.new Metrics.cycleDebits
    Metrics.cycleCredits Pacing.default
  simp only
  grind

end GcArena.C10
