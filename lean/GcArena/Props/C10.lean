import GcArena.Proofs.LogRun
/-!
# C10 — Metrics are truthful (property theorems)

Model: `GcArena.Model.Metrics` (src/metrics.rs) and the counter updates performed by
`GcArena.Model.Context` / `Arena`.  Exact rational arithmetic; f64 rounding is modelled, not
verified (DESIGN §9).
-/
namespace GcArena.C10

open GcArena

/-- `allocation_debt` is never negative. -/
theorem debt_nonneg (m : Metrics) : 0 ≤ m.allocationDebt := by
  unfold Metrics.allocationDebt
  split
  · exact Rat.le_refl
  · split
    · exact Rat.le_refl
    · grind

/-- An arena holding no allocations reports zero debt. -/
theorem debt_zero_of_empty (m : Metrics) (h : m.totalGcs = 0) : m.allocationDebt = 0 := by
  simp [Metrics.allocationDebt, h]

/-- While positive before and after, `adjust_debt x` moves the debt by exactly `x`. -/
theorem adjust_exact (m : Metrics) (x : Rat) (h1 : 0 < m.allocationDebt)
    (h2 : 0 < (m.adjustDebt x).allocationDebt) :
    (m.adjustDebt x).allocationDebt = m.allocationDebt + x := by
  unfold Metrics.allocationDebt Metrics.adjustDebt Metrics.cycleDebits Metrics.cycleCredits at *
  simp only at *
  grind

/-- `total_gc_count` equals the number of allocations made and not yet released — inside and
    outside callbacks, in every state of every history — and no counter update ever underflowed
    (including write barriers on objects of non-tracing types: `Op.barrier` is in `inv_run`). -/
theorem count_exact (n : Nat) (ops : List Op) (halive : ((Arena.new n).run ops).alive = true) :
    let c := ((Arena.new n).run ops).ctx
    c.metrics.totalGcs = c.all.length ∧ c.all.Nodup ∧ (∀ i, i ∈ c.all ↔ ∃ o, c.heap.get i = some o) ∧
    c.metrics.underflow = false := by
  have h := (inv_run n ops halive).cinv
  exact ⟨h.count, h.nodup, h.memAll, h.noUnderflow⟩

/-- … and it reads zero after the arena is dropped, whatever the phase. -/
theorem count_zero_after_drop (n : Nat) (ops : List Op) (halive : ((Arena.new n).run ops).alive = true)
    (hcb : ((Arena.new n).run ops).cb = none) :
    (((Arena.new n).run ops).step .dropArena).1.ctx.metrics.totalGcs = 0 := by
  have hi : Inv ((Arena.new n).run ops) := inv_run n ops halive
  have hnot : (!((Arena.new n).run ops).alive) = false := by rw [hi.alive]; rfl
  unfold Arena.step
  rw [hnot]
  simp only [Bool.false_eq_true, if_false, Arena.stepBody]
  rw [hcb]
  exact (dropAll_spec hi.cinv (linv_run n ops)).2.2.1

/-- Non-vacuity: a concrete metrics state with positive debt. -/
example : (0 : Rat) < ({ Metrics.new with totalGcs := 3, allocated := 3 } : Metrics).allocationDebt := by
  unfold Metrics.allocationDebt Metrics.new Metrics.cycleDebits Metrics.cycleCredits Pacing.default
  grind

end GcArena.C10
