import GcArena.Proofs.CollectLemmas
import GcArena.Generated.CollectTable
import GcArena.Proofs.MacroImplsLemmas
import GcArena.Generated.MacroImpls
/-!
# C16 — provided `Collect` impls are exact in every position

`exact` is proved once for every table whose entries are complete; `table_complete` checks the
table extracted from the current source tree (every impl, tuples 0–16 and the optional crates
included) by kernel evaluation.
-/
namespace GcArena.C16
open GcArena.CollectTy

/-- For every complete table, every type shape built from its entries (any nesting, any argument
in any position) and every well-typed value (any number of elements in any stored position):
`Trace::trace` reports exactly the contained pointers — each `Gc` as strong, each `GcWeak` as
weak, in order — and a type whose `NEEDS_TRACE` is `false` contains none. -/
theorem exact (t : Table) (hc : t.complete = true) (ty : Ty) (v : Val) (h : HasType t v ty) :
    traceProvided t ty v = ptrsOf v ∧ (needsTrace t ty = false → ptrsOf v = []) := by
  obtain ⟨hb, hn, _⟩ := core t hc ty v h
  refine ⟨?_, hn⟩
  unfold traceProvided
  split
  · exact hb
  · rename_i hnt
    exact (hn (by simpa using hnt)).symm

/-- `NEEDS_TRACE` is true whenever a stored, non-`'static` parameter's is. -/
theorem needs_trace_mono (t : Table) (hc : t.complete = true) (e : Nat) (en : Entry)
    (he : t.entry? e = some en) (args : Nat → Ty) (k : Nat) (hk : k ∈ en.held)
    (hns : en.isStaticAt k = false) (hn : needsTrace t (args k) = true) :
    needsTrace t (.app e args) = true := by
  obtain ⟨hent, _, _⟩ := Table.complete_unpack hc
  have hcomp := hent en (Table.entry_mem he)
  simp only [needsTrace, he, Bool.or_eq_true, List.any_eq_true]
  rcases Entry.complete_stored hcomp k hk with ⟨_, hd⟩ | hs
  · rcases hd with hd | hd
    · exact Or.inl hd
    · exact Or.inr ⟨k, by simpa using hd, hn⟩
  · rw [hns] at hs; cases hs

/-- **Nothing branded hides from the tracer.**  For every table satisfying `Table.untracedStatic`
— every type parameter of every impl that can occur in a field of the value is traced or bounded by
`'static` (a bare `'gc` bound does not count), the others are phantom-only, no lifetime of the self
type is free — and every well-typed container value: each component the impl's `trace` does *not*
visit has a `'static` type, hence contains no arena pointer (and, `'static` being the absence of any
brand, no `&'gc T` either).  So the "contained pointers" of `exact` are *all* the contained
pointers: there is no component outside the reach of the statement. -/
theorem no_hidden_brand (t : Table) (hu : t.untracedStatic = true) (e : Nat) (en : Entry)
    (he : t.entry? e = some en) (args : Nat → Ty) (len : Nat) (pos : Nat → Nat) (elem : Nat → Val)
    (h : HasType t (.node len pos elem) (.app e args)) (j : Nat) (hj : j < len)
    (hnt : en.traced.contains (pos j) = false) :
    isStatic t (args (pos j)) = true ∧ ptrsOf (elem j) = [] := by
  exact CollectTy.no_hidden_brand t hu e en he args len pos elem h j hj hnt

/-- The table extracted from the current source tree satisfies the rule (every provided impl,
feature-gated ones included). -/
theorem untraced_static_ok : Generated.collectTable.untracedStatic = true := by decide +kernel

open GcArena.CollectTy.Example in
/-- The delivered mutant `S: 'static` ↦ `S: 'gc` on `Collect for HashMap<K, V, S>`: the crate's
entry is accepted, the mutated one is rejected by `untracedStatic` (and by `complete`), and under it
a hasher state holding `Gc` number 5 is a well-typed value whose pointer the impl never reports. -/
theorem mutant_witness :
    hmCurrent.untracedStatic = true ∧ hmCurrent.complete = true ∧
    hmMutant.untracedStatic = false ∧ hmMutant.complete = false ∧
    HasType (mini hmMutant) hasherHolds brandedHasher ∧
    traceProvided (mini hmMutant) brandedHasher hasherHolds = [] ∧
    ptrsOf hasherHolds = [(5, true)] ∧
    ¬ HasType (mini hmCurrent) hasherHolds brandedHasher := by
  refine ⟨by decide, by decide, by decide, by decide, ?_, by decide, by decide, ?_⟩
  · simp only [hasherHolds, brandedHasher, HasType]
    refine ⟨hmMutant, by decide, ?_, ?_⟩
    · intro k hk _
      simp [hmMutant, hm, Entry.isStaticAt] at hk
    · intro j hj
      have : j = 0 := by omega
      subst this
      refine ⟨by decide, by decide, ?_⟩
      simp [HasType]
  · simp only [hasherHolds, brandedHasher, HasType]
    rintro ⟨en, hen, hb, _⟩
    have : en = hmCurrent := by
      simp [mini, Table.entry?] at hen; exact hen.symm
    subst this
    have := hb 2 (by decide) (by decide)
    simp [isStatic] at this

/-- The table extracted from the current source tree is complete. -/
theorem table_complete : Generated.collectTable.complete = true := by decide +kernel

/-- Lower bounds on the extracted table (a translator that silently drops rows cannot make
`table_complete` / `untraced_static_ok` vacuous): at least 50 impls, 30 of which trace a parameter,
at least one crate-internal pointer-holding type, and both exported macros' arms. -/
theorem required_collect_rows :
    Generated.collectTable.entries.length ≥ 50 ∧
    (Generated.collectTable.entries.filter (fun e => !e.traced.isEmpty)).length ≥ 30 ∧
    (Generated.collectTable.entries.filter (fun e => !e.ptrFields.isEmpty)).length ≥ 1 ∧
    Generated.collectTable.unclassified = [] ∧ Generated.macroImpls.length ≥ 2 := by decide +kernel

/-- Hence the current impls are exact. -/
theorem current_exact (ty : Ty) (v : Val) (h : HasType Generated.collectTable v ty) :
    traceProvided Generated.collectTable ty v = ptrsOf v ∧
      (needsTrace Generated.collectTable ty = false → ptrsOf v = []) :=
  exact _ table_complete ty v h


/-! Non-vacuity, on a two-entry table (`HashMap<K, V, S>` as extracted, and a mutant without the
key disjunct). -/

open GcArena.CollectTy.Example in
/-- The extracted `HashMap` entry is complete and reports a pointer held only as a key … -/
example : (mini (hm [0, 1] [0, 1])).complete = true ∧
    traceProvided (mini (hm [0, 1] [0, 1])) keyOnly oneKey = [(5, true)] ∧
    traceProvided (mini (hm [0, 1] [0, 1])) weakVal oneWeak = [(9, false)] := by decide

open GcArena.CollectTy.Example in
/-- … while the mutant `NEEDS_TRACE = V::NEEDS_TRACE` is rejected by `complete`, and indeed loses
the key (the short-circuit skips the whole map): `exact`'s hypothesis is not redundant. -/
example : (mini (hm [1] [0, 1])).complete = false ∧
    traceProvided (mini (hm [1] [0, 1])) keyOnly oneKey = [] ∧ ptrsOf oneKey = [(5, true)] := by decide

/-! ## Impls generated for clients: `dyn_collect!` (and `static_collect!`)

The generic arms of the exported macros are instantiated only by clients; their expansion templates
are read from the raw source into `GcArena/Generated/MacroImpls.lean`.  A `dyn Trait<'gc, T>` object
usually owns pointers: its impl forwards `trace` to the value (`DynCollect::dyn_trace`) and must not
claim `NEEDS_TRACE = false`, or every provided container holding it (`Box`, `Rc`, `Vec<Box<…>>`, …)
computes its own constant from a wrong leaf and `Trace::trace` skips the whole sub-tree. -/

/-- Every arm of `dyn_collect!` in the current source forwards `trace` to the value and leaves
`NEEDS_TRACE` at its default (`true`); every arm of every exported impl-generating macro was found,
classified and satisfies the template rule ("impls that claim no tracing is needed exist only for
types that cannot contain arena pointers"). -/
theorem dyn_collect_templates_ok :
    Generated.macroImplsUnclassified = [] ∧
    (Generated.macroImpls.filter (fun t => t.macroName == "__dyn_collect")).length ≥ 1 ∧
    (Generated.macroImpls.filter (fun t => t.macroName == "__dyn_collect")).all
      (fun t => t.ok && t.trace == .forwardsDyn && t.needsTraceValue == some true) = true ∧
    Generated.macroImpls.all MacroImpls.Template.ok = true := by decide

/-- **Client instantiations are covered by `exact`.**  Extend the crate's impl table by the impls
clients obtain from any arms of the exported macros in the current source (`Template.toEntry`: any
number of declared parameters, the user-supplied type mentioning the brand or not; any number of
instantiations): the extended table is still complete, so for every type shape built from provided
impls **and** macro-generated ones, `Trace::trace` reports exactly the contained pointers, and a type
whose `NEEDS_TRACE` is `false` contains none. -/
theorem template_instances_exact (is : List (MacroImpls.Template × MacroImpls.Inst))
    (hmem : ∀ p, p ∈ is → p.1 ∈ Generated.macroImpls) (ty : Ty) (v : Val)
    (h : HasType (MacroImpls.withInstances Generated.collectTable is) v ty) :
    traceProvided (MacroImpls.withInstances Generated.collectTable is) ty v = ptrsOf v ∧
      (needsTrace (MacroImpls.withInstances Generated.collectTable is) ty = false → ptrsOf v = []) :=
  exact _ (MacroImpls.withInstances_complete _ table_complete _ dyn_collect_templates_ok.2.2.2 is hmem) ty v h

/-- Non-vacuity of `template_instances_exact` on the generated rows 0 (`static_collect!` generic arm)
and 2 (`dyn_collect!` generic arm): both instantiate to complete rows at a brand-mentioning type with
one parameter; the `dyn` row traces its parameter position, the `static` row demands `'static`. -/
example :
    (Generated.macroImpls[0]?.map (fun t => (t.toEntry { brandFree := false, nparams := 1 }).complete)) = some true ∧
    (Generated.macroImpls[2]?.map (fun t => (t.toEntry { brandFree := false, nparams := 1 }).traced)) = some [0] ∧
    (Generated.macroImpls[2]?.map (fun t => (t.toEntry { brandFree := false, nparams := 1 }).ptrFields)) = some ["'gc"] ∧
    (Generated.macroImpls[0]?.map (fun t => (t.toEntry { brandFree := false, nparams := 1 }).selfStatic)) = some true := by
  decide

/-- The `Example` rows of the mutant-witness theorems are the generated rows (so the witnesses are
about the crate's templates, not about hand-written look-alikes). -/
example : Generated.macroImpls[0]? = some MacroImpls.Example.staticCollectArm0 ∧
    Generated.macroImpls[2]? = some MacroImpls.Example.dynCollectArm0 := by decide

/-- *Definitional reading of the rule* (re-reads conjuncts of `Template.ok`; kept for the name — the
semantic statement is `template_instances_exact`).
What the rule buys: a generated impl that is usable at a generative brand for a type mentioning
the brand reports through the value's own `trace` and has `NEEDS_TRACE = true`. -/
theorem template_impl_traces (t : MacroImpls.Template) (h : t.ok = true) (i : MacroImpls.Inst)
    (hb : i.brandFree = false) (hg : t.brandGeneric i = true) :
    t.reportsNothing = false ∧ t.needsTraceValue = some true := by
  rcases MacroImpls.ok_sound t h i hb with h1 | h1
  · rw [hg] at h1; cases h1
  · exact h1

/-- The seeded change (`const NEEDS_TRACE: bool = false;` added to the generic arm of
`dyn_collect!`) is rejected by the rule, the crate's arm is accepted. -/
theorem dyn_collect_mutant_witness :
    MacroImpls.Example.dynCollectArm0.ok = true ∧
    MacroImpls.Example.dynCollectArm0Mutant.ok = false ∧
    MacroImpls.Example.dynCollectArm0Mutant.needsTraceValue = some false ∧
    (MacroImpls.Example.dynCollectArm0Mutant.toEntry { brandFree := false, nparams := 1 }).complete = false ∧
    (MacroImpls.Example.dynCollectArm0Mutant.toEntry { brandFree := false, nparams := 0 }).complete = false := by
  decide

/-! ## The clause, over the type-shape model

"Tracing a value through a provided impl reports every contained `Gc` as strong and every contained
`GcWeak` as weak, in every type-parameter and element position; `NEEDS_TRACE` is false only for
types that cannot contain arena pointers" — rendered over `Model/CollectTy.lean` for the **current**
crate.  Not contained in this rendering: that the std / third-party iterators visit every element
and `Shape.stored` (trusted), the translator's reading of the `trace` bodies (validated by the
recording-tracer harness of `lib/eng_collect.py`), and client instantiations of the exported macros
beyond the template rule (`dyn_collect_templates_ok`). -/
def provided_impls_exact_statement : Prop :=
  ∀ (ty : Ty) (v : Val), HasType Generated.collectTable v ty →
    traceProvided Generated.collectTable ty v = ptrsOf v ∧
      (needsTrace Generated.collectTable ty = false → ptrsOf v = [])

theorem provided_impls_exact : provided_impls_exact_statement := current_exact

end GcArena.C16
