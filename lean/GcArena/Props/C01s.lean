import GcArena.Props.C14s
/-!
# C01 (companion) — the `DynamicRootSet` parenthetical of C01

C01: "… while it is strongly reachable from the arena root (including roots registered in a
DynamicRootSet held by the root) …".  The collector theorems of Props/C01.lean are about pointers
stored in slots; that a `DynamicRootSet` *is* such an object, holding exactly the pointers of the
live handles, is the coupled system of Props/C14s.lean.  This file re-exports the resulting safety
statements under C01 — one-liners; the restrictions are those of the re-exported theorems.
-/
namespace GcArena.C01

open GcArena

/-- **Roots registered in a `DynamicRootSet`** — the general coupled system (`DynReach.GSys`,
    Proofs/DynReach.lean): in every state of every history, for a live handle `h` of a set of the
    arena whose set object `x` the client can reach (strongly from the root, or through what the
    running callback holds), the stashed object is reachable too (strongly from the root if `x`
    is), and it and everything strongly reachable from it is allocated, undestructed and not
    condemned by the running sweep.  No pinning, no capacity bound, handle drops in any state.
    Rests on the modelling choices of that system (one arena in detail, two set-object transitions
    outside `Arena.step` proved to preserve `Inv`, handle ops atomic between collector-model ops).
    This is `C14s.stashed_survives_while_handle`, verbatim. -/
theorem dynamic_roots : C14s.stashed_survives_while_handle_statement :=
  C14s.stashed_survives_while_handle

/-- The same in the pinned system built from existing `Arena` ops only (`DynCompose.Sys`), under
    its restrictions: **R1** one arena; **R2** every set object is stored directly in a root slot
    that is never overwritten (the simplest form of "held by the root"); **R3** dropping the arena
    is a coupled op of its own; **R4** the set object has a fixed number `cap` of slots, a `stash`
    needing more is not a coupled op; **R5** no client stores into a set object (its field is
    private — excludes nothing); **R6** a handle dropped while the client holds a `MarkedArena`
    forfeits the `finalize` call.  This is `C14s.stashed_survives_while_handle_partial`, verbatim. -/
theorem dynamic_roots_partial (n : Nat) (ops : List DynCompose.COp) (S : DynCompose.Sys)
    (hS : S = (DynCompose.Sys.init n).run ops) (h : DynRoots.Handle) (hm : h ∈ S.d.handles)
    (rs : DynRoots.RootSet) (hl : S.d.liveSet h.set = some rs) :
    StrongReach S.a h.ptr ∧ ∀ j, AccessibleC S.a.ctx [] [Ptr.strong h.ptr] j → Safe S.a.ctx j :=
  C14s.stashed_survives_while_handle_partial n ops S hS h hm rs hl

/-! ### Non-vacuity (the histories of Props/C14s.lean) -/

open GcArena.DynReach GcArena.DynCompose in
/-- `dynamic_roots` in the state of `C14s.gdemo` after the `finalize` callback's stash: the set
    object 1 is reachable (root → 0 → 1), not pinned; the stashed object 3 is white while the set was
    black — and it is `Safe`. -/
example : Safe ((GSys.init 1).run (C14s.gdemo.take 15)).a.ctx 3 :=
  (dynamic_roots 1 (C14s.gdemo.take 15) _ rfl ⟨0, 0, 3, 1⟩ 1 (by decide) (by decide)
    (.temp 1 (by decide))).2.2 3 (.temp 3 (by simp))

open GcArena.DynCompose in
/-- `dynamic_roots_partial` in `C14s.afterDrop`, for the remaining handle (object 2, still white,
    stashed into a set that was black). -/
example : Safe C14s.afterDrop.a.ctx 2 :=
  (dynamic_roots_partial 1 (C14s.demo.take 11) C14s.afterDrop rfl ⟨0, 1, 2, 1⟩ (by decide)
    ⟨true, ⟨[.vacant DynRoots.nullIndex, .occupied 2 0], 0⟩⟩ (by decide)).2 2 (.temp 2 (by simp))

end GcArena.C01
