import GcArena.Proofs.Quiet
/-!
# C03 — Mutation xor collection: nothing is reclaimed while a callback runs

Every operation a callback can perform (`Op.isMutator`: everything except the collection methods
and dropping the arena) emits no `dropped` / `freed` event and keeps every allocation allocated
with its liveness, whatever the phase, the outstanding debt and the queues are — the statements
have no hypothesis on them beyond reachability of the state.

The static half (callbacks cannot *reach* the collection methods: they need `&mut Arena` or a
`MarkedArena`) is `GcArena.C03s` over the call graph extracted from the source.
-/
namespace GcArena.C03

open GcArena

/-- One mutator operation is silent. -/
theorem mutator_silent {a : Arena} (h : Inv a) (op : Op) (hop : op.isMutator = true) :
    (a.step op).1.ctx.log = a.ctx.log ∧
    ∀ i o, a.ctx.heap.get i = some o →
      ∃ o', (a.step op).1.ctx.heap.get i = some o' ∧ o'.live = o.live := by
  have q := step_quiet h op hop
  exact ⟨q.log, q.keep⟩

/-- … in every reachable state: for every history `ops` and every mutator operation after it. -/
theorem mutator_silent_run (n : Nat) (ops : List Op) (op : Op) (hop : op.isMutator = true)
    (halive : ((Arena.new n).run ops).alive = true) :
    (((Arena.new n).run ops).step op).1.ctx.log = ((Arena.new n).run ops).ctx.log ∧
    ∀ i o, ((Arena.new n).run ops).ctx.heap.get i = some o →
      ∃ o', (((Arena.new n).run ops).step op).1.ctx.heap.get i = some o' ∧ o'.live = o.live :=
  mutator_silent (inv_run n ops halive) op hop

/-- Hence every pointer obtained during the callback (fresh allocations not yet linked anywhere,
    pointers read from the graph, successful upgrades) is valid for the rest of the callback:
    what the callback holds stays allocated and undestructed after any further mutator op. -/
theorem held_pointers_stay_valid {a : Arena} (h : Inv a) (op : Op) (hop : op.isMutator = true)
    (t : Nat) (ht : Ptr.strong t ∈ a.temps) :
    ∃ o', (a.step op).1.ctx.heap.get t = some o' ∧ o'.live = true := by
  obtain ⟨o, ho, hl, _⟩ := h.cinv.tempsOK _ ht
  obtain ⟨o', ho', hl'⟩ := (mutator_silent h op hop).2 t o ho
  exact ⟨o', ho', hl'.trans hl⟩

/-- Allocation only links and counts (`Context::link`): it touches the fresh cell, the head of
    the list and two counters; it never triggers collection work. -/
theorem link_pure (c : Ctx) (o : Obj) :
    (c.link o).1.log = c.log ∧ (c.link o).1.phase = c.phase ∧ (c.link o).1.rest = c.rest ∧
    (c.link o).1.gray = c.gray ∧ (c.link o).1.grayAgain = c.grayAgain ∧
    (c.link o).1.rootNeedsTrace = c.rootNeedsTrace ∧ (c.link o).1.pre = (c.link o).2 :: c.pre ∧
    (∀ j, j ≠ (c.link o).2 → (c.link o).1.heap.get j = c.heap.get j) := by
  refine ⟨rfl, rfl, rfl, rfl, rfl, rfl, rfl, ?_⟩
  intro j hj
  simp only [Ctx.link] at hj ⊢
  simp [Heap.get_set, hj]

/-- Events therefore come only from collection calls and from dropping the arena. -/
theorem events_only_in_collect {a : Arena} (h : Inv a) (op : Op)
    (hne : (a.step op).1.ctx.log ≠ a.ctx.log) : op.isMutator = false := by
  cases hop : op.isMutator with
  | false => rfl
  | true => exact absurd (mutator_silent h op hop).1 hne

/-! ### Whole callback bodies, over whole histories -/

private theorem push_alive (a : Arena) (p : Ptr) : (a.push p).alive = a.alive := by
  unfold Arena.push; split <;> rfl

private theorem stepBody_mut_alive (a : Arena) (fin : Bool) (op : Op) (hop : op.isMutator = true)
    (ha : a.alive = true) : (a.stepBody fin op).1.alive = true := by
  cases op <;> simp only [Op.isMutator] at hop <;> try cases hop
  all_goals
    unfold Arena.stepBody
    simp only [Arena.bad]
    repeat' split
    all_goals first | exact ha | (simp only [push_alive]; exact ha) | skip

/-- No operation a callback can perform makes the arena go away. -/
theorem mutator_keeps_arena {a : Arena} (ha : a.alive = true) (op : Op) (hop : op.isMutator = true) :
    (a.step op).1.alive = true := by
  unfold Arena.step
  simp only [ha, Bool.not_true, Bool.false_eq_true, if_false]
  exact stepBody_mut_alive _ _ op hop rfl

/-- **A whole callback body.**  Any sequence of mutator operations — of any length, entered in any
    reachable state (phase, debt, queues: no hypothesis on them) — emits no `dropped` / `freed`
    event, leaves the phase alone, keeps the arena, and keeps every allocation that existed at any
    point before it allocated with its liveness. -/
theorem callback_body_silent (body : List Op) : ∀ {a : Arena}, Inv a →
    (∀ op, op ∈ body → op.isMutator = true) →
    Inv (a.run body) ∧ (a.run body).ctx.log = a.ctx.log ∧ (a.run body).ctx.phase = a.ctx.phase ∧
    ∀ i o, a.ctx.heap.get i = some o →
      ∃ o', (a.run body).ctx.heap.get i = some o' ∧ o'.live = o.live := by
  induction body with
  | nil => intro a h _; exact ⟨h, rfl, rfl, fun i o ho => ⟨o, ho, rfl⟩⟩
  | cons op body ih =>
    intro a h hm
    have hop := hm op (List.mem_cons_self ..)
    have hal := mutator_keeps_arena h.alive op hop
    have h1 := inv_step h op hal
    have q := step_quiet h op hop
    obtain ⟨hI, hlog, hph, hk⟩ := ih h1 (fun o ho => hm o (List.mem_cons_of_mem _ ho))
    refine ⟨hI, hlog.trans q.log, hph.trans q.phase, ?_⟩
    intro i o ho
    obtain ⟨o1, ho1, hl1⟩ := q.keep i o ho
    obtain ⟨o2, ho2, hl2⟩ := hk i o1 ho1
    exact ⟨o2, ho2, hl2.trans hl1⟩

private theorem run_append (l1 l2 : List Op) : ∀ a : Arena, a.run (l1 ++ l2) = (a.run l1).run l2 := by
  induction l1 with
  | nil => intro a; rfl
  | cons op l1 ih => intro a; simp only [List.cons_append, Arena.run]; exact ih _

/-- … for every history: a pointer the callback holds at *any point* of its body (`body₁` done,
    `body₂` still to come) — a fresh allocation, a pointer read from the graph, a successful
    upgrade — is allocated and undestructed when the body ends, and no event was emitted. -/
theorem held_until_callback_returns (n : Nat) (pre body₁ body₂ : List Op)
    (halive : ((Arena.new n).run (pre ++ body₁)).alive = true)
    (hm : ∀ op, op ∈ body₂ → op.isMutator = true) (t : Nat)
    (ht : Ptr.strong t ∈ ((Arena.new n).run (pre ++ body₁)).temps) :
    ((Arena.new n).run (pre ++ body₁ ++ body₂)).alive = true ∧
    ((Arena.new n).run (pre ++ body₁ ++ body₂)).ctx.log = ((Arena.new n).run (pre ++ body₁)).ctx.log ∧
    ∃ o', ((Arena.new n).run (pre ++ body₁ ++ body₂)).ctx.heap.get t = some o' ∧ o'.live = true := by
  have h := inv_run n (pre ++ body₁) halive
  obtain ⟨o, ho, hl, _⟩ := h.cinv.tempsOK _ ht
  rw [run_append (pre ++ body₁) body₂]
  obtain ⟨hI, hlog, _, hk⟩ := callback_body_silent body₂ h hm
  obtain ⟨o', ho', hl'⟩ := hk t o ho
  exact ⟨hI.alive, hlog, o', ho', hl'.trans hl⟩

/-! ### Non-vacuity -/

/-- A callback entered mid-sweep with a huge artificial debt pending: it allocates, reads and
    stores; the log does not move. -/
def demo : List Op := [
  .enter .mutateRoot, .alloc true [none, none], .rootStore 0 (some (.strong 0)),
  .alloc true [none, none], .leave, .adjustDebt 1000000,
  .collect .finishMarking .sweep none (some [.wake, .markStep none, .markStep none, .markBreak, .toSweep]),
  .enter .mutate, .readRoot 0, .alloc true [some (.strong 0), none], .store .write 0 1 (some (.strong 2)) ]

example : ((Arena.new 2).run demo).alive = true := by decide
example : ((Arena.new 2).run demo).ctx.phase = .sweep := by decide
example : ((Arena.new 2).run demo).ctx.log = [] := by decide
example : ((Arena.new 2).run demo).ctx.rest = [1, 0] := by decide

/-- The whole-body theorem applies to the demo: its last four operations (`enter`, `readRoot`,
    `alloc`, `store`) form a callback body entered mid-sweep, and the fresh allocation `2`
    made inside it is still held and valid at its end. -/
example : ∀ op, op ∈ demo.drop (demo.length - 4) → op.isMutator = true := by decide
example : Ptr.strong 2 ∈ ((Arena.new 2).run demo).temps := by decide

end GcArena.C03
