import GcArena.Proofs.Quiet
/-!
# C03 — Mutation xor collection: nothing is reclaimed while a callback runs

Every operation a callback can perform (`Op.isMutator`: everything except the collection methods
and dropping the arena) emits no `dropped` / `freed` event and keeps every allocation allocated
with its liveness, whatever the phase, the outstanding debt and the queues are — the statements
have no hypothesis on them beyond reachability of the state.

The static half (callbacks cannot *reach* the collection methods: they need `&mut Arena` or a
`MarkedArena`) is `GcArena.C03s` over the call graph extracted from the source.
-/
namespace GcArena.C03

open GcArena

/-- One mutator operation is silent. -/
theorem mutator_silent {a : Arena} (h : Inv a) (op : Op) (hop : op.isMutator = true) :
    (a.step op).1.ctx.log = a.ctx.log ∧
    ∀ i o, a.ctx.heap.get i = some o →
      ∃ o', (a.step op).1.ctx.heap.get i = some o' ∧ o'.live = o.live := by
  have q := step_quiet h op hop
  exact ⟨q.log, q.keep⟩

/-- … in every reachable state: for every history `ops` and every mutator operation after it. -/
theorem mutator_silent_run (n : Nat) (ops : List Op) (op : Op) (hop : op.isMutator = true)
    (halive : ((Arena.new n).run ops).alive = true) :
    (((Arena.new n).run ops).step op).1.ctx.log = ((Arena.new n).run ops).ctx.log ∧
    ∀ i o, ((Arena.new n).run ops).ctx.heap.get i = some o →
      ∃ o', (((Arena.new n).run ops).step op).1.ctx.heap.get i = some o' ∧ o'.live = o.live :=
  mutator_silent (inv_run n ops halive) op hop

/-- Hence every pointer obtained during the callback (fresh allocations not yet linked anywhere,
    pointers read from the graph, successful upgrades) is valid for the rest of the callback:
    what the callback holds stays allocated and undestructed after any further mutator op. -/
theorem held_pointers_stay_valid {a : Arena} (h : Inv a) (op : Op) (hop : op.isMutator = true)
    (t : Nat) (ht : Ptr.strong t ∈ a.temps) :
    ∃ o', (a.step op).1.ctx.heap.get t = some o' ∧ o'.live = true := by
  obtain ⟨o, ho, hl, _⟩ := h.cinv.tempsOK _ ht
  obtain ⟨o', ho', hl'⟩ := (mutator_silent h op hop).2 t o ho
  exact ⟨o', ho', hl'.trans hl⟩

/-- Allocation only links and counts (`Context::link`): it touches the fresh cell, the head of
    the list and two counters; it never triggers collection work. -/
theorem link_pure (c : Ctx) (o : Obj) :
    (c.link o).1.log = c.log ∧ (c.link o).1.phase = c.phase ∧ (c.link o).1.rest = c.rest ∧
    (c.link o).1.gray = c.gray ∧ (c.link o).1.grayAgain = c.grayAgain ∧
    (c.link o).1.rootNeedsTrace = c.rootNeedsTrace ∧ (c.link o).1.pre = (c.link o).2 :: c.pre ∧
    (∀ j, j ≠ (c.link o).2 → (c.link o).1.heap.get j = c.heap.get j) := by
  refine ⟨rfl, rfl, rfl, rfl, rfl, rfl, rfl, ?_⟩
  intro j hj
  simp only [Ctx.link] at hj ⊢
  simp [Heap.get_set, hj]

/-- Events therefore come only from collection calls and from dropping the arena. -/
theorem events_only_in_collect {a : Arena} (h : Inv a) (op : Op)
    (hne : (a.step op).1.ctx.log ≠ a.ctx.log) : op.isMutator = false := by
  cases hop : op.isMutator with
  | false => rfl
  | true => exact absurd (mutator_silent h op hop).1 hne

/-! ### Non-vacuity -/

/-- A callback entered mid-sweep with a huge artificial debt pending: it allocates, reads and
    stores; the log does not move. -/
def demo : List Op := [
  .enter .mutateRoot, .alloc true [none, none], .rootStore 0 (some (.strong 0)),
  .alloc true [none, none], .leave, .adjustDebt 1000000,
  .collect .finishMarking .sweep none (some [.wake, .markStep none, .markStep none, .markBreak, .toSweep]),
  .enter .mutate, .readRoot 0, .alloc true [some (.strong 0), none], .store .write 0 1 (some (.strong 2)) ]

example : ((Arena.new 2).run demo).alive = true := by decide
example : ((Arena.new 2).run demo).ctx.phase = .sweep := by decide
example : ((Arena.new 2).run demo).ctx.log = [] := by decide
example : ((Arena.new 2).run demo).ctx.rest = [1, 0] := by decide

end GcArena.C03
