import GcArena.Proofs.Quiet
/-!
# C07 — Finalization: dead means unreachable, resurrection holds for the cycle

`is_dead` reads the colour (`Gc::is_dead`: white or white-weak).  A `MarkedArena` is handed out
exactly when `Arena.isMarked`: `phase == Mark && !gray_remaining()`.
-/
namespace GcArena.C07

open GcArena

def isDead (c : Ctx) (i : Nat) : Prop :=
  ∃ o, c.heap.get i = some o ∧ (o.color = .white ∨ o.color = .whiteWeak)

/-- In a fully marked arena every strongly reachable object is black. -/
theorem reachable_black {c : Ctx} {root temps} (h : CInv c root temps) (hm : Arena.isMarked c = true)
    {i : Nat} (hr : StrongReachC c root i) : ∃ o, c.heap.get i = some o ∧ o.color = .black := by
  simp only [Arena.isMarked, Bool.and_eq_true, decide_eq_true_eq, Bool.not_eq_true',
    Ctx.grayRemaining, Bool.or_eq_false_iff, Bool.not_eq_false', List.isEmpty_iff] at hm
  obtain ⟨hph, ⟨hg, hga⟩, hrnt⟩ := hm
  have nogray : ∀ j o, c.heap.get j = some o → o.color ≠ .gray := by
    intro j o ho hgr
    have := h.grayQ j o ho hgr
    rw [hg, hga] at this; simp at this
  have black_of_marked : ∀ t, PtrMarked c (.strong t) → ∃ o, c.heap.get t = some o ∧ o.color = .black := by
    rintro t ⟨o, ho, hc⟩
    rcases hc with hc | hc
    · exact absurd hc (nogray t o ho)
    · exact ⟨o, ho, hc⟩
  induction hr with
  | root t ht => exact black_of_marked t (h.triRoot hph hrnt _ ht)
  | temp t ht => cases ht
  | edge j t _ e ih =>
    obtain ⟨oj, hoj, hb⟩ := ih
    obtain ⟨o2, ho2, hs⟩ := e
    rw [hoj] at ho2; cases ho2
    exact black_of_marked t (h.tri hph j oj hoj hb (by simp) _ hs)

/-- When a `MarkedArena` is handed out, no strongly reachable object reports `is_dead` — through a
    `Gc` or through any `GcWeak` to it (both read the target's colour). -/
theorem marked_sound {a : Arena} (h : Inv a) (hm : Arena.isMarked a.ctx = true) (i : Nat)
    (hr : StrongReach a i) : ¬ isDead a.ctx i := by
  rintro ⟨o, ho, hc⟩
  obtain ⟨o2, ho2, hb⟩ := reachable_black h.cinv hm hr
  rw [ho] at ho2; cases ho2
  rw [hb] at hc; rcases hc with hc | hc <;> cases hc

/-- `GcWeak::resurrect` returns `None` exactly for destructed targets. -/
theorem resurrect_none_iff {a : Arena} (h : Inv a) (hcb : a.cb = some .finalize) (t : Nat) (o : Obj)
    (hw : Ptr.weak t ∈ a.temps) (ho : a.ctx.heap.get t = some o) :
    (a.step (.resurrect (.weak t))).2 = "none" ↔ o.live = false := by
  have hnot : (!a.alive) = false := by rw [h.alive]; rfl
  have hh : a.holds (.weak t) = true := (holds_iff a _).mpr hw
  unfold Arena.step
  rw [hnot]
  simp only [Bool.false_eq_true, if_false, Arena.stepBody, hcb, ne_eq, not_true_eq_false, decide_false,
    Bool.false_or, Arena.holds] at hh ⊢
  simp only [hh, Bool.not_true, Bool.false_eq_true, if_false, ho]
  cases hl : o.live <;> simp

/-- Reviving a dead, undestructed object makes the arena report Marking again. -/
theorem resurrect_marking (c : Ctx) (t : Nat) (o : Obj) (ho : c.heap.get t = some o)
    (hd : o.color = .white ∨ o.color = .whiteWeak) : (c.resurrect t).grayRemaining = true := by
  unfold Ctx.resurrect
  simp only [ho]
  have : (decide (o.color = .white) || decide (o.color = .whiteWeak)) = true := by
    rcases hd with hd | hd <;> simp [hd]
  simp only [this, if_true]
  split <;> simp [Ctx.grayRemaining]

/-- A resurrected object is queued for tracing at once (gray, on the gray queue), whether or not
    the returned pointer is stored anywhere; the sweep cannot start while it is queued
    (`Micro.toSweep` is enabled only with empty queues), and marking it — with `mark_one`'s
    tri-colour step — blackens it and queues everything it holds. -/
theorem resurrect_queues {a : Arena} (h : Inv a) (hm : a.ctx.phase = .mark) (t : Nat)
    (hs : Safe a.ctx t) :
    PtrMarked (a.ctx.resurrect t) (.strong t) ∧ CInv (a.ctx.resurrect t) a.root a.temps :=
  ⟨(resurrect_spec h.cinv hm hs).2.2, (resurrect_spec h.cinv hm hs).1⟩

theorem sweep_waits_for_queue (c : Ctx) (root : List Slot) (h : c.grayRemaining = true) :
    c.micro root .toSweep = none := by
  simp [Ctx.micro, h]

/-- Full statement of "exact if unmutated", kept visible; proof pending (needs the exactness
    invariant of C02: gray/black ⇒ strongly reachable when no mutator step intervened). -/
def marked_exact_statement : Prop :=
  ∀ (n : Nat) (pre : List Op) (ms : List Micro) (c : Ctx),
    let a := (Arena.new n).run pre
    a.alive = true → a.cb = none → a.ctx.phase = .sleep →
    a.ctx.micros a.root (.wake :: ms) = some c → Arena.isMarked c = true →
    (∀ m, m ∈ ms → ∃ f, m = .markStep f ∨ m = .markBreak) → (∀ m, m ∈ ms → m ≠ .markStep (some 0)) →
    ∀ i o, c.heap.get i = some o → (isDead c i ↔ ¬ StrongReachC c a.root i)

/-- Full statement of "resurrection protects the closure for the cycle"; proof pending (needs
    colour monotonicity of every mark-phase step up to the next `Mark → Sweep` switch). -/
def resurrect_protects_statement : Prop :=
  ∀ (a : Arena) (t : Nat) (ms : List Micro) (c : Ctx), Inv a → a.cb = none → a.ctx.phase = .mark →
    (∃ o, a.ctx.heap.get t = some o ∧ (o.color = .gray ∨ o.color = .black)) →
    a.ctx.micros a.root ms = some c → c.phase = .sweep → (∀ m, m ∈ ms → m ≠ .toSleep true ∧ m ≠ .toSleep false) →
    Safe c t

/-! ### Non-vacuity -/

/-- root → 0; object 1 unreachable but weakly held by 0.  Fully marked: `is_dead(1)`; resurrect it:
    the arena reports Marking. -/
def demo : List Op := [
  .enter .mutateRoot, .alloc true [none], .alloc true [none], .downgrade 1,
  .store .write 0 0 (some (.weak 1)), .rootStore 0 (some (.strong 0)), .leave,
  .collect .finishMarking .finalize none (some [.wake, .markStep none, .markStep none, .markBreak]),
  .enter .finalize, .readRoot 0, .read 0 0, .isDead (.weak 1), .resurrect (.weak 1) ]

example : ((Arena.new 2).run demo).alive = true := by decide
example : Arena.isMarked ((Arena.new 2).run (demo.take 8)).ctx = true := by decide
example : (((Arena.new 2).run (demo.take 11)).step (.isDead (.weak 1))).2 = "true" := by decide
example : ((Arena.new 2).run demo).collectionPhase = "Marking" := by decide

end GcArena.C07
