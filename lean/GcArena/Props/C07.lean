import GcArena.Proofs.Quiet
import GcArena.Proofs.Exact
import GcArena.Proofs.RunBridge
import GcArena.Proofs.ProtRun
import GcArena.Proofs.TightRun
/-!
# C07 — Finalization: dead means unreachable, resurrection holds for the cycle

`is_dead` reads the colour (`Gc::is_dead`: white or white-weak).  A `MarkedArena` is handed out
exactly when `Arena.isMarked`: `phase == Mark && !gray_remaining()`.
-/
namespace GcArena.C07

open GcArena

def isDead (c : Ctx) (i : Nat) : Prop :=
  ∃ o, c.heap.get i = some o ∧ (o.color = .white ∨ o.color = .whiteWeak)

/-- In a fully marked arena every strongly reachable object is black. -/
theorem reachable_black {c : Ctx} {root temps} (h : CInv c root temps) (hm : Arena.isMarked c = true)
    {i : Nat} (hr : StrongReachC c root i) : ∃ o, c.heap.get i = some o ∧ o.color = .black := by
  simp only [Arena.isMarked, Bool.and_eq_true, decide_eq_true_eq, Bool.not_eq_true',
    Ctx.grayRemaining, Bool.or_eq_false_iff, Bool.not_eq_false', List.isEmpty_iff] at hm
  obtain ⟨hph, ⟨hg, hga⟩, hrnt⟩ := hm
  have nogray : ∀ j o, c.heap.get j = some o → o.color ≠ .gray := by
    intro j o ho hgr
    have := h.grayQ j o ho hgr
    rw [hg, hga] at this; simp at this
  have black_of_marked : ∀ t, PtrMarked c (.strong t) → ∃ o, c.heap.get t = some o ∧ o.color = .black := by
    rintro t ⟨o, ho, hc⟩
    rcases hc with hc | hc
    · exact absurd hc (nogray t o ho)
    · exact ⟨o, ho, hc⟩
  induction hr with
  | root t ht => exact black_of_marked t (h.triRoot hph hrnt _ ht)
  | temp t ht => cases ht
  | edge j t _ e ih =>
    obtain ⟨oj, hoj, hb⟩ := ih
    obtain ⟨o2, ho2, hs⟩ := e
    rw [hoj] at ho2; cases ho2
    exact black_of_marked t (h.tri hph j oj hoj hb (by simp) _ hs)

/-- When a `MarkedArena` is handed out, no strongly reachable object reports `is_dead` — through a
    `Gc` or through any `GcWeak` to it (both read the target's colour). -/
theorem marked_sound {a : Arena} (h : Inv a) (hm : Arena.isMarked a.ctx = true) (i : Nat)
    (hr : StrongReach a i) : ¬ isDead a.ctx i := by
  rintro ⟨o, ho, hc⟩
  obtain ⟨o2, ho2, hb⟩ := reachable_black h.cinv hm hr
  rw [ho] at ho2; cases ho2
  rw [hb] at hc; rcases hc with hc | hc <;> cases hc

/-- `GcWeak::resurrect` returns `None` exactly for destructed targets. -/
theorem resurrect_none_iff {a : Arena} (h : Inv a) (hcb : a.cb = some .finalize) (t : Nat) (o : Obj)
    (hw : Ptr.weak t ∈ a.temps) (ho : a.ctx.heap.get t = some o) :
    (a.step (.resurrect (.weak t))).2 = "none" ↔ o.live = false := by
  have hnot : (!a.alive) = false := by rw [h.alive]; rfl
  have hh : a.holds (.weak t) = true := (holds_iff a _).mpr hw
  unfold Arena.step
  rw [hnot]
  simp only [Bool.false_eq_true, if_false, Arena.stepBody, hcb, ne_eq, not_true_eq_false, decide_false,
    Bool.false_or, Arena.holds] at hh ⊢
  simp only [hh, Bool.not_true, Bool.false_eq_true, if_false, ho]
  cases hl : o.live <;> simp

/-- Reviving a dead, undestructed object makes the arena report Marking again. -/
theorem resurrect_marking (c : Ctx) (t : Nat) (o : Obj) (ho : c.heap.get t = some o)
    (hd : o.color = .white ∨ o.color = .whiteWeak) : (c.resurrect t).grayRemaining = true := by
  unfold Ctx.resurrect
  simp only [ho]
  have : (decide (o.color = .white) || decide (o.color = .whiteWeak)) = true := by
    rcases hd with hd | hd <;> simp [hd]
  simp only [this, if_true]
  split <;> simp [Ctx.grayRemaining]

/-- A resurrected object is queued for tracing at once (gray, on the gray queue), whether or not
    the returned pointer is stored anywhere; the sweep cannot start while it is queued
    (`Micro.toSweep` is enabled only with empty queues), and marking it — with `mark_one`'s
    tri-colour step — blackens it and queues everything it holds. -/
theorem resurrect_queues {a : Arena} (h : Inv a) (hm : a.ctx.phase = .mark) (t : Nat)
    (hs : Safe a.ctx t) :
    PtrMarked (a.ctx.resurrect t) (.strong t) ∧ CInv (a.ctx.resurrect t) a.root a.temps :=
  ⟨(resurrect_spec h.cinv hm hs).2.2, (resurrect_spec h.cinv hm hs).1⟩

theorem sweep_waits_for_queue (c : Ctx) (root : List Slot) (h : c.grayRemaining = true) :
    c.micro root .toSweep = none := by
  simp [Ctx.micro, h]

/-- "Exact if unmutated", general form: in any fully marked state reached from a sleeping state
    satisfying the invariant by collector micro-steps alone — any number of them, *including*
    `mark_one` calls whose `trace` unwinds part-way — an allocated object reports `is_dead`
    exactly when it is not strongly reachable from the root.  (Tightness invariant of
    Proofs/Tight: gray/black ⇒ strongly reachable while no mutator step intervenes.) -/
theorem marked_exact_of_micros {c0 c : Ctx} {root : List Slot} (h0 : CInv c0 root [])
    (hsl : c0.phase = .sleep) (ms : List Micro) (hs : c0.micros root ms = some c)
    (hm : Arena.isMarked c = true) (i : Nat) (o : Obj) (ho : c.heap.get i = some o) :
    isDead c i ↔ ¬ StrongReachC c root i := by
  have hc : CInv c root [] := micros_inv ms h0 hs
  have hph : c.phase = .mark := by
    simp only [Arena.isMarked, Bool.and_eq_true, decide_eq_true_eq] at hm
    exact hm.1
  have T : Tight c root := micros_tight ms h0 (fun hne => absurd hsl hne) hs (by rw [hph]; simp)
  constructor
  · rintro ⟨o1, ho1, hcol⟩ hr
    obtain ⟨o2, ho2, hb⟩ := reachable_black hc hm hr
    rw [ho1] at ho2; cases ho2
    rw [hb] at hcol; rcases hcol with hcol | hcol <;> cases hcol
  · intro hnr
    refine ⟨o, ho, ?_⟩
    cases hcol : o.color with
    | white => exact Or.inl rfl
    | whiteWeak => exact Or.inr rfl
    | gray => exact absurd ((T.tm i o ho).1 (Or.inl hcol)) hnr
    | black => exact absurd ((T.tm i o ho).1 (Or.inr hcol)) hnr

/-- **Exact if unmutated** (proved, statement as originally posed; its last two hypotheses — the
    steps after the wake-up are mark steps, none faulted at slot 0 — turn out not to be needed,
    see `marked_exact_of_micros`). -/
theorem marked_exact :
  ∀ (n : Nat) (pre : List Op) (ms : List Micro) (c : Ctx),
    let a := (Arena.new n).run pre
    a.alive = true → a.cb = none → a.ctx.phase = .sleep →
    a.ctx.micros a.root (.wake :: ms) = some c → Arena.isMarked c = true →
    (∀ m, m ∈ ms → ∃ f, m = .markStep f ∨ m = .markBreak) → (∀ m, m ∈ ms → m ≠ .markStep (some 0)) →
    ∀ i o, c.heap.get i = some o → (isDead c i ↔ ¬ StrongReachC c a.root i) := by
  intro n pre ms c a halive hcb hsl hs hm _ _ i o ho
  have hinv : Inv a := inv_run n pre halive
  have h0 : CInv a.ctx a.root [] := by
    have := hinv.cinv; rw [hinv.cbTemps hcb] at this; exact this
  exact marked_exact_of_micros h0 hsl (.wake :: ms) hs hm i o ho

/-- In a fully marked, tight state `is_dead` is exact. -/
private theorem isDead_iff_of_tight {c : Ctx} {root temps} (hc : CInv c root temps) (T : Tight c root)
    (hm : Arena.isMarked c = true) (i : Nat) (o : Obj) (ho : c.heap.get i = some o) :
    isDead c i ↔ ¬ StrongReachC c root i := by
  constructor
  · rintro ⟨o1, ho1, hcol⟩ hr
    obtain ⟨o2, ho2, hb⟩ := reachable_black hc hm hr
    rw [ho1] at ho2; cases ho2
    rw [hb] at hcol; rcases hcol with hcol | hcol <;> cases hcol
  · intro hnr
    refine ⟨o, ho, ?_⟩
    cases hcol : o.color with
    | white => exact Or.inl rfl
    | whiteWeak => exact Or.inr rfl
    | gray => exact absurd ((T.tm i o ho).1 (Or.inl hcol)) hnr
    | black => exact absurd ((T.tm i o ho).1 (Or.inr hcol)) hnr

/-- **Exact if unmutated, over API histories** (proved).  From any sleeping state an arena can
    reach, run any sequence of collection calls — `mark_debt` with any debt any number of times,
    `finish_marking`, whole cycles, self- or oracle-driven, with faults — interleaved with
    callbacks that only *observe* (`Op.isObserver`: enter / leave of every kind, reads, `downgrade`,
    `upgrade`, `is_dropped`, `is_dead`, pacing and debt knobs; no allocation, store, barrier, root
    replacement or resurrection).  Whenever the arena is then fully marked — a `MarkedArena` would be
    handed out — an allocated object reports `is_dead` exactly when it is not strongly reachable
    from the root; also from inside the `finalize` callback. -/
theorem marked_exact_ops (n : Nat) (pre ops : List Op) :
    let a := (Arena.new n).run pre
    let b := a.run ops
    a.alive = true → a.ctx.phase = .sleep →
    (∀ op, op ∈ ops → op.isObserver = true ∨ op.isMutator = false) →
    b.alive = true → Arena.isMarked b.ctx = true →
    ∀ i o, b.ctx.heap.get i = some o → (isDead b.ctx i ↔ ¬ StrongReach b i) := by
  intro a b halive hsl hops hbal hm i o ho
  have h : Inv a := inv_run n pre halive
  obtain ⟨t, hb⟩ := run_tightOrAsleep ops a h hbal hops (fun hne => absurd hsl hne)
  have hph : b.ctx.phase = .mark := by
    simp only [Arena.isMarked, Bool.and_eq_true, decide_eq_true_eq] at hm
    exact hm.1
  exact isDead_iff_of_tight hb.cinv (t (by rw [hph]; simp)) hm i o ho

/-- **Exact if unmutated, at the API** (proved): on any sleeping state an arena can reach, outside
    callbacks, the self-driven `Arena::finish_marking()` returns `Some(MarkedArena)`, and in the
    arena it hands to `finalize` an allocated object reports `is_dead` exactly when it is not
    strongly reachable from the root. -/
theorem marked_exact_run (n : Nat) (pre : List Op) :
    let a := (Arena.new n).run pre
    a.alive = true → a.cb = none → a.ctx.phase = .sleep →
    let r := a.step (.collect .finishMarking .finalize none none)
    r.2 = "some" ∧ r.1.root = a.root ∧
    ∀ i o, r.1.ctx.heap.get i = some o → (isDead r.1.ctx i ↔ ¬ StrongReach r.1 i) := by
  intro a halive hcb hsl r
  have h : Inv a := inv_run n pre halive
  have h0 := h.cinv0 hcb
  obtain ⟨hctx, hout⟩ := step_finishMarking_ctx h hcb .finalize (by decide)
  have hm := finishMarking_isMarked h0 (root := a.root) (by rw [hsl]; simp)
  have hroot : r.1.root = a.root := (step_collect_rel h _ _ _ _).root
  refine ⟨hout.mpr hm, hroot, ?_⟩
  intro i o ho
  show isDead r.1.ctx i ↔ ¬ StrongReachC r.1.ctx r.1.root i
  rw [hroot]
  rw [hctx] at ho ⊢
  obtain ⟨ms, hms⟩ := doCollection_reaches (ru := .stop) (stop := .fullyMarked) (fault := none) h0
  exact marked_exact_of_micros h0 hsl ms hms hm i o ho

/-- **Resurrection protects for the cycle** (proved): an object that is gray or black in the
    mark phase — in particular one just resurrected (`resurrect_queues`) — is, in every sweep-phase
    state the collector reaches before the cycle's `Sweep → Sleep` switch, allocated, undestructed
    and out of the sweep's reach, whether or not a pointer to it was stored anywhere. -/
theorem resurrect_protects :
  ∀ (a : Arena) (t : Nat) (ms : List Micro) (c : Ctx), Inv a → a.cb = none → a.ctx.phase = .mark →
    (∃ o, a.ctx.heap.get t = some o ∧ (o.color = .gray ∨ o.color = .black)) →
    a.ctx.micros a.root ms = some c → c.phase = .sweep → (∀ m, m ∈ ms → m ≠ .toSleep true ∧ m ≠ .toSleep false) →
    Safe c t := by
  intro a t ms c hinv hcb hp hmk hs hsw hno
  have h0 : CInv a.ctx a.root [] := by
    have := hinv.cinv; rw [hinv.cbTemps hcb] at this; exact this
  have hno' : ∀ m, m ∈ ms → ∀ b, m ≠ .toSleep b := by
    intro m hm b
    cases b
    · exact (hno m hm).2
    · exact (hno m hm).1
  rcases micros_prot ms h0 hs hno' (Or.inl ⟨hp, hmk⟩) with ⟨hpm, _⟩ | ⟨_, hsafe⟩
  · rw [hsw] at hpm; cases hpm
  · exact hsafe

/-- …and so is everything strongly reachable from it in that state (the closure). -/
theorem resurrect_protects_closure (a : Arena) (t : Nat) (ms : List Micro) (c : Ctx) (hinv : Inv a)
    (hcb : a.cb = none) (hp : a.ctx.phase = .mark)
    (hmk : ∃ o, a.ctx.heap.get t = some o ∧ (o.color = .gray ∨ o.color = .black))
    (hs : a.ctx.micros a.root ms = some c) (hsw : c.phase = .sweep)
    (hno : ∀ m, m ∈ ms → m ≠ .toSleep true ∧ m ≠ .toSleep false) :
    ∀ j, AccessibleC c [] [Ptr.strong t] j → Safe c j := by
  have h0 : CInv a.ctx a.root [] := by
    have := hinv.cinv; rw [hinv.cbTemps hcb] at this; exact this
  intro j hj
  exact safe_closure (micros_inv ms h0 hs) (resurrect_protects a t ms c hinv hcb hp hmk hs hsw hno) hj

/-- **Resurrection protects for the cycle, over every history** (proved).  From a mark-phase
    state in which `t` is gray or black — in particular right after `GcWeak::resurrect` — run
    *any* sequence of API operations: further callbacks of every kind (`mutate`, `mutate_root`,
    `finalize`) with any allocations, stores, barriers, upgrades and resurrections, and collection
    calls of every method, self-driven or oracle-driven, with a `trace` unwinding anywhere.  As long
    as the arena exists and the cycle has not been completed (the step log has gained no `'Z'`, the
    `Sweep → Sleep` switch), `t` is allocated, undestructed and out of the running sweep's reach,
    and the collector has logged no event about it. -/
theorem resurrect_protects_run (a : Arena) (t : Nat) (ops : List Op) (hinv : Inv a)
    (hp : a.ctx.phase = .mark)
    (hmk : ∃ o, a.ctx.heap.get t = some o ∧ (o.color = .gray ∨ o.color = .black))
    (halive : (a.run ops).alive = true)
    (hcycle : ∃ new, (a.run ops).ctx.steps = new ++ a.ctx.steps ∧ 'Z' ∉ new) :
    Safe (a.run ops).ctx t ∧ (∃ o, (a.run ops).ctx.heap.get t = some o ∧ o.live = true) ∧
    ∃ evs, (a.run ops).ctx.log = evs ++ a.ctx.log ∧ Event.dropped t ∉ evs ∧ Event.freed t ∉ evs := by
  obtain ⟨new, hnew, hz⟩ := hcycle
  obtain ⟨⟨_, k⟩, hfin⟩ := run_protRel t ops a hinv halive
  obtain ⟨p, evs, hl, hav⟩ := k (zc_eq_of_suffix hnew hz) (Or.inl ⟨hp, hmk⟩)
  have hs : Safe (a.run ops).ctx t := p.safe hfin.cinv
  obtain ⟨o, ho, hlive, _⟩ := hs
  exact ⟨⟨o, ho, hlive, ‹_›⟩, ⟨o, ho, hlive⟩, evs, hl,
    fun hm => hav _ hm rfl, fun hm => hav _ hm rfl⟩

/-- …and so is everything strongly reachable from `t` in the state reached (the closure). -/
theorem resurrect_protects_run_closure (a : Arena) (t : Nat) (ops : List Op) (hinv : Inv a)
    (hp : a.ctx.phase = .mark)
    (hmk : ∃ o, a.ctx.heap.get t = some o ∧ (o.color = .gray ∨ o.color = .black))
    (halive : (a.run ops).alive = true)
    (hcycle : ∃ new, (a.run ops).ctx.steps = new ++ a.ctx.steps ∧ 'Z' ∉ new) :
    ∀ j, AccessibleC (a.run ops).ctx [] [Ptr.strong t] j →
      Safe (a.run ops).ctx j ∧ ∃ o, (a.run ops).ctx.heap.get j = some o ∧ o.live = true := by
  intro j hj
  have hfin := (run_protRel t ops a hinv halive).2
  have hs := safe_closure hfin.cinv (resurrect_protects_run a t ops hinv hp hmk halive hcycle).1 hj
  obtain ⟨o, ho, hl, _⟩ := hs
  exact ⟨⟨o, ho, hl, ‹_›⟩, o, ho, hl⟩

/-! ### Resurrection, composed with protection -/

private theorem resurrect_weak_some {a : Arena} (halive : a.alive = true) (t : Nat)
    (hout : (a.step (.resurrect (.weak t))).2 = "some") :
    a.cb = some .finalize ∧ a.holds (.weak t) = true ∧
    (∃ o, a.ctx.heap.get t = some o ∧ o.live = true) ∧
    (a.step (.resurrect (.weak t))).1.ctx = a.ctx.resurrect t := by
  have hnot : (!a.alive) = false := by rw [halive]; rfl
  unfold Arena.step at hout ⊢
  rw [hnot] at hout ⊢
  simp only [Bool.false_eq_true, if_false, Arena.stepBody] at hout ⊢
  split at hout
  · simp [Arena.bad] at hout
  · rename_i hg
    rw [if_neg hg]
    simp only [Bool.or_eq_true, Bool.not_eq_true', not_or, Bool.not_eq_false, decide_eq_true_eq,
      Decidable.not_not] at hg
    cases ho : a.ctx.heap.get t with
    | none => simp [ho] at hout
    | some o =>
      simp only [ho] at hout ⊢
      cases hl : o.live with
      | false => simp [hl] at hout
      | true =>
        simp only [if_true]
        exact ⟨hg.1, hg.2, ⟨o, rfl, hl⟩, (Arena.push_spec _ _).1⟩

private theorem resurrect_strong_ok {a : Arena} (halive : a.alive = true) (t : Nat)
    (hout : (a.step (.resurrect (.strong t))).2 = "ok") :
    a.cb = some .finalize ∧ a.holds (.strong t) = true ∧
    (a.step (.resurrect (.strong t))).1.ctx = a.ctx.resurrect t := by
  have hnot : (!a.alive) = false := by rw [halive]; rfl
  unfold Arena.step at hout ⊢
  rw [hnot] at hout ⊢
  simp only [Bool.false_eq_true, if_false, Arena.stepBody] at hout ⊢
  split at hout
  · simp [Arena.bad] at hout
  · rename_i hg
    rw [if_neg hg]
    simp only [Bool.or_eq_true, Bool.not_eq_true', not_or, Bool.not_eq_false, decide_eq_true_eq,
      Decidable.not_not] at hg
    exact ⟨hg.1, hg.2, rfl⟩

/-- What the rest of the cycle cannot do to a protected object and its strong closure. -/
def ProtectedThrough (a : Arena) (t : Nat) : Prop :=
  ∀ ops : List Op, (a.run ops).alive = true →
    (∃ new, (a.run ops).ctx.steps = new ++ a.ctx.steps ∧ 'Z' ∉ new) →
    (∀ j, AccessibleC (a.run ops).ctx [] [Ptr.strong t] j →
      Safe (a.run ops).ctx j ∧ ∃ o, (a.run ops).ctx.heap.get j = some o ∧ o.live = true) ∧
    ∃ evs, (a.run ops).ctx.log = evs ++ a.ctx.log ∧ Event.dropped t ∉ evs ∧ Event.freed t ∉ evs

private theorem protectedThrough_of_marked {a : Arena} (hinv : Inv a) (hp : a.ctx.phase = .mark) {t : Nat}
    (hmk : PtrMarked a.ctx (.strong t)) : ProtectedThrough a t := by
  intro ops hal hcycle
  exact ⟨resurrect_protects_run_closure a t ops hinv hp hmk hal hcycle,
    (resurrect_protects_run a t ops hinv hp hmk hal hcycle).2.2⟩

/-- **Resurrection, then protection — in one statement.**  On any state an arena can reach: if
    `GcWeak::resurrect` on the weak pointer to `t` returns `Some` (the guard exactly as `Arena.step`
    decides it: inside a `finalize` callback, the pointer is held, the target is allocated and
    undestructed), then through *every* continuation `ops` of the history — the rest of the
    finalizer, further callbacks of every kind with any mutation, whether or not the pointer is ever
    stored, collection calls of every method including the sweep of this cycle — for as long as the
    arena exists and the cycle has not been completed (no new `'Z'` in the step log): `t` and
    everything strongly reachable from `t` is allocated, undestructed and out of the sweep's reach,
    and no `dropped` / `freed` event about `t` has been logged.  The closure is taken **in the state
    reached** (`AccessibleC (r.1.run ops).ctx [] [strong t] j`: `j` is `t` or reachable from `t`
    through `Gc` pointers as the heap is *then* — what the mutator has unlinked from `t` meanwhile is
    not covered, what it has linked under `t` is).  The first conjunct is `ProtectedThrough r.1 t`
    written out.  Also: the arena reports Marking right after the call if `t` was dead. -/
theorem resurrect_then_protected (n : Nat) (pre : List Op) (t : Nat) :
    let a := (Arena.new n).run pre
    let r := a.step (.resurrect (.weak t))
    a.alive = true → r.2 = "some" →
    (∀ ops : List Op, (r.1.run ops).alive = true →
      (∃ new, (r.1.run ops).ctx.steps = new ++ r.1.ctx.steps ∧ 'Z' ∉ new) →
      (∀ j, AccessibleC (r.1.run ops).ctx [] [Ptr.strong t] j →
        Safe (r.1.run ops).ctx j ∧ ∃ o, (r.1.run ops).ctx.heap.get j = some o ∧ o.live = true) ∧
      ∃ evs, (r.1.run ops).ctx.log = evs ++ r.1.ctx.log ∧ Event.dropped t ∉ evs ∧ Event.freed t ∉ evs) ∧
    (isDead a.ctx t → r.1.collectionPhase = "Marking") := by
  intro a r halive hout
  have h : Inv a := inv_run n pre halive
  obtain ⟨hcb, hh, ⟨o, ho, hl⟩, hctx⟩ := resurrect_weak_some halive t hout
  have hmark : a.ctx.phase = .mark := h.finMark hcb
  have hs : Safe a.ctx t := ⟨o, ho, hl, fun hp => by rw [hmark] at hp; cases hp⟩
  obtain ⟨_, mm, hmk⟩ := resurrect_spec h.cinv hmark hs
  have hal1 : r.1.alive = true := by
    have hnot : (!a.alive) = false := by rw [halive]; rfl
    show (a.step (.resurrect (.weak t))).1.alive = true
    unfold Arena.step; rw [hnot]
    simp only [Bool.false_eq_true, if_false, Arena.stepBody]
    split
    · exact halive
    · simp only [ho, hl, if_true]
      rw [(Arena.push_spec _ _).2.2.2.2.2.1]; exact halive
  have h1 : Inv r.1 := inv_step h _ hal1
  refine ⟨protectedThrough_of_marked h1 (by rw [hctx, mm.phase]; exact hmark) (by rw [hctx]; exact hmk), ?_⟩
  rintro ⟨o', ho', hd⟩
  rw [ho] at ho'; cases ho'
  have hg := resurrect_marking a.ctx t o ho hd
  show r.1.collectionPhase = "Marking"
  unfold Arena.collectionPhase
  rw [hctx, mm.phase, hmark]
  simp [hg]

/-- The same for `Gc::resurrect` on a held strong pointer (it returns nothing; accepted ⇔ inside
    `finalize` with the pointer held). -/
theorem resurrect_strong_then_protected (n : Nat) (pre : List Op) (t : Nat) :
    let a := (Arena.new n).run pre
    let r := a.step (.resurrect (.strong t))
    a.alive = true → r.2 = "ok" → ProtectedThrough r.1 t := by
  intro a r halive hout
  have h : Inv a := inv_run n pre halive
  obtain ⟨hcb, hh, hctx⟩ := resurrect_strong_ok halive t hout
  have hmark : a.ctx.phase = .mark := h.finMark hcb
  have hs : Safe a.ctx t := h.ptrOK_of_holds hh
  obtain ⟨_, mm, hmk⟩ := resurrect_spec h.cinv hmark hs
  have hal1 : r.1.alive = true := by
    have hnot : (!a.alive) = false := by rw [halive]; rfl
    show (a.step (.resurrect (.strong t))).1.alive = true
    unfold Arena.step; rw [hnot]
    simp only [Bool.false_eq_true, if_false, Arena.stepBody]
    split <;> exact halive
  have h1 : Inv r.1 := inv_step h _ hal1
  exact protectedThrough_of_marked h1 (by rw [hctx, mm.phase]; exact hmark) (by rw [hctx]; exact hmk)

/-! ### Non-vacuity -/

/-- root → 0; object 1 unreachable but weakly held by 0.  Fully marked: `is_dead(1)`; resurrect it:
    the arena reports Marking. -/
def demo : List Op := [
  .enter .mutateRoot, .alloc true [none], .alloc true [none], .downgrade 1,
  .store .write 0 0 (some (.weak 1)), .rootStore 0 (some (.strong 0)), .leave,
  .collect .finishMarking .finalize none (some [.wake, .markStep none, .markStep none, .markBreak]),
  .enter .finalize, .readRoot 0, .read 0 0, .isDead (.weak 1), .resurrect (.weak 1) ]

example : ((Arena.new 2).run demo).alive = true := by decide
example : Arena.isMarked ((Arena.new 2).run (demo.take 8)).ctx = true := by decide
example : (((Arena.new 2).run (demo.take 11)).step (.isDead (.weak 1))).2 = "true" := by decide
example : ((Arena.new 2).run demo).collectionPhase = "Marking" := by decide

/-! ### Non-vacuity of `marked_exact` and `resurrect_protects` -/

/-- The state of `demo` before the collection call (asleep, outside callbacks). -/
def sleeping : Arena := (Arena.new 2).run (demo.take 7)

def markSteps : List Micro := [.markStep none, .markStep none, .markBreak]

theorem sleeping_marks : (sleeping.ctx.micros sleeping.root (.wake :: markSteps)).isSome = true := by decide

/-- The fully marked state the micro-steps lead to. -/
def markedCtx : Ctx := (sleeping.ctx.micros sleeping.root (.wake :: markSteps)).get sleeping_marks

/-- All hypotheses of `marked_exact` hold for `demo`; its conclusion then says: the unreachable,
    weakly held object 1 reports dead, the reachable object 0 does not. -/
example : isDead markedCtx 1 ∧ ¬ isDead markedCtx 0 := by
  have hroot : sleeping.root = [some (.strong 0), none] := by decide
  have h0 : markedCtx.heap.get 0 = some ⟨.black, true, true, [some (.weak 1)]⟩ := by decide
  have h1 : markedCtx.heap.get 1 = some ⟨.whiteWeak, true, true, [none]⟩ := by decide
  have reach : ∀ j, StrongReachC markedCtx sleeping.root j → j = 0 := by
    intro j hj
    induction hj with
    | root t ht => rw [hroot] at ht; simpa using ht
    | temp t ht => cases ht
    | edge i t _ e ih =>
      subst ih
      obtain ⟨o, ho, hs⟩ := e
      rw [h0] at ho; cases ho
      simp at hs
  have hms : ∀ m, m ∈ markSteps → ∃ f, m = Micro.markStep f ∨ m = Micro.markBreak := by
    intro m hm
    simp only [markSteps, List.mem_cons, List.not_mem_nil, or_false] at hm
    rcases hm with rfl | rfl | rfl
    · exact ⟨none, Or.inl rfl⟩
    · exact ⟨none, Or.inl rfl⟩
    · exact ⟨none, Or.inr rfl⟩
  have key := marked_exact 2 (demo.take 7) markSteps markedCtx (by decide) (by decide) (by decide)
    (Option.some_get sleeping_marks).symm (by decide) hms (by decide)
  refine ⟨(key 1 _ h1).mpr (fun hr => by cases reach 1 hr), fun hd => (key 0 _ h0).mp hd ?_⟩
  exact .root 0 (by decide)

/-- `demo` continued: the finalizer callback returns *without storing* the resurrected pointer. -/
def resurrected : Arena := (Arena.new 2).run (demo ++ [.leave])

def toSweepSteps : List Micro := [.markStep none, .markBreak, .toSweep]

theorem resurrected_sweeps :
    (resurrected.ctx.micros resurrected.root toSweepSteps).isSome = true := by decide

def sweepingCtx : Ctx := (resurrected.ctx.micros resurrected.root toSweepSteps).get resurrected_sweeps

/-- All hypotheses of `resurrect_protects` hold: object 1 was resurrected (it is gray), it is
    still not strongly reachable from the root, and yet the sweep that follows will not touch it. -/
example : Safe sweepingCtx 1 := by
  have hinv : Inv resurrected := by
    unfold resurrected
    exact inv_run 2 _ (by decide)
  have hgray : resurrected.ctx.heap.get 1 = some ⟨.gray, true, true, [none]⟩ := by decide
  exact resurrect_protects resurrected 1 toSweepSteps sweepingCtx hinv (by decide) (by decide)
    ⟨_, hgray, Or.inl rfl⟩ (Option.some_get resurrected_sweeps).symm (by decide) (by decide)

/-- Object 1 is indeed not strongly reachable there (the root holds 0, which holds 1 only weakly). -/
example : ¬ StrongReachC sweepingCtx resurrected.root 1 := by
  have hroot : resurrected.root = [some (.strong 0), none] := by decide
  have h0 : sweepingCtx.heap.get 0 = some ⟨.black, true, true, [some (.weak 1)]⟩ := by decide
  have reach : ∀ j, StrongReachC sweepingCtx resurrected.root j → j = 0 := by
    intro j hj
    induction hj with
    | root t ht => rw [hroot] at ht; simpa using ht
    | temp t ht => cases ht
    | edge i t _ e ih =>
      subst ih
      obtain ⟨o, ho, hs⟩ := e
      rw [h0] at ho; cases ho
      simp at hs
  intro hr
  cases reach 1 hr

/-! ### Non-vacuity of `marked_exact_run` and `resurrect_protects_run` -/

example : (sleeping.step (.collect .finishMarking .finalize none none)).2 = "some" :=
  (marked_exact_run 2 (demo.take 7) (by decide) (by decide) (by decide)).1

/-- `demo` ends inside the finalizer callback, right after `resurrect(weak 1)`: object 1 is gray. -/
def afterRes : Arena := (Arena.new 2).run demo

/-- What follows the resurrection: the finalizer callback returns without storing the pointer; a
    `mutate` callback allocates, *removes* the only (weak) pointer to object 1 and stores the new
    object instead; `finish_marking` (self-driven) completes the marking and the client starts the
    sweep; two sweep steps pass the new object and object 1. -/
def laterOps : List Op := [
  .leave, .enter .mutate, .alloc true [none], .readRoot 0, .store .write 0 0 none,
  .store .write 0 0 (some (.strong 2)), .leave,
  .collect .finishMarking .sweep none none,
  .collect .collectDebt .drop none (some [.sweepStep, .sweepStep]) ]

/-- All hypotheses of `resurrect_protects_run` hold for this history (the cycle is not completed:
    the new step-log entries are `g g g b b S x x`, oldest first), so object 1 — named by no pointer
    anywhere any more — has been passed by the sweep and kept, undestructed. -/
example : Safe (afterRes.run laterOps).ctx 1 ∧
    (∃ o, (afterRes.run laterOps).ctx.heap.get 1 = some o ∧ o.live = true) ∧
    ∃ evs, (afterRes.run laterOps).ctx.log = evs ++ afterRes.ctx.log ∧
      Event.dropped 1 ∉ evs ∧ Event.freed 1 ∉ evs := by
  have hinv : Inv afterRes := by
    unfold afterRes
    exact inv_run 2 _ (by decide)
  have hgray : afterRes.ctx.heap.get 1 = some ⟨.gray, true, true, [none]⟩ := by decide
  exact resurrect_protects_run afterRes 1 laterOps hinv (by decide) ⟨_, hgray, Or.inl rfl⟩ (by decide)
    ⟨['x', 'x', 'S', 'b', 'b', 'g', 'g', 'g'], by decide, by decide⟩

example : (afterRes.run laterOps).ctx.phase = .sweep ∧ (afterRes.run laterOps).ctx.pre = [2, 1] ∧
    (afterRes.run laterOps).ctx.rest = [0] := by decide

/-! ### Non-vacuity of `resurrect_then_protected` and `marked_exact_ops` -/

/-- `demo.take 12` is the state right before the `resurrect` op of `demo`; the op returns `some`,
    and through `laterOps` (mutation, marking, sweep — see above) object 1 stays safe. -/
example : Safe ((((Arena.new 2).run (demo.take 12)).step (.resurrect (.weak 1))).1.run laterOps).ctx 1 :=
  (((resurrect_then_protected 2 (demo.take 12) 1 (by decide) (by decide)).1 laterOps (by decide)
    ⟨['x', 'x', 'S', 'b', 'b', 'g', 'g', 'g'], by decide, by decide⟩).1 1 (.temp 1 (by simp))).1

/-- Marking in three `mark_debt`-style increments (oracle-driven) with a reading callback in
    between, then inside `finalize`: `is_dead` is exact there. -/
def incrementalMarking : List Op := [
  .collect .markDebt .drop none (some [.wake, .markStep none]),
  .enter .mutate, .readRoot 0, .read 0 0, .leave,
  .collect .markDebt .drop none (some [.markStep none]),
  .collect .markDebt .finalize none (some [.markBreak]),
  .enter .finalize, .readRoot 0, .read 0 0 ]

example : isDead (sleeping.run incrementalMarking).ctx 1 := by
  unfold sleeping
  have key := marked_exact_ops 2 (demo.take 7) incrementalMarking (by decide) (by decide) (by decide)
    (by decide) (by decide) 1 ⟨.whiteWeak, true, true, [none]⟩ (by decide)
  refine key.mpr ?_
  intro hr
  have hroot : (((Arena.new 2).run (demo.take 7)).run incrementalMarking).root = [some (.strong 0), none] := by
    decide
  have h0 : (((Arena.new 2).run (demo.take 7)).run incrementalMarking).ctx.heap.get 0 =
      some ⟨.black, true, true, [some (.weak 1)]⟩ := by decide
  have reach : ∀ j, StrongReach (((Arena.new 2).run (demo.take 7)).run incrementalMarking) j → j = 0 := by
    intro j hj
    induction hj with
    | root t ht => rw [hroot] at ht; simpa using ht
    | temp t ht => cases ht
    | edge i t _ e ih =>
      subst ih
      obtain ⟨o, ho, hs⟩ := e
      rw [h0] at ho; cases ho
      simp at hs
  cases reach 1 hr

end GcArena.C07
