import GcArena.Proofs.LogRun
/-!
# C05 — Weak pointers: upgrade is safe, never spuriously fails, never keeps values alive

`Ctx.upgrade` mirrors `Context::upgrade` (src/context.rs).  A weak pointer a client can present
is one it holds (`Ptr.weak t ∈ a.temps`: downgraded from a pointer it held, or read out of an
accessible object / the root).
-/
namespace GcArena.C05

open GcArena

/-- A successful upgrade yields a value that is allocated, undestructed and that the collection in
    progress will not destruct: the result can be used and stored like any other `Gc` (it enters
    `temps`, so C01 applies to it and to everything it is then stored in). -/
theorem upgrade_sound {a : Arena} (h : Inv a) (t : Nat) (hw : Ptr.weak t ∈ a.temps)
    (hu : (a.ctx.upgrade t).2 = true) : Safe a.ctx t :=
  safe_of_upgrade (h.cinv.tempsOK _ hw) hu

/-- Upgrade always succeeds for a target the client could also name strongly, in every phase. -/
theorem upgrade_complete {a : Arena} (h : Inv a) (t : Nat) (hacc : Accessible a t) :
    (a.ctx.upgrade t).2 = true := by
  obtain ⟨o, ho, hl, hb⟩ := h.safe_of_accessible hacc
  unfold Ctx.upgrade
  simp only [ho, hl, Bool.not_true, Bool.false_eq_true, if_false]
  split
  · rename_i hc
    simp only [Bool.and_eq_true, decide_eq_true_eq] at hc
    exfalso
    by_cases hm : t ∈ a.ctx.rest
    · have := hb hc.1 hm; rw [hc.2] at this; cases this
    · have hmem : t ∈ a.ctx.pre := by
        have := (h.cinv.memAll t).mpr ⟨o, ho⟩
        rw [List.mem_append] at this
        rcases this with h1 | h1
        · exact h1
        · exact absurd h1 hm
      have := h.cinv.preWhite hc.1 t hmem o ho
      rw [hc.2] at this; cases this
  · rfl

/-- Upgrade fails only when the target has been destructed or the arena is Sweeping. -/
theorem upgrade_fails_only (c : Ctx) (t : Nat) (o : Obj) (ho : c.heap.get t = some o)
    (hu : (c.upgrade t).2 = false) : o.live = false ∨ c.phase = .sweep := by
  unfold Ctx.upgrade at hu
  simp only [ho] at hu
  cases hl : o.live with
  | false => exact Or.inl rfl
  | true =>
    simp only [hl, Bool.not_true, Bool.false_eq_true, if_false] at hu
    split at hu
    · rename_i hc
      simp only [Bool.and_eq_true, decide_eq_true_eq] at hc
      exact Or.inr hc.1
    · cases hu

/-- Every weak pointer the client can get hold of — held by the callback, by the root, or stored
    in an object it can name — refers to an allocated block in every phase, so `upgrade`,
    `is_dropped` and `is_dead` read a live header and never released memory. -/
theorem query_safe {a : Arena} (h : Inv a) (t : Nat)
    (hw : Ptr.weak t ∈ a.temps ∨ some (Ptr.weak t) ∈ a.root ∨
      ∃ i o, Accessible a i ∧ a.ctx.heap.get i = some o ∧ some (Ptr.weak t) ∈ o.slots) :
    ∃ o, a.ctx.heap.get t = some o := by
  have : WeakOK a.ctx t := by
    rcases hw with hw | hw | ⟨i, o, hacc, ho, hs⟩
    · exact h.cinv.tempsOK _ hw
    · exact h.cinv.rootOK _ hw
    · exact h.cinv.closed i o ho (h.safe_of_accessible hacc) _ hs
  obtain ⟨o, ho, _⟩ := this
  exact ⟨o, ho⟩

/-- … and the upgrade / is_dropped queries themselves never fault, for every history. -/
theorem queries_never_fault (n : Nat) (ops : List Op) (halive : ((Arena.new n).run ops).alive = true) :
    ((Arena.new n).run ops).ctx.err = none :=
  (inv_run n ops halive).cinv.noErr

/-- During a sweep, a weakly held target that the sweep has condemned (still behind the cursor
    and only weakly marked) refuses to upgrade; one the sweep has already passed or that was
    allocated during the sweep upgrades. -/
theorem upgrade_condemned_fails (c : Ctx) (t : Nat) (o : Obj) (ho : c.heap.get t = some o)
    (hp : c.phase = .sweep) (hc : o.color = .whiteWeak) : (c.upgrade t).2 = false := by
  unfold Ctx.upgrade
  simp only [ho]
  split
  · rfl
  · simp [hp, hc]

private theorem run_append (a : Arena) (o1 o2 : List Op) : a.run (o1 ++ o2) = (a.run o1).run o2 := by
  induction o1 generalizing a with
  | nil => rfl
  | cons op o1 ih => simp only [List.cons_append, Arena.run]; exact ih _

/-- `is_dropped` reports exactly whether the target's destructor has run … -/
theorem is_dropped_exact (n : Nat) (ops : List Op) (i : Nat) (o : Obj)
    (ho : ((Arena.new n).run ops).ctx.heap.get i = some o) :
    o.live = false ↔ Event.dropped i ∈ ((Arena.new n).run ops).ctx.log :=
  ⟨(linv_run n ops).deadDropped i o ho, fun h => (linv_run n ops).droppedDead i h o ho⟩

/-- … and never reverts: once destructed, whatever happens later, any block still allocated under
    that id has its `live` flag clear. -/
theorem is_dropped_never_reverts (n : Nat) (ops later : List Op) (i : Nat)
    (h : Event.dropped i ∈ ((Arena.new n).run ops).ctx.log) (o : Obj)
    (ho : ((Arena.new n).run (ops ++ later)).ctx.heap.get i = some o) : o.live = false := by
  have hext : LogExtends ((Arena.new n).run ops).ctx ((Arena.new n).run (ops ++ later)).ctx := by
    rw [run_append]
    exact run_log_extends later _ (fun hal => inv_run n ops hal)
  obtain ⟨evs, he⟩ := hext
  exact (linv_run n (ops ++ later)).droppedDead i (by rw [he]; exact List.mem_append_right _ h) o ho

/-! ### The `upgrade` operation itself, over whole histories -/

private theorem stepBody_upgrade (b : Arena) (fin : Bool) (w : Nat) (hn : b.cb.isNone = false)
    (hw : b.holds (.weak w) = true) :
    (b.stepBody fin (.upgrade w)) =
      (if (b.ctx.upgrade w).2 then (({ b with ctx := (b.ctx.upgrade w).1 } : Arena).push (.strong w), "some")
       else (({ b with ctx := (b.ctx.upgrade w).1 } : Arena), "none")) := by
  simp only [Arena.stepBody, hn, hw, Bool.not_true, Bool.or_self, Bool.false_eq_true, if_false]

/-- What the `upgrade` *operation* answers in a reachable state, when a callback is running and
    holds the weak pointer: exactly the verdict of `Ctx.upgrade`. -/
theorem upgrade_op_answer {a : Arena} (h : Inv a) (w : Nat) (hcb : a.cb.isSome = true)
    (hw : a.holds (.weak w) = true) :
    (a.step (.upgrade w)).2 = (if (a.ctx.upgrade w).2 then "some" else "none") := by
  have hn : a.cb.isNone = false := by cases hc : a.cb <;> simp_all
  unfold Arena.step
  simp only [h.alive, Bool.not_true, Bool.false_eq_true, if_false]
  rw [stepBody_upgrade { a with marked := false, alive := true } _ w hn hw]
  split <;> rfl

/-- **Never spuriously fails, at the API level and over whole histories**: after any history, an
    `upgrade` call made by the running callback on a weak pointer it holds, whose target it could
    also name strongly (held, in the root, or reachable through strong edges), answers `Some` —
    in every phase, whatever the debt and the queues. -/
theorem upgrade_op_never_spuriously_fails_run (n : Nat) (ops : List Op) (w : Nat)
    (halive : ((Arena.new n).run ops).alive = true)
    (hcb : ((Arena.new n).run ops).cb.isSome = true)
    (hw : ((Arena.new n).run ops).holds (.weak w) = true)
    (hacc : Accessible ((Arena.new n).run ops) w) :
    (((Arena.new n).run ops).step (.upgrade w)).2 = "some" := by
  have h := inv_run n ops halive
  rw [upgrade_op_answer h w hcb hw, upgrade_complete h w hacc]; rfl

/-- **Fails only when destructed or Sweeping, at the API level**: if the call answers `None`, the
    target's block is still allocated (the query touched no released memory) and either its
    destructor has run (a `dropped` event is in the log) or the arena is in its sweep phase. -/
theorem upgrade_op_fails_only_run (n : Nat) (ops : List Op) (w : Nat)
    (halive : ((Arena.new n).run ops).alive = true)
    (hcb : ((Arena.new n).run ops).cb.isSome = true)
    (hw : ((Arena.new n).run ops).holds (.weak w) = true)
    (hnone : (((Arena.new n).run ops).step (.upgrade w)).2 = "none") :
    ∃ o, ((Arena.new n).run ops).ctx.heap.get w = some o ∧
      (Event.dropped w ∈ ((Arena.new n).run ops).ctx.log ∨
        ((Arena.new n).run ops).ctx.phase = .sweep) := by
  have h := inv_run n ops halive
  have hmem : Ptr.weak w ∈ ((Arena.new n).run ops).temps := by
    simpa [Arena.holds] using hw
  obtain ⟨o, ho⟩ := query_safe h w (Or.inl hmem)
  refine ⟨o, ho, ?_⟩
  rw [upgrade_op_answer h w hcb hw] at hnone
  have hu : (((Arena.new n).run ops).ctx.upgrade w).2 = false := by
    cases hx : (((Arena.new n).run ops).ctx.upgrade w).2 with
    | false => rfl
    | true => rw [hx] at hnone; simp at hnone
  rcases upgrade_fails_only _ w o ho hu with hl | hp
  · exact Or.inl ((is_dropped_exact n ops w o ho).mp hl)
  · exact Or.inr hp

/-- **The result may be used and stored like any other `Gc`**: after a call that answered `Some`
    the callback holds the strong pointer, and its target is `Safe` — allocated, undestructed and
    not condemned by the sweep in progress; from here on `C01.safety` / `C03.held_until_callback_returns`
    apply to it like to any other held pointer. -/
theorem upgraded_pointer_is_safe_run (n : Nat) (ops : List Op) (w : Nat)
    (halive : ((Arena.new n).run ops).alive = true)
    (hcb : ((Arena.new n).run ops).cb.isSome = true)
    (hw : ((Arena.new n).run ops).holds (.weak w) = true)
    (hsome : (((Arena.new n).run ops).step (.upgrade w)).2 = "some") :
    Ptr.strong w ∈ (((Arena.new n).run ops).step (.upgrade w)).1.temps ∧
    Safe (((Arena.new n).run ops).step (.upgrade w)).1.ctx w := by
  have h := inv_run n ops halive
  have hn : ((Arena.new n).run ops).cb.isNone = false := by
    cases hc : ((Arena.new n).run ops).cb <;> simp_all
  have hu : (((Arena.new n).run ops).ctx.upgrade w).2 = true := by
    rw [upgrade_op_answer h w hcb hw] at hsome
    cases hx : (((Arena.new n).run ops).ctx.upgrade w).2 with
    | true => rfl
    | false => rw [hx] at hsome; simp at hsome
  have hal' : (((Arena.new n).run ops).step (.upgrade w)).1.alive = true := by
    unfold Arena.step
    simp only [h.alive, Bool.not_true, Bool.false_eq_true, if_false]
    rw [stepBody_upgrade { ((Arena.new n).run ops) with marked := false, alive := true } _ w hn hw, hu]
    simp only [if_true]
    unfold Arena.push; split <;> rfl
  have h' := inv_step h (.upgrade w) hal'
  have hmem : Ptr.strong w ∈ (((Arena.new n).run ops).step (.upgrade w)).1.temps := by
    unfold Arena.step
    simp only [h.alive, Bool.not_true, Bool.false_eq_true, if_false]
    rw [stepBody_upgrade { ((Arena.new n).run ops) with marked := false, alive := true } _ w hn hw, hu]
    simp only [if_true]
    unfold Arena.push
    split
    · rename_i hh; simpa [Arena.holds] using hh
    · simp
  exact ⟨hmem, h'.cinv.tempsOK _ hmem⟩
/-! "A weak pointer never keeps its target alive" is `C02.exactness` (proved: reachability there is
    strong reachability only, so a target held only weakly is destructed by two `finish_cycle`
    calls) together with `C02.shells` / `C02.shell_release` for its shell. -/

/-! ### Non-vacuity -/

/-- root holds weak → 0 and strong → 1; object 0 otherwise unreferenced.  After a full mark and the
    start of the sweep, 0 is condemned (white-weak): upgrade fails while `is_dropped` is still false. -/
def demo : List Op := [
  .enter .mutateRoot, .alloc true [none], .alloc true [none], .downgrade 0,
  .rootStore 0 (some (.weak 0)), .rootStore 1 (some (.strong 1)), .leave,
  .collect .finishMarking .sweep none (some [.wake, .markStep none, .markStep none, .markBreak, .toSweep]),
  .enter .mutate, .readRoot 0, .upgrade 0, .isDropped 0 ]

example : ((Arena.new 2).run demo).alive = true := by decide
example : ((Arena.new 2).run demo).ctx.phase = .sweep := by decide
example : (((Arena.new 2).run demo).ctx.upgrade 0).2 = false := by decide
example : (((Arena.new 2).run demo).ctx.upgrade 1).2 = true := by decide
example : Ptr.weak 0 ∈ ((Arena.new 2).run demo).temps := by decide

/-- The API-level theorems are not vacuous: in the demo state a callback is running and holds the
    weak pointer; the call answers `None` in the sweep phase (`upgrade_op_fails_only_run`), and one
    step earlier in the history (before `upgrade 0`) the premises of the theorems hold too. -/
example : ((Arena.new 2).run demo).cb.isSome = true := by decide
example : ((Arena.new 2).run demo).holds (.weak 0) = true := by decide
example : (((Arena.new 2).run demo).step (.upgrade 0)).2 = "none" := by decide
/-- `some` branch: a weak pointer to the strongly held object 1, upgraded during the sweep. -/
example : (((Arena.new 2).run (demo ++ [.readRoot 1, .downgrade 1])).step (.upgrade 1)).2 = "some" := by
  decide

end GcArena.C05
