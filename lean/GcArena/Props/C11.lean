import GcArena.Proofs.Quiet
import GcArena.Props.C18
import GcArena.Props.C01
import GcArena.Props.C02
import GcArena.Props.C04
/-!
# C11 — Panic safety: a panic at any point leaves the arena consistent and usable

Fault steps are ordinary members of `Op`: `collect m k (some (k, j)) …` — the `k`-th `trace` call
of that collection call unwinds after reporting `j` slots (the `DropGuard` of `mark_one` re-queues
the object; the root stays flagged) — and `leave` at any point of a callback (a callback that
panics: the prefix of its effects stays).  `inv_run` quantifies over all operation sequences, so it
already covers every fault position in every schedule, repeated faults included; C01–C05 are
corollaries of the same invariant and hence hold on the continued history.

The builder clause ("an element constructor passed to a slice builder panics at any index … an
abandoned builder destructs exactly the parts that were initialised") is about the builder state
machine `GcArena.Model.Builder` (C18's model): `builder_fault_at_every_index`,
`builder_abandoned_leaves_arena`, `repeated_builder_faults` at the end of this file; its tie to
the code is the fault-sequence subset of the layout harness (`harness_layout --prop C11`,
lib/eng_layout.py): repeated builder faults on one arena, each step compared with `layoutmodel`,
the arena probed for usability after every caught unwind.
-/
namespace GcArena.C11

open GcArena

/-- A `trace` that unwinds at any call `k`, after any number `j` of slots, in any collection
    method, preserves the invariant. -/
theorem trace_fault_preserves_inv {a : Arena} (h : Inv a) (m : Method) (k : Cont) (kj : Nat × Nat)
    (oracle : Option (List Micro)) :
    Inv (a.step (.collect m k (some kj) oracle)).1 := by
  apply inv_step h
  have hnot : (!a.alive) = false := by rw [h.alive]; rfl
  unfold Arena.step; rw [hnot]
  simp only [Bool.false_eq_true, if_false, Arena.stepBody]
  split
  · exact h.alive
  · split
    · exact h.alive
    · split
      · exact h.alive
      · split
        · exact h.alive
        · cases m <;> simp only [Arena.marked?] <;> (try exact h.alive) <;>
            (split <;> (try exact h.alive) <;> cases k <;> simp only <;> (try exact h.alive) <;>
              split <;> exact h.alive)

/-- One `mark_one` whose `trace` unwinds after `j` slots — of an object or of the root — preserves
    the invariant, releases nothing, and leaves the phase alone. -/
theorem mark_one_fault {c : Ctx} {root temps} (h : CInv c root temps) (hm : c.phase = .mark) (j : Nat) :
    CInv (c.markOne root (some j)).1 root temps ∧ (c.markOne root (some j)).1.log = c.log ∧
    (c.markOne root (some j)).1.phase = .mark :=
  ⟨(markOne_spec h hm (some j)).1, (markOne_spec h hm (some j)).2.log,
   (markOne_spec h hm (some j)).2.phase.trans hm⟩

/-- If the root's `trace` unwinds, the root stays flagged for tracing. -/
theorem root_fault_keeps_flag (c : Ctx) (root : List Slot) (j : Nat) (hg : c.gray = [])
    (hga : c.grayAgain = []) (hr : c.rootNeedsTrace = true) (hinv : CInv c root []) (hm : c.phase = .mark) :
    (c.markOne root (some j)).1.rootNeedsTrace = true ∧ (c.markOne root (some j)).2 = .unwind := by
  unfold Ctx.markOne
  simp only [hg, hga, hr, if_true]
  have hs : CInv (c.step 'r') root [] := hinv.sameView (sameView_step c 'r')
  obtain ⟨_, m3, _, _⟩ := traceSlots_spec (root.take j) hs (show (c.step 'r').phase = .mark from hm)
    (fun p hp => hs.rootOK p (List.mem_of_mem_take hp))
  exact ⟨m3.rnt.trans hr, trivial⟩

/-- A callback that panics at any point (the prefix of its operations, then `leave`) preserves the
    invariant: every sanctioned store path is barrier-before-store or an atomic store+barrier, so
    there is no point inside a callback at which the invariant is broken.
    NB: this is `inv_run` verbatim — `body` is unconstrained, so it is any prefix of any callback of
    any kind (`.enter k` is simply a member of `pre`), and "panic" is nothing but "the callback ends
    here".  What the property asks of the state after the unwind is spelled out below:
    `after_unwind_continues` (C01, C03–C05 on every continuation), `after_unwind_exact_reclamation`
    (C02), `failed_ctor_is_drop_arena` (the drop after a failed owning callback), `after_trace_fault_continues` /
    `after_trace_fault_exact_reclamation` (after a `trace` that unwound). -/
theorem callback_panic_preserves_inv (n : Nat) (pre body : List Op)
    (halive : ((Arena.new n).run (pre ++ body ++ [.leave])).alive = true) :
    Inv ((Arena.new n).run (pre ++ body ++ [.leave])) :=
  inv_run n _ halive

/-- Repeated faults, in any schedule. -/
theorem repeated_faults (n : Nat) (ops : List Op) (halive : ((Arena.new n).run ops).alive = true) :
    Inv ((Arena.new n).run ops) ∧ ((Arena.new n).run ops).ctx.err = none :=
  ⟨inv_run n ops halive, (inv_run n ops halive).cinv.noErr⟩

/-- No reachable value is lost across faults: C01 on the continued history. -/
theorem reachable_survives_faults (n : Nat) (ops : List Op)
    (halive : ((Arena.new n).run ops).alive = true) (i : Nat)
    (hi : Accessible ((Arena.new n).run ops) i) :
    ∃ o, ((Arena.new n).run ops).ctx.heap.get i = some o ∧ o.live = true := by
  obtain ⟨o, ho, hl, _⟩ := (inv_run n ops halive).safe_of_accessible hi
  exact ⟨o, ho, hl⟩

/-! ### After the unwind: C01–C05 on the continued history, and failed owning callbacks -/

private theorem run_append (a : Arena) (o1 o2 : List Op) : a.run (o1 ++ o2) = (a.run o1).run o2 := by
  induction o1 generalizing a with
  | nil => rfl
  | cons op o1 ih => simp only [List.cons_append, Arena.run]; exact ih _

private theorem cb_after_leave (b : Arena) (hal : (b.step .leave).1.alive = true) :
    (b.step .leave).1.cb = none := by
  unfold Arena.step at hal ⊢
  split
  · rename_i hd
    rw [if_pos hd] at hal
    simp only [Arena.bad] at hal
    simp [hal] at hd
  · simp only [Arena.stepBody]
    split
    · rename_i hn
      simp only [Arena.bad]
      cases hc : b.cb with
      | none => rfl
      | some k => simp [hc] at hn
    · rfl

/-- The state right after a callback of kind `k` unwound having performed `body` (any operations a
    callback can perform — also none, also rejected ones). -/
def afterUnwind (n : Nat) (pre : List Op) (k : CbKind) (body : List Op) : Arena :=
  (Arena.new n).run (pre ++ [.enter k] ++ body ++ [.leave])

theorem afterUnwind_cb (n : Nat) (pre : List Op) (k : CbKind) (body : List Op)
    (hal : (afterUnwind n pre k body).alive = true) : (afterUnwind n pre k body).cb = none := by
  unfold afterUnwind at hal ⊢
  rw [run_append] at hal ⊢
  simp only [Arena.run] at hal ⊢
  exact cb_after_leave _ hal

/-- **After the unwind of a panicking callback of each kind** (`mutate`, `mutate_root` = also
    `map_root` / `try_map_root` / the constructor of `new` / `try_new`, `finalize`), at any point
    `body` of the callback, on any earlier history `pre`, and through every continuation `cont` —
    more callbacks, more panics, collection calls, faults in `trace` — the arena, while it exists:
    * satisfies the invariant and has tripped no internal assertion;
    * C01: everything the client can name is allocated, undestructed, not condemned;
    * C04: nothing has been destructed or released twice, every release follows the destruction;
    * C05: `is_dropped` is exact for every allocated object;
    * C03/C04: every id ever handed out is still allocated or logged as released. -/
theorem after_unwind_continues (n : Nat) (pre : List Op) (k : CbKind) (body cont : List Op) :
    let b := (afterUnwind n pre k body).run cont
    b.alive = true →
    Inv b ∧ b.ctx.err = none ∧
    (∀ i, Accessible b i → Safe b.ctx i) ∧
    (b.ctx.log.Nodup ∧ ∀ i, Event.freed i ∈ b.ctx.log → Event.dropped i ∈ b.ctx.log) ∧
    (∀ i o, b.ctx.heap.get i = some o → (o.live = false ↔ Event.dropped i ∈ b.ctx.log)) ∧
    (∀ i, i < b.ctx.heap.size → (∃ o, b.ctx.heap.get i = some o) ∨ Event.freed i ∈ b.ctx.log) := by
  intro b hal
  have hb : b = (Arena.new n).run (pre ++ [.enter k] ++ body ++ [.leave] ++ cont) := by
    show (afterUnwind n pre k body).run cont = _
    unfold afterUnwind
    rw [← run_append]
  rw [hb] at hal ⊢
  exact ⟨inv_run n _ hal, C01.no_internal_fault n _ hal, fun i hi => C01.not_condemned n _ hal i hi,
    C04.once n _, fun i o ho => C04.is_dropped_exact n _ i o ho, fun i hi => C04.nothing_unaccounted n _ i hi⟩

/-- C02 at the post-unwind state: the next two `finish_cycle` calls leave undestructed exactly what
    is strongly reachable from the root as the unwound callback left it — no reachable value was
    lost to the panic, all garbage (including what the callback allocated and dropped) goes. -/
theorem after_unwind_exact_reclamation (n : Nat) (pre : List Op) (k : CbKind) (body : List Op) :
    let a := afterUnwind n pre k body
    a.alive = true →
    let a2 := a.run [.collect .finishCycle .drop none none, .collect .finishCycle .drop none none]
    a2.alive = true ∧ a2.root = a.root ∧
    ∀ i, (∃ o, a2.ctx.heap.get i = some o ∧ o.live = true) ↔ StrongReach a i := by
  intro a hal
  exact C02.exactness_run n _ hal (afterUnwind_cb n pre k body hal)

/-- **The arena drop that follows a failed owning callback releases everything** — this is
    `C04.drop_arena` at the state a failed `mutate_root`-like callback leaves.  For the collector the
    owning callbacks (`Arena::new` / `try_new`'s constructor, `map_root`, `try_map_root`) are
    `mutate_root` callbacks; *that* a failing one (constructor panics, `try_new` / `try_map_root`
    returns `Err`, `map_root` panics) drops the context is **not** part of this model: the driver
    (Model/Parse.lean, the aliases of `enter`; harness `exec.rs::arena_gone`) records it as an explicit
    `droparena` line, and it is the T1 correspondence with the constructor / `map_root` fault profiles
    that validates this mapping against src/arena.rs.  What is proved: after any history `pre` (empty
    for the constructors), any `body` of the callback, the unwind, and that drop, every id ever
    allocated — before or inside the callback — has exactly one `dropped` and exactly one `freed`
    event, no block is allocated any more and `total_gc_count` reads zero. -/
theorem failed_ctor_is_drop_arena (n : Nat) (pre body : List Op) :
    let a := (Arena.new n).run (pre ++ [.enter .mutateRoot] ++ body ++ [.leave])
    let a' := (a.step .dropArena).1
    a.alive = true →
    a'.alive = false ∧ a'.ctx.metrics.totalGcs = 0 ∧ (∀ j, a'.ctx.heap.get j = none) ∧
    ∀ i, i < a.ctx.heap.size →
      a'.ctx.log.count (.dropped i) = 1 ∧ a'.ctx.log.count (.freed i) = 1 := by
  intro a a' hal
  have hcb : a.cb = none := afterUnwind_cb n pre .mutateRoot body hal
  obtain ⟨h1, _, h3, h4, h5, h6⟩ := C04.drop_arena n _ hal hcb
  refine ⟨h3, h1, h4, fun i hi => ?_⟩
  obtain ⟨hf, hd⟩ := h5 i hi
  exact ⟨by rw [List.Nodup.count h6, if_pos hd], by rw [List.Nodup.count h6, if_pos hf]⟩

/-! ### After a `trace` that unwound: C01–C05 on the continued history -/

private theorem collect_panic_guard {a : Arena} {m : Method} {k : Cont} {f : TraceFault}
    {o : Option (List Micro)} (hout : (a.step (.collect m k f o)).2 = "panic") :
    a.alive = true ∧ a.cb = none := by
  unfold Arena.step at hout
  split at hout
  · simp [Arena.bad] at hout
  · rename_i hal
    refine ⟨by simpa using hal, ?_⟩
    simp only [Arena.stepBody] at hout
    split at hout
    · simp [Arena.bad] at hout
    · rename_i hcb
      cases hc : a.cb with
      | none => rfl
      | some x => simp [hc] at hcb

/-- **After a `trace` call unwound** — the collection call `collect m k (some kj) oracle` returned
    `"panic"`: the injected fault fired, the call unwound out of `mark_one` (object re-queued by the
    drop guard, or the root left flagged) — through every continuation `cont` the arena, while it
    exists, satisfies the invariant, has tripped no assertion, and C01 (`not_condemned`), C04
    (`once`), C05 (`is_dropped_exact`), C03/C04 (`nothing_unaccounted`) hold of it. -/
theorem after_trace_fault_continues (n : Nat) (pre : List Op) (m : Method) (k : Cont) (kj : Nat × Nat)
    (oracle : Option (List Micro)) (cont : List Op) :
    let r := ((Arena.new n).run pre).step (.collect m k (some kj) oracle)
    let b := r.1.run cont
    r.2 = "panic" → b.alive = true →
    Inv b ∧ b.ctx.err = none ∧
    (∀ i, Accessible b i → Safe b.ctx i) ∧
    (b.ctx.log.Nodup ∧ ∀ i, Event.freed i ∈ b.ctx.log → Event.dropped i ∈ b.ctx.log) ∧
    (∀ i o, b.ctx.heap.get i = some o → (o.live = false ↔ Event.dropped i ∈ b.ctx.log)) ∧
    (∀ i, i < b.ctx.heap.size → (∃ o, b.ctx.heap.get i = some o) ∨ Event.freed i ∈ b.ctx.log) := by
  intro r b _ hal
  have hb : b = (Arena.new n).run (pre ++ [.collect m k (some kj) oracle] ++ cont) := by
    show (((Arena.new n).run pre).step _).1.run cont = _
    rw [run_append, run_append]
    rfl
  rw [hb] at hal ⊢
  exact ⟨inv_run n _ hal, C01.no_internal_fault n _ hal, fun i hi => C01.not_condemned n _ hal i hi,
    C04.once n _, fun i o ho => C04.is_dropped_exact n _ i o ho, fun i hi => C04.nothing_unaccounted n _ i hi⟩

/-- C02 right after the unwound `trace`: the next two `finish_cycle` calls leave undestructed exactly
    what is strongly reachable from the root — the half-finished marking the fault left behind loses
    no reachable value and retains no garbage. -/
theorem after_trace_fault_exact_reclamation (n : Nat) (pre : List Op) (m : Method) (k : Cont)
    (kj : Nat × Nat) (oracle : Option (List Micro)) :
    let r := ((Arena.new n).run pre).step (.collect m k (some kj) oracle)
    r.2 = "panic" →
    let a2 := r.1.run [.collect .finishCycle .drop none none, .collect .finishCycle .drop none none]
    a2.alive = true ∧ a2.root = r.1.root ∧
    ∀ i, (∃ o, a2.ctx.heap.get i = some o ∧ o.live = true) ↔ StrongReach r.1 i := by
  intro r hout
  obtain ⟨hal, hcb⟩ := collect_panic_guard hout
  have h : Inv ((Arena.new n).run pre) := inv_run n pre hal
  have rel := step_collect_rel h m k (some kj) oracle
  have hr : r.1 = (Arena.new n).run (pre ++ [.collect m k (some kj) oracle]) := by
    show (((Arena.new n).run pre).step _).1 = _
    rw [run_append]; rfl
  have hal1 : r.1.alive = true := by rw [rel.alive]; exact hal
  have hcb1 : r.1.cb = none := by rw [rel.cb]; exact hcb
  rw [hr] at hal1 hcb1 ⊢
  exact C02.exactness_run n _ hal1 hcb1

/-! ### Non-vacuity: a fault in the middle of marking, then the cycle completes -/

def demo : List Op := [
  .enter .mutateRoot, .alloc true [none, none], .alloc true [some (.strong 0), none],
  .rootStore 0 (some (.strong 1)), .leave,
  .collect .finishMarking .drop (some (1, 1)) (some [.wake, .markStep none, .markStep (some 1)]),
  .collect .finishCycle .drop none
    (some [.markStep none, .markStep none, .markBreak, .toSweep, .sweepStep, .sweepStep, .sweepEnd, .toSleep false]) ]

example : ((Arena.new 2).run demo).alive = true := by decide
example : ((Arena.new 2).run (demo.take 6)).ctx.grayAgain = [1] := by decide
example : ((Arena.new 2).run demo).ctx.log = [] := by decide
example : ((Arena.new 2).run demo).ctx.phase = .sleep := by decide

/-- A constructor that allocates two objects, links them, and then fails: everything goes. -/
example :
    let a := (Arena.new 1).run ([] ++ [.enter .mutateRoot] ++
      [.alloc true [none], .alloc true [some (.strong 0)], .rootStore 0 (some (.strong 1))] ++ [.leave])
    a.alive = true ∧ a.ctx.heap.size = 2 ∧
      ((a.step .dropArena).1.ctx.log.count (.dropped 0) = 1 ∧ (a.step .dropArena).1.ctx.log.count (.freed 0) = 1) :=
  ⟨by decide, by decide,
    (failed_ctor_is_drop_arena 1 [] [.alloc true [none], .alloc true [some (.strong 0)],
      .rootStore 0 (some (.strong 1))] (by decide)).2.2.2 0 (by decide)⟩

/-- `after_unwind_continues` / `after_unwind_exact_reclamation` with a **`finalize`** callback that
    really runs: after `demo.take 5` the arena is fully marked with the `MarkedArena` kept
    (`finishMarking … finalize`), so `enter finalize` is accepted (`"ok"`) and its body — reads of the
    root and of object 1, an `is_dead` query — really runs before the callback unwinds. -/
def finalizePre : List Op := [
  .enter .mutateRoot, .alloc true [none, none], .alloc true [some (.strong 0), none],
  .rootStore 0 (some (.strong 1)), .leave,
  .collect .finishMarking .finalize none none ]

example : (((Arena.new 2).run finalizePre).step (.enter .finalize)).2 = "ok" := by decide
example : ((((Arena.new 2).run (finalizePre ++ [.enter .finalize])).step (.readRoot 0)).2 = "s1") := by decide

example : Inv ((afterUnwind 2 finalizePre .finalize [.readRoot 0, .read 1 0, .isDead (.strong 0)]).run
    [.collect .finishCycle .drop none none]) :=
  (after_unwind_continues 2 finalizePre .finalize [.readRoot 0, .read 1 0, .isDead (.strong 0)]
    [.collect .finishCycle .drop none none] (by decide)).1

example : ∃ o, ((afterUnwind 2 finalizePre .finalize [.readRoot 0, .read 1 0]).run
    [.collect .finishCycle .drop none none, .collect .finishCycle .drop none none]).ctx.heap.get 0 = some o ∧
      o.live = true :=
  ((after_unwind_exact_reclamation 2 finalizePre .finalize [.readRoot 0, .read 1 0] (by decide)).2.2 0).mpr
    (.edge 1 0 (.root 1 (by decide)) ⟨⟨.black, true, true, [some (.strong 0), none]⟩, by decide, by simp⟩)

/-- The fault of `demo` fired (`"panic"`), self-driven as well as oracle-driven; the two theorems
    about the state after it apply. -/
example : (((Arena.new 2).run (demo.take 5)).step
    (.collect .finishMarking .drop (some (1, 1)) (some [.wake, .markStep none, .markStep (some 1)]))).2 = "panic" := by
  decide
example : (((Arena.new 2).run (demo.take 5)).step (.collect .finishMarking .drop (some (1, 1)) none)).2 = "panic" := by
  decide

example : ∃ o, ((((Arena.new 2).run (demo.take 5)).step (.collect .finishMarking .drop (some (1, 1)) none)).1.run
    [.collect .finishCycle .drop none none, .collect .finishCycle .drop none none]).ctx.heap.get 0 = some o ∧
      o.live = true :=
  ((after_trace_fault_exact_reclamation 2 (demo.take 5) .finishMarking .drop (1, 1) none (by decide)).2.2 0).mpr
    (.edge 1 0 (.root 1 (by decide)) ⟨⟨.gray, true, true, [some (.strong 0), none]⟩, by decide, by simp⟩)

example : Inv ((((Arena.new 2).run (demo.take 5)).step (.collect .finishMarking .drop (some (1, 1)) none)).1.run
    [.enter .mutate, .alloc true [none], .leave, .collect .finishCycle .drop none none]) :=
  (after_trace_fault_continues 2 (demo.take 5) .finishMarking .drop (1, 1) none
    [.enter .mutate, .alloc true [none], .leave, .collect .finishCycle .drop none none] (by decide) (by decide)).1

/-! ### The builder clause: a panicking element constructor, at every index

Model: `GcArena.Model.Builder` (the state machine of C18).  `k = vs.length` elements have been
stored when the constructor is called for index `k`; `k < n`: it panics (`ctorPanic`), `k = n`:
the loop is over and the builder completes (`finish`). -/

/-- For every slice / slice-with-header builder of every length `n`, every header and element
    layout, every arena state and every fault index `k ≤ n` (`k = vs.length` elements stored):
    * `k < n`, the constructor panics at index `k`: the trace is exactly one allocation, the start
      of the unwind, the header destructor (the header `()` of a plain slice builder included),
      the destructors of elements `0 … k-1` in order, and one deallocation with the allocated
      layout — each initialised element destructed exactly once, no other element, the header
      exactly once — and the arena side is untouched: same `total_gc_count`, same allocation
      counter (hence same debt), the block is not on the `all` list and not live, no `link`;
    * `k = n`, no fault: exactly one allocation and one `link`, the contents are the `n`
      elements produced, the counters go up by one. -/
theorem builder_fault_at_every_index (c : Builder.Cfg) (g a : Nat) (vs : List Nat) (p : Layout.Plan)
    (hk : c.kind = .slice ∨ c.kind = .swh) (_hle : vs.length ≤ c.n)
    (hp : Layout.gcAlloc c.maxSize c.hdr c.pk c.ptrMeta = some p) :
    (vs.length < c.n →
      Builder.run c (Builder.initial g a)
          ((if c.kind = .swh then [.create, .writeHeader] else [.create]) ++
            vs.map .writeElem ++ [.ctorPanic]) =
        { stage := .dropped,
          events := [.allocB p.alloc, .panic] ++ Builder.dropEvents vs.length ++ [.deallocB p.alloc],
          written := vs, gcs := g, allocated := a, onAllList := false, live := false,
          stuck := false } ∧
      (∀ i, (Builder.dropEvents vs.length).count (.dropElem i) = (if i < vs.length then 1 else 0)) ∧
      (Builder.dropEvents vs.length).count .dropHeader = 1 ∧ Builder.Event.link ∉ Builder.dropEvents vs.length) ∧
    (vs.length = c.n →
      Builder.run c (Builder.initial g a)
          ((if c.kind = .swh then [.create, .writeHeader] else [.create]) ++
            vs.map .writeElem ++ [.finish]) =
        { stage := .linked, events := [.allocB p.alloc, .link], written := vs, gcs := g + 1,
          allocated := a + 1, onAllList := true, live := true, stuck := false }) := by
  refine ⟨fun hlt => ⟨?_, fun i => (Builder.dropEvents_count vs.length i).1,
    (Builder.dropEvents_count vs.length 0).2.1, (Builder.dropEvents_count vs.length 0).2.2.1⟩,
    fun heq => C18.complete_write_slice c g a vs p hk heq hp⟩
  have hpre : ∀ rest, Builder.run c (Builder.initial g a)
      ((if c.kind = .swh then [.create, .writeHeader] else [.create]) ++ rest) =
      Builder.run c { stage := .headerWritten, events := [.allocB p.alloc], gcs := g, allocated := a }
        rest := by
    intro rest
    rcases hk with hk | hk
    · simp [Builder.run, Builder.step, Builder.initial, hp, hk]
    · simp [Builder.run, Builder.step, Builder.initial, hp, hk]
  rw [List.append_assoc, hpre, Builder.run_writeElems c hk vs [.ctorPanic] _ 0 rfl rfl (by omega)]
  simp only [Builder.run, Nat.zero_add]
  rw [C18.ctor_panic c _ vs.length rfl hk rfl hlt, Builder.deallocEvents_of_gcAlloc hp]
  simp

/-- Whatever the client does with a builder and wherever a fault strikes (any sequence of
    creation, header write, element writes, a panicking constructor at any index, a copy of any
    length, explicit drop): if no `Gc` came out, the arena side is exactly what it was — same
    `total_gc_count`, same allocation counter / debt, block on no list, no `link` — and if the
    builder was destroyed its trace is one allocation, possibly the start of an unwind, the
    header destructor and the destructors of exactly the `k` elements stored so far (none at all
    for a builder abandoned before its header was written), one deallocation of the allocated
    layout. -/
theorem builder_abandoned_leaves_arena (c : Builder.Cfg) (g a : Nat) (acts : List Builder.Action)
    (h : (Builder.run c (Builder.initial g a) acts).stage ≠ .linked) :
    (Builder.Event.link ∉ (Builder.run c (Builder.initial g a) acts).events ∧ (Builder.run c (Builder.initial g a) acts).gcs = g ∧
      (Builder.run c (Builder.initial g a) acts).allocated = a ∧ (Builder.run c (Builder.initial g a) acts).onAllList = false ∧
      (Builder.run c (Builder.initial g a) acts).live = false) ∧
    ((Builder.run c (Builder.initial g a) acts).stage = .dropped →
      ∃ (p : Layout.Plan) (pan : Bool) (init : Option Nat),
        Layout.gcAlloc c.maxSize c.hdr c.pk c.ptrMeta = some p ∧
        (Builder.run c (Builder.initial g a) acts).events =
          [.allocB p.alloc] ++ (if pan then [.panic] else []) ++
            (match init with | some k => Builder.dropEvents k | none => []) ++ [.deallocB p.alloc] ∧
        (∀ k, init = some k → k = (Builder.run c (Builder.initial g a) acts).written.length ∧ k ≤ c.n)) :=
  ⟨C18.abandon c g a acts h, C18.abandon_events c g a acts⟩

/-- Repeated faults on one arena: after any number of builder episodes — each with any
    configuration and any client behaviour, faults at any index included — `total_gc_count` and
    the allocation counter have grown by exactly the number of episodes that produced a `Gc`;
    the abandoned ones left no trace on the arena. -/
theorem repeated_builder_faults (eps : List (Builder.Cfg × List Builder.Action)) (g a l : Nat) :
    (Builder.runEpisodes g a l eps).1 + l = g + (Builder.runEpisodes g a l eps).2.2 ∧
      (Builder.runEpisodes g a l eps).2.1 + l = a + (Builder.runEpisodes g a l eps).2.2 ∧
      l ≤ (Builder.runEpisodes g a l eps).2.2 := by
  induction eps generalizing g a l with
  | nil => simp [Builder.runEpisodes]
  | cons e eps ih =>
    obtain ⟨c, acts⟩ := e
    unfold Builder.runEpisodes
    by_cases hl : (Builder.run c (Builder.initial g a) acts).stage = .linked
    · obtain ⟨_, _, _, h1, h2, _⟩ := C18.complete c g a acts hl
      rw [if_pos hl, h1, h2]
      have := ih (g + 1) (a + 1) (l + 1)
      omega
    · obtain ⟨_, h1, h2, _⟩ := C18.abandon c g a acts hl
      rw [if_neg hl, h1, h2]
      exact ih g a l

/-- In particular, any number of faulted builders in a row leaves the counters where they
    were. -/
theorem only_faults_change_nothing (eps : List (Builder.Cfg × List Builder.Action)) (g a : Nat)
    (h : (Builder.runEpisodes g a 0 eps).2.2 = 0) :
    (Builder.runEpisodes g a 0 eps).1 = g ∧ (Builder.runEpisodes g a 0 eps).2.1 = a := by
  have := repeated_builder_faults eps g a 0
  omega

/-! ### Non-vacuity: constructor panics at index 2 of 3, then at index 0, then a completed builder,
on one arena (64-bit target, `SliceWithHeader<u64, u64>`) -/

example :
    (Builder.run ⟨2 ^ 63 - 1, ⟨16, 8⟩, 8, .swh, ⟨8, 8⟩, ⟨8, 8⟩, 3⟩ (Builder.initial 5 2)
      [.create, .writeHeader, .writeElem 10, .writeElem 11, .ctorPanic]).events =
    [.allocB ⟨56, 8⟩, .panic, .dropHeader, .dropElem 0, .dropElem 1, .deallocB ⟨56, 8⟩] := by
  decide

example :
    Builder.runEpisodes 5 2 0
      [(⟨2 ^ 63 - 1, ⟨16, 8⟩, 8, .swh, ⟨8, 8⟩, ⟨8, 8⟩, 3⟩,
          [.create, .writeHeader, .writeElem 10, .writeElem 11, .ctorPanic]),
       (⟨2 ^ 63 - 1, ⟨16, 8⟩, 8, .swh, ⟨8, 8⟩, ⟨8, 8⟩, 3⟩, [.create, .writeHeader, .ctorPanic]),
       (⟨2 ^ 63 - 1, ⟨16, 8⟩, 8, .slice, Layout.unitLayout, ⟨8, 8⟩, 2⟩,
          [.create, .writeElem 1, .writeElem 2, .finish])] = (6, 3, 1) := by
  decide

end GcArena.C11
