import GcArena.Proofs.Quiet
/-!
# C11 — Panic safety: a panic at any point leaves the arena consistent and usable

Fault steps are ordinary members of `Op`: `collect m k (some (k, j)) …` — the `k`-th `trace` call
of that collection call unwinds after reporting `j` slots (the `DropGuard` of `mark_one` re-queues
the object; the root stays flagged) — and `leave` at any point of a callback (a callback that
panics: the prefix of its effects stays).  `inv_run` quantifies over all operation sequences, so it
already covers every fault position in every schedule, repeated faults included; C01–C05 are
corollaries of the same invariant and hence hold on the continued history.
-/
namespace GcArena.C11

open GcArena

/-- A `trace` that unwinds at any call `k`, after any number `j` of slots, in any collection
    method, preserves the invariant. -/
theorem trace_fault_preserves_inv {a : Arena} (h : Inv a) (m : Method) (k : Cont) (kj : Nat × Nat)
    (oracle : Option (List Micro)) :
    Inv (a.step (.collect m k (some kj) oracle)).1 := by
  apply inv_step h
  have hnot : (!a.alive) = false := by rw [h.alive]; rfl
  unfold Arena.step; rw [hnot]
  simp only [Bool.false_eq_true, if_false, Arena.stepBody]
  split
  · exact h.alive
  · split
    · exact h.alive
    · split
      · exact h.alive
      · split
        · exact h.alive
        · cases m <;> simp only [Arena.marked?] <;> (try exact h.alive) <;>
            (split <;> (try exact h.alive) <;> cases k <;> simp only <;> (try exact h.alive) <;>
              split <;> exact h.alive)

/-- One `mark_one` whose `trace` unwinds after `j` slots — of an object or of the root — preserves
    the invariant, releases nothing, and leaves the phase alone. -/
theorem mark_one_fault {c : Ctx} {root temps} (h : CInv c root temps) (hm : c.phase = .mark) (j : Nat) :
    CInv (c.markOne root (some j)).1 root temps ∧ (c.markOne root (some j)).1.log = c.log ∧
    (c.markOne root (some j)).1.phase = .mark :=
  ⟨(markOne_spec h hm (some j)).1, (markOne_spec h hm (some j)).2.log,
   (markOne_spec h hm (some j)).2.phase.trans hm⟩

/-- If the root's `trace` unwinds, the root stays flagged for tracing. -/
theorem root_fault_keeps_flag (c : Ctx) (root : List Slot) (j : Nat) (hg : c.gray = [])
    (hga : c.grayAgain = []) (hr : c.rootNeedsTrace = true) (hinv : CInv c root []) (hm : c.phase = .mark) :
    (c.markOne root (some j)).1.rootNeedsTrace = true ∧ (c.markOne root (some j)).2 = .unwind := by
  unfold Ctx.markOne
  simp only [hg, hga, hr, if_true]
  have hs : CInv (c.step 'r') root [] := hinv.sameView (sameView_step c 'r')
  obtain ⟨_, m3, _, _⟩ := traceSlots_spec (root.take j) hs (show (c.step 'r').phase = .mark from hm)
    (fun p hp => hs.rootOK p (List.mem_of_mem_take hp))
  exact ⟨m3.rnt.trans hr, trivial⟩

/-- A callback that panics at any point (the prefix of its operations, then `leave`) preserves the
    invariant: every sanctioned store path is barrier-before-store or an atomic store+barrier, so
    there is no point inside a callback at which the invariant is broken. -/
theorem callback_panic_preserves_inv (n : Nat) (pre body : List Op)
    (halive : ((Arena.new n).run (pre ++ body ++ [.leave])).alive = true) :
    Inv ((Arena.new n).run (pre ++ body ++ [.leave])) :=
  inv_run n _ halive

/-- Repeated faults, in any schedule. -/
theorem repeated_faults (n : Nat) (ops : List Op) (halive : ((Arena.new n).run ops).alive = true) :
    Inv ((Arena.new n).run ops) ∧ ((Arena.new n).run ops).ctx.err = none :=
  ⟨inv_run n ops halive, (inv_run n ops halive).cinv.noErr⟩

/-- No reachable value is lost across faults: C01 on the continued history. -/
theorem reachable_survives_faults (n : Nat) (ops : List Op)
    (halive : ((Arena.new n).run ops).alive = true) (i : Nat)
    (hi : Accessible ((Arena.new n).run ops) i) :
    ∃ o, ((Arena.new n).run ops).ctx.heap.get i = some o ∧ o.live = true := by
  obtain ⟨o, ho, hl, _⟩ := (inv_run n ops halive).safe_of_accessible hi
  exact ⟨o, ho, hl⟩

/-! ### Non-vacuity: a fault in the middle of marking, then the cycle completes -/

def demo : List Op := [
  .enter .mutateRoot, .alloc true [none, none], .alloc true [some (.strong 0), none],
  .rootStore 0 (some (.strong 1)), .leave,
  .collect .finishMarking .drop (some (1, 1)) (some [.wake, .markStep none, .markStep (some 1)]),
  .collect .finishCycle .drop none
    (some [.markStep none, .markStep none, .markBreak, .toSweep, .sweepStep, .sweepStep, .sweepEnd, .toSleep false]) ]

example : ((Arena.new 2).run demo).alive = true := by decide
example : ((Arena.new 2).run (demo.take 6)).ctx.grayAgain = [1] := by decide
example : ((Arena.new 2).run demo).ctx.log = [] := by decide
example : ((Arena.new 2).run demo).ctx.phase = .sleep := by decide

end GcArena.C11
