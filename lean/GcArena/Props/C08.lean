import GcArena.Proofs.Quiet
import GcArena.Proofs.Protocol
import GcArena.Proofs.GrayMono
/-!
# C08 — Collection-phase protocol of the Arena API

`Ctx.doCollection` is `Context::do_collection` written out literally (`RunUntil`, `Stop` with the
declared order, `has_slept`, both debt tests).  Statements about the self-driven loop hold for
every pacing and every amount of real or artificial debt: nothing is assumed about
`Metrics.hasDebt`.
-/
namespace GcArena.C08

open GcArena

/-- `assert!(stop == Stop::Full)`, `unreachable!()` (Phase::Drop) and every `debug_assert!` of the
    driver loop are unreachable, for every history. -/
theorem asserts_unreachable (n : Nat) (ops : List Op) (halive : ((Arena.new n).run ops).alive = true) :
    ((Arena.new n).run ops).ctx.err = none :=
  (inv_run n ops halive).cinv.noErr

/-- The internal phase moves only `sleep → mark → sweep → sleep`: each micro-step of the loop
    leaves the phase or moves it one position forward. -/
theorem micro_phase_order (c c' : Ctx) (root : List Slot) (m : Micro) (hs : c.micro root m = some c')
    (hinv : CInv c root []) :
    c'.phase = c.phase ∨ (c.phase = .sleep ∧ c'.phase = .mark) ∨ (c.phase = .mark ∧ c'.phase = .sweep) ∨
      (c.phase = .sweep ∧ c'.phase = .sleep) := by
  cases m with
  | wake =>
    simp only [Ctx.micro] at hs
    split at hs
    · cases hs; rename_i hp; exact Or.inr (Or.inl ⟨hp, rfl⟩)
    · cases hs
  | markStep f =>
    simp only [Ctx.micro] at hs
    split at hs
    · cases hs; rename_i hp
      simp only [Bool.and_eq_true, decide_eq_true_eq] at hp
      exact Or.inl (markOne_spec hinv hp.1 f).2.phase
    · cases hs
  | markBreak =>
    simp only [Ctx.micro] at hs
    split at hs
    · cases hs; rename_i hp
      simp only [Bool.and_eq_true, decide_eq_true_eq] at hp
      exact Or.inl (markOne_spec hinv hp.1 none).2.phase
    · cases hs
  | toSweep =>
    simp only [Ctx.micro] at hs
    split at hs
    · cases hs; rename_i hp
      simp only [Bool.and_eq_true, decide_eq_true_eq] at hp
      exact Or.inr (Or.inr (Or.inl ⟨hp.1, rfl⟩))
    · cases hs
  | sweepStep =>
    simp only [Ctx.micro] at hs
    split at hs
    · cases hs; rename_i hp
      simp only [Bool.and_eq_true, decide_eq_true_eq] at hp
      exact Or.inl ((sweepOne_spec hinv hp.1).2.trans hp.1.symm)
    · cases hs
  | sweepEnd =>
    simp only [Ctx.micro] at hs
    split at hs
    · cases hs; rename_i hp
      simp only [Bool.and_eq_true, decide_eq_true_eq] at hp
      exact Or.inl ((sweepOne_spec hinv hp.1).2.trans hp.1.symm)
    · cases hs
  | toSleep b =>
    simp only [Ctx.micro] at hs
    split at hs
    · cases hs; rename_i hp
      simp only [Bool.and_eq_true, decide_eq_true_eq] at hp
      exact Or.inr (Or.inr (Or.inr ⟨hp.1, rfl⟩))
    · cases hs

/-- Sweeping begins only from a fully marked arena. -/
theorem sweep_only_from_marked (c c' : Ctx) (root : List Slot) (hs : c.micro root .toSweep = some c') :
    Arena.isMarked c = true := by
  simp only [Ctx.micro] at hs
  split at hs
  · rename_i hp; simpa [Arena.isMarked] using hp
  · cases hs

/-- `mark_debt` / `finish_marking` from Marked: nothing but the step log changes (one `mark_one`
    that finds nothing to do, or no step at all when there is no debt). -/
theorem mark_from_marked (c : Ctx) (root : List Slot) (ru : RunUntil) (f : TraceFault)
    (hm : Arena.isMarked c = true) :
    (c.doCollection root ru .fullyMarked f).1 = c ∨ (c.doCollection root ru .fullyMarked f).1 = c.step 'b' := by
  simp only [Arena.isMarked, Bool.and_eq_true, decide_eq_true_eq, Bool.not_eq_true'] at hm
  unfold Ctx.doCollection
  split
  · exact Or.inl rfl
  · right
    have : ∀ n, Ctx.collectLoop root ru .fullyMarked f (n + 1) c false 0 = (c.step 'b', .returned) := by
      intro n
      unfold Ctx.collectLoop
      simp only [hm.1, markOne_break _ hm.2]
      rfl
    have hfuel : 2 * c.fuelBound root + 8 = (2 * c.fuelBound root + 7) + 1 := by omega
    rw [hfuel, this]

/-- `mark_debt` / `finish_marking` while Sweeping do nothing at all and return `None`. -/
theorem mark_from_sweeping (c : Ctx) (root : List Slot) (ru : RunUntil) (f : TraceFault)
    (hp : c.phase = .sweep) :
    (c.doCollection root ru .fullyMarked f).1 = c ∧ Arena.isMarked c = false := by
  refine ⟨?_, by simp [Arena.isMarked, hp]⟩
  unfold Ctx.doCollection
  split
  · rfl
  · have : ∀ n, Ctx.collectLoop root ru .fullyMarked f (n + 1) c false 0 = (c, .returned) := by
      intro n
      unfold Ctx.collectLoop
      simp only [hp]
      rfl
    have hfuel : 2 * c.fuelBound root + 8 = (2 * c.fuelBound root + 7) + 1 := by omega
    rw [hfuel, this]

/-- `MarkedArena::start_sweeping` ends Sweeping: its `assert_eq!(phase, Phase::Sweep)` cannot fire. -/
theorem start_sweeping_ends_sweeping (c : Ctx) (root : List Slot) (hm : Arena.isMarked c = true) :
    (c.doCollection root .stop .atSweep none).1.phase = .sweep := by
  simp only [Arena.isMarked, Bool.and_eq_true, decide_eq_true_eq, Bool.not_eq_true'] at hm
  unfold Ctx.doCollection
  simp only [show (RunUntil.stop = RunUntil.payDebt) = False from by simp, decide_false, Bool.false_and,
    Bool.false_eq_true, if_false]
  have : ∀ n, (Ctx.collectLoop root .stop .atSweep none (n + 2) c false 0).1.phase = .sweep := by
    intro n
    unfold Ctx.collectLoop
    simp only [hm.1, markOne_break _ hm.2]
    have h1 : ¬ (Stop.atSweep ≤ Stop.fullyMarked) := by decide
    simp only [h1, if_false, Ctx.debtBreak, show (RunUntil.stop = RunUntil.payDebt) = False from by simp,
      decide_false, Bool.false_and, Bool.false_eq_true]
    unfold Ctx.collectLoop
    have hp2 : (c.step 'b').enterSweep.phase = .sweep := rfl
    simp only [hp2]
    have h2 : Stop.atSweep ≤ Stop.atSweep := by decide
    simp only [h2, if_true]
    exact hp2
  have hfuel : 2 * c.fuelBound root + 8 = (2 * c.fuelBound root + 6) + 2 := by omega
  rw [hfuel]
  exact this _

/-- Callbacks never change the internal phase: no mutator operation does. -/
theorem callbacks_keep_phase {a : Arena} (h : Inv a) (op : Op) (hop : op.isMutator = true) :
    (a.step op).1.ctx.phase = a.ctx.phase :=
  (step_quiet h op hop).phase

/-- `finish_marking` hands out a `MarkedArena` exactly when the arena is in the mark phase with
    nothing left to trace (`Arena::finish_marking` / `mark_debt`: the same test). -/
theorem marked_iff (c : Ctx) :
    Arena.isMarked c = true ↔ (c.phase = .mark ∧ c.gray = [] ∧ c.grayAgain = [] ∧ c.rootNeedsTrace = false) := by
  simp [Arena.isMarked, Ctx.grayRemaining, List.isEmpty_iff, and_assoc]

/-- Every collection call returns or unwinds: the driver loop terminates from every state that
    satisfies the invariant — for every `RunUntil`, `Stop`, pacing, debt and fault position. -/
theorem every_call_terminates (c : Ctx) (root : List Slot) (h : CInv c root []) (ru : RunUntil) (stop : Stop)
    (fault : TraceFault) : (c.doCollection root ru stop fault).2 ≠ .outOfFuel :=
  doCollection_terminates h ru stop fault

theorem getElem_mem_tail {α} (l : List α) (n : Nat) (h : n < l.length) (h0 : n ≠ 0) : l[n] ∈ l.tail := by
  cases l with
  | nil => simp at h
  | cons a t =>
    cases n with
    | zero => exact absurd rfl h0
    | succ m => simp only [List.getElem_cons_succ, List.tail_cons]; exact List.getElem_mem _

/-- `finish_marking` returns `Some(MarkedArena)` exactly when the arena was not Sweeping — from
    every state satisfying the invariant, whatever is left to mark. -/
theorem finish_marking_some_iff (c : Ctx) (root : List Slot) (h : CInv c root []) :
    Arena.isMarked (c.doCollection root .stop .fullyMarked none).1 = true ↔ c.phase ≠ .sweep := by
  constructor
  · intro hm hp
    have := (mark_from_sweeping c root .stop none hp)
    rw [this.1, this.2] at hm
    cases hm
  · intro hp
    have hret := doCollection_returns h .stop .fullyMarked
    unfold Ctx.doCollection at hret ⊢
    simp only [show (RunUntil.stop = RunUntil.payDebt) = False from by simp, decide_false, Bool.false_and,
      Bool.false_eq_true, if_false] at hret ⊢
    exact collectLoop_fullyMarked _ c false 0 h hp hret

/-- `finish_cycle` always ends Sleeping — from every phase. -/
theorem finish_cycle_ends_sleeping (c : Ctx) (root : List Slot) (h : CInv c root []) :
    (c.doCollection root .stop .finishCycle none).1.phase = .sleep := by
  have hret := doCollection_returns h .stop .finishCycle
  unfold Ctx.doCollection at hret ⊢
  simp only [show (RunUntil.stop = RunUntil.payDebt) = False from by simp, decide_false, Bool.false_and,
    Bool.false_eq_true, if_false] at hret ⊢
  exact collectLoop_finishCycle _ c false 0 h hret

/-- `cycle_debt` / `finish_cycle` never start a new cycle: in the step log one call appends
    (oldest first), nothing — in particular no wake-up `'W'` — follows the `Sweep → Sleep`
    switch `'Z'`.  For every `RunUntil`, every debt, every fault position. -/
theorem cycle_never_rewakes (c : Ctx) (root : List Slot) (ru : RunUntil) (f : TraceFault)
    (new : List Char) (h : CInv c root [])
    (hnew : (c.doCollection root ru .finishCycle f).1.steps = new ++ c.steps)
    (k : Nat) (hk : new.reverse[k]? = some 'Z') (j : Nat) (hj : k < j) : new.reverse[j]? ≠ some 'W' := by
  have key : ∃ new', (c.doCollection root ru .finishCycle f).1.steps = new' ++ c.steps ∧
      ∀ ch ∈ new'.tail, ch ≠ 'Z' := by
    unfold Ctx.doCollection
    split
    · exact ⟨[], rfl, by simp⟩
    · exact collectLoop_finishCycle_log _ c false 0 h
  obtain ⟨new', e, hz⟩ := key
  have hnn : new = new' := List.append_cancel_right (hnew.symm.trans e)
  subst hnn
  have hklt : k < new.length := by
    have := (List.getElem?_eq_some_iff.mp hk).1
    simpa using this
  have hkeq : new[new.length - 1 - k]'(by omega) = 'Z' := by
    have := (List.getElem?_eq_some_iff.mp hk).2
    rw [List.getElem_reverse] at this
    exact this
  have hlast : new.length - 1 - k = 0 := by
    by_cases h0 : new.length - 1 - k = 0
    · exact h0
    · exfalso
      have hmem : new[new.length - 1 - k]'(by omega) ∈ new.tail :=
        getElem_mem_tail new _ (by omega) h0
      exact hz _ hmem hkeq
  have hjge : new.reverse.length ≤ j := by simp; omega
  rw [List.getElem?_eq_none hjge]
  simp

/-- No mutator operation removes pending marking work: every queued `gray` / `gray_again` entry
    stays queued and `root_needs_trace` stays set — in every state (no invariant needed), for
    accepted, rejected and faulting operations alike. -/
theorem callbacks_keep_marking_work (a : Arena) (op : Op) (hop : op.isMutator = true) :
    GrayMono a.ctx (a.step op).1.ctx :=
  step_grayMono a op hop

/-- Callbacks never finish marking: `gray_remaining()` cannot go from `true` to `false` inside a
    callback, so Marking never becomes Marked there. -/
theorem callbacks_never_finish_marking {a : Arena} (op : Op) (hop : op.isMutator = true)
    (hg : a.ctx.grayRemaining = true) : (a.step op).1.ctx.grayRemaining = true :=
  (step_grayMono a op hop).grayRemaining hg

/-- The same for a whole callback body (any sequence of mutator operations). -/
theorem callback_bodies_never_finish_marking {a : Arena} (ops : List Op)
    (hops : ∀ op ∈ ops, op.isMutator = true) (hg : a.ctx.grayRemaining = true) :
    (a.run ops).ctx.grayRemaining = true :=
  (run_grayMono a ops hops).grayRemaining hg

/-- Stated through the test `mark_debt` / `finish_marking` perform: a mutator operation keeps the
    internal phase, and if the arena is fully marked afterwards it was fully marked before. -/
theorem callbacks_never_mark {a : Arena} (h : Inv a) (op : Op) (hop : op.isMutator = true) :
    (a.step op).1.ctx.phase = a.ctx.phase ∧
      (Arena.isMarked (a.step op).1.ctx = true → Arena.isMarked a.ctx = true) := by
  have hp := callbacks_keep_phase h op hop
  refine ⟨hp, fun hm => ?_⟩
  simp only [Arena.isMarked, Bool.and_eq_true, decide_eq_true_eq, Bool.not_eq_true'] at hm ⊢
  refine ⟨hp ▸ hm.1, ?_⟩
  cases hg : a.ctx.grayRemaining with
  | false => rfl
  | true =>
    have := callbacks_never_finish_marking op hop hg
    rw [hm.2] at this
    cases this

/-- The observable phase (`Arena::collection_phase`) under a mutator operation: unchanged, or
    Marked → Marking (a write barrier, the root barrier of `mutate_root`, or `resurrect` re-queued
    work).  Nothing else: in particular never Marking → Marked. -/
theorem callbacks_move_phase_only_marked_to_marking {a : Arena} (h : Inv a) (op : Op)
    (hop : op.isMutator = true) :
    (a.step op).1.collectionPhase = a.collectionPhase ∨
      (a.collectionPhase = "Marked" ∧ (a.step op).1.collectionPhase = "Marking") := by
  have hp := callbacks_keep_phase h op hop
  unfold Arena.collectionPhase
  rw [hp]
  cases hph : a.ctx.phase with
  | mark =>
    cases hg : a.ctx.grayRemaining with
    | true => left; rw [callbacks_never_finish_marking op hop hg]
    | false =>
      cases hg' : (a.step op).1.ctx.grayRemaining with
      | true => right; exact ⟨rfl, rfl⟩
      | false => left; rfl
  | sweep => left; rfl
  | sleep => left; rfl
  | drop => left; rfl

/-! ### Non-vacuity -/

/-- A state with work left in every queue satisfies the hypotheses of the three loop theorems. -/
example : CInv ((Arena.new 1).run [.enter .mutate, .alloc true [none], .leave]).ctx
    ((Arena.new 1).run [.enter .mutate, .alloc true [none], .leave]).root [] := by
  have h := inv_run 1 [.enter .mutate, .alloc true [none], .leave] (by decide)
  have := h.cinv
  rwa [h.cbTemps (by decide)] at this

example : Arena.isMarked ((Arena.new 1).run
    [.collect .finishMarking .drop none (some [.wake, .markStep none, .markBreak])]).ctx = true := by decide

/-- root → 0, fully marked (object 0 black), inside a `mutate` callback holding object 0.
    `Marked → Marking` does happen: below through a backward barrier on the black object and
    through the root barrier of `mutate_root`; `C07.demo` shows the `resurrect` route. -/
def markedDemo : List Op := [
  .enter .mutateRoot, .alloc true [none], .rootStore 0 (some (.strong 0)), .leave,
  .collect .finishMarking .drop none (some [.wake, .markStep none, .markStep none, .markBreak]),
  .enter .mutate, .readRoot 0 ]

example : ((Arena.new 1).run markedDemo).alive = true := by decide
example : ((Arena.new 1).run markedDemo).collectionPhase = "Marked" := by decide
example : (((Arena.new 1).run markedDemo).step (.barrier (.bb 0 none))).1.collectionPhase = "Marking" := by
  decide
example : (((Arena.new 1).run (markedDemo.take 5)).step (.enter .mutateRoot)).1.collectionPhase = "Marking" := by
  decide

/-- Both disjuncts of `callbacks_move_phase_only_marked_to_marking` occur on `markedDemo`: the
    barrier takes the second, the (barrier-free) read the first. -/
example :
    let a := (Arena.new 1).run markedDemo
    (a.collectionPhase = "Marked" ∧ (a.step (.barrier (.bb 0 none))).1.collectionPhase = "Marking") ∧
      (a.step (.read 0 0)).1.collectionPhase = a.collectionPhase := by decide

/-- The hypothesis of `callbacks_never_finish_marking` is satisfiable inside a callback, and the
    work then survives the rest of the callback. -/
example :
    let a := ((Arena.new 1).run markedDemo).run [.barrier (.bb 0 none)]
    a.ctx.grayRemaining = true ∧ (a.run [.store .raw 0 0 none, .alloc true [none], .leave]).collectionPhase = "Marking" := by
  decide

end GcArena.C08
