import GcArena.Proofs.Quiet
import GcArena.Proofs.Protocol
import GcArena.Proofs.GrayMono
import GcArena.Proofs.RunBridge
import GcArena.Proofs.ProtRun
import GcArena.Proofs.MarkedFlag
/-!
# C08 — Collection-phase protocol of the Arena API

`Ctx.doCollection` is `Context::do_collection` written out literally (`RunUntil`, `Stop` with the
declared order, `has_slept`, both debt tests).  Statements about the self-driven loop hold for
every pacing and every amount of real or artificial debt: nothing is assumed about
`Metrics.hasDebt`.
-/
namespace GcArena.C08

open GcArena

/-- `assert!(stop == Stop::Full)`, `unreachable!()` (Phase::Drop) and every `debug_assert!` of the
    driver loop are unreachable, for every history. -/
theorem asserts_unreachable (n : Nat) (ops : List Op) (halive : ((Arena.new n).run ops).alive = true) :
    ((Arena.new n).run ops).ctx.err = none :=
  (inv_run n ops halive).cinv.noErr

/-- The internal phase moves only `sleep → mark → sweep → sleep`: each micro-step of the loop
    leaves the phase or moves it one position forward. -/
theorem micro_phase_order (c c' : Ctx) (root : List Slot) (m : Micro) (hs : c.micro root m = some c')
    (hinv : CInv c root []) :
    c'.phase = c.phase ∨ (c.phase = .sleep ∧ c'.phase = .mark) ∨ (c.phase = .mark ∧ c'.phase = .sweep) ∨
      (c.phase = .sweep ∧ c'.phase = .sleep) := by
  cases m with
  | wake =>
    simp only [Ctx.micro] at hs
    split at hs
    · cases hs; rename_i hp; exact Or.inr (Or.inl ⟨hp, rfl⟩)
    · cases hs
  | markStep f =>
    simp only [Ctx.micro] at hs
    split at hs
    · cases hs; rename_i hp
      simp only [Bool.and_eq_true, decide_eq_true_eq] at hp
      exact Or.inl (markOne_spec hinv hp.1 f).2.phase
    · cases hs
  | markBreak =>
    simp only [Ctx.micro] at hs
    split at hs
    · cases hs; rename_i hp
      simp only [Bool.and_eq_true, decide_eq_true_eq] at hp
      exact Or.inl (markOne_spec hinv hp.1 none).2.phase
    · cases hs
  | toSweep =>
    simp only [Ctx.micro] at hs
    split at hs
    · cases hs; rename_i hp
      simp only [Bool.and_eq_true, decide_eq_true_eq] at hp
      exact Or.inr (Or.inr (Or.inl ⟨hp.1, rfl⟩))
    · cases hs
  | sweepStep =>
    simp only [Ctx.micro] at hs
    split at hs
    · cases hs; rename_i hp
      simp only [Bool.and_eq_true, decide_eq_true_eq] at hp
      exact Or.inl ((sweepOne_spec hinv hp.1).2.trans hp.1.symm)
    · cases hs
  | sweepEnd =>
    simp only [Ctx.micro] at hs
    split at hs
    · cases hs; rename_i hp
      simp only [Bool.and_eq_true, decide_eq_true_eq] at hp
      exact Or.inl ((sweepOne_spec hinv hp.1).2.trans hp.1.symm)
    · cases hs
  | toSleep b =>
    simp only [Ctx.micro] at hs
    split at hs
    · cases hs; rename_i hp
      simp only [Bool.and_eq_true, decide_eq_true_eq] at hp
      exact Or.inr (Or.inr (Or.inr ⟨hp.1, rfl⟩))
    · cases hs

/-- Sweeping begins only from a fully marked arena. -/
theorem sweep_only_from_marked (c c' : Ctx) (root : List Slot) (hs : c.micro root .toSweep = some c') :
    Arena.isMarked c = true := by
  simp only [Ctx.micro] at hs
  split at hs
  · rename_i hp; simpa [Arena.isMarked] using hp
  · cases hs

/-- `mark_debt` / `finish_marking` from Marked: nothing but the step log changes (one `mark_one`
    that finds nothing to do, or no step at all when there is no debt). -/
theorem mark_from_marked (c : Ctx) (root : List Slot) (ru : RunUntil) (f : TraceFault)
    (hm : Arena.isMarked c = true) :
    (c.doCollection root ru .fullyMarked f).1 = c ∨ (c.doCollection root ru .fullyMarked f).1 = c.step 'b' := by
  simp only [Arena.isMarked, Bool.and_eq_true, decide_eq_true_eq, Bool.not_eq_true'] at hm
  unfold Ctx.doCollection
  split
  · exact Or.inl rfl
  · right
    have : ∀ n, Ctx.collectLoop root ru .fullyMarked f (n + 1) c false 0 = (c.step 'b', .returned) := by
      intro n
      unfold Ctx.collectLoop
      simp only [hm.1, markOne_break _ hm.2]
      rfl
    have hfuel : 2 * c.fuelBound root + 8 = (2 * c.fuelBound root + 7) + 1 := by omega
    rw [hfuel, this]

/-- `mark_debt` / `finish_marking` while Sweeping do nothing at all and return `None`. -/
theorem mark_from_sweeping (c : Ctx) (root : List Slot) (ru : RunUntil) (f : TraceFault)
    (hp : c.phase = .sweep) :
    (c.doCollection root ru .fullyMarked f).1 = c ∧ Arena.isMarked c = false := by
  refine ⟨?_, by simp [Arena.isMarked, hp]⟩
  unfold Ctx.doCollection
  split
  · rfl
  · have : ∀ n, Ctx.collectLoop root ru .fullyMarked f (n + 1) c false 0 = (c, .returned) := by
      intro n
      unfold Ctx.collectLoop
      simp only [hp]
      rfl
    have hfuel : 2 * c.fuelBound root + 8 = (2 * c.fuelBound root + 7) + 1 := by omega
    rw [hfuel, this]

/-- `MarkedArena::start_sweeping` ends Sweeping: its `assert_eq!(phase, Phase::Sweep)` cannot fire. -/
theorem start_sweeping_ends_sweeping (c : Ctx) (root : List Slot) (hm : Arena.isMarked c = true) :
    (c.doCollection root .stop .atSweep none).1.phase = .sweep := by
  simp only [Arena.isMarked, Bool.and_eq_true, decide_eq_true_eq, Bool.not_eq_true'] at hm
  unfold Ctx.doCollection
  simp only [show (RunUntil.stop = RunUntil.payDebt) = False from by simp, decide_false, Bool.false_and,
    Bool.false_eq_true, if_false]
  have : ∀ n, (Ctx.collectLoop root .stop .atSweep none (n + 2) c false 0).1.phase = .sweep := by
    intro n
    unfold Ctx.collectLoop
    simp only [hm.1, markOne_break _ hm.2]
    have h1 : ¬ (Stop.atSweep ≤ Stop.fullyMarked) := by decide
    simp only [h1, if_false, Ctx.debtBreak, show (RunUntil.stop = RunUntil.payDebt) = False from by simp,
      decide_false, Bool.false_and, Bool.false_eq_true]
    unfold Ctx.collectLoop
    have hp2 : (c.step 'b').enterSweep.phase = .sweep := rfl
    simp only [hp2]
    have h2 : Stop.atSweep ≤ Stop.atSweep := by decide
    simp only [h2, if_true]
    exact hp2
  have hfuel : 2 * c.fuelBound root + 8 = (2 * c.fuelBound root + 6) + 2 := by omega
  rw [hfuel]
  exact this _

/-- Callbacks never change the internal phase: no mutator operation does. -/
theorem callbacks_keep_phase {a : Arena} (h : Inv a) (op : Op) (hop : op.isMutator = true) :
    (a.step op).1.ctx.phase = a.ctx.phase :=
  (step_quiet h op hop).phase

/-- `finish_marking` hands out a `MarkedArena` exactly when the arena is in the mark phase with
    nothing left to trace (`Arena::finish_marking` / `mark_debt`: the same test). -/
theorem marked_iff (c : Ctx) :
    Arena.isMarked c = true ↔ (c.phase = .mark ∧ c.gray = [] ∧ c.grayAgain = [] ∧ c.rootNeedsTrace = false) := by
  simp [Arena.isMarked, Ctx.grayRemaining, List.isEmpty_iff, and_assoc]

/-- Every collection call returns or unwinds: the driver loop terminates from every state that
    satisfies the invariant — for every `RunUntil`, `Stop`, pacing, debt and fault position. -/
theorem every_call_terminates (c : Ctx) (root : List Slot) (h : CInv c root []) (ru : RunUntil) (stop : Stop)
    (fault : TraceFault) : (c.doCollection root ru stop fault).2 ≠ .outOfFuel :=
  doCollection_terminates h ru stop fault

private theorem getElem_mem_tail {α} (l : List α) (n : Nat) (h : n < l.length) (h0 : n ≠ 0) : l[n] ∈ l.tail := by
  cases l with
  | nil => simp at h
  | cons a t =>
    cases n with
    | zero => exact absurd rfl h0
    | succ m => simp only [List.getElem_cons_succ, List.tail_cons]; exact List.getElem_mem _

/-- `finish_marking` returns `Some(MarkedArena)` exactly when the arena was not Sweeping — from
    every state satisfying the invariant, whatever is left to mark. -/
theorem finish_marking_some_iff (c : Ctx) (root : List Slot) (h : CInv c root []) :
    Arena.isMarked (c.doCollection root .stop .fullyMarked none).1 = true ↔ c.phase ≠ .sweep := by
  constructor
  · intro hm hp
    have := (mark_from_sweeping c root .stop none hp)
    rw [this.1, this.2] at hm
    cases hm
  · intro hp
    have hret := doCollection_returns h .stop .fullyMarked
    unfold Ctx.doCollection at hret ⊢
    simp only [show (RunUntil.stop = RunUntil.payDebt) = False from by simp, decide_false, Bool.false_and,
      Bool.false_eq_true, if_false] at hret ⊢
    exact collectLoop_fullyMarked _ c false 0 h hp hret

/-- `finish_cycle` always ends Sleeping — from every phase. -/
theorem finish_cycle_ends_sleeping (c : Ctx) (root : List Slot) (h : CInv c root []) :
    (c.doCollection root .stop .finishCycle none).1.phase = .sleep := by
  have hret := doCollection_returns h .stop .finishCycle
  unfold Ctx.doCollection at hret ⊢
  simp only [show (RunUntil.stop = RunUntil.payDebt) = False from by simp, decide_false, Bool.false_and,
    Bool.false_eq_true, if_false] at hret ⊢
  exact collectLoop_finishCycle _ c false 0 h hret

/-- `cycle_debt` / `finish_cycle` never start a new cycle: in the step log one call appends
    (oldest first), nothing — in particular no wake-up `'W'` — follows the `Sweep → Sleep`
    switch `'Z'`.  For every `RunUntil`, every debt, every fault position. -/
theorem cycle_never_rewakes (c : Ctx) (root : List Slot) (ru : RunUntil) (f : TraceFault)
    (new : List Char) (h : CInv c root [])
    (hnew : (c.doCollection root ru .finishCycle f).1.steps = new ++ c.steps)
    (k : Nat) (hk : new.reverse[k]? = some 'Z') (j : Nat) (hj : k < j) : new.reverse[j]? ≠ some 'W' := by
  have key : ∃ new', (c.doCollection root ru .finishCycle f).1.steps = new' ++ c.steps ∧
      ∀ ch ∈ new'.tail, ch ≠ 'Z' := by
    unfold Ctx.doCollection
    split
    · exact ⟨[], rfl, by simp⟩
    · exact collectLoop_finishCycle_log _ c false 0 h
  obtain ⟨new', e, hz⟩ := key
  have hnn : new = new' := List.append_cancel_right (hnew.symm.trans e)
  subst hnn
  have hklt : k < new.length := by
    have := (List.getElem?_eq_some_iff.mp hk).1
    simpa using this
  have hkeq : new[new.length - 1 - k]'(by omega) = 'Z' := by
    have := (List.getElem?_eq_some_iff.mp hk).2
    rw [List.getElem_reverse] at this
    exact this
  have hlast : new.length - 1 - k = 0 := by
    by_cases h0 : new.length - 1 - k = 0
    · exact h0
    · exfalso
      have hmem : new[new.length - 1 - k]'(by omega) ∈ new.tail :=
        getElem_mem_tail new _ (by omega) h0
      exact hz _ hmem hkeq
  have hjge : new.reverse.length ≤ j := by simp; omega
  rw [List.getElem?_eq_none hjge]
  simp

/-- No mutator operation removes pending marking work: every queued `gray` / `gray_again` entry
    stays queued and `root_needs_trace` stays set — in every state (no invariant needed), for
    accepted, rejected and faulting operations alike. -/
theorem callbacks_keep_marking_work (a : Arena) (op : Op) (hop : op.isMutator = true) :
    GrayMono a.ctx (a.step op).1.ctx :=
  step_grayMono a op hop

/-- Callbacks never finish marking: `gray_remaining()` cannot go from `true` to `false` inside a
    callback, so Marking never becomes Marked there. -/
theorem callbacks_never_finish_marking {a : Arena} (op : Op) (hop : op.isMutator = true)
    (hg : a.ctx.grayRemaining = true) : (a.step op).1.ctx.grayRemaining = true :=
  (step_grayMono a op hop).grayRemaining hg

/-- The same for a whole callback body (any sequence of mutator operations). -/
theorem callback_bodies_never_finish_marking {a : Arena} (ops : List Op)
    (hops : ∀ op ∈ ops, op.isMutator = true) (hg : a.ctx.grayRemaining = true) :
    (a.run ops).ctx.grayRemaining = true :=
  (run_grayMono a ops hops).grayRemaining hg

/-- Stated through the test `mark_debt` / `finish_marking` perform: a mutator operation keeps the
    internal phase, and if the arena is fully marked afterwards it was fully marked before. -/
theorem callbacks_never_mark {a : Arena} (h : Inv a) (op : Op) (hop : op.isMutator = true) :
    (a.step op).1.ctx.phase = a.ctx.phase ∧
      (Arena.isMarked (a.step op).1.ctx = true → Arena.isMarked a.ctx = true) := by
  have hp := callbacks_keep_phase h op hop
  refine ⟨hp, fun hm => ?_⟩
  simp only [Arena.isMarked, Bool.and_eq_true, decide_eq_true_eq, Bool.not_eq_true'] at hm ⊢
  refine ⟨hp ▸ hm.1, ?_⟩
  cases hg : a.ctx.grayRemaining with
  | false => rfl
  | true =>
    have := callbacks_never_finish_marking op hop hg
    rw [hm.2] at this
    cases this

/-- The observable phase (`Arena::collection_phase`) under a mutator operation: unchanged, or
    Marked → Marking (a write barrier, the root barrier of `mutate_root`, or `resurrect` re-queued
    work).  Nothing else: in particular never Marking → Marked. -/
theorem callbacks_move_phase_only_marked_to_marking {a : Arena} (h : Inv a) (op : Op)
    (hop : op.isMutator = true) :
    (a.step op).1.collectionPhase = a.collectionPhase ∨
      (a.collectionPhase = "Marked" ∧ (a.step op).1.collectionPhase = "Marking") := by
  have hp := callbacks_keep_phase h op hop
  unfold Arena.collectionPhase
  rw [hp]
  cases hph : a.ctx.phase with
  | mark =>
    cases hg : a.ctx.grayRemaining with
    | true => left; rw [callbacks_never_finish_marking op hop hg]
    | false =>
      cases hg' : (a.step op).1.ctx.grayRemaining with
      | true => right; exact ⟨rfl, rfl⟩
      | false => left; rfl
  | sweep => left; rfl
  | sleep => left; rfl
  | drop => left; rfl


/-! ### The observable phase (`Arena::collection_phase`) under collector steps -/

/-- The values of `CollectionPhase` (src/arena.rs), plus the model's marker for a dropped arena. -/
inductive Obs where
  | sleeping | marking | marked | sweeping | dropped
  deriving DecidableEq, Repr

def Obs.name : Obs → String
  | .sleeping => "Sleeping" | .marking => "Marking" | .marked => "Marked"
  | .sweeping => "Sweeping" | .dropped => "Dropped"

theorem Obs.name_inj {x y : Obs} (h : x.name = y.name) : x = y := by
  cases x <;> cases y <;> first | rfl | (exact absurd h (by decide))

/-- `Arena::collection_phase` as a function of the context. -/
def obs (c : Ctx) : Obs :=
  match c.phase with
  | .mark => if c.grayRemaining then .marking else .marked
  | .sweep => .sweeping
  | .sleep => .sleeping
  | .drop => .dropped

/-- `Arena.collectionPhase` (the string the harness compares with `Arena::collection_phase()`)
    is the name of `obs`. -/
theorem collectionPhase_eq (a : Arena) : a.collectionPhase = (obs a.ctx).name := by
  unfold Arena.collectionPhase obs
  cases a.ctx.phase with
  | mark => simp only; split <;> rfl
  | sweep => rfl
  | sleep => rfl
  | drop => rfl

theorem obs_marking {c : Ctx} (hp : c.phase = .mark) (hg : c.grayRemaining = true) :
    obs c = .marking := by simp [obs, hp, hg]

theorem obs_marked {c : Ctx} (hp : c.phase = .mark) (hg : c.grayRemaining = false) :
    obs c = .marked := by simp [obs, hp, hg]

theorem obs_sweeping {c : Ctx} (hp : c.phase = .sweep) : obs c = .sweeping := by simp [obs, hp]

theorem obs_sleeping {c : Ctx} (hp : c.phase = .sleep) : obs c = .sleeping := by simp [obs, hp]

/-- `Sleep → Mark`: from Sleeping the wake-up gives Marking, never Marked at once (the root flag
    is set while asleep: invariant clause `sleepRoot`). -/
theorem wake_observable {c c' : Ctx} {root : List Slot} (hinv : CInv c root [])
    (hs : c.micro root .wake = some c') : obs c = .sleeping ∧ obs c' = .marking := by
  simp only [Ctx.micro] at hs
  split at hs
  · cases hs; rename_i hp
    refine ⟨obs_sleeping hp, obs_marking rfl ?_⟩
    have hr : (c.switch .mark).rootNeedsTrace = true := hinv.sleepRoot hp
    simp [Ctx.grayRemaining, hr]
  · cases hs

/-- A `mark_one` that traces something is taken only while Marking; it leads to Marking or
    Marked, and to Marked exactly when both queues are empty and the root flag is clear
    afterwards. -/
theorem markStep_observable {c c' : Ctx} {root : List Slot} {f : Option Nat} (hinv : CInv c root [])
    (hs : c.micro root (.markStep f) = some c') :
    obs c = .marking ∧ (obs c' = .marking ∨ obs c' = .marked) ∧
    (obs c' = .marked ↔ (c'.gray = [] ∧ c'.grayAgain = [] ∧ c'.rootNeedsTrace = false)) := by
  simp only [Ctx.micro] at hs
  split at hs
  · cases hs; rename_i hp
    simp only [Bool.and_eq_true, decide_eq_true_eq] at hp
    have hp' : (c.markOne root f).1.phase = .mark := (markOne_spec hinv hp.1 f).2.phase.trans hp.1
    refine ⟨obs_marking hp.1 hp.2, ?_, ?_⟩
    · cases hg : (c.markOne root f).1.grayRemaining with
      | true => exact Or.inl (obs_marking hp' hg)
      | false => exact Or.inr (obs_marked hp' hg)
    · cases hg : (c.markOne root f).1.grayRemaining with
      | true =>
        rw [obs_marking hp' hg]
        constructor
        · intro h; cases h
        · rintro ⟨h1, h2, h3⟩
          simp [Ctx.grayRemaining, h1, h2, h3] at hg
      | false =>
        rw [obs_marked hp' hg]
        simp only [Ctx.grayRemaining, Bool.or_eq_false_iff, Bool.not_eq_false', List.isEmpty_iff] at hg
        exact ⟨fun _ => ⟨hg.1.1, hg.1.2, hg.2⟩, fun _ => rfl⟩
  · cases hs

/-- The `mark_one` that finds nothing to do is taken only when Marked, and changes nothing
    observable. -/
theorem markBreak_observable {c c' : Ctx} {root : List Slot}
    (hs : c.micro root .markBreak = some c') : obs c = .marked ∧ obs c' = .marked := by
  simp only [Ctx.micro] at hs
  split at hs
  · cases hs; rename_i hp
    simp only [Bool.and_eq_true, decide_eq_true_eq, Bool.not_eq_true'] at hp
    rw [markOne_break _ hp.2]
    exact ⟨obs_marked hp.1 hp.2, obs_marked hp.1 hp.2⟩
  · cases hs

/-- `Mark → Sweep` is taken only when Marked and gives Sweeping. -/
theorem toSweep_observable {c c' : Ctx} {root : List Slot}
    (hs : c.micro root .toSweep = some c') : obs c = .marked ∧ obs c' = .sweeping := by
  simp only [Ctx.micro] at hs
  split at hs
  · cases hs; rename_i hp
    simp only [Bool.and_eq_true, decide_eq_true_eq, Bool.not_eq_true'] at hp
    exact ⟨obs_marked hp.1 hp.2, obs_sweeping rfl⟩
  · cases hs

/-- Sweep steps (an object visited, or the end of the list found) keep Sweeping. -/
theorem sweepStep_observable {c c' : Ctx} {root : List Slot} {m : Micro} (hinv : CInv c root [])
    (hm : m = .sweepStep ∨ m = .sweepEnd) (hs : c.micro root m = some c') :
    obs c = .sweeping ∧ obs c' = .sweeping := by
  rcases hm with rfl | rfl
  all_goals
    simp only [Ctx.micro] at hs
    split at hs
    · cases hs; rename_i hp
      simp only [Bool.and_eq_true, decide_eq_true_eq] at hp
      exact ⟨obs_sweeping hp.1, obs_sweeping (sweepOne_spec hinv hp.1).2⟩
    · cases hs

/-- `Sweep → Sleep` is taken only while Sweeping and gives Sleeping. -/
theorem toSleep_observable {c c' : Ctx} {root : List Slot} {b : Bool}
    (hs : c.micro root (.toSleep b) = some c') : obs c = .sweeping ∧ obs c' = .sleeping := by
  simp only [Ctx.micro] at hs
  split at hs
  · cases hs; rename_i hp
    simp only [Bool.and_eq_true, decide_eq_true_eq] at hp
    exact ⟨obs_sweeping hp.1, obs_sleeping rfl⟩
  · cases hs

/-- One step along `Sleeping → Marking → Marked → Sweeping → Sleeping`, or none. -/
inductive ObsStep : Obs → Obs → Prop
  | same (s : Obs) : ObsStep s s
  | wake : ObsStep .sleeping .marking
  | marked : ObsStep .marking .marked
  | sweep : ObsStep .marked .sweeping
  | sleep : ObsStep .sweeping .sleeping

/-- Each collector micro-step leaves the observable phase or moves it one arrow forward. -/
theorem micro_observable_order {c c' : Ctx} {root : List Slot} (hinv : CInv c root []) (m : Micro)
    (hs : c.micro root m = some c') : ObsStep (obs c) (obs c') := by
  cases m with
  | wake => obtain ⟨h1, h2⟩ := wake_observable hinv hs; rw [h1, h2]; exact .wake
  | markStep f =>
    obtain ⟨h1, h2, _⟩ := markStep_observable hinv hs
    rw [h1]
    rcases h2 with h2 | h2 <;> rw [h2]
    · exact .same _
    · exact .marked
  | markBreak => obtain ⟨h1, h2⟩ := markBreak_observable hs; rw [h1, h2]; exact .same _
  | toSweep => obtain ⟨h1, h2⟩ := toSweep_observable hs; rw [h1, h2]; exact .sweep
  | sweepStep => obtain ⟨h1, h2⟩ := sweepStep_observable hinv (Or.inl rfl) hs; rw [h1, h2]; exact .same _
  | sweepEnd => obtain ⟨h1, h2⟩ := sweepStep_observable hinv (Or.inr rfl) hs; rw [h1, h2]; exact .same _
  | toSleep b => obtain ⟨h1, h2⟩ := toSleep_observable hs; rw [h1, h2]; exact .sleep

/-- No collector micro-step turns Marked back into Marking (only callbacks do:
    `callbacks_move_phase_only_marked_to_marking`). -/
theorem collector_never_unmarks {c c' : Ctx} {root : List Slot} (hinv : CInv c root []) (m : Micro)
    (hs : c.micro root m = some c') (hm : obs c = .marked) : obs c' ≠ .marking := by
  have := micro_observable_order hinv m hs
  rw [hm] at this
  intro he
  rw [he] at this
  cases this

/-- **Order of the observable phase.**  Along any sequence of collector micro-steps — hence
    inside every collection call, whatever `RunUntil` / `Stop` / debt / fault position — each
    step leaves `collection_phase()` unchanged or moves it along
    `Sleeping → Marking → Marked → Sweeping → Sleeping`. -/
theorem observable_phase_order {root : List Slot} (ms1 : List Micro) (m : Micro) {c c1 c2 : Ctx}
    (hinv : CInv c root []) (h1 : c.micros root ms1 = some c1) (h2 : c1.micro root m = some c2) :
    ObsStep (obs c1) (obs c2) :=
  micro_observable_order (micros_inv ms1 hinv h1) m h2

/-! ### The order of the observable phase over whole histories -/

/-- Every micro-step of the sequence `ms`, taken from `c`, moves the observable phase by one
    `ObsStep`.  The form is universal-conditional — "for every position of `ms`, if the prefix runs
    to `c1` and the step there leads to `c2` …" — and that is the stronger form, not a vacuous one:
    `Ctx.micros` is a function, so for a sequence that runs (`c.micros root ms = some c'`, which every
    use below supplies) *each* position has exactly one such pair `(c1, c2)`, the premise holds at
    every position, and the statement says all of them are `ObsStep`s.  The same content as a trace:
    `obsTrace` / `obsTrace_chain` / `observable_phase_trace_run` below (the list of observable phases
    visited is a chain of `ObsStep`s from the phase before to the phase after). -/
def MicrosObsOrdered (c : Ctx) (root : List Slot) (ms : List Micro) : Prop :=
  ∀ (ms1 ms2 : List Micro) (m : Micro) (c1 c2 : Ctx), ms = ms1 ++ m :: ms2 →
    c.micros root ms1 = some c1 → c1.micro root m = some c2 → ObsStep (obs c1) (obs c2)

/-- A mutator operation leaves the observable phase alone or takes Marked back to Marking
    (`callbacks_move_phase_only_marked_to_marking`, in terms of `obs`). -/
theorem callbacks_obs {a : Arena} (h : Inv a) (op : Op) (hop : op.isMutator = true) :
    obs (a.step op).1.ctx = obs a.ctx ∨ (obs a.ctx = .marked ∧ obs (a.step op).1.ctx = .marking) := by
  have hp := callbacks_keep_phase h op hop
  unfold obs
  rw [hp]
  cases hph : a.ctx.phase with
  | mark =>
    cases hg : a.ctx.grayRemaining with
    | true => left; rw [callbacks_never_finish_marking op hop hg]
    | false =>
      cases hg' : (a.step op).1.ctx.grayRemaining with
      | true => right; exact ⟨rfl, rfl⟩
      | false => left; rfl
  | sweep => left; rfl
  | sleep => left; rfl
  | drop => left; rfl

/-- **Order of the observable phase, over runs of the API.**  In every state of every history
    `(Arena.new n).run ops` — any interleaving of callbacks and collection calls — the next
    operation `op`, whatever it is,
    * is a mutator operation (anything a callback can do, entering / leaving one included): the
      observable phase stays or goes Marked → Marking; or
    * is a collection call (any method, continuation, debt, pacing, fault position, self- or
      oracle-driven) or a rejected drop: the context moves along a sequence `ms` of collector
      micro-steps *each of which* leaves the observable phase or moves it one arrow along
      `Sleeping → Marking → Marked → Sweeping → Sleeping`; or
    * drops the arena.
    So through every intermediate state of every history the phase moves only as the property
    says. -/
theorem observable_phase_order_run (n : Nat) (ops : List Op) (op : Op) :
    let a := (Arena.new n).run ops
    a.alive = true →
    (op.isMutator = true ∧
      (obs (a.step op).1.ctx = obs a.ctx ∨ (obs a.ctx = .marked ∧ obs (a.step op).1.ctx = .marking))) ∨
    (∃ ms, a.ctx.micros a.root ms = some (a.step op).1.ctx ∧ MicrosObsOrdered a.ctx a.root ms) ∨
    (a.step op).1.alive = false := by
  intro a halive
  have h : Inv a := inv_run n ops halive
  cases hal : (a.step op).1.alive with
  | false => exact Or.inr (Or.inr rfl)
  | true =>
    rcases step_kind h op hal with hop | rel
    · exact Or.inl ⟨hop, callbacks_obs h op hop⟩
    · right; left
      obtain ⟨ms, hms, hnil⟩ := rel.reach
      refine ⟨ms, hms, ?_⟩
      intro ms1 ms2 m c1 c2 hsplit h1 h2
      by_cases hcb : a.cb = none
      · exact observable_phase_order ms1 m (h.cinv0 hcb) h1 h2
      · have := hnil hcb
        rw [this] at hsplit
        cases ms1 <;> cases hsplit

/-- The observable phases of the states visited by the micro-steps `ms` from `c`. -/
def obsTrace (c : Ctx) (root : List Slot) : List Micro → List Obs
  | [] => [obs c]
  | m :: ms =>
    match c.micro root m with
    | some c' => obs c :: obsTrace c' root ms
    | none => [obs c]

/-- A list of observable phases each of which follows from the previous one by one `ObsStep`. -/
inductive ObsChain : List Obs → Prop
  | single (s : Obs) : ObsChain [s]
  | cons {s t : Obs} {l : List Obs} : ObsStep s t → ObsChain (t :: l) → ObsChain (s :: t :: l)

theorem obsTrace_head (c : Ctx) (root : List Slot) (ms : List Micro) :
    ∃ l, obsTrace c root ms = obs c :: l := by
  cases ms with
  | nil => exact ⟨[], rfl⟩
  | cons m ms =>
    simp only [obsTrace]
    split
    · exact ⟨_, rfl⟩
    · exact ⟨[], rfl⟩

/-- Existential / trace form: the phases visited form a chain of `ObsStep`s. -/
theorem obsTrace_chain {root : List Slot} (ms : List Micro) : ∀ {c : Ctx}, CInv c root [] →
    ObsChain (obsTrace c root ms) := by
  induction ms with
  | nil => intro c _; exact .single _
  | cons m ms ih =>
    intro c h
    simp only [obsTrace]
    cases hm : c.micro root m with
    | none => exact .single _
    | some c' =>
      simp only
      obtain ⟨l, hl⟩ := obsTrace_head c' root ms
      have := ih (micro_inv h m hm)
      rw [hl] at this ⊢
      exact .cons (micro_observable_order h m hm) this

/-- … it has one entry per state, starts at the phase before and ends at the phase after. -/
theorem obsTrace_ends {root : List Slot} (ms : List Micro) : ∀ {c c' : Ctx},
    c.micros root ms = some c' →
    (obsTrace c root ms).length = ms.length + 1 ∧ (obsTrace c root ms).head? = some (obs c) ∧
      (obsTrace c root ms).getLast? = some (obs c') := by
  induction ms with
  | nil => intro c c' hs; simp only [Ctx.micros] at hs; cases hs; simp [obsTrace]
  | cons m ms ih =>
    intro c c' hs
    simp only [Ctx.micros] at hs
    cases hm : c.micro root m with
    | none => rw [hm] at hs; cases hs
    | some c1 =>
      rw [hm] at hs
      obtain ⟨h1, _, h3⟩ := ih hs
      obtain ⟨l, hl⟩ := obsTrace_head c1 root ms
      simp only [obsTrace, hm]
      refine ⟨by simp [h1], rfl, ?_⟩
      rw [hl] at h3 ⊢
      rw [List.getLast?_cons_cons]; exact h3

/-- **The trace form of `observable_phase_order_run`.**  For a collection call (or rejected drop)
    applied in any state of any history: there is a micro-step sequence taking
    the context where the call took it whose trace of observable phases — one entry per intermediate
    state, first = the phase before the call, last = the phase after it — is a chain of `ObsStep`s. -/
theorem observable_phase_trace_run (n : Nat) (ops : List Op) (op : Op) :
    let a := (Arena.new n).run ops
    a.alive = true → op.isMutator = false → (a.step op).1.alive = true →
    ∃ ms tr, a.ctx.micros a.root ms = some (a.step op).1.ctx ∧ tr = obsTrace a.ctx a.root ms ∧
      ObsChain tr ∧ tr.length = ms.length + 1 ∧ tr.head? = some (obs a.ctx) ∧
      tr.getLast? = some (obs (a.step op).1.ctx) := by
  intro a halive hop hal
  have h : Inv a := inv_run n ops halive
  rcases step_kind h op hal with hm | rel
  · rw [hm] at hop; cases hop
  · obtain ⟨ms, hms, hnil⟩ := rel.reach
    by_cases hcb : a.cb = none
    · obtain ⟨e1, e2, e3⟩ := obsTrace_ends ms hms
      exact ⟨ms, _, hms, rfl, obsTrace_chain ms (h.cinv0 hcb), e1, e2, e3⟩
    · have := hnil hcb
      subst this
      obtain ⟨e1, e2, e3⟩ := obsTrace_ends [] hms
      exact ⟨[], _, hms, rfl, .single _, e1, e2, e3⟩

/-! ### The same facts about the API operations -/

/-- `Arena::finish_marking` (self-driven, outside callbacks, on any reachable state) returns
    `Some(MarkedArena)` exactly when the arena was not Sweeping — whatever the client then does
    with the result. -/
theorem finish_marking_some_iff_run (n : Nat) (pre : List Op) (k : Cont) :
    let a := (Arena.new n).run pre
    a.alive = true → a.cb = none →
    ((a.step (.collect .finishMarking k none none)).2 = "some" ↔ a.collectionPhase ≠ "Sweeping") := by
  intro a halive hcb
  have h : Inv a := inv_run n pre halive
  have h0 := h.cinv0 hcb
  have hnot : (!a.alive) = false := by rw [halive]; rfl
  have hret := doCollection_returns h0 .stop .fullyMarked
  have hiff := finish_marking_some_iff a.ctx a.root h0
  have hobs : a.collectionPhase ≠ "Sweeping" ↔ a.ctx.phase ≠ .sweep := by
    unfold Arena.collectionPhase
    cases hp : a.ctx.phase with
    | mark => simp only; split <;> simp
    | sweep => simp
    | sleep => simp
    | drop => simp
  rw [hobs, ← hiff]
  unfold Arena.step
  rw [hnot]
  simp only [Bool.false_eq_true, if_false, Arena.stepBody, hcb, Option.isSome_none, Arena.splitOracle,
    Arena.runCollector, Arena.methodArgs]
  rw [show (a.ctx.doCollection a.root .stop .fullyMarked none) =
    ((a.ctx.doCollection a.root .stop .fullyMarked none).1, (a.ctx.doCollection a.root .stop .fullyMarked none).2) from rfl,
    hret]
  simp only [Arena.marked?]
  cases hm : Arena.isMarked (a.ctx.doCollection a.root .stop .fullyMarked none).1 with
  | false => cases k <;> simp_all
  | true =>
    cases k with
    | drop => simp_all
    | finalize => simp_all
    | sweep =>
      have hsw := start_sweeping_ends_sweeping _ a.root hm
      simp [Arena.startSweeping, Arena.runCollector, hsw]

/-- `Arena::finish_cycle` (self-driven, outside callbacks, on any reachable state, from every
    phase) ends Sleeping. -/
theorem finish_cycle_ends_sleeping_run (n : Nat) (pre : List Op) (k : Cont) :
    let a := (Arena.new n).run pre
    a.alive = true → a.cb = none →
    (a.step (.collect .finishCycle k none none)).1.collectionPhase = "Sleeping" := by
  intro a halive hcb
  have h : Inv a := inv_run n pre halive
  rw [step_finishCycle h hcb k, collectionPhase_eq]
  show (obs (a.ctx.doCollection a.root .stop .finishCycle none).1).name = "Sleeping"
  rw [obs_sleeping (finish_cycle_ends_sleeping a.ctx a.root (h.cinv0 hcb))]
  rfl

/-- **A `MarkedArena` outstanding ⇒ the arena is fully marked**, in every state of every history:
    the model's `marked` flag (the client kept the `MarkedArena` of the previous call for `finalize`)
    is set only when `phase == Mark && !gray_remaining()` held, survives only the pacing / debt knobs
    (which touch the metrics alone), and is reset by every other operation.  Stronger than the clause
    `Inv.markedMark` of the invariant (`phase = mark ∧ cb = none`), and proved without changing it. -/
theorem marked_arena_outstanding_is_fully_marked (n : Nat) (ops : List Op) :
    ((Arena.new n).run ops).marked = true →
    Arena.isMarked ((Arena.new n).run ops).ctx = true ∧ ((Arena.new n).run ops).collectionPhase = "Marked" := by
  intro hm
  have h := marked_flag_run n ops hm
  refine ⟨h, ?_⟩
  simp only [Arena.isMarked, Bool.and_eq_true, decide_eq_true_eq, Bool.not_eq_true'] at h
  simp [Arena.collectionPhase, h.1, h.2]

/-! ### Non-vacuity -/

/-- A state with work left in every queue satisfies the hypotheses of the three loop theorems. -/
example : CInv ((Arena.new 1).run [.enter .mutate, .alloc true [none], .leave]).ctx
    ((Arena.new 1).run [.enter .mutate, .alloc true [none], .leave]).root [] := by
  have h := inv_run 1 [.enter .mutate, .alloc true [none], .leave] (by decide)
  have := h.cinv
  rwa [h.cbTemps (by decide)] at this

example : Arena.isMarked ((Arena.new 1).run
    [.collect .finishMarking .drop none (some [.wake, .markStep none, .markBreak])]).ctx = true := by decide

/-- root → 0, fully marked (object 0 black), inside a `mutate` callback holding object 0.
    `Marked → Marking` does happen: below through a backward barrier on the black object and
    through the root barrier of `mutate_root`; `C07.demo` shows the `resurrect` route. -/
def markedDemo : List Op := [
  .enter .mutateRoot, .alloc true [none], .rootStore 0 (some (.strong 0)), .leave,
  .collect .finishMarking .drop none (some [.wake, .markStep none, .markStep none, .markBreak]),
  .enter .mutate, .readRoot 0 ]

example : ((Arena.new 1).run markedDemo).alive = true := by decide
example : ((Arena.new 1).run markedDemo).collectionPhase = "Marked" := by decide
example : (((Arena.new 1).run markedDemo).step (.barrier (.bb 0 none))).1.collectionPhase = "Marking" := by
  decide
example : (((Arena.new 1).run (markedDemo.take 5)).step (.enter .mutateRoot)).1.collectionPhase = "Marking" := by
  decide

/-- Both disjuncts of `callbacks_move_phase_only_marked_to_marking` occur on `markedDemo`: the
    barrier takes the second, the (barrier-free) read the first. -/
example :
    let a := (Arena.new 1).run markedDemo
    (a.collectionPhase = "Marked" ∧ (a.step (.barrier (.bb 0 none))).1.collectionPhase = "Marking") ∧
      (a.step (.read 0 0)).1.collectionPhase = a.collectionPhase := by decide

/-- The hypothesis of `callbacks_never_finish_marking` is satisfiable inside a callback, and the
    work then survives the rest of the callback. -/
example :
    let a := ((Arena.new 1).run markedDemo).run [.barrier (.bb 0 none)]
    a.ctx.grayRemaining = true ∧ (a.run [.store .raw 0 0 none, .alloc true [none], .leave]).collectionPhase = "Marking" := by
  decide

/-- The API-level theorems apply to a concrete reachable state (asleep, root → 0): the self-driven
    `finish_marking` returns `Some`, and the kernel agrees by evaluation; `finish_cycle` ends
    Sleeping; while Sweeping `finish_marking` returns `None`. -/
example : (((Arena.new 1).run (markedDemo.take 4)).step (.collect .finishMarking .drop none none)).2 = "some" :=
  (finish_marking_some_iff_run 1 (markedDemo.take 4) .drop (by decide) (by decide)).mpr (by decide)
example : (((Arena.new 1).run (markedDemo.take 4)).step (.collect .finishMarking .drop none none)).2 = "some" := by
  decide
example : (((Arena.new 1).run (markedDemo.take 5)).step (.collect .finishCycle .drop none none)).1.collectionPhase
    = "Sleeping" := finish_cycle_ends_sleeping_run 1 (markedDemo.take 5) .drop (by decide) (by decide)
example :
    let a := (Arena.new 1).run (markedDemo.take 4 ++ [.collect .finishMarking .sweep none none])
    a.collectionPhase = "Sweeping" ∧ (a.step (.collect .finishMarking .drop none none)).2 = "none" := by decide

/-- Every arrow of `ObsStep` is taken by the oracle run of `markedDemo`'s cycle. -/
example :
    let a := (Arena.new 1).run (markedDemo.take 4)
    let st := fun (ms : List Micro) => (a.ctx.micros a.root ms).map obs
    st [] = some .sleeping ∧ st [.wake] = some .marking ∧ st [.wake, .markStep none] = some .marking ∧
    st [.wake, .markStep none, .markStep none] = some .marked ∧
    st [.wake, .markStep none, .markStep none, .markBreak, .toSweep] = some .sweeping ∧
    st [.wake, .markStep none, .markStep none, .markBreak, .toSweep, .sweepStep, .sweepEnd, .toSleep true]
      = some .sleeping := by decide

/-- `observable_phase_order_run` / `observable_phase_trace_run` on concrete states: a barrier inside
    a callback takes the first disjunct with Marked → Marking; a self-driven `finish_cycle` from the
    marked state takes the second, and its trace is Marked, Marked, Sweeping, Sweeping, Sweeping,
    Sleeping. -/
example : obs ((Arena.new 1).run markedDemo).ctx = .marked ∧
    obs (((Arena.new 1).run markedDemo).step (.barrier (.bb 0 none))).1.ctx = .marking := by decide

example : (Op.barrier (.bb 0 none)).isMutator = true ∧
    (obs (((Arena.new 1).run markedDemo).step (.barrier (.bb 0 none))).1.ctx = obs ((Arena.new 1).run markedDemo).ctx ∨
      (obs ((Arena.new 1).run markedDemo).ctx = .marked ∧
        obs (((Arena.new 1).run markedDemo).step (.barrier (.bb 0 none))).1.ctx = .marking)) := by
  rcases observable_phase_order_run 1 markedDemo (.barrier (.bb 0 none)) (by decide) with h | h | h
  · exact h
  · exact ⟨rfl, Or.inr (by decide)⟩
  · exact absurd h (by decide)

example : ∃ ms tr, ((Arena.new 1).run (markedDemo.take 5)).ctx.micros ((Arena.new 1).run (markedDemo.take 5)).root ms =
      some (((Arena.new 1).run (markedDemo.take 5)).step (.collect .finishCycle .drop none none)).1.ctx ∧
    tr = obsTrace ((Arena.new 1).run (markedDemo.take 5)).ctx ((Arena.new 1).run (markedDemo.take 5)).root ms ∧
    ObsChain tr ∧ tr.length = ms.length + 1 ∧ tr.head? = some .marked ∧ tr.getLast? = some .sleeping := by
  obtain ⟨ms, tr, h1, h2, h3, h4, h5, h6⟩ := observable_phase_trace_run 1 (markedDemo.take 5)
    (.collect .finishCycle .drop none none) (by decide) rfl (by decide)
  refine ⟨ms, tr, h1, h2, h3, h4, ?_, ?_⟩
  · rw [h5]; decide
  · rw [h6]; decide

example : obsTrace ((Arena.new 1).run (markedDemo.take 5)).ctx ((Arena.new 1).run (markedDemo.take 5)).root
    [.markBreak, .toSweep, .sweepStep, .sweepEnd, .toSleep false] =
    [.marked, .marked, .sweeping, .sweeping, .sweeping, .sleeping] := by decide

/-- The flag is set after `finish_marking` kept for `finalize`, survives a pacing knob, and the
    theorem applies. -/
example : ((Arena.new 1).run (markedDemo.take 4 ++
    [.collect .finishMarking .finalize none none, .adjustDebt 5])).marked = true := by decide
example : ((Arena.new 1).run (markedDemo.take 4 ++
    [.collect .finishMarking .finalize none none, .adjustDebt 5])).collectionPhase = "Marked" :=
  (marked_arena_outstanding_is_fully_marked 1 _ (by decide)).2

end GcArena.C08
