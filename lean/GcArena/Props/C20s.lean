import GcArena.Proofs.CallGraphDefs
/-!
# C20 (structural half) — no state is shared between arenas

Facts extracted from the current source tree: the crate declares no global state, and the two
constructors of per-arena state call nothing but fresh-value constructors.  The dynamic half
(`GcArena.Props.C20`) is about the multi-arena model and its correspondence runs.
-/
namespace GcArena.C20s
open GcArena.CallGraphM GcArena.Generated.CallGraph

/-- No `static`, `thread_local!` or `lazy_static!` in the source files … -/
theorem statics : rawStatics = [] := by decide

/-- … and the only `static` items of the macro-expanded crate (all features on) are the immutable
call-site metadata records that `tracing`'s logging macros generate. -/
theorem expanded_statics_are_tracing_callsites :
    expandedStatics.all (fun s => s.tracingCallsite && !s.isMut) = true := by decide

/-- The constructors of `Context` and of `Metrics` (inherent functions without receiver returning
the type — `Context::new`, `Metrics::new` today; tagged structurally) exist and, with what they call
by path (`Queue::new`, the `tracing` span helper), call only external functions that build a fresh value
(`Cell::new`, `Vec::new`, `Default::default`, …) or belongs to `tracing` (logging only). -/
theorem fresh_state :
    count (maskWhere fns (fun f => f.tag == .contextNew)) fns.length ≥ 1 ∧
    count (maskWhere fns (fun f => f.tag == .metricsNew)) fns.length ≥ 1 ∧
    freshRoots.all (fun n => freshFns.contains n) = true ∧
    maskOf freshRoots = maskWhere fns (fun f => f.tag == .contextNew || f.tag == .metricsNew) ∧
    freshExternal.all pureExternal = true := by decide +kernel

/-- Lower bounds (a translator that silently skips files or functions cannot make `statics` /
`fresh_state` vacuous): the `static` scan visited at least 15 source files with at least 100
top-level items, the expanded crate's scan met the `tracing` call-site records, and the two
constructors call at least 3 external functions through at least 2 crate functions. -/
theorem required_scan_coverage :
    rawFilesScanned ≥ 15 ∧ rawItemsScanned ≥ 100 ∧ expandedStatics.length ≥ 1 ∧
    freshExternal.length ≥ 3 ∧ freshFns.length ≥ 2 ∧ fns.length ≥ 300 := by decide +kernel

/-- Non-vacuity: the allow-list rejects global-state APIs. -/
example : pureExternal "std::thread::current" = false ∧ pureExternal "std::env::var" = false ∧
    pureExternal "core::cell::Cell::new" = true := by decide +kernel

/-! ## The clause, structural half

"Operations on one arena never affect another" — the part a source scan can say: the crate has no
global state through which two arenas could communicate, and per-arena state is built from fresh
values.  The behavioural statement is `Props/C20` (multi-arena model + correspondence runs). -/
def no_state_shared_between_arenas_statement : Prop :=
  rawStatics = [] ∧ expandedStatics.all (fun s => s.tracingCallsite && !s.isMut) = true ∧
    freshExternal.all pureExternal = true

theorem no_state_shared_between_arenas : no_state_shared_between_arenas_statement :=
  ⟨statics, expanded_statics_are_tracing_callsites, fresh_state.2.2.2.2⟩

end GcArena.C20s
