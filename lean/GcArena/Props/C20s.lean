import GcArena.Proofs.CallGraphDefs
/-!
# C20 (structural half) — no state is shared between arenas

Facts extracted from the current source tree: the crate declares no global state, and the two
constructors of per-arena state call nothing but fresh-value constructors.  The dynamic half
(`GcArena.Props.C20`) is about the multi-arena model and its correspondence runs.
-/
namespace GcArena.C20s
open GcArena.CallGraphM GcArena.Generated.CallGraph

/-- No `static`, `thread_local!` or `lazy_static!` in the source files … -/
theorem statics : rawStatics = [] := by decide

/-- … and the only `static` items of the macro-expanded crate (all features on) are the immutable
call-site metadata records that `tracing`'s logging macros generate. -/
theorem expanded_statics_are_tracing_callsites :
    expandedStatics.all (fun s => s.tracingCallsite && !s.isMut) = true := by decide

/-- `Context::new` and `Metrics::new` (and what they call by path: `Queue::new`, the `tracing`
span helper) exist, and every external function they call only builds a fresh value
(`Cell::new`, `Vec::new`, `Default::default`, …) or belongs to `tracing` (logging only). -/
theorem fresh_state :
    freshRoots.length = 2 ∧ freshRoots.all (fun n => freshFns.contains n) = true ∧
    maskOf freshRoots = maskWhere fns (fun f => f.tag == .contextNew || f.tag == .metricsNew) ∧
    freshExternal.all pureExternal = true := by decide +kernel

/-- Non-vacuity: the allow-list rejects global-state APIs. -/
example : pureExternal "std::thread::current" = false ∧ pureExternal "std::env::var" = false ∧
    pureExternal "core::cell::Cell::new" = true := by decide +kernel

end GcArena.C20s
