import GcArena.Model.Sys
import GcArena.Proofs.InvRun
/-!
# C20 — Arenas are independent of one another

In the model this is true by construction (each arena is a separate value; an operation names the
one it acts on) and the proofs are short inductions — stated as such.  The assurance that the
*code* is like this comes from the ties: `C20s` (translator: no `static`, `thread_local!` or lazily
initialised global in `src/`; `Context::new` / `Metrics::new` read no globals) and the multi-arena
correspondence runs, in which the implementation's arenas — interleaved at operation granularity,
different pacing, one dropped while another is mid-cycle — are compared with this model run
component-wise: any shared state in the code makes the *other* arena's snapshot, drop log, count,
debt or phase diverge.
-/
namespace GcArena.C20

open GcArena

/-- Frame: an operation on arena `k` leaves every other arena bit-for-bit equal (heap, colours,
    queues, metrics, pacing, phase, root, log). -/
theorem frame (s : Sys) (k j : Nat) (op : Op) (hjk : j ≠ k) : (s.stepAt k op).1[j]? = s[j]? := by
  unfold Sys.stepAt
  split
  · rfl
  · simp [List.getElem?_set, Ne.symm hjk]

/-- … and emits no event about another arena's objects (each arena carries its own log). -/
theorem frame_log (s : Sys) (k j : Nat) (op : Op) (hjk : j ≠ k) :
    ((s.stepAt k op).1[j]?).map (·.ctx.log) = (s[j]?).map (·.ctx.log) := by
  rw [frame s k j op hjk]

private theorem stepAt_self (s : Sys) (k : Nat) (op : Op) (a : Arena) (ha : s[k]? = some a) :
    (s.stepAt k op).1[k]? = some (a.step op).1 := by
  unfold Sys.stepAt
  simp only [ha]
  have : k < s.length := by
    rcases Nat.lt_or_ge k s.length with h | h
    · exact h
    · rw [List.getElem?_eq_none h] at ha; cases ha
  simp [List.getElem?_set, this]

/-- Projection: running an interleaved history and looking at arena `k` is the same as running
    only `k`'s operations on `k` alone — whatever is done to the others in between (including
    dropping one of them mid-cycle). -/
theorem projection (h : List (Nat × Op)) : ∀ (s : Sys) (k : Nat) (a : Arena), s[k]? = some a →
    (s.run h)[k]? = some (a.run (Sys.project k h)) := by
  induction h with
  | nil => intro s k a ha; simpa [Sys.run, Sys.project, Arena.run] using ha
  | cons p rest ih =>
    intro s k a ha
    obtain ⟨k', op⟩ := p
    simp only [Sys.run]
    by_cases hk : k' = k
    · subst hk
      have := ih (s.stepAt k' op).1 k' (a.step op).1 (stepAt_self s k' op a ha)
      simpa [Sys.project, Arena.run] using this
    · have hfr : (s.stepAt k' op).1[k]? = some a := by rw [frame s k' k op (Ne.symm hk)]; exact ha
      have := ih (s.stepAt k' op).1 k a hfr
      have hne : (k' == k) = false := by simpa using hk
      simpa [Sys.project, hne] using this

/-- Hence every per-arena guarantee (the invariant, and with it C01–C05) holds for each arena of
    a family regardless of what is done to the others. -/
theorem inv_per_arena (ns : List Nat) (h : List (Nat × Op)) (k n : Nat) (hk : ns[k]? = some n)
    (a : Arena) (ha : (Sys.run (ns.map Arena.new) h)[k]? = some a) (halive : a.alive = true) : Inv a := by
  have h0 : (ns.map Arena.new)[k]? = some (Arena.new n) := by simp [hk]
  have := projection h (ns.map Arena.new) k (Arena.new n) h0
  rw [this] at ha
  cases ha
  exact inv_run n _ halive

/-! ### Non-vacuity -/

example : ((Sys.run [Arena.new 1, Arena.new 2]
    [(0, .enter .mutate), (1, .collect .finishMarking .drop none (some [.wake, .markStep none, .markBreak])),
     (0, .alloc true [none]), (1, .dropArena), (0, .leave)])[1]?).map Arena.alive = some false := by decide

end GcArena.C20
