import GcArena.Proofs.BrandLemmas
import GcArena.Generated.BrandTable
/-!
# C12 — Brand isolation (property theorems; *partial*: rustc's region / trait checking is trusted)

"No program free of unsafe code can make a Gc, GcWeak, &'gc T, Mutation, Finalization,
DynamicRootSet or Write reference outlive the callback that produced it, store it in a 'static
location, return it from the callback, move it to another thread, or use it with a different arena;
all pointer and context types are invariant in the brand lifetime and none of them, nor Arena, is
Send or Sync."

What is proved here are the *structural premises* that make rustc reject those programs, over the
table `GcArena.Generated.BrandTable.table` that `/verif/extract_brand` regenerates from
`/repo/src/*.rs` on every check run (so each `decide` below is a complete re-check of the current
source facts), plus general lemmas about the model of rustc's variance / auto-trait / binder rules
(`GcArena.Model.Brand`) that hold for every table.  The step from these premises to "rustc rejects
every escaping program" is rustc's soundness (trusted) and is cross-validated by the adversarial
probe corpus of `/verif/probes_brand` (engine `lib/eng_brand.py`).
-/
namespace GcArena.C12

open GcArena.Brand
open GcArena.Generated.BrandTable (table)

/-! ## General lemmas (all tables) -/

/-- A struct with a field invariant in a parameter is invariant in it, whatever else it contains. -/
theorem variance_inv_of_field (tbl : Table) (n : String) (d : AdtDef) (f : Field) (tgt : Target)
    (hd : tbl.find n = some d) (hf : f ∈ d.fields)
    (hv : varTy (adtVarOracle tbl fuel) tgt .co f.ty = .inv) :
    tbl.variance n tgt = .inv :=
  GcArena.Brand.variance_inv_of_field tbl n d f tgt hd hf hv

/-- `PhantomData<Cell<&'a ()>>` is invariant in `'a` (any table, any fuel). -/
theorem invariant_marker (look : VarOracle) (a : String) :
    varTy look (.lt a) .co (.std .phantomData [.std .cell [.ref (.named a) (.tuple [])]]) = .inv :=
  GcArena.Brand.invariant_marker look a

/-- A struct with a non-`Send` field and no `unsafe impl Send` is not `Send` for any instantiation. -/
theorem not_send_of_field (tbl : Table) (n : String) (d : AdtDef) (f : Field)
    (hd : tbl.find n = some d) (hf : f ∈ d.fields)
    (hv : (autoTy (adtAutoOracle tbl fuel) [] f.ty).send = false)
    (hi : tbl.hasAutoImpl "Send" n false = false) :
    (tbl.autoOf n).send = false :=
  GcArena.Brand.not_send_of_field tbl n d f hd hf hv hi

/-- A struct with a non-`Sync` field and no `unsafe impl Sync` is not `Sync` for any instantiation. -/
theorem not_sync_of_field (tbl : Table) (n : String) (d : AdtDef) (f : Field)
    (hd : tbl.find n = some d) (hf : f ∈ d.fields)
    (hv : (autoTy (adtAutoOracle tbl fuel) [] f.ty).sync = false)
    (hi : tbl.hasAutoImpl "Sync" n false = false) :
    (tbl.autoOf n).sync = false :=
  GcArena.Brand.not_sync_of_field tbl n d f hd hf hv hi

/-- A type whose lifetime and type parameters are all bound outside a `for<'g>` binder cannot
mention `'g`, under any instantiation of the outer type parameters by types formed outside the
binder. -/
theorem binder_closed (t : Ty) (outerLts outerTys : List String) (g : String) (σ : String → Ty)
    (hc : t.closedUnder outerLts outerTys = true) (hg : g ∉ outerLts)
    (hσ : ∀ p ∈ outerTys, (σ p).mentionsLt g = false) :
    (t.subst σ).mentionsLt g = false :=
  GcArena.Brand.binder_closed t outerLts outerTys g σ hc hg hσ

/-! ## Table theorems (the current generated table) -/

/-- The translator classified every item and every field type (fail closed otherwise). -/
theorem table_classified : table.fieldsClassified = true := by decide

/-- The crate's `Invariant<'a>` alias is the invariant marker: its body is invariant in its
parameter. -/
theorem invariant_alias :
    ∃ al, table.findAlias "Invariant" = some al ∧ al.lts = ["a"] ∧
      varTy (adtVarOracle table fuel) (.lt "a") .co al.body = .inv := by
  refine ⟨_, rfl, ?_, ?_⟩ <;> decide

/-- Every type the property names, and every other type of the crate with a `'gc` parameter
(public or private), exists in the table with a `'gc` parameter and is invariant in it. -/
theorem branded_invariant :
    ∀ n ∈ requiredBranded ++ table.branded, table.invariantInBrand n = true := by decide

/-- Those types, and `Arena`, `DynamicRoot`, `MarkedArena`, `Metrics`, are neither `Send` nor
`Sync`, for every instantiation of their parameters. -/
theorem not_send_not_sync :
    ∀ n ∈ requiredNotSendSync ++ table.branded, table.notSendSync n = true := by decide

/-- The builders hand a caller-supplied value of their type parameter to the arena, and the safe
finishing methods (`write`, `write_header`, `write_slice_with`, `copy_slice`) carry no `Collect`
bound of their own — the bound is checked when the builder is created.  They must therefore be
invariant in their value type parameters: a covariant `GcBuilder<'gc, &'static U>` coerces to
`GcBuilder<'gc, &'gc U>`, and a `&'gc U` ends up stored in the arena, outliving its callback
(defect D4 of the pinned tree; fixed by the `*mut T` marker). -/
theorem builders_invariant_in_value_type :
    ∀ nt ∈ [("GcBuilder", "T"), ("GcSliceBuilder", "E"), ("GcSliceWithHeaderBuilder", "H"),
            ("GcSliceWithHeaderBuilder", "E"), ("GcSliceWithHeaderSliceBuilder", "H"),
            ("GcSliceWithHeaderSliceBuilder", "E")],
      table.variance nt.1 (.ty nt.2) = .inv := by decide

/-- The crate contains no explicit (positive) `impl Send` / `impl Sync` at all. -/
theorem no_explicit_auto_impls : table.violAutoImpls = [] := by decide

/-- Every callback-taking entry point the property names is in the table. -/
theorem callbacks_present :
    ∀ n ∈ requiredCallbacks, (table.callbackNamed n).isSome = true := by decide

/-- Every callback-taking entry point (the named ones and any other function of the crate whose
callback receives a `Mutation` / `Finalization`) is `for<'gc>`-quantified with exactly one fresh
lifetime, takes `&'gc Mutation<'gc>` (or `Finalization`) first, passes only `'gc`-branded root
projections of its own root parameter besides, and has a result type that is closed under the
parameters declared outside the binder, or is the new arena's own root projection. -/
theorem callbacks_higher_ranked : ∀ cb ∈ table.callbacks, cb.ok = true := by decide

/-- Consequence (via `binder_closed`): whatever types a client picks for the outer parameters of
an entry point whose callback result is closed, the instantiated result type cannot mention the
brand. -/
theorem callback_result_brand_free :
    ∀ cb ∈ table.callbacks, ∀ g, cb.brand = some g →
      cb.ret.closedUnder cb.outerLts cb.outerTys = true →
      ∀ σ : String → Ty, (∀ p ∈ cb.outerTys, (σ p).mentionsLt g = false) →
        (cb.ret.subst σ).mentionsLt g = false := by
  intro cb hcb g hg hc σ hσ
  have hok : cb.ok = true := callbacks_higher_ranked cb hcb
  have hb : cb.binderOk = true := by
    simp only [Callback.ok, Bool.and_eq_true] at hok
    exact hok.1.1.1
  have hfresh : g ∉ cb.outerLts := by
    simp only [Callback.binderOk, hg, Bool.and_eq_true, Bool.not_eq_true',
      List.contains_eq_mem, decide_eq_false_iff_not] at hb
    exact hb.1
  exact GcArena.Brand.binder_closed cb.ret cb.outerLts cb.outerTys g σ hc hfresh hσ

/-- `Collect` impls whose head is a reference, `Cell`, `RefCell`, `UnsafeCell` or `Static` are
`'static`-only: every type parameter in the head carries a `'static` bound and every lifetime in
the head is `'static` (or the whole head is bounded by `'static`). -/
theorem collect_static_only :
    ∀ ci ∈ table.collectImpls, ci.mustBeStatic = true → ci.staticOk = true := by decide

/-- Every lifetime `transmute` in `dynamic_roots.rs` that introduces a lifetime (re-brands a
`'static` value to `'gc`) is dominated by `if self.contains(<the root being re-branded>)`, or
produces only a raw pointer that is returned to the caller (unusable without `unsafe`), or sits in
an `unsafe fn`. -/
theorem transmutes_guarded :
    ∀ t ∈ table.transmutesIn "dynamic_roots.rs", t.ok = true := by decide

/-- `Write<T>` is a transparent wrapper around `T` (one field of type `T`, no lifetime parameter,
no explicit auto-trait impl): a `&'gc Write<T>` carries exactly the brands of `&'gc T`. -/
theorem write_transparent : table.writeTransparent = true := by decide

/-! ## Non-vacuity -/

/-- The variance check can fail: the covariant look-alike marker is not invariant. -/
example : varTy (adtVarOracle table fuel) (.lt "a") .co
    (.std .phantomData [.ref (.named "a") (.tuple [])]) = .co := by decide

/-- A table whose `Mutation` lost its marker field is rejected by `invariantInBrand`. -/
example :
    ({ table with adts := table.adts.map (fun d =>
        if d.name == "Mutation" then { d with fields := d.fields.filter (·.name != "_invariant") }
        else d) } : Table).invariantInBrand "Mutation" = false := by decide

/-- The quantifiers range over something: 11 required branded types, at least 14 in the table. -/
example : requiredBranded.length = 11 ∧ 14 ≤ table.branded.length := by decide

/-- `Gc`'s invariance is obtained from its `_marker` field (the second one) through the general
lemma, independently of the `ptr` field. -/
example : table.variance "Gc" (.lt "gc") = .inv := by
  refine variance_inv_of_field table "Gc" _ _ (.lt "gc") rfl
    (List.mem_cons_of_mem _ (List.mem_cons_self ..)) ?_
  decide

/-- … and `Mutation` is not `Send` because of its `context` field, through the general lemma. -/
example : (table.autoOf "Mutation").send = false := by
  refine not_send_of_field table "Mutation" _ _ rfl (List.mem_cons_self ..) ?_ ?_ <;> decide

/-- The auto-trait derivation is not constantly "no": `Pacing` (plain floats) is `Send + Sync`. -/
example : (table.autoOf "Pacing").send = true ∧ (table.autoOf "Pacing").sync = true := by decide

/-- Eight entry points, all found. -/
example : requiredCallbacks.length = 8 ∧ 8 ≤ table.callbacks.length := by decide

/-- The callback check can fail: `mutate` with the brand turned into an outer lifetime parameter
(`fn mutate<'a, F: FnOnce(&'a Mutation<'a>, &'a Root<'a, R>) -> T>`) is rejected. -/
example : Callback.ok
    { name := "Arena::mutate", file := "arena.rs", outerLts := ["a"], outerTys := ["R", "F", "T"],
      fnTrait := "FnOnce", binder := [],
      args := [.ref (.named "a") (.adt "Mutation" [.named "a"] []),
               .ref (.named "a") (.proj (.param "R") "Rootable" [.named "a"] [] "Root")],
      ret := .param "T", fnRet := .param "T" } = false := by decide

/-- … and so is a callback that may return a branded pointer. -/
example : Callback.ok
    { name := "Arena::mutate", file := "arena.rs", outerLts := [], outerTys := ["R", "F", "T"],
      fnTrait := "FnOnce", binder := ["gc"],
      args := [.ref (.named "gc") (.adt "Mutation" [.named "gc"] []),
               .ref (.named "gc") (.proj (.param "R") "Rootable" [.named "gc"] [] "Root")],
      ret := .adt "Gc" [.named "gc"] [.param "T"], fnRet := .param "T" } = false := by decide

/-- The `'static`-only filter selects the four impls the property names (`&'static T`, `Cell`,
`RefCell`, `Static`). -/
example : ((table.collectImpls.filter (·.mustBeStatic)).map (·.selfTy.head)) =
    ["&", "Cell", "RefCell", "Static"] := by decide

/-- Two re-branding transmutes (`fetch`, `try_fetch`) exist and are the guarded ones; `as_ptr`
is the raw-pointer one. -/
example : (((table.transmutesIn "dynamic_roots.rs").filter
      (fun t => !t.introduces.isEmpty)).map (fun t => (t.fn_, t.guardedByContains, t.rawOnly))) =
    [("DynamicRootSet::fetch", true, false), ("DynamicRootSet::try_fetch", true, false),
     ("DynamicRoot::as_ptr", false, true)] := by decide

end GcArena.C12
