import GcArena.Proofs.BrandLemmas
import GcArena.Generated.BrandTable
import GcArena.Proofs.BrandFlowLemmas
import GcArena.Generated.BrandFlow
/-!
# C12 — Brand isolation (property theorems; *partial*: rustc's region / trait checking is trusted)

"No program free of unsafe code can make a Gc, GcWeak, &'gc T, Mutation, Finalization,
DynamicRootSet or Write reference outlive the callback that produced it, store it in a 'static
location, return it from the callback, move it to another thread, or use it with a different arena;
all pointer and context types are invariant in the brand lifetime and none of them, nor Arena, is
Send or Sync."

What is proved here are the *structural premises* that make rustc reject those programs, over the
table `GcArena.Generated.BrandTable.table` that `/verif/extract_brand` regenerates from
`/repo/src/*.rs` on every check run (so each `decide` below is a complete re-check of the current
source facts), plus general lemmas about the model of rustc's variance / auto-trait / binder rules
(`GcArena.Model.Brand`) that hold for every table.  The step from these premises to "rustc rejects
every escaping program" is rustc's soundness (trusted) and is cross-validated by the adversarial
probe corpus of `/verif/probes_brand` (engine `lib/eng_brand.py`).

**Where the sentence of the property itself is stated.**  "No safe program can make a branded value
outlive its callback, reach a `'static` location, be returned from the callback, or be used with a
different arena" is a statement about *programs*; the only programs this development has a
semantics for are those of the brand-flow calculus (`GcArena.Model.BrandFlow`: enter a callback with
a fresh brand, leave it, call any function safe code can call under any instantiation of its
lifetime parameters, drop values).  Over those programs the sentence is `no_escape_in_flow_model`
below – proved in full for that model.  It is **not** a theorem about Rust programs: that every
safe Rust client is over-approximated by a program of the calculus is what rustc (trusted)
contributes, see the docstring.  The thread clause ("move it to another thread") has no counterpart
in the calculus; it rests on `not_send_not_sync` and rustc's auto-trait checking.
-/
namespace GcArena.C12

open GcArena.Brand
open GcArena.Generated.BrandTable (table)

/-! ## General lemmas (all tables) -/

/-- A struct with an unconditional (not `#[cfg]`-gated) field invariant in a parameter is invariant
in it, whatever else it contains.  (`#[cfg]`-gated fields are left out of every variance, auto-trait
and holding computation: an answer must hold in every configuration.) -/
theorem variance_inv_of_field (tbl : Table) (n : String) (d : AdtDef) (f : Field) (tgt : Target)
    (hd : tbl.find n = some d) (hf : f ∈ d.fields) (hc : f.cfg = "")
    (hv : varTy (adtVarOracle tbl fuel) tgt .co f.ty = .inv) :
    tbl.variance n tgt = .inv :=
  GcArena.Brand.variance_inv_of_field tbl n d f tgt hd hf hc hv

/-- `PhantomData<Cell<&'a ()>>` is invariant in `'a` (any table, any fuel). -/
theorem invariant_marker (look : VarOracle) (a : String) :
    varTy look (.lt a) .co (.std .phantomData [.std .cell [.ref (.named a) (.tuple [])]]) = .inv :=
  GcArena.Brand.invariant_marker look a

/-- A struct with a non-`Send` field and no `unsafe impl Send` is not `Send` for any instantiation. -/
theorem not_send_of_field (tbl : Table) (n : String) (d : AdtDef) (f : Field)
    (hd : tbl.find n = some d) (hf : f ∈ d.fields) (hc : f.cfg = "")
    (hv : (autoTy (adtAutoOracle tbl fuel) [] f.ty).send = false)
    (hi : tbl.hasAutoImpl "Send" n false = false) :
    (tbl.autoOf n).send = false :=
  GcArena.Brand.not_send_of_field tbl n d f hd hf hc hv hi

/-- A struct with a non-`Sync` field and no `unsafe impl Sync` is not `Sync` for any instantiation. -/
theorem not_sync_of_field (tbl : Table) (n : String) (d : AdtDef) (f : Field)
    (hd : tbl.find n = some d) (hf : f ∈ d.fields) (hc : f.cfg = "")
    (hv : (autoTy (adtAutoOracle tbl fuel) [] f.ty).sync = false)
    (hi : tbl.hasAutoImpl "Sync" n false = false) :
    (tbl.autoOf n).sync = false :=
  GcArena.Brand.not_sync_of_field tbl n d f hd hf hc hv hi

/-- A type whose lifetime and type parameters are all bound outside a `for<'g>` binder cannot
mention `'g`, under any instantiation of the outer type parameters by types formed outside the
binder. -/
theorem binder_closed (t : Ty) (outerLts outerTys : List String) (g : String) (σ : String → Ty)
    (hc : t.closedUnder outerLts outerTys = true) (hg : g ∉ outerLts)
    (hσ : ∀ p ∈ outerTys, (σ p).mentionsLt g = false) :
    (t.subst σ).mentionsLt g = false :=
  GcArena.Brand.binder_closed t outerLts outerTys g σ hc hg hσ

/-! ## Table theorems (the current generated table) -/

/-- The translator classified every item and every field type (fail closed otherwise). -/
theorem table_classified : table.fieldsClassified = true := by decide

/-- The crate's `Invariant<'a>` alias is the invariant marker: its body is invariant in its
parameter. -/
theorem invariant_alias :
    ∃ al, table.findAlias "Invariant" = some al ∧ al.lts = ["a"] ∧
      varTy (adtVarOracle table fuel) (.lt "a") .co al.body = .inv := by
  refine ⟨_, rfl, ?_, ?_⟩ <;> decide

/-- Every type the property names, and every other type of the crate with a `'gc` parameter
(public or private), exists in the table with a `'gc` parameter and is invariant in it. -/
theorem branded_invariant :
    ∀ n ∈ requiredBranded ++ table.branded, table.invariantInBrand n = true := by decide

/-- Those types, and `Arena`, `DynamicRoot`, `MarkedArena`, `Metrics`, are neither `Send` nor
`Sync`, for every instantiation of their parameters. -/
theorem not_send_not_sync :
    ∀ n ∈ requiredNotSendSync ++ table.branded, table.notSendSync n = true := by decide

/-- **Builder rule** (defect D4 of the pinned tree, fixed by the `*mut T` marker).  The rows are not
hand-written: `table.builderRows` derives them from the regenerated table – every (public type, type
parameter `P`) such that the type holds a `P` only behind a raw pointer / `NonNull` / `MaybeUninit`
and never by value (so rustc infers covariance from the pointer unless a marker says otherwise,
`Brand.holdsTy` follows nested types), **and** some safe method accepts a value of `P` (by value,
by reference, as the result of a callback or the item of an iterator) without a `Collect` /
`'static` bound on `P` at that method (the bound having been checked when the value was created).
Every such type must be invariant in `P`: a covariant `GcBuilder<'gc, &'static U>` coerces to
`GcBuilder<'gc, &'gc U>`, and `write` stores an untraced `&'gc U` in the arena. -/
theorem builders_invariant_in_value_type :
    ∀ r ∈ table.builderRows, table.builderOk r = true := by decide

/-- Lower bound for the derived rows: the hand-written list that preceded the derivation (all six
pairs) is contained in `table.builderRows`, and each of them is invariant – so the ∀ above cannot
become vacuous because the heuristics behind `builderRows` stop firing. -/
theorem required_builder_rows :
    ∀ r ∈ requiredBuilderRows, table.builderRows.contains r = true ∧ table.builderOk r = true := by
  decide

/-- The crate contains no explicit (positive) `impl Send` / `impl Sync` at all. -/
theorem no_explicit_auto_impls : table.violAutoImpls = [] := by decide

/-- Every callback-taking entry point the property names is in the table. -/
theorem callbacks_present :
    ∀ n ∈ requiredCallbacks, (table.callbackNamed n).isSome = true := by decide

/-- Every callback-taking entry point that client code free of `unsafe` can call (the named ones
and any other safe `pub fn` of the crate whose callback receives a `Mutation` / `Finalization`;
private or `unsafe` helpers that merely pass a callback on are covered by
`brand_sites_behind_callbacks`) is `for<'gc>`-quantified with exactly one fresh
lifetime, takes `&'gc Mutation<'gc>` (or `Finalization`) first, passes only `'gc`-branded root
projections of its own root parameter besides, and has a result type that is closed under the
parameters declared outside the binder, or is the new arena's own root projection. -/
theorem callbacks_higher_ranked : ∀ cb ∈ table.clientCallbacks, cb.ok = true := by decide

/-- **Where brands are created.**  Every place of the crate that creates a brand out of nothing –
every call (or mention) of a *brand source* (an `unsafe fn` whose result is a `Mutation` /
`Finalization` with a caller-chosen lifetime: `Context::mutation_context`, `finalization_context`),
and every reference `arena.rs` makes by dereferencing a pointer cast (`&*(e as *const _)`: the
`&'static Mutation`, `&'static Root`) – sits in a client entry point all of whose callbacks pass
`callbacks_higher_ranked`, or in a private / `unsafe` helper every in-crate caller of which
(followed up the call graph, `Brand.srcBlame`) ends in such an entry point.  So a brand made from
nothing can only ever be handed to a `for<'gc>` callback.

Limits (also in the evidence file, `limits`): the *bodies* of the brand sources themselves
(`context.rs`: `transmute::<&Context, &Mutation>`; `Finalization::deref`) and the `transmute`s of
`barrier.rs` (`Write::assume` / `from_static` / `from_mut`, brand-preserving `repr(transparent)`
casts) are recorded in the table but are under no ∀ here; pointer casts outside `arena.rs` are not
recorded. -/
theorem brand_sites_behind_callbacks :
    ∀ b ∈ table.brandSites, table.brandSiteOk b = true := by decide

/-- Lower bound: brand sources were found, every named entry point holds a brand-creating site or
reaches one through a helper, and at least eight sites were recorded. -/
theorem brand_sites_present :
    2 ≤ table.brandSources.length ∧ 8 ≤ table.brandSites.length ∧
    (∀ n ∈ requiredCallbacks, (table.brandSites.any (fun b => b.fn_ == n) ||
        table.callSites.any (fun cs => cs.caller == n)) = true) := by decide

/-- Consequence (via `binder_closed`): whatever types a client picks for the outer parameters of
an entry point whose callback result is closed, the instantiated result type cannot mention the
brand. -/
theorem callback_result_brand_free :
    ∀ cb ∈ table.clientCallbacks, ∀ g, cb.brand = some g →
      cb.ret.closedUnder cb.outerLts cb.outerTys = true →
      ∀ σ : String → Ty, (∀ p ∈ cb.outerTys, (σ p).mentionsLt g = false) →
        (cb.ret.subst σ).mentionsLt g = false := by
  intro cb hcb g hg hc σ hσ
  have hok : cb.ok = true := callbacks_higher_ranked cb hcb
  have hb : cb.binderOk = true := by
    simp only [Callback.ok, Bool.and_eq_true] at hok
    exact hok.1.1.1
  have hfresh : g ∉ cb.outerLts := by
    simp only [Callback.binderOk, hg, Bool.and_eq_true, Bool.not_eq_true',
      List.contains_eq_mem, decide_eq_false_iff_not] at hb
    exact hb.1
  exact GcArena.Brand.binder_closed cb.ret cb.outerLts cb.outerTys g σ hc hfresh hσ

/-- `Collect` impls whose head is a reference, `Cell`, `RefCell`, `UnsafeCell` or `Static` are
`'static`-only: every type parameter in the head carries a `'static` bound and every lifetime in
the head is `'static` (or the whole head is bounded by `'static`). -/
theorem collect_static_only :
    ∀ ci ∈ table.collectImpls, ci.mustBeStatic = true → ci.staticOk = true := by decide

/-- Lower bound: the impls the property names (`&'static T`, `Cell`, `RefCell`, `Static`) are among
those the rule above ranges over. -/
theorem collect_static_impls_present :
    ∀ h ∈ ["&", "Cell", "RefCell", "Static"],
      table.collectImpls.any (fun ci => ci.mustBeStatic && ci.selfTy.head == h) = true := by decide

/-- Every re-branding site of `dynamic_roots.rs` — a lifetime `transmute` that introduces a
lifetime (`Gc<'static, _>` ↦ `Gc<'gc, _>`) — only ever sees a handle that passed the identity check
of the set handing it out: the site is dominated by `if self.contains(<the handle>)`, or it sits in
a private `unsafe fn` helper all of whose call sites in the crate (followed up the call graph, by
parameter position) are so dominated, or it sits in a `pub unsafe fn` (not callable by safe code),
or its result only exists as a raw pointer returned to the caller.  A safe function must check
itself.  The rule is structural (`Brand.blame`): it does not depend on the names or the number of
the functions involved.  Together with `table_classified` (every `unsafe` region of that file is a
single transmute or helper call) there is no other way the file re-brands anything. -/
theorem transmutes_guarded :
    ∀ t ∈ table.transmutesIn "dynamic_roots.rs", table.transmuteOk t = true := by decide

/-- Lower bound: re-branding sites that need a cover exist, and the identity check is applied at
least once (at a site, or at the call of a helper). -/
theorem rebrand_sites_present :
    1 ≤ table.rebrandSites.length ∧ 1 ≤ table.identityChecks := by decide

/-- What the guard means: `DynamicRootSet::contains` – the function whose call dominates every
re-branding site – returns `bool` and ends in a comparison (`==` / `ptr::eq`) one side of which is
computed from `self` alone and the other from the handle alone (read from its body by the
translator; a `contains` that returns a constant, or compares the handle with itself, voids every
guard and `transmutes_guarded` fails). -/
theorem identity_check_is_comparison : identityCheckOk table.identityFns = true := by decide

/-- `Write<T>` is a transparent wrapper around `T` (one field of type `T`, no lifetime parameter,
no explicit auto-trait impl): a `&'gc Write<T>` carries exactly the brands of `&'gc T`. -/
theorem write_transparent : table.writeTransparent = true := by decide

/-! ## The escape clause, over the programs of the flow model -/

/-- **No escape in the flow model.**  For the brand-flow table regenerated from the current source
(`GcArena.Generated.brandFlow`: every function code without `unsafe` can call whose result carries a
lifetime, with the brands of result and inputs) and every program of the calculus of
`Model/BrandFlow.lean` – any interleaving of: a generative entry point calls the client's callback
with a brand never used before; the innermost callback returns; the program calls any table entry
under any instantiation of its lifetime parameters for which it holds the branded inputs; the
program drops values – in every state `st` the program can reach:

1. **outlive / `'static` location.**  Every branded value the program holds has the brand of a
   callback that is executing *now*, and a brand some callback introduced: it holds nothing whose
   brand is `'static` or an outer region, and nothing of a callback that has returned.
2. **return from the callback.**  If the innermost callback (brand `b`) returns now, then in *every*
   state the program can reach afterwards nothing of brand `b` is held and `b` is never active
   again.
(Values held are pointers, contexts, root sets **and references into the arena**: a call hands the
program `σ l` for every brand `l` of its result and for every reference lifetime of its result that
is a brand of the signature – `&'gc T` from `Gc::as_ref`, `&'gc Write<T>` from `Gc::write` /
`unlock`, `Ref<'gc, T>` from `borrow`, `OnceLock::get`, … (`Sig.outHeld`) – so all seven kinds of
value the property names are in `held`; clause 4 says where they come from.)

3. **different arena.**  Every call the program can make now involves exactly one brand – all
   branded inputs and all branded results share it – and it is the brand of an executing callback:
   a pointer of arena A is never combined with the `Mutation` or the root set of arena B, and no
   call turns a value of A into a value of B.

What is proved: the statement above, in full, for the model.  What is **not** proved here and is
contributed by rustc (trusted; cross-validated by the escape / cross-arena probes):

* that the calculus over-approximates safe Rust clients: rustc type-checks every call against the
  extracted signature with *one* instantiation per lifetime parameter and, the branded types being
  invariant (`branded_invariant`), cannot change a brand by subtyping;
* the `exit` rule of the calculus – when a `for<'gc>` callback returns, no value whose type
  mentions `'gc` survives it: the result type cannot mention the brand (`callbacks_higher_ranked`,
  `callback_result_brand_free`), captured state cannot name it (rustc's higher-ranked region
  check), and a `'static` location cannot hold it (`binder_closed`);
* the translator's classification of lifetime positions in `Generated/BrandFlow.lean`.

The thread clause of C12 is not expressible in the calculus (see `not_send_not_sync`). -/
theorem no_escape_in_flow_model {st : GcArena.BrandFlow.State}
    (hr : GcArena.BrandFlow.Reachable GcArena.Generated.brandFlow st) :
    (∀ b ∈ st.held, b ∈ st.active ∧ b ∈ st.opened) ∧
    (∀ (b : Nat) (rest : List Nat), st.active = b :: rest →
      ∀ st', GcArena.BrandFlow.Steps GcArena.Generated.brandFlow
          { st with active := rest, held := st.held.filter (· != b) } st' →
        b ∉ st'.held ∧ b ∉ st'.active) ∧
    (∀ (s : GcArena.BrandFlow.Sig) (σ : String → Nat), s ∈ GcArena.Generated.brandFlow.sigs →
      s.callable = true → (∀ l ∈ s.inBrands, σ l ∈ st.held) →
      ∀ b ∈ s.brands.map σ, b ∈ st.active ∧ ∀ b' ∈ s.brands.map σ, b' = b) ∧
    (∀ (s : GcArena.BrandFlow.Sig) (σ : String → Nat), s ∈ GcArena.Generated.brandFlow.sigs →
      s.callable = true → (∀ l ∈ s.inBrands, σ l ∈ st.held) →
      ∀ b ∈ s.outHeld.map σ, ∃ l ∈ s.inBrands, σ l = b ∧ b ∈ st.held) :=
  GcArena.BrandFlow.no_escape_of_table_ok (by decide) hr

/-! ## Non-vacuity -/

/-- The flow model is not empty, and the escape clause can fail: with one entry whose result brand
is not the brand of an input (the seeded `unsize!` change, `GcWeak<'gc, T>` ↦ `GcWeak<'w, U>`), the
calculus reaches a state in which the program holds brand 0 – never introduced by any callback –
after the only callback has returned. -/
example :
    let sg : GcArena.BrandFlow.Sig :=
      { name := "__coerce_unchecked", isUnsafe := true, macroReachable := true,
        outBrands := ["w"], inBrands := ["gc"] }
    let T : GcArena.BrandFlow.Table := { sigs := [sg] }
    ∃ st, GcArena.BrandFlow.Reachable T st ∧ 0 ∈ st.held ∧ 0 ∉ st.opened ∧ st.active = [] := by
  intro sg T
  have h1 : GcArena.BrandFlow.Reachable T { opened := [1], active := [1], held := [1] } :=
    .step .init (.enter GcArena.BrandFlow.State.init 1 (by simp [GcArena.BrandFlow.State.init]))
  have h2 : GcArena.BrandFlow.Reachable T { opened := [1], active := [1], held := [0, 1] } :=
    .step h1 (.call _ sg (fun l => if l = "gc" then 1 else 0) (List.mem_singleton.mpr rfl)
      (by decide) (by decide))
  have h3 : GcArena.BrandFlow.Reachable T { opened := [1], active := [], held := [0] } :=
    .step h2 (.exit _ 1 [] rfl)
  exact ⟨_, h3, by decide, by decide, rfl⟩

/-- The variance check can fail: the covariant look-alike marker is not invariant. -/
example : varTy (adtVarOracle table fuel) (.lt "a") .co
    (.std .phantomData [.ref (.named "a") (.tuple [])]) = .co := by decide

/-- A table whose `Mutation` lost its marker field is rejected by `invariantInBrand`. -/
example :
    ({ table with adts := table.adts.map (fun d =>
        if d.name == "Mutation" then { d with fields := d.fields.filter (·.name != "_invariant") }
        else d) } : Table).invariantInBrand "Mutation" = false := by decide

/-- The quantifiers range over something: 11 required branded types, at least 14 in the table. -/
example : requiredBranded.length = 11 ∧ 14 ≤ table.branded.length := by decide

/-- `Gc`'s invariance is obtained from its `_marker` field (the second one) through the general
lemma, independently of the `ptr` field. -/
example : table.variance "Gc" (.lt "gc") = .inv := by
  refine variance_inv_of_field table "Gc" _ _ (.lt "gc") rfl
    (List.mem_cons_of_mem _ (List.mem_cons_self ..)) rfl ?_
  decide

/-- … and `Mutation` is not `Send` because of its `context` field, through the general lemma. -/
example : (table.autoOf "Mutation").send = false := by
  refine not_send_of_field table "Mutation" _ _ rfl (List.mem_cons_self ..) rfl ?_ ?_ <;> decide

/-- The auto-trait derivation is not constantly "no": `Pacing` (plain floats) is `Send + Sync`. -/
example : (table.autoOf "Pacing").send = true ∧ (table.autoOf "Pacing").sync = true := by decide

/-- Eight entry points, all found. -/
example : requiredCallbacks.length = 8 ∧ 8 ≤ table.callbacks.length := by decide

/-- The callback check can fail: `mutate` with the brand turned into an outer lifetime parameter
(`fn mutate<'a, F: FnOnce(&'a Mutation<'a>, &'a Root<'a, R>) -> T>`) is rejected. -/
example : Callback.ok
    { name := "Arena::mutate", file := "arena.rs", outerLts := ["a"], outerTys := ["R", "F", "T"],
      fnTrait := "FnOnce", binder := [],
      args := [.ref (.named "a") (.adt "Mutation" [.named "a"] []),
               .ref (.named "a") (.proj (.param "R") "Rootable" [.named "a"] [] "Root")],
      ret := .param "T", fnRet := .param "T" } = false := by decide

/-- … and so is a callback that may return a branded pointer. -/
example : Callback.ok
    { name := "Arena::mutate", file := "arena.rs", outerLts := [], outerTys := ["R", "F", "T"],
      fnTrait := "FnOnce", binder := ["gc"],
      args := [.ref (.named "gc") (.adt "Mutation" [.named "gc"] []),
               .ref (.named "gc") (.proj (.param "R") "Rootable" [.named "gc"] [] "Root")],
      ret := .adt "Gc" [.named "gc"] [.param "T"], fnRet := .param "T" } = false := by decide

/-- The derived rows are there, `GcBuilder<T>` (the D4 case) among them, together with the slice
builders that contain one. -/
example : 4 ≤ table.builderRows.length ∧ table.builderRows.contains ("GcBuilder", "T") = true := by
  decide

/-- D4 witness: with the pre-fix marker `PhantomData<(Invariant<'gc>, M, P)>` (no `*mut T`) the row
`GcBuilder<T>` is still derived – nothing about holding or storing changed – and is rejected, as
are the slice builders built on it. -/
example :
    let pre : Table := { table with adts := table.adts.map (fun d =>
      if d.name == "GcBuilder" then
        { d with fields := d.fields.map (fun f =>
            if f.name == "_marker" then
              { f with ty := .std .phantomData [.tuple
                  [.std .phantomData [.std .cell [.ref (.named "gc") (.tuple [])]],
                   .param "M", .param "P"]] }
            else f) }
      else d) }
    pre.builderRows.contains ("GcBuilder", "T") = true ∧
    pre.builderOk ("GcBuilder", "T") = false ∧
    pre.variance "GcBuilder" (.ty "T") = .co ∧
    2 ≤ pre.violBuilders.length := by decide

/-- The rule is about the combination: a type that *owns* its parameter by value (`Static<T>`,
`Write<T>`) yields no row however it is written to, and a hypothetical covariant
`Slot<T> { p: *mut T }` with an unbounded safe `put(&mut self, v: T)` is a row and is rejected. -/
example :
    table.builderRows.all (fun r => r.1 != "Static" && r.1 != "Write") = true ∧
    (let tbl : Table := { table with
        adts := { name := "Slot", file := "x.rs", vis := .pub, kind := "struct", lts := [], tys := ["T"],
                  fields := [{ name := "p", ty := .std .nonNull [.param "T"] }] } :: table.adts,
        methods := { adt := "Slot", file := "x.rs", method := "put", selfArgs := [.param "T"],
                     params := [.param "T"], bounded := [] } :: table.methods }
     tbl.builderRows.contains ("Slot", "T") = true ∧ tbl.builderOk ("Slot", "T") = false) := by
  decide

/-- Re-branding sites that need a cover exist, all are covered, and the identity check is really
applied somewhere (at a site or at the call of a helper); independent of function names. -/
example : 1 ≤ table.rebrandSites.length ∧ 1 ≤ table.identityChecks ∧
    table.rebrandSites.all table.transmuteOk = true := by decide

/-- The lifting can fail.  A private `unsafe fn rebrand(root)` holding the transmute is covered
when both callers check `self.contains(root)` first, and is *not* covered – blaming the caller – as
soon as one safe caller does not, or checks a different handle, or the helper is only mentioned. -/
example :
    let t : Transmute :=
      { file := "dynamic_roots.rs", fn_ := "DynamicRootSet::rebrand", fnUnsafe := true, fnPub := false,
        src := some (.adt "Gc" [.static] []), dst := some (.adt "Gc" [.named "gc"] []),
        guards := [], castToRaw := false, operand := "root.ptr", operandBase := "root",
        fnRet := .adt "Gc" [.named "gc"] [], fnLast := "rebrand", fnParams := ["root"] }
    let site (caller arg : String) (gs : List Guard) (called : Bool) : CallSite :=
      { file := "dynamic_roots.rs", caller := caller, callerLast := caller, callerUnsafe := false,
        callerPub := true, callerParams := ["self", "root", "other"], callee := "rebrand",
        calleePath := "Self::rebrand", args := [arg], argBases := [arg], guards := gs, isCall := called }
    let chk : List Guard := [{ cond := "self.contains(root)", thenBranch := true }]
    let tbl (cs : List CallSite) : Table := { table with transmutes := [t], callSites := cs }
    (tbl [site "fetch" "root" chk true, site "try_fetch" "root" chk true]).transmuteOk t = true ∧
    (tbl [site "fetch" "root" chk true, site "peek" "root" [] true]).blameOf t = ["peek"] ∧
    (tbl [site "fetch" "other" chk true]).blameOf t = ["fetch"] ∧
    (tbl [site "fetch" "root" [{ cond := "self.contains(root)", thenBranch := false }] true]).transmuteOk t = false ∧
    (tbl [site "fetch" "root" chk false]).transmuteOk t = false ∧
    ({ table with transmutes := [{ t with fnUnsafe := false }], callSites := [] } : Table).blameOf
        { t with fnUnsafe := false } = ["DynamicRootSet::rebrand"] ∧
    -- a `pub unsafe fn` is no excuse for a caller inside the crate
    ({ table with transmutes := [{ t with fnPub := true }],
                  callSites := [site "fetch" "root" [] true] } : Table).blameOf
        { t with fnPub := true } = ["fetch"] ∧
    -- … and a `contains` that is not a comparison of `self` with the handle voids every guard
    ({ table with transmutes := [t], callSites := [site "fetch" "root" chk true],
                  identityFns := table.identityFns.map (fun f => { f with cmp := "" }) } : Table).transmuteOk t
        = false ∧
    ({ table with transmutes := [t], callSites := [site "fetch" "root" chk true],
                  identityFns := table.identityFns.map (fun f => { f with rhsDeps := f.lhsDeps }) } : Table).transmuteOk t
        = false := by decide

/-- The brand-site rule can fail: a safe `pub fn` without a higher-ranked callback that creates a
brand is blamed, directly or through a private helper; the same helper used by `mutate` only is
fine. -/
example :
    let site : BrandSite :=
      { file := "arena.rs", fn_ := "static_mutation", fnLast := "static_mutation", fnUnsafe := true,
        fnPub := false, kind := "cast", text := "*(cx as *const _)" }
    let call (caller : String) (pub : Bool) : CallSite :=
      { file := "arena.rs", caller := caller, callerLast := caller, callerUnsafe := false,
        callerPub := pub, callerParams := [], callee := "static_mutation", calleePath := "static_mutation",
        args := [], argBases := [], guards := [], isCall := true }
    ({ table with brandSites := [site], callSites := [call "Arena::mutate" true] } : Table).brandSiteOk site = true ∧
    ({ table with brandSites := [site], callSites := [call "Arena::mutate" true, call "Arena::leak" true] } : Table).brandSiteBlame site
      = ["Arena::leak"] ∧
    ({ table with brandSites := [{ site with fn_ := "Arena::leak", fnLast := "leak", fnUnsafe := false, fnPub := true }] } : Table).brandSiteOk
      { site with fn_ := "Arena::leak", fnLast := "leak", fnUnsafe := false, fnPub := true } = false := by decide

end GcArena.C12
