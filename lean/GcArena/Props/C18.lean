import GcArena.Proofs.BuilderLemmas
/-!
# C18 — builders: abandoning or completing an allocation is clean at every stage

Model: `GcArena.Model.Builder` (src/gc.rs `GcBuilder`, src/slice.rs slice / slice-with-header / str
builders) on top of `GcArena.Model.Layout`.  The theorems quantify over **every** configuration
(builder kind, header / element layouts, length `n`), every arena state (`g` live objects, `a`
allocations this cycle) and **every** sequence of client actions — creation, header write,
element writes, a panicking element constructor at any index, a copy of any length, explicit
drop, in any order — so every abandonment point is covered, not a sample of them.
Tie: `lib/eng_layout.py` (harness_layout `builder …` cases vs. `layoutmodel`).
-/
namespace GcArena.C18

open GcArena.Layout GcArena.Builder

/-- Whatever the client does, as long as no `Gc` came out of the builder (it was dropped at any
    stage, unwound by a panic, or is still pending) the arena never sees the block: no `link`
    event, `total_gc_count` and the allocation counter behind `allocation_debt` are unchanged, the
    block is not on the `all` list (so no collection visits it) and is not marked live. -/
theorem abandon (c : Cfg) (g a : Nat) (acts : List Action)
    (h : (run c (initial g a) acts).stage ≠ .linked) :
    Event.link ∉ (run c (initial g a) acts).events ∧ (run c (initial g a) acts).gcs = g ∧
      (run c (initial g a) acts).allocated = a ∧ (run c (initial g a) acts).onAllList = false ∧
      (run c (initial g a) acts).live = false := by
  have hinv := inv_run c g a acts _ (inv_initial c g a)
  generalize run c (initial g a) acts = s at *
  unfold BInv at hinv
  cases hs : s.stage <;> rw [hs] at hinv
  · obtain ⟨he, _, hu⟩ := hinv
    exact ⟨by rw [he]; simp, hu⟩
  · obtain ⟨p, _, he, _, hu⟩ := hinv
    exact ⟨by rw [he]; simp, hu⟩
  · obtain ⟨p, _, he, _, hu⟩ := hinv
    exact ⟨by rw [he]; simp, hu⟩
  · obtain ⟨p, _, he, _, _, _, hu⟩ := hinv
    exact ⟨by rw [he]; simp, hu⟩
  · exact absurd hs h
  · obtain ⟨p, _, hu, pan, init, he, _⟩ := hinv
    refine ⟨?_, hu⟩
    rw [he]
    cases init with
    | none => cases pan <;> simp
    | some k =>
      have := (dropEvents_count k 0).2.2.1
      cases pan <;> simp [this]
  · obtain ⟨_, he, _, hu⟩ := hinv
    exact ⟨by rw [he]; simp, hu⟩

/-- The events of an abandoned builder, for every way of getting there: one allocation, possibly
    the start of unwinding, then — if a `GcSliceWithHeaderSliceBuilder` existed — the header
    destructor followed by the destructors of elements `0 … k-1` where `k` is exactly the number
    of elements written so far, then one deallocation with the allocated layout.  A bare
    `GcBuilder` / `GcSliceWithHeaderBuilder` (`init = none`) runs no destructor at all. -/
theorem abandon_events (c : Cfg) (g a : Nat) (acts : List Action)
    (h : (run c (initial g a) acts).stage = .dropped) :
    ∃ (p : Plan) (pan : Bool) (init : Option Nat),
      gcAlloc c.maxSize c.hdr c.pk c.ptrMeta = some p ∧
      (run c (initial g a) acts).events =
        [.allocB p.alloc] ++ (if pan then [.panic] else []) ++
          (match init with | some k => dropEvents k | none => []) ++ [.deallocB p.alloc] ∧
      (∀ k, init = some k → k = (run c (initial g a) acts).written.length ∧ k ≤ c.n) := by
  have hinv := inv_run c g a acts _ (inv_initial c g a)
  generalize run c (initial g a) acts = s at *
  unfold BInv at hinv
  rw [h] at hinv
  obtain ⟨p, hp, _, pan, init, he, hi⟩ := hinv
  exact ⟨p, pan, init, hp, he, hi⟩

/-- Dropping the builder in each stage: `new` emits only the deallocation; `headerWritten` the
    header destructor and the deallocation; `elems k` the header destructor, the destructors of
    elements `0 … k-1` in order and the deallocation.  Each element of the prefix is destructed
    exactly once and no other; nothing else about the state changes. -/
theorem abandon_step (c : Cfg) (s : BState) (hs : s.stuck = false) :
    (s.stage = .new → step c s .drop =
      { s with stage := .dropped, events := s.events ++ deallocEvents c }) ∧
    (s.stage = .headerWritten → step c s .drop =
      { s with stage := .dropped, events := s.events ++ [.dropHeader] ++ deallocEvents c }) ∧
    (∀ k, s.stage = .elems k → step c s .drop =
      { s with stage := .dropped,
               events := s.events ++ .dropHeader :: (List.range k).map .dropElem ++
                 deallocEvents c }) ∧
    (∀ k i, (dropEvents k).count (.dropElem i) = (if i < k then 1 else 0) ∧
      (dropEvents k).count .dropHeader = 1) := by
  refine ⟨fun h => ?_, fun h => ?_, fun k h => ?_, fun k i => ?_⟩
  · simp [step, hs, h, BState.abandon]
  · simp [step, hs, h, BState.abandon, dropEvents]
  · simp [step, hs, h, BState.abandon, dropEvents]
  · exact ⟨(dropEvents_count k i).1, (dropEvents_count k i).2.1⟩

/-- A panicking element constructor at index `k` (after `k` elements were stored) unwinds through
    the builder: header and exactly the `k` initialised elements are destructed, the block is
    released, nothing is linked. -/
theorem ctor_panic (c : Cfg) (s : BState) (k : Nat) (hs : s.stuck = false)
    (hk : c.kind = .slice ∨ c.kind = .swh) (hst : s.stage = stageOf k) (hlt : k < c.n) :
    step c s .ctorPanic =
      { s with stage := .dropped,
               events := s.events ++ [.panic] ++ dropEvents k ++ deallocEvents c } := by
  unfold step
  simp only [hs, Bool.false_eq_true, if_false, if_pos hk, hst, stageOf_initLen, if_pos hlt]
  simp [BState.abandon, hs]

/-- Completing a builder, whatever happened before: exactly one allocation and exactly one `link`,
    no destructor and no deallocation, `total_gc_count` and the allocation counter go up by one,
    the block is on the `all` list and live. -/
theorem complete (c : Cfg) (g a : Nat) (acts : List Action)
    (h : (run c (initial g a) acts).stage = .linked) :
    ∃ p, gcAlloc c.maxSize c.hdr c.pk c.ptrMeta = some p ∧
      (run c (initial g a) acts).events = [.allocB p.alloc, .link] ∧
      (run c (initial g a) acts).gcs = g + 1 ∧ (run c (initial g a) acts).allocated = a + 1 ∧
      (run c (initial g a) acts).onAllList = true ∧ (run c (initial g a) acts).live = true := by
  have hinv := inv_run c g a acts _ (inv_initial c g a)
  generalize run c (initial g a) acts = s at *
  unfold BInv at hinv
  rw [h] at hinv
  exact hinv

/-- `GcBuilder::new().write(mc, v)` (`Gc::new`): the contents are the value written. -/
theorem complete_write (c : Cfg) (g a v : Nat) (p : Plan) (hk : c.kind = .gc)
    (hp : gcAlloc c.maxSize c.hdr c.pk c.ptrMeta = some p) :
    run c (initial g a) [.create, .write v] =
      { stage := .linked, events := [.allocB p.alloc, .link], written := [v], gcs := g + 1,
        allocated := a + 1, onAllList := true, live := true, stuck := false } := by
  simp [run, step, initial, hp, hk, BState.link]

/-- `write_slice_with` run to completion on a slice (`hdr = false`) or slice-with-header
    (`hdr = true`) builder of length `n`: the contents are exactly the `n` elements the callback
    produced, in order; one allocation, one `link`. -/
theorem complete_write_slice (c : Cfg) (g a : Nat) (vs : List Nat) (p : Plan)
    (hk : c.kind = .slice ∨ c.kind = .swh) (hlen : vs.length = c.n)
    (hp : gcAlloc c.maxSize c.hdr c.pk c.ptrMeta = some p) :
    run c (initial g a)
        ((if c.kind = .swh then [.create, .writeHeader] else [.create]) ++
          vs.map .writeElem ++ [.finish]) =
      { stage := .linked, events := [.allocB p.alloc, .link], written := vs, gcs := g + 1,
        allocated := a + 1, onAllList := true, live := true, stuck := false } := by
  have hpre : ∀ rest, run c (initial g a)
      ((if c.kind = .swh then [.create, .writeHeader] else [.create]) ++ rest) =
      run c { stage := .headerWritten, events := [.allocB p.alloc], gcs := g, allocated := a }
        rest := by
    intro rest
    rcases hk with hk | hk
    · simp [run, step, initial, hp, hk]
    · simp [run, step, initial, hp, hk]
  rw [List.append_assoc, hpre,
    run_writeElems c hk vs [.finish] _ 0 rfl rfl (by omega)]
  simp only [run, step, Bool.false_eq_true, if_false, if_pos hk, stageOf_initLen, Nat.zero_add,
    if_pos hlen, BState.link]
  simp

/-- `copy_slice` / `copy_str` with a source of the right length: the contents are the source. -/
theorem complete_copy (c : Cfg) (g a : Nat) (src : List Nat) (p : Plan) (hk : c.kind ≠ .gc)
    (hlen : src.length = c.n) (hp : gcAlloc c.maxSize c.hdr c.pk c.ptrMeta = some p) :
    run c (initial g a)
        ((if c.kind = .swh then [.create, .writeHeader] else [.create]) ++ [.copy src]) =
      { stage := .linked, events := [.allocB p.alloc, .link], written := src, gcs := g + 1,
        allocated := a + 1, onAllList := true, live := true, stuck := false } := by
  cases hkind : c.kind with
  | gc => exact absurd hkind hk
  | slice => simp [run, step, initial, hp, hkind, hlen, BState.link]
  | swh => simp [run, step, initial, hp, hkind, hlen, BState.link]
  | str => simp [run, step, initial, hp, hkind, hlen, BState.link]

/-- `copy_slice` / `copy_str` with a source of the wrong length: the assertion fires before
    anything is copied (`written` unchanged), the builder's `Drop` runs with `init_length = 0`
    (header destructor, no element destructor, deallocation), nothing is linked and the arena
    side is unchanged. -/
theorem wrong_len (c : Cfg) (s : BState) (src : List Nat) (hs : s.stuck = false)
    (hst : s.stage = .headerWritten) (hne : src.length ≠ c.n) :
    step c s (.copy src) =
      { s with stage := .dropped,
               events := s.events ++ [.panic, .dropHeader] ++ deallocEvents c } := by
  simp [step, hs, hst, hne, BState.abandon, dropEvents]

/-- The whole wrong-length scenario from an arbitrary arena state: no leak (the block allocated is
    the block released, with the same layout), no `link`, counters unchanged. -/
theorem wrong_len_trace (c : Cfg) (g a : Nat) (src : List Nat) (p : Plan) (hk : c.kind ≠ .gc)
    (hne : src.length ≠ c.n) (hp : gcAlloc c.maxSize c.hdr c.pk c.ptrMeta = some p) :
    run c (initial g a)
        ((if c.kind = .swh then [.create, .writeHeader] else [.create]) ++ [.copy src]) =
      { stage := .dropped,
        events := [.allocB p.alloc, .panic, .dropHeader, .deallocB p.alloc],
        written := [], gcs := g, allocated := a, onAllList := false, live := false,
        stuck := false } := by
  have hd := deallocEvents_of_gcAlloc hp
  cases hkind : c.kind with
  | gc => exact absurd hkind hk
  | slice => simp [run, step, initial, hp, hkind, hne, BState.abandon, dropEvents, hd]
  | swh => simp [run, step, initial, hp, hkind, hne, BState.abandon, dropEvents, hd]
  | str => simp [run, step, initial, hp, hkind, hne, BState.abandon, dropEvents, hd]

/-- Every deallocation a builder performs hands back exactly the layout it allocated (C17's
    `dealloc_same_layout` on the builder path), and there is never a deallocation without the
    matching allocation or after a `link`. -/
theorem layout (c : Cfg) (g a : Nat) (acts : List Action) (l : Layout)
    (h : Event.deallocB l ∈ (run c (initial g a) acts).events) :
    ∃ p, gcAlloc c.maxSize c.hdr c.pk c.ptrMeta = some p ∧ l = p.alloc ∧
      deallocEvents c = [.deallocB p.alloc] ∧
      (run c (initial g a) acts).stage = .dropped ∧
      (run c (initial g a) acts).events.count (.deallocB l) = 1 ∧
      (run c (initial g a) acts).events.head? = some (.allocB p.alloc) := by
  have hinv := inv_run c g a acts _ (inv_initial c g a)
  generalize run c (initial g a) acts = s at *
  unfold BInv at hinv
  cases hs : s.stage <;> rw [hs] at hinv
  · obtain ⟨he, _⟩ := hinv; rw [he] at h; simp at h
  · obtain ⟨p, _, he, _⟩ := hinv; rw [he] at h; simp at h
  · obtain ⟨p, _, he, _⟩ := hinv; rw [he] at h; simp at h
  · obtain ⟨p, _, he, _⟩ := hinv; rw [he] at h; simp at h
  · obtain ⟨p, _, he, _⟩ := hinv; rw [he] at h; simp at h
  · obtain ⟨p, hp, _, pan, init, he, _⟩ := hinv
    have hl : l = p.alloc := by
      rw [he] at h
      cases init with
      | none => cases pan <;> simp at h <;> exact h
      | some k =>
        have := (dropEvents_count k 0).2.2.2.1 l
        cases pan <;> simp [this] at h <;> exact h
    subst hl
    refine ⟨p, hp, rfl, deallocEvents_of_gcAlloc hp, rfl, ?_, by rw [he]; rfl⟩
    rw [he]
    cases init with
    | none => cases pan <;> simp
    | some k =>
      have h0 : (dropEvents k).count (.deallocB p.alloc) = 0 :=
        List.count_eq_zero.2 ((dropEvents_count k 0).2.2.2.1 p.alloc)
      cases pan <;> simp [List.count_append, h0]
  · obtain ⟨_, he, _⟩ := hinv; rw [he] at h; simp at h

/-! ## Non-vacuity -/

/-- A slice-with-header builder of 3 tokens whose constructor panics at index 2 (64-bit target). -/
example :
    (run ⟨2 ^ 63 - 1, ⟨16, 8⟩, 8, .swh, ⟨8, 8⟩, ⟨8, 8⟩, 3⟩ (initial 5 2)
      [.create, .writeHeader, .writeElem 10, .writeElem 11, .ctorPanic]).events =
    [.allocB ⟨56, 8⟩, .panic, .dropHeader, .dropElem 0, .dropElem 1, .deallocB ⟨56, 8⟩] := by
  decide

/-- Completing the same builder links it exactly once with the written contents. -/
example :
    run ⟨2 ^ 63 - 1, ⟨16, 8⟩, 8, .swh, ⟨8, 8⟩, ⟨8, 8⟩, 2⟩ (initial 5 2)
      [.create, .writeHeader, .writeElem 10, .writeElem 11, .finish] =
    { stage := .linked, events := [.allocB ⟨48, 8⟩, .link], written := [10, 11], gcs := 6,
      allocated := 3, onAllList := true, live := true } := by
  decide

/-- A bare `GcBuilder` dropped: deallocation only. -/
example :
    (run ⟨2 ^ 63 - 1, ⟨16, 8⟩, 8, .gc, unitLayout, ⟨24, 8⟩, 0⟩ (initial 0 0)
      [.create, .drop]).events = [.allocB ⟨40, 8⟩, .deallocB ⟨40, 8⟩] := by
  decide

end GcArena.C18
