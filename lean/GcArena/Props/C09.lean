import GcArena.Proofs.Debt
/-!
# C09 — Pacing: debt-driven calls pay their debt, cycles complete, sleep is honoured

Exact rational arithmetic (`Rat`); f64 rounding is modelled, not verified (DESIGN §9).
-/
namespace GcArena.C09

open GcArena

/-- `collect_debt` returns with zero allocation debt — from every phase, for every pacing, every
    amount of real or artificial debt and every heap (whenever it returns normally, i.e. no
    `trace` call unwound). -/
theorem collect_debt_zero (c : Ctx) (root : List Slot) (fault : TraceFault) (c' : Ctx)
    (hinv : CInv c root []) (h : c.doCollection root .payDebt .full fault = (c', .returned)) :
    c'.metrics.allocationDebt = 0 := by
  have hr : Reaches c root c' := by
    have := doCollection_reaches (ru := .payDebt) (stop := .full) (fault := fault) hinv
    rw [h] at this; exact this
  have hi := hr.inv hinv
  exact doCollection_collectDebt_zero c root fault c' h hi.notDrop hi.noErr

/-- The debt is never negative and is zero for an empty arena (shared with C10). -/
theorem debt_nonneg (m : Metrics) : 0 ≤ m.allocationDebt := GcArena.debt_nonneg m

/-- An arena holding no allocations has no debt, hence every debt-driven call returns at once
    without a step — whatever phase it is in.  This is the mechanism behind the known finding
    `stw-returns-sweeping-when-arena-emptied`: when a stop-the-world sweep releases the last
    allocation, `collect_debt` / `cycle_debt` stop one step before the `Sweep → Sleep` switch. -/
theorem empty_arena_never_collects (c : Ctx) (root : List Slot) (stop : Stop) (f : TraceFault)
    (h : c.metrics.totalGcs = 0) : c.doCollection root .payDebt stop f = (c, .returned) := by
  have : c.metrics.hasDebt = false := by
    simp [Metrics.hasDebt, Metrics.allocationDebt, h]
  simp [Ctx.doCollection, this]

/-- Full statement of the stop-the-world clause as the property gives it.  It is **false** of the
    model and of the implementation in exactly the corner above (replay:
    corpus/C09-stw-empty-arena.ops; the finding is listed in known_findings.txt). -/
def stop_the_world_statement : Prop :=
  ∀ (c : Ctx) (root : List Slot) (c' : Ctx), CInv c root [] →
    c.metrics.pacing.markFactor = 0 → c.metrics.pacing.traceFactor = 0 → c.metrics.pacing.keepFactor = 0 →
    c.metrics.pacing.dropFactor = 0 → c.metrics.pacing.freeFactor = 0 → 0 < c.metrics.allocationDebt →
    c.doCollection root .payDebt .full none = (c', .returned) → c'.phase = .sleep

/-- What holds instead (statement; proof pending the metrics frame lemmas of the accounting
    development): it returns Sleeping, or the arena holds no allocation any more. -/
def stop_the_world_partial_statement : Prop :=
  ∀ (c : Ctx) (root : List Slot) (c' : Ctx), CInv c root [] →
    c.metrics.pacing.markFactor = 0 → c.metrics.pacing.traceFactor = 0 → c.metrics.pacing.keepFactor = 0 →
    c.metrics.pacing.dropFactor = 0 → c.metrics.pacing.freeFactor = 0 → 0 < c.metrics.allocationDebt →
    c.doCollection root .payDebt .full none = (c', .returned) → c'.phase = .sleep ∨ c'.metrics.totalGcs = 0

/-- ρ-bound (statement; proof pending the accounting invariant M1/M2). -/
def rho_bound_statement : Prop :=
  ∀ (ρ : Rat) (c c' : Ctx) (root : List Slot) (H A : Nat),
    0 ≤ c.metrics.pacing.markFactor → 0 ≤ c.metrics.pacing.traceFactor → 0 ≤ c.metrics.pacing.keepFactor →
    0 ≤ c.metrics.pacing.dropFactor → 0 ≤ c.metrics.pacing.freeFactor →
    c.metrics.pacing.markFactor + c.metrics.pacing.traceFactor + c.metrics.pacing.keepFactor ≤ ρ →
    c.metrics.pacing.dropFactor + c.metrics.pacing.freeFactor ≤ ρ →
    c.metrics.pacing.markFactor + c.metrics.pacing.dropFactor + c.metrics.pacing.keepFactor ≤ ρ → ρ < 1 →
    CInv c root [] → c.phase ≠ .sleep → H + A = c.metrics.totalGcs + c.metrics.freed →
    A = c.metrics.allocated → 0 < c.metrics.cycleDebits - (A : Rat) →
    c.doCollection root .payDebt .finishCycle none = (c', .returned) → c'.phase ≠ .sleep →
    (A : Rat) * (1 - ρ) < ρ * (H : Rat)

/-- Sleep is honoured (statement; proof pending). -/
def sleep_honoured_statement : Prop :=
  ∀ (c : Ctx) (root : List Slot) (stop : Stop), c.phase = .sleep → c.metrics.artificial = 0 →
    ((c.metrics.allocated : Rat) ≤ c.metrics.wakeup →
      c.doCollection root .payDebt stop none = (c, .returned) ∧ c.metrics.allocationDebt = 0) ∧
    (c.metrics.wakeup < (c.metrics.allocated : Rat) → c.metrics.totalGcs ≠ 0 → 0 < c.metrics.allocationDebt)

/-! ### Non-vacuity -/

/-- A reachable state of the corner: Sweeping, sweep list exhausted, no allocation left. -/
def emptied : List Op := [
  .enter .mutate, .alloc true [none], .leave, .adjustDebt 1000,
  .collect .finishMarking .sweep none (some [.wake, .markStep none, .markBreak, .toSweep]),
  .collect .collectDebt .drop none (some [.sweepStep]) ]

example : ((Arena.new 1).run emptied).ctx.phase = .sweep := by decide
example : ((Arena.new 1).run emptied).ctx.metrics.totalGcs = 0 := by decide
example : ((Arena.new 1).run emptied).ctx.rest = [] := by decide

end GcArena.C09
