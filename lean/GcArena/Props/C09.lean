import GcArena.Proofs.Debt
import GcArena.Proofs.MarkDebt
import GcArena.Proofs.Sleep
import GcArena.Proofs.CycleRun
import GcArena.Proofs.NotParked
import GcArena.Proofs.SelfDriven
import GcArena.Proofs.LegacyLemmas
/-!
# C09 — Pacing: debt-driven calls pay their debt, cycles complete, sleep is honoured

Exact rational arithmetic (`Rat`); f64 rounding is modelled, not verified (DESIGN §9).

Machinery: the accounting invariant `Acc` (Proofs/Accounting.lean, over all histories:
`acc_run` in Proofs/AccountingRun.lean), the ρ-bound and the stop-the-world loop lemmas
(Proofs/Pacing.lean), sleep over operation sequences (Proofs/Sleep.lean), one cycle over
operation sequences and the wake-up invariant (Proofs/CycleRun.lean), the pre-repair
definitions (Model/Legacy.lean, Proofs/LegacyLemmas.lean).  Helper lemmas of this file are
`private` (they are not property obligations).
-/
namespace GcArena.C09

open GcArena

/-- `collect_debt` returns with zero allocation debt — from every phase, for every pacing, every
    amount of real or artificial debt and every heap (whenever it returns normally, i.e. no
    `trace` call unwound). -/
theorem collect_debt_zero (c : Ctx) (root : List Slot) (fault : TraceFault) (c' : Ctx)
    (hinv : CInv c root []) (h : c.doCollection root .payDebt .full fault = (c', .returned)) :
    c'.metrics.allocationDebt = 0 := by
  have hr : Reaches c root c' := by
    have := doCollection_reaches (ru := .payDebt) (stop := .full) (fault := fault) hinv
    rw [h] at this; exact this
  have hi := hr.inv hinv
  exact doCollection_collectDebt_zero c root fault c' h hi.notDrop hi.noErr

/-- `cycle_debt` returns with zero allocation debt or at its stopping phase (Sleeping, the cycle
    finished). -/
theorem cycle_debt_zero_or_asleep (c : Ctx) (root : List Slot) (fault : TraceFault) (c' : Ctx)
    (hinv : CInv c root []) (h : c.doCollection root .payDebt .finishCycle fault = (c', .returned)) :
    c'.metrics.allocationDebt = 0 ∨ c'.phase = .sleep := by
  by_cases hs : c'.phase = .sleep
  · exact Or.inr hs
  · exact Or.inl (debt_zero_of_not_hasDebt _ ((doCollection_cycle_frame hinv h hs).2 rfl rfl))

/-- `mark_debt` returns with zero allocation debt, or at its stopping phase (fully marked: it
    hands out the `MarkedArena`), or it was called while Sweeping, where it does nothing at all
    (`Stop::FullyMarked <= Stop::AtSweep`: the documented behaviour, C08.mark_from_sweeping). -/
theorem mark_debt_zero_or_marked (c : Ctx) (root : List Slot) (fault : TraceFault) (c' : Ctx)
    (hinv : CInv c root []) (h : c.doCollection root .payDebt .fullyMarked fault = (c', .returned)) :
    c'.metrics.allocationDebt = 0 ∨ Arena.isMarked c' = true ∨ (c.phase = .sweep ∧ c' = c) :=
  doCollection_markDebt hinv h

/-- The debt is never negative and is zero for an empty arena (shared with C10). -/
theorem debt_nonneg (m : Metrics) : 0 ≤ m.allocationDebt := GcArena.debt_nonneg m

/-- An arena holding no allocations has no debt, hence every debt-driven call returns at once
    without a step — whatever phase it is in.  (On the pinned tree this was the mechanism behind
    defect D5: when a sweep released the last allocation, `collect_debt` / `cycle_debt` stopped one
    step before the `Sweep → Sleep` switch.) -/
theorem empty_arena_never_collects (c : Ctx) (root : List Slot) (stop : Stop) (f : TraceFault)
    (h : c.metrics.totalGcs = 0) : c.doCollection root .payDebt stop f = (c, .returned) := by
  have : c.metrics.hasDebt = false := by
    simp [Metrics.hasDebt, Metrics.allocationDebt, h]
  simp [Ctx.doCollection, this]

/-- The invariant of a run state outside callbacks, in the form the collector lemmas take. -/
private theorem run_cinv (n : Nat) (ops : List Op) (halive : ((Arena.new n).run ops).alive = true)
    (hcb : ((Arena.new n).run ops).cb = none) :
    CInv ((Arena.new n).run ops).ctx ((Arena.new n).run ops).root [] := by
  have hi := inv_run n ops halive
  have := hi.cinv; rw [hi.cbTemps hcb] at this; exact this

/-! ### Stop-the-world pacing -/

/-- Full statement of the stop-the-world clause as the property gives it.  On the pinned tree it
    was **false** in one corner (defect D5: a debt-driven call whose sweep released the arena's
    last allocation returned Sweeping, one step before the `Sweep → Sleep` switch, because an
    empty arena reports zero debt; replay corpus/C09-stw-empty-arena.ops).  After the repair — the
    loop never stops on the debt test in `Sweep` with nothing left to sweep, `Ctx.debtBreak` — it
    holds: `stop_the_world`. -/
def stop_the_world_statement : Prop :=
  ∀ (c : Ctx) (root : List Slot) (c' : Ctx), CInv c root [] →
    c.metrics.pacing.markFactor = 0 → c.metrics.pacing.traceFactor = 0 → c.metrics.pacing.keepFactor = 0 →
    c.metrics.pacing.dropFactor = 0 → c.metrics.pacing.freeFactor = 0 → 0 < c.metrics.allocationDebt →
    c.doCollection root .payDebt .full none = (c', .returned) → c'.phase = .sleep

/-- **Stop-the-world, `collect_debt`**: with all five work factors zero, a call made with positive
    debt does not return until the collector is Sleeping again. -/
theorem stop_the_world : stop_the_world_statement := by
  intro c root c' hinv h1 h2 h3 h4 h5 hd hr
  exact doCollection_stw hinv ⟨h1, h2, h3, h4, h5⟩ hd hr

/-- The same for every fault position, and for `cycle_debt`. -/
theorem stop_the_world_any (c : Ctx) (root : List Slot) (fault : TraceFault) (c' : Ctx)
    (hinv : CInv c root []) (hz : ZeroWork c.metrics.pacing) (hd : 0 < c.metrics.allocationDebt) :
    (c.doCollection root .payDebt .full fault = (c', .returned) → c'.phase = .sleep) ∧
    (c.doCollection root .payDebt .finishCycle fault = (c', .returned) → c'.phase = .sleep) :=
  ⟨doCollection_stw hinv hz hd, doCollection_stw_cycle hinv hz hd⟩

/-- A debt-driven call never returns parked in `Sweep` with nothing left to sweep, for any pacing
    (unless it was entered that way with no debt, or its `Stop` is at most `AtSweep`). -/
theorem never_parked (c : Ctx) (ru : RunUntil) (h : c.debtBreak ru = true) :
    ¬ (c.phase = .sweep ∧ c.rest = []) := debtBreak_not_parked h

/-- One unreachable allocation under `Pacing::STOP_THE_WORLD`, fully marked, the sweep about to
    start: the state of the former corner. -/
def lastOne : List Op := [
  .setPacing Pacing.stopTheWorld,
  .enter .mutate, .alloc true [none], .leave,
  .collect .finishMarking .sweep none (some [.wake, .markStep none, .markBreak, .toSweep]) ]

private theorem lastOne_metrics : ((Arena.new 1).run lastOne).ctx.metrics =
    { pacing := Pacing.stopTheWorld, totalGcs := 1, wakeup := 0, artificial := 0, allocated := 1,
      dropped := 0, freed := 0, marked := 0, traced := 0, remembered := 0, underflow := false } := by rfl

private theorem lastOne_debt : 0 < ((Arena.new 1).run lastOne).ctx.metrics.allocationDebt := by
  rw [lastOne_metrics]
  unfold Metrics.allocationDebt Metrics.cycleDebits Metrics.cycleCredits Pacing.stopTheWorld
  simp only
  grind

/-- Non-vacuity: `lastOne` satisfies every hypothesis of `stop_the_world` (zero work factors,
    positive debt, invariant). -/
example : CInv ((Arena.new 1).run lastOne).ctx ((Arena.new 1).run lastOne).root [] ∧
    ZeroWork ((Arena.new 1).run lastOne).ctx.metrics.pacing ∧
    0 < ((Arena.new 1).run lastOne).ctx.metrics.allocationDebt :=
  ⟨run_cinv 1 lastOne (by decide) (by decide),
   ⟨by rw [lastOne_metrics]; rfl, by rw [lastOne_metrics]; rfl, by rw [lastOne_metrics]; rfl,
    by rw [lastOne_metrics]; rfl, by rw [lastOne_metrics]; rfl⟩, lastOne_debt⟩

/-- **Witness of the repaired defect D5**, by name.  On `lastOne` every hypothesis of the
    stop-the-world clause holds (invariant, all work factors zero, positive debt), and
    * over the **pre-repair** loop (`Ctx.doCollectionLegacy`, Model/Legacy.lean: the debt test
      without "not parked in `Sweep`") `collect_debt` sweeps the only allocation away and returns
      **Sweeping** with nothing left to sweep and an empty arena — so the clause is false of the
      pre-repair loop;
    * over the repaired loop it returns Sleeping (`stop_the_world`).
    A regression of the repair makes the implementation agree with the first half again. -/
theorem pinned_stw_witness :
    (CInv ((Arena.new 1).run lastOne).ctx ((Arena.new 1).run lastOne).root [] ∧
      ZeroWork ((Arena.new 1).run lastOne).ctx.metrics.pacing ∧
      0 < ((Arena.new 1).run lastOne).ctx.metrics.allocationDebt) ∧
    (∃ c', ((Arena.new 1).run lastOne).ctx.doCollectionLegacy ((Arena.new 1).run lastOne).root
              .payDebt .full none = (c', .returned) ∧
            c'.phase = .sweep ∧ c'.rest = [] ∧ c'.metrics.totalGcs = 0) ∧
    ¬ (∀ (c : Ctx) (root : List Slot) (c' : Ctx), CInv c root [] → ZeroWork c.metrics.pacing →
        0 < c.metrics.allocationDebt →
        c.doCollectionLegacy root .payDebt .full none = (c', .returned) → c'.phase = .sleep) ∧
    (∀ c', ((Arena.new 1).run lastOne).ctx.doCollection ((Arena.new 1).run lastOne).root
              .payDebt .full none = (c', .returned) → c'.phase = .sleep) := by
  have h0 := run_cinv 1 lastOne (by decide) (by decide)
  have hz : ZeroWork ((Arena.new 1).run lastOne).ctx.metrics.pacing :=
    ⟨by rw [lastOne_metrics]; rfl, by rw [lastOne_metrics]; rfl, by rw [lastOne_metrics]; rfl,
     by rw [lastOne_metrics]; rfl, by rw [lastOne_metrics]; rfl⟩
  have hd := lastOne_debt
  have hcall := doCollectionLegacy_sweep_last (c := ((Arena.new 1).run lastOne).ctx)
    (root := ((Arena.new 1).run lastOne).root) (stop := .full) (fault := none)
    (by decide) (by decide) (by decide) (by simpa [Metrics.hasDebt] using hd) (by decide)
  refine ⟨⟨h0, hz, hd⟩, ⟨_, hcall, by decide, by decide, by decide⟩, ?_, ?_⟩
  · intro hall
    have := hall _ _ _ h0 hz hd hcall
    revert this
    decide
  · intro c' hr
    exact doCollection_stw h0 hz hd hr

/-- **The counting invariant holds in every state of every history** (`Acc`,
    Proofs/Accounting.lean: the work counters `marked`, `traced`, `remembered`, `dropped`, `freed`
    never run ahead of the colours on the `all` list — asleep all zero; marking:
    `marked ≤ #non-white`, `traced ≤ #black`; sweeping: split by what was done to black,
    weakly-marked and white objects).  Re-export of `acc_run`, on which every theorem of this
    section rests. -/
theorem counting_invariant_run (n : Nat) (ops : List Op) : Acc ((Arena.new n).run ops).ctx :=
  acc_run n ops

/-! ### The ρ-bound -/

/-- In every state of every history, outside callbacks: the credits of the running cycle are at
    most `ρ ×` (allocations held + allocations this cycle has released) — for pacing factors whose
    per-object work paths each sum to at most `ρ` (`RhoPacing`, Proofs/Pacing.lean). -/
theorem credits_bounded (n : Nat) (ops : List Op) (ρ : Rat)
    (halive : ((Arena.new n).run ops).alive = true) (hcb : ((Arena.new n).run ops).cb = none)
    (hp : RhoPacing ((Arena.new n).run ops).ctx.metrics.pacing ρ) :
    ((Arena.new n).run ops).ctx.metrics.cycleCredits ≤
      ρ * ((((Arena.new n).run ops).ctx.metrics.totalGcs : Rat)
            + (((Arena.new n).run ops).ctx.metrics.freed : Rat)) :=
  credits_le hp (acc_run n ops) (run_cinv n ops halive hcb)

/-- **ρ-bound.**  Take any state of any history, outside callbacks, and any split of its counters
    `allocated = Aw + A'`, `total_gcs + freed = H + A'` (the one meant: `A'` = allocations made since
    the cycle woke, `Aw` = allocations counted at that moment, `H` = allocations held at that
    moment; `total_gcs + freed - allocated` is constant from wake-up to `finish_cycle`:
    `PlainMet.ghost`, `FwdMet.ghost`, `CFrame.ghost`).  Suppose the cycle woke in debt and the debt
    was not artificially reduced since (`0 < Aw - wakeup + artificial`), and the pacing factors'
    per-object work paths each sum to at most `ρ`.  If a `cycle_debt` call then returns with the
    cycle still unfinished — and the arena non-empty (an empty arena reports zero debt by
    definition, so no bound can follow from "the debt is paid") — then `A' (1 - ρ) < ρ H`.

    (`ρ < 1` is not needed for this form; it is for the quotient form `rho_bound_quotient`.  The
    state may even be asleep: the call then wakes it.  The hypothesis `total_gcs ≠ 0` — here and in
    `rho_bound_quotient`, and the alternative `total_gcs = 0` in `cycles_complete` — is needed
    because the state ranges over histories with *replayed* collection calls; see `rho_bound_run`,
    `rho_bound_run_literal_false`, and `rho_bound_run_selfdriven` for the form without it.) -/
theorem rho_bound (n : Nat) (ops : List Op) (ρ : Rat) (Aw H A' : Nat) (fault : TraceFault) (c' : Ctx)
    (halive : ((Arena.new n).run ops).alive = true) (hcb : ((Arena.new n).run ops).cb = none)
    (hp : RhoPacing ((Arena.new n).run ops).ctx.metrics.pacing ρ)
    (hA : Aw + A' = ((Arena.new n).run ops).ctx.metrics.allocated)
    (hH : H + A' = ((Arena.new n).run ops).ctx.metrics.totalGcs + ((Arena.new n).run ops).ctx.metrics.freed)
    (hwoke : 0 < (Aw : Rat) - ((Arena.new n).run ops).ctx.metrics.wakeup
                + ((Arena.new n).run ops).ctx.metrics.artificial)
    (hr : ((Arena.new n).run ops).ctx.doCollection ((Arena.new n).run ops).root .payDebt .finishCycle fault
            = (c', .returned))
    (hns : c'.phase ≠ .sleep) (hne : c'.metrics.totalGcs ≠ 0) :
    (A' : Rat) * (1 - ρ) < ρ * (H : Rat) :=
  rho_bound_ctx (run_cinv n ops halive hcb) (acc_run n ops) hp hA hH hwoke hr hns hne

/-- … in the property's form: fewer than `ρ H / (1 - ρ)` allocations were made since it woke. -/
theorem rho_bound_quotient (n : Nat) (ops : List Op) (ρ : Rat) (Aw H A' : Nat) (fault : TraceFault)
    (c' : Ctx) (hρ : ρ < 1)
    (halive : ((Arena.new n).run ops).alive = true) (hcb : ((Arena.new n).run ops).cb = none)
    (hp : RhoPacing ((Arena.new n).run ops).ctx.metrics.pacing ρ)
    (hA : Aw + A' = ((Arena.new n).run ops).ctx.metrics.allocated)
    (hH : H + A' = ((Arena.new n).run ops).ctx.metrics.totalGcs + ((Arena.new n).run ops).ctx.metrics.freed)
    (hwoke : 0 < (Aw : Rat) - ((Arena.new n).run ops).ctx.metrics.wakeup
                + ((Arena.new n).run ops).ctx.metrics.artificial)
    (hr : ((Arena.new n).run ops).ctx.doCollection ((Arena.new n).run ops).root .payDebt .finishCycle fault
            = (c', .returned))
    (hns : c'.phase ≠ .sleep) (hne : c'.metrics.totalGcs ≠ 0) :
    (A' : Rat) < ρ * (H : Rat) / (1 - ρ) :=
  rho_bound_ctx_div (run_cinv n ops halive hcb) (acc_run n ops) hp hρ hA hH hwoke hr hns hne

/-- **So cycles complete**: once `ρ H ≤ A' (1 - ρ)` allocations were made since the cycle woke,
    a `cycle_debt` call returns Sleeping (the cycle finished) — or with an empty arena. -/
theorem cycles_complete (n : Nat) (ops : List Op) (ρ : Rat) (Aw H A' : Nat) (fault : TraceFault)
    (c' : Ctx)
    (halive : ((Arena.new n).run ops).alive = true) (hcb : ((Arena.new n).run ops).cb = none)
    (hp : RhoPacing ((Arena.new n).run ops).ctx.metrics.pacing ρ)
    (hA : Aw + A' = ((Arena.new n).run ops).ctx.metrics.allocated)
    (hH : H + A' = ((Arena.new n).run ops).ctx.metrics.totalGcs + ((Arena.new n).run ops).ctx.metrics.freed)
    (hwoke : 0 < (Aw : Rat) - ((Arena.new n).run ops).ctx.metrics.wakeup
                + ((Arena.new n).run ops).ctx.metrics.artificial)
    (hr : ((Arena.new n).run ops).ctx.doCollection ((Arena.new n).run ops).root .payDebt .finishCycle fault
            = (c', .returned))
    (hmany : ρ * (H : Rat) ≤ (A' : Rat) * (1 - ρ)) :
    c'.phase = .sleep ∨ c'.metrics.totalGcs = 0 := by
  by_cases hs : c'.phase = .sleep
  · exact Or.inl hs
  · by_cases hz : c'.metrics.totalGcs = 0
    · exact Or.inr hz
    · exact absurd (rho_bound n ops ρ Aw H A' fault c' halive hcb hp hA hH hwoke hr hs hz)
        (Rat.not_lt.mpr hmany)

/-- **ρ-bound over a history** — the split is not free here, it is read off the history.
    `pre` leads to a sleeping state `a0` with positive debt, outside callbacks; `wakeOp` is a
    self-driven collection call of **any** method executed there — a debt-driven one wakes the
    collector because of the debt, `finish_marking` / `finish_cycle` anyway (first conclusion: the
    oldest step it appends is `'W'`);
    `post` is **any** further operation sequence — mutator operations, collection calls of every
    kind, self-driven or replayed, `finalize` / `start_sweeping` included — that changes no pacing
    and makes no negative `adjust_debt` (`Op.keepsCycle`), and during `wakeOp`-and-`post` no cycle
    completes: no `'Z'` (the `Sweep → Sleep` switch) is appended to the step log.  Then
    * `H` := `total_gcs` of `a0` — the allocations held when the cycle woke (the wake itself does
      not change it);
    * `A'` := `allocsIn a0 (wakeOp :: post)` — the number of `alloc` operations accepted since —
      and that is exactly the growth of the `allocated` counter (second conclusion);
    and if a `cycle_debt` call made after `post` returns with the cycle unfinished and the arena
    non-empty, then `A' (1 - ρ) < ρ H`.

    Why `total_gcs ≠ 0` is a hypothesis here although the property has none: `post` may contain
    *replayed* collection calls, and a replay can be cut anywhere — also right after the sweep
    released the last allocation, in `Sweep` with nothing left to sweep, where the real loop never
    stops (`never_parked`).  From such a state `cycle_debt` returns at once (an empty arena
    reports no debt) and no bound follows: `rho_bound_run_literal_false`.  When every collection
    call of the history is self-driven — what a client of the real collector can do — the
    hypothesis is derivable: `rho_bound_run_selfdriven`. -/
theorem rho_bound_run (n : Nat) (pre post : List Op) (m : Method) (k : Cont) (wfault : TraceFault)
    (a0 a2 : Arena) (ha0 : a0 = (Arena.new n).run pre)
    (ha2 : a2 = (Arena.new n).run (pre ++ .collect m k wfault none :: post))
    (hcb0 : a0.cb = none) (hs : a0.ctx.phase = .sleep) (hd : 0 < a0.ctx.metrics.allocationDebt)
    (hpost : ∀ op, op ∈ post → op.keepsCycle = true)
    (hal : a2.alive = true) (hcb : a2.cb = none)
    (new : List Char) (hsteps : a2.ctx.steps = new ++ a0.ctx.steps) (hz : 'Z' ∉ new)
    (ρ : Rat) (hp : RhoPacing a0.ctx.metrics.pacing ρ) (fault : TraceFault) (c' : Ctx)
    (hr : a2.ctx.doCollection a2.root .payDebt .finishCycle fault = (c', .returned))
    (hns : c'.phase ≠ .sleep) (hne : c'.metrics.totalGcs ≠ 0) :
    (∃ w, (a0.step (.collect m k wfault none)).1.ctx.steps = w ++ 'W' :: a0.ctx.steps) ∧
    a2.ctx.metrics.allocated
      = a0.ctx.metrics.allocated + allocsIn a0 (.collect m k wfault none :: post) ∧
    ((allocsIn a0 (.collect m k wfault none :: post) : Nat) : Rat) * (1 - ρ)
      < ρ * (a0.ctx.metrics.totalGcs : Rat) := by
  have hrun : a2 = a0.run (.collect m k wfault none :: post) := by
    rw [ha2, ha0, run_append]
  have hal0 : a0.alive = true := by
    cases hx : a0.alive with
    | true => rfl
    | false => rw [hrun, run_dead hx] at hal; rw [hx] at hal; cases hal
  have h0 : Inv a0 := by rw [ha0] at hal0 ⊢; exact inv_run n pre hal0
  have hacc0 : Acc a0.ctx := by rw [ha0]; exact acc_run n pre
  have hk : ∀ op, op ∈ (Op.collect m k wfault none :: post) → op.keepsCycle = true := by
    intro op hop
    simp only [List.mem_cons] at hop
    rcases hop with rfl | hop
    · rfl
    · exact hpost op hop
  rw [hrun] at hal hcb hsteps hr ⊢
  obtain ⟨r1, r2⟩ := rho_bound_from_sleep h0 hacc0 hs hd _ hk hal hcb new hsteps hz hp hr hns hne
  exact ⟨collect_wakes h0 hcb0 hs hd m k wfault, r1, r2⟩

/-- The hypotheses of `rho_bound_run`, bundled: `pre` leads to a sleeping state `a0` with positive
    debt outside callbacks; the self-driven call `.collect m k wfault none` (any method) wakes it;
    `post` keeps the cycle (no `set_pacing`, no negative `adjust_debt`); over wake-and-`post` no
    `'Z'` is appended (`new`); the final `cycle_debt` call returns normally in `c'`. -/
structure CycleHistory (n : Nat) (pre post : List Op) (m : Method) (k : Cont) (wfault : TraceFault)
    (a0 a2 : Arena) (new : List Char) (fault : TraceFault) (c' : Ctx) : Prop where
  ha0 : a0 = (Arena.new n).run pre
  ha2 : a2 = (Arena.new n).run (pre ++ .collect m k wfault none :: post)
  hcb0 : a0.cb = none
  hs : a0.ctx.phase = .sleep
  hd : 0 < a0.ctx.metrics.allocationDebt
  hpost : ∀ op, op ∈ post → op.keepsCycle = true
  hal : a2.alive = true
  hcb : a2.cb = none
  hsteps : a2.ctx.steps = new ++ a0.ctx.steps
  hz : 'Z' ∉ new
  hr : a2.ctx.doCollection a2.root .payDebt .finishCycle fault = (c', .returned)

private theorem history_core {n pre post m k wfault a0 a2 new fault c'}
    (H : CycleHistory n pre post m k wfault a0 a2 new fault c') :
    a2 = a0.run (.collect m k wfault none :: post) ∧ Inv a0 ∧ Acc a0.ctx ∧
    (∀ op, op ∈ (Op.collect m k wfault none :: post) → op.keepsCycle = true) := by
  have hrun : a2 = a0.run (.collect m k wfault none :: post) := by
    rw [H.ha2, H.ha0, run_append]
  have hal0 : a0.alive = true := by
    cases hx : a0.alive with
    | true => rfl
    | false => have := H.hal; rw [hrun, run_dead hx] at this; rw [hx] at this; cases this
  refine ⟨hrun, ?_, ?_, ?_⟩
  · have := H.ha0; subst this; exact inv_run n pre hal0
  · have := H.ha0; subst this; exact acc_run n pre
  · intro op hop
    simp only [List.mem_cons] at hop
    rcases hop with rfl | hop
    · rfl
    · exact H.hpost op hop

/-- What the history determines, whatever the pacing: `allocated` grew by the number of accepted
    `alloc` operations (`A'`); the allocations the cycle has had to deal with are the `H` held at
    wake-up plus `A'`; and `H ≠ 0`. -/
private theorem history_facts {n pre post m k wfault a0 a2 new fault c'}
    (H : CycleHistory n pre post m k wfault a0 a2 new fault c') {ρ : Rat}
    (hp : RhoPacing a0.ctx.metrics.pacing ρ) (hns : c'.phase ≠ .sleep) :
    c'.metrics.totalGcs + c'.metrics.freed
      = a0.ctx.metrics.totalGcs + allocsIn a0 (.collect m k wfault none :: post) ∧
    a0.ctx.metrics.totalGcs ≠ 0 ∧
    (c'.metrics.totalGcs ≠ 0 →
      ((allocsIn a0 (.collect m k wfault none :: post) : Nat) : Rat) * (1 - ρ)
        < ρ * (a0.ctx.metrics.totalGcs : Rat)) := by
  obtain ⟨hrun, h0, hacc0, hk⟩ := history_core H
  have hal := H.hal; have hcb := H.hcb; have hsteps := H.hsteps; have hr := H.hr
  rw [hrun] at hal hcb hsteps hr
  exact (cycle_from_sleep h0 hacc0 H.hs H.hd _ hk hal hcb new hsteps H.hz hp hr hns).2

/-- **ρ-bound over a self-driven history**: as `rho_bound_run`, with every collection call of
    `post` self-driven (`Op.selfDriven`: no replay) — what a client of the real collector can do —
    and **without** the hypothesis `total_gcs ≠ 0`: inside one cycle a self-driven call never
    returns with the arena emptied (`selfdriven_nonempty`, Proofs/NotParked.lean). -/
theorem rho_bound_run_selfdriven {n pre post m k wfault a0 a2 new fault c'}
    (H : CycleHistory n pre post m k wfault a0 a2 new fault c')
    (hself : ∀ op, op ∈ post → op.selfDriven = true)
    (ρ : Rat) (hp : RhoPacing a0.ctx.metrics.pacing ρ) (hns : c'.phase ≠ .sleep) :
    ((allocsIn a0 (.collect m k wfault none :: post) : Nat) : Rat) * (1 - ρ)
      < ρ * (a0.ctx.metrics.totalGcs : Rat) := by
  obtain ⟨hrun, h0, hacc0, _⟩ := history_core H
  have hal := H.hal; have hcb := H.hcb; have hsteps := H.hsteps; have hr := H.hr
  rw [hrun] at hal hcb hsteps hr
  have hne := selfdriven_nonempty h0 hacc0 H.hcb0 H.hs H.hd m k wfault post
    (fun op hop => ⟨hself op hop, H.hpost op hop⟩) hal hcb new hsteps H.hz hr hns
  exact (history_facts H hp hns).2.2 hne

/-- **The heap stays within a constant factor of its size at wake-up.**  Over a history as in
    `rho_bound_run` (any `post`, replays included) with `ρ < 1`: while the cycle is unfinished
    after a `cycle_debt` call, the arena holds fewer than `H / (1 - ρ)` allocations, `H` the number
    of allocations held when the cycle woke. -/
theorem heap_factor_run {n pre post m k wfault a0 a2 new fault c'}
    (H : CycleHistory n pre post m k wfault a0 a2 new fault c')
    (ρ : Rat) (hp : RhoPacing a0.ctx.metrics.pacing ρ) (hρ : ρ < 1) (hns : c'.phase ≠ .sleep) :
    (c'.metrics.totalGcs : Rat) < (a0.ctx.metrics.totalGcs : Rat) / (1 - ρ) := by
  obtain ⟨hsum, hH0, hbound⟩ := history_facts H hp hns
  rw [Rat.lt_div_iff (by grind)]
  have hHpos : (0 : Rat) < (a0.ctx.metrics.totalGcs : Rat) :=
    Rat.natCast_pos.mpr (Nat.pos_of_ne_zero hH0)
  by_cases hz : c'.metrics.totalGcs = 0
  · rw [hz]
    have : ((0 : Nat) : Rat) = 0 := rfl
    rw [this, Rat.zero_mul]; exact hHpos
  · have hb := hbound hz
    have hle : (c'.metrics.totalGcs : Rat) ≤ (a0.ctx.metrics.totalGcs : Rat)
        + ((allocsIn a0 (.collect m k wfault none :: post) : Nat) : Rat) := by
      have : c'.metrics.totalGcs ≤ a0.ctx.metrics.totalGcs
          + allocsIn a0 (.collect m k wfault none :: post) := by omega
      exact_mod_cast this
    have hmul := Rat.mul_le_mul_of_nonneg_right hle (show (0 : Rat) ≤ 1 - ρ by grind)
    rw [Rat.add_mul] at hmul
    grind

/-- **So cycles complete**, over a history: once the allocations made since the cycle woke reach
    `ρ H ≤ A' (1 - ρ)`, a `cycle_debt` call returns Sleeping (the cycle finished) — or, when `post`
    contains a replayed call cut in the corner described at `rho_bound_run`, with an empty arena. -/
theorem cycles_complete_run {n pre post m k wfault a0 a2 new fault c'}
    (H : CycleHistory n pre post m k wfault a0 a2 new fault c')
    (ρ : Rat) (hp : RhoPacing a0.ctx.metrics.pacing ρ)
    (hmany : ρ * (a0.ctx.metrics.totalGcs : Rat)
      ≤ ((allocsIn a0 (.collect m k wfault none :: post) : Nat) : Rat) * (1 - ρ)) :
    c'.phase = .sleep ∨ c'.metrics.totalGcs = 0 := by
  by_cases hs : c'.phase = .sleep
  · exact Or.inl hs
  · by_cases hz : c'.metrics.totalGcs = 0
    · exact Or.inr hz
    · exact absurd ((history_facts H hp hs).2.2 hz) (Rat.not_lt.mpr hmany)

/-- … and over a self-driven history it returns Sleeping, without exception. -/
theorem cycles_complete_run_selfdriven {n pre post m k wfault a0 a2 new fault c'}
    (H : CycleHistory n pre post m k wfault a0 a2 new fault c')
    (hself : ∀ op, op ∈ post → op.selfDriven = true)
    (ρ : Rat) (hp : RhoPacing a0.ctx.metrics.pacing ρ)
    (hmany : ρ * (a0.ctx.metrics.totalGcs : Rat)
      ≤ ((allocsIn a0 (.collect m k wfault none :: post) : Nat) : Rat) * (1 - ρ)) :
    c'.phase = .sleep := by
  apply Classical.byContradiction
  intro hs
  exact absurd (rho_bound_run_selfdriven H hself ρ hp hs) (Rat.not_lt.mpr hmany)

/-- The clause of `rho_bound_run` **without** `total_gcs ≠ 0`, for arbitrary `post` (replayed calls
    included).  False: `rho_bound_run_literal_false`. -/
def rho_bound_run_literal : Prop :=
  ∀ (n : Nat) (pre post : List Op) (m : Method) (k : Cont) (wfault : TraceFault) (a0 a2 : Arena)
    (new : List Char) (fault : TraceFault) (c' : Ctx) (ρ : Rat),
    CycleHistory n pre post m k wfault a0 a2 new fault c' → RhoPacing a0.ctx.metrics.pacing ρ →
    c'.phase ≠ .sleep →
    ((allocsIn a0 (.collect m k wfault none :: post) : Nat) : Rat) * (1 - ρ)
      < ρ * (a0.ctx.metrics.totalGcs : Rat)

/-! ### Sleep is honoured -/

/-- What the end of a cycle schedules: the next one wakes after
    `max(sleep_factor × remembered, min_sleep)` allocations counted from zero (`remembered` = the
    survivors counted by the sweep), and no artificial debt is carried over when the cycle was
    atomic or ended without debt. -/
theorem sleep_schedule (c : Ctx) (hasSlept : Bool) :
    (c.enterSleep hasSlept).phase = .sleep ∧
    (c.enterSleep hasSlept).metrics.wakeup =
      max ((c.metrics.remembered : Rat) * c.metrics.pacing.sleepFactor) (c.metrics.pacing.minSleep : Rat) ∧
    (c.enterSleep hasSlept).metrics.allocated = 0 ∧
    (hasSlept = true ∨ c.metrics.allocationDebt = 0 → (c.enterSleep hasSlept).metrics.artificial = 0) := by
  obtain ⟨h1, h2, _, _, h5⟩ := finishCycle_schedule c.metrics hasSlept
  exact ⟨rfl, h1, h2, h5⟩

/-- **Sleep is honoured**, one state.  In any sleeping state of any history with no artificial
    debt: while the allocations made since the cycle ended do not exceed the wake-up amount every
    debt-driven call returns at once with the state unchanged and the reported debt is zero; once
    they exceed it the reported debt is positive — exactly the excess.  (The arena then holds
    something: asleep, `allocated ≤ total_gc_count` and the wake-up amount is never negative —
    the run invariant `WInv`, Proofs/CycleRun.lean.) -/
theorem sleep_honoured (n : Nat) (ops : List Op) (root : List Slot) (stop : Stop) (fault : TraceFault)
    (hs : ((Arena.new n).run ops).ctx.phase = .sleep)
    (hart : ((Arena.new n).run ops).ctx.metrics.artificial = 0) :
    let c := ((Arena.new n).run ops).ctx
    ((c.metrics.allocated : Rat) ≤ c.metrics.wakeup →
      c.doCollection root .payDebt stop fault = (c, .returned) ∧ c.metrics.allocationDebt = 0) ∧
    (c.metrics.wakeup < (c.metrics.allocated : Rat) →
      0 < c.metrics.allocationDebt ∧
      c.metrics.allocationDebt = (c.metrics.allocated : Rat) - c.metrics.wakeup) := by
  intro c
  obtain ⟨p1, p2⟩ := GcArena.sleep_honoured root stop fault hs (acc_run n ops) hart
  exact ⟨p1, fun hlt => p2 hlt ((winv_run n ops).nonempty hs hlt)⟩

/-- **Sleep is honoured**, over time.  From any sleeping state of any history with no artificial
    debt, over any further sequence of mutator operations (anything but `set_pacing` /
    `adjust_debt`) and self-driven debt-driven collection calls during which the allocations do
    not exceed the wake-up amount: the collector is still Sleeping, made no progress (no event
    logged, schedule unchanged) and reports zero debt. -/
theorem stays_asleep (n : Nat) (ops more : List Op)
    (hs : ((Arena.new n).run ops).ctx.phase = .sleep)
    (hart : ((Arena.new n).run ops).ctx.metrics.artificial = 0)
    (hmore : ∀ op, op ∈ more → op.isSleepy = true)
    (halive : (((Arena.new n).run ops).run more).alive = true)
    (hfew : ((((Arena.new n).run ops).ctx.metrics.allocated + more.countP Op.isAlloc : Nat) : Rat)
              ≤ ((Arena.new n).run ops).ctx.metrics.wakeup) :
    (((Arena.new n).run ops).run more).ctx.phase = .sleep ∧
    (((Arena.new n).run ops).run more).ctx.log = ((Arena.new n).run ops).ctx.log ∧
    (((Arena.new n).run ops).run more).ctx.metrics.wakeup = ((Arena.new n).run ops).ctx.metrics.wakeup ∧
    (((Arena.new n).run ops).run more).ctx.metrics.allocationDebt = 0 := by
  have hal0 : ((Arena.new n).run ops).alive = true := by
    cases hx : ((Arena.new n).run ops).alive with
    | true => rfl
    | false => rw [run_dead hx] at halive; rw [hx] at halive; cases halive
  obtain ⟨r1, r2, r3, _, _, r6⟩ :=
    GcArena.stays_asleep more _ (inv_run n ops hal0) hs hart hmore halive hfew
  exact ⟨r1, r2, r3, r6⟩

/-! ### Non-vacuity -/

/-- A reachable state of the corner: Sweeping, sweep list exhausted, no allocation left. -/
def emptied : List Op := [
  .enter .mutate, .alloc true [none], .leave, .adjustDebt 1000,
  .collect .finishMarking .sweep none (some [.wake, .markStep none, .markBreak, .toSweep]),
  .collect .collectDebt .drop none (some [.sweepStep]) ]

example : ((Arena.new 1).run emptied).ctx.phase = .sweep := by decide
example : ((Arena.new 1).run emptied).ctx.metrics.totalGcs = 0 := by decide
example : ((Arena.new 1).run emptied).ctx.rest = [] := by decide

/-- Pacing with `ρ = 1/2` on every path. -/
def halfPacing : Pacing :=
  { sleepFactor := 1, minSleep := 0, markFactor := 1/4, traceFactor := 1/4, keepFactor := 0,
    dropFactor := 1/4, freeFactor := 1/4 }

/-- Four unreachable allocations, three of them forgiven (`adjust_debt(-3)`), the cycle wakes and
    marks; one more allocation; the sweep releases four of the five: the debt is paid with the
    cycle unfinished. -/
def rhoDemo : List Op := [
  .setPacing halfPacing,
  .enter .mutate, .alloc true [none], .alloc true [none], .alloc true [none], .alloc true [none], .leave,
  .adjustDebt (-3),
  .collect .cycleDebt .drop none (some [.wake, .markStep none, .markBreak]),
  .enter .mutate, .alloc true [none], .leave,
  .collect .cycleDebt .drop none (some [.toSweep, .sweepStep, .sweepStep, .sweepStep, .sweepStep]) ]

private theorem rhoDemo_metrics : ((Arena.new 1).run rhoDemo).ctx.metrics =
    { pacing := halfPacing, totalGcs := 1, wakeup := 0, artificial := 0 + (-3), allocated := 5,
      dropped := 4, freed := 4, marked := 0, traced := 0, remembered := 0, underflow := false } := by rfl

private theorem rhoDemo_no_debt : ((Arena.new 1).run rhoDemo).ctx.metrics.hasDebt = false := by
  rw [rhoDemo_metrics]
  simp only [Metrics.hasDebt, decide_eq_false_iff_not]
  unfold Metrics.allocationDebt Metrics.cycleDebits Metrics.cycleCredits halfPacing
  simp only
  grind

/-- Non-vacuity of `rho_bound`: on `rhoDemo` (`H = 4` held and `Aw = 4` counted at wake-up, `A' = 1`
    allocation since) every hypothesis holds with `ρ = 1/2` — the call returns Sweeping with one
    allocation left. -/
example : ∃ (c' : Ctx),
    ((Arena.new 1).run rhoDemo).alive = true ∧ ((Arena.new 1).run rhoDemo).cb = none ∧
    RhoPacing ((Arena.new 1).run rhoDemo).ctx.metrics.pacing (1/2) ∧
    4 + 1 = ((Arena.new 1).run rhoDemo).ctx.metrics.allocated ∧
    4 + 1 = ((Arena.new 1).run rhoDemo).ctx.metrics.totalGcs + ((Arena.new 1).run rhoDemo).ctx.metrics.freed ∧
    0 < ((4 : Nat) : Rat) - ((Arena.new 1).run rhoDemo).ctx.metrics.wakeup
            + ((Arena.new 1).run rhoDemo).ctx.metrics.artificial ∧
    ((Arena.new 1).run rhoDemo).ctx.doCollection ((Arena.new 1).run rhoDemo).root .payDebt .finishCycle none
      = (c', .returned) ∧ c'.phase ≠ .sleep ∧ c'.metrics.totalGcs ≠ 0 := by
  refine ⟨((Arena.new 1).run rhoDemo).ctx, by decide, by decide, ?_, by decide, by decide, ?_, ?_,
    by decide, by decide⟩
  · rw [rhoDemo_metrics]; constructor <;> (unfold halfPacing; simp only; grind)
  · rw [rhoDemo_metrics]; simp only; grind
  · simp [Ctx.doCollection, rhoDemo_no_debt]

/-! Non-vacuity of `rho_bound_run`: `rhoPre` (four unreachable allocations, three forgiven) leaves
    the collector asleep in debt; the self-driven `mark_debt` wakes and marks; `rhoPost` allocates
    once more and sweeps four of the five away: the debt is paid with the cycle unfinished. -/

def rhoPre : List Op := [
  .setPacing halfPacing,
  .enter .mutate, .alloc true [none], .alloc true [none], .alloc true [none], .alloc true [none], .leave,
  .adjustDebt (-3) ]

def rhoPost : List Op := [
  .enter .mutate, .alloc true [none], .leave,
  .collect .cycleDebt .drop none (some [.toSweep, .sweepStep, .sweepStep, .sweepStep, .sweepStep]) ]

private theorem rhoPre_metrics : ((Arena.new 1).run rhoPre).ctx.metrics =
    { pacing := halfPacing, totalGcs := 4, wakeup := 0, artificial := 0 + (-3), allocated := 4,
      dropped := 0, freed := 0, marked := 0, traced := 0, remembered := 0, underflow := false } := by rfl

private theorem rhoPre_debt : 0 < ((Arena.new 1).run rhoPre).ctx.metrics.allocationDebt := by
  rw [rhoPre_metrics]
  unfold Metrics.allocationDebt Metrics.cycleDebits Metrics.cycleCredits halfPacing
  simp only
  grind

/-- The self-driven `mark_debt` in that state is the replay `W r b` (its debt tests compare exact
    rationals, which the kernel does not evaluate: `Proofs/SelfDriven.lean`). -/
private theorem rhoWake_eq :
    ((Arena.new 1).run rhoPre).step (.collect .markDebt .drop none none) =
    ((Arena.new 1).run rhoPre).step
      (.collect .markDebt .drop none (some [.wake, .markStep none, .markBreak])) := by
  have hd : ((Arena.new 1).run rhoPre).ctx.metrics.hasDebt = true := by
    simpa [Metrics.hasDebt] using rhoPre_debt
  apply step_collect_self_eq_oracle (c := (((((Arena.new 1).run rhoPre).ctx.switch .mark).markOne
      ((Arena.new 1).run rhoPre).root none).1.markOne ((Arena.new 1).run rhoPre).root none).1) (by decide)
  · exact doCollection_markDebt_wake (by decide) hd (Prod.ext rfl (by decide)) hd (by decide)
      (Prod.ext rfl (by decide))
  · rfl

private theorem rhoRun_eq :
    (Arena.new 1).run (rhoPre ++ .collect .markDebt .drop none none :: rhoPost) =
    (Arena.new 1).run (rhoPre ++ .collect .markDebt .drop none
      (some [.wake, .markStep none, .markBreak]) :: rhoPost) := by
  rw [run_append, run_append]
  simp only [Arena.run]
  rw [rhoWake_eq]

private theorem rhoRun_metrics :
    ((Arena.new 1).run (rhoPre ++ .collect .markDebt .drop none none :: rhoPost)).ctx.metrics =
    { pacing := halfPacing, totalGcs := 1, wakeup := 0, artificial := 0 + (-3), allocated := 5,
      dropped := 4, freed := 4, marked := 0, traced := 0, remembered := 0, underflow := false } := by
  rw [rhoRun_eq]; rfl

/-- Every hypothesis of `rho_bound_run` holds on this history with `ρ = 1/2` (`H = 4`, `A' = 1`);
    the final `cycle_debt` returns Sweeping with one allocation left. -/
example : ∃ (new : List Char) (c' : Ctx),
    let a0 := (Arena.new 1).run rhoPre
    let a2 := (Arena.new 1).run (rhoPre ++ .collect .markDebt .drop none none :: rhoPost)
    a0.cb = none ∧ a0.ctx.phase = .sleep ∧
    0 < a0.ctx.metrics.allocationDebt ∧ (∀ op, op ∈ rhoPost → op.keepsCycle = true) ∧
    a2.alive = true ∧ a2.cb = none ∧ a2.ctx.steps = new ++ a0.ctx.steps ∧ 'Z' ∉ new ∧
    RhoPacing a0.ctx.metrics.pacing (1/2) ∧
    a2.ctx.doCollection a2.root .payDebt .finishCycle none = (c', .returned) ∧
    c'.phase ≠ .sleep ∧ c'.metrics.totalGcs ≠ 0 ∧
    a0.ctx.metrics.totalGcs = 4 ∧ allocsIn a0 (.collect .markDebt .drop none none :: rhoPost) = 1 := by
  have hnd : ((Arena.new 1).run (rhoPre ++ .collect .markDebt .drop none none :: rhoPost)).ctx.metrics.hasDebt
      = false := by
    rw [rhoRun_metrics]
    simp only [Metrics.hasDebt, decide_eq_false_iff_not]
    unfold Metrics.allocationDebt Metrics.cycleDebits Metrics.cycleCredits halfPacing
    simp only
    grind
  have hallocs : allocsIn ((Arena.new 1).run rhoPre) (.collect .markDebt .drop none none :: rhoPost) = 1 := by
    show (if ((Arena.new 1).run rhoPre).allocates (.collect .markDebt .drop none none) then 1 else 0)
      + allocsIn (((Arena.new 1).run rhoPre).step (.collect .markDebt .drop none none)).1 rhoPost = 1
    rw [rhoWake_eq]
    decide
  refine ⟨['x', 'x', 'x', 'x', 'S', 'b', 'r', 'W'],
    ((Arena.new 1).run (rhoPre ++ .collect .markDebt .drop none none :: rhoPost)).ctx, ?_⟩
  refine ⟨by decide, by decide, rhoPre_debt, by decide, ?_, ?_, ?_, by decide, ?_, ?_, ?_, ?_,
    by decide, hallocs⟩
  · rw [rhoRun_eq]; decide
  · rw [rhoRun_eq]; decide
  · rw [rhoRun_eq]; decide
  · rw [rhoPre_metrics]; constructor <;> (unfold halfPacing; simp only; grind)
  · simp [Ctx.doCollection, hnd]
  · rw [rhoRun_eq]; decide
  · rw [rhoRun_eq]; decide

/-! A history that is self-driven throughout: `rhoPre`, the self-driven `mark_debt`, one more
    allocation, and a self-driven final `cycle_debt` that marks nothing more, sweeps four of the
    five allocations away and returns Sweeping with the debt paid (`H = 4`, `A' = 1`).  Its debt
    tests are discharged one by one (`Proofs/SelfDriven.lean`). -/

def selfPost : List Op := [ .enter .mutate, .alloc true [none], .leave ]

/-- The state before the final call (with the waking call already shown equal to its replay). -/
private def selfCtx : Ctx :=
  ((Arena.new 1).run (rhoPre ++ .collect .markDebt .drop none
    (some [.wake, .markStep none, .markBreak]) :: selfPost)).ctx

private def selfRoot : List Slot :=
  ((Arena.new 1).run (rhoPre ++ .collect .markDebt .drop none
    (some [.wake, .markStep none, .markBreak]) :: selfPost)).root

/-- Where the final `cycle_debt` ends: `b S x x x x`. -/
private def selfEnd : Ctx :=
  (selfCtx.step 'b').enterSweep.sweepOne.1.sweepOne.1.sweepOne.1.sweepOne.1

private theorem selfRun_eq :
    (Arena.new 1).run (rhoPre ++ .collect .markDebt .drop none none :: selfPost) =
    (Arena.new 1).run (rhoPre ++ .collect .markDebt .drop none
      (some [.wake, .markStep none, .markBreak]) :: selfPost) := by
  rw [run_append, run_append]
  simp only [Arena.run]
  rw [rhoWake_eq]

private theorem self_metrics (k : Nat) (c : Ctx)
    (h : c.metrics =
      ({ pacing := halfPacing, totalGcs := 5 - k, wakeup := 0, artificial := 0 + (-3),
         allocated := 5, dropped := k, freed := k, marked := 0, traced := 0, remembered := 0,
         underflow := false } : Metrics)) (hk : k ≤ 4) :
    c.metrics.hasDebt = decide (k < 4) := by
  rw [h]
  have h5 : 5 - k ≠ 0 := by omega
  have hk' : (k : Rat) ≤ 4 := by exact_mod_cast hk
  by_cases h4 : k < 4
  · have : (k : Rat) ≤ 3 := by exact_mod_cast (show k ≤ 3 by omega)
    simp only [Metrics.hasDebt, h4, decide_true, decide_eq_true_eq]
    unfold Metrics.allocationDebt Metrics.cycleDebits Metrics.cycleCredits halfPacing
    simp only [h5, if_false]
    split <;> grind
  · have hk4 : k = 4 := by omega
    subst hk4
    simp only [Metrics.hasDebt, decide_eq_false_iff_not, Nat.lt_irrefl, decide_false]
    unfold Metrics.allocationDebt Metrics.cycleDebits Metrics.cycleCredits halfPacing
    simp only
    grind

private theorem self_call :
    selfCtx.doCollection selfRoot .payDebt .finishCycle none = (selfEnd, .returned) := by
  have n1 : ¬ (Stop.finishCycle ≤ Stop.fullyMarked) := by decide
  have n2 : ¬ (Stop.finishCycle ≤ Stop.atSweep) := by decide
  have d0 : selfCtx.metrics.hasDebt = true := by
    rw [self_metrics 0 selfCtx rfl (by omega)]; rfl
  rw [doCollection_loop d0]
  rw [show 2 * selfCtx.fuelBound selfRoot + 8 = (2 * selfCtx.fuelBound selfRoot + 3) + 1 + 1 + 1 + 1 + 1
    from by omega]
  rw [collectLoop_toSweep (by decide) (by decide) n1
    (by rw [self_metrics 0 _ rfl (by omega)]; rfl)]
  rw [collectLoop_sweep_on (by decide) (by decide) n2
    (by rw [self_metrics 1 _ rfl (by omega)]; rfl)]
  rw [collectLoop_sweep_on (by decide) (by decide) n2
    (by rw [self_metrics 2 _ rfl (by omega)]; rfl)]
  rw [collectLoop_sweep_on (by decide) (by decide) n2
    (by rw [self_metrics 3 _ rfl (by omega)]; rfl)]
  exact collectLoop_sweep_paid (by decide) (by decide) n2
    (by rw [self_metrics 4 _ rfl (by omega)]; rfl) (by decide)

/-- The self-driven history satisfies `CycleHistory`. -/
private theorem selfHistory :
    CycleHistory 1 rhoPre selfPost .markDebt .drop none ((Arena.new 1).run rhoPre)
      ((Arena.new 1).run (rhoPre ++ .collect .markDebt .drop none none :: selfPost))
      ['b', 'r', 'W'] none selfEnd := by
  refine ⟨rfl, rfl, by decide, by decide, rhoPre_debt, by decide, ?_, ?_, ?_, by decide, ?_⟩
  · rw [selfRun_eq]; decide
  · rw [selfRun_eq]; decide
  · rw [selfRun_eq]; decide
  · rw [selfRun_eq]; exact self_call

private theorem self_allocs :
    allocsIn ((Arena.new 1).run rhoPre) (.collect .markDebt .drop none none :: selfPost) = 1 := by
  show (if ((Arena.new 1).run rhoPre).allocates (.collect .markDebt .drop none none) then 1 else 0)
    + allocsIn (((Arena.new 1).run rhoPre).step (.collect .markDebt .drop none none)).1 selfPost = 1
  rw [rhoWake_eq]
  decide

private theorem rhoPre_half : RhoPacing ((Arena.new 1).run rhoPre).ctx.metrics.pacing (1/2) := by
  rw [rhoPre_metrics]; constructor <;> (unfold halfPacing; simp only; grind)

/-- Non-vacuity of `rho_bound_run_selfdriven`: every hypothesis holds on the self-driven history
    (no replayed call anywhere), the final call ends Sweeping with one allocation left; `H = 4`,
    `A' = 1`, `ρ = 1/2`. -/
example :
    CycleHistory 1 rhoPre selfPost .markDebt .drop none ((Arena.new 1).run rhoPre)
      ((Arena.new 1).run (rhoPre ++ .collect .markDebt .drop none none :: selfPost))
      ['b', 'r', 'W'] none selfEnd ∧
    (∀ op, op ∈ selfPost → op.selfDriven = true) ∧
    RhoPacing ((Arena.new 1).run rhoPre).ctx.metrics.pacing (1/2) ∧
    selfEnd.phase = .sweep ∧ selfEnd.metrics.totalGcs = 1 ∧
    ((Arena.new 1).run rhoPre).ctx.metrics.totalGcs = 4 ∧
    allocsIn ((Arena.new 1).run rhoPre) (.collect .markDebt .drop none none :: selfPost) = 1 :=
  ⟨selfHistory, by decide, rhoPre_half, by decide, by decide, by decide, self_allocs⟩

/-- … and its instance: `1 · (1 - 1/2) < 1/2 · 4`. -/
example :
    ((allocsIn ((Arena.new 1).run rhoPre) (.collect .markDebt .drop none none :: selfPost) : Nat) : Rat)
      * (1 - 1/2) < 1/2 * (((Arena.new 1).run rhoPre).ctx.metrics.totalGcs : Rat) :=
  rho_bound_run_selfdriven selfHistory (by decide) (1/2) rhoPre_half (by decide)

/-- Non-vacuity of `heap_factor_run` on the same history: `1 < 4 / (1 - 1/2)`. -/
example : (selfEnd.metrics.totalGcs : Rat)
    < (((Arena.new 1).run rhoPre).ctx.metrics.totalGcs : Rat) / (1 - 1/2) :=
  heap_factor_run selfHistory (1/2) rhoPre_half (by grind) (by decide)

/-! The corner that makes `total_gcs ≠ 0` necessary for arbitrary `post`: one allocation held at
    wake-up (`H = 1`), two more made while marking (`A' = 2`), and a **replayed** sweep cut right
    after it released all three — `Sweep`, nothing left to sweep, arena empty. -/

def litPre : List Op := [ .setPacing halfPacing, .enter .mutate, .alloc true [none], .leave ]

def litPost : List Op := [
  .enter .mutate, .alloc true [none], .alloc true [none], .leave,
  .collect .cycleDebt .drop none (some [.toSweep, .sweepStep, .sweepStep, .sweepStep]) ]

private theorem litPre_metrics : ((Arena.new 1).run litPre).ctx.metrics =
    { pacing := halfPacing, totalGcs := 1, wakeup := 0, artificial := 0, allocated := 1,
      dropped := 0, freed := 0, marked := 0, traced := 0, remembered := 0, underflow := false } := by rfl

private theorem litPre_debt : 0 < ((Arena.new 1).run litPre).ctx.metrics.allocationDebt := by
  rw [litPre_metrics]
  unfold Metrics.allocationDebt Metrics.cycleDebits Metrics.cycleCredits halfPacing
  simp only
  grind

private theorem litWake_eq :
    ((Arena.new 1).run litPre).step (.collect .markDebt .drop none none) =
    ((Arena.new 1).run litPre).step
      (.collect .markDebt .drop none (some [.wake, .markStep none, .markBreak])) := by
  have hd : ((Arena.new 1).run litPre).ctx.metrics.hasDebt = true := by
    simpa [Metrics.hasDebt] using litPre_debt
  apply step_collect_self_eq_oracle (c := (((((Arena.new 1).run litPre).ctx.switch .mark).markOne
      ((Arena.new 1).run litPre).root none).1.markOne ((Arena.new 1).run litPre).root none).1) (by decide)
  · exact doCollection_markDebt_wake (by decide) hd (Prod.ext rfl (by decide)) hd (by decide)
      (Prod.ext rfl (by decide))
  · rfl

private theorem litRun_eq :
    (Arena.new 1).run (litPre ++ .collect .markDebt .drop none none :: litPost) =
    (Arena.new 1).run (litPre ++ .collect .markDebt .drop none
      (some [.wake, .markStep none, .markBreak]) :: litPost) := by
  rw [run_append, run_append]
  simp only [Arena.run]
  rw [litWake_eq]

private theorem litSelfRun_eq :
    (Arena.new 1).run (litPre ++ .collect .markDebt .drop none none :: selfPost) =
    (Arena.new 1).run (litPre ++ .collect .markDebt .drop none
      (some [.wake, .markStep none, .markBreak]) :: selfPost) := by
  rw [run_append, run_append]
  simp only [Arena.run]
  rw [litWake_eq]

/-- Non-vacuity of `cycles_complete_run_selfdriven` (and `cycles_complete_run`): on the
    self-driven history `litPre`, `mark_debt`, one more allocation (`H = 1`, `A' = 1`, `ρ = 1/2`,
    so `ρ H ≤ A' (1 - ρ)`), every hypothesis holds for the state `c'` in which the self-driven
    final `cycle_debt` returns — hence it returns Sleeping. -/
example : ∃ c',
    CycleHistory 1 litPre selfPost .markDebt .drop none ((Arena.new 1).run litPre)
      ((Arena.new 1).run (litPre ++ .collect .markDebt .drop none none :: selfPost))
      ['b', 'r', 'W'] none c' ∧
    (∀ op, op ∈ selfPost → op.selfDriven = true) ∧
    RhoPacing ((Arena.new 1).run litPre).ctx.metrics.pacing (1/2) ∧
    (1/2 : Rat) * (((Arena.new 1).run litPre).ctx.metrics.totalGcs : Rat)
      ≤ ((allocsIn ((Arena.new 1).run litPre) (.collect .markDebt .drop none none :: selfPost) : Nat) : Rat)
          * (1 - 1/2) := by
  have hallocs : allocsIn ((Arena.new 1).run litPre) (.collect .markDebt .drop none none :: selfPost) = 1 := by
    show (if ((Arena.new 1).run litPre).allocates (.collect .markDebt .drop none none) then 1 else 0)
      + allocsIn (((Arena.new 1).run litPre).step (.collect .markDebt .drop none none)).1 selfPost = 1
    rw [litWake_eq]
    decide
  have hc2 := run_cinv 1 (litPre ++ .collect .markDebt .drop none none :: selfPost)
    (by rw [litSelfRun_eq]; decide) (by rw [litSelfRun_eq]; decide)
  refine ⟨_, ⟨rfl, rfl, by decide, by decide, litPre_debt, by decide, ?_, ?_, ?_, by decide,
    Prod.ext rfl (doCollection_returns hc2 .payDebt .finishCycle)⟩, by decide, ?_, ?_⟩
  · rw [litSelfRun_eq]; decide
  · rw [litSelfRun_eq]; decide
  · rw [litSelfRun_eq]; decide
  · rw [litPre_metrics]; constructor <;> (unfold halfPacing; simp only; grind)
  · rw [hallocs, litPre_metrics]
    have e1 : ((1 : Nat) : Rat) = 1 := rfl
    simp only [e1]
    grind

/-- The literal clause is false: on `litPre ++ [mark_debt] ++ litPost` every hypothesis holds with
    `ρ = 1/2`, the final `cycle_debt` returns Sweeping with the arena emptied, and
    `A' (1 - ρ) = 1` is not below `ρ H = 1/2`. -/
theorem rho_bound_run_literal_false : ¬ rho_bound_run_literal := by
  intro hlit
  have hallocs : allocsIn ((Arena.new 1).run litPre) (.collect .markDebt .drop none none :: litPost) = 2 := by
    show (if ((Arena.new 1).run litPre).allocates (.collect .markDebt .drop none none) then 1 else 0)
      + allocsIn (((Arena.new 1).run litPre).step (.collect .markDebt .drop none none)).1 litPost = 2
    rw [litWake_eq]
    decide
  have hH : CycleHistory 1 litPre litPost .markDebt .drop none ((Arena.new 1).run litPre)
      ((Arena.new 1).run (litPre ++ .collect .markDebt .drop none none :: litPost))
      ['x', 'x', 'x', 'S', 'b', 'r', 'W'] none
      ((Arena.new 1).run (litPre ++ .collect .markDebt .drop none none :: litPost)).ctx := by
    refine ⟨rfl, rfl, by decide, by decide, litPre_debt, by decide, ?_, ?_, ?_, by decide, ?_⟩
    · rw [litRun_eq]; decide
    · rw [litRun_eq]; decide
    · rw [litRun_eq]; decide
    · exact empty_arena_never_collects _ _ _ _ (by rw [litRun_eq]; decide)
  have hp : RhoPacing ((Arena.new 1).run litPre).ctx.metrics.pacing (1/2) := by
    rw [litPre_metrics]; constructor <;> (unfold halfPacing; simp only; grind)
  have := hlit _ _ _ _ _ _ _ _ _ _ _ (1/2) hH hp (by rw [litRun_eq]; decide)
  rw [hallocs, litPre_metrics] at this
  have e1 : ((2 : Nat) : Rat) = 2 := rfl
  have e2 : ((1 : Nat) : Rat) = 1 := rfl
  simp only [e1, e2] at this
  grind

/-- `Pacing::DEFAULT` satisfies the hypothesis with `ρ = 0.55`. -/
example : RhoPacing Pacing.default (55/100) := by
  constructor <;> (unfold Pacing.default; simp only; grind)

/-- Non-vacuity of the sleep theorems: a fresh arena after three allocations is asleep with no
    artificial debt. -/
example : ((Arena.new 1).run [.enter .mutate, .alloc true [none], .alloc true [none], .leave]).ctx.phase
    = .sleep := by decide

end GcArena.C09
