import GcArena.Generated.PacingConsts
/-!
# C09 / C10 (source tie of the model's constants)

`Pacing.default`, `Pacing.stopTheWorld` and `Metrics.new` of `Model/Metrics.lean` are written by
hand after `Pacing::DEFAULT`, `Pacing::STOP_THE_WORLD`, `impl Default for Pacing` and
`Metrics::new` / the `Default` derives behind it in src/metrics.rs, and the collector harness
never observes them (it always installs a dyadic pacing).  `GcArena/Generated/PacingConsts.lean` is
regenerated from the current source on every check run (`/verif/extract`, `src/pacing.rs`): the
field initialisers of both constants parsed from the decimal literals as **exact rationals**
(`0.05 ↦ 5/100`; the f64 rounding of those literals is not modelled, DESIGN §9), the constant the
`Default` impl returns, and the value `Metrics::new()` gives every field.  The translator fails
closed (a non-literal initialiser, a missing / unknown field, another body shape becomes an
`unclassified` entry and an absurd value).  The theorems below are the tie: the pacing theorems
of `Props/C09` and the metric theorems of `Props/C10` that mention these constants are about the
values the code really uses.
-/
namespace GcArena.C09s
open GcArena

/-- Everything the translator met in `Pacing` / `MetricsInner` / `Metrics::new` was classified. -/
theorem pacing_consts_classified : Generated.pacingUnclassified = [] := by decide

/-- `Pacing::DEFAULT` in the source is the model's `Pacing.default`, field by field. -/
theorem pacing_default_matches_source : Generated.pacingDefault = Pacing.default := by decide +kernel

/-- `Pacing::STOP_THE_WORLD` in the source is the model's `Pacing.stopTheWorld`. -/
theorem pacing_stw_matches_source : Generated.pacingStw = Pacing.stopTheWorld := by decide +kernel

/-- `impl Default for Pacing` returns `Self::DEFAULT`. -/
theorem default_impl_is_default :
    Generated.defaultImplConst = "DEFAULT" ∧ Generated.pacingOfDefaultImpl = Pacing.default := by
  decide +kernel

/-- `Metrics::new()` in the source, evaluated structurally (every numeric state cell, however the
cells are grouped into private structs): each starts at zero, and the one `Pacing` cell starts at
what `<Pacing as Default>::default()` returns — which is what the model's `Metrics.new` says: the
default pacing and zero in every counter. -/
theorem metrics_new_matches_source :
    Generated.metricsNewCells.all (fun c => c.2 = 0) = true ∧
    Generated.metricsNewPacings.map (·.2) = [Metrics.new.pacing] ∧
    Metrics.new = { pacing := Pacing.default, totalGcs := 0, wakeup := 0, artificial := 0, allocated := 0,
                    dropped := 0, freed := 0, marked := 0, traced := 0, remembered := 0, underflow := false } := by
  decide +kernel

/-- Lower bounds (a translator that silently drops rows cannot make the theorems above vacuous):
the model's nine numeric counters each have a source cell, there is exactly one pacing cell, and both
constants have the seven pacing fields (a record equality — nothing can be dropped there). -/
theorem required_metrics_cells :
    Generated.metricsNewCells.length ≥ 9 ∧ Generated.metricsNewPacings.length = 1 := by decide

end GcArena.C09s
