import GcArena.Proofs.ConvLemmas
import GcArena.Proofs.LogRun
import GcArena.Props.C17
import GcArena.Generated.CollectTable
/-!
# C19 (dynamic half) — conversions keep the object: identity, collector identity, metadata, ZSTs

Model: `GcArena.Model.Conv` — the pointer-level semantics of `erase`, `erase_kind`, `cast`,
`as_thin` / `as_fat`, `as_ptr` / `from_ptr(_with_kind)`, `as_thin_ptr` / `from_thin_ptr_with_kind`,
`unsize!`, `downgrade` / `upgrade`, `Copy`, `DynamicRootSet::stash` + `fetch` and
`ZstCache::alloc`, with the typing discipline of the real signatures (`applicable`).  Every theorem
about chains quantifies over **all** chains of any length, all targets (sized, array, slice and
`str` of any length, trait object, zero-sized of any alignment, cached zero-sized) and all start
pointers; nothing is proved by enumeration.

Collector identity is phrased against the collector model of C01–C11: a traced `Gc<T, K>` /
`GcWeak<T, K>` reports `Gc::erase(*self)` / `GcWeak::erase(*self)` to the collector
(`Collect for Gc`, src/gc.rs), i.e. the slot content `PtrVal.toPtr` — the target id and the
strength.  `Safe`, `AccessibleC`, `StrongReachC` and the whole of `Arena.run` depend on pointers
only through `GcArena.Ptr`, so a converted pointer *is* the original pointer as far as the
collector is concerned (`collector_view`, `indistinguishable`), and the safety and
exactly-once theorems of C01 / C04 apply to it verbatim (`converted_keeps_alive`,
`converted_weak_block_stays`, `destructed_once`).  Destruction is modelled by its mechanism: the
collector finds the block's header from the pointer's address and takes the drop glue and the
length from there (`destructVia`, src/gc_ptr.rs `GcPtr::drop_in_place` / `VtableFor::VTABLE`), so
what is destructed does not depend on the chain that produced the pointer
(`destruct_chain_independent`, with the counter-model `destruct_through_pointer_would_differ`),
and over histories each block handed out by an `.alloc` operation is destructed at most once, as
the type it was constructed as (`destructed_as_original_type`).  Dereference is modelled with the
metadata the pointer reports and fails on any misfit (`deref`, `deref_original_value`).  Both are
checked on the implementation by the harness (`read=` / `as=` fields, drop log type tags).

Tie: `lib/eng_conv.py` (harness_conv vs. the driver `convmodel`, lean/ConvMain.lean).  The static
half (no conjuring of a `Gc<T>`) is `GcArena.Props.C19s`.
-/
namespace GcArena.C19

open GcArena GcArena.Conv

/-! ### Identity -/

/-- Any chain that succeeds — of any length, from any pointer — yields a pointer to the same
    allocation at the same address. -/
theorem same_object (a : Alloc) (ch : Chain) (p q : PtrVal) (h : apply a ch p = some q) :
    q.obj = p.obj ∧ q.off = p.off :=
  apply_same h

/-- Every well-typed chain on a live value succeeds (and then `same_object` applies): the
    result is `ptr_eq` to the original, and its address is the value address. -/
theorem well_typed_succeeds (a : Alloc) (hl : a.upgradable = true) (ch : Chain) (p : PtrVal)
    (hwt : wellTyped a.target ch p = true) :
    ∃ q, apply a ch p = some q ∧ q.obj = p.obj ∧ q.off = p.off := by
  have h := apply_isSome_iff_wellTyped hl (ch := ch) (p := p)
  rw [hwt] at h
  cases hq : apply a ch p with
  | none => rw [hq] at h; cases h
  | some q => exact ⟨q, rfl, apply_same hq⟩

/-- From the pointer the allocating call returned, every chain ends at that allocation with
    offset 0 and in a well-formed shape. -/
theorem from_alloc (a : Alloc) (ch : Chain) (q : PtrVal) (h : apply a ch (initPtr a) = some q) :
    q.obj = a.id ∧ q.off = 0 ∧ WF a q := by
  have hw := apply_wf (initPtr_wf a) h
  exact ⟨hw.obj, hw.off, hw⟩

/-- On a well-typed chain `apply` is `none` exactly when the chain contains an `upgrade` and the
    value is destructed or condemned by the sweep in progress (`Context::upgrade` refuses). -/
theorem fails_iff_dead_upgrade (a : Alloc) (ch : Chain) (p : PtrVal)
    (hwt : wellTyped a.target ch p = true) :
    apply a ch p = none ↔ (a.live = false ∨ a.condemned = true) ∧ Step.upgrade ∈ ch := by
  rw [apply_eq_none_iff hwt]
  cases a with
  | mk id t live cond => cases live <;> cases cond <;> simp [Alloc.upgradable]

/-- The refusal rule of the conversion model is the one of the collector model (`Ctx.upgrade`,
    Model/Context.lean, mirroring `Context::upgrade`): for an allocated target, `upgrade`
    answers `true` iff the value is live and not (`Sweep` ∧ `WhiteWeak`). -/
theorem upgrade_rule_is_collectors (c : Ctx) (i : Nat) (o : Obj) (t : Target)
    (h : c.heap.get i = some o) :
    (c.upgrade i).2 =
      Alloc.upgradable ⟨i, t, o.live, decide (c.phase = .sweep) && decide (o.color = .whiteWeak)⟩ := by
  simp only [Ctx.upgrade, h, Alloc.upgradable]
  cases o.live <;> simp
  by_cases h1 : c.phase = .sweep <;> by_cases h2 : o.color = .whiteWeak <;> simp [h1, h2]

/-- `upgrade (downgrade p)` is `p` while the value is live (and not condemned), and `None` once
    it is destructed. -/
theorem upgrade_downgrade (a : Alloc) (p : PtrVal) (hs : p.weak = false) :
    (a.upgradable = true → apply a [.downgrade, .upgrade] p = some p) ∧
    (a.live = false → apply a [.downgrade, .upgrade] p = none) := by
  have h1 : applicable a.target .downgrade p = true := by simp [applicable, hs]
  have h2 : applicable a.target .upgrade { p with weak := true } = true := by simp [applicable]
  constructor
  · intro hl
    simp only [apply, step_of_applicable h1, conv, step_of_applicable h2, hl, if_true]
    cases p; simp_all
  · intro hl
    simp [apply, step_of_applicable h1, conv, step_of_applicable h2, hl, Alloc.upgradable]

/-- After any well-typed chain that ends in a weak pointer, `upgrade` answers `Some` of a strong
    pointer to the original allocation while upgradable, `None` when destructed. -/
theorem upgrade_after_chain (a : Alloc) (ch : Chain) (p q : PtrVal) (h : apply a ch p = some q)
    (hw : q.weak = true) :
    (a.upgradable = true →
      ∃ r, step a .upgrade q = some r ∧ r.obj = p.obj ∧ r.off = p.off ∧ r.weak = false) ∧
    (a.live = false → step a .upgrade q = none) := by
  have happ : applicable a.target .upgrade q = true := by simp [applicable, hw]
  constructor
  · intro hl
    refine ⟨{ q with weak := false }, ?_, (apply_same h).1, (apply_same h).2, rfl⟩
    simp [step_of_applicable happ, conv, hl]
  · intro hl
    simp [step_of_applicable happ, conv, hl, Alloc.upgradable]

/-! ### `ptr_eq` -/

/-- `ptr_eq` answers "same allocation, same address" and nothing else: it is insensitive to the
    metadata carried by wide pointers (slice length, vtable) and to every tag (strength, kind,
    static type) of either argument.  (Immediate from the definition of `samePtr`, the model's
    reading of `ptr::addr_eq`; that `Gc::ptr_eq` / `GcWeak::ptr_eq` behave so on wide pointers with
    different metadata is observed by harness_conv's `alias` / `prefix` cases.) -/
theorem ptr_eq_ignores_metadata (p q : PtrVal) :
    (samePtr p q = true ↔ p.obj = q.obj ∧ p.off = q.off) ∧
    (∀ (w1 w2 t1 t2 : Bool) (pm1 pm2 : PMeta) (ty1 ty2 : Ty) (c1 c2 : Meta),
      samePtr { p with weak := w1, thin := t1, pmeta := pm1, ty := ty1, carried := c1 }
            { q with weak := w2, thin := t2, pmeta := pm2, ty := ty2, carried := c2 } = samePtr p q) := by
  constructor
  · simp [samePtr]
  · intros; rfl

/-- Any two pointers obtained by any chains from allocating calls that returned the same block
    — the same call, or two `ZstCache::alloc` calls that both alias the cache's block, whatever
    their types, lengths or vtables — are `ptr_eq`; from different blocks they are not. -/
theorem aliasing_results_ptr_eq (a1 a2 : Alloc) (ch1 ch2 : Chain) (q1 q2 : PtrVal)
    (h1 : apply a1 ch1 (initPtr a1) = some q1) (h2 : apply a2 ch2 (initPtr a2) = some q2) :
    samePtr q1 q2 = decide (a1.id = a2.id) := by
  obtain ⟨o1, f1, _⟩ := from_alloc a1 ch1 q1 h1
  obtain ⟨o2, f2, _⟩ := from_alloc a2 ch2 q2 h2
  simp only [samePtr, o1, o2, f1, f2, beq_self_eq_true, Bool.and_true]
  by_cases h : a1.id = a2.id <;> simp [h]

/-! ### Metadata -/

/-- Whatever chain led to it, a pointer derived from the allocating call's result dereferences
    with exactly the metadata of its static type: for a fat pointer the carried metadata, for a
    thin pointer the metadata `P::from_thin` rebuilds from the header. -/
theorem metadata_exact (a : Alloc) (ch : Chain) (q : PtrVal) (h : apply a ch (initPtr a) = some q) :
    derefMeta a.target q = fatMeta a.target q.ty ∧
    (q.thin = false → q.carried = fatMeta a.target q.ty) ∧
    (q.thin = true → q.carried = .none) := by
  have hw := apply_wf (initPtr_wf a) h
  exact ⟨derefMeta_wf hw, hw.fat, hw.thinMeta⟩

/-- Slices and strings: every `[E]` / `str` typed pointer obtained by any chain sees the length
    the value was allocated with — carried in the pointer when fat, rebuilt from the header when
    thin. -/
theorem length_exact (a : Alloc) (n : Nat)
    (ht : a.target = .slice n ∨ a.target = .str n ∨ a.target = .swh n)
    (ch : Chain) (q : PtrVal) (h : apply a ch (initPtr a) = some q) (hty : q.ty = .orig) :
    derefMeta a.target q = .len n ∧ (q.thin = false → q.carried = .len n) := by
  obtain ⟨h1, h2, _⟩ := metadata_exact a ch q h
  have : fatMeta a.target q.ty = .len n := by
    rw [hty]; rcases ht with ht | ht | ht <;> simp [ht, fatMeta, Target.hdrLen]
  rw [this] at h1 h2
  exact ⟨h1, h2⟩

/-- `unsize!([E; n] => [E])` carries the array length, whatever came before and after. -/
theorem unsized_array_length (a : Alloc) (n : Nat) (ht : a.target = .array n) (ch : Chain)
    (q : PtrVal) (h : apply a ch (initPtr a) = some q) (hty : q.ty = .uns) :
    q.thin = false ∧ q.carried = .len n := by
  have hw := apply_wf (initPtr_wf a) h
  have hf := (hw.uns hty).2.1
  refine ⟨hf, ?_⟩
  rw [hw.fat hf, hty, ht]; rfl

/-- thin → fat reconstructs the pointer exactly: `as_fat (as_thin p) = p` for every well-formed
    fat strong pointer whose kind has a `PtrMeta` (in particular `GcSlice` / `GcStr`). -/
theorem thin_fat_roundtrip (a : Alloc) (p : PtrVal) (hw : WF a p) (hs : p.weak = false)
    (hf : p.thin = false) (hm : hasPtrMeta a.target p = true) :
    apply a [.asThin, .asFat] p = some p := by
  have h1 : applicable a.target .asThin p = true := by simp [applicable, hs, hf, hm]
  have h2 : applicable a.target .asFat { p with thin := true, carried := .none } = true := by
    simp [applicable, hs]
  have hwf : WF a { p with thin := true, carried := .none } :=
    step_wf hw (by rw [step_of_applicable h1]; rfl)
  have hd := derefMeta_wf hwf
  simp only [apply, step_of_applicable h1, conv, step_of_applicable h2, hd]
  have := hw.fat hf
  cases p; simp_all

/-- … and `as_thin (as_fat p) = p` for every well-formed thin strong pointer. -/
theorem fat_thin_roundtrip (a : Alloc) (p : PtrVal) (hw : WF a p) (hs : p.weak = false)
    (ht : p.thin = true) :
    apply a [.asFat, .asThin] p = some p := by
  have h1 : applicable a.target .asFat p = true := by simp [applicable, hs, ht]
  have hk := hw.thinKind ht
  have h2 : applicable a.target .asThin { p with thin := false, carried := derefMeta a.target p } = true := by
    simp only [applicable, hs, Bool.not_false, Bool.true_and]
    exact hk
  simp only [apply, step_of_applicable h1, conv, step_of_applicable h2]
  have := hw.thinMeta ht
  cases p; simp_all

/-! ### Collector identity -/

/-- What the collector sees of a converted pointer is the original target, and — when the chain
    ends with the strength it began with — exactly what it sees of the original pointer.
    (`toPtr` keeps only target and strength by definition, mirroring `Collect for Gc` =
    `trace_gc(Gc::erase(*self))`; the substance is `same_object`.) -/
theorem collector_view (a : Alloc) (ch : Chain) (p q : PtrVal) (h : apply a ch p = some q) :
    q.toPtr.target = p.toPtr.target ∧ (q.weak = p.weak → q.toPtr = p.toPtr) := by
  have ho := (apply_same h).1
  constructor
  · simp only [PtrVal.toPtr]
    split <;> split <;> simp [Ptr.target, ho]
  · intro hw
    simp [PtrVal.toPtr, hw, ho]

/-- No client program can tell the collector which of the two it stored: any operation sequence
    built around the converted pointer — stored in the root, in an object, allocated into a new
    object, in any phase, followed by any collection schedule — is the sequence built around the
    original, so every observable (states, return values, the destruction log) coincides.
    (A rewriting with `collector_view`: the collector model has no state that depends on a
    pointer's tags.  That the real collector does not either is observed by harness_conv:
    survival and destruction under every placement of the converted pointer.) -/
theorem indistinguishable (a : Alloc) (ch : Chain) (p q : PtrVal) (h : apply a ch p = some q)
    (hw : q.weak = p.weak) (A : Arena) (prog : Ptr → List Op) :
    A.run (prog q.toPtr) = A.run (prog p.toPtr) := by
  rw [(collector_view a ch p q h).2 hw]

/-- Keeping the converted pointer keeps the value: in every state of every history in which a
    strong converted pointer is held by the root, by the running callback, or by a slot of an
    object the client can name, the original allocation is allocated, undestructed, not
    condemned by the sweep in progress, and its destruction is not in the log. -/
theorem converted_keeps_alive (n : Nat) (ops : List Op)
    (halive : ((Arena.new n).run ops).alive = true)
    (a : Alloc) (ch : Chain) (p q : PtrVal) (h : apply a ch p = some q) (hs : q.weak = false)
    (held : some q.toPtr ∈ ((Arena.new n).run ops).root ∨ q.toPtr ∈ ((Arena.new n).run ops).temps ∨
      ∃ j o, Accessible ((Arena.new n).run ops) j ∧
        ((Arena.new n).run ops).ctx.heap.get j = some o ∧ some q.toPtr ∈ o.slots) :
    Accessible ((Arena.new n).run ops) p.obj ∧ Safe ((Arena.new n).run ops).ctx p.obj ∧
    Event.dropped p.obj ∉ ((Arena.new n).run ops).ctx.log ∧
    Event.freed p.obj ∉ ((Arena.new n).run ops).ctx.log := by
  have hq : q.toPtr = .strong p.obj := by simp [PtrVal.toPtr, hs, (apply_same h).1]
  rw [hq] at held
  have hacc : Accessible ((Arena.new n).run ops) p.obj := by
    rcases held with hr | ht | ⟨j, o, hj, ho, hsl⟩
    · exact .root _ hr
    · exact .temp _ ht
    · exact .edge j _ hj ⟨o, ho, hsl⟩
  have hsafe := (inv_run n ops halive).safe_of_accessible hacc
  obtain ⟨o, ho, hlive, _⟩ := hsafe
  have hl := linv_run n ops
  refine ⟨hacc, ⟨o, ho, hlive, by assumption⟩, ?_, ?_⟩
  · intro hd
    have := hl.droppedDead _ hd o ho
    rw [hlive] at this; cases this
  · intro hf
    have := hl.freedGone _ hf
    rw [ho] at this; cases this

/-- A rooted *weak* converted pointer keeps the block (so `upgrade` / `is_dropped` read a valid
    header) without keeping the value. -/
theorem converted_weak_block_stays (n : Nat) (ops : List Op)
    (halive : ((Arena.new n).run ops).alive = true)
    (a : Alloc) (ch : Chain) (p q : PtrVal) (h : apply a ch p = some q) (hw : q.weak = true)
    (held : some q.toPtr ∈ ((Arena.new n).run ops).root) :
    WeakOK ((Arena.new n).run ops).ctx p.obj ∧ Event.freed p.obj ∉ ((Arena.new n).run ops).ctx.log := by
  have hq : q.toPtr = .weak p.obj := by simp [PtrVal.toPtr, hw, (apply_same h).1]
  rw [hq] at held
  have hok : WeakOK ((Arena.new n).run ops).ctx p.obj := (inv_run n ops halive).cinv.rootOK _ held
  refine ⟨hok, ?_⟩
  intro hf
  obtain ⟨o, ho, _⟩ := hok
  have := (linv_run n ops).freedGone _ hf
  rw [ho] at this; cases this

/-- The allocation a converted pointer refers to is destructed at most once and released at most
    once over any history, and only after it was destructed — whichever pointer to it (original
    or converted) was the last one held. -/
theorem destructed_once (n : Nat) (ops : List Op) (a : Alloc) (ch : Chain) (p q : PtrVal)
    (h : apply a ch p = some q) :
    q.obj = p.obj ∧
    (((Arena.new n).run ops).ctx.log.count (.dropped p.obj) ≤ 1) ∧
    (((Arena.new n).run ops).ctx.log.count (.freed p.obj) ≤ 1) ∧
    (Event.freed p.obj ∈ ((Arena.new n).run ops).ctx.log →
      Event.dropped p.obj ∈ ((Arena.new n).run ops).ctx.log) := by
  have hl := linv_run n ops
  exact ⟨(apply_same h).1, List.nodup_iff_count.mp hl.nodup _, List.nodup_iff_count.mp hl.nodup _,
    hl.freedDropped _⟩

/-! ### Dereference and destruction -/

/-- Every strong pointer obtained by any chain from the allocating call's result dereferences to
    the original value: at the allocated type it sees the constructed type and *all* its value
    tokens, after `unsize!` the `[E]` view of all elements or the `dyn` view backed by the
    constructed type's value, after `erase` a `&()`.  `deref` answers `none` for metadata that
    does not fit exactly (a lost, shortened or inflated length, a foreign vtable), so this rests
    on `metadata_exact`: no chain loses or changes the length or the vtable.
    (Hypothesis `hlen`: the value has as many tokens as its type says.) -/
theorem deref_original_value (a : Alloc) (tyTag : Nat) (tokens : List Nat)
    (hlen : tokens.length = a.target.elemCount) (ch : Chain) (q : PtrVal)
    (h : apply a ch (initPtr a) = some q) (hs : q.weak = false) :
    deref (store a tyTag tokens) q = some (fullView (store a tyTag tokens) q.ty) := by
  obtain ⟨ho, hf, hw⟩ := from_alloc a ch q h
  have hm := derefMeta_wf hw
  simp only [deref, store, hs, ho, hf, bne_self_eq_false, Bool.or_self, Bool.false_eq_true, if_false, hm]
  cases hty : q.ty
  · -- orig
    cases ht : a.target <;>
      simp_all [fatMeta, Target.hdrLen, fullView, Target.elemCount, Target.visible] <;>
      exact List.take_of_length_le (Nat.le_of_eq hlen)
  · simp [fullView]
  · -- uns: the allocation is sized
    have hsz := (hw.uns hty).1
    cases ht : a.target <;>
      simp_all [fatMeta, fullView, Target.isSized, Target.elemCount] <;>
      exact List.take_of_length_le (Nat.le_of_eq hlen)

private theorem apply_snoc {a : Alloc} {s : Step} {q r : PtrVal} (hstep : step a s q = some r) :
    ∀ (c : Chain) (p : PtrVal), apply a c p = some q → apply a (c ++ [s]) p = some r := by
  intro c
  induction c with
  | nil => intro p hp; simp [apply] at hp; subst hp; simp [apply, hstep]
  | cons s' c ih =>
    intro p hp
    simp only [apply, List.cons_append] at hp ⊢
    cases hs : step a s' p with
    | none => rw [hs] at hp; cases hp
    | some r' => rw [hs] at hp; simp only; exact ih r' hp

/-- A weak result dereferences (after `upgrade`) to the original value as long as `upgrade`
    succeeds. -/
theorem deref_after_upgrade (a : Alloc) (tyTag : Nat) (tokens : List Nat)
    (hlen : tokens.length = a.target.elemCount) (ch : Chain) (q : PtrVal)
    (h : apply a ch (initPtr a) = some q) (hw : q.weak = true) (hu : a.upgradable = true) :
    ∃ r, step a .upgrade q = some r ∧
      deref (store a tyTag tokens) r = some (fullView (store a tyTag tokens) q.ty) := by
  have happ : applicable a.target .upgrade q = true := by simp [applicable, hw]
  have hstep : step a .upgrade q = some { q with weak := false } := by
    simp [step_of_applicable happ, conv, hu]
  exact ⟨_, hstep, deref_original_value a tyTag tokens hlen _ _ (apply_snoc hstep ch _ h) rfl⟩

-- a weak thin slice pointer, upgraded: all three elements of the constructed type
example : ∃ q r, apply ⟨5, .slice 3, true, false⟩ [.asThin, .downgrade, .ptrKind] (initPtr ⟨5, .slice 3, true, false⟩) = some q ∧
    q.weak = true ∧ step ⟨5, .slice 3, true, false⟩ .upgrade q = some r ∧
    deref (store ⟨5, .slice 3, true, false⟩ 42 [10, 11, 12]) r = some (.whole 42 [10, 11, 12]) :=
  ⟨_, _, rfl, rfl, rfl, by decide⟩

/-- Chain independence of destruction: the collector destructs the block a pointer refers to
    through the block's *header* (`destructVia`), so for every result `q` of every chain from the
    allocating call — unsized, erased, thin, cast, weak, round-tripped through raw pointers — it
    does exactly what it does for the original pointer: it runs the drop glue of the type the value
    was *constructed* as on *all* original tokens (for `[E]` / `str` / `SliceWithHeader`: with the
    length recorded at allocation, not the pointer's).  The reason is `from_alloc`: every chain
    keeps the block and the address, which is all `destructVia` looks at.
    (`destruct_through_pointer_would_differ` shows this is not true of a model that destructs
    through the pointer's static type and metadata.) -/
theorem destruct_chain_independent (a : Alloc) (tyTag : Nat) (tokens : List Nat)
    (hlen : tokens.length = a.target.elemCount) (ch : Chain) (q : PtrVal)
    (h : apply a ch (initPtr a) = some q) :
    destructVia (store a tyTag tokens) q = destructVia (store a tyTag tokens) (initPtr a) ∧
    destructVia (store a tyTag tokens) q = some (tyTag, tokens) := by
  obtain ⟨ho, hf, _⟩ := from_alloc a ch q h
  obtain ⟨ho', hf', _⟩ := from_alloc a [] (initPtr a) rfl
  have key : ∀ p : PtrVal, p.obj = a.id → p.off = 0 →
      destructVia (store a tyTag tokens) p = some (tyTag, tokens) := by
    intro p hpo hpf
    simp only [destructVia, store, hpo, hpf, bne_self_eq_false, Bool.or_self, Bool.false_eq_true, if_false]
    cases ht : a.target <;>
      simp_all [Target.hdrLen, Target.elemCount, Target.visible] <;>
      exact List.take_of_length_le (Nat.le_of_eq hlen)
  exact ⟨(key q ho hf).trans (key _ ho' hf').symm, key q ho hf⟩

/-- The counter-model: if destruction went through the *pointer* (glue of its static type,
    length from its carried metadata — what an owning `Box<T>` does), it would depend on the
    chain: after `erase` nothing would be destructed, a thin slice pointer would destruct no
    element, `[E; n]` unsized would run `[E]`'s glue.  So `destruct_chain_independent` is a
    property of destructing through the header, not of the vocabulary. -/
theorem destruct_through_pointer_would_differ :
    (∃ (a : Alloc) (tokens : List Nat) (ch : Chain) (q : PtrVal),
      tokens.length = a.target.elemCount ∧ apply a ch (initPtr a) = some q ∧
      destructViaMeta (store a 7 tokens) q ≠ destructVia (store a 7 tokens) q ∧
      destructViaMeta (store a 7 tokens) (initPtr a) = destructVia (store a 7 tokens) (initPtr a)) ∧
    (∃ (q : PtrVal), apply ⟨5, .slice 3, true, false⟩ [.asThin] (initPtr ⟨5, .slice 3, true, false⟩) = some q ∧
      destructViaMeta (store ⟨5, .slice 3, true, false⟩ 7 [1, 2, 3]) q = some (7, []) ∧
      destructVia (store ⟨5, .slice 3, true, false⟩ 7 [1, 2, 3]) q = some (7, [1, 2, 3])) := by
  refine ⟨⟨⟨5, .sized, true, false⟩, [9], [.erase], _, rfl, rfl, by decide, by decide⟩, ⟨_, rfl, by decide, by decide⟩⟩

private theorem run_snoc (ops : List Op) (op : Op) : ∀ A : Arena, A.run (ops ++ [op]) = ((A.run ops).step op).1 := by
  induction ops with
  | nil => intro A; simp [Arena.run]
  | cons o os ih => intro A; simp only [List.cons_append, Arena.run]; exact ih _

private theorem push_mem (a : Arena) (p : Ptr) : p ∈ (a.push p).temps := by
  unfold Arena.push
  split
  · rename_i hh; simpa [Arena.holds] using hh
  · simp

/-- The allocating operation of the collector model hands the new block's id to the callback. -/
private theorem alloc_temp (A0 : Arena) (nt : Bool) (slots : List Slot)
    (hok : (A0.step (.alloc nt slots)).2 ≠ "bad-op") :
    Ptr.strong A0.ctx.heap.fresh ∈ (A0.step (.alloc nt slots)).1.temps := by
  obtain ⟨ctx, root, temps, cb, cover, marked, alive⟩ := A0
  cases alive
  · simp [Arena.step, Arena.bad] at hok
  · simp only [Arena.step, Bool.not_true, Bool.false_eq_true, if_false, Arena.stepBody] at hok ⊢
    split at hok
    · simp [Arena.bad] at hok
    · split at hok
      · simp [Arena.bad] at hok
      · split at hok
        · simp [Arena.bad] at hok
        · rename_i h1 h2 h3
          rw [if_neg h1, if_neg h2, if_neg h3]
          exact push_mem _ _

/-- The destructor runs of the block `q` refers to, over a history: one per `dropped` event the
    collector logs for that block, each being what the collector does given that pointer. -/
def glueRuns (s : Stored) (q : PtrVal) (log : List Event) : List (Nat × List Nat) :=
  (log.filter (· == .dropped q.obj)).filterMap fun _ => destructVia s q

/-- Destructed once, as its original type — over histories.  Let the block be the one handed out
    by an accepted `.alloc` operation of the history (`hid`, `hok`), holding a well-formed value
    (`hlen`).  Then (1) right after that operation the block exists and is undestructed; and in
    every later state, for every pointer `q` obtained from it by any chain, (2) the collector logs
    at most one destruction of the block `q` refers to, and (3) each logged destruction is the
    constructed type's drop glue on all original tokens — `destruct_chain_independent` applied at
    the event — whatever `q`'s static type, kind or metadata. -/
theorem destructed_as_original_type (n : Nat) (pre post : List Op) (nt : Bool) (slots : List Slot)
    (a : Alloc) (tyTag : Nat) (tokens : List Nat) (hlen : tokens.length = a.target.elemCount)
    (hid : a.id = ((Arena.new n).run pre).ctx.heap.fresh)
    (hok : (((Arena.new n).run pre).step (.alloc nt slots)).2 ≠ "bad-op")
    (halive : ((Arena.new n).run (pre ++ [.alloc nt slots])).alive = true)
    (ch : Chain) (q : PtrVal) (h : apply a ch (initPtr a) = some q) :
    (∃ o, ((Arena.new n).run (pre ++ [.alloc nt slots])).ctx.heap.get a.id = some o ∧ o.live = true) ∧
    (glueRuns (store a tyTag tokens) q ((Arena.new n).run (pre ++ .alloc nt slots :: post)).ctx.log).length ≤ 1 ∧
    (∀ r, r ∈ glueRuns (store a tyTag tokens) q ((Arena.new n).run (pre ++ .alloc nt slots :: post)).ctx.log →
      r = (tyTag, tokens)) ∧
    (glueRuns (store a tyTag tokens) q ((Arena.new n).run (pre ++ .alloc nt slots :: post)).ctx.log).length =
      ((Arena.new n).run (pre ++ .alloc nt slots :: post)).ctx.log.count (.dropped a.id) := by
  have ho := (from_alloc a ch q h).1
  have hd := (destruct_chain_independent a tyTag tokens hlen ch q h).2
  have hrun : (Arena.new n).run (pre ++ [.alloc nt slots]) = (((Arena.new n).run pre).step (.alloc nt slots)).1 := by
    exact run_snoc pre _ _
  refine ⟨?_, ?_, ?_, ?_⟩
  · have ht := alloc_temp _ nt slots hok
    rw [← hrun, ← hid] at ht
    have hacc : Accessible ((Arena.new n).run (pre ++ [.alloc nt slots])) a.id := .temp _ ht
    obtain ⟨o, ho', hl, _⟩ := (inv_run n _ halive).safe_of_accessible hacc
    exact ⟨o, ho', hl⟩
  · have : (glueRuns (store a tyTag tokens) q ((Arena.new n).run (pre ++ .alloc nt slots :: post)).ctx.log).length ≤
        ((Arena.new n).run (pre ++ .alloc nt slots :: post)).ctx.log.count (.dropped q.obj) := by
      simp only [glueRuns, List.count_eq_length_filter]
      exact List.length_filterMap_le _ _
    exact Nat.le_trans this (List.nodup_iff_count.mp (linv_run n _).nodup _)
  · intro r hr
    simp only [glueRuns, List.mem_filterMap] at hr
    obtain ⟨_, _, hr⟩ := hr
    rw [hd] at hr
    exact (Option.some.inj hr).symm
  · simp [glueRuns, hd, ho, List.count_eq_length_filter]

/-! ### ZstCache -/

/-- The shared pointer is returned exactly for zero-sized types whose alignment does not exceed
    the cache's.  (Immediate from the definition of `zstShared`, which transcribes the test of
    `alloc_zst`; that the implementation follows this rule is what the ZstCache grid of
    harness_conv observes — the assurance comes from there, not from this unfolding.) -/
theorem zst_shared_iff (size align maxAlign : Nat) :
    zstShared size align maxAlign = true ↔ size = 0 ∧ align ≤ maxAlign := by
  simp [zstShared]

/-- `alloc` returns the cache's block iff the type qualifies; otherwise a fresh block that holds
    the value.  (`next` is the id of the next allocation; the cache's block is older.)
    (Immediate from the definition of `Cache.alloc`; assurance from harness_conv's `zst` / `zkeep`
    grids: `ptr_eq`, `is_cached`, `total_gc_count`.) -/
theorem zst_alloc (c : Cache) (next size align : Nat) (hc : c.obj < next) :
    ((c.alloc next size align).obj = c.obj ↔ size = 0 ∧ align ≤ c.maxAlign) ∧
    ((c.alloc next size align).fresh = true ↔ ¬ (size = 0 ∧ align ≤ c.maxAlign)) ∧
    ((c.alloc next size align).fresh = true → (c.alloc next size align).obj = next) := by
  unfold Cache.alloc
  rw [← zst_shared_iff]
  cases zstShared size align c.maxAlign <;> simp <;> omega

/-- All qualifying requests — of whatever types — alias the one block of the cache.
    (Immediate from the definition; assurance from harness_conv's `alias` grid.) -/
theorem zst_shared_alias (c : Cache) (n1 n2 s1 a1 s2 a2 : Nat)
    (h1 : zstShared s1 a1 c.maxAlign = true) (h2 : zstShared s2 a2 c.maxAlign = true) :
    (c.alloc n1 s1 a1).obj = (c.alloc n2 s2 a2).obj := by
  simp [Cache.alloc, h1, h2]

/-- In particular: two qualifying requests to one `ZstCache` — of any two types, e.g. two
    zero-sized types later unsized to the same `dyn Tr` (different vtables) or `[(); 2]` and
    `[(); 3]` unsized to `[()]` (different lengths) — give `ptr_eq` pointers after any chains. -/
theorem zst_cache_aliases_ptr_eq (c : Cache) (n1 n2 s1 al1 s2 al2 : Nat) (t1 t2 : Target)
    (l1 l2 d1 d2 : Bool) (hs1 : zstShared s1 al1 c.maxAlign = true)
    (hs2 : zstShared s2 al2 c.maxAlign = true) (ch1 ch2 : Chain) (q1 q2 : PtrVal)
    (h1 : apply ⟨(c.alloc n1 s1 al1).obj, t1, l1, d1⟩ ch1 (initPtr ⟨(c.alloc n1 s1 al1).obj, t1, l1, d1⟩) = some q1)
    (h2 : apply ⟨(c.alloc n2 s2 al2).obj, t2, l2, d2⟩ ch2 (initPtr ⟨(c.alloc n2 s2 al2).obj, t2, l2, d2⟩) = some q2) :
    samePtr q1 q2 = true := by
  rw [aliasing_results_ptr_eq _ _ ch1 ch2 q1 q2 h1 h2]
  exact decide_eq_true (zst_shared_alias c n1 n2 s1 al1 s2 al2 hs1 hs2)

/-- The row of the source-derived `Collect` table (C16, regenerated from /repo by eng_collect)
    for `impl Collect for ZstCache`. -/
def zstCacheRow : Option CollectTy.Entry :=
  Generated.collectTable.entries.find? fun e =>
    e.text == "impl<'gc, const MAX_ALIGN: usize> Collect for ZstCache<'gc, MAX_ALIGN>"

/-- What a traced `ZstCache` value reports to the collector according to that row: its
    `cached_ptr`, provided the impl keeps `NEEDS_TRACE` true (so that no container's
    `cc.trace(&cache)` short-circuits) and its `trace` mentions the field. -/
def cacheReports (c : Cache) : List Slot :=
  match zstCacheRow with
  | some e => if e.constNeeds && e.tracedFields.contains "cached_ptr" then [some (.strong c.obj)] else []
  | none => []

/-- The table fact: on the current tree the `ZstCache` impl has a literal `NEEDS_TRACE = true` and
    traces `cached_ptr`, its only `'gc` field.  (Fails to build on a tree where it does not.) -/
theorem zst_cache_traces_cached_ptr (c : Cache) : cacheReports c = [some (.strong c.obj)] := by
  have h : (zstCacheRow.map fun e => (e.constNeeds && e.tracedFields.contains "cached_ptr", e.ptrFields)) =
      some (true, ["cached_ptr"]) := by decide
  unfold cacheReports
  cases hr : zstCacheRow with
  | none => rw [hr] at h; cases h
  | some e =>
    rw [hr] at h
    simp only [Option.map_some, Option.some.injEq, Prod.mk.injEq] at h
    simp only [h.1, if_true]

/-- A rooted cache keeps serving the same, valid block.  Let the cache's block be the one handed
    out by an accepted `.alloc false []` operation of the history (`ZstCache::new`:
    `Gc::new_static` of a pointer-free value), and let — in some later state — everything a traced
    `ZstCache` reports (`cacheReports`, by the C16 table row: its `cached_ptr`) be among the slots
    of the root or of an object the client can name (the cache sits in the root, or in a container
    / struct field that is traced).  Then a *later* `alloc` of any qualifying zero-sized type
    returns that very block, allocates nothing, and the block is still allocated, undestructed and
    not condemned: the pointer is valid and `ptr_eq` to every earlier one (`zst_shared_alias`).
    (`Cache` itself is inert data; the content is C01's safety at the block the history really
    allocated, plus the table fact.  That a cache inside `Option` / `Box` / `Vec` / a struct field
    is traced is C16's claim and is observed by harness_conv's `zkeep` cases.) -/
theorem zst_cache_rooted_block_kept (n : Nat) (pre post : List Op) (c : Cache)
    (hid : c.obj = ((Arena.new n).run pre).ctx.heap.fresh)
    (hok : (((Arena.new n).run pre).step (.alloc false [])).2 ≠ "bad-op")
    (halive1 : ((Arena.new n).run (pre ++ [.alloc false []])).alive = true)
    (halive : ((Arena.new n).run (pre ++ .alloc false [] :: post)).alive = true)
    (held : ∀ s, s ∈ cacheReports c →
      s ∈ ((Arena.new n).run (pre ++ .alloc false [] :: post)).root ∨
      ∃ j o, Accessible ((Arena.new n).run (pre ++ .alloc false [] :: post)) j ∧
        ((Arena.new n).run (pre ++ .alloc false [] :: post)).ctx.heap.get j = some o ∧ s ∈ o.slots)
    (next size align : Nat) (hq : zstShared size align c.maxAlign = true) :
    (∃ o, ((Arena.new n).run (pre ++ [.alloc false []])).ctx.heap.get c.obj = some o ∧ o.live = true) ∧
    (c.alloc next size align).obj = c.obj ∧ (c.alloc next size align).fresh = false ∧
    Safe ((Arena.new n).run (pre ++ .alloc false [] :: post)).ctx (c.alloc next size align).obj ∧
    Event.dropped c.obj ∉ ((Arena.new n).run (pre ++ .alloc false [] :: post)).ctx.log ∧
    Event.freed c.obj ∉ ((Arena.new n).run (pre ++ .alloc false [] :: post)).ctx.log := by
  have hobj : (c.alloc next size align).obj = c.obj := by simp [Cache.alloc, hq]
  have hfresh : (c.alloc next size align).fresh = false := by simp [Cache.alloc, hq]
  have hheld := held (some (.strong c.obj)) (by rw [zst_cache_traces_cached_ptr]; simp)
  let a : Alloc := ⟨c.obj, .zcached 1 c.maxAlign, true, false⟩
  have hp : (initPtr a).toPtr = .strong c.obj := rfl
  have hk := converted_keeps_alive n _ halive a [] (initPtr a) (initPtr a) rfl rfl
    (by rw [hp]; rcases hheld with h1 | h2
        · exact Or.inl h1
        · exact Or.inr (Or.inr h2))
  refine ⟨?_, hobj, hfresh, by rw [hobj]; exact hk.2.1, hk.2.2.1, hk.2.2.2⟩
  have ht := alloc_temp _ false [] hok
  rw [← run_snoc, ← hid] at ht
  obtain ⟨o, ho', hl, _⟩ := (inv_run n _ halive1).safe_of_accessible (.temp _ ht)
  exact ⟨o, ho', hl⟩

/-- The value handed to `alloc` is destructed exactly once in either case: at once when the
    shared pointer is returned (the shared block holds no `T`), with its block otherwise.
    (Immediate from the definition, which records what `alloc` does with its by-value argument;
    assurance from harness_conv's `zst` grid: destructor log counts at allocation and at release.) -/
theorem zst_value_destructed_once (c : Cache) (next size align : Nat) :
    (c.alloc next size align).dropsNow + (c.alloc next size align).dropsLater = 1 ∧
    ((c.alloc next size align).dropsNow = 1 ↔ zstShared size align c.maxAlign = true) := by
  unfold Cache.alloc
  cases zstShared size align c.maxAlign <;> simp

/-- The shared address is aligned for every qualifying type, given that it is aligned to the
    cache's own `MAX_ALIGN` (alignments are powers of two). -/
theorem zst_shared_aligned (c : Cache) (size align : Nat) (hm : Layout.isPow2 c.maxAlign = true)
    (ha : Layout.isPow2 align = true) (hc : c.addr % c.maxAlign = 0)
    (hs : zstShared size align c.maxAlign = true) : c.addr % align = 0 := by
  have hle := ((zst_shared_iff _ _ _).mp hs).2
  have p1 : Conv.isPow2 align := ⟨align.log2, by simp [Layout.isPow2] at ha; exact ha.symm⟩
  have p2 : Conv.isPow2 c.maxAlign := ⟨c.maxAlign.log2, by simp [Layout.isPow2] at hm; exact hm.symm⟩
  have hd := pow2_dvd_of_le p1 p2 hle
  exact Nat.mod_eq_zero_of_dvd (Nat.dvd_trans hd (Nat.dvd_of_mod_eq_zero hc))

/-- … and the cache's own block is so aligned: `ZstCache::new` allocates a
    `#[repr(align(MAX_ALIGN))]` unit struct through `Gc::new_static`, i.e. `GcPtr::alloc` with the
    sized kind and value layout `(0, MAX_ALIGN)`; by C17 the value pointer is aligned to it for
    every block address the allocator may return.  Hence every pointer `alloc` shares is aligned
    for its type. -/
theorem zst_cached_ptr_aligned (maxSize : Nat) (hdr : Layout.Layout) (maxAlign block : Nat)
    (p : Layout.Plan) (hh : Layout.IsTypeLayout maxSize hdr)
    (hv : (⟨0, maxAlign⟩ : Layout.Layout).Valid maxSize)
    (h : Layout.gcAlloc maxSize hdr (Layout.sizedKind ⟨0, maxAlign⟩) 0 = some p)
    (hb : block % p.alloc.align = 0) (obj size align : Nat) (ha : Layout.isPow2 align = true)
    (hs : zstShared size align maxAlign = true) :
    Layout.valuePtr block p % maxAlign = 0 ∧
    (Cache.mk obj (Layout.valuePtr block p) maxAlign).addr % align = 0 := by
  obtain ⟨hval, hal, _⟩ := C17.value_aligned maxSize hdr _ 0 p block (Layout.sizedKind_ok hv) hh h hb
  have hv' : p.value = ⟨0, maxAlign⟩ := by
    simp [Layout.sizedKind] at hval; exact hval.symm
  rw [hv'] at hal
  exact ⟨hal, zst_shared_aligned ⟨obj, _, maxAlign⟩ size align hv.1 ha hal hs⟩

/-! ### Non-vacuity -/

/-- A slice of length 3: thin, erased, back to thin through the raw pointer, fat again, kind
    erased — same allocation, offset 0, and the length is 3 again. -/
def sliceAlloc : Alloc := ⟨0, .slice 3, true, false⟩
def sliceChain : Chain := [.asThin, .erase, .fromThin, .asFat, .eraseKind]

example : wellTyped sliceAlloc.target sliceChain (initPtr sliceAlloc) = true := by decide
example : apply sliceAlloc sliceChain (initPtr sliceAlloc) =
    some ⟨0, 0, false, false, .unit, .orig, .len 3⟩ := by decide
-- the typing discipline rejects what rustc rejects
example : wellTyped sliceAlloc.target [.eraseKind, .asThin] (initPtr sliceAlloc) = false := by decide
example : wellTyped sliceAlloc.target [.cast] (initPtr sliceAlloc) = false := by decide
example : wellTyped (.sized) [.unsize, .asThin] (initPtr ⟨0, .sized, true, false⟩) = false := by decide
example : wellTyped (.sized) [.asThin, .unsize, .downgrade, .erase, .cast, .upgrade, .stash]
    (initPtr ⟨0, .sized, true, false⟩) = true := by decide
-- a dead upgrade is the only way a well-typed chain fails
example : apply ⟨0, .sized, false, false⟩ [.downgrade, .erase, .upgrade] (initPtr ⟨0, .sized, false, false⟩) = none := by
  decide
example : apply ⟨0, .sized, true, true⟩ [.erase, .cast, .upgrade] (initWeak ⟨0, .sized, true, true⟩) = none := by
  decide
example : (chainsOfLen (.slice 3) 2 (initPtr sliceAlloc)).length = 49 := by decide

/-- The converted slice pointer as the collector sees it (a chain that failed would give a
    pointer the demos below cannot store). -/
def convPtr : Ptr :=
  match apply sliceAlloc sliceChain (initPtr sliceAlloc) with
  | some q => q.toPtr
  | none => .weak 999
def convWeak : Ptr :=
  match apply sliceAlloc (sliceChain ++ [.downgrade]) (initPtr sliceAlloc) with
  | some q => q.toPtr
  | none => .strong 999

example : convPtr = .strong 0 ∧ convWeak = .weak 0 := by decide

/-- Only the converted pointer is rooted, the original is forgotten; two full cycles. -/
def keepDemo : List Op := [
  .enter .mutateRoot, .alloc false [], .rootStore 0 (some convPtr), .leave,
  .collect .finishCycle .drop none none, .collect .finishCycle .drop none none ]

example : ((Arena.new 1).run keepDemo).alive = true := by decide
example : some convPtr ∈ ((Arena.new 1).run keepDemo).root := by decide
example : ((Arena.new 1).run keepDemo).ctx.log = [] := by decide

/-- Only a weak converted pointer is rooted: the value goes (once), the block stays; after the
    weak pointer is removed too the block is released (once). -/
def weakDemo : List Op := [
  .enter .mutateRoot, .alloc false [], .downgrade 0, .rootStore 0 (some convWeak), .leave,
  .collect .finishCycle .drop none none, .collect .finishCycle .drop none none ]
def weakDemo2 : List Op := weakDemo ++ [
  .enter .mutateRoot, .rootStore 0 none, .leave,
  .collect .finishCycle .drop none none, .collect .finishCycle .drop none none ]

example : ((Arena.new 1).run weakDemo).alive = true := by decide
example : some convWeak ∈ ((Arena.new 1).run weakDemo).root := by decide
example : ((Arena.new 1).run weakDemo).ctx.log = [.dropped 0] := by decide
example : (((Arena.new 1).run weakDemo).ctx.heap.get 0).map (·.live) = some false := by decide
example : ((Arena.new 1).run weakDemo2).ctx.log = [.freed 0, .dropped 0] := by decide

/-- The value is only weakly rooted when marking finishes and the sweep has started but not
    reached it: it is live, `WhiteWeak`, and the collector model refuses the upgrade — the
    `condemned` state of the conversion model (scenario `sweep` / `ww` of the harness). -/
def condemnedDemo : List Op := [
  .enter .mutateRoot, .alloc false [], .downgrade 0, .rootStore 0 (some convWeak), .leave,
  .collect .finishMarking .sweep none none ]

example : ((Arena.new 1).run condemnedDemo).ctx.phase = .sweep := by decide
example : (((Arena.new 1).run condemnedDemo).ctx.heap.get 0).map (fun o => (o.live, o.color)) =
    some (true, .whiteWeak) := by decide
example : (((Arena.new 1).run condemnedDemo).ctx.upgrade 0).2 = false := by decide
example : scenarioState .sweep .ww = (true, true) := rfl

-- deref (block id 5, so that no default value can stand in for a result): after the chain the
-- slice pointer sees all three original elements of the constructed type
def slice5 : Alloc := ⟨5, .slice 3, true, false⟩
example : ∃ q, apply slice5 sliceChain (initPtr slice5) = some q ∧
    deref (store slice5 42 [10, 11, 12]) q = some (.whole 42 [10, 11, 12]) := ⟨_, rfl, by decide⟩
-- … whereas pointers with a shortened, inflated or lost length (which no chain produces), a foreign
-- vtable, another block or an offset do not dereference to the value at all
example : deref (store slice5 42 [10, 11, 12]) ⟨5, 0, false, false, .slice, .orig, .len 2⟩ = none ∧
    deref (store slice5 42 [10, 11, 12]) ⟨5, 0, false, false, .slice, .orig, .len 4⟩ = none ∧
    deref (store slice5 42 [10, 11, 12]) ⟨5, 0, false, false, .slice, .orig, .none⟩ = none ∧
    deref (store ⟨5, .sized, true, false⟩ 7 [99]) ⟨5, 0, false, false, .unit, .uns, .vtable (.zst 8)⟩ = none ∧
    deref (store slice5 42 [10, 11, 12]) ⟨6, 0, false, false, .slice, .orig, .len 3⟩ = none ∧
    deref (store slice5 42 [10, 11, 12]) ⟨5, 8, false, false, .slice, .orig, .len 3⟩ = none := by decide
example : ∃ q, apply ⟨5, .sized, true, false⟩ [.asThin, .unsize, .erase, .cast, .unsize] (initPtr ⟨5, .sized, true, false⟩) = some q ∧
    deref (store ⟨5, .sized, true, false⟩ 7 [99]) q = some (.dynOf 7 [99]) := ⟨_, rfl, by decide⟩
example : ∃ q, apply ⟨5, .swh 2, true, false⟩ [.asThin, .ptr] (initPtr ⟨5, .swh 2, true, false⟩) = some q ∧
    deref (store ⟨5, .swh 2, true, false⟩ 8 [1, 20, 21]) q = some (.whole 8 [1, 20, 21]) := ⟨_, rfl, by decide⟩
-- destruction goes through the header: the erased thin pointer destructs all three elements with the
-- constructed type's glue, exactly like the original pointer
example : ∃ q, apply slice5 [.asThin, .erase, .asThin] (initPtr slice5) = some q ∧
    destructVia (store slice5 42 [10, 11, 12]) q = some (42, [10, 11, 12]) ∧
    destructViaMeta (store slice5 42 [10, 11, 12]) q = some (0, []) := ⟨_, rfl, by decide, by decide⟩
-- over a history: the block of `weakDemo2` (id 0, allocated by its `.alloc` op) is destructed once
example : ∃ q, apply sliceAlloc (sliceChain ++ [.downgrade]) (initPtr sliceAlloc) = some q ∧
    glueRuns (store sliceAlloc 42 [10, 11, 12]) q ((Arena.new 1).run weakDemo2).ctx.log = [(42, [10, 11, 12])] :=
  ⟨_, rfl, by decide⟩
-- the hypotheses of `destructed_as_original_type` / `zst_cache_rooted_block_kept` on `keepDemo`:
-- pre = [enter], the `.alloc false []` is accepted and hands out the fresh id 0
example : ((Arena.new 1).run [.enter .mutateRoot]).ctx.heap.fresh = 0 ∧
    (((Arena.new 1).run [.enter .mutateRoot]).step (.alloc false [])).2 ≠ "bad-op" ∧
    ((Arena.new 1).run ([.enter .mutateRoot] ++ [.alloc false []])).alive = true ∧
    keepDemo = [.enter .mutateRoot] ++ .alloc false [] :: keepDemo.drop 2 :=
  ⟨by decide, by decide, by decide, rfl⟩
-- … and a cache ⟨0, 4096, 16⟩ whose block that is: what it reports (`.strong 0`) is in the root after
-- two full cycles, so a later qualifying `alloc` gets block 0 again
example : ∀ s, s ∈ cacheReports ⟨0, 4096, 16⟩ → s ∈ ((Arena.new 1).run keepDemo).root := by
  intro s hs
  rw [zst_cache_traces_cached_ptr] at hs
  simp only [List.mem_singleton] at hs
  subst hs
  decide
example : ((Cache.mk 0 4096 16).alloc 9 0 8).obj = 0 ∧ ((Cache.mk 0 4096 16).alloc 9 0 8).fresh = false := by decide
-- the theorem instantiated on that history: all hypotheses hold together
example : Safe ((Arena.new 1).run keepDemo).ctx ((Cache.mk 0 4096 16).alloc 9 0 8).obj :=
  (zst_cache_rooted_block_kept 1 [.enter .mutateRoot] (keepDemo.drop 2) ⟨0, 4096, 16⟩ (by decide) (by decide)
    (by decide) (by decide)
    (fun s hs => Or.inl (by
      rw [zst_cache_traces_cached_ptr] at hs
      simp only [List.mem_singleton] at hs
      subst hs
      decide))
    9 0 8 (by decide)).2.2.2.1

-- `[(); 2]` and `[(); 3]` from one cache, unsized to `[()]`: lengths 2 and 3, still `ptr_eq`
example :
    (do let q1 ← apply ⟨7, .array 2, true, false⟩ [.unsize] (initPtr ⟨7, .array 2, true, false⟩)
        let q2 ← apply ⟨7, .array 3, true, false⟩ [.asThin, .unsize, .ptr] (initPtr ⟨7, .array 3, true, false⟩)
        pure (q1.carried, q2.carried, samePtr q1 q2)) = some (.len 2, .len 3, true) := by decide
example : samePtr (initPtr ⟨7, .zst 8, true, false⟩) (initPtr ⟨8, .zst 8, true, false⟩) = false := by decide

-- the ZstCache rule on concrete alignments
example : zstShared 0 8 16 = true ∧ zstShared 0 16 16 = true ∧ zstShared 0 32 16 = false ∧
    zstShared 8 8 16 = false := by decide
example : (Cache.mk 0 4096 16).alloc 5 0 8 = ⟨0, false, 1, 0⟩ ∧
    (Cache.mk 0 4096 16).alloc 5 0 32 = ⟨5, true, 0, 1⟩ := by decide

end GcArena.C19
