import GcArena.Proofs.Events
import GcArena.Proofs.Exact
import GcArena.Proofs.RunBridge
import GcArena.Proofs.Release
import GcArena.Proofs.ShellRun
/-!
# C02 — Exact, complete reclamation

What a sweep step does to the object under the cursor, by colour — the local facts from which
exactness follows — and the full-strength theorems `exactness`, `shells`, `shell_release`.
They rest on the termination of the driver loop (Proofs/Termination, Proofs/Protocol), on the
fact that collector steps change neither the strong-reachability relation nor the "weakly held"
relation (Proofs/Stable), and on the tightness invariant "gray/black ⇒ strongly reachable,
weakly marked ⇒ weakly held, kept by the sweep ⇒ reachable or a weakly held shell, while no
mutator step intervenes" (Proofs/Tight, lifted to `finish_cycle` calls in Proofs/Exact).
-/
namespace GcArena.C02

open GcArena

/-- A white object under the cursor is destructed (if not already) and released. -/
theorem sweep_white_released (c : Ctx) (i : Nat) (rest' : List Nat) (o : Obj) (hr : c.rest = i :: rest')
    (ho : c.heap.get i = some o) (hw : o.color = .white) :
    c.sweepOne.1.heap.get i = none ∧ Event.freed i ∈ c.sweepOne.1.log ∧
    (o.live = true → Event.dropped i ∈ c.sweepOne.1.log) := by
  unfold Ctx.sweepOne
  simp only [hr, Ctx.step_heap, ho, hw]
  cases hl : o.live <;> simp [Heap.get_set]

/-- A black object under the cursor is kept, untouched but for its colour. -/
theorem sweep_black_kept (c : Ctx) (i : Nat) (rest' : List Nat) (o : Obj) (hr : c.rest = i :: rest')
    (ho : c.heap.get i = some o) (hb : o.color = .black) :
    c.sweepOne.1.heap.get i = some { o with color := .white } ∧ c.sweepOne.1.log = c.log := by
  unfold Ctx.sweepOne
  simp [hr, ho, hb]

/-- A weakly marked object under the cursor is destructed once and its block kept as a shell. -/
theorem sweep_weak_shell (c : Ctx) (i : Nat) (rest' : List Nat) (o : Obj) (hr : c.rest = i :: rest')
    (ho : c.heap.get i = some o) (hw : o.color = .whiteWeak) :
    (∃ o', c.sweepOne.1.heap.get i = some o' ∧ o'.live = false ∧ o'.color = .white) ∧
    (o.live = true → c.sweepOne.1.log = .dropped i :: c.log) ∧
    (o.live = false → c.sweepOne.1.log = c.log) := by
  unfold Ctx.sweepOne
  simp only [hr, Ctx.step_heap, ho, hw]
  cases hl : o.live <;> simp

/-- A sweep never releases or destructs anything strongly reachable (C01), so what two
    `finish_cycle` calls leave undestructed *includes* every reachable value. -/
theorem reachable_survives {root : List Slot} (ms : List Micro) {c c' : Ctx} (h : CInv c root [])
    (hs : c.micros root ms = some c') (i : Nat) (hr : StrongReachC c root i) :
    ∃ o, c'.heap.get i = some o ∧ o.live = true := by
  have := (micros_events ms h hs).2 i hr
  obtain ⟨o, ho, hl, _⟩ := (micros_inv ms h hs).safe_of_accessible this
  exact ⟨o, ho, hl⟩

def finishCycle2 (c : Ctx) (root : List Slot) : Ctx :=
  ((c.doCollection root .stop .finishCycle none).1.doCollection root .stop .finishCycle none).1

/-- **Exactness** (proved, for every state satisfying the invariant — any phase, any colours
    left by earlier mutator activity): after two consecutive `finish_cycle` calls the
    undestructed allocated objects are *exactly* the objects strongly reachable from the root
    when the first call began. -/
theorem exactness :
  ∀ (c : Ctx) (root : List Slot), CInv c root [] →
    ∀ i, (∃ o, (finishCycle2 c root).heap.get i = some o ∧ o.live = true) ↔ StrongReachC c root i := by
  intro c root h i
  obtain ⟨h1, p1, s1, _⟩ := finishCycle_spec h
  obtain ⟨h2, p2, s2, t2⟩ := finishCycle_spec h1
  have T2 := t2 (fun hne => absurd p1 hne)
  constructor
  · rintro ⟨o, ho, hl⟩
    exact (s1.reach i).mp ((s2.reach i).mp ((T2.asleep h2 p2 ho).1 hl))
  · intro hr
    obtain ⟨o, ho, hl, _⟩ := h2.safe_of_accessible ((s2.reach i).mpr ((s1.reach i).mpr hr))
    exact ⟨o, ho, hl⟩

/-- **Shells** (proved): what else stays allocated after the two calls is a destructed shell
    whose `GcWeak` is stored in the root or in a strongly reachable object. -/
theorem shells :
  ∀ (c : Ctx) (root : List Slot), CInv c root [] →
    ∀ i o, (finishCycle2 c root).heap.get i = some o → o.live = false →
      some (Ptr.weak i) ∈ root ∨
      ∃ j oj, StrongReachC c root j ∧ c.heap.get j = some oj ∧ some (Ptr.weak i) ∈ oj.slots := by
  intro c root h i o ho hl
  obtain ⟨h1, p1, s1, _⟩ := finishCycle_spec h
  obtain ⟨h2, p2, s2, t2⟩ := finishCycle_spec h1
  have T2 := t2 (fun hne => absurd p1 hne)
  exact (s1.weak i).mp ((s2.weak i).mp ((T2.asleep h2 p2 ho).2 hl))

/-- **Shell release** (proved): a shell held by nothing reachable is released by the next full
    cycle. -/
theorem shell_release :
  ∀ (c : Ctx) (root : List Slot), CInv c root [] → c.phase = .sleep →
    ∀ i o, c.heap.get i = some o → o.live = false → some (Ptr.weak i) ∉ root →
      (∀ j oj, StrongReachC c root j → c.heap.get j = some oj → some (Ptr.weak i) ∉ oj.slots) →
      (c.doCollection root .stop .finishCycle none).1.heap.get i = none := by
  intro c root h hp i o ho hl hnr hnh
  obtain ⟨h1, p1, s1, t1⟩ := finishCycle_spec h
  have T1 := t1 (fun hne => absurd hp hne)
  cases ho' : (c.doCollection root .stop .finishCycle none).1.heap.get i with
  | none => rfl
  | some o' =>
    exfalso
    obtain ⟨hlive, hdead⟩ := T1.asleep h1 p1 ho'
    cases hl' : o'.live with
    | true =>
      obtain ⟨o2, ho2, hl2, _⟩ := h.safe_of_accessible ((s1.reach i).mp (hlive hl'))
      rw [ho] at ho2; cases ho2
      rw [hl] at hl2; cases hl2
    | false =>
      rcases (s1.weak i).mp (hdead hl') with hw | ⟨j, oj, hj, hoj, hw⟩
      · exact hnr hw
      · exact hnh j oj hj hoj hw

/-- **Exactness, at the API** (proved): on any state an arena can reach, outside callbacks, two
    consecutive `Arena::finish_cycle()` calls (self-driven: `Context::do_collection` literally)
    leave allocated and undestructed exactly the objects that were strongly reachable from the
    root before the first call. -/
theorem exactness_run (n : Nat) (pre : List Op) :
    let a := (Arena.new n).run pre
    a.alive = true → a.cb = none →
    let a2 := a.run [.collect .finishCycle .drop none none, .collect .finishCycle .drop none none]
    a2.alive = true ∧ a2.root = a.root ∧
    ∀ i, (∃ o, a2.ctx.heap.get i = some o ∧ o.live = true) ↔ StrongReach a i := by
  intro a halive hcb a2
  have h : Inv a := inv_run n pre halive
  obtain ⟨hal, hroot, _, _, hctx⟩ := run_finishCycle2 h hcb .drop .drop
  refine ⟨hal, hroot, fun i => ?_⟩
  show (∃ o, a2.ctx.heap.get i = some o ∧ o.live = true) ↔ StrongReachC a.ctx a.root i
  rw [hctx]
  exact exactness a.ctx a.root (h.cinv0 hcb) i

/-- **Shells, at the API** (proved): whatever else those two calls leave allocated is a
    destructed shell whose `GcWeak` was stored in the root or in a strongly reachable object. -/
theorem shells_run (n : Nat) (pre : List Op) :
    let a := (Arena.new n).run pre
    a.alive = true → a.cb = none →
    let a2 := a.run [.collect .finishCycle .drop none none, .collect .finishCycle .drop none none]
    ∀ i o, a2.ctx.heap.get i = some o → o.live = false →
      some (Ptr.weak i) ∈ a.root ∨
      ∃ j oj, StrongReach a j ∧ a.ctx.heap.get j = some oj ∧ some (Ptr.weak i) ∈ oj.slots := by
  intro a halive hcb a2 i o ho hl
  have h : Inv a := inv_run n pre halive
  obtain ⟨_, _, _, _, hctx⟩ := run_finishCycle2 h hcb .drop .drop
  rw [hctx] at ho
  exact shells a.ctx a.root (h.cinv0 hcb) i o ho hl

/-- **Complete reclamation over histories** (proved).  On any sleeping state an arena can reach,
    outside callbacks: an allocated object `i` — destructed shell or not — to which *no chain of
    pointers of either kind* leads from the root (`Nameable`: follow `Gc` and `GcWeak` alike) has
    been released by the time the next cycle completes (a `'Z'`, the `Sweep → Sleep` switch, has
    been appended to the step log), whatever was interleaved: callbacks of every kind with any
    allocations, stores, barriers, upgrades and resurrections, and collection calls of every
    method, self- or oracle-driven, with faults. -/
theorem unnameable_released_run (n : Nat) (pre : List Op) (i : Nat) (o : Obj) (ops : List Op) :
    let a := (Arena.new n).run pre
    a.alive = true → a.cb = none → a.ctx.phase = .sleep →
    a.ctx.heap.get i = some o → ¬ Nameable a.ctx a.root i →
    (a.run ops).alive = true →
    (∃ new, (a.run ops).ctx.steps = new ++ a.ctx.steps ∧ 'Z' ∈ new) →
    (a.run ops).ctx.heap.get i = none ∧ Event.freed i ∈ (a.run ops).ctx.log := by
  intro a halive hcb hsl ho hnn hal ⟨new, hnew, hz⟩
  have h : Inv a := inv_run n pre halive
  have hw := h.cinv.sleepWhite hsl
  have d : Doomed a.ctx a.root a.temps i := by
    rw [h.cbTemps hcb]
    exact ⟨⟨o, ho, hw i o ho⟩, fun he => hnn (nameable_of_exposed hw he),
      fun hp => by rw [hsl] at hp; cases hp⟩
  exact doomed_released_run h i ops d hal (zc_lt_of_suffix hnew hz)

/-- **Shell release over histories** (proved): the instance for a destructed shell.  The premise
    "no chain of pointers of either kind from the root" is stronger than "not weakly held by the
    root or by a strongly reachable object" (`nameable_of_weakHeld`), and has to be: see
    `unheld_shell_can_survive` below. -/
theorem shell_release_run (n : Nat) (pre : List Op) (i : Nat) (o : Obj) (ops : List Op) :
    let a := (Arena.new n).run pre
    a.alive = true → a.cb = none → a.ctx.phase = .sleep →
    a.ctx.heap.get i = some o → o.live = false → ¬ Nameable a.ctx a.root i →
    (a.run ops).alive = true →
    (∃ new, (a.run ops).ctx.steps = new ++ a.ctx.steps ∧ 'Z' ∈ new) →
    (a.run ops).ctx.heap.get i = none ∧ Event.freed i ∈ (a.run ops).ctx.log := by
  intro a halive hcb hsl ho _ hnn hal hz
  exact unnameable_released_run n pre i o ops halive hcb hsl ho hnn hal hz

/-- **Shell release — the last clause of C02 as read here** (proved): "such a shell is released by
    the first full cycle that starts after no reachable weak pointer refers to it".  "After no
    reachable weak pointer refers to it" is read as *from then on*: on any sleeping state an arena can
    reach — a cycle is about to start — let `i` be a destructed shell, and let `ops` be any
    continuation of the history: callbacks of every kind with any mutation, collection calls of
    every method.  If in every state at an operation boundary from here on no reachable weak
    pointer refers to `i` — `WeakHeldA`: a `GcWeak` to `i` in the root, held by the running callback,
    or stored in an object accessible through `Gc` pointers from the root or from what the callback
    holds — then once that cycle has completed (a `'Z'` in the step log) the shell has been
    released: its block is gone and `freed i` is logged.
    The other conceivable reading — the premise asked only of the state in which the cycle starts,
    whatever the mutator does during the cycle — is not what the code can or should deliver (a
    mutator that revives the holder of the weak pointer makes that pointer reachable again, and C05
    then requires the shell to stay queryable): it is written out as `shell_release_start_only_reading`
    and refuted by `shell_release_start_only_reading_false`; `callback_held_holder_keeps_shell`
    shows that "reachable" must include what the running callback holds.  (Outside callbacks
    `WeakHeldA` is `WeakHeld`: `weakHeldA_iff`.) -/
theorem shell_release_while_unheld (n : Nat) (pre : List Op) (i : Nat) (o : Obj) (ops : List Op) :
    let a := (Arena.new n).run pre
    a.alive = true → a.ctx.phase = .sleep →
    a.ctx.heap.get i = some o → o.live = false →
    (∀ k, k ≤ ops.length → ¬ WeakHeldA (a.run (ops.take k)) i) →
    (a.run ops).alive = true →
    (∃ new, (a.run ops).ctx.steps = new ++ a.ctx.steps ∧ 'Z' ∈ new) →
    (a.run ops).ctx.heap.get i = none ∧ Event.freed i ∈ (a.run ops).ctx.log := by
  intro a halive hsl ho hdead hP hal ⟨new, hnew, hz⟩
  exact shell_released_run (inv_run n pre halive) hsl i o ho hdead ops hP hal (zc_lt_of_suffix hnew hz)

/-- The last clause of C02 under the *start-only* reading: the premise is asked of the state in
    which the cycle starts only, and anything may be interleaved with the cycle.  **False** of model
    and code, and rightly so (see `shell_release_while_unheld`): `shell_release_start_only_reading_false`.
    Proved: `shell_release` (the cycle runs at once), `shell_release_run` (premise on the first state
    only, but `¬ Nameable`: no chain of pointers of either kind, which mutation cannot undo), and
    `shell_release_while_unheld` (the clause as read: the premise holds from then on). -/
def shell_release_start_only_reading : Prop :=
  ∀ (n : Nat) (pre : List Op) (i : Nat) (o : Obj) (ops : List Op),
    let a := (Arena.new n).run pre
    a.alive = true → a.cb = none → a.ctx.phase = .sleep →
    a.ctx.heap.get i = some o → o.live = false →
    ¬ WeakHeld a.ctx a.root i →
    (a.run ops).alive = true →
    (∃ new, (a.run ops).ctx.steps = new ++ a.ctx.steps ∧ 'Z' ∈ new) →
    (a.run ops).ctx.heap.get i = none

/-! ### Non-vacuity: a cycle of garbage and a weakly held shell -/

/-- 0 ⇄ 1 is an unreachable cycle; 2 is held weakly by the root only. -/
def demo : List Op := [
  .enter .mutateRoot, .alloc true [none], .alloc true [some (.strong 0)], .store .write 0 0 (some (.strong 1)),
  .alloc true [none], .downgrade 2, .rootStore 0 (some (.weak 2)), .leave,
  .collect .finishCycle .drop none
    (some [.wake, .markStep none, .markBreak, .toSweep, .sweepStep, .sweepStep, .sweepStep, .sweepEnd, .toSleep true]) ]

example : ((Arena.new 1).run demo).ctx.log = [.freed 0, .dropped 0, .freed 1, .dropped 1, .dropped 2] := by decide
example : ((Arena.new 1).run demo).ctx.all = [2] := by decide

/-! ### Non-vacuity of the full-strength theorems -/

/-- The state of `demo` just before the collection call: garbage cycle 0 ⇄ 1, object 2 weakly
    held by the root. -/
def before : Arena := (Arena.new 1).run (demo.take 8)

theorem before_inv : CInv before.ctx before.root [] := by
  have h := inv_run 1 (demo.take 8) (by decide)
  have hc := h.cinv
  rw [h.cbTemps (by decide)] at hc
  exact hc

theorem before_unreachable (i : Nat) : ¬ StrongReachC before.ctx before.root i := by
  have hroot : before.root = [some (.weak 2)] := by decide
  intro hi
  induction hi with
  | root t ht => rw [hroot] at ht; simp at ht
  | temp t ht => cases ht
  | edge _ _ _ _ ih => exact ih

/-- `exactness` (⇒) applies to `before`: no undestructed object is left, whatever the id. -/
example (i : Nat) : ¬ ∃ o, (finishCycle2 before.ctx before.root).heap.get i = some o ∧ o.live = true :=
  fun h => before_unreachable i ((exactness _ _ before_inv i).mp h)

/-- `shells` applies to `before`: the only block that can stay allocated is 2. -/
example (i : Nat) (o : Obj) (ho : (finishCycle2 before.ctx before.root).heap.get i = some o)
    (hl : o.live = false) : i = 2 := by
  have hroot : before.root = [some (.weak 2)] := by decide
  rcases shells _ _ before_inv i o ho hl with hw | ⟨j, _, hj, _⟩
  · rw [hroot] at hw; simpa using hw
  · exact absurd hj (before_unreachable j)

/-- …and the self-driven model does leave exactly that: the destructed shell 2, nothing else. -/
example : (finishCycle2 before.ctx before.root).heap.get 2 = some ⟨.white, true, false, []⟩ := by decide
example : (finishCycle2 before.ctx before.root).heap.get 0 = none := by decide
example : (finishCycle2 before.ctx before.root).heap.get 1 = none := by decide

/-- A root holding object 0 strongly. -/
def held : Arena :=
  (Arena.new 1).run [.enter .mutateRoot, .alloc true [none], .rootStore 0 (some (.strong 0)), .leave]

/-- `exactness` (⇐) applies to `held`: object 0 survives both calls undestructed. -/
example : ∃ o, (finishCycle2 held.ctx held.root).heap.get 0 = some o ∧ o.live = true := by
  have h := inv_run 1 [.enter .mutateRoot, .alloc true [none], .rootStore 0 (some (.strong 0)), .leave]
    (by decide)
  have hc := h.cinv
  rw [h.cbTemps (by decide)] at hc
  exact (exactness _ _ hc 0).mpr (.root 0 (by decide))

/-- After `demo` (object 2 is a shell held weakly by the root) the root drops its weak pointer. -/
def unheldPre : List Op := demo ++ [.enter .mutateRoot, .rootStore 0 none, .leave]

def unheld : Arena := (Arena.new 1).run unheldPre

/-- `shell_release` applies to `unheld`: all its hypotheses hold, so the next `finish_cycle`
    releases the shell 2. -/
example : (unheld.ctx.doCollection unheld.root .stop .finishCycle none).1.heap.get 2 = none := by
  have h := inv_run 1 unheldPre (by decide)
  have hc : CInv unheld.ctx unheld.root [] := by
    have hc := h.cinv
    rw [h.cbTemps (by decide)] at hc
    exact hc
  have hroot : unheld.root = [none] := by decide
  have hunreach : ∀ j, ¬ StrongReachC unheld.ctx unheld.root j := by
    intro j hj
    induction hj with
    | root t ht => rw [hroot] at ht; simp at ht
    | temp t ht => cases ht
    | edge _ _ _ _ ih => exact ih
  exact shell_release _ _ hc (by decide) 2 ⟨.white, true, false, []⟩ (by decide) rfl (by decide)
    (fun j _ hj => absurd hj (hunreach j))

/-- `exactness_run` / `shells_run` on `demo.take 8` and on `held`, hypotheses discharged by
    evaluation. -/
example (i : Nat) : ¬ ∃ o, (((Arena.new 1).run (demo.take 8)).run
    [.collect .finishCycle .drop none none, .collect .finishCycle .drop none none]).ctx.heap.get i = some o ∧
      o.live = true :=
  fun h => before_unreachable i (((exactness_run 1 (demo.take 8) (by decide) (by decide)).2.2 i).mp h)

example : ∃ o, (held.run [.collect .finishCycle .drop none none,
    .collect .finishCycle .drop none none]).ctx.heap.get 0 = some o ∧ o.live = true :=
  ((exactness_run 1 [.enter .mutateRoot, .alloc true [none], .rootStore 0 (some (.strong 0)), .leave]
    (by decide) (by decide)).2.2 0).mpr (.root 0 (by decide))

/-! ### `shell_release_run`: non-vacuity, and why its premise cannot be weakened -/

/-- `unheld` again (shell 2, the root no longer holds its weak pointer): nothing at all is
    nameable, so after *any* history that completes a cycle — here a callback that allocates and
    stores, then an incremental cycle in three calls with another callback in between — the shell
    is released. -/
def unheldOps : List Op := [
  .enter .mutateRoot, .alloc true [none], .rootStore 0 (some (.strong 3)), .leave,
  .collect .finishMarking .sweep none none,
  .enter .mutate, .readRoot 0, .alloc true [none], .store .write 3 0 (some (.strong 4)), .leave,
  .collect .finishCycle .drop none none ]

example : (unheld.run unheldOps).ctx.heap.get 2 = none ∧ Event.freed 2 ∈ (unheld.run unheldOps).ctx.log := by
  unfold unheld
  have hroot : ((Arena.new 1).run unheldPre).root = [none] := by decide
  have hnn : ¬ Nameable ((Arena.new 1).run unheldPre).ctx ((Arena.new 1).run unheldPre).root 2 := by
    have : ∀ j, ¬ Nameable ((Arena.new 1).run unheldPre).ctx ((Arena.new 1).run unheldPre).root j := by
      intro j hj
      induction hj with
      | root p hp => rw [hroot] at hp; simp at hp
      | edge _ _ _ _ _ _ ih => exact ih
    exact this 2
  exact shell_release_run 1 unheldPre 2 ⟨.white, true, false, []⟩ unheldOps (by decide) (by decide)
    (by decide) (by decide) rfl hnn (by decide)
    ⟨['Z', 'e', 'x', 'x', 'S', 'b', 'b', 'g', 'r', 'W'], by decide, by decide⟩

/-- root → A(0); `A.1 = weak X(1)`; `X.0 = weak S(2)`; S is a destructed shell; X is undestructed
    but no longer strongly reachable.  Asleep, outside callbacks. -/
def weakChain : List Op := [
  .enter .mutateRoot, .alloc true [none, none], .alloc true [none], .alloc true [none],
  .downgrade 2, .store .write 1 0 (some (.weak 2)),
  .downgrade 1, .store .write 0 0 (some (.strong 1)), .store .write 0 1 (some (.weak 1)),
  .rootStore 0 (some (.strong 0)), .leave,
  .collect .finishCycle .drop none none,
  .enter .mutate, .readRoot 0, .store .write 0 0 none, .leave ]

/-- A callback that stores no `GcWeak` to S anywhere: it upgrades the weak pointer to X (legal:
    X is undestructed and the arena is not sweeping) and stores the *strong* pointer to X. -/
def reviveHolder : List Op := [
  .enter .mutate, .readRoot 0, .read 0 1, .upgrade 1, .store .write 0 0 (some (.strong 1)), .leave,
  .collect .finishCycle .drop none none ]

/-- **Why "not weakly held" is not enough over histories.**  In `weakChain` the shell 2 is not
    weakly held by the root or by any strongly reachable object, and `reviveHolder` stores no weak
    pointer to it; a full cycle completes — and the shell is still allocated.  (Run the cycle at
    once instead and it is released: `shell_release`.)  The shell *is* `Nameable`: root → 0 ⇢ 1 ⇢ 2. -/
theorem unheld_shell_can_survive :
    let a := (Arena.new 1).run weakChain
    a.alive = true ∧ a.cb = none ∧ a.ctx.phase = .sleep ∧
    a.ctx.heap.get 2 = some ⟨.white, true, false, []⟩ ∧ ¬ WeakHeld a.ctx a.root 2 ∧
    (a.run reviveHolder).ctx.steps.count 'Z' = a.ctx.steps.count 'Z' + 1 ∧
    (a.run reviveHolder).ctx.heap.get 2 = some ⟨.white, true, false, []⟩ ∧
    (a.run [.collect .finishCycle .drop none none]).ctx.heap.get 2 = none := by
  intro a
  have hroot : a.root = [some (.strong 0)] := by decide
  have h0 : a.ctx.heap.get 0 = some ⟨.white, true, true, [none, some (.weak 1)]⟩ := by decide
  have reach : ∀ j, StrongReachC a.ctx a.root j → j = 0 := by
    intro j hj
    induction hj with
    | root t ht => rw [hroot] at ht; simpa using ht
    | temp t ht => cases ht
    | edge i t _ e ih =>
      subst ih
      obtain ⟨o, ho, hs⟩ := e
      rw [h0] at ho; cases ho
      simp at hs
  refine ⟨by decide, by decide, by decide, by decide, ?_, by decide, by decide, by decide⟩
  rintro (hw | ⟨j, oj, hj, hoj, hs⟩)
  · rw [hroot] at hw; simp at hw
  · have := reach j hj
    subst this
    rw [h0] at hoj; cases hoj
    simp at hs

private theorem not_weakHeld_of_shape {c : Ctx} {root : List Slot} (hroot : root = [some (.strong 0)])
    (h0 : (c.heap.get 0).map (·.slots) = some [none, some (.weak 1)]) : ¬ WeakHeld c root 2 := by
  have reach : ∀ j, StrongReachC c root j → j = 0 := by
    intro j hj
    induction hj with
    | root t ht => rw [hroot] at ht; simpa using ht
    | temp t ht => cases ht
    | edge i t _ e ih =>
      subst ih
      obtain ⟨o, ho, hs⟩ := e
      rw [ho] at h0
      simp only [Option.map_some, Option.some.injEq] at h0
      rw [h0] at hs; simp at hs
  rintro (hw | ⟨j, oj, hj, hoj, hs⟩)
  · rw [hroot] at hw; simp at hw
  · have := reach j hj
    subst this
    rw [hoj] at h0
    simp only [Option.map_some, Option.some.injEq] at h0
    rw [h0] at hs; simp at hs

/-- The literal clause is false: `unheld_shell_can_survive` is a counterexample. -/
theorem shell_release_start_only_reading_false : ¬ shell_release_start_only_reading := by
  intro hst
  obtain ⟨h1, h2, h3, h4, h5, h6, h7, _⟩ := unheld_shell_can_survive
  have := hst 1 weakChain 2 ⟨.white, true, false, []⟩ reviveHolder h1 h2 h3 h4 rfl h5 (by decide)
    ⟨['Z', 'e', 'x', 'x', 'x', 'S', 'b', 'g', 'g', 'r', 'W'], by decide, by decide⟩
  rw [h7] at this
  cases this

/-- The same shell, a different route: the finalizer callback of the cycle resurrects the holder X
    and returns without storing the pointer anywhere. -/
def viaFinalizer : List Op := [
  .collect .finishMarking .finalize none none,
  .enter .finalize, .readRoot 0, .read 0 1, .resurrect (.weak 1), .leave,
  .collect .finishCycle .drop none none ]

/-- **Why "reachable" must include what the running callback holds.**  Along `viaFinalizer` the
    shell 2 is at *no* operation boundary weakly held by the root or by an object strongly reachable
    from the root (`WeakHeld`, the root-only notion); a full cycle completes; the shell is still
    allocated.  Between `resurrect` and `leave` the callback holds the `Gc` to X, which holds the
    weak pointer: `WeakHeldA` is true there, as `shell_release_while_unheld` demands. -/
theorem callback_held_holder_keeps_shell :
    let a := (Arena.new 1).run weakChain
    (∀ k, k ≤ viaFinalizer.length →
      ¬ WeakHeld (a.run (viaFinalizer.take k)).ctx (a.run (viaFinalizer.take k)).root 2) ∧
    (a.run viaFinalizer).ctx.steps.count 'Z' = a.ctx.steps.count 'Z' + 1 ∧
    (a.run viaFinalizer).ctx.heap.get 2 = some ⟨.white, true, false, []⟩ ∧
    WeakHeldA (a.run (viaFinalizer.take 5)) 2 := by
  intro a
  refine ⟨?_, by decide, by decide, ?_⟩
  · intro k hk
    have hk' : k = 0 ∨ k = 1 ∨ k = 2 ∨ k = 3 ∨ k = 4 ∨ k = 5 ∨ k = 6 ∨ k = 7 := by
      simp [viaFinalizer] at hk; omega
    rcases hk' with rfl | rfl | rfl | rfl | rfl | rfl | rfl | rfl <;>
      exact not_weakHeld_of_shape (by decide) (by decide)
  · right; right
    refine ⟨1, ⟨.gray, true, true, [some (.weak 2)]⟩, .temp 1 (by decide), by decide, by simp⟩

/-- `shell_release_while_unheld` on `unheld` with the history `unheldOps`: the premise holds in each
    of the twelve states (nothing ever refers to the shell), so the shell is released. -/
example : (unheld.run unheldOps).ctx.heap.get 2 = none := by
  unfold unheld
  have key := shell_release_while_unheld 1 unheldPre 2 ⟨.white, true, false, []⟩ unheldOps (by decide)
    (by decide) (by decide) rfl
  refine (key ?_ (by decide) ⟨['Z', 'e', 'x', 'x', 'S', 'b', 'b', 'g', 'r', 'W'], by decide, by decide⟩).1
  -- no weak pointer to 2 exists anywhere in any of these states (checked by evaluation)
  intro k hk
  have hk' : k = 0 ∨ k = 1 ∨ k = 2 ∨ k = 3 ∨ k = 4 ∨ k = 5 ∨ k = 6 ∨ k = 7 ∨ k = 8 ∨ k = 9 ∨ k = 10 ∨
      k = 11 := by
    simp [unheldOps] at hk; omega
  rcases hk' with rfl | rfl | rfl | rfl | rfl | rfl | rfl | rfl | rfl | rfl | rfl | rfl <;>
    exact not_weakHeldA_of_noWeakTo (by decide)

private theorem not_weakHeldA_of_shape {b : Arena} (hroot : b.root = [some (.strong 0)])
    (htemps : b.temps.all (fun p => p == Ptr.strong 0 || p == Ptr.weak 1) = true)
    (h0 : (b.ctx.heap.get 0).map (·.slots) = some [none, some (.weak 1)]) : ¬ WeakHeldA b 2 := by
  have ht : ∀ p, p ∈ b.temps → p = Ptr.strong 0 ∨ p = Ptr.weak 1 := by
    intro p hp
    have := List.all_eq_true.mp htemps p hp
    simpa using this
  have acc : ∀ j, Accessible b j → j = 0 := by
    intro j hj
    induction hj with
    | root t ht' => rw [hroot] at ht'; simpa using ht'
    | temp t ht' => rcases ht _ ht' with h | h <;> cases h; rfl
    | edge i t _ e ih =>
      subst ih
      obtain ⟨o, ho, hs⟩ := e
      rw [ho] at h0
      simp only [Option.map_some, Option.some.injEq] at h0
      rw [h0] at hs; simp at hs
  rintro (hw | hw | ⟨j, oj, hj, hoj, hs⟩)
  · rw [hroot] at hw; simp at hw
  · rcases ht _ hw with h | h <;> cases h
  · have := acc j hj
    subst this
    rw [hoj] at h0
    simp only [Option.map_some, Option.some.injEq] at h0
    rw [h0] at hs; simp at hs

/-- After `weakChain`: two callbacks that read their way to the weak pointer to X but never upgrade
    it, around an incremental cycle. -/
def peekOnly : List Op := [
  .enter .mutate, .readRoot 0, .read 0 1, .leave,
  .collect .finishMarking .sweep none none,
  .enter .mutate, .readRoot 0, .read 0 1, .leave,
  .collect .finishCycle .drop none none ]

/-- **`shell_release_while_unheld`, non-degenerate.**  In `weakChain` a weak pointer to the shell 2
    *exists* (in X, object 1) and the shell is `Nameable` (root → 0 ⇢ 1 ⇢ 2), so neither
    `shell_release_run` nor the `noWeakTo` check applies (`noWeakTo` is false in the first ten
    states); but X is never reachable through `Gc` pointers — the callbacks of `peekOnly` hold only
    `Gc 0` and `GcWeak 1` — so the premise holds in all eleven states and the shell is released when
    the cycle completes (contrast `reviveHolder` / `viaFinalizer`, where it survives). -/
example :
    (((Arena.new 1).run weakChain).run peekOnly).ctx.heap.get 2 = none ∧
    Event.freed 2 ∈ (((Arena.new 1).run weakChain).run peekOnly).ctx.log ∧
    ((Arena.new 1).run weakChain).noWeakTo 2 = false ∧
    (((Arena.new 1).run weakChain).run (peekOnly.take 9)).noWeakTo 2 = false := by
  have key := shell_release_while_unheld 1 weakChain 2 ⟨.white, true, false, []⟩ peekOnly (by decide)
    (by decide) (by decide) rfl
  have hP : ∀ k, k ≤ peekOnly.length →
      ¬ WeakHeldA (((Arena.new 1).run weakChain).run (peekOnly.take k)) 2 := by
    intro k hk
    have hk' : k = 0 ∨ k = 1 ∨ k = 2 ∨ k = 3 ∨ k = 4 ∨ k = 5 ∨ k = 6 ∨ k = 7 ∨ k = 8 ∨ k = 9 ∨ k = 10 := by
      simp [peekOnly] at hk; omega
    rcases hk' with rfl | rfl | rfl | rfl | rfl | rfl | rfl | rfl | rfl | rfl | rfl <;>
      exact not_weakHeldA_of_shape (by decide) (by decide) (by decide)
  obtain ⟨h1, h2⟩ := key hP (by decide)
    ⟨['Z', 'e', 'x', 'x', 'x', 'S', 'b', 'b', 'g', 'r', 'W'], by decide, by decide⟩
  exact ⟨h1, h2, by decide, by decide⟩

end GcArena.C02
