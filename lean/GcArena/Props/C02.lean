import GcArena.Proofs.Events
/-!
# C02 — Exact, complete reclamation

What a sweep step does to the object under the cursor, by colour — the local facts from which
exactness follows — and the full statements, kept visible while their proofs (which need the
termination measure of the driver loop and the exactness invariant "gray/black ⇒ strongly
reachable while no mutator step intervenes") are being developed.
-/
namespace GcArena.C02

open GcArena

/-- A white object under the cursor is destructed (if not already) and released. -/
theorem sweep_white_released (c : Ctx) (i : Nat) (rest' : List Nat) (o : Obj) (hr : c.rest = i :: rest')
    (ho : c.heap.get i = some o) (hw : o.color = .white) :
    c.sweepOne.1.heap.get i = none ∧ Event.freed i ∈ c.sweepOne.1.log ∧
    (o.live = true → Event.dropped i ∈ c.sweepOne.1.log) := by
  unfold Ctx.sweepOne
  simp only [hr, Ctx.step_heap, ho, hw]
  cases hl : o.live <;> simp [Heap.get_set]

/-- A black object under the cursor is kept, untouched but for its colour. -/
theorem sweep_black_kept (c : Ctx) (i : Nat) (rest' : List Nat) (o : Obj) (hr : c.rest = i :: rest')
    (ho : c.heap.get i = some o) (hb : o.color = .black) :
    c.sweepOne.1.heap.get i = some { o with color := .white } ∧ c.sweepOne.1.log = c.log := by
  unfold Ctx.sweepOne
  simp [hr, ho, hb]

/-- A weakly marked object under the cursor is destructed once and its block kept as a shell. -/
theorem sweep_weak_shell (c : Ctx) (i : Nat) (rest' : List Nat) (o : Obj) (hr : c.rest = i :: rest')
    (ho : c.heap.get i = some o) (hw : o.color = .whiteWeak) :
    (∃ o', c.sweepOne.1.heap.get i = some o' ∧ o'.live = false ∧ o'.color = .white) ∧
    (o.live = true → c.sweepOne.1.log = .dropped i :: c.log) ∧
    (o.live = false → c.sweepOne.1.log = c.log) := by
  unfold Ctx.sweepOne
  simp only [hr, Ctx.step_heap, ho, hw]
  cases hl : o.live <;> simp

/-- A sweep never releases or destructs anything strongly reachable (C01), so what two
    `finish_cycle` calls leave undestructed *includes* every reachable value. -/
theorem reachable_survives {root : List Slot} (ms : List Micro) {c c' : Ctx} (h : CInv c root [])
    (hs : c.micros root ms = some c') (i : Nat) (hr : StrongReachC c root i) :
    ∃ o, c'.heap.get i = some o ∧ o.live = true := by
  have := (micros_events ms h hs).2 i hr
  obtain ⟨o, ho, hl, _⟩ := (micros_inv ms h hs).safe_of_accessible this
  exact ⟨o, ho, hl⟩

def finishCycle2 (c : Ctx) (root : List Slot) : Ctx :=
  ((c.doCollection root .stop .finishCycle none).1.doCollection root .stop .finishCycle none).1

/-- Full statement: exactness. -/
def exact_statement : Prop :=
  ∀ (c : Ctx) (root : List Slot), CInv c root [] →
    ∀ i, (∃ o, (finishCycle2 c root).heap.get i = some o ∧ o.live = true) ↔ StrongReachC c root i

/-- Full statement: what else stays allocated is a shell weakly held by something reachable. -/
def shells_statement : Prop :=
  ∀ (c : Ctx) (root : List Slot), CInv c root [] →
    ∀ i o, (finishCycle2 c root).heap.get i = some o → o.live = false →
      some (Ptr.weak i) ∈ root ∨
      ∃ j oj, StrongReachC c root j ∧ c.heap.get j = some oj ∧ some (Ptr.weak i) ∈ oj.slots

/-- Full statement: an unheld shell is released by the next full cycle. -/
def shell_release_statement : Prop :=
  ∀ (c : Ctx) (root : List Slot), CInv c root [] → c.phase = .sleep →
    ∀ i o, c.heap.get i = some o → o.live = false → some (Ptr.weak i) ∉ root →
      (∀ j oj, StrongReachC c root j → c.heap.get j = some oj → some (Ptr.weak i) ∉ oj.slots) →
      (c.doCollection root .stop .finishCycle none).1.heap.get i = none

/-! ### Non-vacuity: a cycle of garbage and a weakly held shell -/

/-- 0 ⇄ 1 is an unreachable cycle; 2 is held weakly by the root only. -/
def demo : List Op := [
  .enter .mutateRoot, .alloc true [none], .alloc true [some (.strong 0)], .store .write 0 0 (some (.strong 1)),
  .alloc true [none], .downgrade 2, .rootStore 0 (some (.weak 2)), .leave,
  .collect .finishCycle .drop none
    (some [.wake, .markStep none, .markBreak, .toSweep, .sweepStep, .sweepStep, .sweepStep, .sweepEnd, .toSleep true]) ]

example : ((Arena.new 1).run demo).ctx.log = [.freed 0, .dropped 0, .freed 1, .dropped 1, .dropped 2] := by decide
example : ((Arena.new 1).run demo).ctx.all = [2] := by decide

end GcArena.C02
