import GcArena.Proofs.WriteCapLemmas
import GcArena.Proofs.WriteCapBridge
import GcArena.Generated.DerefWriteTable
/-!
# C13 — safe code cannot adopt a pointer without a write barrier

Partial (DESIGN §6/§9): the calculus `GcArena.WriteCap` abstracts what a safe client program can
derive from the `Write` API; that rustc admits exactly the programs the calculus describes is
trusted and cross-checked by the compile probes (lib/eng_tables.py, probes/gen_tables.py).

* `covered`           — for **every** table satisfying the hypothesis `Table.ok`, every derivable
                         capability / `&mut` / unlocked store is on a place that cannot hold
                         pointers or whose holders have all been barriered;
* `table_ok`          — the table extracted from the current source tree satisfies the hypothesis
                         (`decide`); fails on a tree with an unbounded `DerefWrite for &T` / `Rc<T>` /
                         `Arc<T>` (defects D2a, D2b);
* `cells_static`      — `Collect for Cell<T>` / `RefCell<T>` require `T: 'static`;
* `unsound_witnesses` — for tables containing such an impl, explicit derivations with an uncovered
                         holder, by the `from_mut` route (D2a) and the `Gc::write` route (D2b);
* `unsound_witness_client_index`, `mutant_witness` — an `IndexWrite<I>` impl whose index type is
                         not closed (`where Self: Index<I>` only) admits a downstream `Index` impl
                         that looks through a `Gc`: uncovered derivation; the mutated `Vec` entry is
                         rejected by `Table.ok`, the crate's entry is accepted.
-/
namespace GcArena.C13
open GcArena.WriteCap

/-- Whatever the table, if it satisfies `Table.ok` — every safe constructor is `Gc::write` with a
barrier, `from_static` with a `'static` bound, or `from_mut`; every `DerefWrite` / `IndexWrite` /
`as_write` receiver owns its target exclusively **or** bounds it by `'static`; every `IndexWrite`
impl constrains its index type so that the `Index::index` body that runs is upstream's (std's /
hashbrown's) own element projection, which stays inside the receiver's own storage — never a
downstream crate's (`ProjImpl.idxClosed`); `DerefWrite` / `IndexWrite` are `unsafe trait`s;
`field!` is a pure pattern; every `Unlock` impl stays in place behind an `unsafe fn`; no safe lock
accessor hands out the cell without a barrier, and `unlock_unchecked` / the raw accessors are only
called from `Write::unlock`, `unsafe fn`s or after a barrier — then every item derivable by safe code is covered: its place is
pointer-free, or a write barrier has been applied to every allocated object through which the
place's storage is reachable.  Hence every `unlock`ed store is a guarded store of the collector
model, to which C01 applies. -/
theorem covered (t : Table) (hok : t.ok = true) (env : Env) (B : WriteCap.Obj → Prop) (it : Item)
    (h : Der t env B it) : Covered env B it := by
  obtain ⟨hc, hp, hu, hf, hfm, hrs, hmt⟩ := Table.ok_unpack hok
  induction h with
  | gcWrite c o pf hm hk hs hb =>
    right
    intro o' ho'
    have := hc c hm
    simp [Ctor.ok, hk, hs] at this
    simp [Item.place, holders] at ho'
    subst ho'
    exact hb this
  | fromStatic c p hm hk hs =>
    left
    have := hc c hm
    simp [Ctor.ok, hk, hs] at this
    simpa [Item.ptrFree] using this
  | forge c p hm hs hk =>
    have := hc c hm
    rcases hk with hk | hk | hk <;> simp [Ctor.ok, hk, hs] at this
  | localMut n pf => right; intro o ho; simp [Item.place, holders] at ho
  | rootMut pf => right; intro o ho; simp [Item.place, holders] at ho
  | capToMut p pf _ ih => exact ih
  | mutField p pf f _ ih => exact ih
  | mutBox p pf _ ih => exact ih
  | fromMut c p pf _ _ _ _ ih => exact ih
  | field p pf f _ _ ih => exact ih
  | fieldThroughDeref p pf o why hw _ _ => rw [hfm] at hw; cases hw
  | proj pi p pf k hm _ hpt ih =>
    have hok' := hp pi hm
    simp only [ProjImpl.ok, Bool.and_eq_true, Bool.or_eq_true] at hok'
    rcases hok'.1 with hex | hst
    · rcases ih with ih | ih
      · left; simp_all [Item.ptrFree]
      · right
        intro o ho
        simp only [Item.place] at ho ih
        rw [holders_projPlace_exclusive env _ p k hex] at ho
        exact ih o ho
    · left; simp [Item.ptrFree, hst]
  | indexThroughClient pi p pf o hm _ hopen _ _ =>
    have hok' := hp pi hm
    simp only [ProjImpl.ok, Bool.and_eq_true] at hok'
    rw [hopen] at hok'
    exact absurd hok'.2 (by decide)
  | clientMarkerImpl p pf o hno _ _ => rw [hmt] at hno; cases hno
  | rawSite r p hm hbad =>
    have := hrs r hm
    simp [hbad] at this
  | unlock u p pf _ _ _ ih => exact ih
  | unlockElsewhere u p q pf hm hip _ _ =>
    have := hu u hm
    simp [UnlockImpl.ok, hip] at this
  | rawCell f p hm hbad =>
    have := hf f hm
    simp [hbad] at this

/-! ## Bridge to the collector model

`covered` ends in the calculus' own vocabulary (`Covered`).  The two theorems below connect it to
`Model/Arena.lean`, under the interpretation of `Proofs/WriteCapBridge.lean`: objects are heap ids,
`B := coverB a` is "`Cover.parent o ∈ a.cover`" (a `backward_barrier(o, None)` / `Gc::write` was
issued on `o` in this callback and no collection call happened since), and an `unlock`ed store on
holder `o` is `Op.store .raw o i v`.

What remains informal (and is exercised by the run probes of `probes/gen_tables.py` and by the
collector harness instead): (1) that the holders the calculus assigns to a place are the heap
objects whose slots a real store through that place can change (`holders` / `Env.owners` are an
abstraction of Rust ownership, `Recv.cls` is trusted); (2) that a place whose type is `'static`
(`pf = true`) only ever receives pointer-free values, i.e. `v = none` at the level of slots;
(3) that the `gcWrite` rule's premise `B o` is produced by the program — the table fact
`barrier = true` says `Gc::write` calls `backward_barrier(gc, None)` first, and
`WriteCap.barrier_establishes_cover` shows that this model step puts `Cover.parent o` into the cover
and keeps every earlier one; (4) rustc admitting exactly the derivations of the calculus. -/

/-- **Every store the calculus can derive is covered in the collector model.**  For a table
satisfying `Table.ok`, a store item derived with `B = coverB a`, any holder `o` of its place and any
slot value `v` it may be given (`none` if the place is pointer-free): the collector model's guard
`Arena.coverOK o v` holds — the raw store is not a "bad-op". -/
theorem covered_is_collector_cover (t : Table) (hok : t.ok = true) (a : GcArena.Arena) (env : Env)
    (p : Place) (pf : Bool) (h : Der t env (coverB a) (.store p pf))
    (o : WriteCap.Obj) (ho : o ∈ holders env p) (v : GcArena.Slot) (hv : pf = true → v = none) :
    a.coverOK o v = true :=
  covered_coverOK a env (.store p pf) (covered t hok env (coverB a) _ h) o ho v hv

/-- … hence it is an accepted instance of `Op.store` with path `StorePath.raw`: with the side
conditions every store shares (a callback is running, the client holds `o` and the value, slot `i`
exists, a type with `NEEDS_TRACE = false` is given no pointer) `stepBody` executes it as `setSlot`,
and the collector invariant `Inv` — from which C01 follows (`Props/C01`, `inv_run`) — is preserved. -/
theorem derived_store_is_guarded_store (t : Table) (hok : t.ok = true) (a : GcArena.Arena)
    (env : Env) (p : Place) (pf : Bool) (h : Der t env (coverB a) (.store p pf))
    (o : WriteCap.Obj) (ho : o ∈ holders env p) (fin : Bool) (i : Nat) (v s : GcArena.Slot)
    (hv : pf = true → v = none)
    (hcb : a.cb.isSome = true) (hh : a.holds (.strong o) = true) (hs : a.holdsSlot v = true)
    (hslot : GcArena.Arena.slotOf a.ctx o i = some s)
    (htr : v.isSome = true → GcArena.Arena.isTracing a.ctx o = true)
    (hinv : GcArena.Inv a) (hm : a.marked = false) :
    a.stepBody fin (.store .raw o i v) =
        ({ a with ctx := GcArena.Arena.setSlot a.ctx o i v }, "ok") ∧
      GcArena.Inv (a.stepBody fin (.store .raw o i v)).1 :=
  ⟨raw_store_accepted a fin o i v s (covered_is_collector_cover t hok a env p pf h o ho v hv)
      hcb hh hs hslot htr,
   GcArena.sb_store hinv hm fin .raw o i v⟩

/-- The table extracted from the current source tree satisfies the hypothesis of `covered`. -/
theorem table_ok : Generated.derefWriteTable.ok = true := by decide

/-- Plain interior mutability cannot hold pointers: every `Collect` impl for a std cell type bounds
its content by `'static` and has `NEEDS_TRACE = false` with no `trace`. -/
theorem cells_static : Generated.derefWriteTable.cellsStatic = true := by decide

/-- Lower bounds on the extracted table (a translator that silently drops rows cannot make
`table_ok` / `cells_static` vacuous): the `Write` constructors, the `DerefWrite` / `IndexWrite`
projection impls, one `Unlock` impl per lock type, the lock types' methods and the two std cell
impls are there. -/
theorem required_write_rows :
    Generated.derefWriteTable.ctors.length ≥ 4 ∧ Generated.derefWriteTable.projs.length ≥ 10 ∧
    Generated.derefWriteTable.unlocks.length ≥ 3 ∧ Generated.derefWriteTable.lockFns.length ≥ 30 ∧
    Generated.derefWriteTable.cells.length ≥ 2 ∧ Generated.derefWriteTable.unclassified = [] := by decide


/-- D2a shape: a local `&T` pointing into object 7 (not barriered), `from_mut`, `as_deref`. -/
theorem unsound_witness_from_mut (t : Table) (pi : ProjImpl) (c : Ctor)
    (hpi : pi ∈ t.projs) (hex : pi.recv.cls.exclusive = false) (hns : pi.targetStatic = false)
    (hc : c ∈ t.ctors) (hk : c.kind = .fromMut) (hs : c.isUnsafe = false) :
    ∃ env B it, Der t env B it ∧ ¬ Covered env B it := by
  refine ⟨⟨fun _ => [7]⟩, fun _ => False, .cap (projPlace pi.recv.cls (.localv 0) 0) (false || pi.targetStatic), ?_, ?_⟩
  · refine Der.proj pi (.localv 0) false 0 hpi ?_ ?_
    · exact Der.fromMut c _ _ hc hk hs (Der.localMut 0 false)
    · intro _ o ho; simp [holders] at ho
  · intro h
    rcases h with h | h
    · simp [Item.ptrFree, hns] at h
    · have : holders ⟨fun _ => [7]⟩ (projPlace pi.recv.cls (.localv 0) 0) = [7] := by
        cases hcl : pi.recv.cls <;> simp_all [OwnClass.exclusive, projPlace, holders]
      exact h 7 (by simp [Item.place, this])

/-- D2b shape: objects 1 and 2 co-own cell 0; `Gc::write` barriers 2 only; `as_deref`. -/
theorem unsound_witness_gc_write (t : Table) (pi : ProjImpl) (c : Ctor)
    (hpi : pi ∈ t.projs) (hex : pi.recv.cls.exclusive = false) (hns : pi.targetStatic = false)
    (hc : c ∈ t.ctors) (hk : c.kind = .gcWrite) (hs : c.isUnsafe = false) :
    ∃ env B it, Der t env B it ∧ ¬ Covered env B it := by
  refine ⟨⟨fun _ => [1, 2]⟩, fun o => o = 2, .cap (projPlace pi.recv.cls (.obj 2) 0) (false || pi.targetStatic), ?_, ?_⟩
  · refine Der.proj pi (.obj 2) false 0 hpi ?_ ?_
    · exact Der.gcWrite c 2 false hc hk hs (fun _ => rfl)
    · intro _ o ho; simp [holders] at ho; simp [ho]
  · intro h
    rcases h with h | h
    · simp [Item.ptrFree, hns] at h
    · have : holders ⟨fun _ => [1, 2]⟩ (projPlace pi.recv.cls (.obj 2) 0) = [1, 2] := by
        cases hcl : pi.recv.cls <;> simp_all [OwnClass.exclusive, projPlace, holders]
      have h1 : (1 : Nat) = 2 := h 1 (by simp [Item.place, this])
      exact absurd h1 (by decide)

/-- Tables containing an unbounded `&T` / `Rc<T>` / `Arc<T>` `DerefWrite` (the pinned tree's D2a,
D2b) admit derivations with an uncovered holder, by either route. -/
theorem unsound_witnesses (t : Table) (pi : ProjImpl) (hpi : pi ∈ t.projs)
    (hr : pi.recv = .ref ∨ pi.recv = .rc ∨ pi.recv = .arc) (hns : pi.targetStatic = false) :
    (∀ c, c ∈ t.ctors → c.kind = .fromMut → c.isUnsafe = false →
        ∃ env B it, Der t env B it ∧ ¬ Covered env B it) ∧
    (∀ c, c ∈ t.ctors → c.kind = .gcWrite → c.isUnsafe = false →
        ∃ env B it, Der t env B it ∧ ¬ Covered env B it) := by
  have hex : pi.recv.cls.exclusive = false := by
    rcases hr with h | h | h <;> simp [h, Recv.cls, OwnClass.exclusive]
  exact ⟨fun c hc hk hs => unsound_witness_from_mut t pi c hpi hex hns hc hk hs,
         fun c hc hk hs => unsound_witness_gc_write t pi c hpi hex hns hc hk hs⟩

/-- Mutant shape "index type bounded only by `Self: Index<I>`": objects 1 and 2, `Gc::write`
barriers 2 (the vector), the client's `Index<Local>` impl looks through the `Gc` stored in it and
returns a reference into object 1, which was never barriered. -/
theorem unsound_witness_client_index (t : Table) (pi : ProjImpl) (c : Ctor)
    (hpi : pi ∈ t.projs) (hk : pi.kind = .index) (hopen : pi.idxClosed t.projs = false)
    (hc : c ∈ t.ctors) (hck : c.kind = .gcWrite) (hs : c.isUnsafe = false) :
    ∃ env B it, Der t env B it ∧ ¬ Covered env B it := by
  refine ⟨⟨fun _ => []⟩, fun o => o = 2, .cap (.obj 1) false, ?_, ?_⟩
  · exact Der.indexThroughClient pi (.obj 2) false 1 hpi hk hopen
      (Der.gcWrite c 2 false hc hck hs (fun _ => rfl))
  · intro h
    rcases h with h | h
    · simp [Item.ptrFree] at h
    · have h1 : (1 : Nat) = 2 := h 1 (by simp [Item.place, holders])
      exact absurd h1 (by decide)

open GcArena.WriteCap.Example in
/-- The delivered mutant. With the slice entries as extracted:
* the crate's `IndexWrite<I> for Vec<T> where [T]: IndexWrite<I>, Self: Index<I>` is accepted
  (`I` ranges over the six concrete std index types of `[T]`);
* the mutated `IndexWrite<I> for Vec<T> where Self: Index<I>` is rejected, and so is the whole
  table containing it, and it admits an uncovered derivation;
* the `delegates` form is rejected as soon as the delegate's own entries are not all concrete, for
  a fundamental receiver (`Box<Local>` is local to a downstream crate), and for the analogous array
  mutant `where [T]: Index<I>` (std's array impl forwards to the slice's `Index` impl). -/
theorem mutant_witness :
    (tableWith (sliceEntries ++ [vecCurrent])).ok = true ∧
    vecMutant.ok (sliceEntries ++ [vecMutant]) = false ∧
    (tableWith (sliceEntries ++ [vecMutant])).ok = false ∧
    (∃ env B it, Der (tableWith (sliceEntries ++ [vecMutant])) env B it ∧ ¬ Covered env B it) ∧
    vecCurrent.ok (vecMutant :: { vecMutant with recv := .slice } :: sliceEntries) = false ∧
    ({ vecCurrent with recv := .box }).ok (sliceEntries ++ [vecCurrent]) = false ∧
    arrayMutant.ok (sliceEntries ++ [arrayMutant]) = false := by
  refine ⟨by decide, by decide, by decide, ?_, by decide, by decide, by decide⟩
  exact unsound_witness_client_index _ vecMutant gcWriteCtor (by decide) rfl (by decide)
    (by decide) rfl rfl

/-- Non-vacuity: with the current table, `Gc::write(mc, g)` on object 3, a field projection and an
`unlock` are derivable (so `covered` is about a non-empty relation) … -/
example : Der Generated.derefWriteTable ⟨fun _ => []⟩ (fun o => o = 3) (.cap (.field (.obj 3) 0) false) := by
  refine Der.field _ _ _ (by decide) ?_
  exact Der.gcWrite ⟨"Gc::write", .gcWrite, false, false, true⟩ 3 false (by decide) rfl rfl (fun _ => rfl)

/-- … and the hypothesis of `covered` is falsifiable: the pinned tree's table shape fails it. -/
example : Table.ok { Generated.derefWriteTable with
    projs := [{ kind := .deref, recv := .rc, text := "Rc<T>", targetStatic := false, idx := .na, gate := "" }] } = false := by
  decide

/-! ## Ties of the hand-written example entries to the generated table -/

open GcArena.WriteCap.Example in
/-- The entries `mutant_witness` is stated about are the crate's: modulo the header text and the cfg
gate, every `IndexWrite<_> for [T]` row of the generated table is one of `Example.sliceEntries` and
conversely, and the generated `Vec` row is `Example.vecCurrent` (index type delegated to `[T]`). -/
theorem slice_entries_match :
    let strip := fun (p : ProjImpl) => { p with text := "", gate := "" }
    let gen := (Generated.derefWriteTable.projs.filter
      (fun p => p.kind == .index && p.recv == .slice)).map strip
    gen ≠ [] ∧ gen.all ((sliceEntries.map strip).contains ·) = true ∧
    (sliceEntries.map strip).all (gen.contains ·) = true ∧
    ((Generated.derefWriteTable.projs.filter (fun p => p.kind == .index && p.recv == .vec)).map strip)
      = [strip vecCurrent] := by decide

/-! ## The clause, over the calculus

"No program free of unsafe code can make an already allocated object come to hold a `Gc` without a
write barrier on every object through which that storage is reachable" — rendered over the
derivation calculus of `Model/WriteCap.lean` for the **current** crate (the regenerated table).
What this rendering does *not* contain: that rustc admits exactly the derivations of the calculus
(trusted, cross-checked by the probe corpus), and the identification of the calculus' holders /
barrier predicate with the collector model (see `covered_is_collector_cover` and the list of
informal steps there). -/
def no_unbarriered_adoption_statement : Prop :=
  ∀ (env : Env) (B : WriteCap.Obj → Prop) (it : Item),
    Der Generated.derefWriteTable env B it → Covered env B it

theorem no_unbarriered_adoption : no_unbarriered_adoption_statement :=
  fun env B it h => covered _ table_ok env B it h

end GcArena.C13
