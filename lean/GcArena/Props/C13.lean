import GcArena.Proofs.WriteCapLemmas
import GcArena.Generated.DerefWriteTable
/-!
# C13 — safe code cannot adopt a pointer without a write barrier

Partial (DESIGN §6/§9): the calculus `GcArena.WriteCap` abstracts what a safe client program can
derive from the `Write` API; that rustc admits exactly the programs the calculus describes is
trusted and cross-checked by the compile probes (lib/eng_tables.py, probes/gen_tables.py).

* `covered`           — for **every** table satisfying the hypothesis `Table.ok`, every derivable
                         capability / `&mut` / unlocked store is on a place that cannot hold
                         pointers or whose holders have all been barriered;
* `table_ok`          — the table extracted from the current source tree satisfies the hypothesis
                         (`decide`); fails on a tree with an unbounded `DerefWrite for &T` / `Rc<T>` /
                         `Arc<T>` (defects D2a, D2b);
* `cells_static`      — `Collect for Cell<T>` / `RefCell<T>` require `T: 'static`;
* `unsound_witnesses` — for tables containing such an impl, explicit derivations with an uncovered
                         holder, by the `from_mut` route (D2a) and the `Gc::write` route (D2b).
-/
namespace GcArena.C13
open GcArena.WriteCap

/-- Whatever the table, if it satisfies `Table.ok` — every safe constructor is `Gc::write` with a
barrier, `from_static` with a `'static` bound, or `from_mut`; every `DerefWrite` / `IndexWrite` /
`as_write` receiver owns its target exclusively **or** bounds it by `'static`; `field!` is a pure
pattern; every `Unlock` impl stays in place behind an `unsafe fn`; no safe lock accessor hands out
the cell without a barrier — then every item derivable by safe code is covered: its place is
pointer-free, or a write barrier has been applied to every allocated object through which the
place's storage is reachable.  Hence every `unlock`ed store is a guarded store of the collector
model, to which C01 applies. -/
theorem covered (t : Table) (hok : t.ok = true) (env : Env) (B : Obj → Prop) (it : Item)
    (h : Der t env B it) : Covered env B it := by
  obtain ⟨hc, hp, hu, hf, hfm⟩ := Table.ok_unpack hok
  induction h with
  | gcWrite c o pf hm hk hs hb =>
    right
    intro o' ho'
    have := hc c hm
    simp [Ctor.ok, hk, hs] at this
    simp [Item.place, holders] at ho'
    subst ho'
    exact hb this
  | fromStatic c p hm hk hs =>
    left
    have := hc c hm
    simp [Ctor.ok, hk, hs] at this
    simpa [Item.ptrFree] using this
  | forge c p hm hs hk =>
    have := hc c hm
    rcases hk with hk | hk | hk <;> simp [Ctor.ok, hk, hs] at this
  | localMut n pf => right; intro o ho; simp [Item.place, holders] at ho
  | rootMut pf => right; intro o ho; simp [Item.place, holders] at ho
  | capToMut p pf _ ih => exact ih
  | mutField p pf f _ ih => exact ih
  | mutBox p pf _ ih => exact ih
  | fromMut c p pf _ _ _ _ ih => exact ih
  | field p pf f _ _ ih => exact ih
  | fieldThroughDeref p pf o why hw _ _ => rw [hfm] at hw; cases hw
  | proj pi p pf k hm _ hpt ih =>
    have hok' := hp pi hm
    simp only [ProjImpl.ok, Bool.or_eq_true] at hok'
    rcases hok' with hex | hst
    · rcases ih with ih | ih
      · left; simp_all [Item.ptrFree]
      · right
        intro o ho
        simp only [Item.place] at ho ih
        rw [holders_projPlace_exclusive env _ p k hex] at ho
        exact ih o ho
    · left; simp [Item.ptrFree, hst]
  | unlock u p pf _ _ _ ih => exact ih
  | unlockElsewhere u p q pf hm hip _ _ =>
    have := hu u hm
    simp [UnlockImpl.ok, hip] at this
  | rawCell f p hm hbad =>
    have := hf f hm
    simp [hbad] at this

/-- The table extracted from the current source tree satisfies the hypothesis of `covered`. -/
theorem table_ok : Generated.derefWriteTable.ok = true := by decide

/-- Plain interior mutability cannot hold pointers: every `Collect` impl for a std cell type bounds
its content by `'static` and has `NEEDS_TRACE = false` with no `trace`. -/
theorem cells_static : Generated.derefWriteTable.cellsStatic = true := by decide


/-- D2a shape: a local `&T` pointing into object 7 (not barriered), `from_mut`, `as_deref`. -/
theorem unsound_witness_from_mut (t : Table) (pi : ProjImpl) (c : Ctor)
    (hpi : pi ∈ t.projs) (hex : pi.recv.cls.exclusive = false) (hns : pi.targetStatic = false)
    (hc : c ∈ t.ctors) (hk : c.kind = .fromMut) (hs : c.isUnsafe = false) :
    ∃ env B it, Der t env B it ∧ ¬ Covered env B it := by
  refine ⟨⟨fun _ => [7]⟩, fun _ => False, .cap (projPlace pi.recv.cls (.localv 0) 0) (false || pi.targetStatic), ?_, ?_⟩
  · refine Der.proj pi (.localv 0) false 0 hpi ?_ ?_
    · exact Der.fromMut c _ _ hc hk hs (Der.localMut 0 false)
    · intro _ o ho; simp [holders] at ho
  · intro h
    rcases h with h | h
    · simp [Item.ptrFree, hns] at h
    · have : holders ⟨fun _ => [7]⟩ (projPlace pi.recv.cls (.localv 0) 0) = [7] := by
        cases hcl : pi.recv.cls <;> simp_all [OwnClass.exclusive, projPlace, holders]
      exact h 7 (by simp [Item.place, this])

/-- D2b shape: objects 1 and 2 co-own cell 0; `Gc::write` barriers 2 only; `as_deref`. -/
theorem unsound_witness_gc_write (t : Table) (pi : ProjImpl) (c : Ctor)
    (hpi : pi ∈ t.projs) (hex : pi.recv.cls.exclusive = false) (hns : pi.targetStatic = false)
    (hc : c ∈ t.ctors) (hk : c.kind = .gcWrite) (hs : c.isUnsafe = false) :
    ∃ env B it, Der t env B it ∧ ¬ Covered env B it := by
  refine ⟨⟨fun _ => [1, 2]⟩, fun o => o = 2, .cap (projPlace pi.recv.cls (.obj 2) 0) (false || pi.targetStatic), ?_, ?_⟩
  · refine Der.proj pi (.obj 2) false 0 hpi ?_ ?_
    · exact Der.gcWrite c 2 false hc hk hs (fun _ => rfl)
    · intro _ o ho; simp [holders] at ho; simp [ho]
  · intro h
    rcases h with h | h
    · simp [Item.ptrFree, hns] at h
    · have : holders ⟨fun _ => [1, 2]⟩ (projPlace pi.recv.cls (.obj 2) 0) = [1, 2] := by
        cases hcl : pi.recv.cls <;> simp_all [OwnClass.exclusive, projPlace, holders]
      have h1 : (1 : Nat) = 2 := h 1 (by simp [Item.place, this])
      exact absurd h1 (by decide)

/-- Tables containing an unbounded `&T` / `Rc<T>` / `Arc<T>` `DerefWrite` (the pinned tree's D2a,
D2b) admit derivations with an uncovered holder, by either route. -/
theorem unsound_witnesses (t : Table) (pi : ProjImpl) (hpi : pi ∈ t.projs)
    (hr : pi.recv = .ref ∨ pi.recv = .rc ∨ pi.recv = .arc) (hns : pi.targetStatic = false) :
    (∀ c, c ∈ t.ctors → c.kind = .fromMut → c.isUnsafe = false →
        ∃ env B it, Der t env B it ∧ ¬ Covered env B it) ∧
    (∀ c, c ∈ t.ctors → c.kind = .gcWrite → c.isUnsafe = false →
        ∃ env B it, Der t env B it ∧ ¬ Covered env B it) := by
  have hex : pi.recv.cls.exclusive = false := by
    rcases hr with h | h | h <;> simp [h, Recv.cls, OwnClass.exclusive]
  exact ⟨fun c hc hk hs => unsound_witness_from_mut t pi c hpi hex hns hc hk hs,
         fun c hc hk hs => unsound_witness_gc_write t pi c hpi hex hns hc hk hs⟩

/-- Non-vacuity: with the current table, `Gc::write(mc, g)` on object 3, a field projection and an
`unlock` are derivable (so `covered` is about a non-empty relation) … -/
example : Der Generated.derefWriteTable ⟨fun _ => []⟩ (fun o => o = 3) (.cap (.field (.obj 3) 0) false) := by
  refine Der.field _ _ _ (by decide) ?_
  exact Der.gcWrite ⟨"Gc::write", .gcWrite, false, false, true⟩ 3 false (by decide) rfl rfl (fun _ => rfl)

/-- … and the hypothesis of `covered` is falsifiable: the pinned tree's table shape fails it. -/
example : Table.ok { Generated.derefWriteTable with
    projs := [{ kind := .deref, recv := .rc, text := "Rc<T>", targetStatic := false, gate := "" }] } = false := by
  decide

end GcArena.C13
