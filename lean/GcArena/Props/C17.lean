import GcArena.Proofs.LayoutLemmas
/-!
# C17 — allocation layout integrity (property theorems)

Model: `GcArena.Model.Layout` (src/gc_ptr.rs, src/slice.rs, src/meta.rs and `core::alloc::Layout`
over `Nat`).  Every theorem is universally quantified over `maxSize` (= `isize::MAX`), the
`GcHeader` layout `hdr`, the per-value metadata kind `k : PtrKind` (its metadata layout and its
`P::layout` function), the metadata value, the block address, all sizes, all power-of-two
alignments and all lengths; nothing is proved by enumeration of samples.  The common
hypotheses are `k.Ok maxSize` (the metadata type is a Rust type and `P::layout` returns
`Layout`s), `IsTypeLayout maxSize hdr` and `gcAlloc … = some p` (the allocation did not panic);
`sizedKind_ok`, `customKind_ok`, `sliceWithHeaderKind_ok` show the built-in kinds satisfy
`PtrKind.Ok`.  Tie: `lib/eng_layout.py` (harness_layout vs. `layoutmodel`).

`stable` and `dealloc_same_layout` are frame lemmas (they assume where writes fall).  The
substantive claim — the collector's bookkeeping writes (`CollectorWrite`: the two stores of
`GcPtr::alloc` and the four `GcHeader` setters) all land in the header extent / metadata slot,
hence never in the value — is `collector_writes_in_header`, `stable_under_collector_writes` and
`dealloc_same_layout_collector_history` in the section "The collector's bookkeeping writes never
touch the value" below, whose docstring says what ties `CollectorWrite` to the code.
-/
namespace GcArena.C17

open GcArena.Layout

/-- The assertion of `prefix_header_layout` can never fire for `META_HEADER_LAYOUT`: its size is a
    multiple of its alignment, and it has room for the metadata followed by the header. -/
theorem meta_header_size_multiple (maxSize : Nat) (pmeta hdr mhl : Layout)
    (hm : IsTypeLayout maxSize pmeta) (hh : IsTypeLayout maxSize hdr)
    (h : metaHeaderLayout maxSize pmeta hdr = some mhl) :
    mhl.size % mhl.align = 0 ∧ pmeta.size + hdr.size ≤ mhl.size ∧
      mhl.align = max pmeta.align hdr.align := by
  obtain ⟨ha, _, hd, hs, _, _⟩ := metaHeaderLayout_spec hm hh h
  exact ⟨Nat.mod_eq_zero_of_dvd hd, hs, ha⟩

/-- The pointer returned by `GcPtr::alloc` is aligned for the value, for every block address the
    allocator may return for the requested layout. -/
theorem value_aligned (maxSize : Nat) (hdr : Layout) (k : PtrKind) (ptrMeta : Nat) (p : Plan)
    (block : Nat) (hk : k.Ok maxSize) (hh : IsTypeLayout maxSize hdr)
    (h : gcAlloc maxSize hdr k ptrMeta = some p) (hb : block % p.alloc.align = 0) :
    k.layoutOf ptrMeta = some p.value ∧ valuePtr block p % p.value.align = 0 ∧
      p.valueOff % p.value.align = 0 := by
  obtain ⟨_, _, _, _, _, _, h7, _, _, h10, _⟩ := gcAlloc_facts hk hh h
  refine ⟨(gcAlloc_eq_some h).2.1, ?_, Nat.mod_eq_zero_of_dvd h7⟩
  exact mod_zero_of_dvd_add (Nat.dvd_trans h10 (Nat.dvd_of_mod_eq_zero hb)) h7

/-- The `GcHeader` sits exactly `size_of::<GcHeader>()` bytes in front of the value, at an address
    aligned for it (`(off − hdr.size) % hdr.align = 0`), with no underflow. -/
theorem header_aligned (maxSize : Nat) (hdr : Layout) (k : PtrKind) (ptrMeta : Nat) (p : Plan)
    (block : Nat) (hk : k.Ok maxSize) (hh : IsTypeLayout maxSize hdr)
    (h : gcAlloc maxSize hdr k ptrMeta = some p) (hb : block % p.alloc.align = 0) :
    p.headerOff hdr % hdr.align = 0 ∧
      headerPtr hdr (valuePtr block p) = block + p.headerOff hdr ∧
      headerPtr hdr (valuePtr block p) % hdr.align = 0 ∧
      headerPtr hdr (valuePtr block p) + hdr.size = valuePtr block p := by
  obtain ⟨_, _, _, _, h5, h6, _, h8, _, _, h11, _, h13, h14⟩ := gcAlloc_facts hk hh h
  have hoff : hdr.align ∣ p.valueOff - hdr.size :=
    Nat.dvd_sub (Nat.dvd_trans h13 h8) h14
  have hblk : hdr.align ∣ block :=
    Nat.dvd_trans h13 (Nat.dvd_trans h11 (Nat.dvd_of_mod_eq_zero hb))
  have e : headerPtr hdr (valuePtr block p) = block + (p.valueOff - hdr.size) := by
    unfold headerPtr valuePtr; omega
  refine ⟨Nat.mod_eq_zero_of_dvd hoff, e, ?_, ?_⟩
  · rw [e]; exact mod_zero_of_dvd_add hblk hoff
  · unfold headerPtr valuePtr; omega

/-- The per-value metadata slot (`value − META_HEADER_LAYOUT.size`) is aligned for the metadata
    type. -/
theorem meta_aligned (maxSize : Nat) (hdr : Layout) (k : PtrKind) (ptrMeta : Nat) (p : Plan)
    (block : Nat) (hk : k.Ok maxSize) (hh : IsTypeLayout maxSize hdr)
    (h : gcAlloc maxSize hdr k ptrMeta = some p) (hb : block % p.alloc.align = 0) :
    metaPtr p.mhl (valuePtr block p) = block + p.metaOff ∧
      metaPtr p.mhl (valuePtr block p) % k.pmeta.align = 0 ∧
      p.metaOff % k.pmeta.align = 0 := by
  obtain ⟨_, _, _, _, h5, _, _, h8, h9, _, h11, h12, _, _⟩ := gcAlloc_facts hk hh h
  have hoff : k.pmeta.align ∣ p.valueOff - p.mhl.size :=
    Nat.dvd_trans h12 (Nat.dvd_sub h8 h9)
  have hblk : k.pmeta.align ∣ block :=
    Nat.dvd_trans h12 (Nat.dvd_trans h11 (Nat.dvd_of_mod_eq_zero hb))
  have e : metaPtr p.mhl (valuePtr block p) = block + (p.valueOff - p.mhl.size) := by
    unfold metaPtr valuePtr; omega
  refine ⟨e, ?_, Nat.mod_eq_zero_of_dvd hoff⟩
  rw [e]; exact mod_zero_of_dvd_add hblk hoff

/-- Metadata slot, `GcHeader` and value extent lie in this order inside `[block, block +
    alloc.size)`, hence are pairwise disjoint — zero-sized metadata, values, headers, elements and
    lengths included.  The value ends exactly at the end of the block. -/
theorem disjoint (maxSize : Nat) (hdr : Layout) (k : PtrKind) (ptrMeta : Nat) (p : Plan)
    (block : Nat) (hk : k.Ok maxSize) (hh : IsTypeLayout maxSize hdr)
    (h : gcAlloc maxSize hdr k ptrMeta = some p) :
    block ≤ metaPtr p.mhl (valuePtr block p) ∧
      metaPtr p.mhl (valuePtr block p) + k.pmeta.size ≤ headerPtr hdr (valuePtr block p) ∧
      headerPtr hdr (valuePtr block p) + hdr.size = valuePtr block p ∧
      valuePtr block p + p.value.size = block + p.alloc.size := by
  obtain ⟨h1, _, _, _, h5, h6, _⟩ := gcAlloc_facts hk hh h
  unfold metaPtr headerPtr valuePtr
  omega

/-- Mutator and collector writes after allocation touch only the header and the value extent;
    the metadata read back by the `dealloc` entry of the vtable is therefore the metadata
    written by `GcPtr::alloc`, the layout recomputed from it is the requested layout, and the
    pointer handed to `alloc::dealloc` is the block start. -/
theorem dealloc_same_layout (maxSize : Nat) (hdr : Layout) (k : PtrKind) (ptrMeta : Nat)
    (p : Plan) (block : Nat) (hk : k.Ok maxSize) (hh : IsTypeLayout maxSize hdr)
    (h : gcAlloc maxSize hdr k ptrMeta = some p)
    (m0 : Nat → Nat) (enc : Nat → List Nat) (dec : List Nat → Nat)
    (henc : (enc ptrMeta).length = k.pmeta.size) (hdec : dec (enc ptrMeta) = ptrMeta)
    (ws : List (Nat × Nat))
    (hws : ∀ w ∈ ws,
      (headerPtr hdr (valuePtr block p) ≤ w.1 ∧ w.1 < valuePtr block p) ∨
      (valuePtr block p ≤ w.1 ∧ w.1 < valuePtr block p + p.value.size)) :
    readPtrMeta (applyWrites (writeCells m0 (metaPtr p.mhl (valuePtr block p)) (enc ptrMeta)) ws)
        dec p.mhl k.pmeta (valuePtr block p) = ptrMeta ∧
      gcDealloc maxSize hdr k (valuePtr block p)
        (readPtrMeta (applyWrites (writeCells m0 (metaPtr p.mhl (valuePtr block p)) (enc ptrMeta)) ws)
          dec p.mhl k.pmeta (valuePtr block p)) = some (block, p.alloc) := by
  obtain ⟨_, hd2, hd3, _⟩ := disjoint maxSize hdr k ptrMeta p block hk hh h
  have hread : readPtrMeta
      (applyWrites (writeCells m0 (metaPtr p.mhl (valuePtr block p)) (enc ptrMeta)) ws)
      dec p.mhl k.pmeta (valuePtr block p) = ptrMeta := by
    unfold readPtrMeta
    rw [readCells_congr _ (writeCells m0 (metaPtr p.mhl (valuePtr block p)) (enc ptrMeta)),
      ← henc, readCells_writeCells, hdec]
    intro a h1 h2
    apply applyWrites_outside
    intro w hw e
    rcases hws w hw with hx | hx <;> omega
  refine ⟨hread, ?_⟩
  rw [hread]
  obtain ⟨hm, hv, hp⟩ := gcAlloc_eq_some h
  unfold gcDealloc
  rw [hm, hv]
  simp only [hp]
  have : valuePtr block p - p.valueOff = block := by unfold valuePtr; omega
  rw [this]

/-- Overflow or a missing value layout make `gcAlloc` answer `none`, and then `GcPtr::alloc`
    panics before any call of the allocator; otherwise exactly one block of the planned layout is
    requested.  `gcAlloc` is `none` exactly when the value has no layout, `META_HEADER_LAYOUT`
    does not exist, or header + padding + value (rounded to the alignment) exceed `isize::MAX`. -/
theorem no_layout_panics_cleanly (maxSize : Nat) (hdr : Layout) (k : PtrKind) (ptrMeta : Nat)
    (hk : k.Ok maxSize) (hh : IsTypeLayout maxSize hdr) :
    (gcAlloc maxSize hdr k ptrMeta = none →
        gcAllocTrace maxSize hdr k ptrMeta = [AllocEvent.panic]) ∧
      (∀ p, gcAlloc maxSize hdr k ptrMeta = some p →
        gcAllocTrace maxSize hdr k ptrMeta = [AllocEvent.alloc p.alloc]) ∧
      (gcAlloc maxSize hdr k ptrMeta = none ↔
        (k.layoutOf ptrMeta = none ∨ metaHeaderLayout maxSize k.pmeta hdr = none ∨
          ∃ mhl v, metaHeaderLayout maxSize k.pmeta hdr = some mhl ∧ k.layoutOf ptrMeta = some v ∧
            maxSize < roundUp mhl.size v.align + v.size + (max mhl.align v.align - 1))) := by
  refine ⟨fun h => by unfold gcAllocTrace; rw [h], fun p h => by unfold gcAllocTrace; rw [h], ?_⟩
  cases hm : metaHeaderLayout maxSize k.pmeta hdr with
  | none => simp [gcAlloc, hm]
  | some mhl =>
    cases hv : k.layoutOf ptrMeta with
    | none => simp [gcAlloc, hm, hv]
    | some v =>
      obtain ⟨_, hpow, hdvd, _⟩ := metaHeaderLayout_spec hk.pmeta hh hm
      have hval := hk.value _ _ hv
      have hmod : ¬ mhl.size % mhl.align ≠ 0 := by
        rw [Nat.mod_eq_zero_of_dvd hdvd]; simp
      by_cases hfit : (⟨roundUp mhl.size v.align + v.size, max mhl.align v.align⟩ : Layout).Valid maxSize
      · have hx := extend_of_valid hfit
        have hfit2 := hfit.2
        simp only at hfit2
        simp only [gcAlloc, hm, hv, prefixHeaderLayout, if_neg hmod, hx]
        simp
        omega
      · have hx := extend_eq_none hfit
        have : maxSize < roundUp mhl.size v.align + v.size + (max mhl.align v.align - 1) := by
          apply Nat.lt_of_not_le
          intro hle
          exact hfit ⟨isPow2_max hpow hval.1, hle⟩
        simp only [gcAlloc, hm, hv, prefixHeaderLayout, if_neg hmod, hx]
        simp
        exact this

/-- Thin ↔ fat conversion keeps the address and reconstructs exactly the length stored at
    allocation, whatever the mutator and collector have written to the header and the value since;
    `to_thin`/`from_thin` are mutually inverse. -/
theorem thin_fat_roundtrip (maxSize : Nat) (hdr : Layout) (k : PtrKind) (len : Nat)
    (p : Plan) (block : Nat) (hk : k.Ok maxSize) (hh : IsTypeLayout maxSize hdr)
    (h : gcAlloc maxSize hdr k len = some p)
    (m0 : Nat → Nat) (enc : Nat → List Nat) (dec : List Nat → Nat)
    (henc : (enc len).length = k.pmeta.size) (hdec : dec (enc len) = len)
    (ws : List (Nat × Nat))
    (hws : ∀ w ∈ ws,
      (headerPtr hdr (valuePtr block p) ≤ w.1 ∧ w.1 < valuePtr block p) ∨
      (valuePtr block p ≤ w.1 ∧ w.1 < valuePtr block p + p.value.size)) :
    (∀ f : FatPtr, fromThin (toThin f) f.len = f) ∧
      (∀ a l, toThin (fromThin a l) = a ∧ (fromThin a l).len = l) ∧
      fatPtr (applyWrites (writeCells m0 (metaPtr p.mhl (valuePtr block p)) (enc len)) ws)
          dec p.mhl k.pmeta (toThin ⟨valuePtr block p, len⟩) = ⟨valuePtr block p, len⟩ := by
  refine ⟨fun f => rfl, fun a l => ⟨rfl, rfl⟩, ?_⟩
  have := (dealloc_same_layout maxSize hdr k len p block hk hh h m0 enc dec henc hdec ws hws).1
  unfold fatPtr toThin fromThin
  simp only
  rw [this]

/-- No step of the collector or mutator moves or damages a value: writes confined to the header
    (colour, flags, `next`) leave every byte of the value extent and of the metadata slot
    unchanged, and writes confined to the value extent leave the header and metadata unchanged.
    (Addresses are never recomputed: the value stays at `valuePtr block p`.) -/
theorem stable (maxSize : Nat) (hdr : Layout) (k : PtrKind) (ptrMeta : Nat) (p : Plan)
    (block : Nat) (hk : k.Ok maxSize) (hh : IsTypeLayout maxSize hdr)
    (h : gcAlloc maxSize hdr k ptrMeta = some p) (m : Nat → Nat) (ws : List (Nat × Nat)) :
    ((∀ w ∈ ws, headerPtr hdr (valuePtr block p) ≤ w.1 ∧ w.1 < valuePtr block p) →
        readCells (applyWrites m ws) (valuePtr block p) p.value.size =
          readCells m (valuePtr block p) p.value.size ∧
        readCells (applyWrites m ws) (metaPtr p.mhl (valuePtr block p)) k.pmeta.size =
          readCells m (metaPtr p.mhl (valuePtr block p)) k.pmeta.size) ∧
      ((∀ w ∈ ws, valuePtr block p ≤ w.1 ∧ w.1 < valuePtr block p + p.value.size) →
        readCells (applyWrites m ws) (headerPtr hdr (valuePtr block p)) hdr.size =
          readCells m (headerPtr hdr (valuePtr block p)) hdr.size ∧
        readCells (applyWrites m ws) (metaPtr p.mhl (valuePtr block p)) k.pmeta.size =
          readCells m (metaPtr p.mhl (valuePtr block p)) k.pmeta.size) := by
  obtain ⟨_, hd2, hd3, _⟩ := disjoint maxSize hdr k ptrMeta p block hk hh h
  refine ⟨fun hws => ⟨?_, ?_⟩, fun hws => ⟨?_, ?_⟩⟩ <;>
  · apply readCells_congr
    intro a h1 h2
    apply applyWrites_outside
    intro w hw e
    have := hws w hw
    omega

/-- `SliceWithHeader::layout(len)` is large and aligned enough for the `#[repr(C)]` value: the
    header field at offset 0 ends before the slice field, every element `i < len` lies inside
    the value at an address aligned for `E`, the value alignment serves both `H` and `E`, and the
    size is padded to the alignment. -/
theorem slice_layout_sound (maxSize : Nat) (h e v : Layout) (len : Nat)
    (hh : IsTypeLayout maxSize h) (he : IsTypeLayout maxSize e)
    (hs : sliceWithHeaderLayout maxSize h e len = some v) :
    v.align = max h.align e.align ∧ h.align ∣ v.align ∧ e.align ∣ v.align ∧
      v.size % v.align = 0 ∧ h.size ≤ sliceFieldOff h e ∧
      (∀ i, i < len → (sliceFieldOff h e + e.size * i) % e.align = 0 ∧
        sliceFieldOff h e + e.size * i + e.size ≤ v.size) := by
  obtain ⟨l, hl, rfl, hle, _⟩ := sliceWithHeaderLayout_eq_some he hs
  subst hle
  have hha := hh.1.1
  have hea := he.1.1
  have hge := roundUp_ge (sliceFieldOff h e + e.size * len) (max h.align e.align)
    (isPow2_pos (isPow2_max hha hea))
  refine ⟨rfl, dvd_max_left hha hea, dvd_max_right hha hea, roundUp_mod _ _,
    roundUp_ge _ _ (isPow2_pos hea), fun i hi => ⟨?_, ?_⟩⟩
  · exact mod_zero_of_dvd_add (roundUp_dvd _ _)
      (Nat.dvd_trans (Nat.dvd_of_mod_eq_zero he.2) (Nat.dvd_mul_right _ _))
  · have : e.size * i + e.size ≤ e.size * len := by
      rw [← Nat.mul_succ]; exact Nat.mul_le_mul_left _ hi
    show sliceFieldOff h e + e.size * i + e.size ≤
      roundUp (sliceFieldOff h e + e.size * len) (max h.align e.align)
    omega

/-- `Layout::from_size_align`'s test `size ≤ isize::MAX − (align − 1)` is the `isize::MAX`
    rounding rule: it holds exactly when the size rounded up to the alignment is at most
    `maxSize` (for `maxSize + 1` a power of two, as `isize::MAX + 1` is). -/
theorem from_size_align_rounding_rule (maxSize size align : Nat)
    (hmax : isPow2 (maxSize + 1) = true) (ha : isPow2 align = true) (hle : align ≤ maxSize + 1) :
    (fromSizeAlign maxSize size align).isSome = true ↔ roundUp size align ≤ maxSize := by
  have hpos := isPow2_pos ha
  have hd : align ∣ maxSize + 1 := isPow2_dvd ha hmax hle
  have hd2 : align ∣ maxSize + 1 - align := Nat.dvd_sub hd (Nat.dvd_refl _)
  unfold fromSizeAlign
  constructor
  · intro h
    split at h
    · rename_i hv
      have := roundUp_le_of_dvd size align (maxSize + 1 - align) hpos hd2 (by omega)
      omega
    · cases h
  · intro h
    have := roundUp_ge size align hpos
    -- the rounded size is a multiple of `align` below `maxSize + 1`, hence at most `maxSize+1-align`
    have hle2 : roundUp size align + align ≤ maxSize + 1 := by
      obtain ⟨c, hc⟩ := roundUp_dvd size align
      obtain ⟨d, hdd⟩ := hd
      have hcd : c < d :=
        Nat.lt_of_mul_lt_mul_left (a := align) (by rw [← hc, ← hdd]; omega)
      have h3 : align * (c + 1) ≤ align * d := Nat.mul_le_mul_left _ hcd
      rw [Nat.mul_succ, ← hc, ← hdd] at h3
      exact h3
    rw [if_pos ⟨ha, by omega⟩]
    rfl

/-- The masks used by `GcHeader` pass the compile-time checks of `tagged_ptr` and do not
    overlap. -/
theorem tag_masks_valid :
    isValidMask colorMask = true ∧ isValidMask needsTraceMask = true ∧
      isValidMask liveMask = true ∧ isBooleanMask needsTraceMask = true ∧
      isBooleanMask liveMask = true ∧ colorMask &&& needsTraceMask = 0 ∧
      colorMask &&& liveMask = 0 ∧ needsTraceMask &&& liveMask = 0 ∧
      colorMask ||| needsTraceMask ||| liveMask = vtableAlign - 1 := by
  decide

/-- On an arbitrary header word, each setter changes only its own field: `set_color` keeps
    `needs_trace`, `is_live` and the vtable; `set_needs_trace` keeps colour, `is_live`, vtable;
    `set_live` keeps colour, `needs_trace`, vtable; and each getter reads back what was set. -/
theorem tag_fields_independent (bits w c : Nat) (b : Bool) (hb : 4 ≤ bits) (hw : w < 2 ^ bits)
    (hc : c < 4) :
    (hdrColor (hdrSetColor bits w c) = c ∧
      hdrNeedsTrace (hdrSetColor bits w c) = hdrNeedsTrace w ∧
      hdrIsLive (hdrSetColor bits w c) = hdrIsLive w ∧
      untag bits (hdrSetColor bits w c) = untag bits w ∧ hdrSetColor bits w c < 2 ^ bits) ∧
    (hdrNeedsTrace (hdrSetNeedsTrace bits w b) = b ∧
      hdrColor (hdrSetNeedsTrace bits w b) = hdrColor w ∧
      hdrIsLive (hdrSetNeedsTrace bits w b) = hdrIsLive w ∧
      untag bits (hdrSetNeedsTrace bits w b) = untag bits w ∧
      hdrSetNeedsTrace bits w b < 2 ^ bits) ∧
    (hdrIsLive (hdrSetLive bits w b) = b ∧
      hdrColor (hdrSetLive bits w b) = hdrColor w ∧
      hdrNeedsTrace (hdrSetLive bits w b) = hdrNeedsTrace w ∧
      untag bits (hdrSetLive bits w b) = untag bits w ∧ hdrSetLive bits w b < 2 ^ bits) := by
  obtain ⟨v, t, rfl, ht⟩ := word_split w
  obtain ⟨⟨c1, c2, c3⟩, ⟨n1, n2, n3⟩, ⟨l1, l2, l3⟩⟩ := nib_facts b t ht c hc
  have bc : (t &&& (15 ^^^ 3) ||| (c &&& 3)) < 16 :=
    nib_or_lt ht (Nat.lt_of_le_of_lt Nat.and_le_right (by decide))
  have bn : (t &&& (15 ^^^ 4) ||| (if b = true then 4 else 0)) < 16 :=
    nib_or_lt ht (by cases b <;> decide)
  have bl : (t &&& (15 ^^^ 8) ||| (if b = true then 8 else 0)) < 16 :=
    nib_or_lt ht (by cases b <;> decide)
  have ec := hdrSetColor_split (c := c) hb hw ht
  have en : hdrSetNeedsTrace bits (16 * v + t) b = _ :=
    tagSetBool_split (b := b) (mask := 4) hb hw ht (by decide)
  have el : hdrSetLive bits (16 * v + t) b = _ :=
    tagSetBool_split (b := b) (mask := 8) hb hw ht (by decide)
  rw [ec, en, el]
  rw [untag_split hb (split_lt hb hw bc) bc, untag_split hb (split_lt hb hw bn) bn,
    untag_split hb (split_lt hb hw bl) bl, untag_split hb hw ht]
  unfold hdrColor hdrNeedsTrace hdrIsLive tagGet tagGetBool needsTraceMask liveMask colorMask
  simp only [lowAnd v _ 3 bc (by decide), lowAnd v _ 4 bc (by decide), lowAnd v _ 8 bc (by decide),
    lowAnd v _ 3 bn (by decide), lowAnd v _ 4 bn (by decide), lowAnd v _ 8 bn (by decide),
    lowAnd v _ 3 bl (by decide), lowAnd v _ 4 bl (by decide), lowAnd v _ 8 bl (by decide),
    lowAnd v t 3 ht (by decide), lowAnd v t 4 ht (by decide), lowAnd v t 8 ht (by decide)]
  exact ⟨⟨c1, c2, c3, trivial, split_lt hb hw bc⟩, ⟨n1, n2, n3, trivial, split_lt hb hw bn⟩,
    ⟨l1, l2, l3, trivial, split_lt hb hw bl⟩⟩

/-- For every 16-aligned vtable address below `2^bits`, the header word built by `new`,
    `set_needs_trace`, `set_live`, `set_color` decodes to exactly the colour, `needs_trace` and
    `is_live` that were set, and `untag` returns the original vtable address. -/
theorem tag_bits (bits vtable color : Nat) (needsTrace live : Bool) (hb : 4 ≤ bits)
    (hv : vtable < 2 ^ bits) (ha : vtable % vtableAlign = 0) (hc : color < 4) :
    untag bits (hdrWord bits vtable color needsTrace live) = vtable ∧
      hdrColor (hdrWord bits vtable color needsTrace live) = color ∧
      hdrNeedsTrace (hdrWord bits vtable color needsTrace live) = needsTrace ∧
      hdrIsLive (hdrWord bits vtable color needsTrace live) = live ∧
      hdrWord bits vtable color needsTrace live < 2 ^ bits := by
  have hu : untag bits vtable = vtable := by
    obtain ⟨v, t, rfl, ht⟩ := word_split vtable
    have ht0 : t = 0 := by unfold vtableAlign at ha; omega
    subst ht0
    exact untag_split hb hv (by decide)
  unfold hdrWord hdrNew
  obtain ⟨_, ⟨n1, _, _, n4, n5⟩, _⟩ :=
    tag_fields_independent bits vtable 0 needsTrace hb hv (by decide)
  obtain ⟨_, _, ⟨l1, _, l3, l4, l5⟩⟩ :=
    tag_fields_independent bits (hdrSetNeedsTrace bits vtable needsTrace) 0 live hb n5 (by decide)
  obtain ⟨⟨c1, c2, c3, c4, c5⟩, _, _⟩ :=
    tag_fields_independent bits (hdrSetLive bits (hdrSetNeedsTrace bits vtable needsTrace) live)
      color false hb l5 hc
  exact ⟨by rw [c4, l4, n4, hu], c1, by rw [c2, l3, n1], by rw [c3, l1], c5⟩

/-! ## The collector's bookkeeping writes never touch the value

`stable` and `dealloc_same_layout` above are frame lemmas: they *assume* (`hws`) that writes fall
inside the header or the value extent.  The theorems below discharge that assumption for the
writes the crate actually performs on an allocated block — `CollectorWrite` in
`GcArena.Model.Layout`: the two stores of `GcPtr::alloc` (`meta_ptr.write(ptr_meta)`,
`header_ptr.write(GcHeader::new(..))`) and the four `&self` mutators of `GcHeader` (`set_color`,
`set_needs_trace`, `set_live` on the tagged vtable word, `set_next` on the `next` word), each
modelled as a store of bytes at `value_ptr − size_of::<GcHeader>() + field offset`.  The field
offsets are arbitrary (`HeaderFields`, `repr(Rust)` field order is not fixed) subject only to
`HeaderFields.Fits` (a field lies inside its struct).

What ties `CollectorWrite` to the code (modelled, not verified — DESIGN §9):
* grep-level fact about /repo/src (checkable with `grep -n '\.write(\|\.set(\|\.update(' src/gc_ptr.rs`
  and `grep -rn GcHeader src | grep -v gc_ptr.rs`): `GcHeader` is named in no file other than
  `gc_ptr.rs`; its fields `next` and `tagged_vtable` are private; the only `.set(` / `.update(` on
  them are the bodies of `set_next`, `set_color`, `set_needs_trace`, `set_live` (4 sites), and the
  only raw `.write(` in `gc_ptr.rs` are the two lines of `GcPtr::alloc`.  Every other module
  (`context.rs`, `gc.rs`) reaches a header only as `&GcHeader` through `GcPtr::header()`, i.e.
  only through those four setters;
* the correspondence harness (`harness_layout`, `lib/eng_layout.py`): the allocator pre-fills
  every block, so the bytes the crate stored before the value is initialised are observed
  (`written …` of the canonical answer: exactly metadata slot ∪ header); a byte pattern over the
  whole value extent is re-read after each of several `finish_cycle`s and after barriers;
  guard bytes around every block are checked on release and at the end of each case; the raw
  tagged word is read from the header in every reachable state (`tag …` cases).
-/

/-- Every store of every `CollectorWrite` on a block laid out by `gcAlloc` lies inside the block
    and strictly in front of the value extent: the four header mutators and `GcHeader::new`
    store inside the header extent `[headerPtr, valuePtr)` (one word at the field's offset), the
    allocation-time metadata store inside the metadata slot, which ends before the header
    starts.  The header extent ends where the value extent begins, so it is disjoint from it. -/
theorem collector_writes_in_header (maxSize : Nat) (hdr : Layout) (k : PtrKind) (ptrMeta : Nat)
    (p : Plan) (block : Nat) (hk : k.Ok maxSize) (hh : IsTypeLayout maxSize hdr)
    (h : gcAlloc maxSize hdr k ptrMeta = some p) (f : HeaderFields) (hf : f.Fits hdr) (bits : Nat)
    (m : Nat → Nat) (w : CollectorWrite) :
    ∀ s ∈ w.stores f bits hdr p.mhl k.pmeta (valuePtr block p) m,
      ((∀ enc, w ≠ .writeMeta enc) →
        headerPtr hdr (valuePtr block p) ≤ s.lo ∧ s.lo + s.bytes.length ≤ valuePtr block p) ∧
      ((∃ enc, w = .writeMeta enc) →
        metaPtr p.mhl (valuePtr block p) ≤ s.lo ∧
        s.lo + s.bytes.length ≤ metaPtr p.mhl (valuePtr block p) + k.pmeta.size ∧
        s.lo + s.bytes.length ≤ headerPtr hdr (valuePtr block p)) ∧
      block ≤ s.lo ∧ s.lo + s.bytes.length ≤ valuePtr block p ∧
      (∀ a, valuePtr block p ≤ a → a < valuePtr block p + p.value.size →
        ¬ (s.lo ≤ a ∧ a < s.lo + s.bytes.length)) := by
  obtain ⟨d1, d2, d3, _⟩ := disjoint maxSize hdr k ptrMeta p block hk hh h
  have hmh : metaPtr p.mhl (valuePtr block p) ≤ headerPtr hdr (valuePtr block p) := by omega
  intro s hs
  cases w with
  | writeMeta enc =>
    simp only [CollectorWrite.stores, List.mem_singleton] at hs
    subst hs
    have hl : (enc.take k.pmeta.size).length ≤ k.pmeta.size := by
      rw [List.length_take]; exact Nat.min_le_left _ _
    refine ⟨fun hne => absurd rfl (hne enc), fun _ => ⟨Nat.le_refl _, by simp only; omega, by simp only; omega⟩,
      by simp only; omega, by simp only; omega, fun a h1 h2 => by simp only; omega⟩
  | headerNew vt =>
    obtain ⟨f1, f2⟩ := hf
    simp only [CollectorWrite.stores, List.mem_cons, List.mem_nil_iff, or_false] at hs
    rcases hs with hs | hs <;> subst hs <;> simp only [wordBytes_length] <;>
    · refine ⟨fun _ => by omega, (fun ⟨_, he⟩ => by cases he), by omega, by omega,
        fun a h1 h2 => by omega⟩
  | header hw =>
    simp only [CollectorWrite.stores, List.mem_singleton] at hs
    subst hs
    obtain ⟨b1, b2, _, _⟩ := HeaderWrite.store_in_header hf bits (headerPtr hdr (valuePtr block p)) m hw
    refine ⟨fun _ => by omega, (fun ⟨_, he⟩ => by cases he), by omega, by omega,
      fun a h1 h2 => by omega⟩

/-- Any sequence of collector writes — any number of collections, barriers, links, with whatever
    colours, flags and `next` pointers — leaves every byte of the value extent unchanged; indeed
    it changes no address at or above the value pointer and none below the block.  There is no
    hypothesis about where the writes fall: that is `collector_writes_in_header`.  The value's
    address is `valuePtr block p`, a function of the block and the plan alone; no collector write
    takes part in computing it, so it is fixed. -/
theorem stable_under_collector_writes (maxSize : Nat) (hdr : Layout) (k : PtrKind) (ptrMeta : Nat)
    (p : Plan) (block : Nat) (hk : k.Ok maxSize) (hh : IsTypeLayout maxSize hdr)
    (h : gcAlloc maxSize hdr k ptrMeta = some p) (f : HeaderFields) (hf : f.Fits hdr) (bits : Nat)
    (m : Nat → Nat) (ws : List CollectorWrite) :
    (∀ a, valuePtr block p ≤ a →
      runCollector f bits hdr p.mhl k.pmeta (valuePtr block p) m ws a = m a) ∧
    (∀ a, a < block →
      runCollector f bits hdr p.mhl k.pmeta (valuePtr block p) m ws a = m a) ∧
    readCells (runCollector f bits hdr p.mhl k.pmeta (valuePtr block p) m ws)
        (valuePtr block p) p.value.size = readCells m (valuePtr block p) p.value.size := by
  have key : ∀ a, (valuePtr block p ≤ a ∨ a < block) →
      runCollector f bits hdr p.mhl k.pmeta (valuePtr block p) m ws a = m a := by
    intro a ha
    induction ws generalizing m with
    | nil => rfl
    | cons w ws ih =>
      unfold runCollector
      rw [ih]
      unfold CollectorWrite.apply
      apply foldl_run_outside
      intro s hs
      obtain ⟨_, _, c1, c2, _⟩ :=
        collector_writes_in_header maxSize hdr k ptrMeta p block hk hh h f hf bits m w s hs
      omega
  refine ⟨fun a ha => key a (Or.inl ha), fun a ha => key a (Or.inr ha), ?_⟩
  apply readCells_congr
  intro a h1 _
  exact key a (Or.inl h1)

/-- `dealloc_same_layout` without any hypothesis about where writes fall, for every history of an
    allocated block: `GcPtr::alloc` stores the metadata and the header, then the collector's
    header mutators and the mutator's stores into the value interleave in any order and number;
    the metadata read back by the `dealloc` vtable entry is still the metadata stored at
    allocation, the recomputed layout is the requested one and the pointer handed to
    `alloc::dealloc` is the block start. -/
theorem dealloc_same_layout_collector_history (maxSize : Nat) (hdr : Layout) (k : PtrKind)
    (ptrMeta : Nat) (p : Plan) (block : Nat) (hk : k.Ok maxSize) (hh : IsTypeLayout maxSize hdr)
    (h : gcAlloc maxSize hdr k ptrMeta = some p) (f : HeaderFields) (hf : f.Fits hdr) (bits : Nat)
    (m0 : Nat → Nat) (enc : Nat → List Nat) (dec : List Nat → Nat)
    (henc : (enc ptrMeta).length = k.pmeta.size) (hdec : dec (enc ptrMeta) = ptrMeta)
    (vtable : Nat) (hist : List BlockWrite) :
    readPtrMeta
        (runHistory f bits hdr p.value (valuePtr block p)
          (afterAlloc f bits hdr p.mhl k.pmeta (valuePtr block p) m0 (enc ptrMeta) vtable) hist)
        dec p.mhl k.pmeta (valuePtr block p) = ptrMeta ∧
      gcDealloc maxSize hdr k (valuePtr block p)
        (readPtrMeta
          (runHistory f bits hdr p.value (valuePtr block p)
            (afterAlloc f bits hdr p.mhl k.pmeta (valuePtr block p) m0 (enc ptrMeta) vtable) hist)
          dec p.mhl k.pmeta (valuePtr block p)) = some (block, p.alloc) := by
  obtain ⟨d1, d2, d3, _⟩ := disjoint maxSize hdr k ptrMeta p block hk hh h
  -- a post-allocation write never touches the metadata slot
  have hist_frame : ∀ (m : Nat → Nat) (a : Nat), a < headerPtr hdr (valuePtr block p) →
      runHistory f bits hdr p.value (valuePtr block p) m hist a = m a := by
    intro m a ha
    induction hist generalizing m with
    | nil => rfl
    | cons w ws ih =>
      unfold runHistory
      rw [ih]
      cases w with
      | collector hw =>
        obtain ⟨b1, _, _, _⟩ :=
          HeaderWrite.store_in_header hf bits (headerPtr hdr (valuePtr block p)) m hw
        exact Store.run_outside m _ a (Or.inl (by omega))
      | mutator off byte =>
        simp only [BlockWrite.apply]
        split
        · exact writeCells_outside m _ _ a (Or.inl (by omega))
        · rfl
  -- after allocation the metadata slot holds the encoded metadata
  have halloc : ∀ a, metaPtr p.mhl (valuePtr block p) ≤ a →
      a < metaPtr p.mhl (valuePtr block p) + k.pmeta.size →
      afterAlloc f bits hdr p.mhl k.pmeta (valuePtr block p) m0 (enc ptrMeta) vtable a =
        writeCells m0 (metaPtr p.mhl (valuePtr block p)) (enc ptrMeta) a := by
    intro a h1 h2
    obtain ⟨f1, f2⟩ := hf
    have htake : (enc ptrMeta).take k.pmeta.size = enc ptrMeta := by
      rw [← henc]; exact List.take_length
    simp only [afterAlloc, runCollector, CollectorWrite.apply, CollectorWrite.stores,
      List.foldl_cons, List.foldl_nil, Store.run, htake]
    rw [writeCells_outside _ _ _ a (Or.inl (by omega)),
      writeCells_outside _ _ _ a (Or.inl (by omega))]
  have hread : readPtrMeta
      (runHistory f bits hdr p.value (valuePtr block p)
        (afterAlloc f bits hdr p.mhl k.pmeta (valuePtr block p) m0 (enc ptrMeta) vtable) hist)
      dec p.mhl k.pmeta (valuePtr block p) = ptrMeta := by
    unfold readPtrMeta
    rw [readCells_congr _ (writeCells m0 (metaPtr p.mhl (valuePtr block p)) (enc ptrMeta)),
      ← henc, readCells_writeCells, hdec]
    intro a h1 h2
    rw [hist_frame _ a (by omega)]
    exact halloc a h1 h2
  refine ⟨hread, ?_⟩
  rw [hread]
  have := (dealloc_same_layout maxSize hdr k ptrMeta p block hk hh h m0 enc dec henc hdec []
    (fun w hw => by cases hw)).2
  rw [(dealloc_same_layout maxSize hdr k ptrMeta p block hk hh h m0 enc dec henc hdec []
    (fun w hw => by cases hw)).1] at this
  exact this

/-- The stores are what the setters compute: after a header mutator, the tagged word read back
    from memory is `hdrSetColor` / `hdrSetNeedsTrace` / `hdrSetLive` of the word that was there
    (so `tag_fields_independent` applies to the word in memory), and `set_next` stores its
    argument; `bits = 8 · word`. -/
theorem header_write_reads_back (f : HeaderFields) (hp : Nat) (m : Nat → Nat) (w : HeaderWrite)
    (hb : 4 ≤ 8 * f.word) (hold : readWord m (hp + f.vtableOff) f.word < 2 ^ (8 * f.word)) :
    match w with
    | .setColor c => c < 4 →
        readWord ((w.store f (8 * f.word) hp m).run m) (hp + f.vtableOff) f.word =
          hdrSetColor (8 * f.word) (readWord m (hp + f.vtableOff) f.word) c
    | .setNeedsTrace b =>
        readWord ((w.store f (8 * f.word) hp m).run m) (hp + f.vtableOff) f.word =
          hdrSetNeedsTrace (8 * f.word) (readWord m (hp + f.vtableOff) f.word) b
    | .setLive b =>
        readWord ((w.store f (8 * f.word) hp m).run m) (hp + f.vtableOff) f.word =
          hdrSetLive (8 * f.word) (readWord m (hp + f.vtableOff) f.word) b
    | .setNext n => n < 2 ^ (8 * f.word) →
        readWord ((w.store f (8 * f.word) hp m).run m) (hp + f.nextOff) f.word = n := by
  have h256 : (256 : Nat) ^ f.word = 2 ^ (8 * f.word) := by
    rw [show (256 : Nat) = 2 ^ 8 from rfl, ← Nat.pow_mul]
  have rb : ∀ a x, x < 2 ^ (8 * f.word) →
      readWord (writeCells m a (wordBytes f.word x)) a f.word = x := by
    intro a x hx
    unfold readWord
    have := readCells_writeCells m a (wordBytes f.word x)
    rw [wordBytes_length] at this
    rw [this, bytesWord_wordBytes _ _ (by rw [h256]; exact hx)]
  cases w with
  | setColor c =>
    intro hc
    exact rb _ _ (tag_fields_independent _ _ c false hb hold hc).1.2.2.2.2
  | setNeedsTrace b =>
    exact rb _ _ (tag_fields_independent _ _ 0 b hb hold (by decide)).2.1.2.2.2.2
  | setLive b =>
    exact rb _ _ (tag_fields_independent _ _ 0 b hb hold (by decide)).2.2.2.2.2.2
  | setNext n =>
    intro hn
    exact rb _ _ hn

/-! ## `[E]` and `str` allocated directly through `SlicePtrMeta` / `StrPtrMeta`

`GcBuilder::<[E], M, SlicePtrMeta>::new_with_type_and_ptr_meta(len)` (and the `str` analogue) is
the one path on which `SlicePtrMeta::layout` / `StrPtrMeta::layout` size the block — the crate's
own slice / str constructors allocate through `SliceWithHeaderPtrMeta` and only re-label the
pointer.  `sliceKind` / `strKind` are the models of those two impls
(`SliceWithHeader::<(), E>::layout(len)`); harness families `dst slice-direct` / `dst str-direct`. -/

/-- A `[E]` of length `len` allocated directly through `SlicePtrMeta` has room for all `len`
    elements: the value layout is at least `len · size_of::<E>()` bytes at `E`'s alignment, and
    every element `i < len` lies at an address aligned for `E`, behind the `GcHeader`, inside the
    block the allocator handed out. -/
theorem slice_direct_value_fits (maxSize word : Nat) (hdr e : Layout) (len : Nat) (p : Plan)
    (block : Nat) (hmax : isPow2 (maxSize + 1) = true) (hw : IsTypeLayout maxSize ⟨word, word⟩)
    (he : IsTypeLayout maxSize e) (hh : IsTypeLayout maxSize hdr)
    (h : gcAlloc maxSize hdr (sliceKind maxSize word e) len = some p)
    (hb : block % p.alloc.align = 0) :
    e.size * len ≤ p.value.size ∧ p.value.align = e.align ∧
      (∀ i, i < len →
        (valuePtr block p + e.size * i) % e.align = 0 ∧
        headerPtr hdr (valuePtr block p) + hdr.size ≤ valuePtr block p + e.size * i ∧
        valuePtr block p + e.size * i + e.size ≤ block + p.alloc.size) := by
  have hk : (sliceKind maxSize word e).Ok maxSize := sliceWithHeaderKind_ok hmax hw he
  obtain ⟨hv, hva, _⟩ := value_aligned maxSize hdr _ len p block hk hh h hb
  obtain ⟨_, _, d3, d4⟩ := disjoint maxSize hdr _ len p block hk hh h
  have hs : sliceWithHeaderLayout maxSize unitLayout e len = some p.value := hv
  obtain ⟨s1, _, _, _, _, s6⟩ := slice_layout_sound maxSize unitLayout e p.value len
    (unitLayout_type maxSize) he hs
  have hoff : sliceFieldOff unitLayout e = 0 := by
    unfold sliceFieldOff roundUp unitLayout
    rcases Nat.eq_zero_or_pos e.align with hz | hpos
    · rw [hz]; simp
    · simp only [Nat.zero_add]
      rw [Nat.div_eq_of_lt (by omega), Nat.zero_mul]
  have hea : 1 ≤ e.align := isPow2_pos he.1.1
  have halign : p.value.align = e.align := by
    rw [s1]; unfold unitLayout; exact Nat.max_eq_right hea
  have hsize : e.size * len ≤ p.value.size := by
    obtain ⟨l, _, hpad, hl, _⟩ := sliceWithHeaderLayout_eq_some he hs
    rw [hpad, hl, hoff]
    have := roundUp_ge (0 + e.size * len) (max unitLayout.align e.align)
      (isPow2_pos (isPow2_max (unitLayout_type maxSize).1.1 he.1.1))
    unfold padToAlign
    simp only at this ⊢
    omega
  refine ⟨hsize, halign, fun i hi => ?_⟩
  obtain ⟨a1, a2⟩ := s6 i hi
  rw [hoff] at a1 a2
  rw [halign] at hva
  refine ⟨?_, by omega, by omega⟩
  have h1 : e.align ∣ valuePtr block p := Nat.dvd_of_mod_eq_zero hva
  have h2 : e.align ∣ e.size * i := by
    have := Nat.dvd_of_mod_eq_zero a1
    simpa using this
  exact mod_zero_of_dvd_add h1 h2

/-- A `str` of length `len` allocated directly through `StrPtrMeta` has room for its `len`
    bytes, behind the `GcHeader` and inside the block. -/
theorem str_direct_value_fits (maxSize word : Nat) (hdr : Layout) (len : Nat) (p : Plan)
    (block : Nat) (hmax : isPow2 (maxSize + 1) = true) (hw : IsTypeLayout maxSize ⟨word, word⟩)
    (hbyte : IsTypeLayout maxSize byteLayout) (hh : IsTypeLayout maxSize hdr)
    (h : gcAlloc maxSize hdr (strKind maxSize word) len = some p)
    (hb : block % p.alloc.align = 0) :
    len ≤ p.value.size ∧
      (∀ i, i < len →
        headerPtr hdr (valuePtr block p) + hdr.size ≤ valuePtr block p + i ∧
        valuePtr block p + i + 1 ≤ block + p.alloc.size) := by
  obtain ⟨s1, _, s3⟩ := slice_direct_value_fits maxSize word hdr byteLayout len p block hmax hw
    hbyte hh h hb
  have hb1 : byteLayout.size = 1 := rfl
  rw [hb1, Nat.one_mul] at s1
  refine ⟨s1, fun i hi => ?_⟩
  obtain ⟨_, a2, a3⟩ := s3 i hi
  rw [hb1, Nat.one_mul] at a2 a3
  exact ⟨a2, a3⟩

/-! ## Non-vacuity: the hypotheses are satisfiable and the model computes the expected numbers -/

/-- 64-bit target: `isize::MAX`, `GcHeader` = two words. -/
example : isPow2 (2 ^ 63 - 1 + 1) = true ∧ IsTypeLayout (2 ^ 63 - 1) ⟨16, 8⟩ := by decide

/-- The built-in kinds satisfy the hypothesis `PtrKind.Ok` of every theorem above. -/
example : (sizedKind ⟨24, 8⟩).Ok (2 ^ 63 - 1) ∧
    (customKind ⟨32, 32⟩ ⟨3, 1⟩).Ok (2 ^ 63 - 1) ∧
    (sliceWithHeaderKind (2 ^ 63 - 1) 8 ⟨1, 1⟩ ⟨4, 4⟩).Ok (2 ^ 63 - 1) ∧
    (strKind (2 ^ 63 - 1) 8).Ok (2 ^ 63 - 1) :=
  ⟨sizedKind_ok (by decide), customKind_ok (by decide) (by decide),
    sliceWithHeaderKind_ok (by decide) (by decide) (by decide),
    sliceWithHeaderKind_ok (by decide) (by decide) (by decide)⟩

/-- The declaration-order field layout of a two-word `GcHeader` fits the header layout. -/
example : (declOrderFields 8).Fits ⟨16, 8⟩ := by decide

/-- A black, traced, live header word written through `set_color` reads back from memory. -/
example : readWord (((HeaderWrite.setColor 3).store (declOrderFields 8) 64 1000
      (writeCells (fun _ => 0) 1008 (wordBytes 8 0x100c))).run
      (writeCells (fun _ => 0) 1008 (wordBytes 8 0x100c))) 1008 8 = 0x100f := by decide

/-- `[u32]` of length 5 allocated directly through `SlicePtrMeta`: 20 value bytes behind the
    24-byte metadata + header prefix. -/
example : gcAlloc (2 ^ 63 - 1) ⟨16, 8⟩ (sliceKind (2 ^ 63 - 1) 8 ⟨4, 4⟩) 5 =
    some { alloc := ⟨44, 8⟩, valueOff := 24, mhl := ⟨24, 8⟩, value := ⟨20, 4⟩ } := by decide

/-- A `u8` value: 16-byte header, value at offset 16, block of 17 bytes aligned 8. -/
example : gcAlloc (2 ^ 63 - 1) ⟨16, 8⟩ (sizedKind ⟨1, 1⟩) 0 =
    some { alloc := ⟨17, 8⟩, valueOff := 16, mhl := ⟨16, 8⟩, value := ⟨1, 1⟩ } := by decide

/-- A 64-aligned value: padding goes in front of the header. -/
example : gcAlloc (2 ^ 63 - 1) ⟨16, 8⟩ (sizedKind ⟨64, 64⟩) 0 =
    some { alloc := ⟨128, 64⟩, valueOff := 64, mhl := ⟨16, 8⟩, value := ⟨64, 64⟩ } := by decide

/-- `SliceWithHeader<u8, u32>` of length 3: metadata slot (`usize`) in front of the header. -/
example : gcAlloc (2 ^ 63 - 1) ⟨16, 8⟩ (sliceWithHeaderKind (2 ^ 63 - 1) 8 ⟨1, 1⟩ ⟨4, 4⟩) 3 =
    some { alloc := ⟨40, 8⟩, valueOff := 24, mhl := ⟨24, 8⟩, value := ⟨16, 4⟩ } := by decide

/-- A length that overflows: no plan, the allocation panics. -/
example : gcAlloc (2 ^ 63 - 1) ⟨16, 8⟩ (strKind (2 ^ 63 - 1) 8) (2 ^ 63 - 8) = none := by decide

/-- Tag word of a black, traced, live object whose vtable is at `0x1000`. -/
example : hdrWord 64 0x1000 3 true true = 0x100f := by decide

end GcArena.C17
