import GcArena.Proofs.CallGraphDefs
/-!
# C03 (structural half) — collection work is out of reach of a running callback

Statements about the call graph extracted from the current source tree
(`GcArena/Generated/CallGraph.lean`: explicit calls resolved by name — an over-approximation —,
calls through the vtable's fn-pointer fields, implicit `Drop` calls).  Node sets are bit masks
(`GcArena.CallGraphM`).  The dynamic half (`GcArena.Props.C03`) is about the collector model.
Trusted: Rust's borrow rules (a callback of arena `A` cannot hold `&mut A`, `A` by value or a
`MarkedArena` of `A`), and the translator's name resolution.
-/
namespace GcArena.C03s
open GcArena.CallGraphM GcArena.Generated.CallGraph GcArena.CallGraphDefs

/-- The extraction classified everything it met, and the structural anchors of the statements
below exist (so that a refactoring makes the check fail rather than pass vacuously): at least one
collector driver, at least one node calling a primitive destructor outside the builder `Drop`
impls, at least one builder `Drop` impl and one callback-side entry point.  No function *name* is
required (pinned identifiers: the type names `Arena`, `MarkedArena`, `Context`, and the
`…Builder` suffix of the builder types). -/
theorem names_present :
    unclassified = [] ∧ fns.length = adj.length ∧
    count doCollection fns.length ≥ 1 ∧
    (maskOf primDestructive &&& (maskOf primDestructive ^^^ builderDrops)) ≠ 0 ∧
    builderDrops ≠ 0 ∧ callbackRoots ≠ 0 := by decide +kernel

/-- From no function that client code can call (or implicitly run) while a callback is running
— everything public except `&mut self` / by-value methods of `Arena`, everything on `MarkedArena`,
and the constructors of *other* arenas — can the collector driver (`do_collection`) or any function that directly calls a primitive
destructor / deallocator (the vtable's `drop_value` / `dealloc` entries among them — hence
`sweep_one`, the arena destructor, `GcPtr::drop_in_place` / `dealloc`, whatever they are called)
be reached.  The outgoing edges of the
builder types' `Drop` impls are cut: they release a block that was never linked (property C18). -/
theorem callgraph (r d : Nat) (hr : callbackRoots.testBit r = true)
    (hd : destructive.testBit d = true) : ¬ Reach adj builderDrops r d := by
  intro h
  have hclosed : closedB adj builderDrops callbackClosure = true := by decide +kernel
  have hroots : (callbackRoots &&& callbackClosure) = callbackRoots := by decide +kernel
  have hdis : (destructive &&& callbackClosure) = 0 := by decide +kernel
  have hr' : callbackClosure.testBit r = true := mask_sub _ _ r hroots hr
  have hd' := reach_in_closed adj builderDrops callbackClosure hclosed r d hr' h
  have : (destructive &&& callbackClosure).testBit d = true := by
    simp only [Nat.testBit_and, hd, hd', Bool.and_self]
  rw [hdis] at this
  simp at this

/-- The private helpers of the driver (functions a refactoring splits the driver loop into; none
in the pinned tree) are private: none is client-callable or a `Drop` impl, and every edge into one of
them starts at the driver or at another helper — they only ever run as part of a driver call. -/
theorem driver_parts_private :
    allIn fns driverParts (fun f => !f.clientCallable && !f.isDropImpl && f.selfKind == .other) = true ∧
    ∀ a b : Nat, Edge adj 0 a b → driverParts.testBit b = true → driver.testBit a = true := by
  refine ⟨by decide +kernel, fun a b hab hb => ?_⟩
  have h : entersOnlyVia adj driver driverParts = true := by decide +kernel
  exact edge_into_parts adj driver driverParts h a b hab hb

/-- Every function from which the collector driver (`Context::do_collection`) is reachable (full
graph, nothing cut) is the driver itself, one of its private helpers (`driver_parts_private`), or
takes `&mut self` on `Arena` or consumes a `MarkedArena`. -/
theorem collection_needs_exclusive_arena (a d : Nat) (hd : doCollection.testBit d = true)
    (h : Reach adj 0 a d) :
    (maskWhere fns (fun f => f.tag == .doCollection || f.tag == .driverPart || exclusiveEntry f)).testBit a = true := by
  have hclosed : backClosedB adj collectorClosure = true := by decide +kernel
  have hstart : (doCollection &&& collectorClosure) = doCollection := by decide +kernel
  have hall : (collectorClosure &&& maskWhere fns (fun f => f.tag == .doCollection || f.tag == .driverPart || exclusiveEntry f))
      = collectorClosure := by decide +kernel
  have hd' : collectorClosure.testBit d = true := mask_sub _ _ d hstart hd
  have ha := reach_into_back_closed adj collectorClosure hclosed a d hd' h
  exact mask_sub _ _ a hall ha

/-- Lower bounds on the extracted graph (a translator that silently drops functions or edges cannot
make `callgraph` / `collection_needs_exclusive_arena` vacuous): at least 300 functions, 150
callback-side entry points, a callback closure at least 100 nodes larger than its roots (edges are
there: the callback side does reach the allocation / barrier / upgrade paths), the driver is reached
from at least one other function, at least 3 destructive nodes, a builder `Drop` impl. -/
theorem required_graph_rows :
    fns.length ≥ 300 ∧ count callbackRoots fns.length ≥ 150 ∧
    count callbackClosure fns.length ≥ count callbackRoots fns.length + 100 ∧
    closure adj builderDrops callbackRoots 64 = callbackClosure ∧
    count collectorClosure fns.length ≥ 2 ∧ count destructive fns.length ≥ 3 ∧
    count builderDrops fns.length ≥ 1 ∧ constructsMarkedArena.length ≥ 1 := by decide +kernel

/-- `MarkedArena` holds `&mut Arena`, and is only constructed by `&mut self` methods of `Arena`. -/
theorem marked_arena_exclusive :
    markedArenaField = "&mut Arena" ∧ constructsMarkedArena ≠ [] ∧
    allIn fns (maskOf constructsMarkedArena) (fun f => f.selfKind == .arena && f.recv == .refMut) = true := by
  decide +kernel

/-- Non-vacuity: the certificate is what `closure` computes from the roots; it is much larger than
the root set (the callback side does reach the allocation / barrier / upgrade paths of the
collector); and the driver is reached from somewhere (the `&mut self` collection methods of
`Arena`, `MarkedArena::start_sweeping`). -/
example :
    closure adj builderDrops callbackRoots 64 = callbackClosure ∧
    count callbackRoots fns.length ≥ 100 ∧
    count callbackClosure fns.length ≥ count callbackRoots fns.length + 100 ∧
    count collectorClosure fns.length ≥ 2 ∧ count destructive fns.length ≥ 3 := by
  decide +kernel

/-! ## The clause, structural half

"While a callback runs, no value of that arena is destructed and no allocation is released" — as
far as a call graph can say it: nothing that client code can call or implicitly run during a
callback reaches a destructor / deallocator call or the collector driver.  Not contained: that the
extracted graph over-approximates the real calls (name resolution of the translator, trusted), and
Rust's borrow rules excluding the `&mut Arena` / by-value entry points (trusted).  The dynamic half
(`Props/C03`) is about the collector model. -/
def callbacks_cannot_reach_reclamation_statement : Prop :=
  ∀ r d : Nat, callbackRoots.testBit r = true → destructive.testBit d = true →
    ¬ Reach adj builderDrops r d

theorem callbacks_cannot_reach_reclamation : callbacks_cannot_reach_reclamation_statement :=
  fun r d hr hd => callgraph r d hr hd

end GcArena.C03s
