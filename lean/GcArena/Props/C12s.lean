import GcArena.Proofs.BrandFlowLemmas
import GcArena.Generated.BrandFlow
import GcArena.Proofs.CollectLemmas
import GcArena.Generated.CollectTable
import GcArena.Proofs.MacroImplsLemmas
import GcArena.Generated.MacroImpls
/-!
# C12 (brand flow) — no function that safe code can call lets the caller choose a brand

Companion of `GcArena.Props.C12` (variance, auto traits, `for<'gc>` binders).  Those premises say
that a branded value cannot *leave* its callback or *change* its brand by subtyping.  They say
nothing about a function of the crate that hands out a value whose brand is not the brand of what it
was given — e.g. an `unsize!` whose `__CoercePtrInternal` impl reads
`impl<'gc, 'w, …> __CoercePtrInternal<GcWeak<'w, U>> for GcWeak<'gc, T, K>`: no field, marker or
auto trait changes, yet `unsize!(weak => T)` has any brand the caller likes, `'static` included.

Here: the table `GcArena.Generated.brandFlow` that `/verif/extract` regenerates from the current
source on every check run lists every function code without `unsafe` can call (safe `pub` fns,
trait-impl methods, default trait methods, and the `unsafe fn`s an exported macro calls from its own
`unsafe { }` block) whose result carries a lifetime, with the brands of the result and of the inputs.
`table_ok` re-checks by `decide` that every result brand is the brand of an input (identity — an
outlives bound is not accepted), and `brand_flow_closed` shows for **every** table with that
property that in the calculus of `Model/BrandFlow.lean` (callbacks introduce fresh brands, calls
instantiate signatures) a program only ever holds brands of callbacks that are executing, and every
call yields only brands it consumed.

Partial, as all of C12: rustc's type checking is trusted; what is trusted in the translator is its
classification of lifetime positions (see the module docs of `extract/src/brandflow.rs`), cross
validated by must-not-compile escape probes per entry point (`probes/gen_brandflow.py`).
-/
namespace GcArena.C12s
open GcArena.BrandFlow

/-! ## General theorems (every table) -/

/-- **No brand is ever chosen by the caller.**  For every table satisfying `Table.ok` and every
state reachable by entering callbacks (fresh brand each), leaving them, calling table entries under
arbitrary instantiations of their lifetime parameters, and dropping values:

1. every brand the program holds is the brand of a callback that is currently executing (so nothing
   branded is held after its callback returned, and nothing ever has a brand — such as `'static` or
   an outer region — that no callback introduced);
2. every call that is possible in that state yields only values whose brand is the brand of a held
   value the call consumed, and *every* branded input of that call has that same brand (so a value
   of arena A is produced only inside A's callback, from values of A alone; it cannot be turned into
   a value of arena B, whatever else the program holds, and a pointer of A cannot be combined with
   the `Mutation` of B). -/
theorem brand_flow_closed (T : Table) (hok : T.ok = true) {st : State} (hr : Reachable T st) :
    (∀ b ∈ st.held, b ∈ st.active) ∧
    (∀ (s : Sig) (σ : Subst), s ∈ T.sigs → s.callable = true → (∀ l ∈ s.inBrands, σ l ∈ st.held) →
      ∀ b ∈ s.outBrands.map σ,
        (∃ l ∈ s.inBrands, σ l = b ∧ b ∈ st.held) ∧ b ∈ st.active ∧ (∀ l' ∈ s.inBrands, σ l' = b)) := by
  have hi := reachable_inv hok hr
  refine ⟨hi.held_active, ?_⟩
  intro s σ mem hc inputs b hb
  have hs := Table.sig_ok hok mem
  obtain ⟨l, hl, rfl⟩ := call_same_brand hs hc σ hb
  refine ⟨⟨l, hl, rfl, inputs l hl⟩, hi.held_active _ (inputs l hl), ?_⟩
  intro l' hl'
  exact call_single_arena hs hc σ (List.mem_map.mpr ⟨l', List.mem_append_left _ hl', rfl⟩)
    (List.mem_map.mpr ⟨l, List.mem_append_left _ hl, rfl⟩)

/-- The same, as a statement about one call: the output brands are a function of the input brands.
Two instantiations that agree on the lifetimes of the inputs agree on the outputs. -/
theorem caller_cannot_choose (T : Table) (hok : T.ok = true) (s : Sig) (hs : s ∈ T.sigs)
    (hc : s.callable = true) (σ σ' : Subst) (h : ∀ l ∈ s.inBrands, σ l = σ' l) :
    s.outBrands.map σ = s.outBrands.map σ' :=
  outputs_determined (Table.sig_ok hok hs) hc σ σ' h

/-- Once the innermost callback has returned, its brand is neither active nor held, and (being in
`opened`) can never be introduced again. -/
theorem brand_dead_after_exit (T : Table) (hok : T.ok = true) {st : State} (hr : Reachable T st)
    (b : Brand) (rest : List Brand) (top : st.active = b :: rest) :
    b ∉ rest ∧ b ∉ st.held.filter (· != b) ∧ b ∈ st.opened :=
  exit_kills_brand hok hr b rest top

/-! ## The current table -/

/-- Every callable signature of the current source tree takes each brand of its result from an
input (and each reference lifetime of its result from an input); the translator classified
everything; only the five builder types are unattached; the property's types are branded; every
call in an exported macro's `unsafe` block resolves to scanned functions. -/
theorem table_ok : Generated.brandFlow.ok = true := by decide

/-- The table talks about the functions that matter: the conversions and accessors the property is
about are present, and the two `__CoercePtrInternal` impls behind `unsize!` as well as
`Write::__from_ref_and_ptr` behind `field!` are recognised as reachable from safe code. -/
theorem entry_points_present :
    (∀ p ∈ [("Gc", "new"), ("Gc", "downgrade"), ("Gc", "erase"), ("Gc", "as_ref"), ("Gc", "write"),
            ("Gc", "unlock"), ("Gc", "clone"), ("GcWeak", "upgrade"), ("GcWeak", "resurrect"),
            ("GcWeak", "erase"), ("GcWeak", "clone"), ("DynamicRootSet", "new"),
            ("DynamicRootSet", "fetch"), ("DynamicRootSet", "try_fetch"), ("Finalization", "deref"),
            ("Arena", "new"), ("Arena", "mutate"), ("Arena", "mutate_root"), ("Arena", "map_root"),
            ("MarkedArena", "finalize")],
        Generated.brandFlow.has p.1 p.2 = true) ∧
    (∀ h ∈ ["Gc", "GcWeak"], Generated.brandFlow.sigs.any (fun s =>
        s.selfHead == h && s.method == "__coerce_unchecked" && s.isUnsafe && s.macroReachable) = true) ∧
    (∀ m ∈ ["unsize", "__field"], Generated.brandFlow.macroCalls.any (fun c => c.1 == m) = true) := by
  decide

/-- Every `unsafe fn` whose result has a caller-chosen brand (`Gc::from_ptr`, …) is exempt only
because safe code cannot call it: none of them is reachable from an exported macro. -/
theorem free_brands_only_behind_unsafe :
    ∀ s ∈ Generated.brandFlow.sigs, s.flowOk = false → s.isUnsafe = true ∧ s.macroReachable = false := by
  decide

/-! ## Witnesses -/

/-- The mutated `unsize!` support impl
`impl<'gc, 'w, T, U: ?Sized, K> __CoercePtrInternal<GcWeak<'w, U>> for GcWeak<'gc, T, K>`
(`unsafe fn __coerce_unchecked<F>(self, coerce: F) -> GcWeak<'w, U>`, called by the safe macro) is
rejected; the original (`'w` = `'gc`) is accepted; and the same signature is exempt when no exported
macro reaches it. -/
def mutantSig : Sig :=
  { name := "<GcWeak<'gc, T, K> as __CoercePtrInternal<GcWeak<'w, U>>>::__coerce_unchecked",
    selfHead := "GcWeak", traitName := "__CoercePtrInternal", method := "__coerce_unchecked",
    isUnsafe := true, macroReachable := true, hasReceiver := true,
    outBrands := ["w"], inBrands := ["gc"], inLts := ["gc"], free := ["w"] }

theorem mutant_witness :
    mutantSig.ok = false ∧
    ({ mutantSig with outBrands := ["gc"], free := [] } : Sig).ok = true ∧
    ({ mutantSig with macroReachable := false } : Sig).ok = true := by decide

/-- Non-vacuity of `brand_flow_closed`: with the mutated entry in the table the calculus reaches a
state in which the program holds a brand (0, say `'static`) that no callback ever introduced, while
only callback 1 is executing — and after that callback has returned it still holds it. -/
theorem mutant_escapes :
    ∃ st, Reachable { sigs := [mutantSig] } st ∧ 0 ∈ st.held ∧ 0 ∉ st.opened ∧ st.active = [] := by
  let T : Table := { sigs := [mutantSig] }
  let σ : Subst := fun l => if l = "gc" then 1 else 0
  have h1 : Reachable T { opened := [1], active := [1], held := [1] } :=
    .step .init (.enter State.init 1 (by simp [State.init]))
  have h2 : Reachable T { opened := [1], active := [1], held := [0, 1] } :=
    .step h1 (.call _ mutantSig σ (List.mem_singleton.mpr rfl) (by decide) (by decide))
  have h3 : Reachable T { opened := [1], active := [], held := [0] } :=
    .step h2 (.exit _ 1 [] rfl)
  exact ⟨_, h3, by decide, by decide, rfl⟩

/-- Non-vacuity of the table check: safe functions with a free result brand, a result brand that is
merely *outlived* by an input brand, a brand taken from the impl header without a receiver, and a
free reference lifetime, and an `upgrade` that takes its result brand from the `Mutation` instead of
the pointer are all rejected; the shapes of `Gc::downgrade`, `GcWeak::upgrade`,
`Gc::as_ref` are accepted. -/
example :
    Sig.ok { name := "fn conjure<'gc>() -> Gc<'gc, ()>", isUnsafe := false, macroReachable := false,
             outBrands := ["gc"], inBrands := [] } = false ∧
    Sig.ok { name := "fn shorten<'a, 'gc: 'a>(g: Gc<'gc, T>) -> Gc<'a, T>", isUnsafe := false,
             macroReachable := false, outBrands := ["a"], inBrands := ["gc"], inLts := ["gc"] } = false ∧
    Sig.ok { name := "Gc<'gc, T>::from_ptr made safe", isUnsafe := false, macroReachable := false,
             outBrands := ["gc"], inBrands := [] } = false ∧
    Sig.ok { name := "fn leak<'a>(g: Gc<'gc, T>) -> &'a T", isUnsafe := false, macroReachable := false,
             outBrands := [], inBrands := ["gc"], outRefs := ["a"], inLts := ["gc"] } = false ∧
    Sig.ok { name := "GcWeak<'gc, T>::upgrade<'m>(self, mc: &Mutation<'m>) -> Option<Gc<'m, T>>",
             isUnsafe := false, macroReachable := false,
             outBrands := ["m"], inBrands := ["gc", "m"], inLts := ["gc", "_1", "m"] } = false ∧
    Sig.ok { name := "Gc::downgrade", isUnsafe := false, macroReachable := false,
             outBrands := ["gc"], inBrands := ["gc"], inLts := ["gc"] } = true ∧
    Sig.ok { name := "GcWeak::upgrade", isUnsafe := false, macroReachable := false,
             outBrands := ["gc"], inBrands := ["gc"], inLts := ["gc", "_1"] } = true ∧
    Sig.ok { name := "Gc::as_ref", isUnsafe := false, macroReachable := false,
             outBrands := [], inBrands := ["gc"], outRefs := ["gc"], inLts := ["gc"] } = true := by
  decide

/-- The quantifier of `table_ok` ranges over something: at least 60 callable signatures, at least
30 of which return a brand. -/
example : 60 ≤ (Generated.brandFlow.sigs.filter Sig.callable).length ∧
    30 ≤ (Generated.brandFlow.sigs.filter (fun s => s.callable && !s.outBrands.isEmpty)).length := by
  decide

/-- The calculus is not empty either: with the current table a program can enter a callback and
obtain further values of that callback's brand (`Gc::downgrade`-like entries exist). -/
example : ∃ s ∈ Generated.brandFlow.sigs, s.callable = true ∧ s.outBrands = ["gc"] ∧ s.inBrands = ["gc"] := by
  decide

/-! ## Branded data cannot hide inside a root value

The premises above keep a branded value from *leaving* its callback as a value.  It could still
stay behind **inside the root**, where later callbacks find it again, if some `Collect` impl
accepted a component that carries the brand and that the collector never sees: the target of a
`&'gc T` (from `Gc::as_ref`) or of an untraced `Gc<'gc, T>` kept there is collected while the
reference is still readable.  `Gc::as_ref`'s own safety argument is "`&'gc T` never implements
`Collect`, so it cannot be stored inside the root"; the rule below is what makes that true of every
provided impl: a type parameter that can occur in a field and is not traced must be `'static`
(`S: 'gc` on the hasher state of `HashMap<K, V, S>` is **not** enough).  Same table, same rule and
same general theorem as `GcArena.C16.untraced_static_ok` / `no_hidden_brand`
(`Model/CollectTy.lean`), re-checked here so that C12 reports it too. -/

/-- No provided `Collect` impl (feature-gated ones included) lets a branded value hide in an
untraced parameter: in the table regenerated from the current source tree, every parameter that can
occur in a field of the value is traced or bounded by `'static`, the remaining ones are
phantom-only, and no lifetime of a self type is free. -/
theorem no_collect_impl_hides_brand : Generated.collectTable.untracedStatic = true := by
  decide +kernel

/-- What the rule buys, for every table satisfying it: a component of a well-typed container value
that the impl's `trace` does not visit has a `'static` type — it carries no brand at all — and
contains no arena pointer. -/
theorem untraced_component_has_no_brand (t : CollectTy.Table) (hu : t.untracedStatic = true)
    (e : Nat) (en : CollectTy.Entry) (he : t.entry? e = some en) (args : Nat → CollectTy.Ty)
    (len : Nat) (pos : Nat → Nat) (elem : Nat → CollectTy.Val)
    (h : CollectTy.HasType t (.node len pos elem) (.app e args)) (j : Nat) (hj : j < len)
    (hnt : en.traced.contains (pos j) = false) :
    CollectTy.isStatic t (args (pos j)) = true ∧ CollectTy.ptrsOf (elem j) = [] :=
  CollectTy.no_hidden_brand t hu e en he args len pos elem h j hj hnt

/-- Lower bound (a translator that silently drops rows cannot make `no_collect_impl_hides_brand`
vacuous): at least 50 impls, at least 20 of them with a `'static`-bounded parameter or `Self: 'static`. -/
theorem required_collect_rows :
    Generated.collectTable.entries.length ≥ 50 ∧
    (Generated.collectTable.entries.filter (fun e => e.selfStatic || !e.staticParams.isEmpty)).length ≥ 20 ∧
    Generated.collectTable.unclassified = [] := by decide +kernel

/-- The delivered mutant (`S: 'static` ↦ `S: 'gc` on `Collect for HashMap<K, V, S>`) is rejected by
the rule, the crate's entry is accepted. -/
theorem hasher_mutant_witness :
    CollectTy.Example.hmCurrent.untracedStatic = true ∧
    CollectTy.Example.hmMutant.untracedStatic = false := by decide


/-! ## `'static`-only `Collect` impls generated for clients: `static_collect!`

`static_collect!(<T> Latch<'gc, T>)` is the documented generic form: the user-supplied type may name
the `'gc` the impl header declares.  The generated impl has `NEEDS_TRACE = false` and no `trace`, so
the only thing that keeps a branded type (`Latch<'gc, T>(Cell<Option<&'gc T>>)`) from becoming an
untraced, barrier-free `Collect<'gc>` *for every brand* is the predicate `$type: 'static` on the
type itself; `T: 'static` on the declared parameters says nothing about `'gc`.  The translator reads
every arm's expansion template from the raw source (`extract/src/macroimpls.rs`,
`GcArena/Generated/MacroImpls.lean`); rule and general theorem: `Model/MacroImpls.lean`,
`Proofs/MacroImplsLemmas.lean`. -/

/-- Every arm of `static_collect!` in the current source satisfies the template rule (and at least one arm was found, all classified): claiming `NEEDS_TRACE = false` / an empty `trace` is licensed by
`$type: 'static` on the user-supplied type. -/
theorem static_collect_templates_ok :
    Generated.macroImplsUnclassified = [] ∧
    (Generated.macroImpls.filter (fun t => t.macroName == "static_collect")).length ≥ 1 ∧
    (Generated.macroImpls.filter (fun t => t.macroName == "static_collect")).all
      MacroImpls.Template.ok = true := by decide

/-- **Client instantiations hide no brand.**  Extend the crate's impl table by the impls clients
obtain from any arms of the exported macros in the current source (`Template.toEntry`: any number of
declared parameters, the user-supplied type mentioning the brand or not): the extended table still
satisfies the untraced-static rule, so a component of a well-typed value that a `trace` — provided
or macro-generated — does not visit has a `'static` type and contains no arena pointer. -/
theorem template_instances_hide_no_brand (is : List (MacroImpls.Template × MacroImpls.Inst))
    (hmem : ∀ p, p ∈ is → p.1 ∈ Generated.macroImpls)
    (e : Nat) (en : CollectTy.Entry)
    (he : (MacroImpls.withInstances Generated.collectTable is).entry? e = some en)
    (args : Nat → CollectTy.Ty) (len : Nat) (pos : Nat → Nat) (elem : Nat → CollectTy.Val)
    (h : CollectTy.HasType (MacroImpls.withInstances Generated.collectTable is) (.node len pos elem) (.app e args))
    (j : Nat) (hj : j < len) (hnt : en.traced.contains (pos j) = false) :
    CollectTy.isStatic (MacroImpls.withInstances Generated.collectTable is) (args (pos j)) = true ∧
      CollectTy.ptrsOf (elem j) = [] :=
  CollectTy.no_hidden_brand _
    (MacroImpls.withInstances_untracedStatic _ no_collect_impl_hides_brand _ (by decide) is hmem)
    e en he args len pos elem h j hj hnt

/-- … and a macro-generated impl for a type that itself mentions the brand is a complete row: the
brand is traced under a true `NEEDS_TRACE`, or the row demands `Self: 'static`. -/
theorem template_instance_complete (t : MacroImpls.Template) (ht : t ∈ Generated.macroImpls)
    (i : MacroImpls.Inst) : (t.toEntry i).complete = true ∧ (t.toEntry i).untracedStatic = true :=
  MacroImpls.Template.toEntry_ok t
    (List.all_eq_true.mp (by decide : Generated.macroImpls.all MacroImpls.Template.ok = true) t ht) i

/-- Non-vacuity on the generated rows 0 and 1 (`static_collect!`): instantiated at a
brand-mentioning type they demand `Self: 'static` and hold no pointer field; the seeded template
holds one that nothing traces. -/
example :
    (Generated.macroImpls[0]?.map (fun t => (t.toEntry { brandFree := false, nparams := 1 }).selfStatic)) = some true ∧
    (Generated.macroImpls[0]?.map (fun t => (t.toEntry { brandFree := false, nparams := 1 }).ptrFields)) = some [] ∧
    (Generated.macroImpls[2]?.map (fun t => (t.toEntry { brandFree := false, nparams := 1 }).untracedStatic)) = some true ∧
    (MacroImpls.Example.staticCollectArm0Mutant.toEntry { brandFree := false, nparams := 1 }).ptrFields = ["'gc"] ∧
    (MacroImpls.Example.staticCollectArm0Mutant.toEntry { brandFree := false, nparams := 1 }).tracedFields = [] := by
  decide

/-- The `Example` rows of the mutant-witness theorem are the generated rows. -/
example : Generated.macroImpls[0]? = some MacroImpls.Example.staticCollectArm0 ∧
    Generated.macroImpls[2]? = some MacroImpls.Example.dynCollectArm0 := by decide

/-- *Definitional reading of the rule* (re-reads conjuncts of `Template.ok`; the "root bound rejects
it" half is prose, its assurance comes from the template probes `c12-template-*`; the semantic
statements are `template_instances_hide_no_brand` / `template_instance_complete`).
What the rule buys (every template, every instantiation): if the user-supplied type mentions a
brand, the generated impl is not brand-generic — so no generative callback and no root bound
accepts it — or it traces with `NEEDS_TRACE = true`. -/
theorem template_impl_is_static_or_traces (t : MacroImpls.Template) (h : t.ok = true)
    (i : MacroImpls.Inst) (hb : i.brandFree = false) :
    t.brandGeneric i = false ∨ (t.reportsNothing = false ∧ t.needsTraceValue = some true) :=
  MacroImpls.ok_sound t h i hb

/-- The seeded change `where $type: 'static` ↦ `$($params: 'static,)+` in the generic arm is
rejected by the rule (the crate's arm is accepted), and under it a type mentioning the brand gets an
impl for every brand that reports nothing. -/
theorem static_collect_mutant_witness :
    MacroImpls.Example.staticCollectArm0.ok = true ∧
    MacroImpls.Example.staticCollectArm0Mutant.ok = false ∧
    ∃ i : MacroImpls.Inst, i.brandFree = false ∧
      MacroImpls.Example.staticCollectArm0Mutant.brandGeneric i = true ∧
      MacroImpls.Example.staticCollectArm0Mutant.reportsNothing = true ∧
      (MacroImpls.Example.staticCollectArm0Mutant.toEntry { i with nparams := 1 }).complete = false :=
  ⟨by decide, by decide, { brandFree := false }, rfl, by decide, by decide, by decide⟩

/-! ## The clause "a branded value cannot stay behind in the root", over the type-shape model

For the **current** crate: whatever a provided `Collect` impl does not trace is `'static` — it
carries no brand — so no `&'gc T` / untraced `Gc<'gc, T>` can sit in a root value and be found
again by a later callback.  Not contained: `Shape.stored` / the translator's reading of the impls
(trusted, probed by `c16-hidden-*`), client-written `unsafe impl Collect`, and the template rule for
client instantiations of `static_collect!` (`static_collect_templates_ok`). -/
def no_brand_hides_in_a_root_value_statement : Prop :=
  ∀ (e : Nat) (en : CollectTy.Entry), Generated.collectTable.entry? e = some en →
    ∀ (args : Nat → CollectTy.Ty) (len : Nat) (pos : Nat → Nat) (elem : Nat → CollectTy.Val),
      CollectTy.HasType Generated.collectTable (.node len pos elem) (.app e args) →
      ∀ j, j < len → en.traced.contains (pos j) = false →
        CollectTy.isStatic Generated.collectTable (args (pos j)) = true ∧
          CollectTy.ptrsOf (elem j) = []

theorem no_brand_hides_in_a_root_value : no_brand_hides_in_a_root_value_statement :=
  fun e en he args len pos elem h j hj hnt =>
    untraced_component_has_no_brand _ no_collect_impl_hides_brand e en he args len pos elem h j hj hnt

end GcArena.C12s
