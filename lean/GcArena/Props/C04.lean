import GcArena.Proofs.LogRun
import GcArena.Proofs.PtrRefine
import GcArena.Proofs.PtrRun
/-!
# C04 — Every value is destructed exactly once and all memory is returned

Event discipline: `dropped i` / `freed i` are appended to the monotone log only by `sweep_one` and
by `DropAll` (`Ctx.dropAll`).  The history-level theorems are corollaries of the log invariant
`LInv` (Proofs/LogInv.lean) proved for every history by `linv_run`; ids are never reused
(`heap.size` only grows), so "the same id" means "the same allocation".
-/
namespace GcArena.C04

open GcArena

/-- A sweep step destructs only a value that is still live (the `is_live` test of `sweep_one`),
    so releasing the shell of an already destructed object does not destruct it again. -/
theorem sweep_destructs_live_only {c : Ctx} {root temps} (h : CInv c root temps) (hp : c.phase = .sweep) :
    ∃ evs, NewEvents c c.sweepOne.1 evs ∧
      ∀ i, Event.dropped i ∈ evs → ∃ o, c.heap.get i = some o ∧ o.live = true := by
  obtain ⟨evs, hn, he⟩ := sweepOne_events h hp
  refine ⟨evs, hn, fun i hi => ?_⟩
  obtain ⟨_, _, o, ho, hl⟩ := he _ hi
  exact ⟨o, ho, hl rfl⟩

/-- `DropAll` on one object: destruct iff live, then release. -/
theorem drop_one (c : Ctx) (i : Nat) (o : Obj) (ho : c.heap.get i = some o) :
    (c.dropOne i).heap.get i = none ∧
    (c.dropOne i).log = (if o.live then [Event.freed i, Event.dropped i] else [Event.freed i]) ++ c.log := by
  unfold Ctx.dropOne
  simp only [ho]
  cases hl : o.live <;> simp [Heap.get_set]

/-- Mutator steps and every collector micro-step other than a sweep step emit nothing
    (E2; see also C03). -/
theorem only_sweep_emits {c c' : Ctx} {root} (h : CInv c root []) (m : Micro)
    (hs : c.micro root m = some c') (hm : m ≠ .sweepStep) : c'.log = c.log := by
  cases m with
  | sweepStep => exact absurd rfl hm
  | wake => simp only [Ctx.micro] at hs; split at hs <;> cases hs; rfl
  | toSweep => simp only [Ctx.micro] at hs; split at hs <;> cases hs; rfl
  | toSleep b => simp only [Ctx.micro] at hs; split at hs <;> cases hs; rfl
  | markStep f =>
    simp only [Ctx.micro] at hs
    split at hs
    · cases hs; rename_i hp
      simp only [Bool.and_eq_true, decide_eq_true_eq] at hp
      exact (markOne_spec h hp.1 f).2.log
    · cases hs
  | markBreak =>
    simp only [Ctx.micro] at hs
    split at hs
    · cases hs; rename_i hp
      simp only [Bool.and_eq_true, decide_eq_true_eq] at hp
      exact (markOne_spec h hp.1 none).2.log
    · cases hs
  | sweepEnd =>
    simp only [Ctx.micro] at hs
    split at hs
    · cases hs; rename_i hp
      simp only [Bool.and_eq_true, decide_eq_true_eq, List.isEmpty_iff] at hp
      simp [Ctx.sweepOne, hp.2]
    · cases hs

/-- Over any history — any interleaving, any phase in which the arena is finally dropped, or
    not dropped at all — no value is destructed twice and no block is released twice (the log has
    no duplicates), and every release is preceded by the destruction of that value. -/
theorem once (n : Nat) (ops : List Op) :
    ((Arena.new n).run ops).ctx.log.Nodup ∧
    ∀ i, Event.freed i ∈ ((Arena.new n).run ops).ctx.log → Event.dropped i ∈ ((Arena.new n).run ops).ctx.log :=
  ⟨(linv_run n ops).nodup, (linv_run n ops).freedDropped⟩

/-- A released block is gone for good and its id is never handed out again: every logged id is
    below the allocation counter. -/
theorem released_is_gone (n : Nat) (ops : List Op) (i : Nat)
    (h : Event.freed i ∈ ((Arena.new n).run ops).ctx.log) :
    ((Arena.new n).run ops).ctx.heap.get i = none ∧ i < ((Arena.new n).run ops).ctx.heap.size :=
  ⟨(linv_run n ops).freedGone i h, (linv_run n ops).bound _ h⟩

/-- `is_dropped` (the cleared `live` flag of an allocated block) is exact: it is set iff the
    destructor of that value has run, and — the log being monotone — it never reverts (C05). -/
theorem is_dropped_exact (n : Nat) (ops : List Op) (i : Nat) (o : Obj)
    (ho : ((Arena.new n).run ops).ctx.heap.get i = some o) :
    o.live = false ↔ Event.dropped i ∈ ((Arena.new n).run ops).ctx.log :=
  ⟨(linv_run n ops).deadDropped i o ho, fun h => (linv_run n ops).droppedDead i h o ho⟩

/-- Dropping the arena at any point of any history (asleep, mid-mark, fully marked, mid-sweep,
    with shells): afterwards every id ever allocated is logged as destructed and as released —
    each exactly once (`once`) — nothing is allocated any more and the count reads zero. -/
theorem drop_arena (n : Nat) (ops : List Op) (halive : ((Arena.new n).run ops).alive = true)
    (hcb : ((Arena.new n).run ops).cb = none) :
    let a := (Arena.new n).run ops
    let a' := (a.step .dropArena).1
    a'.ctx.metrics.totalGcs = 0 ∧ a'.ctx.metrics.underflow = false ∧ a'.alive = false ∧
    (∀ j, a'.ctx.heap.get j = none) ∧
    (∀ i, i < a.ctx.heap.size → Event.freed i ∈ a'.ctx.log ∧ Event.dropped i ∈ a'.ctx.log) ∧
    a'.ctx.log.Nodup := by
  intro a a'
  have hi : Inv a := inv_run n ops halive
  have hl : LInv a.ctx := linv_run n ops
  have hnot : (!a.alive) = false := by rw [hi.alive]; rfl
  have ha' : a' = { ({ a with marked := false } : Arena) with ctx := a.ctx.dropAll, alive := false, root := [], cover := [] } := by
    show (a.step .dropArena).1 = _
    unfold Arena.step
    rw [hnot]
    simp only [Bool.false_eq_true, if_false, Arena.stepBody]
    have hcb' : a.cb = none := hcb
    rw [hcb']
    rfl
  obtain ⟨d1, d2, d3, d4, d5⟩ := dropAll_spec hi.cinv hl
  rw [ha']
  refine ⟨d3, d4, rfl, d2, ?_, d1.nodup⟩
  intro i hi'
  have hf := d1.goneFreed i (by rw [d5]; exact hi') (d2 i)
  exact ⟨hf, d1.freedDropped i hf⟩

/-- Every id below the allocation counter is either still allocated or logged as released:
    nothing leaks from the collector's books in any state of any history. -/
theorem nothing_unaccounted (n : Nat) (ops : List Op) (i : Nat)
    (hi : i < ((Arena.new n).run ops).ctx.heap.size) :
    (∃ o, ((Arena.new n).run ops).ctx.heap.get i = some o) ∨ Event.freed i ∈ ((Arena.new n).run ops).ctx.log := by
  cases hg : ((Arena.new n).run ops).ctx.heap.get i with
  | some o => exact Or.inl ⟨o, rfl⟩
  | none => exact Or.inr ((linv_run n ops).goneFreed i hi hg)

/-! ### The pointer surgery on the intrusive `all` list implements the lists of the model

`PList` (Model/PtrList.lean) is the `next` field of every header plus `Context::{all, sweep,
sweep_prev}`, with the statements of `link`, the `Mark → Sweep` switch, `sweep_one` and `DropAll`
that touch them.  `Rep p pre rest` says that following `next` from `all` yields `pre ++ rest`
(each object once), from `sweep` yields `rest`, and `sweep_prev` is the last object of `pre`.
So no object ever drops off the list unreleased (the block of seeded change `C04-weak-sweep-prev`),
and nothing on the list points at a released block. -/

/-- Allocation in any phase — also mid-sweep, also when `sweep_prev` is `None`. -/
theorem list_surgery_link {p : PList} {c : Ctx} {root temps} (hinv : CInv c root temps)
    (h : Rep p c.pre c.rest) (o : Obj) :
    Rep (p.link (c.link o).2) (c.link o).1.pre (c.link o).1.rest :=
  link_refines hinv h o

/-- The `Mark → Sweep` switch. -/
theorem list_surgery_enter_sweep {p : PList} {pre : List Nat} (h : Rep p pre []) (hs : p.sweeping = false) :
    Rep p.enterSweep [] pre := h.enterSweep hs

/-- One `sweep_one` over an object of any colour, wherever the cursor and `sweep_prev` are. -/
theorem list_surgery_sweep {p : PList} {c : Ctx} {root temps} (hinv : CInv c root temps)
    (hp : c.phase = .sweep) (hs : p.sweeping = true) (h : Rep p c.pre c.rest) (s : Nat) (r : List Nat)
    (hr : c.rest = s :: r) :
    Rep (p.sweepOne c.isWhite).1 c.sweepOne.1.pre c.sweepOne.1.rest :=
  sweepOne_refines hinv hp hs h s r hr

/-- The end of the sweep: `sweep_prev` is reset, the list is whole. -/
theorem list_surgery_end_sweep {p : PList} {pre : List Nat} (h : Rep p pre []) (hs : p.sweeping = true)
    (remove : Nat → Bool) : Rep (p.sweepOne remove).1.endSweep pre [] := (h.endSweep hs remove).2

/-- After any of these steps no `next` field of an object on the list points outside the list —
    in particular not at a block `sweep_one` has just released. -/
theorem no_dangling_next {p : PList} {pre rest : List Nat} (h : Rep p pre rest) (i : Nat)
    (hi : i ∈ pre ++ rest) (t : Nat) (ht : p.next i = some t) : t ∈ pre ++ rest :=
  h.chain.next_mem i hi t ht

/-- `DropAll` (arena drop, in any phase) visits exactly the objects on the list, each once. -/
theorem drop_visits_all {p : PList} {pre rest : List Nat} (h : Rep p pre rest) :
    PList.walk p.next ((pre ++ rest).length + 1) p.all = pre ++ rest := h.walk

/-- Non-vacuity: three allocations, sweep started, middle object unlinked behind a kept one. -/
example :
    let p := (((PList.empty.link 0).link 1).link 2).enterSweep
    let p1 := (p.sweepOne (fun i => i == 1)).1      -- 2 kept: sweep_prev = 2
    let p2 := (p1.sweepOne (fun i => i == 1)).1     -- 1 unlinked through sweep_prev
    PList.walk p2.next 4 p2.all = [2, 0] ∧ p2.sweep = some 0 ∧ p2.sweepPrev = some 2 := by decide

/-! ### The pointer-level list along whole histories

`PRunFrom a p ops p'` (Proofs/PtrRun.lean): a pointer-level state threaded through the history —
`Context::link` at every allocation, the `Mark → Sweep` switch, `sweep_one` with the colour test of
the context at that moment, the end of the sweep — driven by the same operations; for a collection
call, by any sequence of micro-steps that takes the context where the call took it (the self-driven
loop is one, `C01.do_collection_is_micro_steps`). -/

/-- A pointer-level run coupled with the history `ops` of a fresh arena. -/
def PRun (n : Nat) (ops : List Op) (p : PList) : Prop := PRunFrom (Arena.new n) PList.empty ops p

/-- **Run-level refinement.**  For every history that leaves the arena alive a coupled
    pointer-level run exists, and *every* coupled run ends in a state that represents the model's
    lists: following `next` from `all` yields `pre ++ rest`, each object once; while sweeping, from
    `sweep` yields `rest` and `sweep_prev` is the last object in front of the cursor; outside the
    sweep both are `None` — and it is in sweep mode exactly when the model is in the sweep phase.
    So `Rep` is not an assumption of the `list_surgery_*` theorems along real histories: it holds in
    every state of every history. -/
theorem rep_run (n : Nat) (ops : List Op) (halive : ((Arena.new n).run ops).alive = true) :
    (∃ p, PRun n ops p) ∧
    ∀ p, PRun n ops p →
      Rep p ((Arena.new n).run ops).ctx.pre ((Arena.new n).run ops).ctx.rest ∧
      (p.sweeping = true ↔ ((Arena.new n).run ops).ctx.phase = .sweep) := by
  refine ⟨prun_exists ops _ _ (inv_init n) halive, fun p hp => ?_⟩
  have r := rep_run_from ops _ _ _ (inv_init n) halive (repC_init n) hp
  exact ⟨r.rep, r.mode⟩

/-- In every state of every history, no `next` field of an object on the list points anywhere but
    at an object on the list — which is allocated: never at a released block. -/
theorem no_dangling_next_run (n : Nat) (ops : List Op) (halive : ((Arena.new n).run ops).alive = true)
    (p : PList) (hp : PRun n ops p) (i : Nat) (hi : i ∈ ((Arena.new n).run ops).ctx.all) (t : Nat)
    (ht : p.next i = some t) :
    t ∈ ((Arena.new n).run ops).ctx.all ∧ ∃ o, ((Arena.new n).run ops).ctx.heap.get t = some o := by
  have hrep := ((rep_run n ops halive).2 p hp).1
  have hm := no_dangling_next hrep i hi t ht
  exact ⟨hm, ((inv_run n ops halive).cinv.memAll t).mp hm⟩

/-- In every state of every history, `DropAll` — dropping the arena there, in whatever phase —
    walks exactly the allocated objects, each once: its visit list is duplicate-free and an id is
    on it iff its block is allocated. -/
theorem drop_visits_all_run (n : Nat) (ops : List Op) (halive : ((Arena.new n).run ops).alive = true)
    (p : PList) (hp : PRun n ops p) :
    let visited := PList.walk p.next (((Arena.new n).run ops).ctx.all.length + 1) p.all
    visited = ((Arena.new n).run ops).ctx.all ∧ visited.Nodup ∧
    ∀ i, i ∈ visited ↔ ∃ o, ((Arena.new n).run ops).ctx.heap.get i = some o := by
  intro visited
  have hrep := ((rep_run n ops halive).2 p hp).1
  have hw : visited = ((Arena.new n).run ops).ctx.all := drop_visits_all hrep
  have hinv := (inv_run n ops halive).cinv
  refine ⟨hw, by rw [hw]; exact hinv.nodup, fun i => ?_⟩
  rw [hw]; exact hinv.memAll i

/-- The coupling takes the pointer statement `sweep_prev = None` of the end-of-list `sweep_one`
    (`'e'`) together with the `Sweep → Sleep` switch (`'Z'`).  That hides nothing: in every history
    whose collection calls are self-driven (`Context::do_collection` as written, any method, debt,
    pacing, fault) no state at an operation boundary has `'e'` as its newest step — the loop never
    returns between the two, so no `link`, callback or other call can run there.  (An oracle that cut
    a logged call between `'e'` and `'Z'` could; the harness logs whole calls.)  Also note:
    `PList.sweepOne` keeps (`sweep_prev := Some`) in every non-white arm, `Context::sweep_one`'s
    `Gray` arm does not touch `sweep_prev` — unreachable under the invariant (`sweepOne_refines`
    excludes gray under the cursor), so both agree on every reachable state. -/
theorem sweep_end_and_switch_adjacent_run (n : Nat) (ops : List Op)
    (hself : ∀ op, op ∈ ops → ∀ m k f o, op = .collect m k f o → o = none) :
    ((Arena.new n).run ops).ctx.steps.head? ≠ some 'e' :=
  selfdriven_run_never_stops_at_e n ops hself

example : ((Arena.new 2).run [.enter .mutateRoot, .alloc true [none], .leave,
    .collect .finishCycle .drop none none]).ctx.steps = ['Z', 'e', 'x', 'S', 'b', 'r', 'W'] := by decide

/-! ### Non-vacuity: dropping mid-sweep with a shell, a kept object and a condemned one -/

def demo : List Op := [
  .enter .mutateRoot, .alloc true [none], .alloc true [none], .alloc true [none], .downgrade 2,
  .rootStore 0 (some (.strong 0)), .rootStore 1 (some (.weak 2)), .leave,
  .collect .finishMarking .sweep none (some [.wake, .markStep none, .markStep none, .markBreak, .toSweep]),
  .collect .collectDebt .drop none (some [.sweepStep]),
  .dropArena ]

example : ((Arena.new 2).run demo).ctx.log =
    [.freed 0, .dropped 0, .freed 1, .dropped 1, .freed 2, .dropped 2] := by decide
example : ((Arena.new 2).run demo).ctx.metrics.totalGcs = 0 := by decide

/-- `rep_run` and its corollaries on `demo` stopped mid-sweep (one object passed by the cursor, two
    still ahead, a fourth allocated meanwhile): a coupled pointer-level run exists, represents the
    lists `pre = [3, 2]`, `rest = [1, 0]`, is in sweep mode, and `DropAll` would visit `[3, 2, 1, 0]`. -/
example :
    let ops := demo.take 10 ++ [.enter .mutate, .alloc true [none]]
    ((Arena.new 2).run ops).ctx.pre = [3, 2] ∧ ((Arena.new 2).run ops).ctx.rest = [1, 0] ∧
    ∃ p, PRun 2 ops p ∧ Rep p [3, 2] [1, 0] ∧ p.sweeping = true ∧
      PList.walk p.next 5 p.all = [3, 2, 1, 0] := by
  intro ops
  have hal : ((Arena.new 2).run ops).alive = true := by decide
  have hpre : ((Arena.new 2).run ops).ctx.pre = [3, 2] := by decide
  have hrest : ((Arena.new 2).run ops).ctx.rest = [1, 0] := by decide
  obtain ⟨⟨p, hp⟩, hall⟩ := rep_run 2 ops hal
  obtain ⟨hrep, hmode⟩ := hall p hp
  have hw := (drop_visits_all_run 2 ops hal p hp).1
  rw [hpre, hrest] at hrep
  refine ⟨hpre, hrest, p, hp, hrep, hmode.mpr (by decide), ?_⟩
  have hall' : ((Arena.new 2).run ops).ctx.all = [3, 2, 1, 0] := by decide
  rw [hall'] at hw
  exact hw

end GcArena.C04
