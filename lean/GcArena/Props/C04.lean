import GcArena.Proofs.Events
/-!
# C04 — Every value is destructed exactly once and all memory is returned

Event discipline: `dropped i` / `freed i` are appended to the monotone log only by `sweep_one` and
by `DropAll` (`Ctx.dropAll`).  The local facts below are proved; the history-level statements are
kept at full strength while the log invariant (`Proofs/LogInv`) is being developed.
-/
namespace GcArena.C04

open GcArena

/-- A sweep step destructs only a value that is still live (the `is_live` test of `sweep_one`),
    so releasing the shell of an already destructed object does not destruct it again. -/
theorem sweep_destructs_live_only {c : Ctx} {root temps} (h : CInv c root temps) (hp : c.phase = .sweep) :
    ∃ evs, NewEvents c c.sweepOne.1 evs ∧
      ∀ i, Event.dropped i ∈ evs → ∃ o, c.heap.get i = some o ∧ o.live = true := by
  obtain ⟨evs, hn, he⟩ := sweepOne_events h hp
  refine ⟨evs, hn, fun i hi => ?_⟩
  obtain ⟨_, _, o, ho, hl⟩ := he _ hi
  exact ⟨o, ho, hl rfl⟩

/-- `DropAll` on one object: destruct iff live, then release. -/
theorem drop_one (c : Ctx) (i : Nat) (o : Obj) (ho : c.heap.get i = some o) :
    (c.dropOne i).heap.get i = none ∧
    (c.dropOne i).log = (if o.live then [Event.freed i, Event.dropped i] else [Event.freed i]) ++ c.log := by
  unfold Ctx.dropOne
  simp only [ho]
  cases hl : o.live <;> simp [Heap.get_set]

/-- Mutator steps and every collector micro-step other than a sweep step emit nothing
    (E2; see also C03). -/
theorem only_sweep_emits {c c' : Ctx} {root} (h : CInv c root []) (m : Micro)
    (hs : c.micro root m = some c') (hm : m ≠ .sweepStep) : c'.log = c.log := by
  cases m with
  | sweepStep => exact absurd rfl hm
  | wake => simp only [Ctx.micro] at hs; split at hs <;> cases hs; rfl
  | toSweep => simp only [Ctx.micro] at hs; split at hs <;> cases hs; rfl
  | toSleep b => simp only [Ctx.micro] at hs; split at hs <;> cases hs; rfl
  | markStep f =>
    simp only [Ctx.micro] at hs
    split at hs
    · cases hs; rename_i hp
      simp only [Bool.and_eq_true, decide_eq_true_eq] at hp
      exact (markOne_spec h hp.1 f).2.log
    · cases hs
  | markBreak =>
    simp only [Ctx.micro] at hs
    split at hs
    · cases hs; rename_i hp
      simp only [Bool.and_eq_true, decide_eq_true_eq] at hp
      exact (markOne_spec h hp.1 none).2.log
    · cases hs
  | sweepEnd =>
    simp only [Ctx.micro] at hs
    split at hs
    · cases hs; rename_i hp
      simp only [Bool.and_eq_true, decide_eq_true_eq, List.isEmpty_iff] at hp
      simp [Ctx.sweepOne, hp.2]
    · cases hs

/-- Full statement: over any history, no id is destructed twice or released twice, and a release
    is preceded by the destruction. -/
def once_statement : Prop :=
  ∀ (n : Nat) (ops : List Op), ((Arena.new n).run ops).ctx.log.Nodup ∧
    ∀ i, Event.freed i ∈ ((Arena.new n).run ops).ctx.log → Event.dropped i ∈ ((Arena.new n).run ops).ctx.log

/-- Full statement: dropping the arena in any phase destructs exactly the live values, releases
    every block, and leaves the count at zero. -/
def drop_arena_statement : Prop :=
  ∀ (n : Nat) (ops : List Op), ((Arena.new n).run ops).alive = true → ((Arena.new n).run ops).cb = none →
    let a := (Arena.new n).run ops
    let a' := (a.step .dropArena).1
    a'.ctx.metrics.totalGcs = 0 ∧
    (∀ i, i < a.ctx.heap.size → Event.freed i ∈ a'.ctx.log ∧ Event.dropped i ∈ a'.ctx.log) ∧
    a'.ctx.log.Nodup

/-! ### Non-vacuity: dropping mid-sweep with a shell, a kept object and a condemned one -/

def demo : List Op := [
  .enter .mutateRoot, .alloc true [none], .alloc true [none], .alloc true [none], .downgrade 2,
  .rootStore 0 (some (.strong 0)), .rootStore 1 (some (.weak 2)), .leave,
  .collect .finishMarking .sweep none (some [.wake, .markStep none, .markStep none, .markBreak, .toSweep]),
  .collect .collectDebt .drop none (some [.sweepStep]),
  .dropArena ]

example : ((Arena.new 2).run demo).ctx.log =
    [.freed 0, .dropped 0, .freed 1, .dropped 1, .freed 2, .dropped 2] := by decide
example : ((Arena.new 2).run demo).ctx.metrics.totalGcs = 0 := by decide

end GcArena.C04
