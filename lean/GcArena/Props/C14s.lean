import GcArena.Proofs.InvRun
/-!
# C14 (companion) — composition of the DynamicRootSet slot-table theorems with the collector

The set object is an ordinary object of the collector model whose traced slots are
`DynRoots.Slots.traced`; `stash` is `backward_barrier(set, Some(root))` followed by the slot store.
`GcArena.C14.traced_while_handle` (Props/C14.lean) shows that the set object reports the stashed
pointer while a handle exists; the theorem here shows what the collector does with a pointer that
an accessible object reports: it, and everything strongly reachable from it, is kept — in every
state of every history, in every phase.  Together: a stashed object and its closure survive every
collection while a handle exists.
-/
namespace GcArena.C14s

open GcArena

theorem closure_accessible {a : Arena} {p j : Nat} (hp : Accessible a p)
    (hj : AccessibleC a.ctx [] [Ptr.strong p] j) : Accessible a j := by
  induction hj with
  | root t h => cases h
  | temp t h =>
    simp only [List.mem_singleton, Ptr.strong.injEq] at h
    subst h; exact hp
  | edge i t _ e ih => exact .edge i t ih e

/-- If the set object `s` is accessible (held by the root, directly or not) and reports the stashed
    pointer `p` among its traced slots, then `p` and everything strongly reachable from `p` is
    allocated, undestructed and not condemned — after every operation sequence, in every phase. -/
theorem stashed_survives (n : Nat) (ops : List Op) (halive : ((Arena.new n).run ops).alive = true)
    (s p : Nat) (o : Obj) (hs : Accessible ((Arena.new n).run ops) s)
    (ho : ((Arena.new n).run ops).ctx.heap.get s = some o) (hp : some (Ptr.strong p) ∈ o.slots) :
    ∀ j, AccessibleC ((Arena.new n).run ops).ctx [] [Ptr.strong p] j → Safe ((Arena.new n).run ops).ctx j := by
  intro j hj
  have hi := inv_run n ops halive
  have hpa : Accessible ((Arena.new n).run ops) p := .edge s p hs ⟨o, ho, hp⟩
  exact hi.safe_of_accessible (closure_accessible hpa hj)

/-- Non-vacuity: object 0 plays the set object, holds 1 (the stashed pointer), which holds 2. -/
example :
    let ops : List Op := [.enter .mutateRoot, .alloc true [none], .alloc true [none], .alloc true [none],
      .store .write 1 0 (some (.strong 2)), .store .write 0 0 (some (.strong 1)),
      .rootStore 0 (some (.strong 0)), .leave]
    ((Arena.new 1).run ops).alive = true ∧ ((Arena.new 1).run ops).root = [some (.strong 0)] := by decide

end GcArena.C14s
